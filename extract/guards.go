package main

import (
	"fmt"
	"go/ast"
	"go/constant"
	"go/token"
	"go/types"
	"sort"
	"strings"

	"golang.org/x/tools/go/packages"
)

// Expression translator: Go integer/boolean expressions -> Lean terms over Int / Bool.
// len(x) becomes the variable len_x, identifiers that are constants are replaced by their value,
// other identifiers and selector chains become variables. Anything else is reported as untranslatable.

type tr struct {
	info *types.Info
	vars map[string]bool // free variables (all Int unless in boolVars)
	bools map[string]bool
	err  error
}

func (t *tr) fail(format string, a ...any) string {
	if t.err == nil {
		t.err = fmt.Errorf(format, a...)
	}
	return "0"
}

func flatName(e ast.Expr) (string, bool) {
	switch x := e.(type) {
	case *ast.Ident:
		return x.Name, true
	case *ast.SelectorExpr:
		b, ok := flatName(x.X)
		if !ok {
			return "", false
		}
		return b + "_" + x.Sel.Name, true
	case *ast.ParenExpr:
		return flatName(x.X)
	case *ast.StarExpr:
		return flatName(x.X)
	}
	return "", false
}

func (t *tr) isBool(e ast.Expr) bool {
	if tv, ok := t.info.Types[e]; ok && tv.Type != nil {
		if b, ok := tv.Type.Underlying().(*types.Basic); ok {
			return b.Info()&types.IsBoolean != 0
		}
	}
	return false
}

// intExpr translates an integer-valued expression.
func (t *tr) intExpr(e ast.Expr) string {
	if tv, ok := t.info.Types[e]; ok && tv.Value != nil && tv.Value.Kind() == constant.Int {
		v := tv.Value.ExactString()
		if strings.HasPrefix(v, "-") {
			return "(" + v + ")"
		}
		return v
	}
	switch x := e.(type) {
	case *ast.ParenExpr:
		return t.intExpr(x.X)
	case *ast.BasicLit:
		return x.Value
	case *ast.Ident, *ast.SelectorExpr:
		n, ok := flatName(e)
		if !ok {
			return t.fail("untranslatable operand %T", e)
		}
		t.vars[n] = true
		return n
	case *ast.CallExpr:
		if id, ok := x.Fun.(*ast.Ident); ok {
			if id.Name == "len" && len(x.Args) == 1 {
				n, ok := flatName(x.Args[0])
				if !ok {
					return t.fail("len of complex expression")
				}
				t.vars["len_"+n] = true
				return "len_" + n
			}
			// integer conversions int(x), uint64(x), byte(x) ...: value-preserving in the ranges the guards establish
			if len(x.Args) == 1 {
				if _, isType := t.info.Uses[id].(*types.TypeName); isType {
					return t.intExpr(x.Args[0])
				}
			}
			if id.Name == "min" && len(x.Args) == 2 {
				return "(min " + t.intExpr(x.Args[0]) + " " + t.intExpr(x.Args[1]) + ")"
			}
		}
		if sel, ok := x.Fun.(*ast.SelectorExpr); ok && len(x.Args) == 0 {
			// method call without arguments, e.g. s.Size(): a variable named after it
			n, ok := flatName(sel)
			if ok {
				t.vars["call_"+n] = true
				return "call_" + n
			}
		}
		return t.fail("untranslatable call")
	case *ast.UnaryExpr:
		if x.Op == token.SUB {
			return "(- " + t.intExpr(x.X) + ")"
		}
	case *ast.BinaryExpr:
		a, b := t.intExpr(x.X), t.intExpr(x.Y)
		switch x.Op {
		case token.ADD:
			return "(" + a + " + " + b + ")"
		case token.SUB:
			return "(" + a + " - " + b + ")"
		case token.MUL:
			return "(" + a + " * " + b + ")"
		case token.QUO:
			return "(Int.tdiv " + a + " " + b + ")"
		case token.REM:
			return "(Int.tmod " + a + " " + b + ")"
		case token.SHL:
			return "(" + a + " * 2 ^ (" + b + ").toNat)"
		case token.SHR:
			return "(" + a + " / 2 ^ (" + b + ").toNat)"
		}
	}
	return t.fail("untranslatable integer expression %T", e)
}

// boolExpr translates a boolean expression into a Lean Bool term.
func (t *tr) boolExpr(e ast.Expr) string {
	switch x := e.(type) {
	case *ast.ParenExpr:
		return t.boolExpr(x.X)
	case *ast.UnaryExpr:
		if x.Op == token.NOT {
			return "(!" + t.boolExpr(x.X) + ")"
		}
	case *ast.BinaryExpr:
		switch x.Op {
		case token.LAND:
			return "(" + t.boolExpr(x.X) + " && " + t.boolExpr(x.Y) + ")"
		case token.LOR:
			return "(" + t.boolExpr(x.X) + " || " + t.boolExpr(x.Y) + ")"
		case token.LSS, token.LEQ, token.GTR, token.GEQ, token.EQL, token.NEQ:
			if t.isBool(x.X) {
				a, b := t.boolExpr(x.X), t.boolExpr(x.Y)
				if x.Op == token.EQL {
					return "(" + a + " == " + b + ")"
				}
				return "(" + a + " != " + b + ")"
			}
			// nil comparisons: x == nil becomes the boolean variable nil_x
			if id, ok := x.Y.(*ast.Ident); ok && id.Name == "nil" {
				n, ok := flatName(x.X)
				if ok {
					t.bools["nil_"+n] = true
					if x.Op == token.EQL {
						return "nil_" + n
					}
					return "(!nil_" + n + ")"
				}
			}
			a, b := t.intExpr(x.X), t.intExpr(x.Y)
			op := map[token.Token]string{token.LSS: "<", token.LEQ: "≤", token.GTR: ">", token.GEQ: "≥", token.EQL: "=", token.NEQ: "≠"}[x.Op]
			return "(decide (" + a + " " + op + " " + b + "))"
		}
	case *ast.Ident, *ast.SelectorExpr:
		if tv, ok := t.info.Types[e]; ok && tv.Value != nil && tv.Value.Kind() == constant.Bool {
			return fmt.Sprint(constant.BoolVal(tv.Value))
		}
		n, ok := flatName(e)
		if ok {
			t.bools[n] = true
			return n
		}
	case *ast.CallExpr:
		if sel, ok := x.Fun.(*ast.SelectorExpr); ok {
			n, ok := flatName(sel)
			if ok {
				t.bools["call_"+n] = true
				return "call_" + n
			}
		}
		if id, ok := x.Fun.(*ast.Ident); ok {
			t.bools["call_"+id.Name] = true
			return "call_" + id.Name
		}
	}
	return t.fail("untranslatable boolean expression %T", e)
}

func (t *tr) params() string {
	var iv, bv []string
	for v := range t.vars {
		iv = append(iv, v)
	}
	for v := range t.bools {
		bv = append(bv, v)
	}
	sort.Strings(iv)
	sort.Strings(bv)
	s := ""
	if len(iv) > 0 {
		s += " (" + strings.Join(iv, " ") + " : Int)"
	}
	if len(bv) > 0 {
		s += " (" + strings.Join(bv, " ") + " : Bool)"
	}
	return s
}

// returnsEarly reports whether a block ends by leaving the function (return / panic).
func returnsEarly(b *ast.BlockStmt) bool {
	if len(b.List) == 0 {
		return false
	}
	switch s := b.List[len(b.List)-1].(type) {
	case *ast.ReturnStmt:
		return true
	case *ast.ExprStmt:
		if c, ok := s.X.(*ast.CallExpr); ok {
			if id, ok := c.Fun.(*ast.Ident); ok && id.Name == "panic" {
				return true
			}
		}
	}
	return false
}

type funcKey struct{ pkg, name string }

func funcName(fd *ast.FuncDecl) string {
	if fd.Recv != nil && len(fd.Recv.List) == 1 {
		t := fd.Recv.List[0].Type
		if st, ok := t.(*ast.StarExpr); ok {
			t = st.X
		}
		if id, ok := t.(*ast.Ident); ok {
			return id.Name + "_" + fd.Name.Name
		}
	}
	return fd.Name.Name
}

// guardsFile emits, for every function of the three packages (non-test files), its top-level
// early-return conditions `if c { ...; return }` in source order, and the integer assignments listed
// in namedAssigns.
var namedAssigns = map[funcKey][]string{
	{"hash", "bytepad"}: {"padlen"},
}

func guardsFile(pkgs []*packages.Package) string {
	var sb strings.Builder
	sb.WriteString("/-! GENERATED by /verif/extract from /repo's working tree. Do not edit.\n    Early-return conditions of every function (top-level `if c { … return }`), translated\n    expression by expression into Lean terms over Int / Bool. -/\n\nnamespace Extracted.Guards\n\n")
	var index []string
	for _, p := range pkgs {
		for _, f := range p.Syntax {
			fname := p.Fset.Position(f.Pos()).Filename
			if strings.HasSuffix(fname, "_test.go") || !strings.HasPrefix(fname, "/") || strings.Contains(fname, "/go-build/") || strings.Contains(fname, "cgo") && !strings.HasSuffix(fname, ".go") {
				continue
			}
			for _, d := range f.Decls {
				fd, ok := d.(*ast.FuncDecl)
				if !ok || fd.Body == nil {
					continue
				}
				fn := funcName(fd)
				k := 0
				for _, st := range fd.Body.List {
					ifs, ok := st.(*ast.IfStmt)
					if !ok || ifs.Init != nil || !returnsEarly(ifs.Body) {
						continue
					}
					t := &tr{info: p.TypesInfo, vars: map[string]bool{}, bools: map[string]bool{}}
					body := t.boolExpr(ifs.Cond)
					if t.err != nil {
						fmt.Fprintf(&sb, "-- %s_%s guard %d not translated: %v\n", p.Name, fn, k, t.err)
						k++
						continue
					}
					name := fmt.Sprintf("%s_%s_g%d", p.Name, fn, k)
					fmt.Fprintf(&sb, "def %s%s : Bool := %s\n", name, t.params(), body)
					index = append(index, name)
					k++
				}
				if names, ok := namedAssigns[funcKey{p.Name, fn}]; ok {
					ast.Inspect(fd.Body, func(n ast.Node) bool {
						as, ok := n.(*ast.AssignStmt)
						if !ok || len(as.Lhs) != 1 || len(as.Rhs) != 1 {
							return true
						}
						id, ok := as.Lhs[0].(*ast.Ident)
						if !ok {
							return true
						}
						for _, want := range names {
							if id.Name == want {
								t := &tr{info: p.TypesInfo, vars: map[string]bool{}, bools: map[string]bool{}}
								body := t.intExpr(as.Rhs[0])
								if t.err != nil {
									fmt.Fprintf(&sb, "-- %s_%s assign %s not translated: %v\n", p.Name, fn, want, t.err)
								} else {
									fmt.Fprintf(&sb, "def %s_%s_%s%s : Int := %s\n", p.Name, fn, want, t.params(), body)
								}
							}
						}
						return true
					})
				}
			}
		}
	}
	sb.WriteString("\nend Extracted.Guards\n")
	return sb.String()
}
