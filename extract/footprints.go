package main

import (
	"bytes"
	"fmt"
	"go/ast"
	"go/printer"
	"go/token"
	"go/types"
	"os"
	"regexp"
	"sort"
	"strings"

	"golang.org/x/tools/go/packages"
)

// footprintsFile: for every function of the three packages, (1) the assignments whose target is reachable
// from the receiver, a parameter or a package-level variable ("shared roots"), (2) the method calls made on
// shared roots, (3) the cgo calls with, per argument, whether it points into a shared root; plus the
// const-ness of every parameter of the C prototypes declared in the repository's headers.
func footprintsFile(pkgs []*packages.Package, repo string) string {
	type fp struct {
		name   string
		writes []string
		calls  []string
		cgo    []string
	}
	var fps []fp
	for _, p := range pkgs {
		for _, f := range p.Syntax {
			fname := p.Fset.Position(f.Pos()).Filename
			if strings.HasSuffix(fname, "_test.go") {
				continue
			}
			for _, d := range f.Decls {
				fd, ok := d.(*ast.FuncDecl)
				if !ok || fd.Body == nil {
					continue
				}
				shared := map[types.Object]string{}
				addFields := func(fl *ast.FieldList, kind string) {
					if fl == nil {
						return
					}
					for _, fld := range fl.List {
						for _, n := range fld.Names {
							if o := p.TypesInfo.Defs[n]; o != nil {
								shared[o] = kind
							}
						}
					}
				}
				addFields(fd.Recv, "recv")
				addFields(fd.Type.Params, "param")
				rootOf := func(e ast.Expr) (string, bool) {
					for {
						switch x := e.(type) {
						case *ast.ParenExpr:
							e = x.X
						case *ast.SelectorExpr:
							e = x.X
						case *ast.IndexExpr:
							e = x.X
						case *ast.SliceExpr:
							e = x.X
						case *ast.StarExpr:
							e = x.X
						case *ast.UnaryExpr:
							e = x.X
						case *ast.TypeAssertExpr:
							e = x.X
						case *ast.CallExpr:
							// conversions such as (*C.E2)(&pk.point)
							if len(x.Args) == 1 {
								e = x.Args[0]
								continue
							}
							return "", false
						case *ast.Ident:
							o := p.TypesInfo.Uses[x]
							if o == nil {
								o = p.TypesInfo.Defs[x]
							}
							if o == nil {
								return "", false
							}
							if k, ok := shared[o]; ok {
								return k + ":" + x.Name, true
							}
							if v, ok := o.(*types.Var); ok && v.Parent() == p.Types.Scope() {
								return "global:" + x.Name, true
							}
							return "", false
						default:
							return "", false
						}
					}
				}
				text := func(e ast.Expr) string {
					var buf bytes.Buffer
					printer.Fprint(&buf, p.Fset, e)
					return buf.String()
				}
				cur := fp{name: p.Name + "." + funcName(fd)}
				ast.Inspect(fd.Body, func(n ast.Node) bool {
					switch x := n.(type) {
					case *ast.AssignStmt:
						if x.Tok == token.DEFINE {
							// aliases: a new variable bound to (a type assertion / field / element of) a shared root points into it
							if len(x.Rhs) == 1 {
								if r, ok := rootOf(x.Rhs[0]); ok {
									_, isCall := x.Rhs[0].(*ast.CallExpr)
									tv := p.TypesInfo.Types[x.Rhs[0]]
									pointerLike := false
									if tv.Type != nil {
										switch tv.Type.Underlying().(type) {
										case *types.Pointer, *types.Slice, *types.Map, *types.Interface:
											pointerLike = true
										}
									}
									if _, isTA := x.Rhs[0].(*ast.TypeAssertExpr); (isTA || pointerLike) && !isCall {
										if id, ok := x.Lhs[0].(*ast.Ident); ok {
											if o := p.TypesInfo.Defs[id]; o != nil {
												shared[o] = "alias(" + r + ")"
											}
										}
									}
								}
							}
							return true
						}
						for _, l := range x.Lhs {
							if id, ok := l.(*ast.Ident); ok {
								// rebinding a parameter variable itself is local; only writes *through* it matter
								_ = id
								continue
							}
							if r, ok := rootOf(l); ok {
								cur.writes = append(cur.writes, r+" <- "+text(l))
							}
						}
					case *ast.IncDecStmt:
						if _, isIdent := x.X.(*ast.Ident); !isIdent {
							if r, ok := rootOf(x.X); ok {
								cur.writes = append(cur.writes, r+" <- "+text(x.X))
							}
						}
					case *ast.CallExpr:
						fun := x.Fun
						if pe, ok := fun.(*ast.ParenExpr); ok {
							fun = pe.X
						}
						if id, ok := fun.(*ast.Ident); ok && strings.HasPrefix(id.Name, "_Cfunc_") {
							var args []string
							for _, a := range x.Args {
								if r, ok := rootOf(a); ok {
									args = append(args, r)
								} else {
									args = append(args, "local")
								}
							}
							cur.cgo = append(cur.cgo, strings.TrimPrefix(id.Name, "_Cfunc_")+"|"+strings.Join(args, "|"))
							return true
						}
						if se, ok := x.Fun.(*ast.SelectorExpr); ok {
							if id, ok := se.X.(*ast.Ident); ok && id.Name == "C" {
								var args []string
								for _, a := range x.Args {
									if r, ok := rootOf(a); ok {
										args = append(args, r)
									} else {
										args = append(args, "local")
									}
								}
								cur.cgo = append(cur.cgo, se.Sel.Name+"|"+strings.Join(args, "|"))
								return true
							}
							if r, ok := rootOf(se.X); ok {
								cur.calls = append(cur.calls, r+"|"+se.Sel.Name)
							}
						}
						// copy(dst, src) and append-free builtins writing to a shared destination
						if id, ok := x.Fun.(*ast.Ident); ok && id.Name == "copy" && len(x.Args) == 2 {
							if r, ok := rootOf(x.Args[0]); ok {
								cur.writes = append(cur.writes, r+" <- copy("+text(x.Args[0])+")")
							}
						}
					}
					return true
				})
				sort.Strings(cur.writes)
				sort.Strings(cur.calls)
				sort.Strings(cur.cgo)
				fps = append(fps, cur)
			}
		}
	}
	sort.Slice(fps, func(i, j int) bool { return fps[i].name < fps[j].name })
	lst := func(l []string) string {
		q := make([]string, 0, len(l))
		seen := map[string]bool{}
		for _, s := range l {
			if !seen[s] {
				seen[s] = true
				q = append(q, leanStr(s))
			}
		}
		return "[" + strings.Join(q, ", ") + "]"
	}
	var sb strings.Builder
	sb.WriteString("/-! GENERATED by /verif/extract from /repo's working tree. Do not edit.\n    Write footprints on shared roots (receiver, parameters, package variables), method calls on shared roots,\n    cgo calls with the provenance of each argument, and const-ness of the C prototypes. -/\n\nnamespace Extracted.Footprints\n\n")
	sb.WriteString("structure Fn where\n  name : String\n  writes : List String\n  calls : List (String × String)          -- (shared root, method)\n  cgo : List (String × List String)      -- (C function, provenance of each argument: \"local\" or a shared root)\nderiving Repr, DecidableEq\n\ndef fns : List Fn := [\n")
	pairs := func(l []string) string {
		seen := map[string]bool{}
		var q []string
		for _, s := range l {
			if seen[s] {
				continue
			}
			seen[s] = true
			p := strings.SplitN(s, "|", 2)
			q = append(q, "("+leanStr(p[0])+", "+leanStr(p[1])+")")
		}
		return "[" + strings.Join(q, ", ") + "]"
	}
	cgos := func(l []string) string {
		seen := map[string]bool{}
		var q []string
		for _, s := range l {
			if seen[s] {
				continue
			}
			seen[s] = true
			p := strings.Split(s, "|")
			as := make([]string, 0, len(p)-1)
			for _, a := range p[1:] {
				as = append(as, leanStr(a))
			}
			q = append(q, "("+leanStr(p[0])+", ["+strings.Join(as, ", ")+"])")
		}
		return "[" + strings.Join(q, ", ") + "]"
	}
	for i, f := range fps {
		fmt.Fprintf(&sb, "  ⟨%s, %s, %s, %s⟩", leanStr(f.name), lst(f.writes), pairs(f.calls), cgos(f.cgo))
		if i+1 < len(fps) {
			sb.WriteString(",")
		}
		sb.WriteString("\n")
	}
	sb.WriteString("]\n\n")
	// C prototypes: name -> per parameter const flag
	protoRe := regexp.MustCompile(`(?s)\b(?:int|void|bool|ERROR)\s+(\w+)\s*\(([^;{]*?)\)\s*;`)
	type proto struct {
		name   string
		consts []bool
	}
	var protos []proto
	for _, h := range []string{"bls_include.h", "bls12381_utils.h", "bls_thresholdsign_include.h", "dkg_include.h"} {
		src, err := os.ReadFile(repo + "/" + h)
		if err != nil {
			continue
		}
		for _, m := range protoRe.FindAllStringSubmatch(string(src), -1) {
			var cs []bool
			for _, prm := range strings.Split(m[2], ",") {
				prm = strings.TrimSpace(prm)
				isPtr := strings.Contains(prm, "*") || strings.Contains(prm, "[")
				cs = append(cs, !isPtr || strings.HasPrefix(prm, "const "))
			}
			protos = append(protos, proto{m[1], cs})
		}
	}
	sort.Slice(protos, func(i, j int) bool { return protos[i].name < protos[j].name })
	sb.WriteString("/-- per C function: for each parameter, `true` when it is passed by value or through a pointer to const -/\ndef cProtos : List (String × List Bool) := [\n")
	for i, pr := range protos {
		bs := make([]string, len(pr.consts))
		for k, b := range pr.consts {
			bs[k] = fmt.Sprint(b)
		}
		fmt.Fprintf(&sb, "  (%s, [%s])", leanStr(pr.name), strings.Join(bs, ", "))
		if i+1 < len(protos) {
			sb.WriteString(",")
		}
		sb.WriteString("\n")
	}
	sb.WriteString("]\n\nend Extracted.Footprints\n")
	return sb.String()
}
