#!/usr/bin/env python3
"""usage: tools/seed_prompts.py <outdir> C01 C02 ...
Writes one prompt file per property for an independent sub-agent that is asked to seed a property-breaking change.
The prompt holds only the text of the property, the list of mechanisms already used for it (one line each, taken from
seeded/*/meta.json, so that new seeds differ) and the location of the agent's own scratch worktree; nothing else from
/verif is given to the agent."""
import json, sys, os, glob

out = sys.argv[1]
ids = sys.argv[2:]
os.makedirs(out, exist_ok=True)
props = {}
for line in open('/verif/properties.jsonl'):
    line = line.strip()
    if line:
        p = json.loads(line)
        props[p['id']] = p
used = {}
for f in sorted(glob.glob('/verif/seeded/*/meta.json')):
    m = json.load(open(f))
    used.setdefault(m['property'], []).append(m['summary'])

T = """You are helping test a verification effort for the Go module github.com/onflow/crypto (Flow blockchain crypto: BLS12-381 signatures via cgo+BLST, threshold signatures, DKG, ECDSA, SHA3/KMAC, ChaCha20 PRG). You have your own scratch git worktree of the repository at /tmp/seedwt_{id} (work ONLY there; never touch /repo or /verif, and do not read anything under /verif or under /root/.claude).

Here is a semantic property of the library that should hold:

ID: {id}
Title: {title}
Statement: {statement}
Quantifier: {quant}
Why the existing tests cannot settle it: {why}
Code anchors: {anchors}

YOUR TASK: produce ONE realistic change to the library source in /tmp/seedwt_{id} (Go or the repo's own C glue files; not test files, not blst_src) that BREAKS this property while (a) the code still compiles and (b) the entire existing test suite still passes. The change should look like a plausible refactor/optimization/bug a developer could introduce, and it must need something SPECIFIC to manifest: a particular interleaving, a fault at a particular point, a multi-step sequence of operations (call history), an unusual input, or two cooperating sites that each look fine alone. NOT something ordinary use would expose at once. Be inventive and subtle: prefer mechanisms such as stale caches, state carried between calls, boundary values of sizes/indices/limbs, rarely-taken branches, ordering of checks, integer width and sign, error paths that leave state half-updated, and interactions between two functions.

Ideas already used for this property by others (do NOT repeat these; find a different mechanism or different code site):
{used}

Environment (no network): in every shell call first run
  export GOFLAGS=-mod=mod GOPROXY=off GOSUMDB=off GOTOOLCHAIN=local PATH=/opt/veriftools/go1.26.8/bin:$PATH
Run the existing suite with:  cd /tmp/seedwt_{id} && go test -vet=off -count=1 ./...   (takes several minutes because of cgo; package `random` has statistical tests that very rarely flake - rerun once if only such a test fails).

Deliverables, all in the directory /tmp/seedout_{id}/ :
 1. patch.diff  -- output of `git -C /tmp/seedwt_{id} diff` (source change only; must apply cleanly to the worktree's HEAD with `git apply`).
 2. A demonstration: ONE Go test file named seed_demo_test.go whose test function(s) are named TestSeedDemo... , in the package of the code it exercises (package crypto at the repo root, or package hash in hash/, or package random in random/). Copied into that package directory it must PASS on the unmodified tree and FAIL with your patch applied: `go test -vet=off -count=1 -run TestSeedDemo ./<pkgdir>/`. If it needs the race detector or special flags say so in notes.md (e.g. DEMO_FLAGS=-race). The demo file must NOT be part of patch.diff.
 3. notes.md -- a few lines: what the change is, why it breaks the property, what specific condition it needs to manifest, and confirmation of what you ran (suite passes with patch; demo passes without, fails with).

Verify all three claims yourself before finishing (apply/unapply your patch with git stash or git apply -R). Leave the worktree with your patch applied or not - it does not matter; do not commit. Keep your final answer short: the one-line summary of the change and what it needs to manifest.
"""
for i in ids:
    p = props[i]
    txt = T.format(id=i, title=p['title'], statement=p['statement'], quant=p['quantifier']['text'],
                   why=p['why_tests_cant'], anchors=json.dumps(p['anchors']),
                   used="\n".join("- " + u for u in used.get(i, [])) or "- (none yet)")
    open(os.path.join(out, i + '.txt'), 'w').write(txt)
    print(i, len(used.get(i, [])), 'earlier ideas')
