#!/usr/bin/env python3
"""Copies the regenerated table of index sites into lean/Props/C09Audit.lean (run after reviewing the sites that changed)."""
src=open('/verif/lean/Extracted/Hazards.lean').read()
i=src.index("def indexSites")
body=src[i:src.index("]\n",i)+2].replace("def indexSites","def auditedIndexSites")
p='/verif/lean/Props/C09Audit.lean'
s=open(p).read()
j=s.index("/-- how many index")
k=s.index("end Props.C09Audit")
open(p,'w').write(s[:j]+body+"\n"+s[k:])
