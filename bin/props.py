"""Per-property configuration of bin/check."""

COMMON_TB = [
    "Lean 4.33.0 kernel (axioms admitted: propext, Classical.choice, Quot.sound; no native_decide, no bv_decide, no sorry)",
    "/verif/extract (go/packages based fact extractor) and /verif/harness (Go correspondence harness), bin/check",
]

CONFIG = {}

CONFIG["C14"] = dict(
    lean_modules=["Props.C14"],
    generators=["C14"],
    level="proof",
    rule="structured generator: constructor lengths 0..64/0..14, restore lengths 0..60, random read-size sequences over "
         "{0,1,2,31,63,64,65,127,128,129,191,192,193,1000}, store/restore at every byte offset (quick 0..260, thorough 0..1099) "
         "followed by reads and derived draws, restore at offsets around 64*k for random k < 2^31; a case is distinct if its "
         "protocol line is distinct; every case is compared byte for byte with the Lean model's keystream",
    trusted_base=COMMON_TB + [
        "modelled, not verified: golang.org/x/crypto/chacha20 (Cipher.XORKeyStream/SetCounter) - its agreement with Model.ChaCha20.block "
        "(RFC 8439 block function, KAT checked in the kernel) and with Model.Prg.Cipher.take is established by the correspondence run only",
    ],
    technique="Lean 4 proof (invariant over read sequences, restore/store round-trip) + differential run of model vs real code",
    level_text="Theorems for every seed, customizer, read-size sequence and store offset (< 2^38 bytes) over an arbitrary 64-byte block function; "
               "the RFC 8439 block function is a kernel-checked KAT; x/crypto's cipher is tied to the model by correspondence",
    level_note="Lean kernel; x/crypto chacha20 modelled (buffering + block function) and compared on generated op sequences; constants regenerated from source",
    assumptions=["total output below 2^38 bytes (RFC 8439 32-bit block counter) for restore_store; below 2^64 for read_concat"],
)

CONFIG["C15"] = dict(
    lean_modules=["Props.C15"],
    generators=["C15"],
    level="proof",
    rule="UintN at n in {0,1,2,3,2^k,2^k+-1 (k<64),2^64-1} after a wide draw (stale scratch bytes), random n; Permutation/SubPermutation/"
         "Samples/Shuffle for all (n,m) in [-1,8]x[-1,9], random (n,m) up to 300, negative arguments; every output is predicted exactly by "
         "the Lean model from its own ChaCha20 keystream; a case is distinct if its protocol line is distinct",
    trusted_base=COMMON_TB + ["modelled, not verified: x/crypto chacha20 (see C14)"],
    technique="Lean 4 proof (range, permutation invariant by induction over the Fisher-Yates loop, swap shape, error guards) + differential run",
    level_text="Theorems for every n, (n,m) and generator state: UintN in range, Permutation is a permutation (count invariant), SubPermutation a prefix of one, "
               "Samples applies swaps (i,i+j) with i+j<n, error guards. Exact uniformity (counting over tapes) is NOT yet proved: partial.",
    level_note="Lean kernel; rejection loop modelled with fuel (the model does not return when fuel is exhausted; the harness never hit that); "
               "uniformity of the distribution is argued in DESIGN.md but only the structural facts are theorems so far",
    assumptions=["PRG bytes are as in C14"],
)
