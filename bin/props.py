"""Per-property configuration of bin/check."""

COMMON_TB = [
    "Lean 4.33.0 kernel (axioms admitted: propext, Classical.choice, Quot.sound; no native_decide, no bv_decide, no sorry)",
    "/verif/extract (go/packages based fact extractor) and /verif/harness (Go correspondence harness), bin/check",
]

CONFIG = {}

CONFIG["C14"] = dict(
    lean_modules=["Props.C14", "Props.C14Restore"],
    generators=["C14"],
    level="proof",
    rule="structured generator: constructor lengths 0..64/0..14, restore lengths 0..60, random read-size sequences over "
         "{0,1,2,31,63,64,65,127,128,129,191,192,193,1000}, store/restore at every byte offset (quick 0..260, thorough 0..1099) "
         "followed by reads and derived draws, restore at offsets around 64*k for random k < 2^31; a case is distinct if its "
         "protocol line is distinct; every case is compared byte for byte with the Lean model's keystream",
    trusted_base=COMMON_TB + [
        "modelled, not verified: golang.org/x/crypto/chacha20 (Cipher.XORKeyStream/SetCounter) - its agreement with Model.ChaCha20.block "
        "(RFC 8439 block function, KAT checked in the kernel) and with Model.Prg.Cipher.take is established by the correspondence run only",
    ],
    technique="Lean 4 proof (invariant over read sequences, restore/store round-trip) + differential run of model vs real code",
    level_text="Theorems for every seed, customizer, read-size sequence and store offset (< 2^38 bytes) over an arbitrary 64-byte block function; "
               "the RFC 8439 block function is a kernel-checked KAT; x/crypto's cipher is tied to the model by correspondence. "
               "Props.C14Restore: for EVERY 52-byte string RestoreChacha20PRG accepts (not only outputs of Store): the restored generator holds exactly the string's fields (restore_fields), "
               "Store() of it returns the same bytes (store_restore) and, for a counter field T < 2^38, it satisfies the invariant of a generator that has output T bytes (restore_positions), so read_spec applies to it",
    level_note="Lean kernel; x/crypto chacha20 modelled (buffering + block function) and compared on generated op sequences; constants regenerated from source",
    assumptions=["total output below 2^38 bytes (RFC 8439 32-bit block counter) for restore_store; below 2^64 for read_concat"],
)

CONFIG["C15"] = dict(
    lean_modules=["Props.C15"],
    generators=["C15"],
    level="proof",
    rule="UintN at n in {0,1,2,3,2^k,2^k+-1 (k<64),2^64-1} after a wide draw (stale scratch bytes), random n; Permutation/SubPermutation/"
         "Samples/Shuffle for all (n,m) in [-1,8]x[-1,9], random (n,m) up to 300, negative arguments; every output is predicted exactly by "
         "the Lean model from its own ChaCha20 keystream; a case is distinct if its protocol line is distinct",
    trusted_base=COMMON_TB + ["modelled, not verified: x/crypto chacha20 (see C14)"],
    technique="Lean 4 proof (range, permutation invariant by induction over the Fisher-Yates loop, swap shape, error guards) + differential run",
    level_text="Theorems for every n, (n,m) and generator state: UintN in range, Permutation is a permutation (count invariant), SubPermutation a prefix of one, "
               "Samples applies swaps (i,i+j) with i+j<n, error guards. Exact uniformity of UintN: the candidate is the fresh bytes' number mod 2^k (stale scratch bytes never matter), every value < 2^k is hit by exactly 2^(8*size-k) of the 256^size byte strings, the loop returns the first accepted candidate. "
               "Equal likelihood of the shuffles: Permutation is the pure inside-out Fisher-Yates on the vector of its draws (permutation_run) and that map is injective on the n! valid choice vectors "
               "(permutation_choices_injective) and onto the arrangements of 0..n-1 (permutation_every_outcome_once: every permutation is the outcome of exactly one draw vector - the last step of the loop can be undone, Proofs/FisherYatesSurj); Samples/Shuffle report the swaps of a valid choice vector (samplesLoop_choices) and distinct vectors give distinct ordered samples on any array of distinct elements (samples_choices_injective).",
    level_note="Lean kernel; rejection loop modelled with fuel (the model does not return when fuel is exhausted; the harness never hit that); "
               "the product-counting steps (per-attempt uniformity -> distribution of the rejection loop; uniform independent choices + injectivity -> uniform outcomes) are the classical arguments, not formalised as probability statements",
    assumptions=["PRG bytes are as in C14"],
)

CONFIG["C05"] = dict(
    lean_modules=["Props.C05", "Props.C05Model"],
    generators=["C05"],
    level="proof",
    rule="per decoder (BLS private/public/signature parsing, ECDSA private/raw public/compressed public on P-256 and secp256k1): all lengths 0..200, "
         "boundary scalars (0,1,r-1,r,r+1,2^256-1), every flag-bit combination, coordinates 0,1,p-1,p,p+1,2^381-1, x+p twins, infinity encodings with a "
         "non-zero byte at each position, on-curve points outside the subgroup built by the model (E1 and E2, torsion and full order), single-bit flips, "
         "every compressed prefix byte; outcome class and re-encoded bytes compared with the Lean codec model; Equal round trip evaluated on the implementation",
    trusted_base=COMMON_TB + ["modelled, not verified: BLST field/curve arithmetic and subgroup checks, crypto/elliptic, crypto/ecdh, btcec (compared on the generated catalogue)"],
    technique="Lean 4 proof (accepts-iff / canonical / round-trip theorems for scalar, raw-point, compressed BLS point and compressed ECDSA point codecs, primality by Pratt certificates) + differential run of codec model vs real decoders",
    level_text="Theorems for all byte strings: BLS and ECDSA private-key decoders and the raw ECDSA public-key decoder accept exactly the canonical encodings and re-encode to the input. "
               "BLS signatures (E1_read_bytes) and public keys (E2_read_bytes + G2 check): accepted = canonical compressed encodings of reduced curve points (resp. of points with r*P = O, the identity being exactly C0 00..00), "
               "accepted strings re-encode to the input, every such point round-trips (bls_sig_accepts_iff, bls_pk_accepts_iff, bls_pk_identity): p prime (Pratt certificate checked by the kernel), p = 3 mod 4, "
               "completeness of the F_p and F_p^2 square roots of the model, no point with y = 0 on E1 or E2 (-4 and 32 are non-cubes mod p). X9.62-compressed ECDSA public keys on both curves: accepted = canonical 02/03||X encodings of reduced curve points, re-encode to the input, round trip "
               "(ecdsa_p256_compressed_iff, ecdsa_k256_compressed_iff; no point with y = 0: -7 is not a cube mod the secp256k1 prime, and gcd(x^p - x, x^3 - 3x + b) = 1 for P-256 with x^p computed modulo the cubic in the kernel plus a Bezout identity). "
               "Props.C05Model: the membership tests ARE the group-theoretic ones - inG1_iff_torsion / inG2_iff_torsion: the model's Jacobian double-and-add by r returns infinity exactly when r*P = 0 in Mathlib's group of the curve (over F_p resp. F_p^2 = F_p[u]/(u^2+1)); "
               "bls_pk_accepts_iff_torsion: accepted public keys = canonical encodings of the r-torsion points of E2(F_p^2), identity included; bls_pk_decode_injective: two accepted strings decoding to the same group element are equal; "
               "accepted ECDSA raw keys are points of the group of P-256 / secp256k1 (ecdsa_*_pk_valid).",
    level_note="Lean kernel; the subgroup test r*P = O of the model is proven to be r-torsion in the curve's group (Props.C05Model); BLST's own endomorphism-based test is compared, not verified; known finding F2 (component order vs ZCash) is reported as KNOWN-FINDING",
    assumptions=["BLST and Go standard library arithmetic agree with the model outside the generated catalogue"],
)

CONFIG["C11"] = dict(
    lean_modules=["Props.C11", "Props.C11Model"],
    generators=["C11"],
    level="proof",
    rule="both curves x keys {1, n-1, random} x messages x all 8 supported hashers: honest signature, twin (r,n-s), other message/key/hasher, r/s swapped, "
         "r or s in {0,n,n+1,2^256-1,r+n,s+n}, bit flips, lengths 0,1,63,65,128; the model verifies with its own curve arithmetic from the hash bytes; "
         "SignatureFormatCheck=false => Verify=false evaluated on the implementation; hasher guards (nil, 16, 31 bytes)",
    trusted_base=COMMON_TB + ["modelled, not verified: crypto/ecdsa, crypto/elliptic, btcec (that they compute the ECDSA equation is established by the correspondence run)"],
    technique="Lean 4 proof (decision logic of verification and format check) + differential run of ECDSA model vs real Verify",
    level_text="Theorems for every curve parameter set, key, hash and signature string: format check false implies verify false; a verifying signature is 64 bytes with 1<=r,s<n; only the leftmost 256 hash bits matter; guards tied to the extracted conditions. "
               "Group-level facts over an abstract group of prime order with xc(-P)=xc(P): the (r,n-s) twin verifies iff (r,s) does; every signature made with a non-zero nonce verifies. "
               "Executable model (Props.C11Model, Proofs/EcdsaModel over Proofs/CurveGroup): for P-256 and secp256k1, every private key d < n, nonce k < n and hash, a signature returned by the model's signWith is accepted by the model's verifyHash under d*G "
               "(p256_sign_verify, k256_sign_verify): the model's curve arithmetic is Mathlib's group law of the curve, n is prime and annihilates G (kernel-checked), u1 + u2 d = k in ZMod n; non-vacuity example on secp256k1. "
               "EXACTNESS (p256_verify_iff_signed, k256_verify_iff_signed, Proofs/EcdsaExact): under the public key d*G the model accepts a string on a hash IFF it is the output of signWith for some nonce 0 < k < n "
               "(the nonce is (e + r d)/s; it is non-zero because verification rejects the point at infinity) - so the accepted set is exactly the set of genuine signatures of the key holder, no more. "
               "p256_twin_accepted / k256_twin_accepted (Proofs/EcdsaTwin): the twin (r, n - s) of an accepted string is accepted - it is the signature with the nonce n - k, whose ephemeral point is the negative (same abscissa). "
               "That crypto/ecdsa and btcec compute this equation is the correspondence part.",
    level_note="Lean kernel; the verification equation itself is the model (Model.Ecdsa.verifyHash) compared with crypto/ecdsa and btcec",
    assumptions=["hash bytes are produced by the real hashers (tied separately by C13)"],
)

CONFIG["C13"] = dict(
    lean_modules=["Props.C13"],
    generators=["C13"],
    level="proof",
    rule="5 hashers: every message length 0..2*rate+1 (thorough 4*rate+1) via ComputeHash, never-reset Write+SumHash and one-shot helper; 2-splits of every length "
         "(quick: stride 7 with random phase; thorough: every cut); random multi-splits up to 6 blocks; op interleavings of Write/SumHash/Reset/ComputeHash (only documented sequences); "
         "KMAC128: every key length 0..400 (thorough 0..699), customizer lengths 0..200, output sizes incl. negative, 0 and >rate, data lengths 0..337, interleavings; long messages; "
         "digests compared with the standards as implemented in Lean (FIPS 180-4, FIPS 202 pad-then-absorb reference cross-checked at run time against the refHash of the theorems, SP 800-185)",
    trusted_base=COMMON_TB + ["modelled, not verified: Go crypto/sha256, crypto/sha512, x/crypto/sha3 cSHAKE, the amd64 Keccak assembly / pure Go keccakF1600 (compared with Model.KeccakF / Model.Sha2, themselves checked against KATs in the kernel)"],
    technique="Lean 4 proof (all-splits theorem for the Go sponge buffer logic over an arbitrary permutation; bytepad minimality; KMAC object laws) + differential run vs FIPS/SP 800-185 reference",
    level_text="Theorems: for every rate>0, domain byte, absorb function, prior state and every split into Write calls, Reset+Writes+SumHash = reference digest; ComputeHash independent of prior state; "
               "refHash_is_fips202 (Proofs/SpongeFips): that reference digest (full blocks, then the padded tail block the Go code builds) IS the FIPS 202 sponge - pad10*1 with the domain suffix over the whole message, absorb every block, squeeze - for every rate, domain byte, message and output length up to the rate, "
               "hence sha3_hashers_equal_standard: SHA3-256, SHA3-384 and Keccak-256 objects return the standard's digest for every input and every chunking (the run-time cross-check of the two references stays as a redundant guard); "
               "never-reset sentinel; one-shot helpers; left_encode/right_encode of the Go loops = SP 800-185 for every 64-bit value; encode_string; bytepad = SP 800-185 bytepad using the pad expression regenerated from kmac.go; "
               "kmac_eq_spec: the KMAC object's ComputeHash equals SP 800-185 KMAC128 for every key/customizer/data/output size; KMAC guards and clone semantics.",
    level_note="Lean kernel; keccakF1600 and SHA-2 compression functions are compared, not verified",
    assumptions=["outputs of the sponge hashers are not longer than the rate (true for the three configured ones)"],
)

BLS_TB = COMMON_TB + [
    "modelled, not verified: blst_src (field/curve arithmetic, hash-to-curve, pairing, subgroup checks); the abstract theorems assume a bilinear non-degenerate pairing "
    "and a subgroup test deciding the image of G1 in E1 (structure PairingGroups, universally quantified, instantiated by a toy instance for non-vacuity and, in Props.C01Model / Proofs/BlsConcrete, "
    "by the r-torsion groups of the executable model's curves with every component concrete except the pairing); "
    "agreement of BLST with that structure is established by the correspondence run only",
    "the abstract Codec laws (decode/encode inverse, 48-byte length) are hypotheses of the abstract BLS theorems; for the executable model of E1_read_bytes/E1_write_bytes they are theorems "
    "(Props.C01.concrete_codec_laws, Props.C05.bls_sig_accepts_iff; p prime by a kernel-checked Pratt certificate), and that model is tied to the C functions by correspondence (C05)",
]

def _bls(prop, modules, rule, technique, text, note, gens=None):
    CONFIG[prop] = dict(lean_modules=modules, generators=gens or [prop], level="proof", rule=rule, trusted_base=BLS_TB,
                        technique=technique, level_text=text, level_note=note,
                        assumptions=["BLST's pairing is bilinear and non-degenerate on G1 x G2 and POINTonE1_in_G1 decides the prime-order subgroup",
                                     "hash-to-curve is an uninterpreted function observed through the signature of the private key 1"])

_bls("C01", ["Props.C01", "Props.C01Model"],
     "keys {1,2,r-1,r-2,generated,decoded,aggregated,aggregated-to-1,random} x messages (lengths 0,1,135..137,167..169,1KiB,100KiB) x tags (empty, short, BLS_POP_ prefix, 1000 bytes): "
     "Sign compared with the model's sk*H; Verify on the candidate catalogue (valid, negated, s+T for three torsion points built by the model, s+off-group, s+delta in G1, all 8 flag-bit "
     "combinations, bit flips (quick sampled, thorough all 384), x+p twin, x>=p, trailing bytes, lengths, identity and dirty-identity encodings, invalid header), other message/tag/key, "
     "fixed hashers with chosen 128-byte outputs (zeros, ones, chunks >= p), identity keys obtained 4 ways, hasher guards; expected verdict: candidate == encode(sk*H) and sk != 0",
     "Lean 4 proof (acceptance theorem from bilinearity + codec laws) + differential run vs concrete E1 arithmetic model",
     "Theorem verify_iff: for every pairing structure, hash-to-curve, codec, non-zero key, message and 128-byte hasher, Verify is true for exactly the string Sign returns; corollaries for other message/key, "
     "points outside the subgroup, malformed strings, identity signature, identity key, hasher guards; guards tied to extracted conditions. concrete_codec_laws / signature_encoding_unique: the codec laws hold for the "
     "executable E1 codec (every accepted string is the one canonical encoding of a reduced curve point; every such point round-trips). "
     "Props.C01Model (Proofs/BlsConcrete): the abstract setting INSTANTIATED with the groups the executable model computes in - E1 = Mathlib's group of y^2 = x^3 + 4 over ZMod p (the group Model.Curve computes in, Proofs/CurveGroup), "
     "G1 / G2 = the r-torsion subgroups of that group and of the curve over F_p^2 as ZMod r-modules (membership = Bls.inG1, model_toG1_iff), codec = Bls.readE1 / Bls.writeE1 with its three laws proven; the ONLY parameter left is the pairing. "
     "model_verify_iff: for EVERY ZMod r-bilinear map on these subgroups that is non-degenerate at the generator of G2, every non-zero key and every hash point of the model in G1, verification under sk*g2 - which is the model's "
     "publicKeyOf sk (model_public_key_is_abstract_key) - accepts a string iff it is Bls.signPoint sk H, the bytes the model's Sign produces and the run compares with the implementation (model_sign_is_abstract_sign). "
     "Such bilinear maps exist on these groups (example in the file), so the statement is not vacuous; that BLST's optimal ate pairing is one of them is not proven.",
     "Lean kernel + correspondence; the pairing is a parameter of the theorems (its existence on the model's groups is shown, BLST's pairing being one is assumed); see trusted base")
_bls("C02", ["Props.C02", "Props.BlsOnModel"],
     "random shapes n<=12 (thorough n<=40): all-distinct, all-equal, few-messages/many-keys, few-keys/many-messages, ties, duplicated pairs, pk and -pk on one message, equal points held in decoded / "
     "removal-result objects, two hashers; candidates: honest aggregate, permuted triples, share missing/doubled, +torsion, bit flip, wrong length, identity key inside with aggregate of the others; "
     "OneMessage vs Verify under the summed key; typed errors in documented order; the C path selected by each shape is recorded (coverage.paths)",
     "Lean 4 proof (pairing-product spec for every grouping/order/back end) + differential run vs scalar-level equation",
     "Theorem verifyMany_spec/iff_sum: for every list, every grouping (map order, duplicate representations) and either back end the verdict is 'no identity key and sig = encode(sum sk_i*H_i)'; "
     "permutation/grouping independence, cancellation, multiplicity, OneMessage = Verify under the sum = ManyMessages on the replicated message. "
     "Props.BlsOnModel.model_verifyMany_iff: the same on the groups of the executable model (Proofs/BlsConcrete: E1, r-torsion G1/G2, the model's codec; only the pairing is a parameter): for every bilinear map non-degenerate at g2, "
     "every list of (sk_i, m_i), grouping and back end, the verdict is 'no zero key and sig = writeE1 (Curve.sum [sk_i * H(m_i)])' - the model's own aggregate of the individual signatures (encode_sum).",
     "Lean kernel + correspondence; the comparator choosing the back end and Go map order are parameters of the theorem")
_bls("C03", ["Props.C03"],
     "n<=5 (thorough n<=7): every subset of invalid positions x kinds {bit flip, swapped pairs, s_i+d/s_j-d, three-way cancellation, non-G1, wrong length, bad header, identity key, identity signature}; "
     "sampled n in {8,9} (thorough 8,9,15,16,17,33); each index compared with the model's individual verdict AND with pks[i].Verify on the implementation; input errors all-false; internal randomness is crypto/rand",
     "Lean 4 proof (tree recursion = individual verdicts outside an explicit bad set of coefficient vectors) + differential run",
     "Theorem batch_eq_individual: for every n, split, inputs and non-zero coefficient vector outside the bad set (some contiguous segment with a defective entry sums to zero) the result equals index-wise Verify; "
     "all-valid and single-defect batches are good for every vector; coefficients rand+1 < r are non-zero. batch_agrees_outside_few: for every list of n keys and signatures (any mix of invalidity) the exceptional set has "
     "at most (n+1)^2 * N^(n-1) of the N^n coefficient vectors (N = 2^128: a fraction <= (n+1)^2 / 2^128); outside it the result is index by index what Verify returns (a defective position pins its coefficient once the others are chosen; union over the segments).",
     "Lean kernel + correspondence; probability statement reduced to membership in an explicit bad set")
_bls("C04", ["Props.C04", "Props.C04Model", "Props.E2Model"],
     "random multisets of 1..16 scalars with duplicates, additive inverses, small values, forced zero sums; permutations; nested aggregation; removal; aggregated signatures vs signature of aggregated key; "
     "malformed entries (short, bad header, outside G1 - accepted by aggregation as documented: no subgroup check) ; empty lists and non-BLS keys",
     "Lean 4 proof (homomorphism laws over abstract groups) + differential run vs concrete Fr/E1/E2 arithmetic",
     "Theorems: pub(aggSK)=aggPK(pubs); aggSig(signs)=sign(aggSK); remove(agg(A++B),B)=agg(A); permutation and nesting independence; cancellation gives identity key / identity signature encoding; documented errors. "
     "Executable model tied to the group of the curve (Props.C04Model, Proofs/CurveGroup + JacAlg + CurveInst, 900 lines): the curve arithmetic the driver runs against the implementation - affine chord-and-tangent addition, the Jacobian addition and doubling formulas, double-and-add, the list sum - "
     "IS the group law of y^2 = x^3 + 4 over ZMod p as Mathlib defines it (WeierstrassCurve.Affine.Point, p prime by the Pratt certificate): model_sum_is_group_sum, model_sum_order_independent, model_sum_nested, model_mul_is_nsmul (k < 2^800) and "
     "model_sign_aggregated_key (for a hash point the membership test accepts, ((k1+k2) mod r) * H = k1*H + k2*H as values of the model): the aggregation laws hold for every input of the model that is compared with the code, not only on the cases of a run.",
     "Lean kernel + correspondence; E1 and E2 are bridged to Mathlib's group law (E2 over QuadraticAlgebra (ZMod p) (-1) 0 = F_p[u]/(u^2+1), a field since p = 3 mod 4: Proofs/CurveGroup2, CurveInst2; "
     "Props.E2Model: aggregation of public keys in the model is the group sum, order independent, and publicKeyOf((k1+k2) mod r) = sum [publicKeyOf k1, publicKeyOf k2])")
_bls("C16", ["Props.C16", "Props.BlsOnModel"],
     "keys as in C01 x PoP generation vs model, honest verification, other key, candidate catalogue, signatures of the public-key bytes under 9 tags (empty, prefix/suffix-overlapping with the PoP suite, 1 KiB) "
     "submitted as PoP, PoP submitted to Verify under each tag, identity keys, non-BLS keys",
     "Lean 4 proof (instance of the acceptance theorem; string lemma for every tag; separation under an explicit collision-freeness hypothesis) + differential run",
     "Theorems: pop_iff, pop_identity_false, pop_other_key; suite_keys_distinct for EVERY tag, re-proved against the strings extracted from the code; pop_sig_separation conditional on an explicit "
     "hypothesis that the keyed hash-to-curve has no collisions across distinct keys (partial: no executable model can discharge it). "
     "Props.BlsOnModel.model_pop_iff: on the groups of the executable model, for every pairing: a PoP verifies under sk*g2 iff it is Bls.signPoint sk (H (writeE2 (publicKeyOf sk))) - the key encoder being the model's (encodePk_smul_g2, injective on G2).",
     "Lean kernel + correspondence; random-oracle-style hypothesis explicit")
_bls("C17", ["Props.C17", "Props.BlsOnModel"],
     "key pairs (distinct, equal, negated) x data: honest, swapped pairs, crossed proofs, other data, other key, scaled by a common factor, +torsion on either/both proofs, identity proofs, malformed, wrong length, "
     "identity keys (4 constructions) in either/both positions, VerifyAgainstData vs Verify, non-BLS keys; expected verdict: sk2*P1 == sk1*P2 with both in G1",
     "Lean 4 proof (exact characterisation of SPOCKVerify) + differential run",
     "Theorems: spock_iff (true iff both proofs canonical G1 encodings, no identity key, e(p1,pk2)=e(p2,pk1)), symmetry, honest proofs verify, other data rejected, common scaling, rejection catalogue, agreement with Verify. "
     "Props.BlsOnModel: on the groups of the executable model, for every pairing: model_spock_honest (signPoint sk1 H and signPoint sk2 H verify), model_spock_other_data (different hash points: rejected), "
     "model_spock_vs_verify (against an honest proof, p2 verifies iff p2 = signPoint sk2 H).",
     "Lean kernel + correspondence")

CONFIG["C12"] = dict(
    lean_modules=["Props.C12", "Props.C12Model", "Props.E2Model"],
    generators=["C12"],
    level="proof",
    rule="BLS, P-256, secp256k1: every seed length 0..300 x contents {zeros, ones, random (thorough: 38 random)}, nil seed, single-bit variations; private and public key bytes compared with the model's own "
         "HKDF-SHA256 / mapToFr / scalar multiplication; determinism and PublicKey() caching consistency evaluated on the implementation",
    trusted_base=COMMON_TB + ["modelled, not verified: Go crypto/hkdf, crypto/sha256 (compared with Model.Sha2, itself KAT-checked), BLST/ecdh/btcec scalar multiplication"],
    technique="Lean 4 proof (mapToFr = OS2IP mod r for every length; key ranges; seed guards) + differential run vs own HKDF/curve arithmetic",
    level_text="Theorems for all seeds: map_bytes_to_Fr equals big-endian reduction mod r for every input length (induction over the digit loop); BLS key in [1,r-1], ECDSA key in [1,n-1]; "
               "seed length guard; guards and constants tied to the code; Props.C12Model (via Proofs/CurveGroup): the ECDSA public key of the executable model is d * G in Mathlib's group of points of P-256 / secp256k1 over ZMod p (p256_public_key_is_scalar_mul, k256_public_key_is_scalar_mul), and scalars that differ by a multiple of an annihilator of G give the same key (k256_public_key_mod); Props.E2Model.bls_public_key_is_scalar_mul: the BLS public key of the model is sk * g2 in Mathlib's group of E2 over F_p^2 (Proofs/CurveGroup2); generators_have_prime_order: the four generators the public keys are multiples of (G1, G2 of BLS12-381, the base points of P-256 and secp256k1) lie on their curves and are annihilated by the group order, which is prime (Pratt certificates), so sk -> sk*G is injective on the key range. That HKDF output equals RFC 5869 is by KAT + correspondence.",
    level_note="Lean kernel + correspondence; the BLS retry loop is modelled with fuel 16 (never exercised: probability 2^-255 per iteration)",
    assumptions=["the retry loop of BLS KeyGen terminates within 16 iterations"],
)

CONFIG["C10"] = dict(
    lean_modules=["Props.C10"],
    generators=["C10"],
    level="proof",
    rule="one instance, 3 protocols x {dealer, non-dealer}: every call sequence of length <= 3 (thorough <= 4) over {Start(good/short seed), NextTimeout, End, Broadcast(valid vector / bad tag / out-of-range origins), "
         "Private(valid share / malformed / out-of-range), ForceDisqualify(in/out of range), complaint to the dealer}, each call followed by Running(); random sequences up to length 14 (thorough 40) biased to the legal order; "
         "constructor guards; compared with the model: error class, Running, every emitted message byte for byte (the model derives the dealer's polynomial from the seed), callbacks, End result incl. keys. Start after a completed End is not generated (unspecified)",
    trusted_base=BLS_TB,
    technique="Lean 4 proof (API automaton refinement, rejected calls are no-ops, End stops) + differential run of call sequences",
    level_text="Theorems over the three state-machine models for every call list: error class of every call equals the documented automaton; a call rejected with a state-transition or index error leaves the state unchanged; End leaves the instance not running.",
    level_note="Lean kernel + correspondence; crypto operations are an abstract record in the theorems, BLS12-381 in the driver",
    assumptions=["reuse of an instance after End is outside the property"],
)

_DKG_RULE = ("full protocol executions with a deterministic in-process scheduler: honest participants run the real code, Byzantine ones are scripted; (n,t) in {(3,1),(4,1),(4,2),(5,2)} "
             "(thorough adds (7,3),(2,1)); up to t Byzantine participants; per receiver share kinds {ok, omitted, bad tag, wrong size, zero, >= r, wrong value, late, duplicate, empty}; vector kinds "
             "{ok, omitted, late, wrong size, bad point, outside G2 (built by the model), duplicate, two different}; answers {ok, omitted, wrong, wrong size, bad complainer, zero, duplicate, late, before any complaint}; "
             "extras {empty broadcast, bad tag, malformed complaint, complaint with big index, complaint about self, unsolicited answer, spurious complaint against an honest dealer}; random delivery order among all "
             "admissible interleavings (per-sender FIFO per channel, messages triggered by deliveries land in the same round); every honest node's complete call line is replayed by the model (messages byte for byte, callbacks, End result) "
             "and the property predicates (agreement on verdict/keys/disqualified sets, private share matches public share, t+1 shares sign for the group key, no honest participant blamed, bad dealers disqualified, plain Feldman never keys on bad vector/share) are evaluated on the real run")

CONFIG["C07"] = dict(
    lean_modules=["Props.C07", "Props.C07Model"], generators=["C07"], level="proof", rule=_DKG_RULE, trusted_base=BLS_TB,
    technique="Lean 4 proof (commutation of reorderable deliveries, invariants, congruence up to complaint-table order, schedule independence of End; agreement between different receivers by a shadow-observer simulation, composed over the n instances of Joint-Feldman API executions; share-consistency invariant over all behaviours; shape of End results) + differential run of every honest node + agreement predicates on real executions",
    level_text="Theorems for every state: Qual End returns keys only when not disqualified, no complaint unanswered, keys = those of the stored valid vector, share non-zero; the End verdict is a function of (disqualified, complaints, vector, share); Joint End fails beyond t disqualified dealers. "
               "Schedule quantifier (Feldman-VSS-Qual, participant other than the dealer, every crypto record): any two deliveries the network may reorder (different senders, or one sender's private and broadcast channel) commute "
               "(delivery_pair_commutes: both orders disqualified, or the same state up to the order of the complaint table); the invariants used are preserved by every delivery and timeout; the state after a round is independent of the delivery order "
               "(round_order_independent, for any two orders with the same stream per sender and channel); End returns the same verdict and keys for every delivery order of the three rounds (end_result_order_independent). "
               "The same for Joint-Feldman, where the participant is also the dealer of one of the n parallel instances (dealer_pair, joint_end_order_independent; tie_joint relates the Joint handlers to the per-instance steps). "
               "Consistent keys (keys_match_public_data): for EVERY behaviour of the dealer and of the other participants (arbitrary senders, tags, payloads, repetitions) and every delivery order of the three rounds, if End returns keys at a participant other than the dealer "
               "then they are the group key and key shares of the one stored vector and the returned private share passes the share check against that vector (the share is the dealer's first private message or the adopted answer to the node's own complaint, never an unchecked value): "
               "an invariant (SC) preserved by every delivery and both timeouts, with a complaint/answer run as a non-vacuity example. "
               "Agreement between two DIFFERENT honest receivers (honest_receivers_agree, Proofs/DkgAgree): in one Feldman-VSS-Qual execution two honest participants that are not the dealer leave End with the same public result (both fail, or the same group key and the same vector of public key shares) "
               "for every behaviour of the dealer and of the others, every private message and every delivery order, assuming only reliable broadcast with round synchrony (hypothesis Net, once per round, over what each of the two really broadcasts - the handlers' outputs, broadcasts_are_the_complaint); "
               "proved by simulating each receiver with a passive shadow observer running the same state machine (shadow_simulation) and applying the order-independence theorem to the observer; non-vacuity example with a complaint and an answer. "
               "Joint-Feldman, instance by instance (joint_instances_agree, Proofs/DkgJointAgree): every broadcast reaches all n instances; for the instance of dealer d a broadcast of another participant A is ignored unless it is A's complaint against d "
               "(joint_irrelevant_broadcasts_ignored), so with the network hypothesis on the FULL broadcast streams (NetD) two honest participants end every instance whose dealer is neither of them - honest or Byzantine - with the same public result. "
               "joint_instance_views_agree gives the same for what Joint End uses of an instance (settled verdict, vector of a qualified dealer), and joint_end_agrees_given_instances_partial assembles them: participants whose n instances have pairwise the same public view get from End the same public result (jpub; tie jres_jpub to the model of JointFeldman.End), each with its own combined share. "
               "For the two instances the participants deal themselves: honest_dealer_instance_views_agree - the dealer's own instance (invariant DS over every delivery and timeout: it keeps its vector, answers every complaint at once, stays qualified while at most t participants complain; dealer_instance_after_start) "
               "and an honest receiver's instance (hypotheses of honest_dealer_never_disqualified) end with the same public view. "
               "Closed composition (joint_feldman_agreement, Proofs/DkgJointEnd): two participants A, B started with Joint.start (any seeds), driven through the model's API - three rounds of Joint.handleBroadcast / Joint.handlePrivate with Joint.nextTimeout in between (jfinal) - and ended with Joint.end_ "
               "get the same public result (both fail, or the same group key and public key shares, each with its own combined private share), given reliable broadcast with synchronous rounds for every third-party dealer's instance (NetD; these dealers and all other participants arbitrary) "
               "and honest-dealer delivery for the two instances A and B deal themselves (OwnNet, for the vector the dealer really holds after Start). It rests on joint_execution_is_instancewise (the API run is exactly the n per-instance runs: JI invariant over every call) and joint_instances_after_start "
               "(fresh receiver instances, and the own dealer instance satisfying DS); a non-vacuity example runs the API with both Start calls succeeding and End returning keys at both. "
               "The round-one content of OwnNet is discharged from the dealer's own Start (Proofs/DkgEmit): dealer_start_outputs - Start emits the broadcast of the verification vector of the polynomial it drew and one private share message a(i+1) per other participant - and receiver_accepts_dealer_emission - "
               "under the laws tying the writers of the crypto record to its readers (OpsLaws: the serialized vector parses back, a written share reads back, the Feldman check accepts a(i+1) against the vector of a; satisfiable: example) a receiver classifies exactly these messages, in every state, as the dealer's vector and its own valid share. "
               "For the BLS record the driver runs, the key law is a theorem of the executable model (Props.C07Model, Proofs/BlsFeldman over the E2 group bridge): bls_feldman_identity - the commitment vector (a_k * g2) evaluated 'in the exponent' at x (model of E2_polynomial_image) equals polyEval a x * g2 - and "
               "bls_honest_share_passes_check - the share a(i+1) passes checkLog against the public key shares a receiver derives from the dealer's commitments, for every polynomial, group size and receiver; "
               "bls_vector_reader_accepts_writer (Proofs/BlsLaws: E2 codec round trip, membership of the multiples of g2, chunking) and bls_ops_laws: OpsLaws HOLDS for the BLS record the driver runs, for every polynomial of threshold+1 coefficients, so receiver_accepts_dealer_emission applies to the real record (a zero share, probability 2^-255, is refused by the reader as in the code and is excluded). "
               "dealer_answers_complaint / receiver_accepts_dealer_answer (Proofs/DkgAnswer): the dealer's own instance answers a first complaint at once with a(o+1) of the polynomial it drew, and a receiver classifies that broadcast as a valid answer for o - the answer part (hans) of OwnNet for the dealer's own emission. "
               "What remains a hypothesis: the delivery itself (the dealer's messages arrive in their round, unaltered and once; complaints reach the dealer before the second timeout) and at most t complainers.",
    level_note="Lean kernel + correspondence; reliable broadcast and round synchrony are assumptions of the property, implemented by the scheduler",
    assumptions=["reliable broadcast, round-synchronous delivery, at most t Byzantine participants"],
)
CONFIG["C08"] = dict(
    lean_modules=["Props.C08", "Props.C08Dealer"], generators=["C08"], level="proof", rule=_DKG_RULE, trusted_base=BLS_TB,
    technique="Lean 4 proof (blame targets, honest participants never blame each other over whole executions, monotone disqualification, fault => disqualification lemmas, honest dealer never disqualified and never flagged, plain Feldman VSS invariant) + differential run + fairness predicates on real executions",
    level_text="Theorems for every state and message: an instance only ever blames the sender of the handled message or its dealer; timeouts/End only blame the dealer; disqualification is monotone and makes End fail; "
               "unanswered complaint, > t complaints, missing / late / malformed vector each disqualify; plain Feldman VSS returns keys only with a valid stored vector and a share passing the check against it (invariant over all call sequences of a non-dealer). "
               "own_complaint_at_most_once: over every sequence of deliveries and timeouts an honest participant broadcasts its complaint at most once (so it is never flagged for a duplicate: defect class F9); share_vector_any_order and "
               "complaint_answer_any_order: the two historically defective orders (F9, F10) give the same state in either order. "
               "honest_dealer_never_disqualified: whatever the other participants broadcast or send and in whatever order, if the dealer sends nothing but its vector, the receiver's share and valid answers, the vector and the share arrive in the first round, "
               "at most t participants ever complain and each is answered before End, then End returns the receiver's share and the dealer's keys (invariant over all delivery sequences; a concrete run meeting every hypothesis is checked as an example). "
               "honest_never_blamed_by_honest (Proofs/DkgBlame, network level, Feldman-VSS-Qual): no Disqualify / FlagMisbehavior callback of an honest participant during the three rounds, the two timeouts and End targets another honest participant, "
               "for every behaviour of the dealer and the others, every private message and every delivery order at both, assuming only that what one receives from the other by broadcast in a round is what the other's state machine broadcast in that round; "
               "rests on honest_broadcasts_one_complaint (an honest participant broadcasts at most one message in a whole execution, its complaint, never after the first timeout has passed) and blame_targets; non-vacuity example with a complaint at the first timeout. "
               "joint_round_never_blames_honest (Proofs/DkgJointAgree): inside Joint-Feldman the instance of dealer d also sees the other broadcasts of an honest participant (its vector, its answers, its complaints against other dealers); they change nothing and draw no blame, so a round of the instance never blames it. "
               "honest_dealer_never_blamed_by_honest (Proofs/DkgDealerBlame): the instances whose dealer is itself honest - over three rounds, both timeouts and End no Disqualify / FlagMisbehavior callback of an honest receiver targets an honest dealer, for every behaviour of the others and every order, "
               "given deliveries compatible with an honest dealer, vector and share in round one, at most t complainers each answered, no message of the dealer delivered twice (Once: pairwise, over all three rounds), no vector/share after round one and no complaint-tagged dealer broadcast after the second timeout; "
               "rests on delivery_never_blames_honest_dealer (handler by handler: a first-time, in-time vector / share / valid answer and every complaint of another participant produce no callback against the dealer) and a history invariant (what is still to be delivered has not been received: Safe, kept by frames_interp); non-vacuity example. "
               "The hypotheses are necessary: a second copy of the vector, a late share or a second answer IS flagged by the code (FlagMisbehavior on the dealer), as the runs show. "
               "Props.C08Dealer (the dealer's side of 'no second answer'): repeated_complaint_not_answered (a complaint already registered as received makes the handler broadcast nothing, for every data), answer_registers_complaint (any broadcast of the handler comes with 'not registered before, registered after'), "
               "registered_stays, dealer_answers_once_partial (handler level, every state: over every history of complaint deliveries each complainer is answered at most once) and dealer_answers_once: at the dealer's own instance, along EVERY history of deliveries (broadcast or private, any sender, any bytes) and timeouts, from every state, at most one delivery sent by k makes the instance broadcast anything - the answer - and none once the complaint of k is registered (only complaint deliveries broadcast at that instance: dealer_bcast_cases, dealer_priv_noop).",
    level_note="Lean kernel + correspondence",
    assumptions=["reliable broadcast, round-synchronous delivery, at most t Byzantine participants"],
)

CONFIG["C06"] = dict(
    lean_modules=["Props.C06", "Props.C06Model", "Props.C06Driver"], generators=["C06"], level="proof",
    rule="key generation for (n,t) in {(2,1),(3,1),(3,2),(5,2),(7,3),(10,9),(40,13)} (thorough adds (254,1),(254,253),(100,50)) compared share by share with the model (polynomial derived from the seed by the model's own SHA3/ChaCha20/mapToFr), "
         "guards; stateless reconstruction: every subset of size t..t+2 for n<=6 (thorough n<=7) in random order, an invalid share of 8 kinds at every position, duplicate/out-of-range signers, extra malformed unused share, "
         "index sets straddling the 8-index limb batches up to index 253; every reconstruction compared with the model (coefficient computed by the textbook formula AND by the limb-batched loop, which must agree) and with the one group signature a0*H; "
         "stateful object: random op sequences of TrustedAdd/VerifyAndAdd/HasShare/EnoughShares/VerifyShare/VerifyThresholdSignature/ThresholdSignature with valid, invalid (8 kinds) and out-of-range inputs",
    trusted_base=BLS_TB, technique="Lean 4 proof (Lagrange interpolation at zero via Mathlib, limb overflow bound, stateful invariants) + differential run",
    level_text="Theorems: for every field, polynomial of degree <= t and set of >= t+1 distinct nodes, combining shares P(x_i)*h with the Lagrange coefficients gives P(0)*h (hence identical output for every subset/order; public shares interpolate to the group key); "
               "products of <= 8 indices <= 255 fit a 64-bit limb; the stateful object never returns a signature failing group verification, < t+1 shares give not-enough-shares. "
               "coeff_is_lagrange: for every index list (entries <= 255) and position the limb-batched loop with sign tracking and Fermat inversion (Model.Threshold.coeff, the function the driver runs) equals the textbook "
               "coefficient prod x_j/(x_j-x_i) in F_r, r prime by a kernel-checked Pratt certificate; c_loop_reconstructs: hence the C loop's weights reconstruct P(0)*h. "
               "Props.C06Model.model_threshold_reconstruction: the same for the EXECUTABLE model - with the model's own curve arithmetic (Mathlib's group law of E1 by Proofs/CurveGroup) and the limb-batched coefficients, for every list of distinct abscissas <= 255, "
               "every polynomial Q over F_r of degree below the number of signers and every hash point H on the curve that the membership test accepts, Curve.sum of coeff_i * (Q(x_i) * H) equals Q(0) * H as values of the model. "
               "Props.C06Driver.driver_interpolate_reconstructs_nodup: the ORACLE ITSELF - Driver.Threshold.interpolate, the byte-level function every reconstruction of the implementation is compared with (decode the shares, "
               "compute each coefficient by the textbook formula and by the limb loop, poison on disagreement, multiply, sum, encode) - returns the encoding of Q(0)*H on the encoded shares Q(x_i)*H, for every duplicate-free signer list <= 255; "
               "the poison branch is dead (coeffSpec_eq_impl) and the codec round-trips every share.",
    level_note="Lean kernel + correspondence",
    assumptions=["BLST multi-scalar multiplication and Fr inversion compute the field/group operations"],
)
CONFIG["C18"] = dict(
    lean_modules=["Props.C18"], generators=["C18"], level="proof", race=True,
    rule="concurrent histories: 2-4 goroutines x 2-3 operations (<= 10 per history) on one inspector, invocation/response stamped by an atomic logical clock, built with the Go race detector; "
         "each history is checked for linearizability by exhaustive search over real-time-consistent orders in the Lean model of the sequential semantics; post-state invariants (<= t+1 shares, EnoughShares consistent, stable threshold signature)",
    trusted_base=BLS_TB + ["sync.RWMutex provides mutual exclusion; Go executes the extracted critical sections atomically with respect to each other (Go memory model)"],
    technique="Lean 4 proof (sequential invariants by induction; atomic-body executions are linearizable; lock discipline extracted from the source and decided) + race-detector stress with model-checked histories",
    level_text="Theorems: invariants (<= t+1 shares, one per signer, cached signature valid) after every op sequence; readers pure; EnoughShares monotone; signature stable; every execution whose bodies run atomically is explained by the body order, which respects real time (any number of threads, any interleaving); "
               "discipline: every method reaching mutable state takes the lock first, releases it by defer, touches nothing mutable before, writers hold the write lock, no re-entrancy - decided on the table regenerated from the code.",
    level_note="partial: mutual exclusion of sync.RWMutex and the Go memory model are assumed, not modelled",
    assumptions=["sync.RWMutex is a correct reader/writer lock"],
)

CONFIG["C09"] = dict(
    lean_modules=["Props.C09"], generators=["C09"], level="proof",
    rule="every exported function called under recover on the boundary grammar: byte slices {nil, empty, 1 byte, exact-1, exact (random/zeros/ones), exact+1, 64 KiB}, enum values {-1,0,1,2,3,4,100,2^30}, integers {-2^40,-1,0,1,3,4,254,255,256,2^40}, "
         "list shapes {nil, empty, one, nil element, mixed key types, many}, mismatched list lengths, hashers {nil, right size, wrong sizes}; threshold inspector call chains with every index/share shape; "
         "DKG: random sequences of Start/NextTimeout/End/ForceDisqualify/messages with arbitrary tags, payloads and origins at arbitrary phases (each also replayed by the state-machine model); hash and PRG constructors; outcome must be a typed error / verdict, never a panic",
    trusted_base=BLS_TB, technique="Lean 4 proof (coverage of every &x[0] site and exactness of the list of every run-time-checked index / slice expression, both regenerated from the code; guards imply the lengths and index ranges the sites need) + boundary-grammar run under recover",
    level_text="Theorems: every pointer-to-first-element site of the current code is in the justified table and vice versa (decided against the regenerated site list); the extracted guards imply exact lengths (48/32/96), non-empty lists with matching lengths, valid indices, DKG sizes fitting a byte; index_sites_exact: the table (function, operand type, kind -> number of index / slice expressions whose bound can fail at run time; maps, compile-time-checked bounds, the &x[0] hand-overs and the index variable of a loop over the operand itself apart; 83 rows) regenerated on this run is the table reviewed at the pinned commit - a new index expression breaks the lemma and sends the check into its boundary search, renaming variables does not. generators_have_prime_order is in C12. "
               "Memory safety inside BLST and the Go runtime, and C reads past a Go-owned buffer that do not crash, are outside what the run can observe (partial); ASan was tried and cannot see past Go-heap buffers.",
    level_note="partial: BLST internals and the Go runtime are not modelled; a hash.Hasher lying about Size() is a program, not an input",
    assumptions=["documented exceptions excluded: UintN(0), nil interface/callback arguments, sizes whose documented cost is linear memory, no-cgo builds"],
)


def _c20_hook(ctx):
    """build the transcript program in the other build configurations and compare the transcripts byte for byte"""
    import os, subprocess, json
    build, work, goenv = ctx["build"], ctx["work"], ctx["goenv"]
    ref_dir = os.path.join(work, "C20")
    ref = open(os.path.join(ref_dir, "impl.txt")).read().split("\n")
    ref_cases = open(os.path.join(ref_dir, "cases.txt")).read().split("\n")
    marker = next((i for i, l in enumerate(ref) if l.endswith(" part-B")), len(ref))
    configs = [
        ("portable (CGO_CFLAGS=-O2 -D__BLST_PORTABLE__)", {"CGO_CFLAGS": "-O2 -D__BLST_PORTABLE__"}, "verif", False),
        ("purego (-tags purego)", {}, "verif purego", False),
        ("no_cgo (CGO_ENABLED=0 -tags no_cgo)", {"CGO_ENABLED": "0"}, "verif no_cgo", True),
    ]
    violations, compared, samples = [], 0, []
    with ctx["lock"]():
        bins = []
        for k, (name, env, tags, prefix_only) in enumerate(configs):
            out = f"harness-c20-{k}-{os.getpid()}"
            rc, log, dt = ctx["build_harness"](tags=tags, outname=out, extra_env=env)
            if rc != 0:
                return {"broken": [f"the harness does not build in configuration {name}: {log[-400:]}"], "coverage": {}}
            bins.append(out)
    for k, (name, env, tags, prefix_only) in enumerate(configs):
        d = os.path.join(work, f"C20-{k}")
        os.makedirs(d, exist_ok=True)
        p = subprocess.run([os.path.join(build, bins[k]), "-prop", "C20", "-tier", ctx["tier"], "-seed", str(ctx["seed"]), "-out", d],
                           env=dict(goenv, VERIF_DRIVER=ctx.get("driver", ""), VERIF_REPO_SRC=ctx.get("repo", "/repo")), capture_output=True, text=True)
        if p.returncode != 0:
            return {"broken": [f"transcript program failed in configuration {name}: {p.stderr[-400:]}"], "coverage": {}}
        got = open(os.path.join(d, "impl.txt")).read().split("\n")
        want = ref[:marker] + [""] if prefix_only else ref
        if prefix_only:
            got = [l for l in got if l][:marker] + [""]
        n = min(len(got), len(want))
        compared += n
        bad = next((i for i in range(n) if got[i] != want[i]), None)
        if bad is None and len(got) != len(want):
            bad = n - 1
        if bad is not None:
            violations.append({"class": "config", "id": f"config-{k}", "line": ref_cases[bad] if bad < len(ref_cases) else "",
                               "impl": f"[{name}] " + (got[bad] if bad < len(got) else "<missing>"),
                               "model": "[default build] " + (want[bad] if bad < len(want) else "<missing>")})
        samples.append(f"{name}: {n} transcript lines identical to the default build" if bad is None else f"{name}: differs at line {bad}")
    return {"violations": violations, "samples": samples, "evaluations": compared, "distinct": compared,
            "coverage": {"programs": 1 + len(configs), "disagreements_checked": compared,
                         "configurations": ["default (ADX assembly, amd64 Keccak assembly)"] + [c[0] for c in configs]}}


CONFIG["C20"] = dict(
    lean_modules=["Props.C20"], generators=["C20"], level="translation_validation", hooks=[_c20_hook],
    rule="one deterministic transcript program (hashing/KMAC all-splits, PRG, ECDSA key generation/decoding/verification of model-made signatures; with cgo: BLS decoding, key generation, sign/verify catalogue, aggregation, "
         "many-message verification, SPoCK, threshold key generation/reconstruction, full DKG executions) built in the four configurations of the property; every transcript is compared byte for byte with the default build's and the default build's with the Lean model; "
         "the no_cgo build is compared on the non-BLS part",
    trusted_base=COMMON_TB + ["the assembly / portable C / pure Go code paths themselves are third-party or machine code that no model in this project represents: agreement is observed on the transcript, not proved"],
    technique="translation validation: the same transcript program (with a concurrent section) in four build configurations against one Lean model; Lean 4 proofs of the Go-level helper equivalences (xorIn / copyOut generic vs unaligned)",
    level_text="Decided on every run for the transcript: all configurations agree with each other and with the configuration-free Lean model. Proved in Lean (Props/C20): the two configuration-specific pairs of Go helpers of hash/ agree - xorIn generic = xorIn unaligned on every block of the two rates the package uses (104, 136, from the regenerated constants; they differ for any other rate, witness 168), copyOut generic = copyOut unaligned for output lengths that are multiples of 8 (32, 48), and both equal the model's xorBlock / extract the C13 sponge theorems are about. Nothing is proved about the assembly permutation, BLST's ADX/portable paths or cgo (honest ceiling for machine code paths).",
    level_note="translation validation, not proof: -D__BLST_NO_ASM__ is not part of the claim (does not compile at the pinned commit)",
    assumptions=["the transcript is representative of the deterministic operations of the module"],
)

CONFIG["C19"] = dict(
    lean_modules=["Props.C19"], generators=["C19"], level="proof", race=True,
    rule="operation mixes under the Go race detector, 2/4/8 goroutines (thorough up to 64): KMAC128 ComputeHash on one shared hasher; BLS Sign, Verify (valid and invalid), BLSVerifyPOP, SPOCKVerify, "
         "SPOCKVerifyAgainstData, VerifyBLSSignatureOneMessage/ManyMessages, BatchVerify over shared keys, signatures and one KMAC hasher; ECDSA Sign/Verify on both curves sharing keys with per-goroutine hashers; "
         "every result compared with the same call made alone, every argument with a snapshot",
    trusted_base=COMMON_TB + ["the Go memory model; the C side's accesses beyond the const qualifiers of its prototypes"],
    technique="Lean 4 proof (footprint disjointness => race freedom and unchanged results) over write footprints, shared-root calls and cgo argument provenance/const-ness regenerated from the source + race-detector runs",
    level_text="Theorems: operations without shared writes are pairwise conflict-free and return what they return alone; tie decided on the regenerated tables: every listed operation has no write through receiver/parameters/package variables, calls only read-only methods on shared objects, passes shared objects to C through pointers to const; KMAC ComputeHash/SumHash only Clone the shared state. "
               "Footprints of callees are direct, not transitive (partial); the race detector covers executions.",
    level_note="partial: Go memory model and C accesses assumed",
    assumptions=["hashers other than KMAC128 are not shared between goroutines (as the property states)"],
)
