#!/usr/bin/env python3
"""Regenerates MANIFEST.json from bin/props.py (claimed checks) and bin/not_applicable.json."""
import json, os, sys
VERIF = os.path.dirname(os.path.dirname(os.path.abspath(__file__)))
sys.path.insert(0, os.path.join(VERIF, "bin"))
import props
na = json.load(open(os.path.join(VERIF, "bin", "not_applicable.json")))
checks = []
for pid in sorted(props.CONFIG):
    c = props.CONFIG[pid]
    checks.append({
        "property_id": pid,
        "quick_cmd": f"bin/check {pid} --tier quick",
        "thorough_cmd": f"bin/check {pid} --tier thorough",
        "evidence_file": f"/verif/evidence/{pid}.json",
        "replay_cmd_template": f"bin/check {pid} --replay {{path}}",
        "engine": "lean4-proof+correspondence",
        "level_claimed": {"category": c.get("level", "proof"), "text": c["level_text"], "design_ref": c.get("design_ref", "DESIGN.md §6")},
        "level_note": c["level_note"],
        "technique": c["technique"],
    })
m = {
    "version": 1,
    "setup_cmd": "bin/setup",
    "hooks": {"guard": "verif", "enable": "go build -tags verif (guards the files of /verif/harness and one file added to /repo: random/verif_hooks.go = random.NewTapeRand, a Rand over a caller-supplied byte source, used by the C15 tape cases)",
              "baseline_off_cmd": "cd /repo && go test -mod=mod -vet=off -count=1 ./...", "source_commits": ["2b0d2d7"], "add_only": True},
    "engines": [{"name": "lean4-proof+correspondence", "path": "/verif/lean, /verif/harness, /verif/extract, /verif/bin/check",
                 "serves_properties": sorted(props.CONFIG),
                 "kind_free_text": "Lean 4 theorems about an executable model; model tied to /repo by regenerated facts (extract) and by differential execution of model driver vs real code (harness)"}],
    "checks": checks,
    "not_applicable": [x for x in na if x["property_id"] not in props.CONFIG],
    "notes": "See DESIGN.md. known_findings.json lists genuine defects (fixed or recorded).",
}
json.dump(m, open(os.path.join(VERIF, "MANIFEST.json"), "w"), indent=1)
print("checks:", [c["property_id"] for c in checks], "not_applicable:", [x["property_id"] for x in m["not_applicable"]])
