//go:build !no_cgo

package main

import (
	"sync"
	"bytes"
	"fmt"
	"math/big"
	"runtime"
	"strings"

	"github.com/onflow/crypto"
	"github.com/onflow/crypto/hash"
)

func init() {
	generators["C04"] = genC04
	generators["C16"] = genC16
	generators["C17"] = genC17
	generators["C02"] = genC02
	generators["C03"] = genC03
}

func scalarsLine(ks []*big.Int) string {
	s := make([]string, len(ks))
	for i, k := range ks {
		s[i] = "0x" + k.Text(16)
	}
	return strings.Join(s, " ")
}

// multiset of scalars with duplicates, inverses, small values
func (c *Ctx) scalarMultiset(n int) []*big.Int {
	ks := []*big.Int{}
	for len(ks) < n {
		switch c.intn(7) {
		case 6:
			pool := limbScalars()
			ks = append(ks, pool[c.intn(len(pool))])
		case 0:
			ks = append(ks, big.NewInt(int64(1+c.intn(3))))
		case 1:
			if len(ks) > 0 {
				ks = append(ks, ks[c.intn(len(ks))]) // duplicate
			}
		case 2:
			if len(ks) > 0 {
				ks = append(ks, new(big.Int).Sub(blsR, ks[c.intn(len(ks))])) // additive inverse
			}
		default:
			ks = append(ks, c.randScalar())
		}
	}
	return ks
}

// limbScalars: scalars whose 64-bit limbs sit on carry boundaries (all-ones limbs, single high bits, values next to
// r and to powers of 2^64): sums of these exercise every carry chain of a multi-limb adder
func limbScalars() []*big.Int {
	one := big.NewInt(1)
	var out []*big.Int
	add := func(v *big.Int) {
		v = new(big.Int).Mod(v, blsR)
		if v.Sign() != 0 {
			out = append(out, v)
		}
	}
	for j := 1; j <= 3; j++ {
		p := new(big.Int).Lsh(one, uint(64*j))
		add(new(big.Int).Sub(p, one))
		add(p)
		add(new(big.Int).Add(p, one))
		add(new(big.Int).Sub(p, new(big.Int).Lsh(one, uint(64*(j-1)))))
		add(new(big.Int).Sub(blsR, p))
		add(new(big.Int).Sub(blsR, new(big.Int).Sub(p, one)))
	}
	// half-limb (32-bit) boundaries and sparse scalars (a width test that looks at part of a limb, a window that is
	// skipped when a range of bits is zero)
	for b := 32; b <= 224; b += 32 {
		p := new(big.Int).Lsh(one, uint(b))
		add(p)
		add(new(big.Int).Add(p, big.NewInt(5)))
		add(new(big.Int).Sub(p, one))
	}
	add(new(big.Int).Add(new(big.Int).Lsh(one, 254), new(big.Int).Add(new(big.Int).Lsh(one, 191), one)))
	add(new(big.Int).Add(new(big.Int).Lsh(one, 224), new(big.Int).Lsh(one, 96)))
	add(new(big.Int).Add(new(big.Int).Lsh(one, 160), new(big.Int).Lsh(one, 31)))
	add(one)
	add(new(big.Int).Lsh(one, 63))
	add(new(big.Int).Sub(new(big.Int).Lsh(one, 127), one))
	add(new(big.Int).Sub(new(big.Int).Lsh(one, 254), one))
	add(new(big.Int).Sub(blsR, one))
	add(new(big.Int).Rsh(new(big.Int).Add(blsR, one), 1))
	for i, k := range sourceScalars() { // constants of the library's own source (at most 8 here: the pool is used pairwise)
		if i%3 == 0 && len(out) < 60 {
			add(k)
		}
	}
	return out
}

func pkEnc(pk crypto.PublicKey, err error) string {
	if err != nil {
		return "err " + errClass(err)
	}
	return "ok " + hx(pk.Encode())
}

var idKeysC04 []crypto.PublicKey

func genC04(c *Ctx) {
	n := 60
	if c.thorough() {
		n = 1500
	}
	h := crypto.NewExpandMsgXOFKMAC128("agg")
	// very long lists of private keys (carry counters of a lazily reduced sum overflow only after hundreds of additions):
	// keys next to r, where every addition carries, and uniform keys
	for _, spec := range []struct {
		n    int
		near bool
	}{{300, true}, {600, true}, {1200, true}, {1500, false}} {
		ks := make([]*big.Int, spec.n)
		for i := range ks {
			if spec.near {
				ks[i] = new(big.Int).Sub(blsR, big.NewInt(int64(1+i)))
			} else {
				ks[i] = c.randScalar()
			}
		}
		c.Case(fmt.Sprintf("agg-sk-many/n=%d", spec.n), "agg.sk "+scalarsLine(ks), guard(func() string {
			sks := make([]crypto.PrivateKey, len(ks))
			for i, k := range ks {
				sks[i] = skFromInt(k)
			}
			agg, err := crypto.AggregateBLSPrivateKeys(sks)
			if err != nil {
				return "err " + errClass(err)
			}
			return "ok " + hx(agg.Encode())
		}))
	}
	// call histories: the public key of an aggregated private key, and the signatures it makes, must not depend on which
	// of the input keys had their own public key computed before the aggregation (every subset, lists of 2..4 keys)
	for n := 2; n <= 4; n++ {
		for mask := 0; mask < 1<<n; mask++ {
			ks := make([]*big.Int, n)
			for i := range ks {
				ks[i] = c.randScalar()
			}
			m := mask
			c.Case("agg-sk-pk-history", "agg.pk "+scalarsLine(ks), guard(func() string {
				sks := make([]crypto.PrivateKey, n)
				pks := make([]crypto.PublicKey, n)
				for i := range sks {
					sks[i] = skFromInt(ks[i])
					if m>>i&1 == 1 {
						_ = sks[i].PublicKey() // touch: this input's public key is computed before the aggregation
					}
					pks[i] = skFromInt(ks[i]).PublicKey()
				}
				agg, err := crypto.AggregateBLSPrivateKeys(sks)
				if err != nil {
					return "err " + errClass(err)
				}
				pk := agg.PublicKey()
				aggPk, err := crypto.AggregateBLSPublicKeys(pks)
				if err != nil {
					return "err " + errClass(err)
				}
				if !pk.Equals(aggPk) {
					return "ok " + hx(pk.Encode()) + " differs-from-aggregated-public-keys"
				}
				sig, _ := agg.Sign([]byte("m"), h)
				if ok, _ := aggPk.Verify(sig, []byte("m"), h); !ok {
					return "ok " + hx(pk.Encode()) + " signature-of-aggregated-key-rejected"
				}
				return "ok " + hx(pk.Encode())
			}))
		}
	}
	// private-key aggregation on limb boundaries: every ordered pair of the pool, and sampled triples
	{
		pool := limbScalars()
		aggOf := func(ks []*big.Int) string {
			return guard(func() string {
				sks := make([]crypto.PrivateKey, len(ks))
				for i, k := range ks {
					sks[i] = skFromInt(k)
				}
				agg, err := crypto.AggregateBLSPrivateKeys(sks)
				if err != nil {
					return "err " + errClass(err)
				}
				return "ok " + hx(agg.Encode())
			})
		}
		for _, a := range pool {
			for _, b := range pool {
				ks := []*big.Int{a, b}
				if new(big.Int).Mod(new(big.Int).Add(a, b), blsR).Sign() == 0 {
					continue // the zero key is covered by the cancellation cases
				}
				c.Case("agg-sk-limb-boundaries", "agg.sk "+scalarsLine(ks), aggOf(ks))
			}
		}
		nTriples := 40
		if c.thorough() {
			nTriples = 2000
		}
		for i := 0; i < nTriples; i++ {
			ks := []*big.Int{pool[c.intn(len(pool))], pool[c.intn(len(pool))], pool[c.intn(len(pool))]}
			if c.intn(2) == 0 {
				ks = append(ks, c.randScalar())
			}
			sum := big.NewInt(0)
			for _, k := range ks {
				sum.Add(sum, k)
			}
			if sum.Mod(sum, blsR).Sign() == 0 {
				continue
			}
			c.Case("agg-sk-limb-boundaries", "agg.sk "+scalarsLine(ks), aggOf(ks))
		}
	}
	for it := 0; it < n; it++ {
		size := 1 + c.intn(16)
		// long lists: sizes around the powers of two a chunked or windowed implementation would use
		bigSizes := []int{17, 33, 64, 65, 127, 128, 129, 130, 200, 257}
		if c.thorough() {
			bigSizes = append(bigSizes, 255, 256, 300, 511, 512, 513, 1000, 1025)
		}
		if it >= n-len(bigSizes) {
			size = bigSizes[it-(n-len(bigSizes))]
		}
		ks := c.scalarMultiset(size)
		if it%10 == 0 && size >= 2 { // force a multiset summing to zero
			sum := new(big.Int)
			for _, k := range ks[:size-1] {
				sum.Add(sum, k)
			}
			sum.Mod(sum, blsR)
			if sum.Sign() != 0 {
				ks[size-1] = new(big.Int).Sub(blsR, sum)
			}
		}
		sks := make([]crypto.PrivateKey, size)
		pks := make([]crypto.PublicKey, size)
		for i, k := range ks {
			sks[i] = skFromInt(k)
			pks[i] = sks[i].PublicKey()
		}
		perm := c.rng.Perm(size)
		// aggregated private key (in a permuted order) and its public key
		psks := make([]crypto.PrivateKey, size)
		ppks := make([]crypto.PublicKey, size)
		for i, j := range perm {
			psks[i], ppks[i] = sks[j], pks[j]
		}
		ans := guard(func() string {
			agg, err := crypto.AggregateBLSPrivateKeys(psks)
			if err != nil {
				return "err " + errClass(err)
			}
			return "ok " + hx(agg.Encode())
		})
		c.Case("agg-sk", "agg.sk "+scalarsLine(ks), ans)
		c.Case("agg-pk", "agg.pk "+scalarsLine(ks), guard(func() string { return pkEnc(crypto.AggregateBLSPublicKeys(ppks)) }))
		// public key of the aggregated private key
		c.Case("pk-of-agg-sk", "agg.pk "+scalarsLine(ks), guard(func() string {
			agg, err := crypto.AggregateBLSPrivateKeys(sks)
			if err != nil {
				return "err " + errClass(err)
			}
			return "ok " + hx(agg.PublicKey().Encode())
		}))
		// nested aggregation: split into groups, aggregate each, aggregate the aggregates
		cut := c.intn(size + 1)
		c.Case("agg-pk-nested", "agg.pk "+scalarsLine(ks), guard(func() string {
			if cut == 0 || cut == size {
				return pkEnc(crypto.AggregateBLSPublicKeys(pks))
			}
			a, e1 := crypto.AggregateBLSPublicKeys(pks[:cut])
			b, e2 := crypto.AggregateBLSPublicKeys(pks[cut:])
			if e1 != nil || e2 != nil {
				return "err nested"
			}
			return pkEnc(crypto.AggregateBLSPublicKeys([]crypto.PublicKey{b, a}))
		}))
		// remove: Aggregate(A+B) minus B = Aggregate(A)
		if cut > 0 {
			c.Case("remove", "agg.pk "+scalarsLine(ks[:cut]), guard(func() string {
				all, err := crypto.AggregateBLSPublicKeys(ppks)
				if err != nil {
					return "err"
				}
				return pkEnc(crypto.RemoveBLSPublicKeys(all, pks[cut:]))
			}))
		}
		// identity keys inside the lists (documented as valid inputs): in the list to remove and in the list to aggregate,
		// at the first, a middle and the last place, after a longer unrelated aggregation and removal (what a pooled or
		// reused array still holds from the call before must not be read)
		if cut > 0 && it%2 == 0 {
			if idKeysC04 == nil {
				idKeysC04 = c.identityKeys()
			}
			withIds := func(base []crypto.PublicKey) []crypto.PublicKey {
				out := append([]crypto.PublicKey{}, base...)
				for k := 0; k < 1+c.intn(3); k++ {
					pos := []int{0, len(out) / 2, len(out)}[c.intn(3)]
					id := idKeysC04[c.intn(len(idKeysC04))]
					out = append(out[:pos], append([]crypto.PublicKey{id}, out[pos:]...)...)
				}
				return out
			}
			rem, aggl := withIds(pks[cut:]), withIds(ppks)
			var junk []crypto.PublicKey
			for k := 0; k < 2*size+6; k++ {
				junk = append(junk, skFromInt(c.randScalar()).PublicKey())
			}
			c.Case("remove-with-identity", "agg.pk "+scalarsLine(ks[:cut]), guard(func() string {
				all, err := crypto.AggregateBLSPublicKeys(ppks)
				if err != nil {
					return "err"
				}
				if ja, err := crypto.AggregateBLSPublicKeys(junk); err == nil {
					_, _ = crypto.RemoveBLSPublicKeys(ja, junk[1:])
				}
				return pkEnc(crypto.RemoveBLSPublicKeys(all, rem))
			}))
			c.Case("agg-pk-with-identity", "agg.pk "+scalarsLine(ks), guard(func() string {
				_, _ = crypto.AggregateBLSPublicKeys(junk)
				return pkEnc(crypto.AggregateBLSPublicKeys(aggl))
			}))
		}
		// operation results fed back as inputs: removal one key at a time (each result is the next aggKey), then
		// re-aggregation of the reduced key with the removed ones, and a decode round trip of the reduced key
		if cut > 0 && cut < size {
			c.Case("remove-chained", "agg.pk "+scalarsLine(ks[:cut]), guard(func() string {
				cur, err := crypto.AggregateBLSPublicKeys(ppks)
				if err != nil {
					return "err"
				}
				for _, pk := range pks[cut:] {
					cur, err = crypto.RemoveBLSPublicKeys(cur, []crypto.PublicKey{pk})
					if err != nil {
						return "err " + errClass(err)
					}
				}
				dec, derr := crypto.DecodePublicKey(crypto.BLSBLS12381, cur.Encode())
				if derr != nil {
					return "ok " + hx(cur.Encode()) + " result-does-not-decode"
				}
				if !dec.Equals(cur) || !cur.Equals(dec) {
					return "ok " + hx(cur.Encode()) + " decoded-not-equal"
				}
				return "ok " + hx(cur.Encode())
			}))
			c.Case("agg-of-removed", "agg.pk "+scalarsLine(ks), guard(func() string {
				all, err := crypto.AggregateBLSPublicKeys(ppks)
				if err != nil {
					return "err"
				}
				red, err := crypto.RemoveBLSPublicKeys(all, pks[cut:])
				if err != nil {
					return "err " + errClass(err)
				}
				return pkEnc(crypto.AggregateBLSPublicKeys(append([]crypto.PublicKey{red}, pks[cut:]...)))
			}))
		}
		// signatures: aggregate of the individual signatures = signature of the aggregated key = (sum k) * H
		msg := c.bytes(c.intn(100))
		hp := hashPoint(msg, h)
		sigs := make([]crypto.Signature, size)
		var sigHex []string
		for i := range sks {
			sigs[i], _ = psks[i].Sign(msg, h)
			sigHex = append(sigHex, hx(sigs[i]))
		}
		aggAns := guard(func() string {
			s, err := crypto.AggregateBLSSignatures(sigs)
			if err != nil {
				return "err " + errClass(err)
			}
			return "ok " + hx(hold("AggregateBLSSignatures", s))
		})
		c.Case("agg-sig", "agg.sig "+strings.Join(sigHex, " "), aggAns)
		sum := new(big.Int)
		for _, k := range ks {
			sum.Add(sum, k)
		}
		sum.Mod(sum, blsR)
		c.Case("agg-sig-vs-agg-key", fmt.Sprintf("sig.expect 0x%s %s", sum.Text(16), hx(hp)), aggAns)
		if sum.Sign() == 0 {
			c.Case("identity-signature-flag", "expect true #", fmt.Sprint(strings.HasPrefix(aggAns, "ok ") && crypto.IsBLSSignatureIdentity(sigs[0][:0:0]) == false && func() bool {
				s, _ := crypto.AggregateBLSSignatures(sigs)
				return crypto.IsBLSSignatureIdentity(s)
			}()))
		}
		// nested aggregation of signatures (groups may sum to the identity signature), and the identity
		// signature itself as a list element at each position
		{
			cutS := 1 + c.intn(size)
			agg1 := guard(func() string {
				a, e1 := crypto.AggregateBLSSignatures(sigs[:cutS])
				if e1 != nil {
					return "err " + errClass(e1)
				}
				if cutS == size {
					return "ok " + hx(a)
				}
				b, e2 := crypto.AggregateBLSSignatures(sigs[cutS:])
				if e2 != nil {
					return "err " + errClass(e2)
				}
				r, e3 := crypto.AggregateBLSSignatures([]crypto.Signature{b, a})
				if e3 != nil {
					return "err " + errClass(e3)
				}
				return "ok " + hx(r)
			})
			c.Case("agg-sig-nested", fmt.Sprintf("sig.expect 0x%s %s", sum.Text(16), hx(hp)), agg1)
			idSig := make([]byte, 48)
			idSig[0] = 0xc0
			pos := c.intn(size + 1)
			withId := append(append(append([]crypto.Signature{}, sigs[:pos]...), idSig), sigs[pos:]...)
			c.Case("agg-sig-with-identity-element", fmt.Sprintf("sig.expect 0x%s %s", sum.Text(16), hx(hp)), guard(func() string {
				r, err := crypto.AggregateBLSSignatures(withId)
				if err != nil {
					return "err " + errClass(err)
				}
				return "ok " + hx(r)
			}))
			// a cancelling pair aggregated first, then used as an element
			kk := c.randScalar()
			s1, _ := skFromInt(kk).Sign(msg, h)
			s2, _ := skFromInt(new(big.Int).Sub(blsR, kk)).Sign(msg, h)
			c.Case("agg-sig-cancelled-group-element", fmt.Sprintf("sig.expect 0x%s %s", sum.Text(16), hx(hp)), guard(func() string {
				z, err := crypto.AggregateBLSSignatures([]crypto.Signature{s1, s2})
				if err != nil {
					return "err " + errClass(err)
				}
				r, err := crypto.AggregateBLSSignatures(append([]crypto.Signature{sigs[0], z}, sigs[1:]...))
				if err != nil {
					return "err " + errClass(err)
				}
				return "ok " + hx(r)
			}))
		}
		// lists in which an element equals the sum of the elements before it (an addition that meets P + P), or its
		// negation (the running sum passes through the identity), at every prefix length
		if size >= 2 && size <= 8 {
			for cut := 1; cut < size; cut++ {
				pre, e0 := crypto.AggregateBLSSignatures(sigs[:cut])
				if e0 != nil {
					break
				}
				prefSum := new(big.Int)
				for _, j := range perm[:cut] {
					prefSum.Add(prefSum, ks[j])
				}
				for variant := 0; variant < 2; variant++ {
					elem := pre
					if variant == 1 {
						if new(big.Int).Mod(prefSum, blsR).Sign() == 0 {
							continue
						}
						elem, _ = skFromInt(new(big.Int).Sub(blsR, new(big.Int).Mod(prefSum, blsR))).Sign(msg, h)
					}
					list := append(append(append([]crypto.Signature{}, sigs[:cut]...), elem), sigs[cut:]...)
					tot := new(big.Int).Set(sum)
					if variant == 0 {
						tot.Add(tot, prefSum)
					} else {
						tot.Sub(tot, prefSum)
					}
					tot.Mod(tot, blsR)
					c.Case(fmt.Sprintf("agg-sig-partial-sum-element/%d", variant), fmt.Sprintf("sig.expect 0x%s %s", tot.Text(16), hx(hp)), guard(func() string {
						r, err := crypto.AggregateBLSSignatures(list)
						if err != nil {
							return "err " + errClass(err)
						}
						return "ok " + hx(r)
					}))
				}
			}
			// the same for public keys: the partial sum comes out of an aggregation (projective coordinates inside)
			for cut := 1; cut < size; cut++ {
				pre, e0 := crypto.AggregateBLSPublicKeys(ppks[:cut])
				if e0 != nil {
					break
				}
				list := append(append(append([]crypto.PublicKey{}, ppks[:cut]...), pre), ppks[cut:]...)
				kl := append([]*big.Int{}, ks...)
				for _, j := range perm[:cut] {
					kl = append(kl, ks[j])
				}
				c.Case("agg-pk-partial-sum-element", "agg.pk "+scalarsLine(kl), guard(func() string { return pkEnc(crypto.AggregateBLSPublicKeys(list)) }))
			}
		}
		// a malformed signature inside the list
		if it%5 == 0 || size > 16 {
			bad := append([]crypto.Signature{}, sigs...)
			pos := c.intn(size)
			if size > 16 {
				pos = size - 1 - c.intn(2)
			}
			kind := c.intn(3)
			switch kind {
			case 0:
				bad[pos] = bad[pos][:47]
			case 1:
				bad[pos] = crypto.BLSInvalidSignature()
			case 2:
				bad[pos] = append([]byte{}, askBytes("e1 add "+hx(sigs[pos])+" "+hx(askBytes("e1 torsion 0")))...)
			}
			var bh []string
			for _, s := range bad {
				bh = append(bh, hx(s))
			}
			c.Case(fmt.Sprintf("agg-sig-bad-%d", kind), "agg.sig "+strings.Join(bh, " "), guard(func() string {
				s, err := crypto.AggregateBLSSignatures(bad)
				if err != nil {
					return "err " + errClass(err)
				}
				return "ok " + hx(s)
			}))
		}
	}
	// curve points with special coordinates in the list (aggregation sums curve points; it makes no subgroup check, by
	// design): abscissa zero (the two points of order 3), the smallest and the largest abscissas on the curve, points of
	// small order and points outside G1 - alone, with their negative, repeated, and next to honest signatures
	{
		var special [][]byte
		addPt := func(enc []byte) {
			if len(enc) == 48 {
				special = append(special, enc, askBytes("e1 neg "+hx(enc)))
			}
		}
		zero := make([]byte, 48)
		zero[0] = 0x80
		addPt(zero)
		for _, x := range []*big.Int{big.NewInt(1), big.NewInt(2), big.NewInt(9), new(big.Int).Sub(blsP, big.NewInt(40)), new(big.Int).Rsh(blsP, 1), new(big.Int).Lsh(big.NewInt(1), 380)} {
			if a := ask("e1 lift 0x" + x.Text(16)); strings.HasPrefix(a, "ok ") {
				addPt(unhexOr(a[3:]))
			}
		}
		for _, i := range []int{0, 1, 2, 100, 101} {
			addPt(askBytes(fmt.Sprintf("e1 torsion %d", i)))
		}
		addPt(askBytes("e1 off 0"))
		honest := []crypto.Signature{}
		for j := 0; j < 2; j++ {
			sg, _ := skFromInt(c.randScalar()).Sign(c.bytes(9), crypto.NewExpandMsgXOFKMAC128("special"))
			honest = append(honest, sg)
		}
		aggCase := func(class string, list []crypto.Signature) {
			var bh []string
			for _, s := range list {
				bh = append(bh, hx(s))
			}
			c.Case(class, "agg.sig "+strings.Join(bh, " "), guard(func() string {
				s, err := crypto.AggregateBLSSignatures(list)
				if err != nil {
					return "err " + errClass(err)
				}
				return "ok " + hx(hold("AggregateBLSSignatures", s))
			}))
		}
		// lists of identity signatures only (and the results written over by the caller, who owns them): afterwards the
		// identity is still recognised, still neutral, and such lists still aggregate to it
		{
			id := make([]byte, 48)
			id[0] = 0xc0
			for k := 1; k <= 3; k++ {
				list := make([]crypto.Signature, k)
				for j := range list {
					list[j] = append([]byte{}, id...)
				}
				var bh []string
				for _, s := range list {
					bh = append(bh, hx(s))
				}
				c.Case("agg-sig-identities-only", "agg.sig "+strings.Join(bh, " "), guard(func() string {
					s, err := crypto.AggregateBLSSignatures(list)
					if err != nil {
						return "err " + errClass(err)
					}
					v := hx(s)
					for i := range s { // the result is the caller's
						s[i] ^= 0x5A
					}
					return "ok " + v
				}))
			}
			aggCase("agg-sig-identities-only/after-overwrite", []crypto.Signature{append([]byte{}, id...)})
			aggCase("agg-sig-identities-only/after-overwrite", []crypto.Signature{honest[0], append([]byte{}, id...)})
			c.Case("agg-sig-identities-only/identity-still-recognised", "expect true #", fmt.Sprint(crypto.IsBLSSignatureIdentity(append([]byte{}, id...))))
		}
		for k := 0; k+1 < len(special); k += 2 {
			P, N := crypto.Signature(special[k]), crypto.Signature(special[k+1])
			aggCase("agg-sig-special-point/alone", []crypto.Signature{P})
			aggCase("agg-sig-special-point/alone", []crypto.Signature{N})
			aggCase("agg-sig-special-point/with-negative", []crypto.Signature{P, N})
			aggCase("agg-sig-special-point/repeated", []crypto.Signature{P, P, P})
			aggCase("agg-sig-special-point/among-honest", []crypto.Signature{honest[0], P, honest[1]})
			aggCase("agg-sig-special-point/last", []crypto.Signature{honest[0], honest[1], N})
			if k+3 < len(special) {
				aggCase("agg-sig-special-point/two", []crypto.Signature{P, crypto.Signature(special[k+2])})
			}
		}
	}
	genAggLengths(c)
	// pairs of curve points (no subgroup check in aggregation, by design) whose abscissas differ by a value with a
	// structured MONTGOMERY form (x * 2^384 mod p): the intermediate Z of the first addition is that difference, and a
	// shortcut that inspects only some limbs of Z ("is it one?", "is it zero?") is wrong exactly there
	{
		R := new(big.Int).Lsh(big.NewInt(1), 384)
		Rinv := new(big.Int).ModInverse(R, blsP)
		montOne := new(big.Int).Mod(R, blsP)
		var targets []*big.Int
		for _, k := range []int64{1, 2, 3, 1 << 40} {
			// the low 256 bits of the Montgomery form of one, other high limbs
			low := new(big.Int).And(montOne, new(big.Int).Sub(new(big.Int).Lsh(big.NewInt(1), 256), big.NewInt(1)))
			hi := new(big.Int).Rsh(montOne, 256)
			hi.Add(hi, big.NewInt(k))
			v := new(big.Int).Add(low, new(big.Int).Lsh(hi, 256))
			if v.Cmp(blsP) < 0 {
				targets = append(targets, v)
			}
			targets = append(targets, new(big.Int).Lsh(big.NewInt(k), 256), new(big.Int).Lsh(big.NewInt(k), 320), new(big.Int).Lsh(big.NewInt(k), 128))
		}
		xOf := func(enc []byte) *big.Int { return new(big.Int).SetBytes(append([]byte{enc[0] & 0x1f}, enc[1:]...)) }
		exact := func(x *big.Int) []byte { // the encoding of a point with abscissa exactly x, or nil
			a := ask("e1 lift 0x" + x.Text(16))
			if !strings.HasPrefix(a, "ok ") {
				return nil
			}
			enc := unhexOr(a[3:])
			if len(enc) != 48 || xOf(enc).Cmp(x) != 0 {
				return nil
			}
			return enc
		}
		for ti, tv := range targets {
			dd := new(big.Int).Mul(tv, Rinv)
			dd.Mod(dd, blsP)
			found := 0
			for try := 0; try < 60 && found < 2; try++ {
				x1 := new(big.Int).Mod(new(big.Int).SetBytes(c.bytes(48)), blsP)
				p1 := exact(x1)
				if p1 == nil {
					continue
				}
				p2 := exact(new(big.Int).Mod(new(big.Int).Add(x1, dd), blsP))
				if p2 == nil {
					continue
				}
				found++
				for _, list := range [][]crypto.Signature{{p1, p2}, {p2, p1}, {p1, p2, p1}} {
					var bh []string
					for _, s := range list {
						bh = append(bh, hx(s))
					}
					c.Case(fmt.Sprintf("agg-sig-montgomery-difference/%d", ti%4), "agg.sig "+strings.Join(bh, " "), guard(func() string {
						s, err := crypto.AggregateBLSSignatures(list)
						if err != nil {
							return "err " + errClass(err)
						}
						return "ok " + hx(s)
					}))
				}
			}
		}
	}
	// call histories on one OS thread: an accepted aggregation, an aggregation REJECTED for an entry that fails only
	// after decompression has begun (x >= p, x not on the curve, flag combinations), then aggregations of the entries
	// accepted before (a memo of the last decompressed point that a rejected entry leaves half-updated)
	{
		done := make(chan struct{})
		go func() {
			defer close(done)
			runtime.LockOSThread()
			defer runtime.UnlockOSThread()
			h := crypto.NewExpandMsgXOFKMAC128("agg-history")
			msg := c.bytes(12)
			k1, k2 := c.randScalar(), c.randScalar()
			s1, _ := skFromInt(k1).Sign(msg, h)
			s2, _ := skFromInt(k2).Sign(msg, h)
			notOnCurve := append([]byte{}, s2...)
			for try := 0; try < 64; try++ { // an abscissa that is not on the curve: half of all candidates
				notOnCurve[47] = byte(try)
				if _, err := crypto.AggregateBLSSignatures([]crypto.Signature{notOnCurve}); err != nil {
					break
				}
			}
			xGeP := append([]byte{}, be(new(big.Int).Add(blsP, big.NewInt(3)), 48)...)
			xGeP[0] |= 0x80
			flags := append([]byte{}, s2...)
			flags[0] |= 0x40
			bads := [][]byte{notOnCurve, xGeP, flags, s2[:47], crypto.BLSInvalidSignature()}
			agg := func(class string, list []crypto.Signature) {
				var bh []string
				for _, s := range list {
					bh = append(bh, hx(s))
				}
				c.Case("agg-history/"+class, "agg.sig "+strings.Join(bh, " "), guard(func() string {
					s, err := crypto.AggregateBLSSignatures(list)
					if err != nil {
						return "err " + errClass(err)
					}
					return "ok " + hx(hold("AggregateBLSSignatures", s))
				}))
			}
			for _, bad := range bads {
				agg("accepted", []crypto.Signature{s2, s1})
				agg("rejected", []crypto.Signature{s2, bad})
				agg("single-after-rejected", []crypto.Signature{s1})
				agg("accepted-again", []crypto.Signature{s2, s1})
				agg("rejected-first-entry", []crypto.Signature{bad, s1})
				agg("pair-after-rejected", []crypto.Signature{s1, s2})
			}
		}()
		<-done
	}
	// documented errors
	c.Case("errors", "expect EmptyList EmptyList EmptyList NotBLSKey NotBLSKey NotBLSKey #", guard(func() string {
		_, e1 := crypto.AggregateBLSSignatures(nil)
		_, e2 := crypto.AggregateBLSPrivateKeys(nil)
		_, e3 := crypto.AggregateBLSPublicKeys(nil)
		ec := ecSk(ecCurves[0], big.NewInt(5))
		_, e4 := crypto.AggregateBLSPrivateKeys([]crypto.PrivateKey{skFromInt(big.NewInt(3)), ec})
		_, e5 := crypto.AggregateBLSPublicKeys([]crypto.PublicKey{ec.PublicKey()})
		_, e6 := crypto.RemoveBLSPublicKeys(ec.PublicKey(), nil)
		return strings.Join([]string{errClass(e1), errClass(e2), errClass(e3), errClass(e4), errClass(e5), errClass(e6)}, " ")
	}))
	// identity constants
	inf := make([]byte, 96)
	inf[0] = 0xc0
	c.Case("identity-pk-constant", "expect ok "+hx(inf)+" #", "ok "+hx(crypto.IdentityBLSPublicKey().Encode()))
}

func popHasher() hash.Hasher {
	k, err := hash.NewKMAC_128([]byte("BLS_POP_BLS12381G1_XOF:KMAC128_SSWU_RO_POP_"), []byte("H2C"), 128)
	if err != nil {
		panic(err)
	}
	return k
}


func genC16(c *Ctx) {
	nKeys := 6
	if c.thorough() {
		nKeys = 60
	}
	ph := popHasher()
	keys := c.blsKeys(nKeys)
	tags := []string{"", "A", "BLS_POP_", "BLS_POP_BLS12381G1_XOF:KMAC128_SSWU_RO_POP_", "BLS_SIG_", "BLS_POP_BLS12381G1_XOF:KMAC128_SSWU_RO_POP_BLS_SIG_BLS12381G1_XOF:KMAC128_SSWU_RO_POP_", string(c.bytes(1024)),
		"BLS_P", "_", "BLS12381G1_XOF:KMAC128_SSWU_RO_POP_", "BLS_SIG_BLS12381G1_XOF:KMAC128_SSWU_RO_POP_", "POP_", "RO_POP_", "BLS_POP_BLS12381G1_XOF:KMAC128_SSWU_RO_",
		"xBLS_POP_BLS12381G1_XOF:KMAC128_SSWU_RO_POP_", "BLS_POP_BLS12381G1_XOF:KMAC128_SSWU_RO_POP_x"}
	// a fresh private key whose first uses overlap: one goroutine generates the proof, others ask for the public key;
	// the proof is the one of the key (the model's) and verifies under every public key object handed out
	for trial := 0; trial < 10; trial++ {
		k := c.randScalar()
		sk := skFromInt(k)
		const G = 5
		pks := make([]crypto.PublicKey, G)
		var pop crypto.Signature
		var perr error
		start := make(chan struct{})
		var wg sync.WaitGroup
		for g := 0; g < G; g++ {
			wg.Add(1)
			go func(g int) {
				defer wg.Done()
				<-start
				if g == 0 {
					pop, perr = crypto.BLSGeneratePOP(sk)
				} else {
					pks[g] = sk.PublicKey()
				}
			}(g)
		}
		close(start)
		wg.Wait()
		ans := "err"
		if perr == nil {
			ans = "ok " + hx(pop)
			for g := 1; g < G; g++ {
				if ok, err := crypto.BLSVerifyPOP(pks[g], pop); err != nil || !ok {
					ans += " proof-rejected-under-a-public-key-handed-out-concurrently"
					break
				}
			}
		}
		c.Case("pop-concurrent-first-use", "pop.gen 0x"+k.Text(16), ans)
	}
	for ki, key := range keys {
		pkb := key.pk.Encode()
		hpop := hashPoint(pkb, ph)
		pop, err := crypto.BLSGeneratePOP(key.sk)
		hold("BLSGeneratePOP", pop)
		if err != nil {
			panic(err)
		}
		ks := "0x" + key.k.Text(16)
		c.Case("pop-gen/"+key.kind, "sig.expect "+ks+" "+hx(hpop), "ok "+hx(pop))
		// and from the key alone: the model hashes the encoded public key under the PoP suite itself
		if key.k.Sign() != 0 {
			c.Case("pop-gen-from-key/"+key.kind, "pop.gen "+ks, "ok "+hx(pop))
		}
		// call history: the caller re-uses ONE buffer for every proof it checks (a result remembered per key or per
		// slice must not survive the buffer being overwritten); for every other key this is the very first
		// verification the key ever sees, for the others it comes after fresh-slice verifications
		inplaceBlock := func() {
			buf := append([]byte{}, pop...)
			c.Case("pop-inplace/honest-first", "bls.verify "+ks+" "+hx(hpop)+" "+hx(buf), stable3(func() string { return boolAns(crypto.BLSVerifyPOP(key.pk, buf)) }))
			pk2, _ := crypto.DecodePublicKey(crypto.BLSBLS12381, pkb)
			inplace := [][]byte{flipBit(pop, 200), crypto.BLSInvalidSignature()}
			for _, tag := range tags[:4] {
				sg, _ := key.sk.Sign(pkb, crypto.NewExpandMsgXOFKMAC128(tag))
				inplace = append(inplace, sg)
			}
			for i, cand := range inplace {
				copy(buf, cand)
				pk := key.pk
				if i%2 == 1 && pk2 != nil {
					pk = pk2
				}
				c.Case("pop-inplace/overwritten", "bls.verify "+ks+" "+hx(hpop)+" "+hx(buf), stable3(func() string { return boolAns(crypto.BLSVerifyPOP(pk, buf)) }))
				copy(buf, pop)
				c.Case("pop-inplace/restored", "bls.verify "+ks+" "+hx(hpop)+" "+hx(buf), stable3(func() string { return boolAns(crypto.BLSVerifyPOP(pk, buf)) }))
			}
		}
		if ki%2 == 0 {
			inplaceBlock()
		}
		// the key decoded from a receive buffer that the caller then reuses for the next key (a key object that serves
		// its encoding from the caller's slice hashes something else): the genuine PoP still verifies, the PoP of the key
		// now in the buffer does not
		if key.k.Sign() != 0 {
			rbuf := append([]byte{}, pkb...)
			dec, derr := crypto.DecodePublicKey(crypto.BLSBLS12381, rbuf)
			otherK := keys[(ki+1)%len(keys)]
			if derr == nil && otherK.k.Sign() != 0 {
				copy(rbuf, otherK.pk.Encode())
				otherPop, _ := crypto.BLSGeneratePOP(otherK.sk)
				c.Case("pop-decoded-key-buffer-reused/genuine", "bls.verify "+ks+" "+hx(hpop)+" "+hx(pop), stable3(func() string { return boolAns(crypto.BLSVerifyPOP(dec, pop)) }))
				c.Case("pop-decoded-key-buffer-reused/other", "bls.verify "+ks+" "+hx(hpop)+" "+hx(otherPop), stable3(func() string { return boolAns(crypto.BLSVerifyPOP(dec, otherPop)) }))
				c.Case("pop-decoded-key-buffer-reused/encoding", "expect "+hx(pkb)+" #", hx(dec.Encode()))
			}
		}
		c.Case("pop-verify-honest", "bls.verify "+ks+" "+hx(hpop)+" "+hx(pop), stable3(func() string { return boolAns(crypto.BLSVerifyPOP(key.pk, pop)) }))
		// wrong key
		other := keys[(ki+1)%len(keys)]
		ohp := hashPoint(other.pk.Encode(), ph)
		c.Case("pop-other-key", "bls.verify 0x"+other.k.Text(16)+" "+hx(ohp)+" "+hx(pop), stable3(func() string { return boolAns(crypto.BLSVerifyPOP(other.pk, pop)) }))
		// candidate strings
		for _, cc := range sortedCands(c.candidateSigs(pop, hpop, 4)) {
			class, cands := cc.class, cc.cands
			for _, cand := range cands {
				c.Case("pop-candidate/"+class, "bls.verify "+ks+" "+hx(hpop)+" "+hx(cand), stable3(func() string { return boolAns(crypto.BLSVerifyPOP(key.pk, cand)) }))
			}
		}
		if ki%2 == 1 {
			inplaceBlock()
		}
		// signatures of the public key bytes under application tags submitted as PoP; PoP submitted to Verify under tags
		for _, tag := range tags {
			th := crypto.NewExpandMsgXOFKMAC128(tag)
			sig, _ := key.sk.Sign(pkb, th)
			c.Case("sig-as-pop", "bls.verify "+ks+" "+hx(hpop)+" "+hx(sig), stable3(func() string { return boolAns(crypto.BLSVerifyPOP(key.pk, sig)) }))
			c.Case("pop-as-sig", "bls.verify "+ks+" "+hx(hashPoint(pkb, th))+" "+hx(pop), guard(func() string { return boolAns(key.pk.Verify(pop, pkb, th)) }))
			// domain separation stated outright (the model only sees the hash points the implementation's hashers produce):
			// under no application tag is a signature of the key bytes a PoP, nor the PoP a signature, and the two
			// hash-to-curve images of the key bytes differ
			c.Case("sig-as-pop-direct", "expect false #", stable3(func() string { return boolAns(crypto.BLSVerifyPOP(key.pk, sig)) }))
			c.Case("pop-as-sig-direct", "expect false #", guard(func() string { return boolAns(key.pk.Verify(pop, pkb, th)) }))
			c.Case("pop-hash-point-distinct", "expect true #", fmt.Sprint(!bytes.Equal(hashPoint(pkb, th), hpop) && !bytes.Equal(sig, pop)))
		}
	}
	inf := make([]byte, 48)
	inf[0] = 0xc0
	pop0, _ := crypto.BLSGeneratePOP(keys[0].sk)
	for _, idk := range c.identityKeys() {
		for _, cand := range [][]byte{inf, pop0} {
			c.Case("pop-identity-key", "expect false #", stable3(func() string { return boolAns(crypto.BLSVerifyPOP(idk, cand)) }))
		}
	}
	// the proof of possession GENERATED by an aggregated private key whose scalar is zero never verifies under its own
	// (identity) public key, whichever inputs had their public keys computed before
	for pat := 0; pat < 4; pat++ {
		a := c.randScalar()
		x, y := skFromInt(a), skFromInt(new(big.Int).Sub(blsR, a))
		if pat&1 != 0 {
			_ = x.PublicKey()
		}
		if pat&2 != 0 {
			_ = y.PublicKey()
		}
		c.Case("pop-of-zero-aggregated-key", "expect false #", guard(func() string {
			z, err := crypto.AggregateBLSPrivateKeys([]crypto.PrivateKey{x, y})
			if err != nil {
				return "err " + errClass(err)
			}
			pop, err := crypto.BLSGeneratePOP(z)
			if err != nil {
				return "false" // refusing to prove possession of the zero key is fine too
			}
			return boolAns(crypto.BLSVerifyPOP(z.PublicKey(), pop))
		}))
	}
	ec := ecSk(ecCurves[0], big.NewInt(5))
	c.Case("pop-not-bls", "expect NotBLSKey NotBLSKey #", guard(func() string {
		_, e1 := crypto.BLSGeneratePOP(ec)
		_, e2 := crypto.BLSVerifyPOP(ec.PublicKey(), pop0)
		return errClass(e1) + " " + errClass(e2)
	}))
}

func genC17(c *Ctx) {
	n := 25
	if c.thorough() {
		n = 600
	}
	h := crypto.NewExpandMsgXOFKMAC128("spock")
	inf := make([]byte, 48)
	inf[0] = 0xc0
	for it := 0; it < n; it++ {
		k1, k2 := c.randScalar(), c.randScalar()
		switch it % 6 {
		case 1:
			k2 = k1
		case 2:
			k2 = new(big.Int).Sub(blsR, k1)
		}
		sk1, sk2 := skFromInt(k1), skFromInt(k2)
		pk1, pk2 := sk1.PublicKey(), sk2.PublicKey()
		data := c.bytes(c.intn(64))
		p1, _ := crypto.SPOCKProve(sk1, data, h)
		p2, _ := crypto.SPOCKProve(sk2, data, h)
		hold("SPOCKProve", p1)
		hold("SPOCKProve", p2)
		hp := hashPoint(data, h)
		// SPOCKProve = Sign
		c.Case("prove-is-sign", fmt.Sprintf("sig.expect 0x%s %s", k1.Text(16), hx(hp)), "ok "+hx(p1))
		emit := func(class string, a *big.Int, pa crypto.PublicKey, x []byte, b *big.Int, pb crypto.PublicKey, y []byte) {
			line := fmt.Sprintf("spock 0x%s %s 0x%s %s", a.Text(16), hx(x), b.Text(16), hx(y))
			xc, yc := cloneOrNil(x), cloneOrNil(y) // windows of larger buffers with live bytes behind them
			c.Case(class, line, stable3(func() string { return boolAns(crypto.SPOCKVerify(pa, xc, pb, yc)) }))
		}
		// the two proofs in ONE slice (a caller that checks a proof against itself, or keeps both in one buffer): the
		// verdict is a function of the values; and the slice holds the same bytes afterwards
		{
			one := cloneOrNil(p1)
			nk1 := new(big.Int).Sub(blsR, k1)
			npk1 := skFromInt(nk1).PublicKey()
			c.Case("same-slice/same-key", fmt.Sprintf("spock 0x%s %s 0x%s %s", k1.Text(16), hx(p1), k1.Text(16), hx(p1)),
				stable3(func() string { return boolAns(crypto.SPOCKVerify(pk1, one, pk1, one)) }))
			c.Case("same-slice/negated-key", fmt.Sprintf("spock 0x%s %s 0x%s %s", k1.Text(16), hx(p1), nk1.Text(16), hx(p1)),
				stable3(func() string { return boolAns(crypto.SPOCKVerify(pk1, one, npk1, one)) }))
			c.Case("same-slice/negated-key-first", fmt.Sprintf("spock 0x%s %s 0x%s %s", nk1.Text(16), hx(p1), k1.Text(16), hx(p1)),
				stable3(func() string { return boolAns(crypto.SPOCKVerify(npk1, one, pk1, one)) }))
			both := cloneOrNil(append(append([]byte{}, p1...), p2...)) // adjacent windows of one buffer, in both orders
			c.Case("same-buffer/adjacent", fmt.Sprintf("spock 0x%s %s 0x%s %s", k1.Text(16), hx(p1), k2.Text(16), hx(p2)),
				stable3(func() string { return boolAns(crypto.SPOCKVerify(pk1, both[:48], pk2, both[48:96])) }))
			c.Case("same-buffer/adjacent-swapped", fmt.Sprintf("spock 0x%s %s 0x%s %s", k2.Text(16), hx(p2), k1.Text(16), hx(p1)),
				stable3(func() string { return boolAns(crypto.SPOCKVerify(pk2, both[48:96], pk1, both[:48])) }))
			if hx(one) != hx(p1) || hx(both) != hx(p1)+hx(p2) {
				c.Case("same-slice/arguments-unchanged", "expect ok #", "proof-bytes-changed-by-verification")
			} else {
				c.Case("same-slice/arguments-unchanged", "expect ok #", "ok")
			}
		}
		emit("honest", k1, pk1, p1, k2, pk2, p2)
		emit("swapped-pairs", k2, pk2, p2, k1, pk1, p1)
		emit("crossed-proofs", k1, pk1, p2, k2, pk2, p1)
		otherData := append([]byte{7}, data...)
		q2, _ := crypto.SPOCKProve(sk2, otherData, h)
		emit("other-data", k1, pk1, p1, k2, pk2, q2)
		k3 := c.randScalar()
		emit("other-key", k1, pk1, p1, k3, skFromInt(k3).PublicKey(), p2)
		// scaled by a common factor
		f := c.randScalar()
		emit("scaled", k1, pk1, askBytes("e1 mul 0x"+f.Text(16)+" "+hx(p1)), k2, pk2, askBytes("e1 mul 0x"+f.Text(16)+" "+hx(p2)))
		// proofs outside G1
		t := askBytes(fmt.Sprintf("e1 torsion %d", []int{0, 1, 2, 100, 101, 102}[it%6]))
		emit("p1-plus-torsion", k1, pk1, askBytes("e1 add "+hx(p1)+" "+hx(t)), k2, pk2, p2)
		emit("p2-plus-torsion", k1, pk1, p1, k2, pk2, askBytes("e1 add "+hx(p2)+" "+hx(t)))
		emit("both-plus-torsion", k1, pk1, askBytes("e1 add "+hx(p1)+" "+hx(t)), k2, pk2, askBytes("e1 add "+hx(p2)+" "+hx(t)))
		// both proofs outside G1 with torsion components that cancel in the sum / are opposite / are multiples
		nt := askBytes("e1 neg " + hx(t))
		t2 := askBytes("e1 add " + hx(t) + " " + hx(t))
		emit("opposite-torsion", k1, pk1, askBytes("e1 add "+hx(p1)+" "+hx(t)), k2, pk2, askBytes("e1 add "+hx(p2)+" "+hx(nt)))
		emit("opposite-torsion-swapped", k2, pk2, askBytes("e1 add "+hx(p2)+" "+hx(nt)), k1, pk1, askBytes("e1 add "+hx(p1)+" "+hx(t)))
		emit("torsion-and-double", k1, pk1, askBytes("e1 add "+hx(p1)+" "+hx(t)), k2, pk2, askBytes("e1 add "+hx(p2)+" "+hx(t2)))
		emit("opposite-torsion-same-key", k1, pk1, askBytes("e1 add "+hx(p1)+" "+hx(t)), k1, pk1, askBytes("e1 add "+hx(p1)+" "+hx(nt)))
		emit("identity-proofs", k1, pk1, inf, k2, pk2, inf)
		emit("identity-proof-1", k1, pk1, inf, k2, pk2, p2)
		emit("malformed", k1, pk1, flipBit(p1, c.intn(384)), k2, pk2, p2)
		emit("wrong-length", k1, pk1, p1[:47], k2, pk2, p2)
		emit("wrong-length-2", k1, pk1, p1, k2, pk2, append(append([]byte{}, p2...), 0))
		// both proofs of a wrong length with lengths that add up to 96 (a check on the combined length would pass)
		both := append(append([]byte{}, p1...), p2...)
		for _, cut := range []int{0, 1, 47, 49, 95, 96} {
			emit("wrong-length-both", k1, pk1, both[:cut], k2, pk2, both[cut:])
		}
		emit("wrong-length-both", k1, pk1, nil, k2, pk2, both)
		// the same key on both sides, held in objects of different provenance (fresh = affine coordinates; result of a
		// removal = projective coordinates), with identical proofs: e(p, pk) = e(p, pk) whatever the representation
		{
			o := skFromInt(c.randScalar()).PublicKey()
			both, _ := crypto.AggregateBLSPublicKeys([]crypto.PublicKey{pk1, o})
			pk1r, err := crypto.RemoveBLSPublicKeys(both, []crypto.PublicKey{o})
			if err == nil {
				dec, _ := crypto.DecodePublicKey(crypto.BLSBLS12381, pk1.Encode())
				emit("same-key-other-provenance/removal", k1, pk1, p1, k1, pk1r, p1)
				emit("same-key-other-provenance/removal-swapped", k1, pk1r, p1, k1, pk1, p1)
				emit("same-key-other-provenance/decoded", k1, pk1, p1, k1, dec, p1)
				emit("same-key-other-provenance/removal-both", k1, pk1r, p1, k1, pk1r, p1)
			}
		}
		// identity keys
		idk := pickIdentity(c, it)
		zero := big.NewInt(0)
		emit("identity-key-1", zero, idk, inf, k2, pk2, p2)
		emit("identity-key-2", k1, pk1, p1, zero, idk, inf)
		emit("identity-both", zero, idk, inf, zero, idk, inf)
		// SPOCKVerifyAgainstData = Verify
		c.Case("against-data", fmt.Sprintf("bls.verify 0x%s %s %s", k1.Text(16), hx(hp), hx(p1)), stable3(func() string { return boolAns(crypto.SPOCKVerifyAgainstData(pk1, p1, data, h)) }))
		c.Case("against-other-data", fmt.Sprintf("bls.verify 0x%s %s %s", k1.Text(16), hx(hashPoint(otherData, h)), hx(p1)), stable3(func() string { return boolAns(crypto.SPOCKVerifyAgainstData(pk1, p1, otherData, h)) }))
	}
	// call histories on one OS thread (state kept between calls - a cache of the last accepted proof, say - must not leak
	// from a rejected call into the next one): accepted, rejected at the same position, then the accepted proof again
	{
		done := make(chan struct{})
		go func() {
			defer close(done)
			runtime.LockOSThread()
			defer runtime.UnlockOSThread()
			for it := 0; it < 6; it++ {
				k1, k2 := c.randScalar(), c.randScalar()
				sk1, sk2 := skFromInt(k1), skFromInt(k2)
				pk1, pk2 := sk1.PublicKey(), sk2.PublicKey()
				dA, dB := c.bytes(20), c.bytes(21)
				a1, _ := crypto.SPOCKProve(sk1, dA, h)
				a2, _ := crypto.SPOCKProve(sk2, dA, h)
				b2, _ := crypto.SPOCKProve(sk2, dB, h)
				t := askBytes(fmt.Sprintf("e1 torsion %d", []int{100, 0, 102}[it%3]))
				badG1 := askBytes("e1 add " + hx(a1) + " " + hx(t))
				offCurve := append([]byte{}, a1...)
				offCurve[47] ^= 1
				bads := [][]byte{badG1, offCurve, crypto.BLSInvalidSignature(), a1[:47]}
				emit := func(class string, x, y []byte) {
					line := fmt.Sprintf("spock 0x%s %s 0x%s %s", k1.Text(16), hx(x), k2.Text(16), hx(y))
					c.Case("history/"+class, line, stable3(func() string { return boolAns(crypto.SPOCKVerify(pk1, x, pk2, y)) }))
				}
				emit("accepted", a1, a2)
				emit("rejected-position-1", bads[it%len(bads)], a2)
				emit("accepted-again", a1, a2)
				emit("other-data-after", a1, b2)
				emit("rejected-position-2", a1, bads[(it+1)%len(bads)])
				emit("accepted-again-2", a1, a2)
				emit("crossed-after", a2, a1)
			}
		}()
		<-done
	}
	// overlapping SPOCKVerify calls, each goroutine with its own keys and proofs (scratch memory shared between calls
	// mixes the proofs of different callers): honest pairs and pairs over different data, against the verdicts alone
	{
		const G = 16
		type job struct {
			pk1, pk2       crypto.PublicKey
			a1, a2, b2     crypto.Signature
			line1, line2   string
		}
		jobs := make([]*job, G)
		for i := range jobs {
			k1, k2 := c.randScalar(), c.randScalar()
			s1, s2 := skFromInt(k1), skFromInt(k2)
			dA, dB := c.bytes(10+i), c.bytes(11+i)
			j := &job{pk1: s1.PublicKey(), pk2: s2.PublicKey()}
			j.a1, _ = crypto.SPOCKProve(s1, dA, h)
			j.a2, _ = crypto.SPOCKProve(s2, dA, h)
			j.b2, _ = crypto.SPOCKProve(s2, dB, h)
			j.line1 = fmt.Sprintf("spock 0x%s %s 0x%s %s", k1.Text(16), hx(j.a1), k2.Text(16), hx(j.a2))
			j.line2 = fmt.Sprintf("spock 0x%s %s 0x%s %s", k1.Text(16), hx(j.a1), k2.Text(16), hx(j.b2))
			jobs[i] = j
		}
		res1 := make([]string, G)
		res2 := make([]string, G)
		start := make(chan struct{})
		var wg sync.WaitGroup
		for i := 0; i < G; i++ {
			wg.Add(1)
			go func(i int) {
				defer wg.Done()
				j := jobs[i]
				<-start
				res1[i], res2[i] = "true", "false"
				for rep := 0; rep < 40; rep++ {
					if v := guard(func() string { return boolAns(crypto.SPOCKVerify(j.pk1, j.a1, j.pk2, j.a2)) }); v != "true" {
						res1[i] = v
					}
					if v := guard(func() string { return boolAns(crypto.SPOCKVerify(j.pk1, j.a1, j.pk2, j.b2)) }); v != "false" {
						res2[i] = v
					}
				}
			}(i)
		}
		close(start)
		wg.Wait()
		for i, j := range jobs {
			c.Case("concurrent/honest", j.line1, res1[i])
			c.Case("concurrent/other-data", j.line2, res2[i])
		}
	}
	ec := ecSk(ecCurves[1], big.NewInt(5))
	bk := skFromInt(big.NewInt(9))
	pr, _ := crypto.SPOCKProve(bk, []byte("d"), h)
	c.Case("not-bls", "expect NotBLSKey NotBLSKey NotBLSKey NotBLSKey #", guard(func() string {
		_, e1 := crypto.SPOCKProve(ec, []byte("d"), h)
		_, e2 := crypto.SPOCKVerifyAgainstData(ec.PublicKey(), pr, []byte("d"), h)
		_, e3 := crypto.SPOCKVerify(ec.PublicKey(), pr, bk.PublicKey(), pr)
		_, e4 := crypto.SPOCKVerify(bk.PublicKey(), pr, ec.PublicKey(), pr)
		return strings.Join([]string{errClass(e1), errClass(e2), errClass(e3), errClass(e4)}, " ")
	}))
}

// genAggLengths: lists whose entries have wrong lengths that add up to the right total (a check on the flattened length
// only would re-cut them into valid encodings): 47+49, 49+47, 0+96, 1+95, 96+0, 24+24+48, three-way 40+50+54
func genAggLengths(c *Ctx) {
	h := crypto.NewExpandMsgXOFKMAC128("lengths")
	msg := c.bytes(9)
	a, _ := skFromInt(c.randScalar()).Sign(msg, h)
	b, _ := skFromInt(c.randScalar()).Sign(msg, h)
	d, _ := skFromInt(c.randScalar()).Sign(msg, h)
	ab := append(append([]byte{}, a...), b...)
	abd := append(append([]byte{}, ab...), d...)
	for _, cuts := range [][]int{{47, 96}, {49, 96}, {0, 96}, {1, 96}, {96, 96}, {24, 48, 96}, {95, 96}} {
		var list []crypto.Signature
		prev := 0
		for _, cut := range cuts {
			list = append(list, crypto.Signature(ab[prev:cut]))
			prev = cut
		}
		var bh []string
		for _, s := range list {
			bh = append(bh, hx(s))
		}
		c.Case("agg-sig-compensating-lengths", "agg.sig "+strings.Join(bh, " "), guard(func() string {
			s, err := crypto.AggregateBLSSignatures(list)
			if err != nil {
				return "err " + errClass(err)
			}
			return "ok " + hx(s)
		}))
	}
	list3 := []crypto.Signature{abd[:40], abd[40:90], abd[90:]}
	c.Case("agg-sig-compensating-lengths", "agg.sig "+hx(list3[0])+" "+hx(list3[1])+" "+hx(list3[2]), guard(func() string {
		s, err := crypto.AggregateBLSSignatures(list3)
		if err != nil {
			return "err " + errClass(err)
		}
		return "ok " + hx(s)
	}))

}
