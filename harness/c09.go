//go:build !no_cgo

package main

import (
	"time"
	"math"
	"fmt"
	"math/big"
	"sort"
	"strings"

	"github.com/onflow/crypto"
	"github.com/onflow/crypto/hash"
	"github.com/onflow/crypto/random"
)

func init() { generators["C09"] = genC09 }

// probe runs f under recover and classifies the outcome.
func (c *Ctx) probe(name, shape string, typedOnly bool, f func() (string, error)) {
	res := guard(func() string {
		r, err := f()
		if err != nil {
			k := errClass(err)
			if k == "Other" && typedOnly {
				return "untyped-error:" + err.Error()
			}
			return "nopanic"
		}
		_ = r
		return "nopanic"
	})
	if res == "panic" {
		res = "PANIC"
	}
	c.Case("probe/"+name, "expect nopanic #"+name+" "+shape, res)
}

func byteShapes(c *Ctx, exact int) map[string][]byte {
	m := map[string][]byte{"nil": nil, "empty": {}, "one": {1}, "huge": make([]byte, 1<<16)}
	if exact > 0 {
		m["short-by-1"] = c.bytes(exact - 1)
		m["exact-random"] = c.bytes(exact)
		m["long-by-1"] = c.bytes(exact + 1)
		m["exact-zeros"] = make([]byte, exact)
		ff := make([]byte, exact)
		for i := range ff {
			ff[i] = 0xff
		}
		m["exact-ones"] = ff
	}
	return m
}

func genC09(c *Ctx) {
	algos := []crypto.SigningAlgorithm{-1, 0, 1, 2, 3, 4, 100, 1 << 30}
	bk := skFromInt(big.NewInt(7))
	ek := ecSk(ecCurves[0], big.NewInt(7))
	kk := ecSk(ecCurves[1], big.NewInt(7))
	h := crypto.NewExpandMsgXOFKMAC128("t")
	sha := hash.NewSHA3_256()
	sig, _ := bk.Sign([]byte("m"), h)
	// enums
	for _, a := range algos {
		c.probe("SigningAlgorithm.String", fmt.Sprint(int(a)), true, func() (string, error) { return a.String(), nil })
		for _, e_name := range ordered(byteShapes(c, 32)) {
		name, b := e_name.k, e_name.v
		_, _ = name, b
			c.probe("GeneratePrivateKey", fmt.Sprintf("algo=%d seed=%s", a, name), true, func() (string, error) { _, err := crypto.GeneratePrivateKey(a, b); return "", err })
			c.probe("DecodePrivateKey", fmt.Sprintf("algo=%d %s", a, name), true, func() (string, error) { _, err := crypto.DecodePrivateKey(a, b); return "", err })
		}
		for _, l := range []int{33, 48, 64, 96} {
			for _, e_name := range ordered(byteShapes(c, l)) {
		name, b := e_name.k, e_name.v
		_, _ = name, b
				c.probe("DecodePublicKey", fmt.Sprintf("algo=%d len%d-%s", a, l, name), true, func() (string, error) { _, err := crypto.DecodePublicKey(a, b); return "", err })
				c.probe("DecodePublicKeyCompressed", fmt.Sprintf("algo=%d len%d-%s", a, l, name), true, func() (string, error) { _, err := crypto.DecodePublicKeyCompressed(a, b); return "", err })
				c.probe("SignatureFormatCheck", fmt.Sprintf("algo=%d len%d-%s", a, l, name), true, func() (string, error) { _, err := crypto.SignatureFormatCheck(a, b); return "", err })
			}
		}
	}
	for _, a := range []hash.HashingAlgorithm{-1, 0, 1, 6, 7, 1000} {
		c.probe("HashingAlgorithm.String", fmt.Sprint(int(a)), true, func() (string, error) { return a.String(), nil })
	}
	// sign / verify on every key type with every hasher shape and signature shape
	hashers := map[string]hash.Hasher{"nil": nil, "kmac128": h, "sha3": sha, "size0": &fixedHasher{size: 0}, "size127": &fixedHasher{out: make([]byte, 127), size: 127}, "size129": &fixedHasher{out: make([]byte, 129), size: 129}}
	for _, e_kname := range ordered(map[string]crypto.PrivateKey{"bls": bk, "p256": ek, "k256": kk}) {
		kname, sk := e_kname.k, e_kname.v
		_, _ = kname, sk
		for _, e_hname := range ordered(hashers) {
		hname, hs := e_hname.k, e_hname.v
		_, _ = hname, hs
			for _, e_dname := range ordered(byteShapes(c, 0)) {
		dname, d := e_dname.k, e_dname.v
		_, _ = dname, d
				c.probe("Sign", kname+" hasher="+hname+" data="+dname, true, func() (string, error) { _, err := sk.Sign(d, hs); return "", err })
			}
			for _, l := range []int{48, 64} {
				for _, e_sname := range ordered(byteShapes(c, l)) {
		sname, s := e_sname.k, e_sname.v
		_, _ = sname, s
					c.probe("Verify", fmt.Sprintf("%s hasher=%s sig=len%d-%s", kname, hname, l, sname), true, func() (string, error) { _, err := sk.PublicKey().Verify(s, []byte("m"), hs); return "", err })
				}
			}
		}
		c.probe("KeyMethods", kname, true, func() (string, error) {
			pk := sk.PublicKey()
			_ = sk.Encode()
			_ = pk.Encode()
			_ = pk.EncodeCompressed()
			_ = sk.String() + pk.String() + fmt.Sprint(sk.Size(), pk.Size(), sk.Algorithm(), pk.Algorithm())
			_ = sk.Equals(bk) || pk.Equals(bk.PublicKey()) || pk.Equals(ek.PublicKey())
			return "", nil
		})
	}
	for _, e_name := range ordered(byteShapes(c, 48)) {
		name, s := e_name.k, e_name.v
		_, _ = name, s
		c.probe("IsBLSSignatureIdentity", name, true, func() (string, error) { return fmt.Sprint(crypto.IsBLSSignatureIdentity(s), crypto.Signature(s).String(), len(crypto.Signature(s).Bytes())), nil })
		c.probe("BLSVerifyPOP", name, true, func() (string, error) { _, err := crypto.BLSVerifyPOP(bk.PublicKey(), s); return "", err })
		c.probe("SPOCKVerify", name, true, func() (string, error) {
			_, e1 := crypto.SPOCKVerify(bk.PublicKey(), s, bk.PublicKey(), sig)
			_, e2 := crypto.SPOCKVerify(bk.PublicKey(), sig, bk.PublicKey(), s)
			_, e3 := crypto.SPOCKVerifyAgainstData(bk.PublicKey(), s, nil, h)
			if e1 != nil {
				return "", e1
			}
			if e2 != nil {
				return "", e2
			}
			return "", e3
		})
	}
	c.probe("NewExpandMsgXOFKMAC128", "tags", true, func() (string, error) {
		for _, t := range []string{"", "a", string(make([]byte, 5000))} {
			hh := crypto.NewExpandMsgXOFKMAC128(t)
			if hh.Size() != 128 {
				return "", fmt.Errorf("size")
			}
			hh.ComputeHash(nil)
		}
		return "", nil
	})
	c.probe("POP-SPOCK-nonBLS", "ecdsa keys", true, func() (string, error) {
		crypto.BLSGeneratePOP(ek)
		crypto.BLSVerifyPOP(ek.PublicKey(), sig)
		crypto.SPOCKProve(ek, nil, h)
		crypto.SPOCKProve(bk, nil, nil)
		crypto.SPOCKVerifyAgainstData(ek.PublicKey(), sig, nil, h)
		return "", nil
	})
	// removal lists made only of identity keys (documented as valid inputs), of every provenance, lengths 1..3
	{
		idks := c.identityKeys()
		base := bk.PublicKey()
		for i, k1 := range idks {
			lists := [][]crypto.PublicKey{{k1}, {k1, idks[(i+1)%len(idks)]}, {k1, k1, idks[(i+2)%len(idks)]}}
			for li, l := range lists {
				c.probe("RemoveBLSPublicKeys", fmt.Sprintf("identity-only-%d-%d", i, li), true, func() (string, error) {
					r, err := crypto.RemoveBLSPublicKeys(base, l)
					if err == nil && !r.Equals(base) {
						return "removing identity keys changed the key", nil
					}
					return "", err
				})
			}
		}
	}
	// aggregation and multi-verification with list shapes
	pk := bk.PublicKey()
	listShapes := map[string][]crypto.PublicKey{"nil": nil, "empty": {}, "one": {pk}, "nil-element": {pk, nil}, "mixed": {pk, ek.PublicKey()}, "many": {pk, pk, pk, pk, pk}}
	for _, e_lname := range ordered(listShapes) {
		lname, pks := e_lname.k, e_lname.v
		_, _ = lname, pks
		c.probe("AggregateBLSPublicKeys", lname, true, func() (string, error) { _, err := crypto.AggregateBLSPublicKeys(pks); return "", err })
		c.probe("RemoveBLSPublicKeys", lname, true, func() (string, error) { _, err := crypto.RemoveBLSPublicKeys(pk, pks); return "", err })
		c.probe("VerifyBLSSignatureOneMessage", lname, true, func() (string, error) {
			_, err := crypto.VerifyBLSSignatureOneMessage(pks, sig, nil, h)
			return "", err
		})
		for _, e_sname := range ordered(byteShapes(c, 48)) {
		sname, s := e_sname.k, e_sname.v
		_, _ = sname, s
			for _, nm := range []int{0, 1, len(pks), len(pks) + 1} {
				msgs := make([][]byte, nm)
				hs := make([]hash.Hasher, nm)
				for i := range hs {
					hs[i] = h
				}
				if nm > 1 {
					hs[nm-1] = nil
				}
				c.probe("VerifyBLSSignatureManyMessages", fmt.Sprintf("%s sig=%s msgs=%d", lname, sname, nm), true, func() (string, error) {
					_, err := crypto.VerifyBLSSignatureManyMessages(pks, s, msgs, hs)
					return "", err
				})
			}
			sigs := make([]crypto.Signature, len(pks))
			for i := range sigs {
				sigs[i] = s
			}
			c.probe("BatchVerifyBLSSignaturesOneMessage", lname+" sigs="+sname, true, func() (string, error) {
				_, err := crypto.BatchVerifyBLSSignaturesOneMessage(pks, sigs, nil, h)
				return "", err
			})
			c.probe("BatchVerifyBLSSignaturesOneMessage", lname+" mismatched sigs="+sname, true, func() (string, error) {
				_, err := crypto.BatchVerifyBLSSignaturesOneMessage(pks, append(sigs, s), nil, h)
				return "", err
			})
		}
	}
	for _, e_lname := range ordered(map[string][]crypto.PrivateKey{"nil": nil, "one": {bk}, "nil-element": {bk, nil}, "mixed": {bk, ek}}) {
		lname, sks := e_lname.k, e_lname.v
		_, _ = lname, sks
		c.probe("AggregateBLSPrivateKeys", lname, true, func() (string, error) { _, err := crypto.AggregateBLSPrivateKeys(sks); return "", err })
	}
	for _, e_sname := range ordered(byteShapes(c, 48)) {
		sname, s := e_sname.k, e_sname.v
		_, _ = sname, s
		for _, n := range []int{0, 1, 3} {
			l := make([]crypto.Signature, n)
			for i := range l {
				l[i] = s
			}
			c.probe("AggregateBLSSignatures", fmt.Sprintf("%d x %s", n, sname), true, func() (string, error) { _, err := crypto.AggregateBLSSignatures(l); return "", err })
		}
	}
	// threshold API
	ts := newThSetup(c, 4, 2)
	ints := []int{-1 << 40, -1, 0, 1, 3, 4, 254, 255, 256, 1 << 40}
	for _, n := range ints {
		for _, t := range []int{-1, 0, 1, 2, 3, 4, 255, 1 << 40} {
			c.probe("BLSThresholdKeyGen", fmt.Sprintf("n=%d t=%d", n, t), true, func() (string, error) {
				if n > 300 {
					return "", nil // size is bounded by the guard; avoid nothing: still call
				}
				_, _, _, err := crypto.BLSThresholdKeyGen(n, t, ts.seed)
				return "", err
			})
			c.probe("EnoughShares", fmt.Sprintf("t=%d k=%d", t, n), true, func() (string, error) { _, err := crypto.EnoughShares(t, n); return "", err })
			for _, e_sname := range ordered(byteShapes(c, 48)) {
		sname, s := e_sname.k, e_sname.v
		_, _ = sname, s
				c.probe("BLSReconstructThresholdSignature", fmt.Sprintf("n=%d t=%d share=%s", n, t, sname), true, func() (string, error) {
					shares := []crypto.Signature{s, s, s}
					_, err := crypto.BLSReconstructThresholdSignature(n, t, shares, []int{0, 1, 2})
					return "", err
				})
			}
		}
	}
	for _, shapes := range [][2]int{{0, 0}, {3, 2}, {2, 3}, {3, 3}, {5, 5}} {
		shares := make([]crypto.Signature, shapes[0])
		for i := range shares {
			shares[i] = ts.shares[i%4]
		}
		for _, idx := range ints {
			signers := make([]int, shapes[1])
			for i := range signers {
				signers[i] = i
			}
			if len(signers) > 0 {
				signers[len(signers)-1] = idx
			}
			c.probe("BLSReconstructThresholdSignature", fmt.Sprintf("shares=%d signers=%d last=%d", shapes[0], shapes[1], idx), true, func() (string, error) {
				_, err := crypto.BLSReconstructThresholdSignature(4, 2, shares, signers)
				return "", err
			})
		}
	}
	for _, idx := range ints {
		for _, e_sname := range ordered(byteShapes(c, 48)) {
		sname, s := e_sname.k, e_sname.v
		_, _ = sname, s
			c.probe("Inspector", fmt.Sprintf("idx=%d share=%s", idx, sname), true, func() (string, error) {
				insp, err := crypto.NewBLSThresholdSignatureInspector(ts.group, ts.pks, ts.t, ts.msg, ts.tag)
				if err != nil {
					return "", err
				}
				insp.VerifyShare(idx, s)
				insp.HasShare(idx)
				insp.TrustedAdd(idx, s)
				insp.VerifyAndAdd(idx, s)
				insp.TrustedAdd(0, s)
				insp.TrustedAdd(1, ts.shares[1])
				insp.TrustedAdd(2, ts.shares[2])
				insp.EnoughShares()
				insp.VerifyThresholdSignature(s)
				insp.ThresholdSignature()
				insp.ThresholdSignature()
				return "", nil
			})
		}
		c.probe("NewBLSThresholdSignatureParticipant", fmt.Sprintf("idx=%d", idx), true, func() (string, error) {
			p, err := crypto.NewBLSThresholdSignatureParticipant(ts.group, ts.pks, ts.t, idx, ts.sks[0], ts.msg, ts.tag)
			if err == nil {
				p.SignShare()
			}
			crypto.NewBLSThresholdSignatureInspector(ts.group, nil, idx, ts.msg, ts.tag)
			crypto.NewBLSThresholdSignatureInspector(ts.group, ts.pks, idx, nil, "")
			return "", err
		})
	}
	// DKG: random message sequences with arbitrary tags and payloads from arbitrary origins at arbitrary phases
	nSeq := 150
	if c.thorough() {
		nSeq = 6000
	}
	for it := 0; it < nSeq; it++ {
		proto := []string{"fvss", "fvssq", "joint"}[it%3]
		n, t := 3+c.intn(3), 1+c.intn(2)
		me, dealer := c.intn(n), c.intn(n)
		nd, err := newDkgNode(proto, n, t, me, dealer)
		if err != nil {
			continue
		}
		p := c.randPoly(t)
		var toks []string
		for j := 0; j < 3+c.intn(12); j++ {
			orig := []int{c.intn(n), c.intn(n), dealer, -1, n, 255, 256, -1 << 40}[c.intn(8)]
			var m []byte
			switch c.intn(9) {
			case 0:
				m = p.vectorMsg()
			case 1:
				m = shareMsg(p.eval(me + 1))
			case 2:
				m = complaintMsg(c.intn(n + 2))
			case 3:
				m = answerMsg(c.intn(n+2), c.randScalar())
			case 4:
				m = []byte{}
			case 5:
				m = []byte{byte(c.intn(6))}
			case 6:
				m = append([]byte{byte(c.intn(5))}, c.bytes(c.intn(300))...)
			case 7:
				m = p.vectorMsg()[:1+c.intn(96*(t+1))]
			case 8:
				m = nil
			}
			switch c.intn(8) {
			case 0:
				toks = append(toks, []string{"S:" + hx(c.bytes(32)), "S:" + hx(c.bytes(3)), "S:-"}[c.intn(3)])
			case 1:
				toks = append(toks, "T")
			case 2:
				toks = append(toks, "E")
			case 3:
				toks = append(toks, fmt.Sprintf("F:%d", orig))
			case 4, 5:
				toks = append(toks, fmt.Sprintf("B:%d:%s", orig, hx(m)))
			default:
				toks = append(toks, fmt.Sprintf("P:%d:%s", orig, hx(m)))
			}
		}
		if c.intn(2) == 0 {
			toks = append([]string{"S:" + hx(c.bytes(32))}, toks...)
		}
		ended := false
		for _, tok := range toks {
			if ended && strings.HasPrefix(tok, "S:") {
				continue
			}
			nd.call(tok)
			if tok == "E" && !strings.HasPrefix(nd.answers[len(nd.answers)-1], "IT") {
				ended = true
			}
		}
		res := "nopanic"
		if nd.panicked {
			res = "PANIC in " + nd.line()
		}
		for _, a := range nd.answers {
			if strings.HasPrefix(a, "other") {
				// an untyped error: only the seed-related Start failure of the dealer is documented as such
			}
		}
		c.Case("dkg-fuzz/"+proto, "expect nopanic #"+fmt.Sprint(it), res)
		// the same sequence is also a correspondence case for the state-machine model
		c.Case("dkg-fuzz-model/"+proto, nd.line(), nd.answer())
	}
	// targeted handler sequences: malformed dealer messages in both orders, failed Start then messages
	for _, proto := range []string{"fvss", "fvssq", "joint"} {
		for variant := 0; variant < 8; variant++ {
			n, t, me, dealer := 4, 2, 1, 0
			p := c.randPoly(t)
			vec := p.vectorMsg()
			bad := map[int][]byte{0: vec[:len(vec)-1], 1: vec[:1], 2: append([]byte{1}, make([]byte, 96*3)...), 3: vec[:97]}[variant%4]
			sh := shareMsg(p.eval(me + 1))
			toks := []string{"S:" + hx(c.bytes(32)), "B:0:" + hx(bad), "P:0:" + hx(sh), "T", "T", "E"}
			if variant >= 4 {
				toks[1], toks[2] = toks[2], toks[1]
			}
			nd, err := newDkgNode(proto, n, t, me, dealer)
			if err != nil {
				panic(err)
			}
			for _, tok := range toks {
				nd.call(tok)
			}
			res := "nopanic"
			if nd.panicked {
				res = "PANIC in " + nd.line()
			}
			c.Case("dkg-targeted/"+proto, fmt.Sprintf("expect nopanic #targeted-%s-%d", proto, variant), res)
		}
		// a dealer whose Start fails, then a complaint arrives
		nd, _ := newDkgNode(proto, 4, 2, 0, 0)
		for _, tok := range []string{"S:" + hx(c.bytes(3)), "B:1:" + hx(complaintMsg(0)), "P:1:00", "F:1", "T", "E"} {
			nd.call(tok)
		}
		res := "nopanic"
		if nd.panicked {
			res = "PANIC in " + nd.line()
		}
		c.Case("dkg-targeted/"+proto, "expect nopanic #failed-start-"+proto, res)
	}
	genDkgEnum(c, true)

	for _, g := range [][4]int{{-1, 1, 0, 0}, {1 << 40, 1, 0, 0}, {3, -1, 0, 0}, {3, 1 << 40, 0, 0}, {3, 1, -1, 0}, {3, 1, 1 << 40, 0}, {3, 1, 0, -1}, {3, 1, 0, 1 << 40}} {
		c.probe("DKG-constructors", fmt.Sprint(g), true, func() (string, error) {
			_, e1 := crypto.NewFeldmanVSS(g[0], g[1], g[2], &recProc{}, g[3])
			_, e2 := crypto.NewFeldmanVSSQual(g[0], g[1], g[2], &recProc{}, g[3])
			_, e3 := crypto.NewJointFeldman(g[0], g[1], g[2], &recProc{})
			if e1 != nil {
				return "", e1
			}
			if e2 != nil {
				return "", e2
			}
			return "", e3
		})
	}
	// hashers and PRG constructors (their errors are plain errors by documentation)
	for _, e_kname := range ordered(byteShapes(c, 16)) {
		kname, k := e_kname.k, e_kname.v
		_, _ = kname, k
		for _, out := range []int{math.MinInt64, math.MinInt64 + 1, -(1 << 62) + 128, -(1 << 62), -(1 << 61), -(1 << 61) + 16, -(1 << 60), -(1 << 60) - 1, -1 << 40, -(1 << 32), -(1 << 31), -1, 0, 1, 168, 1 << 16} {
			c.probe("NewKMAC_128", fmt.Sprintf("key=%s out=%d", kname, out), false, func() (string, error) {
				hh, err := hash.NewKMAC_128(k, k, out)
				if err == nil {
					hh.Write(k)
					hh.SumHash()
					hh.ComputeHash(k)
					hh.Reset()
					_ = hh.Size()
					_ = hh.Algorithm().String()
				}
				return "", err
			})
		}
	}
	for _, e_name := range ordered(map[string]func() hash.Hasher{"sha2_256": hash.NewSHA2_256, "sha2_384": hash.NewSHA2_384, "sha3_256": hash.NewSHA3_256, "sha3_384": hash.NewSHA3_384, "keccak": hash.NewKeccak_256}) {
		name, hs := e_name.k, e_name.v
		_, _ = name, hs
		for _, e_dname := range ordered(byteShapes(c, 136)) {
		dname, d := e_dname.k, e_dname.v
		_, _ = dname, d
			c.probe("Hasher", name+" "+dname, false, func() (string, error) {
				x := hs()
				x.Write(d)
				x.SumHash()
				x.SumHash()
				x.Write(d)
				x.ComputeHash(d)
				x.Reset()
				x.Write(d)
				x.SumHash()
				return x.Algorithm().String(), nil
			})
		}
	}
	for _, e_sname := range ordered(byteShapes(c, 32)) {
		sname, s := e_sname.k, e_sname.v
		_, _ = sname, s
		for _, e_cname := range ordered(byteShapes(c, 12)) {
		cname, cu := e_cname.k, e_cname.v
		_, _ = cname, cu
			c.probe("NewChacha20PRG", "seed="+sname+" cust="+cname, false, func() (string, error) {
				g, err := random.NewChacha20PRG(s, cu)
				if err != nil {
					return "", err
				}
				g.Read(nil)
				g.Read(make([]byte, 100))
				g.UintN(1)
				g.Permutation(-1)
				g.Permutation(0)
				g.SubPermutation(-1, -1)
				g.SubPermutation(3, 5)
				g.Samples(-2, 1, func(int, int) {})
				g.Shuffle(-7, func(int, int) {})
				g.Store()
				return "", nil
			})
		}
	}
	// the sampling helpers return for every value and every history on one generator: bounds whose byte width grows and
	// shrinks between calls, populations crossing 256 and 65536 inside one call, repeated calls
	for hi, hist := range [][]string{
		{"u9223372036854775808", "u300", "u3", "u65536", "u255", "u256", "u1"},
		{"u300", "u18446744073709551615", "u2", "u70000", "u200"},
		{"p300", "p300", "p2", "p70000", "p255"},
		{"sh300", "sh257", "sh3", "sm300,300", "sm70000,5", "sp300,299", "sp257,257"},
		{"u1099511627776", "p260", "sm260,260", "u5", "sh66000", "u4294967296", "u4294967295", "p17"},
	} {
		ans := guardT(60*time.Second, func() string {
			g, err := random.NewChacha20PRG(c.bytes(32), c.bytes(5))
			if err != nil {
				return "constructor-error"
			}
			for _, op := range hist {
				var n, m int
				var u uint64
				switch {
				case strings.HasPrefix(op, "u"):
					fmt.Sscanf(op, "u%d", &u)
					if v := g.UintN(u); v >= u {
						return fmt.Sprintf("UintN(%d) = %d", u, v)
					}
				case strings.HasPrefix(op, "p"):
					fmt.Sscanf(op, "p%d", &n)
					if l, err := g.Permutation(n); err != nil || len(l) != n {
						return "Permutation(" + fmt.Sprint(n) + ") refused or of the wrong length"
					}
				case strings.HasPrefix(op, "sh"):
					fmt.Sscanf(op, "sh%d", &n)
					if err := g.Shuffle(n, func(int, int) {}); err != nil {
						return "Shuffle refused " + fmt.Sprint(n)
					}
				case strings.HasPrefix(op, "sm"):
					fmt.Sscanf(op, "sm%d,%d", &n, &m)
					if err := g.Samples(n, m, func(int, int) {}); err != nil {
						return "Samples refused " + op
					}
				case strings.HasPrefix(op, "sp"):
					fmt.Sscanf(op, "sp%d,%d", &n, &m)
					if l, err := g.SubPermutation(n, m); err != nil || len(l) != m {
						return "SubPermutation refused or of the wrong length " + op
					}
				}
			}
			return "ok"
		})
		c.Case("prg-helpers-return", fmt.Sprintf("expect ok #history %d: %s", hi, strings.Join(hist, " ")), ans)
	}
	for _, e_name := range ordered(byteShapes(c, 52)) {
		name, st := e_name.k, e_name.v
		_, _ = name, st
		c.probe("RestoreChacha20PRG", name, false, func() (string, error) {
			if len(st) == 52 { // keep the counter in the documented range
				for i := 48; i < 52; i++ {
					st[i] = 0
				}
			}
			g, err := random.RestoreChacha20PRG(st)
			if err == nil {
				g.Read(make([]byte, 10))
			}
			return "", err
		})
	}
	// a pairing that is skipped (keys cancelling on one message) at every position of the batches of pairings
	genManyMessagesCancelling(c, "C09")
}

type kv[V any] struct {
	k string
	v V
}

// ordered fixes the enumeration order of a map (generation must be reproducible for replays).
func ordered[V any](m map[string]V) []kv[V] {
	var keys []string
	for k := range m {
		keys = append(keys, k)
	}
	sort.Strings(keys)
	out := make([]kv[V], 0, len(keys))
	for _, k := range keys {
		out = append(out, kv[V]{k, m[k]})
	}
	return out
}

// genDkgEnum: exhaustive short sequences of dealer / complainer messages at one honest non-dealer, in every
// order (answers before complaints, complaints before the vector, a second share after the answer, ...).
// Every order is a correspondence case for the Lean state machine (the answer line carries the callbacks and
// the keys returned by End); with nopanic set, every order is also a no-panic case (C09).
func genDkgEnum(c *Ctx, nopanic bool) {
	for _, proto := range []string{"fvssq", "joint", "fvss"} {
		n, t, me, dealer, other := 3, 1, 1, 0, 2
		p := c.randPoly(t)
		good := shareMsg(p.eval(me + 1))
		alphabet := []string{
			"B:0:" + hx(p.vectorMsg()),                                // 0: the verification vector
			"P:0:" + hx(good),                                         // 1: the right share
			"P:0:" + hx(shareMsg(c.randScalar())),                     // 2: a well-formed wrong share
			"P:0:" + hx(good[:len(good)-1]),                           // 3: a malformed share
			fmt.Sprintf("B:%d:%s", other, hx(complaintMsg(dealer))),   // 4: another node complains
			"B:0:" + hx(answerMsg(other, p.eval(other+1))),            // 5: right answer to it
			"B:0:" + hx(answerMsg(other, c.randScalar())),             // 6: wrong answer to it
			"B:0:" + hx(answerMsg(me, p.eval(me+1))),                  // 7: right answer to my complaint
			"B:0:" + hx(answerMsg(me, c.randScalar())),                // 8: wrong answer to my complaint
			"T",                                                       // 9: a timeout in between
		}
		// full enumeration up to fullLen; one level deeper restricted to sequences of distinct letters that contain the
		// vector and no timeout
		fullLen := 3
		if proto != "fvssq" {
			fullLen = 2
		}
		if c.thorough() {
			fullLen++
		}
		var seqs [][]int
		var rec func(cur []int)
		rec = func(cur []int) {
			if len(cur) > 0 {
				if len(cur) <= fullLen {
					seqs = append(seqs, append([]int{}, cur...))
				} else {
					hasV := false
					for _, a := range cur {
						if a == 0 {
							hasV = true
						}
					}
					if hasV {
						seqs = append(seqs, append([]int{}, cur...))
					}
				}
			}
			if len(cur) == fullLen+1 {
				return
			}
			for a := range alphabet {
				if len(cur) == fullLen {
					// the extra level: distinct letters, no timeout
					dup := a == 9
					for _, b := range cur {
						if b == a || b == 9 {
							dup = true
						}
					}
					if dup {
						continue
					}
				}
				rec(append(cur, a))
			}
		}
		rec(nil)
		seed := "S:" + hx(c.bytes(32))
		for si, sq := range seqs {
			nd, err := newDkgNode(proto, n, t, me, dealer)
			if err != nil {
				panic(err)
			}
			nd.call(seed)
			for _, a := range sq {
				nd.call(alphabet[a])
			}
			nd.call("T")
			nd.call("T")
			nd.call("E")
			if nopanic {
				res := "nopanic"
				if nd.panicked {
					res = "PANIC in " + nd.line()
				}
				c.Case("dkg-enum/"+proto, fmt.Sprintf("expect nopanic #enum-%s-%d", proto, si), res)
			}
			c.Case("dkg-enum-model/"+proto, nd.line(), nd.answer())
		}
	}
}
