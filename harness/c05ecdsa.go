package main

import (
	"fmt"
	"math/big"
	"sync"

	"github.com/onflow/crypto"
	"github.com/onflow/crypto/hash"
)

type ecCurve struct {
	name string
	algo crypto.SigningAlgorithm
	p, n *big.Int
}

func hexInt(s string) *big.Int { v, _ := new(big.Int).SetString(s, 16); return v }

var ecCurves = []ecCurve{
	{"p256", crypto.ECDSAP256, hexInt("ffffffff00000001000000000000000000000000ffffffffffffffffffffffff"), hexInt("ffffffff00000000ffffffffffffffffbce6faada7179e84f3b9cac2fc632551")},
	{"k256", crypto.ECDSASecp256k1, hexInt("fffffffffffffffffffffffffffffffffffffffffffffffffffffffefffffc2f"), hexInt("fffffffffffffffffffffffffffffffebaaedce6af48a03bbfd25e8cd0364141")},
}

func ecSk(cv ecCurve, d *big.Int) crypto.PrivateKey {
	sk, err := crypto.DecodePrivateKey(cv.algo, be(d, 32))
	if err != nil {
		panic(err)
	}
	return sk
}

func (c *Ctx) randMod(n *big.Int) *big.Int {
	for {
		k := new(big.Int).SetBytes(c.bytes(40))
		k.Mod(k, n)
		if k.Sign() != 0 {
			return k
		}
	}
}

func genC05ecdsa(c *Ctx) {
	nRand := 10
	if c.thorough() {
		nRand = 200
	}
	one := big.NewInt(1)
	two256 := new(big.Int).Sub(new(big.Int).Lsh(one, 256), one)
	for _, cv := range ecCurves {
		add := func(b *big.Int, d int64) *big.Int { return new(big.Int).Add(b, big.NewInt(d)) }
		// private keys
		for _, v := range []*big.Int{big.NewInt(0), one, big.NewInt(2), add(cv.n, -2), add(cv.n, -1), add(cv.n, 0), add(cv.n, 1), two256, new(big.Int).Lsh(one, 248)} {
			b := be(v, 32)
			c.Case("ecdsa-sk-boundary", fmt.Sprintf("ecdsa skdec %s %s", cv.name, hx(b)), decPriv(cv.algo, b))
		}
		for l := 0; l <= 200; l++ {
			if l == 32 {
				continue
			}
			b := c.bytes(l)
			if l > 0 {
				b[0] = 0
			}
			c.Case("ecdsa-sk-length", fmt.Sprintf("ecdsa skdec %s %s", cv.name, hx(b)), decPriv(cv.algo, b))
		}
		// public keys: valid ones from the implementation's own key derivation, checked against the model's scalar mult
		var valids [][]byte
		for i := 0; i < 3+nRand/4; i++ {
			d := c.randMod(cv.n)
			if i == 0 {
				d = one
			} else if i == 1 {
				d = add(cv.n, -1)
			} else if i == 2 {
				d = new(big.Int).Lsh(one, 200)
			}
			pk := ecSk(cv, d).PublicKey()
			raw, comp := pk.Encode(), pk.EncodeCompressed()
			valids = append(valids, raw)
			c.Case("ecdsa-pk-of-sk", fmt.Sprintf("ecdsa pkof %s %s", cv.name, hx(be(d, 32))), "ok "+hx(raw)+" "+hx(comp))
			c.Case("ecdsa-pk-valid", fmt.Sprintf("ecdsa pkdec %s %s", cv.name, hx(raw)), decPub(cv.algo, raw))
			c.Case("ecdsa-pkc-valid", fmt.Sprintf("ecdsa pkdecc %s %s", cv.name, hx(comp)), decPubCompressed(cv.algo, comp))
			// every prefix byte
			for pre := 0; pre < 256; pre++ {
				if i > 1 && pre > 8 && pre < 250 && !c.thorough() {
					continue
				}
				o := append([]byte{byte(pre)}, comp[1:]...)
				c.Case("ecdsa-pkc-prefix", fmt.Sprintf("ecdsa pkdecc %s %s", cv.name, hx(o)), decPubCompressed(cv.algo, o))
			}
			// format confusion: other SEC1 / X9.62 forms of the same valid point handed to each decoder
			// (uncompressed 04||X||Y, hybrid 06/07||X||Y with right and wrong parity, raw X||Y to the compressed decoder,
			// the compressed form to the raw decoder, each also padded or truncated by one byte)
			for _, pre := range []byte{0x00, 0x02, 0x03, 0x04, 0x05, 0x06, 0x07} {
				o := append([]byte{pre}, raw...)
				c.Case("ecdsa-pkc-sec1-form", fmt.Sprintf("ecdsa pkdecc %s %s", cv.name, hx(o)), decPubCompressed(cv.algo, o))
				c.Case("ecdsa-pk-sec1-form", fmt.Sprintf("ecdsa pkdec %s %s", cv.name, hx(o)), decPub(cv.algo, o))
			}
			for _, o := range [][]byte{raw, raw[:63], append(append([]byte{}, raw...), 0), comp[:32], append(append([]byte{}, comp...), 0), append(append([]byte{}, comp...), raw[32:]...)} {
				c.Case("ecdsa-pkc-other-form", fmt.Sprintf("ecdsa pkdecc %s %s", cv.name, hx(o)), decPubCompressed(cv.algo, o))
			}
			for _, o := range [][]byte{comp, append(append([]byte{}, comp...), make([]byte, 31)...), append(make([]byte, 31), comp...)} {
				c.Case("ecdsa-pk-other-form", fmt.Sprintf("ecdsa pkdec %s %s", cv.name, hx(o)), decPub(cv.algo, o))
			}
			// x + p, y + p twins (when they fit), y negated, swapped
			x := new(big.Int).SetBytes(raw[:32])
			y := new(big.Int).SetBytes(raw[32:])
			for _, alt := range [][2]*big.Int{{new(big.Int).Add(x, cv.p), y}, {x, new(big.Int).Add(y, cv.p)}, {x, new(big.Int).Sub(cv.p, y)}, {y, x}} {
				if alt[0].BitLen() > 256 || alt[1].BitLen() > 256 {
					continue
				}
				o := append(be(alt[0], 32), be(alt[1], 32)...)
				c.Case("ecdsa-pk-variant", fmt.Sprintf("ecdsa pkdec %s %s", cv.name, hx(o)), decPub(cv.algo, o))
			}
			xp := new(big.Int).Add(x, cv.p)
			if xp.BitLen() <= 256 {
				o := append([]byte{comp[0]}, be(xp, 32)...)
				c.Case("ecdsa-pkc-x-plus-p", fmt.Sprintf("ecdsa pkdecc %s %s", cv.name, hx(o)), decPubCompressed(cv.algo, o))
			}
		}
		coords := []*big.Int{big.NewInt(0), one, big.NewInt(2), big.NewInt(3), add(cv.p, -1), add(cv.p, 0), add(cv.p, 1), two256}
		for _, x := range coords {
			for _, y := range coords {
				o := append(be(x, 32), be(y, 32)...)
				c.Case("ecdsa-pk-coord", fmt.Sprintf("ecdsa pkdec %s %s", cv.name, hx(o)), decPub(cv.algo, o))
			}
			for _, pre := range []byte{0, 2, 3, 4} {
				o := append([]byte{pre}, be(x, 32)...)
				c.Case("ecdsa-pkc-coord", fmt.Sprintf("ecdsa pkdecc %s %s", cv.name, hx(o)), decPubCompressed(cv.algo, o))
			}
		}
		// points whose x-coordinate lies next to the field prime or next to the group order (n < p on both curves, so
		// [n, p) holds reduced coordinates that a check against the wrong modulus rejects): y by the harness's own
		// square root, both roots, raw and compressed forms
		{
			ca, cb := big.NewInt(-3), hexInt("5ac635d8aa3a93e7b3ebbd55769886bc651d06b0cc53b0f63bce3c3e27d2604b")
			if cv.name == "k256" {
				ca, cb = big.NewInt(0), big.NewInt(7)
			}
			kmax := int64(24)
			if c.thorough() {
				kmax = 200
			}
			for _, base := range []*big.Int{cv.p, cv.n} {
				for k := -kmax; k <= kmax; k++ {
					x := add(base, k)
					if x.Sign() < 0 || x.BitLen() > 256 {
						continue
					}
					for _, pre := range []byte{2, 3} {
						o := append([]byte{pre}, be(x, 32)...)
						c.Case("ecdsa-pkc-x-near-modulus", fmt.Sprintf("ecdsa pkdecc %s %s", cv.name, hx(o)), decPubCompressed(cv.algo, o))
					}
					if x.Cmp(cv.p) >= 0 {
						continue
					}
					rhs := new(big.Int).Exp(x, big.NewInt(3), cv.p)
					rhs.Add(rhs, new(big.Int).Mul(ca, x))
					rhs.Add(rhs, cb)
					rhs.Mod(rhs, cv.p)
					y := new(big.Int).ModSqrt(rhs, cv.p)
					if y == nil {
						continue
					}
					for _, yy := range []*big.Int{y, new(big.Int).Sub(cv.p, y)} {
						o := append(be(x, 32), be(yy, 32)...)
						c.Case("ecdsa-pk-x-near-modulus", fmt.Sprintf("ecdsa pkdec %s %s", cv.name, hx(o)), decPub(cv.algo, o))
						// and with the coordinates exchanged on k256-like y: the same value as a y-coordinate is covered
						// by the swapped variant below when it happens to be on the curve
						sw := append(be(yy, 32), be(x, 32)...)
						c.Case("ecdsa-pk-x-near-modulus-swapped", fmt.Sprintf("ecdsa pkdec %s %s", cv.name, hx(sw)), decPub(cv.algo, sw))
					}
				}
			}
		}
		for i := 0; i < nRand*4; i++ {
			o := c.bytes(33)
			o[0] = 2 + byte(c.intn(2))
			c.Case("ecdsa-pkc-random-x", fmt.Sprintf("ecdsa pkdecc %s %s", cv.name, hx(o)), decPubCompressed(cv.algo, o))
			v := valids[c.intn(len(valids))]
			fb := flipBitRaw(v, c.intn(512))
			c.Case("ecdsa-pk-bitflip", fmt.Sprintf("ecdsa pkdec %s %s", cv.name, hx(fb)), decPub(cv.algo, fb))
		}
		for l := 0; l <= 200; l++ {
			o := c.bytes(l)
			if l != 64 {
				c.Case("ecdsa-pk-length", fmt.Sprintf("ecdsa pkdec %s %s", cv.name, hx(o)), decPub(cv.algo, o))
			}
			if l != 33 {
				if l > 0 {
					o[0] = 2
				}
				c.Case("ecdsa-pkc-length", fmt.Sprintf("ecdsa pkdecc %s %s", cv.name, hx(o)), decPubCompressed(cv.algo, o))
			}
		}
	}
}

func flipBitRaw(b []byte, i int) []byte {
	o := append([]byte{}, b...)
	o[i/8] ^= 1 << (7 - uint(i%8))
	return o
}

// ---------------- C11

func init() { generators["C11"] = genC11 }

// affine arithmetic on y^2 = x^3 + a x + b over F_p, for constructing signatures whose ephemeral point has an
// abscissa in [n, p) (then r = x - n: the comparison must be modulo n)
type affPt struct{ x, y *big.Int } // nil x = infinity

func (cv ecCurve) ab() (*big.Int, *big.Int) {
	if cv.name == "p256" {
		return new(big.Int).Sub(cv.p, big.NewInt(3)), hexInt("5ac635d8aa3a93e7b3ebbd55769886bc651d06b0cc53b0f63bce3c3e27d2604b")
	}
	return big.NewInt(0), big.NewInt(7)
}

func (cv ecCurve) add(P, Q affPt) affPt {
	if P.x == nil {
		return Q
	}
	if Q.x == nil {
		return P
	}
	p := cv.p
	var l *big.Int
	if P.x.Cmp(Q.x) == 0 {
		if new(big.Int).Mod(new(big.Int).Add(P.y, Q.y), p).Sign() == 0 {
			return affPt{}
		}
		a, _ := cv.ab()
		num := new(big.Int).Mul(P.x, P.x)
		num.Mul(num, big.NewInt(3)).Add(num, a)
		den := new(big.Int).ModInverse(new(big.Int).Mod(new(big.Int).Lsh(P.y, 1), p), p)
		l = num.Mul(num, den).Mod(num, p)
	} else {
		num := new(big.Int).Sub(Q.y, P.y)
		den := new(big.Int).ModInverse(new(big.Int).Mod(new(big.Int).Sub(Q.x, P.x), p), p)
		l = num.Mul(num, den).Mod(num, p)
	}
	x3 := new(big.Int).Mul(l, l)
	x3.Sub(x3, P.x).Sub(x3, Q.x).Mod(x3, p)
	y3 := new(big.Int).Sub(P.x, x3)
	y3.Mul(y3, l).Sub(y3, P.y).Mod(y3, p)
	return affPt{x3, y3}
}

func (cv ecCurve) mul(k *big.Int, P affPt) affPt {
	R := affPt{}
	for i := k.BitLen() - 1; i >= 0; i-- {
		R = cv.add(R, R)
		if k.Bit(i) == 1 {
			R = cv.add(R, P)
		}
	}
	return R
}

// lift returns a point with abscissa x, or ok=false if x is not on the curve
func (cv ecCurve) lift(x *big.Int) (affPt, bool) {
	a, b := cv.ab()
	rhs := new(big.Int).Mul(x, x)
	rhs.Mul(rhs, x).Add(rhs, new(big.Int).Mul(a, x)).Add(rhs, b).Mod(rhs, cv.p)
	y := new(big.Int).ModSqrt(rhs, cv.p)
	if y == nil {
		return affPt{}, false
	}
	return affPt{new(big.Int).Set(x), y}, true
}

func genC11(c *Ctx) {
	nKeys, nMsg := 3, 3
	if c.thorough() {
		nKeys, nMsg = 12, 10
	}
	kmac32, _ := hash.NewKMAC_128(make([]byte, 16), []byte("cust"), 32)
	kmac48, _ := hash.NewKMAC_128(make([]byte, 16), nil, 48)
	kmac128, _ := hash.NewKMAC_128(make([]byte, 16), nil, 128)
	hashers := []struct {
		name string
		h    hash.Hasher
	}{{"sha2_256", hash.NewSHA2_256()}, {"sha2_384", hash.NewSHA2_384()}, {"sha3_256", hash.NewSHA3_256()}, {"sha3_384", hash.NewSHA3_384()},
		{"keccak256", hash.NewKeccak_256()}, {"kmac32", kmac32}, {"kmac48", kmac48}, {"kmac128", kmac128}}
	one := big.NewInt(1)
	two256 := new(big.Int).Sub(new(big.Int).Lsh(one, 256), one)
	for ci, cv := range ecCurves {
		other := ecCurves[1-ci]
		verify := func(class string, pk crypto.PublicKey, h hash.Hasher, msg, sig []byte) {
			digest := []byte(h.ComputeHash(msg))
			ans := guard(func() string {
				ok, err := pk.Verify(sig, msg, h)
				if err != nil {
					return "err " + errClass(err)
				}
				// SignatureFormatCheck false => Verify false
				fc, ferr := crypto.SignatureFormatCheck(cv.algo, sig)
				if ferr != nil {
					return "fmt-err"
				}
				if !fc && ok {
					return "true format-check-false"
				}
				return fmt.Sprint(ok)
			})
			c.Case(class, fmt.Sprintf("ecdsa verify %s %s %s %s", cv.name, hx(pk.Encode()), hx(digest), hx(sig)), ans)
		}
		fmtCase := func(class string, sig []byte) {
			ans := guard(func() string {
				ok, err := crypto.SignatureFormatCheck(cv.algo, sig)
				if err != nil {
					return "err"
				}
				return fmt.Sprint(ok)
			})
			c.Case(class, fmt.Sprintf("ecdsa fmt %s %s", cv.name, hx(sig)), ans)
		}
		// digests with a shape: leading zero bytes (one, two), leading ff, for every hasher (the 48- and 128-byte
		// ones above all: "the leftmost 256 bits" must be taken from the BYTES, not from the integer). The library signs
		// and the model verifies; an independent signer (the harness's own affine arithmetic on the digest bytes)
		// signs and the library verifies.
		{
			gen := affPt{hexInt(map[string]string{"p256": "6b17d1f2e12c4247f8bce6e563a440f277037d812deb33a0f4a13945d898c296", "k256": "79be667ef9dcbbac55a06295ce870b07029bfcdb2dce28d959f2815b16f81798"}[cv.name]),
				hexInt(map[string]string{"p256": "4fe342e2fe1a7f9b8ee7eb4a7c0f9e162bce33576b315ececbb6406837bf51f5", "k256": "483ada7726a3c4655da4fbfc0e1108a8fd17b448a68554199c47d08ffb10d4b8"}[cv.name])}
			d := c.randMod(cv.n)
			sk := ecSk(cv, d)
			pk := sk.PublicKey()
			ownSign := func(digest []byte) []byte {
				e := new(big.Int).SetBytes(digest[:32])
				for {
					k := c.randMod(cv.n)
					R := cv.mul(k, gen)
					if R.x == nil {
						continue
					}
					r := new(big.Int).Mod(R.x, cv.n)
					sv := new(big.Int).Mul(r, d)
					sv.Add(sv, e).Mul(sv, new(big.Int).ModInverse(k, cv.n)).Mod(sv, cv.n)
					if r.Sign() == 0 || sv.Sign() == 0 {
						continue
					}
					return append(be(r, 32), be(sv, 32)...)
				}
			}
			shapes := []struct {
				name string
				ok   func([]byte) bool
				max  int
			}{
				{"zero-byte", func(g []byte) bool { return g[0] == 0 }, 5000},
				{"two-zero-bytes", func(g []byte) bool { return g[0] == 0 && g[1] == 0 }, 400000},
				{"ff-byte", func(g []byte) bool { return g[0] == 0xff }, 5000},
				{"zero-at-32", func(g []byte) bool { return len(g) > 32 && g[32] == 0 && g[31] == 0 }, 400000},
			}
			for _, hs := range hashers {
				for _, sh := range shapes {
					if sh.name == "two-zero-bytes" && !c.thorough() && hs.h.Size() <= 32 {
						continue
					}
					var msg []byte
					for ctr := 0; ctr < sh.max; ctr++ {
						m := []byte(fmt.Sprintf("%s/%s/%d", cv.name, sh.name, ctr))
						if g := hs.h.ComputeHash(m); len(g) >= 32 && sh.ok(g) {
							msg = m
							break
						}
					}
					if msg == nil {
						continue
					}
					sig, err := sk.Sign(msg, hs.h)
					if err != nil {
						panic(err)
					}
					verify("digest-shape/"+sh.name+"/library-signs", pk, hs.h, msg, sig)
					verify("digest-shape/"+sh.name+"/independent-signer", pk, hs.h, msg, ownSign(hs.h.ComputeHash(msg)))
				}
			}
		}
		for ki := 0; ki < nKeys; ki++ {
			d := c.randMod(cv.n)
			if ki == 0 {
				d = one
			} else if ki == 1 {
				d = new(big.Int).Sub(cv.n, one)
			}
			sk := ecSk(cv, d)
			pk := sk.PublicKey()
			otherPk := ecSk(cv, c.randMod(cv.n)).PublicKey()
			for mi := 0; mi < nMsg; mi++ {
				msg := c.bytes([]int{0, 1, 31, 32, 100, 1000}[c.intn(6)])
				hs := hashers[(ki*nMsg+mi)%len(hashers)]
				sig, err := sk.Sign(msg, hs.h)
				if err != nil {
					panic(err)
				}
				verify("honest/"+hs.name, pk, hs.h, msg, sig)
				// twin (r, n-s)
				r := new(big.Int).SetBytes(sig[:32])
				s := new(big.Int).SetBytes(sig[32:])
				twin := append(be(r, 32), be(new(big.Int).Sub(cv.n, s), 32)...)
				verify("twin", pk, hs.h, msg, twin)
				verify("other-message", pk, hs.h, append([]byte{1}, msg...), sig)
				verify("other-key", otherPk, hs.h, msg, sig)
				verify("other-hasher", pk, hashers[(ki*nMsg+mi+1)%len(hashers)].h, msg, sig)
				verify("rs-swapped", pk, hs.h, msg, append(append([]byte{}, sig[32:]...), sig[:32]...))
				for _, v := range []*big.Int{big.NewInt(0), cv.n, new(big.Int).Add(cv.n, one), two256, new(big.Int).Add(r, cv.n), new(big.Int).Add(s, cv.n)} {
					if v.BitLen() > 256 {
						continue
					}
					bad1 := append(be(v, 32), sig[32:]...)
					bad2 := append(append([]byte{}, sig[:32]...), be(v, 32)...)
					verify("r-boundary", pk, hs.h, msg, bad1)
					verify("s-boundary", pk, hs.h, msg, bad2)
					fmtCase("fmt-boundary", bad1)
					fmtCase("fmt-boundary", bad2)
				}
				for j := 0; j < 6; j++ {
					verify("bitflip", pk, hs.h, msg, flipBitRaw(sig, c.intn(512)))
				}
				for _, l := range []int{0, 1, 63, 65, 128} {
					o := make([]byte, l)
					copy(o, sig)
					verify("length", pk, hs.h, msg, o)
					fmtCase("fmt-length", o)
				}
				// a valid pair with bytes inserted: in the middle, in front, behind, inside either half (odd and even
				// totals; a length test that halves the length rounds 65 down to 32 + 32)
				rr, ss := sig[:32], sig[32:]
				cat := func(parts ...[]byte) []byte {
					var o []byte
					for _, p := range parts {
						o = append(o, p...)
					}
					return o
				}
				for _, fill := range []byte{0x00, 0x01, 0xff} {
					f1, f2 := []byte{fill}, []byte{fill, fill}
					for _, o := range [][]byte{cat(rr, f1, ss), cat(f1, rr, ss), cat(rr, ss, f1), cat(rr, f2, ss), cat(f1, rr, f1, ss), cat(f1, rr, ss, f1),
						cat(rr[:31], ss), cat(rr, ss[:31]), cat(rr[1:], ss), cat(rr[:16], f1, rr[16:], ss), cat(rr, f1, ss[:31]), cat(rr[:31], f1, ss)} {
						verify("padded-pair", pk, hs.h, msg, o)
						fmtCase("fmt-padded-pair", o)
					}
				}
				fmtCase("fmt-valid", sig)
				// crafted key whose signature on msg has a tiny s, so that (r, s+n) still fits 32 bytes:
				// k = s^-1 (e + r d), d' = (s' k - e) r^-1
				{
					digest := []byte(hs.h.ComputeHash(msg))
					e := new(big.Int).SetBytes(digest[:32])
					k := new(big.Int).Mul(r, d)
					k.Add(k, e).Mul(k, new(big.Int).ModInverse(s, cv.n)).Mod(k, cv.n)
					for _, s2 := range []*big.Int{big.NewInt(1), big.NewInt(2), new(big.Int).SetBytes(c.bytes(12))} {
						if s2.Sign() == 0 {
							continue
						}
						d2 := new(big.Int).Mul(s2, k)
						d2.Sub(d2, e).Mul(d2, new(big.Int).ModInverse(r, cv.n)).Mod(d2, cv.n)
						if d2.Sign() == 0 {
							continue
						}
						pk2 := ecSk(cv, d2).PublicKey()
						verify("small-s/valid", pk2, hs.h, msg, append(be(r, 32), be(s2, 32)...))
						verify("small-s/plus-n", pk2, hs.h, msg, append(be(r, 32), be(new(big.Int).Add(s2, cv.n), 32)...))
						verify("small-s/twin", pk2, hs.h, msg, append(be(r, 32), be(new(big.Int).Sub(cv.n, s2), 32)...))
						fmtCase("fmt-small-s", append(be(r, 32), be(new(big.Int).Add(s2, cv.n), 32)...))
					}
				}
				// call history through ONE signature buffer and ONE message buffer the caller re-uses (a key object that
				// remembers its last accepted (signature, digest) by reference would answer from the altered buffers):
				// accepted, altered in place, restored, message altered in place - always the same key object
				{
					fresh := ecSk(cv, d).PublicKey() // never used before: the buffer call is its first verification
					sigBuf := append([]byte{}, sig...)
					msgBuf := append([]byte{}, msg...)
					verify("inplace/first-valid", fresh, hs.h, msgBuf, sigBuf)
					sigBuf[5] ^= 0x10
					verify("inplace/sig-bit-flipped", fresh, hs.h, msgBuf, sigBuf)
					copy(sigBuf, sig)
					verify("inplace/restored", fresh, hs.h, msgBuf, sigBuf)
					copy(sigBuf, append(append([]byte{}, sig[32:]...), sig[:32]...))
					verify("inplace/rs-swapped", fresh, hs.h, msgBuf, sigBuf)
					copy(sigBuf, sig)
					verify("inplace/restored", fresh, hs.h, msgBuf, sigBuf)
					for i := range sigBuf {
						sigBuf[i] = 0
					}
					verify("inplace/zeroed", fresh, hs.h, msgBuf, sigBuf)
					copy(sigBuf, sig)
					if len(msgBuf) > 0 {
						verify("inplace/restored", fresh, hs.h, msgBuf, sigBuf)
						msgBuf[0] ^= 1
						verify("inplace/message-altered", fresh, hs.h, msgBuf, sigBuf)
						msgBuf[0] ^= 1
					}
					copy(sigBuf, twin)
					verify("inplace/twin", fresh, hs.h, msgBuf, sigBuf)
				}
				// a VALID signature whose ephemeral point R has its abscissa in [n, p): r = R.x - n (the final comparison is
				// modulo n). Constructed backwards: R with x = n + j, any s, then Q = r^-1 (s R - e G).
				if mi == 0 {
					gen := affPt{hexInt(map[string]string{"p256": "6b17d1f2e12c4247f8bce6e563a440f277037d812deb33a0f4a13945d898c296", "k256": "79be667ef9dcbbac55a06295ce870b07029bfcdb2dce28d959f2815b16f81798"}[cv.name]),
						hexInt(map[string]string{"p256": "4fe342e2fe1a7f9b8ee7eb4a7c0f9e162bce33576b315ececbb6406837bf51f5", "k256": "483ada7726a3c4655da4fbfc0e1108a8fd17b448a68554199c47d08ffb10d4b8"}[cv.name])}
					found := 0
					for j := int64(1); j < 200 && found < 3; j++ {
						R, ok := cv.lift(new(big.Int).Add(cv.n, big.NewInt(j)))
						if !ok {
							continue
						}
						found++
						rr := big.NewInt(j)
						ss := c.randMod(cv.n)
						digest := []byte(hs.h.ComputeHash(msg))
						e := new(big.Int).SetBytes(digest[:32])
						// Q = r^-1 (s R - e G)
						sR := cv.mul(ss, R)
						eG := cv.mul(new(big.Int).Mod(e, cv.n), gen)
						if eG.x != nil {
							eG.y = new(big.Int).Sub(cv.p, eG.y)
						}
						Qp := cv.mul(new(big.Int).ModInverse(rr, cv.n), cv.add(sR, eG))
						if Qp.x == nil {
							continue
						}
						pkw, err := crypto.DecodePublicKey(cv.algo, append(be(Qp.x, 32), be(Qp.y, 32)...))
						if err != nil {
							continue
						}
						wsig := append(be(rr, 32), be(ss, 32)...)
						verify("wraparound-r/valid", pkw, hs.h, msg, wsig)
						verify("wraparound-r/twin", pkw, hs.h, msg, append(be(rr, 32), be(new(big.Int).Sub(cv.n, ss), 32)...))
						verify("wraparound-r/r-plus-n", pkw, hs.h, msg, append(be(new(big.Int).Add(rr, cv.n), 32), be(ss, 32)...))
						verify("wraparound-r/other-message", pkw, hs.h, append([]byte{7}, msg...), wsig)
					}
				}
				// same key bytes on the other curve would not even decode in general; use the other curve's own key
				_ = other
			}
		}
		// hasher guards
		k16, _ := hash.NewKMAC_128(make([]byte, 16), nil, 16)
		k31, _ := hash.NewKMAC_128(make([]byte, 16), nil, 31)
		sk := ecSk(cv, big.NewInt(7))
		for _, h := range []hash.Hasher{nil, k16, k31} {
			name := "nil"
			if h != nil {
				name = fmt.Sprint(h.Size())
			}
			ans := guard(func() string {
				_, err1 := sk.Sign([]byte("x"), h)
				_, err2 := sk.PublicKey().Verify(make([]byte, 64), []byte("x"), h)
				return errClass(err1) + " " + errClass(err2)
			})
			want := "HasherSize HasherSize"
			if h == nil {
				want = "NilHasher NilHasher"
			}
			c.Case("hasher-guard", "expect "+want+" #"+cv.name+name, ans)
		}
		// many signatures from ONE private key object: each is verified by the model as soon as it is returned (a signer
		// that serialises into a buffer it keeps leaves stale bytes when r or s has leading zero bytes: 1 signature in
		// 128), and the earlier ones again after the later ones were made (the bytes returned are the caller's)
		{
			d := c.randMod(cv.n)
			sk := ecSk(cv, d)
			pk := sk.PublicKey()
			hh := hash.NewSHA3_256()
			nSig := 260
			if c.thorough() {
				nSig = 2000
			}
			type made struct{ msg, sig []byte }
			var first []made
			for i := 0; i < nSig; i++ {
				msg := []byte(fmt.Sprintf("message %d under one key", i))
				sig, err := sk.Sign(msg, hh)
				if err != nil {
					panic(err)
				}
				accepted := func(class string, msg, sig []byte) { // what Sign returned verifies: a statement about Sign
					c.Case(class, "expect true #"+cv.name, guard(func() string { return boolAns(pk.Verify(sig, msg, hh)) }))
				}
				if i < 4 {
					first = append(first, made{msg, sig}) // kept uncopied
					verify("one-key-many-signatures/first", pk, hh, msg, append([]byte{}, sig...))
					accepted("one-key-many-signatures/first-accepted", msg, sig)
				} else if sig[0] == 0 || sig[32] == 0 || sig[0] < 4 || sig[32] < 4 || i%16 == 0 {
					verify("one-key-many-signatures", pk, hh, msg, sig) // short r or s, and a sample of the others
					accepted("one-key-many-signatures/accepted", msg, sig)
				} else if ok, _ := pk.Verify(sig, msg, hh); !ok {
					accepted("one-key-many-signatures/accepted", msg, sig)
				}
			}
			for _, m := range first {
				verify("one-key-many-signatures/first-again", pk, hh, m.msg, m.sig)
				c.Case("one-key-many-signatures/first-still-accepted", "expect true #"+cv.name, guard(func() string { return boolAns(pk.Verify(m.sig, m.msg, hh)) }))
			}
		}
		// overlapping verifications on one curve, each with its own key, hasher object, long message (hashing takes a
		// while) and signature - valid ones and ones with a flipped bit, format checks of other strings in between: a
		// verdict is a function of (key, digest, signature), whatever else is being verified at the same time
		{
			const g = 4
			type job struct {
				pk       crypto.PublicKey
				h        hash.Hasher
				msg      []byte
				sig, bad []byte
			}
			jobs := make([]job, g)
			for i := range jobs {
				k := ecSk(cv, c.randMod(cv.n))
				j := job{pk: k.PublicKey(), h: []hash.Hasher{hash.NewSHA2_256(), hash.NewSHA3_256(), hash.NewSHA2_384(), hash.NewSHA3_384()}[i%4], msg: c.bytes(120000 + 1000*i)}
				j.sig, _ = k.Sign(j.msg, j.h)
				j.bad = flipBitRaw(j.sig, 40+i)
				jobs[i] = j
			}
			results := make([]string, g)
			var wg sync.WaitGroup
			start := make(chan struct{})
			for i := range jobs {
				wg.Add(1)
				go func(i int) {
					defer wg.Done()
					j := jobs[i]
					<-start
					for rep := 0; rep < 15 && results[i] == ""; rep++ {
						results[i] = guard(func() string {
							if ok, err := j.pk.Verify(j.sig, j.msg, j.h); err != nil || !ok {
								return fmt.Sprintf("valid-signature-rejected worker %d repetition %d", i, rep)
							}
							if ok, _ := j.pk.Verify(j.bad, j.msg, j.h); ok {
								return fmt.Sprintf("invalid-signature-accepted worker %d repetition %d", i, rep)
							}
							if ok, _ := crypto.SignatureFormatCheck(cv.algo, jobs[(i+1)%g].bad); !ok {
								return fmt.Sprintf("well-formed-signature-refused worker %d repetition %d", i, rep)
							}
							return ""
						})
					}
				}(i)
			}
			close(start)
			wg.Wait()
			verdict := "ok"
			for _, r := range results {
				if r != "" {
					verdict = r
					break
				}
			}
			c.Case("overlapping-verifications", "expect ok #overlap "+cv.name, verdict)
		}
	}
}
