//go:build !no_cgo

package main

import (
	"fmt"
	"strings"
)

func init() { generators["C10"] = genC10 }

// genC10: call sequences on one instance; every call is followed by Running().
func genC10(c *Ctx) {
	exhLen, nRand, randLen := 3, 150, 14
	if c.thorough() {
		exhLen, nRand, randLen = 4, 3000, 40
	}
	n, t := 3, 1
	good := hx(c.bytes(32))
	short := hx(c.bytes(8))
	// a well-formed verification vector and share from a dealer 0 (harness polynomial), for non-dealer roles
	p := c.randPoly(t)
	vec := hx(p.vectorMsg())
	for _, proto := range []string{"fvss", "fvssq", "joint"} {
		for _, role := range []string{"dealer", "other"} {
			me, dealer := 0, 0
			if role == "other" {
				me = 1
			}
			if proto == "joint" && role == "other" {
				me = 2
			}
			share := hx(shareMsg(p.eval(me + 1)))
			alphabet := []string{"S:" + good, "S:" + short, "T", "E", "B:0:" + vec, "B:2:0203", "B:7:00", "B:-1:00", "P:0:" + share, "P:1:" + hx([]byte{0, 1, 2}), "P:3:00", "F:0", "F:5", "F:-1"}
			if role == "dealer" {
				alphabet = append(alphabet, "B:1:"+hx(complaintMsg(0)))
			} else {
				third := 3 - me // the participant that is neither the dealer nor this one
				alphabet = append(alphabet, fmt.Sprintf("B:%d:%s", third, hx(complaintMsg(0))), "B:0:"+hx(answerMsg(third, p.eval(third+1))))
			}
			run := func(class string, seq []string) {
				d, err := newDkgNode(proto, n, t, me, dealer)
				if err != nil {
					panic(err)
				}
				ended := false
				for _, tok := range seq {
					if ended && strings.HasPrefix(tok, "S:") {
						continue // reuse after End is outside the quantifier
					}
					d.call(tok)
					if tok == "E" && d.answers[len(d.answers)-1][:2] != "IT" {
						ended = true
					}
					d.call("R")
				}
				c.Case(class+"/"+proto+"/"+role, d.line(), d.answer())
			}
			// exhaustive
			var rec func(prefix []string, depth int)
			rec = func(prefix []string, depth int) {
				if depth > 0 {
					run(fmt.Sprintf("exhaustive-len%d", len(prefix)), prefix)
				}
				if depth == exhLen {
					return
				}
				for _, a := range alphabet {
					if depth == exhLen-1 && proto == "joint" && c.intn(3) != 0 && !c.thorough() {
						continue // joint instances are n times as expensive in the model: sample the last level
					}
					rec(append(append([]string{}, prefix...), a), depth+1)
				}
			}
			rec(nil, 0)
			// index boundaries: one out-of-range (or wrapped: v mod 256 in range) index per run, then the protocol goes on
			for _, v := range []int{-257, -256, -255, -2, -1, n, n + 1, 254, 255, 256, 256 + dealer, 257, 258, 511, 512, 513, 65536, 65537, 1 << 32, 1<<32 + 1, 1<<40 + 2, -(1 << 32), -(1<<32 - 1)} {
				for _, call := range []string{fmt.Sprintf("B:%d:%s", v, vec), fmt.Sprintf("B:%d:", v), fmt.Sprintf("P:%d:%s", v, share), fmt.Sprintf("F:%d", v)} {
					run("index-boundary", []string{"S:" + good, call, "B:0:" + vec, "P:0:" + share, "T", "T", "E"})
				}
			}
			// long histories of REFUSED calls at every stage (a counter that refused calls advance wraps after 2^8 or
			// 2^16 of them): the state machine must be where it was, whatever the number of refused calls
			{
				reps := []int{300}
				if c.thorough() && proto != "joint" {
					reps = []int{300, 66000}
				}
				rep := func(tok string, k int) []string {
					out := make([]string, k)
					for i := range out {
						out[i] = tok
					}
					return out
				}
				cat := func(parts ...[]string) []string {
					var out []string
					for _, p := range parts {
						out = append(out, p...)
					}
					return out
				}
				pre := []string{"S:" + good, "B:0:" + vec, "P:0:" + share}
				for _, k := range reps {
					run("long-refused/timeouts-after-both", cat(pre, []string{"T", "T"}, rep("T", k), []string{"T", "E", "E"}))
					run("long-refused/starts-while-running", cat(pre, rep("S:"+good, k), []string{"T", "T", "E"}))
					run("long-refused/ends-too-early", cat(pre, []string{"T"}, rep("E", k), []string{"T", "T", "E"}))
					run("long-refused/calls-before-start", cat(rep("T", k), rep("E", k), pre, []string{"T", "T", "E"}))
					run("long-refused/bad-index", cat(pre, rep("F:-1", k), rep("B:7:00", k), []string{"T", "T", "T", "E"}))
				}
			}
			// every way an instance can come to its End - accepted dealing, each reason for failure met at each stage
			// (at the vector, at the share, at a complaint nobody answered, at a wrong answer, at too many complaints, at
			// a forced disqualification) - and then the same tail of calls: whatever End returned, the instance is over
			if role == "other" {
				third := 3 - me
				cmpl := fmt.Sprintf("B:%d:%s", third, hx(complaintMsg(0)))
				goodAns := "B:0:" + hx(answerMsg(third, p.eval(third+1)))
				badAns := "B:0:" + hx(answerMsg(third, c.randScalar()))
				badVec := "B:0:" + vec[:len(vec)-2]
				badShare := "P:0:" + hx(shareMsg(c.randScalar()))
				ownAns := "B:0:" + hx(answerMsg(me, p.eval(me+1)))
				tail := []string{"E", "T", "B:0:" + vec, "P:0:" + share, cmpl, goodAns, "F:0", "E"}
				st := "S:" + good
				for hi, h := range [][]string{
					{st, "B:0:" + vec, "P:0:" + share, "T", "T", "E"},
					{st, "B:0:" + vec, "P:0:" + share, cmpl, "T", "T", "E"},
					{st, "B:0:" + vec, "P:0:" + share, "T", cmpl, "T", "E"},
					{st, "B:0:" + vec, "P:0:" + share, cmpl, "T", goodAns, "T", "E"},
					{st, "B:0:" + vec, "P:0:" + share, cmpl, "T", badAns, "T", "E"},
					{st, "B:0:" + vec, "P:0:" + share, "T", goodAns, cmpl, "T", "E"},
					{st, "B:0:" + vec, "T", "T", "E"},
					{st, "B:0:" + vec, "T", ownAns, "T", "E"},
					{st, "B:0:" + vec, badShare, "T", ownAns, "T", "E"},
					{st, "B:0:" + vec, badShare, "T", "T", "E"},
					{st, badVec, "P:0:" + share, "T", "T", "E"},
					{st, "P:0:" + share, "T", "T", "E"},
					{st, "T", "T", "E"},
					{st, "B:0:" + vec, "P:0:" + share, "F:0", "T", "T", "E"},
					{st, "B:0:" + vec, "P:0:" + share, cmpl, "T", "F:0", "T", "E"},
				} {
					run(fmt.Sprintf("end-paths/%d", hi), append(append([]string{}, h...), tail...))
				}
			}
			// random longer sequences biased towards the legal order
			for i := 0; i < nRand; i++ {
				l := 2 + c.intn(randLen)
				seq := []string{}
				for j := 0; j < l; j++ {
					if c.intn(3) == 0 {
						seq = append(seq, []string{"S:" + good, "T", "T", "E"}[min(j, 3)])
					} else {
						seq = append(seq, alphabet[c.intn(len(alphabet))])
					}
				}
				run("random", seq)
			}
		}
	}
	// constructor guards
	for _, g := range [][4]int{{1, 1, 0, 0}, {255, 1, 0, 0}, {3, 0, 0, 0}, {3, 3, 0, 0}, {3, 1, 3, 0}, {3, 1, -1, 0}, {3, 1, 0, 3}, {3, 1, 0, -1}, {2, 1, 1, 0}, {254, 253, 253, 0}} {
		for _, proto := range []string{"fvss", "fvssq", "joint"} {
			_, err := newDkgNode(proto, g[0], g[1], g[2], g[3])
			ans := "ok"
			if err != nil {
				ans = "err"
			}
			dl := g[3]
			if proto == "joint" && (dl < 0 || dl >= g[0]) {
				dl = 0 // NewJointFeldman has no dealer argument
			}
			c.Case("constructor", fmt.Sprintf("dkg %s %d %d %d %d", proto, g[0], g[1], g[2], dl), ans)
		}
	}
}
