//go:build !no_cgo

package main

import (
	"github.com/onflow/crypto/hash"
	"sync"
	"bytes"
	"fmt"
	"math/big"

	"github.com/onflow/crypto"
)

func init() { generators["C12"] = genC12 }

func genC12(c *Ctx) {
	contents := 3
	if c.thorough() {
		contents = 40
	}
	algos := []struct {
		name string
		a    crypto.SigningAlgorithm
	}{{"bls", crypto.BLSBLS12381}, {"p256", crypto.ECDSAP256}, {"k256", crypto.ECDSASecp256k1}}
	gen := func(class, name string, a crypto.SigningAlgorithm, seed []byte) {
		ans := guard(func() string {
			sbuf := cloneOrNil(seed)
			sk, err := crypto.GeneratePrivateKey(a, sbuf)
			if !bytes.Equal(sbuf, seed) {
				return "seed-modified"
			}
			wipe(sbuf) // the seed slice is the caller's
			if err != nil {
				if crypto.IsInvalidInputsError(err) {
					return "err"
				}
				return "err-other"
			}
			// identical on every call; public key cached consistently
			sk2, err2 := crypto.GeneratePrivateKey(a, append([]byte{}, seed...))
			if err2 != nil || !sk.Equals(sk2) {
				return "nondeterministic"
			}
			pk1, pk2 := sk.PublicKey(), sk.PublicKey()
			if !pk1.Equals(pk2) || !pk1.Equals(sk2.PublicKey()) {
				return "pk-cache-inconsistent"
			}
			// the encodings handed out are the caller's: they are overwritten, the keys are encoded again and compared
			// with a decoded copy (a key that caches what it handed out, by reference, now answers with the edits)
			e1, f1 := sk.Encode(), pk1.Encode()
			skHex, pkHex := hx(e1), hx(f1)
			holdKey("GeneratePrivateKey", sk, e1)
			holdKey("GeneratePrivateKey.PublicKey", pk1, f1)
			for i := range e1 {
				e1[i] ^= 0x3C
			}
			for i := range f1 {
				f1[i] ^= 0xC3
			}
			if hx(sk.Encode()) != skHex || hx(sk.PublicKey().Encode()) != pkHex || hx(pk2.Encode()) != pkHex {
				return "encoding-changed-after-caller-edit"
			}
			if dec, derr := crypto.DecodePublicKey(a, unhexOr(pkHex)); derr != nil || !dec.Equals(pk1) || !pk1.Equals(dec) || pk1.String() != dec.String() {
				return "key-differs-from-decoded-copy-after-caller-edit"
			}
			if !sk.Equals(sk2) || !sk.PublicKey().Equals(sk2.PublicKey()) {
				return "keys-differ-after-caller-edit"
			}
			return "ok " + skHex + " " + pkHex
		})
		c.Case(class+"/"+name, fmt.Sprintf("keygen %s %s", name, hx(seed)), ans)
	}
	for _, al := range algos {
		for l := 0; l <= 300; l++ {
			for k := 0; k < contents; k++ {
				if k > 2 && (l < 32 || l > 256) {
					continue
				}
				var seed []byte
				switch k {
				case 0:
					seed = make([]byte, l)
				case 1:
					seed = make([]byte, l)
					for i := range seed {
						seed[i] = 0xff
					}
				default:
					seed = c.bytes(l)
				}
				class := "seed-in-range"
				if l < 32 || l > 256 {
					class = "seed-out-of-range"
				}
				gen(class, al.name, al.a, seed)
			}
		}
		// single-bit variations of one seed
		base := c.bytes(32)
		for i := 0; i < 16; i++ {
			gen("seed-bitflip", al.name, al.a, flipBitRaw(base, c.intn(256)))
		}
		var nilSeed []byte
		gen("seed-nil", al.name, al.a, nilSeed)
	}
	// public keys of aggregated private keys (incl. an aggregate equal to zero): same bytes as the scalar times the
	// generator, Equal to the decoded key, and behaving like it (cached flags consistent)
	idSig := make([]byte, 48)
	idSig[0] = 0xc0
	hsh := crypto.NewExpandMsgXOFKMAC128("c12")
	for i := 0; i < 6; i++ {
		a, b := c.randScalar(), c.randScalar()
		if i%2 == 0 {
			b = new(big.Int).Sub(blsR, a)
		}
		sum := new(big.Int).Mod(new(big.Int).Add(a, b), blsR)
		ans := guard(func() string {
			agg, err := crypto.AggregateBLSPrivateKeys([]crypto.PrivateKey{skFromInt(a), skFromInt(b)})
			if err != nil {
				return "err"
			}
			pk1, pk2 := agg.PublicKey(), agg.PublicKey()
			dec, err := crypto.DecodePublicKey(crypto.BLSBLS12381, pk1.Encode())
			if err != nil || !pk1.Equals(pk2) || !pk1.Equals(dec) {
				return "pk-cache-inconsistent"
			}
			for _, cand := range [][]byte{idSig, make([]byte, 48)} {
				v1, _ := pk1.Verify(cand, []byte("m"), hsh)
				v2, _ := dec.Verify(cand, []byte("m"), hsh)
				if v1 != v2 {
					return "cached key behaves differently from the decoded key with the same bytes"
				}
			}
			return "ok " + hx(pk1.Encode())
		})
		c.Case("pk-of-aggregated-key", "pk.of 0x"+sum.Text(16), ans)
	}
	// call histories: the public key of an aggregated private key must not depend on which of the input keys had their
	// own public key computed (and cached) before the aggregation
	for n := 2; n <= 4; n++ {
		for mask := 0; mask < 1<<n; mask++ {
			ks := make([]*big.Int, n)
			sum := new(big.Int)
			for i := range ks {
				ks[i] = c.randScalar()
				sum.Add(sum, ks[i])
			}
			sum.Mod(sum, blsR)
			m := mask
			ans := guard(func() string {
				sks := make([]crypto.PrivateKey, n)
				for i := range sks {
					sks[i] = skFromInt(ks[i])
					if m>>i&1 == 1 {
						_ = sks[i].PublicKey() // touch: fills the cache of this input key
					}
				}
				agg, err := crypto.AggregateBLSPrivateKeys(sks)
				if err != nil {
					return "err"
				}
				pk := agg.PublicKey()
				sig, _ := agg.Sign([]byte("m"), hsh)
				if ok, _ := pk.Verify(sig, []byte("m"), hsh); !ok {
					return "ok " + hx(pk.Encode()) + " own-signature-rejected"
				}
				return "ok " + hx(pk.Encode())
			})
			c.Case("pk-of-aggregated-key-history", "pk.of 0x"+sum.Text(16), ans)
		}
	}
	// seeds that are adjacent slices of ONE buffer (a callee that appends to the seed it was given overwrites the first
	// byte of the next one): every key is generated twice, before and after its neighbours were used
	for _, al := range algos {
		for _, l := range []int{32, 33, 48, 64} {
			buf := c.bytes(4 * l)
			for i := range buf {
				buf[i] |= 1 // no zero bytes: an appended zero is visible
			}
			snap := append([]byte{}, buf...)
			var first []string
			for pass := 0; pass < 2; pass++ {
				for j := 0; j < 4; j++ {
					seed := buf[j*l : (j+1)*l] // cap reaches to the end of buf
					sk, err := crypto.GeneratePrivateKey(al.a, seed)
					enc := "err"
					if err == nil {
						enc = hx(sk.Encode())
					}
					if pass == 0 {
						first = append(first, enc)
						c.Case("keygen-adjacent-seeds/"+al.name, fmt.Sprintf("keygen sk %s %s", al.name, hx(snap[j*l:(j+1)*l])), "ok "+enc)
					} else if enc != first[j] {
						c.Case("keygen-adjacent-seeds/second-pass", "expect same #", "key-of-seed-"+fmt.Sprint(j)+"-changed-after-neighbours-were-used")
					}
				}
			}
			verdict := "unchanged"
			if !bytes.Equal(buf, snap) {
				verdict = "seed-buffer-modified"
			}
			c.Case("keygen-adjacent-seeds/buffer", "expect unchanged #", verdict)
		}
	}
	// key generation by several goroutines at once (different seeds and algorithms): every key is the one the model
	// derives from its seed (a derivation that goes through shared scratch state gives wrong keys only when calls overlap)
	{
		const G = 8
		per := 6
		if c.thorough() {
			per = 60
		}
		type job struct {
			name string
			a    crypto.SigningAlgorithm
			seed []byte
		}
		jobs := make([][]job, G)
		for g := 0; g < G; g++ {
			for i := 0; i < per; i++ {
				al := algos[(g+i)%len(algos)]
				jobs[g] = append(jobs[g], job{al.name, al.a, c.bytes(32 + (g*7+i*13)%200)})
			}
		}
		answers := make([][]string, G)
		start := make(chan struct{})
		var wg sync.WaitGroup
		for g := 0; g < G; g++ {
			answers[g] = make([]string, per)
			wg.Add(1)
			go func(g int) {
				defer wg.Done()
				<-start
				for i, j := range jobs[g] {
					answers[g][i] = guard(func() string {
						sk, err := crypto.GeneratePrivateKey(j.a, j.seed)
						if err != nil {
							return "err"
						}
						return "ok " + hx(sk.Encode()) + " " + hx(sk.PublicKey().Encode())
					})
				}
			}(g)
		}
		close(start)
		wg.Wait()
		for g := 0; g < G; g++ {
			for i, j := range jobs[g] {
				c.Case("keygen-concurrent/"+j.name, fmt.Sprintf("keygen %s %s", j.name, hx(j.seed)), answers[g][i])
			}
		}
	}
	// the same, with private keys only and many more overlapping calls (the window in which two derivations can
	// disturb each other is a few hundred nanoseconds of a call that lasts tens of microseconds)
	{
		const G = 12
		per := 150
		if c.thorough() {
			per = 1500
		}
		type job struct {
			name string
			a    crypto.SigningAlgorithm
			seed []byte
		}
		jobs := make([][]job, G)
		for g := 0; g < G; g++ {
			for i := 0; i < per; i++ {
				al := algos[(g+i)%len(algos)]
				if g%3 != 0 && al.name == "bls" {
					al = algos[(g+i+1)%len(algos)]
				}
				jobs[g] = append(jobs[g], job{al.name, al.a, c.bytes(32 + (g*5+i*11)%97)})
			}
		}
		answers := make([][]string, G)
		start := make(chan struct{})
		var wg sync.WaitGroup
		for g := 0; g < G; g++ {
			answers[g] = make([]string, per)
			wg.Add(1)
			go func(g int) {
				defer wg.Done()
				<-start
				for i, j := range jobs[g] {
					answers[g][i] = guard(func() string {
						sk, err := crypto.GeneratePrivateKey(j.a, j.seed)
						if err != nil {
							return "err"
						}
						return "ok " + hx(sk.Encode())
					})
				}
			}(g)
		}
		close(start)
		wg.Wait()
		for g := 0; g < G; g++ {
			for i, j := range jobs[g] {
				c.Case("keygen-concurrent-sk/"+j.name, fmt.Sprintf("keygen sk %s %s", j.name, hx(j.seed)), answers[g][i])
			}
		}
	}
	// the first PublicKey() calls on a fresh private key made by several goroutines at once: whoever wins, every
	// caller must get sk*g2 (a cache slot published before it is filled would hand out a half-built key)
	nConc := 12
	if c.thorough() {
		nConc = 200
	}
	for it := 0; it < nConc; it++ {
		k := c.randScalar()
		kind := it % 3
		ans := guard(func() string {
			var sk crypto.PrivateKey
			switch kind {
			case 0:
				sk = skFromInt(k)
			case 1:
				var derr error
				sk, derr = crypto.DecodePrivateKey(crypto.BLSBLS12381, be(k, 32))
				if derr != nil {
					return "err decode " + errClass(derr)
				}
			default:
				a := c.randScalar()
				b := new(big.Int).Mod(new(big.Int).Sub(new(big.Int).Add(k, blsR), a), blsR)
				if b.Sign() == 0 {
					sk = skFromInt(k)
				} else {
					sk, _ = crypto.AggregateBLSPrivateKeys([]crypto.PrivateKey{skFromInt(a), skFromInt(b)})
				}
			}
			if sk == nil {
				return "err no-key"
			}
			const G = 8
			encs := make([]string, G)
			start := make(chan struct{})
			var wg sync.WaitGroup
			for g := 0; g < G; g++ {
				wg.Add(1)
				go func(g int) {
					defer wg.Done()
					<-start
					encs[g] = hx(sk.PublicKey().Encode())
				}(g)
			}
			close(start)
			wg.Wait()
			for g := 1; g < G; g++ {
				if encs[g] != encs[0] {
					return "ok " + encs[g] + " concurrent-first-calls-disagree-with " + encs[0]
				}
			}
			return "ok " + encs[0]
		})
		c.Case("pk-concurrent-first-use", "pk.of 0x"+k.Text(16), ans)
	}
	// DECODED private keys kept while other keys are decoded (some refused), generated and used: the scalar a key
	// encodes to and the public key it gives are those of the bytes it was decoded from, whatever came after
	for _, cv := range ecCurves {
		type kept struct {
			d  *big.Int
			sk crypto.PrivateKey
		}
		var keys []kept
		ff := make([]byte, 32)
		for i := range ff {
			ff[i] = 0xff
		}
		for i := 0; i < 6; i++ {
			d := c.randMod(cv.n)
			sk, err := crypto.DecodePrivateKey(cv.algo, be(d, 32))
			if err != nil {
				continue
			}
			keys = append(keys, kept{d, sk})
			switch i % 3 { // something else uses the decoder, the generator, the signer in between
			case 0:
				_, _ = crypto.DecodePrivateKey(cv.algo, ff)
			case 1:
				_, _ = crypto.GeneratePrivateKey(cv.algo, c.bytes(48))
			case 2:
				_, _ = sk.Sign([]byte("in between"), hash.NewSHA3_256())
			}
		}
		for _, k := range keys {
			k := k
			c.Case("decoded-key-history/"+cv.name, fmt.Sprintf("ecdsa pkof %s %s", cv.name, hx(be(k.d, 32))), guard(func() string {
				if hx(k.sk.Encode()) != hx(be(k.d, 32)) {
					return "private-key-changed-later: decoded from " + hx(be(k.d, 32)) + ", now encodes to " + hx(k.sk.Encode())
				}
				pk := k.sk.PublicKey()
				return "ok " + hx(pk.Encode()) + " " + hx(pk.EncodeCompressed())
			}))
		}
	}
	{
		var ks []*big.Int
		var sks []crypto.PrivateKey
		for i := 0; i < 6; i++ {
			k := c.randScalar()
			ks = append(ks, k)
			sks = append(sks, skFromInt(k))
			if i%2 == 0 {
				_, _ = crypto.DecodePrivateKey(crypto.BLSBLS12381, make([]byte, 32))
			} else {
				_, _ = crypto.GeneratePrivateKey(crypto.BLSBLS12381, c.bytes(48))
			}
		}
		for i := range ks {
			i := i
			c.Case("decoded-key-history/bls", "pk.of 0x"+ks[i].Text(16), guard(func() string {
				if hx(sks[i].Encode()) != hx(be(ks[i], 32)) {
					return "private-key-changed-later"
				}
				return "ok " + hx(sks[i].PublicKey().Encode())
			}))
		}
	}
	// the constants of the library's own source as private keys - decoded, and obtained as the aggregate of two keys:
	// the public key must be the scalar times the generator for these as for any other (a shortcut that compares the
	// scalar with a constant - of the wrong form - is wrong at that one value)
	for _, k := range sourceScalars() {
		k := k
		c.Case("pk-of-source-constant/decoded", "pk.of 0x"+k.Text(16), guard(func() string {
			return "ok " + hx(skFromInt(k).PublicKey().Encode())
		}))
		a := c.randScalar()
		b := new(big.Int).Mod(new(big.Int).Sub(new(big.Int).Add(k, blsR), a), blsR)
		if b.Sign() == 0 {
			continue
		}
		c.Case("pk-of-source-constant/aggregated", "pk.of 0x"+k.Text(16), guard(func() string {
			agg, err := crypto.AggregateBLSPrivateKeys([]crypto.PrivateKey{skFromInt(a), skFromInt(b)})
			if err != nil {
				return "err"
			}
			return "ok " + hx(agg.PublicKey().Encode())
		}))
	}
	c.extra["source_constants_harvested"] = len(sourceConstants())
	// mapToFr on many lengths (observed through the BLS key generation only indirectly): public API has no direct entry
	// public keys of chosen scalars on the three curves are covered by C05 (pk.of / ecdsa pkof)
}
