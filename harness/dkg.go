//go:build !no_cgo

package main

import (
	"fmt"
	"math/big"
	"strings"

	"github.com/onflow/crypto"
)

// recProc records the DKGProcessor callbacks in call order, in the protocol syntax of the model driver.
type recProc struct {
	outs []string
	// structured copies for the scheduler
	bcasts [][]byte
	sends  []privMsg
	disq   []int
	flags  []int
}

type privMsg struct {
	dest int
	data []byte
}

func (p *recProc) PrivateSend(dest int, data []byte) {
	p.outs = append(p.outs, fmt.Sprintf("s%d:%s", dest, hx(data)))
	p.sends = append(p.sends, privMsg{dest, append([]byte{}, data...)})
}
func (p *recProc) Broadcast(data []byte) {
	p.outs = append(p.outs, "b"+hx(data))
	p.bcasts = append(p.bcasts, append([]byte{}, data...))
}
func (p *recProc) Disqualify(i int, log string) {
	p.outs = append(p.outs, fmt.Sprintf("d%d", i))
	p.disq = append(p.disq, i)
}
func (p *recProc) FlagMisbehavior(i int, log string) {
	p.outs = append(p.outs, fmt.Sprintf("f%d", i))
	p.flags = append(p.flags, i)
}
func (p *recProc) take() (string, [][]byte, []privMsg) {
	s := strings.Join(p.outs, ";")
	b, pr := p.bcasts, p.sends
	p.outs, p.bcasts, p.sends = nil, nil, nil
	return s, b, pr
}

func dkgErr(err error) string {
	switch {
	case err == nil:
		return "ok"
	case crypto.IsDKGInvalidStateTransitionError(err):
		return "IT"
	case crypto.IsInvalidInputsError(err):
		return "II"
	case crypto.IsDKGFailureError(err):
		return "fail"
	}
	return "other"
}

// dkgNode is one real DKG instance with its recorded call line.
type dkgNode struct {
	proto          string
	n, t, me, dlr  int
	st             crypto.DKGState
	proc           *recProc
	calls, answers []string
	endRes         string
	endKeys        [3]string // x, Y, ys (when End returned keys)
	panicked       bool
}

func newDkgNode(proto string, n, t, me, dealer int) (*dkgNode, error) {
	p := &recProc{}
	var st crypto.DKGState
	var err error
	switch proto {
	case "fvss":
		st, err = crypto.NewFeldmanVSS(n, t, me, p, dealer)
	case "fvssq":
		st, err = crypto.NewFeldmanVSSQual(n, t, me, p, dealer)
	case "joint":
		st, err = crypto.NewJointFeldman(n, t, me, p)
	}
	if err != nil {
		return nil, err
	}
	return &dkgNode{proto: proto, n: n, t: t, me: me, dlr: dealer, st: st, proc: p}, nil
}

// call applies one protocol call token to the real instance and records the canonical answer.
func (d *dkgNode) call(tok string) (bc [][]byte, pr []privMsg) {
	res := guard(func() string {
		parts := strings.SplitN(tok, ":", 3)
		switch parts[0] {
		case "S":
			return dkgErr(d.st.Start(unhexOr(parts[1])))
		case "T":
			return dkgErr(d.st.NextTimeout())
		case "E":
			x, Y, ys, err := d.st.End()
			if err != nil {
				d.endRes = dkgErr(err)
				return d.endRes
			}
			var yh []string
			for _, y := range ys {
				yh = append(yh, hx(y.Encode()))
			}
			d.endRes = "keys"
			d.endKeys = [3]string{hx(x.Encode()), hx(Y.Encode()), strings.Join(yh, ",")}
			return "keys:" + d.endKeys[0] + ":" + d.endKeys[1] + ":" + d.endKeys[2]
		case "R":
			return fmt.Sprint(d.st.Running())
		case "B":
			var o int
			fmt.Sscan(parts[1], &o)
			return dkgErr(d.st.HandleBroadcastMsg(o, unhexOr(parts[2])))
		case "P":
			var o int
			fmt.Sscan(parts[1], &o)
			return dkgErr(d.st.HandlePrivateMsg(o, unhexOr(parts[2])))
		case "F":
			var i int
			fmt.Sscan(parts[1], &i)
			return dkgErr(d.st.ForceDisqualify(i))
		}
		return "bad-op"
	})
	if res == "panic" {
		d.panicked = true
	}
	outs, bc, pr := d.proc.take()
	d.calls = append(d.calls, tok)
	d.answers = append(d.answers, res+"|"+outs)
	return bc, pr
}

func unhexOr(s string) []byte {
	if s == "-" || s == "" {
		return nil
	}
	b := make([]byte, len(s)/2)
	for i := range b {
		fmt.Sscanf(s[2*i:2*i+2], "%02x", &b[i])
	}
	return b
}

func (d *dkgNode) line() string {
	return fmt.Sprintf("dkg %s %d %d %d %d %s", d.proto, d.n, d.t, d.me, d.dlr, strings.Join(d.calls, " "))
}
func (d *dkgNode) answer() string { return "ok " + strings.Join(d.answers, " ") }

// ---- Byzantine message construction (harness side; uses the public API only)

type poly []*big.Int

func (c *Ctx) randPoly(t int) poly {
	p := make(poly, t+1)
	for i := range p {
		p[i] = c.randScalar()
	}
	// one polynomial in four has a relation between two adjacent coefficients: a_{k-1} = v a_k or -v a_k for an evaluation
	// point v = 1..8 (the Horner evaluation of the public key share at v then adds two EQUAL points, or two opposite ones),
	// or a zero coefficient (a point at infinity inside the vector)
	if t >= 1 && c.intn(4) == 0 {
		k := 1 + c.intn(t)
		v := big.NewInt(int64(1 + c.intn(8)))
		switch c.intn(3) {
		case 0:
			p[k-1] = new(big.Int).Mod(new(big.Int).Mul(v, p[k]), blsR)
		case 1:
			p[k-1] = new(big.Int).Mod(new(big.Int).Neg(new(big.Int).Mul(v, p[k])), blsR)
		case 2:
			if k < t {
				p[k] = big.NewInt(0)
			}
		}
		if p[0].Sign() == 0 {
			p[0] = big.NewInt(1)
		}
	}
	return p
}
func (p poly) eval(x int) *big.Int {
	acc := new(big.Int)
	bx := big.NewInt(int64(x))
	for i := len(p) - 1; i >= 0; i-- {
		acc.Mul(acc, bx)
		acc.Add(acc, p[i])
		acc.Mod(acc, blsR)
	}
	return acc
}
func g2Of(k *big.Int) []byte {
	if k.Sign() == 0 {
		inf := make([]byte, 96)
		inf[0] = 0xc0
		return inf
	}
	return skFromInt(k).PublicKey().Encode()
}
func (p poly) vectorMsg() []byte {
	m := []byte{1}
	for _, a := range p {
		m = append(m, g2Of(a)...)
	}
	return m
}
func shareMsg(x *big.Int) []byte      { return append([]byte{0}, be(x, 32)...) }
func complaintMsg(dealer int) []byte  { return []byte{2, byte(dealer)} }
func answerMsg(k int, x *big.Int) []byte { return append([]byte{3, byte(k)}, be(x, 32)...) }
