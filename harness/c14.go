package main

import (
	"time"
	"fmt"
	"strings"

	"github.com/onflow/crypto/random"
)

func init() {
	generators["C14"] = genC14
	generators["C15"] = genC15
}

// prgRun runs an op sequence on the real PRG; ops use the protocol syntax of the Lean driver.
func prgRun(seed, cust []byte, ops []string) string {
	return guard(func() string {
		sb, cb := cloneOrNil(seed), cloneOrNil(cust)
		g, err := random.NewChacha20PRG(sb, cb)
		wipe(sb) // the seed and customizer slices are the caller's
		wipe(cb)
		if err != nil {
			return "err"
		}
		return "ok" + prgOps(g, ops)
	})
}

type prg interface {
	random.Rand
}

func prgOps(g random.Rand, ops []string) string {
	var sb strings.Builder
	record := func(sw *[]string, i, j int) {
		if len(*sw) > 1<<20 { // no documented call makes that many swaps with the sizes used here
			panic("too many swaps")
		}
		*sw = append(*sw, fmt.Sprintf("%d:%d", i, j))
	}
	for _, op := range ops {
		sb.WriteByte(' ')
		if strings.HasSuffix(sb.String(), "no-return ") {
			sb.WriteString("skipped") // the generator is still in the hands of the call that did not return
			continue
		}
		sb.WriteString(guardT(20*time.Second, func() string {
			var n, m int
			var u uint64
			switch {
			case op == "st":
				return hx(g.Store())
			case op == "rs":
				st := g.Store()
				g2, err := random.RestoreChacha20PRG(st)
				if err != nil {
					return "err"
				}
				// the state slice is the caller's: it is wiped right after the restore (a generator that kept
				// references into it would hand out a wrong seed at its next Store)
				for j := range st {
					st[j] ^= 0xFF
				}
				g = g2
				return "ok"
			case strings.HasPrefix(op, "sp"):
				fmt.Sscanf(op, "sp%d,%d", &n, &m)
				l, err := g.SubPermutation(n, m)
				if err != nil {
					return "err"
				}
				return showInts(l)
			case strings.HasPrefix(op, "sm"):
				fmt.Sscanf(op, "sm%d,%d", &n, &m)
				var sw []string
				err := g.Samples(n, m, func(i, j int) { record(&sw, i, j) })
				if err != nil {
					return "err"
				}
				if len(sw) == 0 {
					return "[]"
				}
				return strings.Join(sw, ",")
			case strings.HasPrefix(op, "sh"):
				fmt.Sscanf(op, "sh%d", &n)
				var sw []string
				err := g.Shuffle(n, func(i, j int) { record(&sw, i, j) })
				if err != nil {
					return "err"
				}
				if len(sw) == 0 {
					return "[]"
				}
				return strings.Join(sw, ",")
			case strings.HasPrefix(op, "r"):
				fmt.Sscanf(op, "r%d", &n)
				b := make([]byte, n)
				for i := range b {
					b[i] = 0xA5 // the buffer content must not matter
				}
				g.Read(b)
				return hx(b)
			case strings.HasPrefix(op, "u"):
				fmt.Sscanf(op, "u%d", &u)
				return fmt.Sprint(g.UintN(u))
			case strings.HasPrefix(op, "p"):
				fmt.Sscanf(op, "p%d", &n)
				l, err := g.Permutation(n)
				if err != nil {
					return "err"
				}
				return showInts(l)
			}
			return "bad-op"
		}))
	}
	return sb.String()
}

func showInts(l []int) string {
	if len(l) == 0 {
		return "[]"
	}
	s := make([]string, len(l))
	for i, v := range l {
		s[i] = fmt.Sprint(v)
	}
	return strings.Join(s, ",")
}

func genC14(c *Ctx) {
	sizes := []int{0, 1, 2, 31, 63, 64, 65, 127, 128, 129, 191, 192, 193, 1000}
	nSeq, nOff := 150, 261
	if c.thorough() {
		nSeq, nOff = 3000, 1100
	}
	emit := func(class string, seed, cust []byte, ops []string) {
		line := fmt.Sprintf("prg %s %s %s", hx(seed), hx(cust), strings.Join(ops, " "))
		c.Case(class, strings.TrimSpace(line), prgRun(seed, cust, ops))
	}
	// constructor guards: every seed length 0..130 (with a short, a full and an over-long customizer), every
	// customizer length 0..70 and a few larger ones (the cipher underneath also knows 24-byte nonces and 64-byte blocks)
	for l := 0; l <= 130; l++ {
		emit("ctor-seedlen", c.bytes(l), c.bytes(3), []string{"r5"})
		if l%8 == 0 || l == 33 || l == 31 {
			emit("ctor-seedlen", c.bytes(l), c.bytes(12), []string{"r5", "st"})
			emit("ctor-seedlen", c.bytes(l), c.bytes(24), []string{"r5", "st"})
		}
	}
	for _, l := range append(ranged(0, 70), 96, 128, 255, 256, 1000) {
		emit("ctor-custlen", c.bytes(32), c.bytes(l), []string{"r70", "st"})
	}
	// restore guards: state lengths 0..60
	for l := 0; l <= 60; l++ {
		st := c.bytes(l)
		if l >= 52 { // keep the counter small enough for the documented range
			for i := 46; i < l && i < 52; i++ {
				st[i] = 0
			}
		}
		ans := guard(func() string {
			g, err := random.RestoreChacha20PRG(st)
			if err != nil {
				return "err"
			}
			return "ok" + prgOps(g, []string{"r7", "st"})
		})
		c.Case("restore-len", fmt.Sprintf("prgrestore %s r7 st", hx(st)), ans)
	}
	// read-size sequences
	for i := 0; i < nSeq; i++ {
		k := 1 + c.intn(8)
		ops := []string{}
		for j := 0; j < k; j++ {
			ops = append(ops, fmt.Sprintf("r%d", sizes[c.intn(len(sizes))]))
		}
		ops = append(ops, "st")
		emit("read-seq", c.bytes(32), c.bytes(c.intn(13)), ops)
	}
	// store/restore at every offset, then continue with reads and derived draws
	seed, cust := c.bytes(32), c.bytes(12)
	for off := 0; off < nOff; off++ {
		ops := []string{}
		rest := off
		// reach the offset by reads of mixed sizes
		for rest > 0 {
			s := 1 + c.intn(100)
			if s > rest {
				s = rest
			}
			ops = append(ops, fmt.Sprintf("r%d", s))
			rest -= s
		}
		ops = append(ops, "st", "rs", "st", "r1", "r64", "r65", "u1000", "p5", "sm6,3", "st")
		emit("store-restore-offset", seed, cust, ops)
	}
	// snapshots are values: a state stored earlier restores at ITS offset whatever the generator, later Store calls or
	// writes into other returned slices did in between; and writing into a returned slice does not touch the generator.
	// The model evaluates "<before> rs <after>" (an immediate restore); the implementation keeps the slice returned
	// by Store, runs the unrelated operations, restores from the kept slice, then runs <after>.
	for i := 0; i < nSeq; i++ {
		sd, cu := c.bytes(32), c.bytes(c.intn(13))
		mk := func(k int, withStore bool) []string {
			var ops []string
			for j := 0; j < k; j++ {
				if withStore && c.intn(3) == 0 {
					ops = append(ops, "st")
				} else {
					ops = append(ops, fmt.Sprintf("r%d", sizes[c.intn(len(sizes))]))
				}
			}
			return ops
		}
		before, between, after := mk(c.intn(4), true), mk(1+c.intn(4), true), append(mk(1+c.intn(3), false), "st")
		between = append(between, "st")
		scribble := c.intn(2) == 0
		ans := guard(func() string {
			g, err := random.NewChacha20PRG(sd, cu)
			if err != nil {
				return "err"
			}
			out := "ok" + prgOps(g, before)
			snap := g.Store() // kept by reference, never copied
			_ = prgOps(g, between)
			if scribble { // a later snapshot is the caller's to overwrite
				later := g.Store()
				for j := range later {
					later[j] ^= 0xFF
				}
			}
			g2, err := random.RestoreChacha20PRG(snap)
			if err != nil {
				return out + " err"
			}
			for j := range snap { // the caller re-uses the slice it restored from
				snap[j] = byte(j)
			}
			return out + " ok" + prgOps(g2, after)
		})
		ops := append(append(append([]string{}, before...), "rs"), after...)
		c.Case("snapshot-independent", fmt.Sprintf("prg %s %s %s", hx(sd), hx(cu), strings.Join(ops, " ")), ans)
		// and the generator itself is not disturbed by what the caller does to a returned snapshot
		ans2 := guard(func() string {
			g, err := random.NewChacha20PRG(sd, cu)
			if err != nil {
				return "err"
			}
			out := "ok" + prgOps(g, before)
			s := g.Store()
			for j := range s {
				s[j] ^= 0xFF
			}
			return out + prgOps(g, after)
		})
		c.Case("snapshot-scribbled", strings.TrimSpace(fmt.Sprintf("prg %s %s %s", hx(sd), hx(cu), strings.Join(append(append([]string{}, before...), after...), " "))), ans2)
	}
	// store/restore around multiples of 64 far into the stream (counter given through Restore)
	for i := 0; i < nSeq; i++ {
		blocks := c.rng.Uint64N(1 << 31)
		off := blocks*64 + uint64(c.intn(5)) - 2
		st := append(append(append([]byte{}, seed...), cust...), le64(off)...)
		ops := []string{"st", "r3", "r130", "rs", "r64", "st", "u77"}
		ans := guard(func() string {
			g, err := random.RestoreChacha20PRG(st)
			if err != nil {
				return "err"
			}
			return "ok" + prgOps(g, ops)
		})
		c.Case("restore-far", fmt.Sprintf("prgrestore %s %s", hx(st), strings.Join(ops, " ")), ans)
	}
}

func le64(v uint64) []byte {
	b := make([]byte, 8)
	for i := range b {
		b[i] = byte(v >> (8 * i))
	}
	return b
}

// tapeRand adapts the verification hook random.NewTapeRand (a Rand over a caller-chosen byte source: the bytes of the
// tape, then zeros) to the interface the op runner expects; Store belongs to the ChaCha20 object and is never called
type tapeRand struct {
	*random.TapeRand
}

func (tapeRand) Store() []byte { panic("Store on a tape generator") }

func tapeRun(tape []byte, ops []string) string {
	return guard(func() string {
		pos := 0
		g := tapeRand{random.NewTapeRand(func(b []byte) {
			for i := range b {
				if pos < len(tape) {
					b[i] = tape[pos]
				} else {
					b[i] = 0
				}
				pos++
			}
		})}
		return "ok" + prgOps(g, ops)
	})
}

func genC15(c *Ctx) {
	nSeeds := 40
	if c.thorough() {
		nSeeds = 1500
	}
	emit := func(class string, ops []string) {
		seed, cust := c.bytes(32), c.bytes(c.intn(13))
		line := fmt.Sprintf("prg %s %s %s", hx(seed), hx(cust), strings.Join(ops, " "))
		c.Case(class, line, prgRun(seed, cust, ops))
	}
	// the generic methods over chosen byte tapes (hook random.NewTapeRand): runs of k draws that UintN must reject
	// (all-ones draws are out of range for every n that is not a power of two), k far beyond what a real
	// generator ever produces, then draws in range; the model runs rand.go's loops over the same tape
	{
		emitTape := func(class string, tape []byte, ops []string) {
			c.Case(class, fmt.Sprintf("prgtape %s %s", hx(tape), strings.Join(ops, " ")), tapeRun(tape, ops))
		}
		ks := []int{0, 1, 2, 7, 63, 64, 65, 127, 128, 129, 255, 256, 257, 300}
		if c.thorough() {
			ks = append(ks, 1000, 4095, 4096, 4097, 70000)
		}
		for _, n := range []uint64{3, 5, 6, 7, 100, 255, 257, 1000, 65535, 65537, 1<<32 + 1, 1<<63 + 1, ^uint64(0)} {
			size := 0
			for t := n - 1; t != 0; t >>= 8 {
				size++
			}
			for _, k := range ks {
				tape := make([]byte, 0, (k+3)*size)
				for i := 0; i < k*size; i++ {
					tape = append(tape, 0xFF)
				}
				tape = append(tape, c.bytes(3*size)...)
				// make the draw after the rejected ones in range: clear its most significant byte
				tape[k*size+size-1] = 0
				emitTape("uintn-tape/rejections", tape, []string{fmt.Sprintf("u%d", n), fmt.Sprintf("u%d", n), "r3"})
			}
		}
		for _, k := range ks {
			// a permutation / shuffle / sampling that meets the rejections in the middle
			tape := c.bytes(6)
			for i := 0; i < k; i++ {
				tape = append(tape, 0xFF)
			}
			tape = append(tape, c.bytes(40)...)
			for i := range tape {
				if tape[i] != 0xFF {
					tape[i] &= 0x0F
				}
			}
			emitTape("perm-tape/rejections", tape, []string{"p12", "r2"})
			emitTape("perm-tape/rejections", tape, []string{"sh11", "r2"})
			emitTape("perm-tape/rejections", tape, []string{"sm13,9", "sp7,3", "r2"})
		}
		for i := 0; i < nSeeds; i++ {
			// random tapes with a skewed byte distribution (many high bytes: many rejections)
			tape := c.bytes(200)
			for j := range tape {
				if c.intn(3) != 0 {
					tape[j] |= 0xE0
				}
			}
			n := uint64(2 + c.intn(300))
			emitTape("uintn-tape/random", tape, []string{fmt.Sprintf("u%d", n), fmt.Sprintf("p%d", 2+c.intn(20)), fmt.Sprintf("u%d", n+1), "r4"})
		}
	}
	// UintN at n = 1,2,3, 2^k, 2^k±1, 2^64-1
	ns := []uint64{0, 1, 2, 3, 255, 256, 257, 65535, 65536, 65537, ^uint64(0), 1 << 63, 1<<63 + 1, 1<<63 - 1}
	for k := uint(2); k < 64; k++ {
		ns = append(ns, 1<<k, 1<<k+1, 1<<k-1)
	}
	for _, n := range ns {
		ops := []string{}
		for j := 0; j < 6; j++ {
			ops = append(ops, fmt.Sprintf("u%d", n))
		}
		// a wide draw first leaves stale bytes in the 8-byte buffer
		emit("uintn-boundary", append([]string{fmt.Sprintf("u%d", ^uint64(0))}, ops...))
	}
	for i := 0; i < nSeeds; i++ {
		ops := []string{}
		for j := 0; j < 10; j++ {
			n := c.rng.Uint64() >> uint(c.intn(64))
			ops = append(ops, fmt.Sprintf("u%d", n))
		}
		emit("uintn-random", ops)
	}
	// all (n, m) <= 8
	for n := -1; n <= 8; n++ {
		for m := -1; m <= 9; m++ {
			emit("nm-small", []string{fmt.Sprintf("sp%d,%d", n, m), fmt.Sprintf("sm%d,%d", n, m), fmt.Sprintf("p%d", n), fmt.Sprintf("sh%d", n), "st"})
		}
	}
	for i := 0; i < nSeeds; i++ {
		n := c.intn(300)
		m := c.intn(n + 2)
		emit("nm-random", []string{fmt.Sprintf("p%d", n), fmt.Sprintf("sp%d,%d", n, m), fmt.Sprintf("sm%d,%d", n, m), fmt.Sprintf("sh%d", n)})
	}
	emit("negative", []string{"p-5", "sp-1,-1", "sp3,-2", "sm-4,2", "sm2,-4", "sh-3", fmt.Sprintf("p%d", -1<<62)})
	// integer extremes of (n, m), all of them refused by the documented conditions (n < 0, m < 0, n < m): a comparison
	// rewritten as a difference (m - n > 0) overflows exactly here
	const minI, maxI = -1 << 63, 1<<63 - 1
	for _, n := range []int{minI, minI + 1, minI + 7, -(1 << 62), -(1 << 62) - 1, -(1 << 32), -1} {
		ops := []string{fmt.Sprintf("p%d", n), fmt.Sprintf("sh%d", n)}
		for _, m := range []int{1, 2, 0, -1, 5, maxI, minI} {
			ops = append(ops, fmt.Sprintf("sp%d,%d", n, m), fmt.Sprintf("sm%d,%d", n, m))
		}
		emit("nm-extremes", append(ops, "st"))
	}
	for _, n := range []int{0, 1, 5} {
		ops := []string{}
		for _, m := range []int{maxI, maxI - 1, minI, minI + 1, 1 << 62, 1 << 32, -(1 << 62)} {
			ops = append(ops, fmt.Sprintf("sp%d,%d", n, m), fmt.Sprintf("sm%d,%d", n, m))
		}
		emit("nm-extremes", append(ops, "st"))
	}
}

// ranged lists a..b
func ranged(a, b int) []int {
	out := []int{}
	for i := a; i <= b; i++ {
		out = append(out, i)
	}
	return out
}
