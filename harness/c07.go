//go:build !no_cgo

package main

import (
	"fmt"
	"math/big"
	"sort"
	"strings"

	"github.com/onflow/crypto"
)

func init() {
	generators["C07"] = func(c *Ctx) { genDkgRuns(c, "C07"); genLargeCommittee(c); genStructuredDealings(c); genDealerHistories(c) }
	generators["C08"] = func(c *Ctx) { genDkgRuns(c, "C08"); genLargeCommittee(c); genStructuredDealings(c); genDealerHistories(c) }
}

type qmsg struct {
	kind byte // 'B' or 'P'
	data []byte
}

// dkgNet: n participants, honest ones run the real code, Byzantine ones are scripted by the harness.
type dkgNet struct {
	c      *Ctx
	proto  string
	n, t   int
	dealer int // single-dealer protocols
	nodes  []*dkgNode
	byz    map[int]bool
	// queues[recv][2*sender+ch] : FIFO per (sender, channel); channel 0 = broadcast, 1 = private
	queues [][][]qmsg
	// log of broadcasts by honest nodes, for the Byzantine reaction logic
	honestBcasts []struct {
		from int
		data []byte
	}
	trace []string
}

func newDkgNet(c *Ctx, proto string, n, t, dealer int, byz map[int]bool) *dkgNet {
	nt := &dkgNet{c: c, proto: proto, n: n, t: t, dealer: dealer, byz: byz}
	nt.nodes = make([]*dkgNode, n)
	nt.queues = make([][][]qmsg, n)
	for i := 0; i < n; i++ {
		nt.queues[i] = make([][]qmsg, 2*n)
		if !byz[i] {
			nd, err := newDkgNode(proto, n, t, i, dealer)
			if err != nil {
				panic(err)
			}
			nt.nodes[i] = nd
		}
	}
	return nt
}

func (nt *dkgNet) bcast(from int, data []byte) {
	for r := 0; r < nt.n; r++ {
		if r != from && !nt.byz[r] {
			nt.queues[r][2*from] = append(nt.queues[r][2*from], qmsg{'B', data})
		}
	}
	if !nt.byz[from] {
		nt.honestBcasts = append(nt.honestBcasts, struct {
			from int
			data []byte
		}{from, data})
	}
}
func (nt *dkgNet) priv(from, to int, data []byte) {
	if to >= 0 && to < nt.n && !nt.byz[to] {
		nt.queues[to][2*from+1] = append(nt.queues[to][2*from+1], qmsg{'P', data})
	}
}

// route the outputs of an honest node's call
func (nt *dkgNet) route(from int, bc [][]byte, pr []privMsg) {
	for _, b := range bc {
		nt.bcast(from, b)
	}
	for _, p := range pr {
		nt.priv(from, p.dest, p.data)
	}
}

func (nt *dkgNet) callAll(tok string) {
	order := nt.c.rng.Perm(nt.n)
	type res struct {
		i  int
		bc [][]byte
		pr []privMsg
	}
	var rs []res
	for _, i := range order {
		if nt.nodes[i] != nil {
			bc, pr := nt.nodes[i].call(tok)
			rs = append(rs, res{i, bc, pr})
		}
	}
	// outputs of a simultaneous step are routed after every node has taken it
	for _, r := range rs {
		nt.route(r.i, r.bc, r.pr)
	}
}

// deliverAll delivers every queued message (and whatever the deliveries trigger) in a random admissible order.
// react is called after each delivery so that Byzantine participants can respond to what honest nodes broadcast.
func (nt *dkgNet) deliverAll(react func()) {
	for {
		type slot struct{ r, q int }
		var slots []slot
		for r := 0; r < nt.n; r++ {
			if nt.nodes[r] == nil {
				continue
			}
			for q := range nt.queues[r] {
				if len(nt.queues[r][q]) > 0 {
					slots = append(slots, slot{r, q})
				}
			}
		}
		if len(slots) == 0 {
			return
		}
		s := slots[nt.c.intn(len(slots))]
		m := nt.queues[s.r][s.q][0]
		nt.queues[s.r][s.q] = nt.queues[s.r][s.q][1:]
		tok := fmt.Sprintf("%c:%d:%s", m.kind, s.q/2, hx(m.data))
		bc, pr := nt.nodes[s.r].call(tok)
		nt.route(s.r, bc, pr)
		if react != nil {
			react()
		}
	}
}

// ---- Byzantine dealer behaviour

type byzDealer struct {
	idx        int
	p          poly
	shareKind  []string // per receiver
	vecKind    string
	answerKind string
	extra      []string // extra broadcast behaviours
	answered   map[int]bool
	preAnswer  map[int]bool // receivers for which a valid answer was broadcast before any complaint (extra behaviour)
	mustDisq   bool
	sentLate   bool
}

var shareKinds = []string{"ok", "ok", "ok", "omit", "bad-tag", "wrong-size", "zero", "too-big", "plus-r", "wrong-value", "late", "duplicate", "empty"}
var vecKinds = []string{"ok", "ok", "ok", "ok", "omit", "late", "wrong-size", "bad-point", "not-in-g2", "cancelling-non-g2", "duplicate", "twice-different"}
var answerKinds = []string{"ok", "ok", "omit", "wrong", "wrong-size", "bad-complainer", "zero", "plus-r", "duplicate", "late", "unsolicited-first"}
var extraKinds = []string{"", "", "", "empty-bcast", "bad-tag", "malformed-complaint", "complaint-big-index", "complain-about-self", "unsolicited-answer", "spurious-complaint"}

func (nt *dkgNet) newByzDealer(idx int) *byzDealer {
	c := nt.c
	b := &byzDealer{idx: idx, p: c.randPoly(nt.t), answered: map[int]bool{}}
	b.shareKind = make([]string, nt.n)
	for i := range b.shareKind {
		b.shareKind[i] = shareKinds[c.intn(len(shareKinds))]
	}
	b.vecKind = vecKinds[c.intn(len(vecKinds))]
	b.answerKind = answerKinds[c.intn(len(answerKinds))]
	b.extra = []string{extraKinds[c.intn(len(extraKinds))]}
	return b
}

func (b *byzDealer) describe() string {
	return fmt.Sprintf("byz%d{vec=%s shares=%s answer=%s extra=%s}", b.idx, b.vecKind, strings.Join(b.shareKind, ","), b.answerKind, strings.Join(b.extra, ","))
}

func (nt *dkgNet) byzVector(b *byzDealer) []byte {
	v := b.p.vectorMsg()
	switch b.vecKind {
	case "wrong-size":
		return v[:len(v)-1]
	case "bad-point":
		v[1] = 0xe0
	case "not-in-g2":
		copy(v[1:], askBytes("e2 off 0"))
	case "cancelling-non-g2":
		// A_0 + T and A_1 - T for a point T outside G2: each entry is outside G2, their sum is the honest sum
		T := askBytes("e2 torsion 0")
		a0 := append([]byte{}, v[1:97]...)
		a1 := append([]byte{}, v[97:193]...)
		copy(v[1:], askBytes("e2 add "+hx(a0)+" "+hx(T)))
		copy(v[97:], askBytes("e2 add "+hx(a1)+" "+hx(askBytes("e2 neg "+hx(T)))))
	}
	return v
}

// round1 queues the dealer's round-1 messages.
func (nt *dkgNet) byzRound1(b *byzDealer) {
	for i := 0; i < nt.n; i++ {
		if i == b.idx || nt.byz[i] {
			continue
		}
		x := b.p.eval(i + 1)
		var m []byte
		switch b.shareKind[i] {
		case "ok", "duplicate", "late":
			m = shareMsg(x)
		case "omit":
			continue
		case "bad-tag":
			m = shareMsg(x)
			m[0] = 7
		case "wrong-size":
			m = shareMsg(x)[:20]
		case "zero":
			m = shareMsg(big.NewInt(0))
		case "too-big":
			m = shareMsg(new(big.Int).Add(blsR, big.NewInt(1)))
		case "plus-r": // the right share, not reduced: a different encoding, which the reader refuses
			m = shareMsg(new(big.Int).Add(blsR, x))
		case "wrong-value":
			m = shareMsg(new(big.Int).Mod(new(big.Int).Add(x, big.NewInt(1)), blsR))
		case "empty":
			m = []byte{}
		}
		if b.shareKind[i] == "late" {
			continue // sent in round 2
		}
		nt.priv(b.idx, i, m)
		if b.shareKind[i] == "duplicate" {
			nt.priv(b.idx, i, m)
		}
	}
	switch b.vecKind {
	case "omit", "late":
	case "duplicate":
		nt.bcast(b.idx, nt.byzVector(b))
		nt.bcast(b.idx, nt.byzVector(b))
	case "twice-different":
		nt.bcast(b.idx, nt.byzVector(b))
		nt.bcast(b.idx, nt.c.randPoly(nt.t).vectorMsg())
	default:
		nt.bcast(b.idx, nt.byzVector(b))
	}
	for _, e := range b.extra {
		switch e {
		case "empty-bcast":
			nt.bcast(b.idx, []byte{})
		case "bad-tag":
			nt.bcast(b.idx, []byte{9, 1, 2})
		case "malformed-complaint":
			nt.bcast(b.idx, []byte{2, 0, 0})
		case "complaint-big-index":
			nt.bcast(b.idx, []byte{2, byte(nt.n)})
		case "complain-about-self":
			nt.bcast(b.idx, complaintMsg(b.idx))
		case "unsolicited-answer":
			k := nt.c.intn(nt.n)
			nt.bcast(b.idx, answerMsg(k, b.p.eval(k+1)))
			if b.preAnswer == nil {
				b.preAnswer = map[int]bool{}
			}
			b.preAnswer[k] = true
		case "spurious-complaint":
			// a complaint against an honest dealer (joint protocol): the honest dealer answers it
			k := nt.c.intn(nt.n)
			nt.bcast(b.idx, complaintMsg(k))
		}
	}
	if b.answerKind == "unsolicited-first" {
		// answers for every receiver before any complaint exists
		for i := 0; i < nt.n; i++ {
			if i != b.idx && !nt.byz[i] && b.shareKind[i] != "ok" {
				nt.bcast(b.idx, answerMsg(i, b.p.eval(i+1)))
				b.answered[i] = true
			}
		}
	}
}

// react answers the complaints of honest nodes against this dealer seen so far.
func (nt *dkgNet) byzReact(b *byzDealer, round int) {
	for _, hb := range nt.honestBcasts {
		if len(hb.data) == 2 && hb.data[0] == 2 && int(hb.data[1]) == b.idx && !b.answered[hb.from] {
			k := hb.from
			x := b.p.eval(k + 1)
			switch b.answerKind {
			case "ok", "unsolicited-first":
				nt.bcast(b.idx, answerMsg(k, x))
			case "omit":
			case "wrong":
				nt.bcast(b.idx, answerMsg(k, new(big.Int).Mod(new(big.Int).Add(x, big.NewInt(3)), blsR)))
			case "wrong-size":
				nt.bcast(b.idx, answerMsg(k, x)[:20])
			case "bad-complainer":
				nt.bcast(b.idx, answerMsg(nt.n+1, x))
			case "zero":
				nt.bcast(b.idx, answerMsg(k, big.NewInt(0)))
			case "plus-r":
				nt.bcast(b.idx, answerMsg(k, new(big.Int).Add(blsR, x)))
			case "duplicate":
				nt.bcast(b.idx, answerMsg(k, x))
				nt.bcast(b.idx, answerMsg(k, x))
			case "late":
				if round < 3 {
					continue // not yet
				}
				nt.bcast(b.idx, answerMsg(k, x))
			}
			b.answered[k] = true
		}
	}
}

func (nt *dkgNet) byzRound2(b *byzDealer) {
	for i := 0; i < nt.n; i++ {
		if i != b.idx && !nt.byz[i] && b.shareKind[i] == "late" {
			nt.priv(b.idx, i, shareMsg(b.p.eval(i+1)))
		}
	}
	if b.vecKind == "late" {
		nt.bcast(b.idx, nt.byzVector(b))
	}
}

// genDkgRuns drives full protocol executions and records (1) every honest node's call line for the
// model, (2) the property predicates evaluated on the real run.
func genDkgRuns(c *Ctx, prop string) {
	nRuns := 45
	if c.thorough() {
		nRuns = 1500
	}
	configs := [][2]int{{3, 1}, {4, 1}, {4, 2}, {5, 2}}
	if c.thorough() {
		configs = append(configs, [2]int{7, 3}, [2]int{2, 1})
	}
	if prop == "C08" {
		genFvssOrders(c)
	}
	genDkgEnum(c, false)
	for it := 0; it < nRuns; it++ {
		cfg := configs[it%len(configs)]
		n, t := cfg[0], cfg[1]
		proto := []string{"joint", "fvssq", "joint", "fvss"}[it%4]
		if prop == "C07" && proto == "fvss" {
			proto = "joint"
		}
		nbyz := c.intn(t + 1)
		if it%5 == 0 {
			nbyz = 0
		}
		dealer := 0
		byz := map[int]bool{}
		if proto != "joint" {
			dealer = c.intn(n)
			if nbyz > 0 {
				byz[dealer] = true // the interesting Byzantine participant is the dealer
			}
			for len(byz) < nbyz {
				byz[c.intn(n)] = true
			}
		} else {
			for len(byz) < nbyz {
				byz[c.intn(n)] = true
			}
		}
		nt := newDkgNet(c, proto, n, t, dealer, byz)
		var bds []*byzDealer
		var idxs []int
		for i := range byz {
			idxs = append(idxs, i)
		}
		sort.Ints(idxs)
		for _, i := range idxs {
			if proto == "joint" || i == dealer {
				bds = append(bds, nt.newByzDealer(i))
			}
		}
		desc := fmt.Sprintf("%s n=%d t=%d dealer=%d", proto, n, t, dealer)
		for _, b := range bds {
			desc += " " + b.describe()
		}
		seed := hx(c.bytes(32))
		// ---- round 1
		nt.callAll("S:" + seed)
		for _, b := range bds {
			nt.byzRound1(b)
		}
		react := func(round int) func() {
			return func() {
				for _, b := range bds {
					nt.byzReact(b, round)
				}
			}
		}
		nt.deliverAll(react(1))
		if proto != "fvss" {
			nt.callAll("T")
			// ---- round 2
			for _, b := range bds {
				nt.byzRound2(b)
			}
			react(2)()
			nt.deliverAll(react(2))
			nt.callAll("T")
			// ---- round 3: late answers
			react(3)()
			nt.deliverAll(react(3))
		}
		nt.callAll("E")
		// ---- every honest node against the model
		for _, nd := range nt.nodes {
			if nd != nil {
				c.Case("node-line/"+proto, nd.line(), nd.answer())
			}
		}
		// ---- property predicates on the real run
		c.Case("predicates/"+proto, "expect ok #"+desc, dkgPredicates(nt, bds, prop))
	}
}

func dkgPredicates(nt *dkgNet, bds []*byzDealer, prop string) string {
	var problems []string
	var honest []*dkgNode
	for _, nd := range nt.nodes {
		if nd != nil {
			honest = append(honest, nd)
			if nd.panicked {
				problems = append(problems, fmt.Sprintf("node %d panicked", nd.me))
			}
		}
	}
	// C08: no honest participant is disqualified or flagged by an honest participant
	for _, nd := range honest {
		for _, a := range nd.answers {
			outs := a[strings.IndexByte(a, '|')+1:]
			for _, o := range strings.Split(outs, ";") {
				if len(o) > 1 && (o[0] == 'd' || o[0] == 'f') {
					var tgt int
					fmt.Sscan(o[1:], &tgt)
					if tgt >= 0 && tgt < nt.n && !nt.byz[tgt] {
						problems = append(problems, fmt.Sprintf("honest %d blamed by honest %d (%s)", tgt, nd.me, o))
					}
				}
			}
		}
	}
	if nt.proto != "fvss" {
		// C07: same verdict, same keys
		ref := honest[0]
		for _, nd := range honest[1:] {
			if nd.endRes != ref.endRes {
				problems = append(problems, fmt.Sprintf("verdicts differ: node %d %s, node %d %s", ref.me, ref.endRes, nd.me, nd.endRes))
			} else if nd.endRes == "keys" && (nd.endKeys[1] != ref.endKeys[1] || nd.endKeys[2] != ref.endKeys[2]) {
				problems = append(problems, fmt.Sprintf("keys differ between node %d and node %d", ref.me, nd.me))
			}
		}
		// same set of disqualified dealers (as reported through Disqualify callbacks)
		sets := map[string]bool{}
		for _, nd := range honest {
			ds := map[int]bool{}
			for _, a := range nd.answers {
				for _, o := range strings.Split(a[strings.IndexByte(a, '|')+1:], ";") {
					if len(o) > 1 && o[0] == 'd' {
						var tgt int
						fmt.Sscan(o[1:], &tgt)
						ds[tgt] = true
					}
				}
			}
			var l []int
			for k := range ds {
				l = append(l, k)
			}
			sort.Ints(l)
			sets[fmt.Sprint(l)] = true
		}
		if len(sets) > 1 {
			problems = append(problems, fmt.Sprintf("disqualified sets differ: %v", sets))
		}
	}
	// key consistency on success: private share matches public share; t+1 shares sign for the group key
	for _, nd := range honest {
		if nd.endRes == "keys" {
			ys := strings.Split(nd.endKeys[2], ",")
			sk, err := crypto.DecodePrivateKey(crypto.BLSBLS12381, unhexOr(nd.endKeys[0]))
			if err != nil || hx(sk.PublicKey().Encode()) != ys[nd.me] {
				problems = append(problems, fmt.Sprintf("node %d: private share does not match its public share", nd.me))
			}
		}
	}
	if nt.proto != "fvss" && len(honest) > nt.t && honest[0].endRes == "keys" {
		h := crypto.NewExpandMsgXOFKMAC128("dkg")
		msg := []byte("threshold")
		var shares []crypto.Signature
		var signers []int
		for _, nd := range honest[:nt.t+1] {
			sk, _ := crypto.DecodePrivateKey(crypto.BLSBLS12381, unhexOr(nd.endKeys[0]))
			s, _ := sk.Sign(msg, h)
			shares = append(shares, s)
			signers = append(signers, nd.me)
		}
		ts, err := crypto.BLSReconstructThresholdSignature(nt.n, nt.t, shares, signers)
		Y, _ := crypto.DecodePublicKey(crypto.BLSBLS12381, unhexOr(honest[0].endKeys[1]))
		if err != nil {
			problems = append(problems, "threshold reconstruction failed: "+errClass(err))
		} else if ok, _ := Y.Verify(ts, msg, h); !ok {
			problems = append(problems, "threshold signature of t+1 honest participants is not valid under the group key")
		}
	}
	// C08: bad dealing never accepted (single-dealer Qual protocol, Byzantine dealer)
	if nt.proto == "fvssq" && len(bds) == 1 {
		b := bds[0]
		must := ""
		if b.vecKind != "ok" && b.vecKind != "duplicate" && b.vecKind != "twice-different" {
			must = "vector " + b.vecKind
		}
		complainers := 0
		for i, k := range b.shareKind {
			if i != b.idx && !nt.byz[i] && k != "ok" && k != "duplicate" {
				complainers++
			}
		}
		if complainers > nt.t {
			must = fmt.Sprintf("%d complaints > t", complainers)
		}
		// a valid answer broadcast before the complaint is an answer (every honest node keeps it): such a
		// complaint is neither unanswered nor wrongly answered, the exact verdict is then the model's business
		preAnswered := false
		for i, k := range b.shareKind {
			if i != b.idx && !nt.byz[i] && k != "ok" && k != "duplicate" && b.preAnswer[i] {
				preAnswered = true
			}
		}
		if complainers > 0 && !preAnswered && (b.answerKind == "omit" || b.answerKind == "wrong" || b.answerKind == "wrong-size" || b.answerKind == "bad-complainer" || b.answerKind == "zero" || b.answerKind == "plus-r") {
			must = "complaint answered with " + b.answerKind
		}
		if must != "" {
			for _, nd := range honest {
				if nd.endRes != "fail" {
					problems = append(problems, fmt.Sprintf("dealer with %s not disqualified by node %d (%s)", must, nd.me, nd.endRes))
				}
			}
		}
	}
	// C08: plain Feldman VSS: invalid vector or mismatching share never yields keys
	if nt.proto == "fvss" && len(bds) == 1 {
		b := bds[0]
		for _, nd := range honest {
			badVec := b.vecKind != "ok" && b.vecKind != "duplicate" && b.vecKind != "twice-different"
			k := b.shareKind[nd.me]
			badShare := k != "ok" && k != "duplicate"
			if (badVec || badShare) && nd.endRes == "keys" {
				problems = append(problems, fmt.Sprintf("plain Feldman VSS node %d returned keys with vector %s / share %s", nd.me, b.vecKind, k))
			}
		}
	}
	if len(problems) == 0 {
		return "ok"
	}
	return "violated: " + strings.Join(problems, "; ")
}

// genFvssOrders: plain Feldman VSS, one honest receiver, every kind of invalid vector x both arrival orders
// x share kinds (incl. the constant term of the polynomial as share, which matches a truncated vector).
func genFvssOrders(c *Ctx) {
	n, t, me, dealer := 4, 2, 1, 0
	for _, vk := range []string{"ok", "wrong-size", "short-by-one-point", "bad-point", "bad-point-last", "not-in-g2", "not-in-g2-last", "cancelling-non-g2", "identity-points", "duplicate", "empty-payload"} {
		for _, sk := range []string{"ok", "a0", "wrong-value", "wrong-size", "zero", "plus-r", "plus-r-small", "plus-r-small2", "r-itself"} {
			for order := 0; order < 6; order++ {
				// orders 2..5: the dealer re-broadcasts the VALID vector after the invalid one (right after it, or at the
				// end): the first vector decides, a later one must not repair the verdict
				retry := order / 2
				if retry > 0 && (vk == "ok" || vk == "duplicate" || vk == "identity-points") {
					continue
				}
				p := c.randPoly(t)
				if sk == "plus-r-small" || sk == "plus-r-small2" { // a dealer is free to pick small coefficients
					for i := range p {
						p[i] = big.NewInt(int64(1 + c.intn(1000)))
						if sk == "plus-r-small2" {
							p[i].Lsh(p[i], uint(c.intn(120)))
						}
					}
				}
				v := p.vectorMsg()
				v0 := append([]byte{}, v...)
				switch vk {
				case "wrong-size":
					v = v[:len(v)-1]
				case "short-by-one-point":
					v = v[:len(v)-96]
				case "bad-point":
					v[1] = 0xe0
				case "bad-point-last":
					v[1+96*t] = 0xe0
				case "not-in-g2":
					copy(v[1:], askBytes("e2 off 0"))
				case "not-in-g2-last":
					copy(v[1+96*t:], askBytes("e2 torsion 1"))
				case "cancelling-non-g2":
					T := askBytes("e2 torsion 0")
					a0 := append([]byte{}, v[1:97]...)
					a1 := append([]byte{}, v[97:193]...)
					copy(v[1:], askBytes("e2 add "+hx(a0)+" "+hx(T)))
					copy(v[97:], askBytes("e2 add "+hx(a1)+" "+hx(askBytes("e2 neg "+hx(T)))))
				case "identity-points":
					for j := 1; j <= t; j++ {
						inf := make([]byte, 96)
						inf[0] = 0xc0
						copy(v[1+96*j:], inf)
					}
				case "empty-payload":
					v = v[:1]
				}
				var sh []byte
				switch sk {
				case "ok":
					sh = shareMsg(p.eval(me + 1))
				case "a0":
					sh = shareMsg(p[0])
				case "wrong-value":
					sh = shareMsg(c.randScalar())
				case "wrong-size":
					sh = shareMsg(p.eval(me + 1))[:30]
				case "zero":
					sh = shareMsg(big.NewInt(0))
				case "plus-r", "plus-r-small", "plus-r-small2": // the right share, not reduced
					sh = shareMsg(new(big.Int).Add(blsR, p.eval(me+1)))
				case "r-itself":
					sh = shareMsg(blsR)
				}
				nd, err := newDkgNode("fvss", n, t, me, dealer)
				if err != nil {
					panic(err)
				}
				nd.call("S:" + hx(c.bytes(32)))
				calls := []string{"B:0:" + hx(v), "P:0:" + hx(sh)}
				if order%2 == 1 {
					calls[0], calls[1] = calls[1], calls[0]
				}
				if retry == 1 {
					calls = append(calls, "B:0:"+hx(v0))
				} else if retry == 2 {
					var cs []string
					for _, tok := range calls {
						cs = append(cs, tok)
						if strings.HasPrefix(tok, "B:") {
							cs = append(cs, "B:0:"+hx(v0))
						}
					}
					calls = cs
				}
				if vk == "duplicate" {
					calls = append(calls, "B:0:"+hx(v))
				}
				for _, tok := range calls {
					nd.call(tok)
				}
				nd.call("E")
				c.Case("fvss-orders/"+vk+"/"+sk, nd.line(), nd.answer())
				// predicate: keys only if the vector is valid and the share is the right one
				validVec := vk == "ok" || vk == "duplicate" || vk == "identity-points"
				goodShare := (sk == "ok" && vk != "identity-points") || (vk == "identity-points" && sk == "a0")
				verdict := "ok"
				if nd.panicked {
					verdict = "violated: panic"
				} else if nd.endRes == "keys" && !(validVec && goodShare) {
					verdict = fmt.Sprintf("violated: plain Feldman VSS returned keys with vector %s and share %s (order %d)", vk, sk, order)
				} else if nd.endRes != "keys" && validVec && goodShare {
					verdict = fmt.Sprintf("violated: plain Feldman VSS refused a valid dealing (vector %s share %s): %s", vk, sk, nd.endRes)
				}
				c.Case("fvss-orders-predicate", fmt.Sprintf("expect ok #%s/%s/%d", vk, sk, order), verdict)
			}
		}
	}
}

// genLargeCommittee: honest dealings in committees of 130 and 254 participants, seen by receivers at the indices where
// small-exponent arithmetic changes its length (63, 64, 126..129, 253): vector and share in round one, both timeouts,
// End. A receiver whose index makes the public key shares come out wrong would complain against an honest dealer or
// fail. Only the receiver under observation is instantiated (the others are silent, which Feldman-VSS-Qual tolerates).
func genLargeCommittee(c *Ctx) {
	seedHex := hx(c.bytes(32))
	for _, n := range []int{130, 254} {
		for _, t := range []int{1, 3} {
			pl := c.randPoly(t)
			vec := hx(pl.vectorMsg())
			for _, me := range []int{1, 63, 64, 126, 127, 128, 129, n - 1} {
				if me >= n {
					continue
				}
				for _, proto := range []string{"fvssq", "fvss"} {
					d, err := newDkgNode(proto, n, t, me, 0)
					if err != nil {
						panic(err)
					}
					for _, tok := range []string{"S:" + seedHex, "B:0:" + vec, "P:0:" + hx(shareMsg(pl.eval(me+1))), "T", "T", "E"} {
						d.call(tok)
					}
					c.Case(fmt.Sprintf("large-committee/%s/n=%d", proto, n), d.line(), d.answer())
				}
			}
		}
	}
}

// genStructuredDealings: dealings (correct vector, correct share) of polynomials chosen so that the Horner evaluation
// of some participant's public key share meets a special case of point addition: at step i the accumulator times v
// EQUALS the next coefficient (a doubling), or is its NEGATIVE (the sum is the point at infinity), or a coefficient is
// zero (a point at infinity inside the vector). One receiver is instantiated; End returns every public key share, so a
// wrong share of ANY participant shows in the comparison with the model, whoever the receiver is.
func genStructuredDealings(c *Ctx) {
	seedHex := hx(c.bytes(32))
	n, t, me := 6, 3, 1
	for v := 1; v <= n; v++ {
		for i := 0; i < t; i++ {
			for _, kind := range []string{"doubling", "opposite", "zero-coefficient"} {
				pl := make(poly, t+1)
				for j := range pl {
					pl[j] = c.randScalar()
				}
				if kind == "zero-coefficient" {
					if i == 0 {
						continue
					}
					pl[i] = big.NewInt(0)
				} else {
					h := new(big.Int) // the accumulator before coefficient i is added: sum over j > i of a_j v^(j-i-1)
					for j := t; j > i; j-- {
						h.Mul(h, big.NewInt(int64(v))).Add(h, pl[j]).Mod(h, blsR)
					}
					h.Mul(h, big.NewInt(int64(v))).Mod(h, blsR)
					if kind == "opposite" {
						h.Sub(blsR, h).Mod(h, blsR)
					}
					pl[i] = h
				}
				if pl[0].Sign() == 0 {
					continue
				}
				vec := hx(pl.vectorMsg())
				for _, proto := range []string{"fvss", "fvssq"} {
					d, err := newDkgNode(proto, n, t, me, 0)
					if err != nil {
						panic(err)
					}
					for _, tok := range []string{"S:" + seedHex, "B:0:" + vec, "P:0:" + hx(shareMsg(pl.eval(me+1))), "T", "T", "E"} {
						d.call(tok)
					}
					c.Case(fmt.Sprintf("structured-dealing/%s/%s", kind, proto), d.line(), d.answer())
				}
			}
		}
	}
}

// genDealerHistories: the honest node under test is the DEALER (node 0 of 3; in the joint protocol it is also a receiver
// of the two other dealings). Every sequence over {complaint of node 1 against it, complaint of node 2 against it, a
// complaint of node 1 against node 2, a timeout, the complaint of node 1 as a private message} up to a fixed length is a
// correspondence case: the same complaint delivered twice (before, across and after the timeouts) must be answered once.
func genDealerHistories(c *Ctx) {
	for _, proto := range []string{"fvssq", "joint"} {
		n, t, me, dealer := 3, 1, 0, 0
		alphabet := []string{
			"B:1:" + hx(complaintMsg(0)),
			"B:2:" + hx(complaintMsg(0)),
			"B:1:" + hx(complaintMsg(2)),
			"T",
			"P:1:" + hx(complaintMsg(0)),
		}
		maxLen := 3
		if c.thorough() {
			maxLen = 4
		}
		var seqs [][]int
		var rec func(cur []int)
		rec = func(cur []int) {
			if len(cur) > 0 {
				seqs = append(seqs, append([]int{}, cur...))
			}
			if len(cur) == maxLen {
				return
			}
			for a := range alphabet {
				rec(append(cur, a))
			}
		}
		rec(nil)
		// beyond the full enumeration: the duplicated complaint around both timeouts
		seqs = append(seqs, []int{3, 0, 0, 1}, []int{3, 0, 1, 0}, []int{0, 3, 3, 0}, []int{3, 0, 3, 0}, []int{3, 3, 0, 0}, []int{3, 1, 0, 1, 0})
		seed := "S:" + hx(c.bytes(32))
		for _, sq := range seqs {
			nd, err := newDkgNode(proto, n, t, me, dealer)
			if err != nil {
				panic(err)
			}
			nd.call(seed)
			for _, a := range sq {
				nd.call(alphabet[a])
			}
			nd.call("T")
			nd.call("T")
			nd.call("E")
			c.Case("dealer-histories/"+proto, nd.line(), nd.answer())
		}
	}
}
