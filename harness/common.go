package main

import (
	"fmt"
	"runtime"
	"strings"
	"sync"
	"math/big"

	"github.com/onflow/crypto"
)

var blsR, _ = new(big.Int).SetString("73eda753299d7d483339d80809a1d80553bda402fffe5bfeffffffff00000001", 16)
var blsP, _ = new(big.Int).SetString("1a0111ea397fe69a4b1ba7b6434bacd764774b84f38512bf6730d2a0f6b0f6241eabfffeb153ffffb9feffffffffaaab", 16)

func be(n *big.Int, l int) []byte {
	b := n.Bytes()
	if len(b) > l {
		return b[len(b)-l:]
	}
	out := make([]byte, l)
	copy(out[l-len(b):], b)
	return out
}

// errClass maps an error to the canonical enum of the protocol.
func errClass(err error) string {
	if err != nil {
		if k := blsErrClass(err); k != "" {
			return k
		}
	}
	switch {
	case err == nil:
		return "nil"
	case crypto.IsInvalidInputsError(err):
		return "InvalidInputs"
	case crypto.IsNilHasherError(err):
		return "NilHasher"
	case crypto.IsInvalidHasherSizeError(err):
		return "HasherSize"
	case crypto.IsNotEnoughSharesError(err):
		return "NotEnoughShares"
	case crypto.IsDuplicatedSignerError(err):
		return "DuplicatedSigner"
	case crypto.IsDKGFailureError(err):
		return "DKGFailure"
	case crypto.IsDKGInvalidStateTransitionError(err):
		return "DKGInvalidTransition"
	}
	return "Other"
}


func decPriv(algo crypto.SigningAlgorithm, b []byte) string {
	return guard(func() string {
		buf := cloneOrNil(b)
		sk, err := crypto.DecodePrivateKey(algo, buf)
		wipe(buf) // the input slice is the caller's: a key that kept a reference to it would change now
		if err != nil {
			if crypto.IsInvalidInputsError(err) {
				return "err"
			}
			return "err-other"
		}
		enc := sk.Encode()
		holdKey("DecodePrivateKey", sk, enc)
		// every produced object encodes to bytes that decode back to an Equal object
		sk2, err := crypto.DecodePrivateKey(algo, enc)
		if err != nil || !sk.Equals(sk2) {
			return "ok " + hx(enc) + " roundtrip-fail"
		}
		return "ok " + hx(enc)
	})
}

func decPub(algo crypto.SigningAlgorithm, b []byte) string {
	return guard(func() string {
		buf := cloneOrNil(b)
		pk, err := crypto.DecodePublicKey(algo, buf)
		wipe(buf)
		if err != nil {
			if crypto.IsInvalidInputsError(err) {
				return "err"
			}
			return "err-other"
		}
		enc := pk.Encode()
		holdKey("DecodePublicKey", pk, enc)
		pk2, err := crypto.DecodePublicKey(algo, enc)
		if err != nil || !pk.Equals(pk2) {
			return "ok " + hx(enc) + " roundtrip-fail"
		}
		return "ok " + hx(enc)
	})
}

func decPubCompressed(algo crypto.SigningAlgorithm, b []byte) string {
	return guard(func() string {
		buf := cloneOrNil(b)
		pk, err := crypto.DecodePublicKeyCompressed(algo, buf)
		wipe(buf)
		if err != nil {
			if crypto.IsInvalidInputsError(err) {
				return "err"
			}
			return "err-other"
		}
		enc := pk.EncodeCompressed()
		holdKey("DecodePublicKeyCompressed", pk, pk.Encode())
		pk2, err := crypto.DecodePublicKeyCompressed(algo, enc)
		if err != nil || !pk.Equals(pk2) {
			return "ok " + hx(enc) + " roundtrip-fail"
		}
		return "ok " + hx(enc)
	})
}


func flipBit(b []byte, i int) []byte {
	o := append([]byte{}, b...)
	o[i/8] ^= 1 << (7 - uint(i%8))
	return o
}


// cloneOrNil copies an input the harness hands to the library. The copy sits inside a larger buffer with spare capacity
// (cap > len) and live, non-zero bytes before and after it: a callee that appends to its argument, or writes just past
// it, damages the caller's neighbouring data. The surroundings are compared again when the generator has finished
// ("caller-memory-around-argument-modified").
func cloneOrNil(b []byte) []byte {
	if b == nil {
		return nil
	}
	const pad = 24
	big := make([]byte, pad+len(b)+pad)
	for i := range big {
		big[i] = byte(0xC1 + 7*i)
	}
	copy(big[pad:], b)
	guardMu.Lock()
	if len(guards) < 6000 {
		guards = append(guards, guardRec{big, pad, len(b)})
	}
	guardMu.Unlock()
	return big[pad : pad+len(b)] // cap reaches into the trailing guard
}

type guardRec struct {
	big      []byte
	off, len int
}

var guards []guardRec
var guardMu sync.Mutex

func guardVerdict() string {
	guardMu.Lock()
	defer guardMu.Unlock()
	for _, g := range guards {
		for i := range g.big {
			if i >= g.off && i < g.off+g.len {
				continue
			}
			if g.big[i] != byte(0xC1+7*i) {
				return fmt.Sprintf("caller-memory-around-argument-modified: offset %d relative to an argument of %d bytes", i-g.off, g.len)
			}
		}
	}
	return "ok"
}

func wipe(b []byte) {
	for i := range b {
		b[i] ^= 0xA5
	}
}

// refusals of the decoders on inputs of the documented range (see skFromInt)
var refusals []string
var refusalMu sync.Mutex

func refusalVerdict() string {
	refusalMu.Lock()
	defer refusalMu.Unlock()
	if len(refusals) == 0 {
		return "ok"
	}
	return "private-key-of-the-documented-range-refused: " + strings.Join(refusals, "; ")
}

// stable3 evaluates a verdict three times in a row on one OS thread; the three answers must coincide (state kept
// between calls - a memo of the last input checked, say - shows as a verdict that changes on repetition)
func stable3(f func() string) string {
	return guard(func() string {
		runtime.LockOSThread()
		defer runtime.UnlockOSThread()
		first := f()
		for rep := 1; rep < 3; rep++ {
			if v := f(); v != first {
				return fmt.Sprintf("unstable: %s then %s (evaluation %d)", first, v, rep+1)
			}
		}
		return first
	})
}
