package main

import (
	"fmt"
	"math/big"
	"os"
	"path/filepath"
	"regexp"
	"runtime"
	"sort"
	"strconv"
	"strings"
	"sync"

	"github.com/onflow/crypto"
)

var blsP, _ = new(big.Int).SetString("1a0111ea397fe69a4b1ba7b6434bacd764774b84f38512bf6730d2a0f6b0f6241eabfffeb153ffffb9feffffffffaaab", 16)

func be(n *big.Int, l int) []byte {
	b := n.Bytes()
	if len(b) > l {
		return b[len(b)-l:]
	}
	out := make([]byte, l)
	copy(out[l-len(b):], b)
	return out
}

// errClass maps an error to the canonical enum of the protocol.
func errClass(err error) string {
	if err != nil {
		if k := blsErrClass(err); k != "" {
			return k
		}
	}
	switch {
	case err == nil:
		return "nil"
	case crypto.IsInvalidInputsError(err):
		return "InvalidInputs"
	case crypto.IsNilHasherError(err):
		return "NilHasher"
	case crypto.IsInvalidHasherSizeError(err):
		return "HasherSize"
	case crypto.IsNotEnoughSharesError(err):
		return "NotEnoughShares"
	case crypto.IsDuplicatedSignerError(err):
		return "DuplicatedSigner"
	case crypto.IsDKGFailureError(err):
		return "DKGFailure"
	case crypto.IsDKGInvalidStateTransitionError(err):
		return "DKGInvalidTransition"
	}
	return "Other"
}


func decPriv(algo crypto.SigningAlgorithm, b []byte) string {
	return guard(func() string {
		buf := cloneOrNil(b)
		sk, err := crypto.DecodePrivateKey(algo, buf)
		wipe(buf) // the input slice is the caller's: a key that kept a reference to it would change now
		if err != nil {
			if crypto.IsInvalidInputsError(err) {
				return "err"
			}
			return "err-other"
		}
		enc := sk.Encode()
		holdKey("DecodePrivateKey", sk, enc)
		// every produced object encodes to bytes that decode back to an Equal object
		sk2, err := crypto.DecodePrivateKey(algo, enc)
		if err != nil || !sk.Equals(sk2) {
			return "ok " + hx(enc) + " roundtrip-fail"
		}
		return "ok " + hx(enc)
	})
}

func decPub(algo crypto.SigningAlgorithm, b []byte) string {
	return guard(func() string {
		buf := cloneOrNil(b)
		pk, err := crypto.DecodePublicKey(algo, buf)
		wipe(buf)
		if err != nil {
			if crypto.IsInvalidInputsError(err) {
				return "err"
			}
			return "err-other"
		}
		enc := pk.Encode()
		holdKey("DecodePublicKey", pk, enc)
		pk2, err := crypto.DecodePublicKey(algo, enc)
		if err != nil || !pk.Equals(pk2) {
			return "ok " + hx(enc) + " roundtrip-fail"
		}
		return "ok " + hx(enc)
	})
}

func decPubCompressed(algo crypto.SigningAlgorithm, b []byte) string {
	return guard(func() string {
		buf := cloneOrNil(b)
		pk, err := crypto.DecodePublicKeyCompressed(algo, buf)
		wipe(buf)
		if err != nil {
			if crypto.IsInvalidInputsError(err) {
				return "err"
			}
			return "err-other"
		}
		enc := pk.EncodeCompressed()
		holdKey("DecodePublicKeyCompressed", pk, pk.Encode())
		pk2, err := crypto.DecodePublicKeyCompressed(algo, enc)
		if err != nil || !pk.Equals(pk2) {
			return "ok " + hx(enc) + " roundtrip-fail"
		}
		return "ok " + hx(enc)
	})
}


func flipBit(b []byte, i int) []byte {
	o := append([]byte{}, b...)
	o[i/8] ^= 1 << (7 - uint(i%8))
	return o
}


// cloneOrNil copies an input the harness hands to the library. The copy sits inside a larger buffer with spare capacity
// (cap > len) and live, non-zero bytes before and after it: a callee that appends to its argument, or writes just past
// it, damages the caller's neighbouring data. The surroundings are compared again when the generator has finished
// ("caller-memory-around-argument-modified").
func cloneOrNil(b []byte) []byte {
	if b == nil {
		return nil
	}
	const pad = 200 // room for an appended key, proof or block behind the argument
	big := make([]byte, pad+len(b)+pad)
	for i := range big {
		big[i] = byte(0xC1 + 7*i)
	}
	copy(big[pad:], b)
	guardMu.Lock()
	if len(guards) < 6000 {
		guards = append(guards, guardRec{big, pad, len(b)})
	}
	guardMu.Unlock()
	return big[pad : pad+len(b)] // cap reaches into the trailing guard
}

type guardRec struct {
	big      []byte
	off, len int
}

var guards []guardRec
var guardMu sync.Mutex

func guardVerdict() string {
	guardMu.Lock()
	defer guardMu.Unlock()
	for _, g := range guards {
		for i := range g.big {
			if i >= g.off && i < g.off+g.len {
				continue
			}
			if g.big[i] != byte(0xC1+7*i) {
				return fmt.Sprintf("caller-memory-around-argument-modified: offset %d relative to an argument of %d bytes", i-g.off, g.len)
			}
		}
	}
	return "ok"
}

func wipe(b []byte) {
	for i := range b {
		b[i] ^= 0xA5
	}
}

// refusals of the decoders on inputs of the documented range (see skFromInt)
var refusals []string
var refusalMu sync.Mutex

func refusalVerdict() string {
	refusalMu.Lock()
	defer refusalMu.Unlock()
	if len(refusals) == 0 {
		return "ok"
	}
	return "private-key-of-the-documented-range-refused: " + strings.Join(refusals, "; ")
}

// stable3 evaluates a verdict three times in a row on one OS thread; the three answers must coincide (state kept
// between calls - a memo of the last input checked, say - shows as a verdict that changes on repetition)
func stable3(f func() string) string {
	return guard(func() string {
		runtime.LockOSThread()
		defer runtime.UnlockOSThread()
		first := f()
		for rep := 1; rep < 3; rep++ {
			if v := f(); v != first {
				return fmt.Sprintf("unstable: %s then %s (evaluation %d)", first, v, rep+1)
			}
		}
		return first
	})
}

// sourceConstants harvests the multi-limb constants written in the library's own source (the tree the harness was
// built against, VERIF_REPO_SRC): runs of 64-bit hexadecimal literals taken four and six at a time, in both limb orders,
// and long hexadecimal strings. A comparison against the wrong constant (the Montgomery form of one instead of one,
// a modulus instead of a group order) goes wrong at exactly such a value and nowhere else, so these are inputs no
// random draw finds; they are used as private keys, scalars and coordinates next to the structured ones.
var srcConstOnce sync.Once
var srcConsts []*big.Int

func sourceConstants() []*big.Int {
	srcConstOnce.Do(func() {
		dir := os.Getenv("VERIF_REPO_SRC")
		if dir == "" {
			return
		}
		seen := map[string]bool{}
		add := func(v *big.Int) {
			if v.Sign() == 0 || v.BitLen() < 65 || v.BitLen() > 400 {
				return
			}
			if k := v.Text(16); !seen[k] && len(srcConsts) < 600 {
				seen[k] = true
				srcConsts = append(srcConsts, v)
			}
		}
		limb := regexp.MustCompile(`0x([0-9a-fA-F]{16})\b`)
		long := regexp.MustCompile(`\b[0-9a-fA-F]{48,128}\b`)
		gapOK := regexp.MustCompile(`^[\s,()A-Za-z_]{0,40}$`)
		var files []string
		for _, pat := range []string{"*.c", "*.h", "*.go"} {
			m, _ := filepath.Glob(filepath.Join(dir, pat))
			files = append(files, m...)
		}
		sort.Strings(files)
		for _, f := range files {
			if strings.HasSuffix(f, "_test.go") {
				continue
			}
			raw, err := os.ReadFile(f)
			if err != nil {
				continue
			}
			text := string(raw)
			idx := limb.FindAllStringSubmatchIndex(text, -1)
			var run []uint64
			flush := func() {
				for _, size := range []int{4, 6} {
					for i := 0; i+size <= len(run); i += size {
						le, be := new(big.Int), new(big.Int)
						for j := 0; j < size; j++ {
							le.Or(le, new(big.Int).Lsh(new(big.Int).SetUint64(run[i+j]), uint(64*j)))
							be.Or(be, new(big.Int).Lsh(new(big.Int).SetUint64(run[i+j]), uint(64*(size-1-j))))
						}
						add(le)
						add(be)
					}
				}
				run = run[:0]
			}
			prevEnd := -1
			for _, m := range idx {
				if prevEnd >= 0 && !gapOK.MatchString(text[prevEnd:m[0]]) {
					flush()
				}
				v, _ := strconv.ParseUint(text[m[2]:m[3]], 16, 64)
				run = append(run, v)
				prevEnd = m[1]
			}
			flush()
			for _, h := range long.FindAllString(text, -1) {
				if v, ok := new(big.Int).SetString(h, 16); ok {
					add(v)
				}
			}
		}
	})
	return srcConsts
}

// sourceScalars: the harvested constants as scalars of F_r (reduced, non-zero), with their neighbours
func sourceScalars() []*big.Int {
	var out []*big.Int
	seen := map[string]bool{}
	for _, v := range sourceConstants() {
		for _, d := range []int64{0, -1, 1} {
			k := new(big.Int).Mod(new(big.Int).Add(v, big.NewInt(d)), blsR)
			if k.Sign() != 0 && !seen[k.Text(16)] {
				seen[k.Text(16)] = true
				out = append(out, k)
			}
		}
	}
	return out
}

var blsR, _ = new(big.Int).SetString("73eda753299d7d483339d80809a1d80553bda402fffe5bfeffffffff00000001", 16)

func boolAns(ok bool, err error) string {
	if err != nil {
		return "err " + errClass(err)
	}
	return fmt.Sprint(ok)
}
