//go:build !no_cgo

package main

import (
	"fmt"
	"math/big"
	"strings"

	"github.com/onflow/crypto"
	"github.com/onflow/crypto/hash"
)

type manyEntry struct {
	k   *big.Int
	pk  crypto.PublicKey
	msg []byte
	h   hash.Hasher
}

func manyLine(cand []byte, es []manyEntry) string {
	var sb strings.Builder
	sb.WriteString("bls.many " + hx(cand))
	for _, e := range es {
		sb.WriteString(" 0x" + e.k.Text(16) + " " + hx(hashPoint(e.msg, e.h)))
	}
	return sb.String()
}

func manyVerify(cand []byte, es []manyEntry) string {
	return guard(func() string {
		pks := make([]crypto.PublicKey, len(es))
		msgs := make([][]byte, len(es))
		hs := make([]hash.Hasher, len(es))
		for i, e := range es {
			pks[i], msgs[i], hs[i] = e.pk, e.msg, e.h
		}
		// the verdict is taken three times; before the second time the hasher objects are left with pending input
		// (Write without Reset) and before the third with a finalised state: the hashers are used through ComputeHash,
		// which is specified to ignore the state the object is in
		eval := 0
		return stable3(func() string {
			eval++
			for _, h := range hs {
				if h == nil {
					continue
				}
				switch eval {
				case 2:
					_, _ = h.Write([]byte("pending input, never reset"))
				case 3:
					_, _ = h.Write([]byte("x"))
					_ = h.SumHash()
				}
			}
			return boolAns(crypto.VerifyBLSSignatureManyMessages(pks, cand, msgs, hs))
		})
	})
}

// pathOf recomputes which C function the shape selects: "msg" (per distinct message) or "key".
func pathOf(es []manyEntry) string {
	hm := map[string]bool{}
	km := map[string]bool{}
	for _, e := range es {
		hm[string(e.h.ComputeHash(e.msg))] = true
		km[fmt.Sprintf("%p", e.pk)+string(e.pk.Encode())] = true
	}
	// distinct key *objects* holding the same affine point collide in the Go map (keyed by the point limbs)
	kp := map[string]bool{}
	for _, e := range es {
		kp[string(e.pk.Encode())] = true
	}
	if len(hm) < len(kp) {
		return "msg"
	} else if len(hm) == len(kp) {
		return "tie"
	}
	return "key"
}

func genC02(c *Ctx) {
	nShapes := 52
	maxN := 12
	if c.thorough() {
		nShapes, maxN = 900, 40
	}
	tags := []string{"t0", "t1"}
	hashers := []hash.Hasher{crypto.NewExpandMsgXOFKMAC128(tags[0]), crypto.NewExpandMsgXOFKMAC128(tags[1])}
	paths := map[string]int{}
	for it := 0; it < nShapes; it++ {
		n := 1 + c.intn(maxN)
		// long lists around the sizes a chunked or windowed implementation would use, in both groupings
		bigNs := []int{65, 129, 130, 257}
		isBig := it >= nShapes-len(bigNs)
		if isBig {
			n = bigNs[it-(nShapes-len(bigNs))]
		}
		nk, nm := 1+c.intn(n), 1+c.intn(n)
		shape := it % 7
		if isBig {
			shape = 2 + it%2
		}
		// the first iterations walk a fixed list of small shapes (n, distinct keys, distinct messages) so that the
		// corner shapes (one message under several keys, one key under several messages, exact ties) are there for every
		// seed; the others are drawn
		fixed := [][3]int{{2, 2, 1}, {3, 3, 1}, {4, 2, 1}, {2, 1, 2}, {3, 1, 3}, {4, 1, 2}, {2, 2, 2}, {4, 2, 2}, {3, 2, 1}, {3, 1, 2}, {1, 1, 1}, {5, 5, 1}}
		if it < len(fixed) && !isBig {
			n, nk, nm = fixed[it][0], fixed[it][1], fixed[it][2]
			shape = -1
		}
		switch shape {
		case 0:
			nk, nm = n, n // all distinct
		case 1:
			nk, nm = 1, 1 // all equal
		case 2:
			nk, nm = n, 1+c.intn(2) // few messages, many keys
		case 3:
			nk, nm = 1+c.intn(2), n // few keys, many messages
		case 4:
			nk = nm // tie
		}
		ks := make([]*big.Int, nk)
		for i := range ks {
			ks[i] = c.randScalar()
			if i > 0 && c.intn(5) == 0 {
				ks[i] = new(big.Int).Sub(blsR, ks[i-1]) // a key and its negation
			}
		}
		msgs := make([][]byte, nm)
		for i := range msgs {
			msgs[i] = c.bytes(1 + c.intn(40))
		}
		if it%3 == 1 && nm >= 2 {
			// the messages as windows of ONE buffer: nested prefixes (same first byte, other lengths), a common suffix
			// window, adjacent windows - a message is its bytes, wherever the caller keeps them
			buf := c.bytes(40 + 7*nm)
			for i := range msgs {
				switch i % 3 {
				case 0:
					msgs[i] = buf[:10+5*i]
				case 1:
					msgs[i] = buf[:11+5*i : 11+5*i]
				case 2:
					msgs[i] = buf[3 : 9+5*i]
				}
			}
		}
		es := make([]manyEntry, n)
		for i := range es {
			k := ks[c.intn(nk)]
			if i < nk {
				k = ks[i]
			}
			m := msgs[c.intn(nm)]
			if i < nm {
				m = msgs[i]
			}
			var pk crypto.PublicKey
			switch c.intn(3) {
			case 0:
				pk = skFromInt(k).PublicKey()
			case 1: // equal point held in a distinct, decoded object
				pk, _ = crypto.DecodePublicKey(crypto.BLSBLS12381, skFromInt(k).PublicKey().Encode())
			case 2: // the same point possibly in non-affine coordinates: result of a removal
				extra := c.randScalar()
				agg, _ := crypto.AggregateBLSPublicKeys([]crypto.PublicKey{skFromInt(k).PublicKey(), skFromInt(extra).PublicKey()})
				pk, _ = crypto.RemoveBLSPublicKeys(agg, []crypto.PublicKey{skFromInt(extra).PublicKey()})
			}
			es[i] = manyEntry{k, pk, m, hashers[c.intn(2)]}
		}
		if shape == 5 && n >= 2 { // duplicated (key, message) pair
			es[n-1] = es[0]
		}
		if shape == 6 && n >= 2 { // pk and -pk on one message
			es[1] = manyEntry{new(big.Int).Sub(blsR, es[0].k), skFromInt(new(big.Int).Sub(blsR, es[0].k)).PublicKey(), es[0].msg, es[0].h}
		}
		// honest aggregate
		sigs := make([]crypto.Signature, n)
		for i, e := range es {
			sigs[i], _ = skFromInt(e.k).Sign(e.msg, e.h)
		}
		agg, err := crypto.AggregateBLSSignatures(sigs)
		if err != nil {
			panic(err)
		}
		p := pathOf(es)
		paths[p]++
		c.Case("honest/"+p, manyLine(agg, es), manyVerify(agg, es))
		// permuted triples
		perm := c.rng.Perm(n)
		pes := make([]manyEntry, n)
		for i, j := range perm {
			pes[i] = es[j]
		}
		c.Case("permuted/"+p, manyLine(agg, pes), manyVerify(agg, pes))
		// one share missing / doubled
		if n >= 2 {
			missing, _ := crypto.AggregateBLSSignatures(sigs[1:])
			c.Case("share-missing/"+p, manyLine(missing, es), manyVerify(missing, es))
		}
		doubled, _ := crypto.AggregateBLSSignatures(append(append([]crypto.Signature{}, sigs...), sigs[0]))
		c.Case("share-doubled/"+p, manyLine(doubled, es), manyVerify(doubled, es))
		// candidate outside G1, malformed, wrong length, identity
		t := askBytes(fmt.Sprintf("e1 torsion %d", []int{0, 1, 2, 100, 101, 102}[it%6]))
		bad := askBytes("e1 add " + hx(agg) + " " + hx(t))
		c.Case("plus-torsion/"+p, manyLine(bad, es), manyVerify(bad, es))
		fb := flipBit(agg, c.intn(384))
		c.Case("bitflip/"+p, manyLine(fb, es), manyVerify(fb, es))
		c.Case("wrong-length/"+p, manyLine(agg[:47], es), manyVerify(agg[:47], es))
		// one identity key at a position, signature = honest aggregate of the other entries
		pos := c.intn(n)
		ies := append([]manyEntry{}, es...)
		ies[pos] = manyEntry{big.NewInt(0), pickIdentity(c, it), es[pos].msg, es[pos].h}
		var others []crypto.Signature
		for i := range sigs {
			if i != pos {
				others = append(others, sigs[i])
			}
		}
		cand := make([]byte, 48)
		cand[0] = 0xc0
		if len(others) > 0 {
			cand, _ = crypto.AggregateBLSSignatures(others)
		}
		c.Case("identity-key-inside/"+p, manyLine(cand, ies), manyVerify(cand, ies))
		// VerifyBLSSignatureOneMessage = Verify under the sum of the keys (same message, same hasher)
		oneMsg, oneH := es[0].msg, es[0].h
		sum := new(big.Int)
		pks := make([]crypto.PublicKey, n)
		osigs := make([]crypto.Signature, n)
		for i, e := range es {
			sum.Add(sum, e.k)
			pks[i] = e.pk
			osigs[i], _ = skFromInt(e.k).Sign(oneMsg, oneH)
		}
		sum.Mod(sum, blsR)
		oagg, _ := crypto.AggregateBLSSignatures(osigs)
		hp := hashPoint(oneMsg, oneH)
		c.Case("one-message", fmt.Sprintf("bls.verify 0x%s %s %s", sum.Text(16), hx(hp), hx(oagg)), guard(func() string { return boolAns(crypto.VerifyBLSSignatureOneMessage(pks, oagg, oneMsg, oneH)) }))
		c.Case("one-message-bad", fmt.Sprintf("bls.verify 0x%s %s %s", sum.Text(16), hx(hp), hx(fb)), guard(func() string { return boolAns(crypto.VerifyBLSSignatureOneMessage(pks, fb, oneMsg, oneH)) }))
	}
	c.extra["paths"] = paths
	// typed errors, in the documented order
	k := skFromInt(big.NewInt(5))
	pk := k.PublicKey()
	h := hashers[0]
	sig, _ := k.Sign([]byte("m"), h)
	ec := ecSk(ecCurves[0], big.NewInt(5)).PublicKey()
	short := &fixedHasher{out: make([]byte, 64), size: 64}
	c.Case("errors", "expect false EmptyList InvalidInputs InvalidInputs NilHasher HasherSize NotBLSKey EmptyList NotBLSKey #", guard(func() string {
		b0, e0 := crypto.VerifyBLSSignatureManyMessages(nil, sig[:10], nil, nil) // wrong length first: (false, nil)
		_, e1 := crypto.VerifyBLSSignatureManyMessages(nil, sig, nil, nil)
		_, e2 := crypto.VerifyBLSSignatureManyMessages([]crypto.PublicKey{pk}, sig, [][]byte{{1}, {2}}, []hash.Hasher{h, h})
		_, e3 := crypto.VerifyBLSSignatureManyMessages([]crypto.PublicKey{pk}, sig, [][]byte{{1}}, []hash.Hasher{h, h})
		_, e4 := crypto.VerifyBLSSignatureManyMessages([]crypto.PublicKey{pk}, sig, [][]byte{{1}}, []hash.Hasher{nil})
		_, e5 := crypto.VerifyBLSSignatureManyMessages([]crypto.PublicKey{pk}, sig, [][]byte{{1}}, []hash.Hasher{short})
		_, e6 := crypto.VerifyBLSSignatureManyMessages([]crypto.PublicKey{ec}, sig, [][]byte{{1}}, []hash.Hasher{h})
		_, e7 := crypto.VerifyBLSSignatureOneMessage(nil, sig, []byte{1}, h)
		_, e8 := crypto.VerifyBLSSignatureOneMessage([]crypto.PublicKey{ec}, sig, []byte{1}, h)
		r0 := fmt.Sprint(b0)
		if e0 != nil {
			r0 = "err"
		}
		return strings.Join([]string{r0, errClass(e1), errClass(e2), errClass(e3), errClass(e4), errClass(e5), errClass(e6), errClass(e7), errClass(e8)}, " ")
	}))
	genManyMessagesCancelling(c, "C02")
}

// genManyMessagesCancelling: aggregate verification with 9 to 20 distinct messages and more distinct keys than messages
// (the per-message path, several batches of pairings), where the keys listed for one to six of the messages cancel
// (pk and -pk on one message: that message's aggregated key is the point at infinity and its pairing is skipped). Which
// position the skipped pairing takes depends on map order, so every shape is verified many times. The honest
// aggregate must verify; with one share missing it must not.
func genManyMessagesCancelling(c *Ctx, prop string) {
	h := crypto.NewExpandMsgXOFKMAC128("cancelling")
	for _, nm := range []int{9, 10, 16, 17, 20} {
		for _, ncancel := range []int{1, 2, 6} {
			var es []manyEntry
			var sigs []crypto.Signature
			for m := 0; m < nm; m++ {
				msg := []byte(fmt.Sprintf("message %d of %d", m, nm))
				k := c.randScalar()
				ks := []*big.Int{k, c.randScalar()}
				if m < ncancel {
					ks = []*big.Int{k, new(big.Int).Sub(blsR, k)} // the two keys of this message cancel
				}
				for _, kk := range ks {
					sk := skFromInt(kk)
					sg, _ := sk.Sign(msg, h)
					es = append(es, manyEntry{kk, sk.PublicKey(), msg, h})
					sigs = append(sigs, sg)
				}
			}
			agg, _ := crypto.AggregateBLSSignatures(sigs)
			short, _ := crypto.AggregateBLSSignatures(sigs[:len(sigs)-1])
			pks := make([]crypto.PublicKey, len(es))
			msgs := make([][]byte, len(es))
			hs := make([]hash.Hasher, len(es))
			for i, e := range es {
				pks[i], msgs[i], hs[i] = e.pk, e.msg, e.h
			}
			verdict := guard(func() string {
				for rep := 0; rep < 24; rep++ {
					if ok, err := crypto.VerifyBLSSignatureManyMessages(pks, agg, msgs, hs); err != nil || !ok {
						return fmt.Sprintf("honest-aggregate-rejected repetition %d", rep)
					}
					if ok, _ := crypto.VerifyBLSSignatureManyMessages(pks, short, msgs, hs); ok {
						return fmt.Sprintf("aggregate-with-a-share-missing-accepted repetition %d", rep)
					}
				}
				return "ok"
			})
			c.Case("many-messages-cancelling-keys", fmt.Sprintf("expect ok #%s %d messages %d cancelling", prop, nm, ncancel), verdict)
		}
	}
}
