module verif/harness

go 1.26.0

require github.com/onflow/crypto v0.0.0

require (
	github.com/davecgh/go-spew v1.1.1 // indirect
	github.com/pmezard/go-difflib v1.0.0 // indirect
	github.com/stretchr/testify v1.10.0 // indirect
	golang.org/x/crypto v0.36.0 // indirect
	gonum.org/v1/gonum v0.16.0 // indirect
	gopkg.in/yaml.v3 v3.0.1 // indirect
)

replace github.com/onflow/crypto => /repo
