//go:build !no_cgo

package main

import (
	"runtime"
	"fmt"
	"math/big"
	"strings"
	"sync"
	"sync/atomic"

	"github.com/onflow/crypto"
)

func init() {
	generators["C06"] = genC06
	generators["C18"] = genC18
}

type thSetup struct {
	n, t   int
	seed   []byte
	sks    []crypto.PrivateKey
	pks    []crypto.PublicKey
	group  crypto.PublicKey
	msg    []byte
	tag    string
	hpoint []byte
	shares []crypto.Signature
}

func newThSetup(c *Ctx, n, t int) *thSetup {
	s := &thSetup{n: n, t: t, seed: c.bytes(32 + c.intn(20)), msg: c.bytes(c.intn(50)), tag: "threshold-" + fmt.Sprint(c.intn(3))}
	var err error
	s.sks, s.pks, s.group, err = crypto.BLSThresholdKeyGen(n, t, s.seed)
	if err != nil {
		panic(err)
	}
	h := crypto.NewExpandMsgXOFKMAC128(s.tag)
	s.hpoint = hashPoint(s.msg, h)
	for _, sk := range s.sks {
		sh, _ := sk.Sign(s.msg, h)
		s.shares = append(s.shares, sh)
	}
	return s
}

func (s *thSetup) envLine() string {
	return fmt.Sprintf("%d %d %s %s", s.n, s.t, hx(s.seed), hx(s.hpoint))
}

// badShare builds an invalid share of a given kind for signer i.
func (s *thSetup) badShare(c *Ctx, i int, kind string) []byte {
	switch kind {
	case "other-signer":
		return s.shares[(i+1)%s.n]
	case "random-g1":
		return askBytes("e1 mul 0x" + c.randScalar().Text(16) + " " + hx(s.hpoint))
	case "non-g1":
		return askBytes("e1 add " + hx(s.shares[i]) + " " + hx(askBytes("e1 torsion 1")))
	case "malformed":
		return crypto.BLSInvalidSignature()
	case "short":
		return s.shares[i][:47]
	case "long":
		return append(append([]byte{}, s.shares[i]...), 0)
	case "empty":
		return []byte{}
	case "bitflip":
		return flipBit(s.shares[i], c.intn(384))
	}
	return s.shares[i]
}

var badKinds = []string{"other-signer", "random-g1", "non-g1", "malformed", "short", "long", "empty", "bitflip"}

func recAns(n, t int, shares []crypto.Signature, signers []int) string {
	return guard(func() string {
		s, err := crypto.BLSReconstructThresholdSignature(n, t, shares, signers)
		if err != nil {
			return "err " + errClass(err)
		}
		return "ok " + hx(hold("BLSReconstructThresholdSignature", s))
	})
}

func recLine(n, t int, shares []crypto.Signature, signers []int) string {
	var sb strings.Builder
	fmt.Fprintf(&sb, "th.rec %d %d", n, t)
	for i := range shares {
		fmt.Fprintf(&sb, " %d:%s", signers[i], hx(shares[i]))
	}
	return sb.String()
}

func genC06(c *Ctx) {
	// ---- key generation
	cfgs := [][2]int{{2, 1}, {3, 1}, {3, 2}, {5, 2}, {7, 3}, {10, 9}, {40, 13}}
	if c.thorough() {
		cfgs = append(cfgs, [2]int{254, 1}, [2]int{254, 253}, [2]int{100, 50})
	}
	for _, nt := range cfgs {
		s := newThSetup(c, nt[0], nt[1])
		var xs, ys []string
		for i := range s.sks {
			xs = append(xs, hx(s.sks[i].Encode()))
			ys = append(ys, hx(s.pks[i].Encode()))
		}
		c.Case("keygen", fmt.Sprintf("th.keygen %d %d %s", s.n, s.t, hx(s.seed)), "ok "+strings.Join(xs, ",")+" "+strings.Join(ys, ",")+" "+hx(s.group.Encode()))
	}
	for _, g := range [][3]int{{1, 1, 32}, {255, 1, 32}, {3, 0, 32}, {3, 3, 32}, {3, 1, 31}, {3, 1, 0}, {0, 0, 32}, {-1, 1, 32}} {
		seed := c.bytes(g[2])
		ans := guard(func() string {
			_, _, _, err := crypto.BLSThresholdKeyGen(g[0], g[1], seed)
			if err != nil {
				if crypto.IsInvalidInputsError(err) {
					return "err"
				}
				return "err-other"
			}
			return "ok"
		})
		c.Case("keygen-guards", fmt.Sprintf("th.keygen %d %d %s", g[0], g[1], hx(seed)), ans)
	}
	// ---- stateless reconstruction: every subset of size t+1 for small n, random orders
	small := [][2]int{{3, 1}, {4, 2}, {5, 2}, {6, 3}}
	if c.thorough() {
		small = append(small, [2]int{7, 3}, [2]int{7, 5})
	}
	for _, nt := range small {
		s := newThSetup(c, nt[0], nt[1])
		c.Case("group-signature", "th.groupsig "+s.envLine(), recAns(s.n, s.t, s.shares[:s.t+1], seq(0, s.t+1)))
		for mask := 0; mask < 1<<s.n; mask++ {
			var idx []int
			for i := 0; i < s.n; i++ {
				if mask>>i&1 == 1 {
					idx = append(idx, i)
				}
			}
			if len(idx) < s.t || len(idx) > s.t+2 {
				continue
			}
			c.rng.Shuffle(len(idx), func(a, b int) { idx[a], idx[b] = idx[b], idx[a] })
			sh := make([]crypto.Signature, len(idx))
			for k, i := range idx {
				sh[k] = s.shares[i]
			}
			ans := recAns(s.n, s.t, sh, idx)
			c.Case(fmt.Sprintf("reconstruct-subsets/size-t%+d", len(idx)-s.t), recLine(s.n, s.t, sh, idx), ans)
			if len(idx) > s.t {
				// the same bytes for every subset: the group signature
				c.Case("reconstruct-is-group-signature", "th.groupsig "+s.envLine(), ans)
			}
		}
		// an invalid share of each kind at each position
		for pos := 0; pos <= s.t; pos++ {
			for _, kind := range badKinds {
				idx := c.rng.Perm(s.n)[:s.t+1]
				sh := make([]crypto.Signature, len(idx))
				for k, i := range idx {
					sh[k] = s.shares[i]
				}
				sh[pos] = s.badShare(c, idx[pos], kind)
				c.Case("reconstruct-bad-share/"+kind, recLine(s.n, s.t, sh, idx), recAns(s.n, s.t, sh, idx))
			}
		}
		// duplicate and out-of-range signers; extra (unused) shares that are malformed
		idx := seq(0, s.t+1)
		sh := append([]crypto.Signature{}, s.shares[:s.t+1]...)
		for _, bad := range []int{-1, s.n, 255, 256, 1000} {
			i2 := append([]int{}, idx...)
			i2[c.intn(len(i2))] = bad
			c.Case("reconstruct-signer-range", recLine(s.n, s.t, sh, i2), recAns(s.n, s.t, sh, i2))
		}
		i3 := append([]int{}, idx...)
		i3[s.t] = i3[0]
		c.Case("reconstruct-duplicate", recLine(s.n, s.t, sh, i3), recAns(s.n, s.t, sh, i3))
		if s.t+2 <= s.n {
			sh4 := append(append([]crypto.Signature{}, sh...), crypto.Signature(s.shares[s.t+1][:20]))
			i4 := append(append([]int{}, idx...), s.t+1)
			c.Case("reconstruct-extra-malformed", recLine(s.n, s.t, sh4, i4), recAns(s.n, s.t, sh4, i4))
			// more than t+1 entries with a repeated signer among the extra ones: the extra entry repeats an earlier signer
			// (first, last of the t+1), or two extra entries repeat each other; out-of-range signer among the extras
			ext := func(class string, extra ...int) {
				shx, ix := append([]crypto.Signature{}, sh...), append([]int{}, idx...)
				for _, e := range extra {
					k := e
					if k < 0 || k >= s.n {
						k = 0
					}
					shx, ix = append(shx, s.shares[k]), append(ix, e)
				}
				c.Case(class, recLine(s.n, s.t, shx, ix), recAns(s.n, s.t, shx, ix))
			}
			ext("reconstruct-extra-duplicate", idx[0])
			ext("reconstruct-extra-duplicate", idx[s.t])
			ext("reconstruct-extra-duplicate", s.t+1, idx[1%len(idx)])
			ext("reconstruct-extra-duplicate", s.t+1, s.t+1)
			ext("reconstruct-extra-valid", s.t+1)
			ext("reconstruct-extra-range", s.n)
			ext("reconstruct-extra-range", s.t+1, -1)
		}
	}
	// ---- large indices: batches of 8 indices per limb, sign tracking
	{
		s := newThSetup(c, 254, 9)
		sets := [][]int{seq(0, 10), seq(244, 254), {253, 0, 252, 1, 251, 2, 250, 3, 249, 4}, {7, 8, 9, 15, 16, 17, 23, 24, 25, 253}, seq(100, 110)}
		if c.thorough() {
			for k := 0; k < 40; k++ {
				sets = append(sets, c.rng.Perm(254)[:10])
			}
		}
		for _, idx := range sets {
			sh := make([]crypto.Signature, len(idx))
			for k, i := range idx {
				sh[k] = s.shares[i]
			}
			ans := recAns(s.n, s.t, sh, idx)
			c.Case("reconstruct-large-indices", recLine(s.n, s.t, sh, idx), ans)
			c.Case("reconstruct-large-is-group-signature", "th.groupsig "+s.envLine(), ans)
		}
	}
	// ---- many signers with large indices: products of 17, 24, 33 and more indices around 250 (a wide accumulator that
	// takes one index too many per batch wraps only there), highest indices first, lowest first, interleaved
	for _, t := range []int{17, 23, 33, 40} {
		s := newThSetup(c, 254, t)
		desc := make([]int, t+1)
		asc := make([]int, t+1)
		mixd := make([]int, t+1)
		for k := range desc {
			desc[k] = 253 - k
			asc[k] = 253 - t + k
			if k%2 == 0 {
				mixd[k] = 253 - k/2
			} else {
				mixd[k] = 200 + k/2
			}
		}
		for _, idx := range [][]int{desc, asc, mixd} {
			sh := make([]crypto.Signature, len(idx))
			for k, i := range idx {
				sh[k] = s.shares[i]
			}
			ans := recAns(s.n, s.t, sh, idx)
			c.Case("reconstruct-many-large-indices", recLine(s.n, s.t, sh, idx), ans)
			c.Case("reconstruct-many-large-is-group-signature", "th.groupsig "+s.envLine(), ans)
		}
	}
	// ---- consecutive reconstructions on one OS thread: signer lists that share a tail, a head, the set (other order),
	// or only the length with the list before; each answer is compared with the model, so anything kept from one
	// call to the next (coefficients, a table of inverses) shows as soon as the lists differ where the memory does not look
	for _, nt := range [][2]int{{14, 8}, {20, 9}, {30, 12}, {40, 17}, {6, 2}} {
		s := newThSetup(c, nt[0], nt[1])
		k := s.t + 1
		base := c.rng.Perm(s.n)
		a := append([]int{}, base[:k]...)
		lists := [][]int{a}
		// same tail, other head (one, two, all-but-8 positions)
		for _, h := range []int{1, 2, k - 8} {
			if h < 1 || h >= k {
				continue
			}
			b := append([]int{}, a...)
			for j := 0; j < h && k+j < s.n; j++ {
				b[j] = base[k+j]
			}
			lists = append(lists, b, a)
		}
		// same head, other tail
		b := append([]int{}, a...)
		b[k-1] = base[k]
		lists = append(lists, b, a)
		// same set, rotated and reversed
		rot := append(append([]int{}, a[1:]...), a[0])
		rev := make([]int, k)
		for j := range a {
			rev[j] = a[k-1-j]
		}
		lists = append(lists, rot, rev, a)
		// a refused call in between (duplicate signer), then the list again
		dup := append([]int{}, a...)
		dup[k-1] = dup[0]
		lists = append(lists, dup, a, b)
		var lines, answers []string
		func() {
			runtime.LockOSThread()
			defer runtime.UnlockOSThread()
			for _, idx := range lists {
				sh := make([]crypto.Signature, len(idx))
				for j, i := range idx {
					sh[j] = s.shares[i]
				}
				lines = append(lines, recLine(s.n, s.t, sh, idx))
				answers = append(answers, recAns(s.n, s.t, sh, idx))
			}
		}()
		for j := range lines {
			c.Case("reconstruct-history", lines[j], answers[j])
		}
	}
	// ---- the stateful object, sequential op sequences
	nSeq := 60
	if c.thorough() {
		nSeq = 1500
	}
	for it := 0; it < nSeq; it++ {
		nt := [][2]int{{3, 1}, {4, 2}, {5, 2}, {5, 4}}[it%4]
		s := newThSetup(c, nt[0], nt[1])
		ops := randomThOps(c, s, 4+c.intn(10))
		c.Case("object-sequence", "th.obj "+s.envLine()+" "+strings.Join(ops, " "), runThOps(s, ops))
	}
	// targeted: an invalid share of each kind injected through TrustedAdd at each slot, then repeated ThresholdSignature calls
	for _, nt := range [][2]int{{3, 1}, {5, 2}} {
		for _, kind := range badKinds {
			for slot := 0; slot <= nt[1]; slot++ {
				s := newThSetup(c, nt[0], nt[1])
				var ops []string
				for i := 0; i <= s.t; i++ {
					sh := s.shares[i]
					if i == slot {
						sh = s.badShare(c, i, kind)
					}
					ops = append(ops, fmt.Sprintf("T:%d:%s", i, hx(sh)))
				}
				ops = append(ops, "E", "S", "S", fmt.Sprintf("V:%d:%s", s.n-1, hx(s.shares[s.n-1])), "S", "E", fmt.Sprintf("H:%d", slot))
				c.Case("object-bad-trusted-add/"+kind, "th.obj "+s.envLine()+" "+strings.Join(ops, " "), runThOps(s, ops))
			}
		}
	}
	// call histories stated as the property's own predicate (no model of aliasing needed): whatever the history,
	// a value returned by ThresholdSignature as (sig, nil) verifies under the group key the object was built with.
	//  (a) every share enters through VerifyAndAdd, then the caller overwrites a buffer it had passed in;
	//  (b) the object is built with a group key that is not the one the key shares interpolate to;
	//  (c) pools filled by VerifyAndAdd only / TrustedAdd only / mixed, valid shares, repeated calls.
	sigOK := func(s *thSetup, group crypto.PublicKey, insp crypto.ThresholdSignatureInspector) string {
		return guard(func() string {
			out := ""
			for rep := 0; rep < 2; rep++ {
				sg, err := insp.ThresholdSignature()
				if err != nil {
					out += " err"
					continue
				}
				ok, _ := group.Verify(sg, s.msg, crypto.NewExpandMsgXOFKMAC128(s.tag))
				ok2, _ := insp.VerifyThresholdSignature(sg)
				if !ok || !ok2 {
					return "returned-signature-invalid-under-group-key"
				}
				out += " valid"
			}
			return "ok"
		})
	}
	for hi, nt := range [][2]int{{3, 1}, {4, 2}, {5, 2}, {7, 3}} {
		for mode := 0; mode < 3; mode++ { // 0: VerifyAndAdd only, 1: TrustedAdd only, 2: mixed
			for victim := 0; victim <= nt[1]; victim++ {
				s := newThSetup(c, nt[0], nt[1])
				insp, err := crypto.NewBLSThresholdSignatureInspector(s.group, s.pks, s.t, s.msg, s.tag)
				if err != nil {
					panic(err)
				}
				bufs := make([][]byte, s.t+1)
				for i := 0; i <= s.t; i++ {
					bufs[i] = append([]byte{}, s.shares[i]...)
					if mode == 0 || (mode == 2 && i%2 == 0) {
						insp.VerifyAndAdd(i, bufs[i])
					} else {
						insp.TrustedAdd(i, bufs[i])
					}
				}
				// the caller re-uses the buffer of one share it had already handed over
				switch (hi + victim) % 3 {
				case 0:
					copy(bufs[victim], s.shares[(victim+1)%s.n])
				case 1:
					copy(bufs[victim], askBytes("e1 mul 0x"+c.randScalar().Text(16)+" "+hx(s.hpoint)))
				case 2:
					bufs[victim][20] ^= 4
				}
				c.Case(fmt.Sprintf("object-history/buffer-overwritten/mode%d", mode), "expect ok #", sigOK(s, s.group, insp))
			}
			// a group key that does not match the key shares
			s := newThSetup(c, nt[0], nt[1])
			other := skFromInt(c.randScalar()).PublicKey()
			insp, err := crypto.NewBLSThresholdSignatureInspector(other, s.pks, s.t, s.msg, s.tag)
			if err == nil {
				for i := 0; i <= s.t; i++ {
					if mode == 0 || (mode == 2 && i%2 == 0) {
						insp.VerifyAndAdd(i, s.shares[i])
					} else {
						insp.TrustedAdd(i, s.shares[i])
					}
				}
				c.Case(fmt.Sprintf("object-history/foreign-group-key/mode%d", mode), "expect ok #", sigOK(s, other, insp))
			}
		}
	}
	// (d) more than t+1 valid shares offered at the same time by several goroutines: whatever the interleaving, the
	// object ends with enough shares and hands out the group signature (a pool that can grow past t+1, or lose
	// shares, never recovers)
	nConc := 10
	if c.thorough() {
		nConc = 200
	}
	for it := 0; it < nConc; it++ {
		nt := [][2]int{{4, 1}, {5, 2}, {7, 3}, {9, 2}}[it%4]
		s := newThSetup(c, nt[0], nt[1])
		c.Case("object-history/concurrent-valid-adds", "expect ok #", guard(func() string {
			insp, err := crypto.NewBLSThresholdSignatureInspector(s.group, s.pks, s.t, s.msg, s.tag)
			if err != nil {
				return "err"
			}
			start := make(chan struct{})
			var wg sync.WaitGroup
			for i := 0; i < s.n; i++ {
				wg.Add(1)
				go func(i int) {
					defer wg.Done()
					<-start
					if i%2 == 0 {
						insp.VerifyAndAdd(i, s.shares[i])
					} else {
						insp.TrustedAdd(i, s.shares[i])
					}
				}(i)
			}
			close(start)
			wg.Wait()
			if !insp.EnoughShares() {
				return "not-enough-shares-after-all-were-offered"
			}
			if _, err := insp.ThresholdSignature(); err != nil {
				return "threshold-signature-fails-with-enough-valid-shares"
			}
			return sigOK(s, s.group, insp)
		}))
	}
	// constructor guards
	s := newThSetup(c, 3, 1)
	ec := ecSk(ecCurves[0], big.NewInt(3))
	c.Case("object-constructor", "expect InvalidInputs InvalidInputs InvalidInputs NotBLSKey NotBLSKey InvalidInputs NotBLSKey InvalidInputs #", guard(func() string {
		_, e1 := crypto.NewBLSThresholdSignatureInspector(s.group, s.pks[:1], 1, s.msg, s.tag)
		_, e2 := crypto.NewBLSThresholdSignatureInspector(s.group, s.pks, 0, s.msg, s.tag)
		_, e3 := crypto.NewBLSThresholdSignatureInspector(s.group, s.pks, 3, s.msg, s.tag)
		_, e4 := crypto.NewBLSThresholdSignatureInspector(ec.PublicKey(), s.pks, 1, s.msg, s.tag)
		_, e5 := crypto.NewBLSThresholdSignatureInspector(s.group, []crypto.PublicKey{s.pks[0], ec.PublicKey()}, 1, s.msg, s.tag)
		_, e6 := crypto.NewBLSThresholdSignatureParticipant(s.group, s.pks, 1, 3, s.sks[0], s.msg, s.tag)
		_, e7 := crypto.NewBLSThresholdSignatureParticipant(s.group, s.pks, 1, 0, ec, s.msg, s.tag)
		_, e8 := crypto.NewBLSThresholdSignatureParticipant(s.group, s.pks, 1, 0, s.sks[1], s.msg, s.tag)
		return strings.Join([]string{errClass(e1), errClass(e2), errClass(e3), errClass(e4), errClass(e5), errClass(e6), errClass(e7), errClass(e8)}, " ")
	}))
	c.Case("enough-shares-helper", "expect InvalidInputs false true true #", guard(func() string {
		_, e1 := crypto.EnoughShares(0, 5)
		b2, _ := crypto.EnoughShares(3, 3)
		b3, _ := crypto.EnoughShares(3, 4)
		b4, _ := crypto.EnoughShares(1, 100)
		return fmt.Sprint(errClass(e1), " ", b2, " ", b3, " ", b4)
	}))
	// ---- distinct signers a power of two apart (8, 16, 32, 64, 128) in groups beyond 64 and 128 participants: a
	// duplicate test on a bitmap or on a truncated / hashed index confuses i and i+2^k only there; the pair is placed
	// first, last and in the middle of the list, in both orders, inside each block of 64 and of 128 indices
	for _, nt := range [][2]int{{70, 2}, {140, 3}, {254, 5}} {
		s := newThSetup(c, nt[0], nt[1])
		for _, d := range []int{8, 16, 32, 64, 128} {
			for _, a := range []int{0, 3, 63, 64, 67, 120, 125, 128, 131, 189} {
				if a+d >= s.n {
					continue
				}
				var rest []int
				for x := 10; len(rest) < s.t-1; x += 13 {
					if x%s.n != a && x%s.n != a+d && (x+1)%s.n != a && (x+1)%s.n != a+d {
						rest = append(rest, (x+a%2)%s.n)
					}
				}
				for v, idx := range [][]int{append([]int{a, a + d}, rest...), append(append([]int{}, rest...), a+d, a), append([]int{a + d}, append(append([]int{}, rest...), a)...)} {
					if v > 0 && d != 64 && d != 128 {
						continue
					}
					sh := make([]crypto.Signature, len(idx))
					for k, i := range idx {
						sh[k] = s.shares[i]
					}
					ans := recAns(s.n, s.t, sh, idx)
					c.Case("reconstruct-signers-power-of-two-apart", recLine(s.n, s.t, sh, idx), ans)
					c.Case("reconstruct-power-of-two-apart-is-group-signature", "th.groupsig "+s.envLine(), ans)
				}
			}
		}
	}
	genTrustedThenVerify(c)
}

func seq(a, b int) []int {
	var l []int
	for i := a; i < b; i++ {
		l = append(l, i)
	}
	return l
}

// randomThOps builds protocol op tokens for the stateful object.
func randomThOps(c *Ctx, s *thSetup, n int) []string {
	var ops []string
	for k := 0; k < n; k++ {
		i := c.intn(s.n+2) - 1 // -1 .. n
		share := []byte{}
		if i >= 0 && i < s.n {
			share = s.shares[i]
			if c.intn(4) == 0 {
				share = s.badShare(c, i, badKinds[c.intn(len(badKinds))])
			}
		} else {
			share = s.shares[0]
		}
		switch c.intn(9) {
		case 0, 1:
			ops = append(ops, fmt.Sprintf("T:%d:%s", i, hx(share)))
		case 2, 3:
			ops = append(ops, fmt.Sprintf("V:%d:%s", i, hx(share)))
		case 4:
			ops = append(ops, fmt.Sprintf("H:%d", i))
		case 5:
			ops = append(ops, "E")
		case 6:
			ops = append(ops, fmt.Sprintf("VS:%d:%s", i, hx(share)))
		case 7:
			ops = append(ops, "S")
		case 8:
			ops = append(ops, "VT:"+hx(share))
		}
	}
	return append(ops, "S", "E")
}

func thOp(insp crypto.ThresholdSignatureInspector, tok string) string {
	return guard(func() string {
		p := strings.SplitN(tok, ":", 3)
		var i int
		if len(p) > 1 {
			fmt.Sscan(p[1], &i)
		}
		cls := func(err error) string { return errClass(err) }
		switch p[0] {
		case "T":
			b, err := insp.TrustedAdd(i, unhexOr(p[2]))
			if err != nil {
				return cls(err)
			}
			return fmt.Sprint(b)
		case "V":
			v, e, err := insp.VerifyAndAdd(i, unhexOr(p[2]))
			if err != nil {
				return cls(err)
			}
			return fmt.Sprintf("%v/%v", v, e)
		case "H":
			b, err := insp.HasShare(i)
			if err != nil {
				return cls(err)
			}
			return fmt.Sprint(b)
		case "E":
			return fmt.Sprint(insp.EnoughShares())
		case "VS":
			b, err := insp.VerifyShare(i, unhexOr(p[2]))
			if err != nil {
				return cls(err)
			}
			return fmt.Sprint(b)
		case "VT":
			b, err := insp.VerifyThresholdSignature(unhexOr(p[1]))
			if err != nil {
				return cls(err)
			}
			return fmt.Sprint(b)
		case "S":
			sg, err := insp.ThresholdSignature()
			if err != nil {
				return cls(err)
			}
			return "sig:" + hx(hold("ThresholdSignature", sg))
		}
		return "bad-op"
	})
}

func runThOps(s *thSetup, ops []string) string {
	insp, err := crypto.NewBLSThresholdSignatureInspector(s.group, s.pks, s.t, s.msg, s.tag)
	if err != nil {
		return "err"
	}
	out := []string{"ok"}
	for _, tok := range ops {
		out = append(out, thOp(insp, tok))
	}
	return strings.Join(out, " ")
}

// ---- C18: concurrent histories checked for linearizability by the model

// genC18Frozen: a pool frozen at t+1 shares one of which is a well-formed share of another signer (added with
// TrustedAdd); then several goroutines ask for the threshold signature at the same time. Every call must fail
// with the invalid-input error (no sequential order explains a returned signature), and whatever is returned as a
// signature must verify under the group key.
func genC18Frozen(c *Ctx, nHist int) {
	for it := 0; it < nHist; it++ {
		nt := [][2]int{{3, 1}, {4, 2}, {5, 2}}[it%3]
		s := newThSetup(c, nt[0], nt[1])
		insp, err := crypto.NewBLSThresholdSignatureInspector(s.group, s.pks, s.t, s.msg, s.tag)
		if err != nil {
			panic(err)
		}
		var clock int64
		var toks []string
		run := func(tok string) string {
			inv := atomic.AddInt64(&clock, 1)
			ret := thOp(insp, tok)
			res := atomic.AddInt64(&clock, 1)
			toks = append(toks, fmt.Sprintf("%d,%d,%s,%s", inv, res, tok, strings.Replace(ret, "sig:", "sig~", 1)))
			return ret
		}
		// t valid shares, then the share of signer t+1 under index t
		for i := 0; i < s.t; i++ {
			run(fmt.Sprintf("T:%d:%s", i, hx(s.shares[i])))
		}
		run(fmt.Sprintf("T:%d:%s", s.t, hx(s.shares[(s.t+1)%s.n])))
		g := 3 + c.intn(4)
		rets := make([][]string, g)
		stamps := make([][][2]int64, g)
		var wg sync.WaitGroup
		start := make(chan struct{})
		for k := 0; k < g; k++ {
			wg.Add(1)
			go func(k int) {
				defer wg.Done()
				<-start
				for r := 0; r < 2; r++ {
					inv := atomic.AddInt64(&clock, 1)
					ret := thOp(insp, "S")
					res := atomic.AddInt64(&clock, 1)
					rets[k] = append(rets[k], ret)
					stamps[k] = append(stamps[k], [2]int64{inv, res})
				}
			}(k)
		}
		close(start)
		wg.Wait()
		verdict := "ok"
		for k := range rets {
			for r, ret := range rets[k] {
				toks = append(toks, fmt.Sprintf("%d,%d,S,%s", stamps[k][r][0], stamps[k][r][1], strings.Replace(ret, "sig:", "sig~", 1)))
				if strings.HasPrefix(ret, "sig:") {
					sg := unhexOr(strings.TrimPrefix(ret, "sig:"))
					if ok, _ := insp.VerifyThresholdSignature(sg); !ok {
						verdict = "returned a threshold signature that fails verification under the group key"
					} else {
						verdict = "returned a signature from a pool with an invalid share"
					}
				}
			}
		}
		c.Case("frozen-bad-pool/direct", "expect ok #", verdict)
		c.Case("frozen-bad-pool/history", "th.lin "+s.envLine()+" "+strings.Join(toks, " "), "linearizable")
	}
}

// genC18Observers: an observer goroutine spins on the cheap read operations (HasShare(last), EnoughShares, HasShare(last))
// while the last required share is added with TrustedAdd; all other required shares were added by calls that had
// returned. Any sequential order consistent with real time makes the three answers monotone: once HasShare(last) is
// true the pool is complete, so a later EnoughShares is true, and conversely. Thousands of cheap trials (no pairing
// is involved, the window between two internal updates of one add is tens of nanoseconds); the first trial with a
// suspicious triple, and one ordinary trial, are handed to the model's linearizability check as full histories.
func genC18Observers(c *Ctx, trials int) {
	s := newThSetup(c, 3, 1)
	last := s.t
	share := make([]byte, 48) // TrustedAdd does not look at the contents; a canonical infinity share
	share[0] = 0xc0
	emitted := 0
	for trial := 0; trial < trials && emitted < 2; trial++ {
		insp, err := crypto.NewBLSThresholdSignatureInspector(s.group, s.pks, s.t, s.msg, s.tag)
		if err != nil {
			panic(err)
		}
		var clock int64
		var toks []string
		for i := 0; i < s.t; i++ {
			inv := atomic.AddInt64(&clock, 1)
			b, _ := insp.TrustedAdd(i, share)
			res := atomic.AddInt64(&clock, 1)
			toks = append(toks, fmt.Sprintf("%d,%d,T:%d:%s,%v", inv, res, i, hx(share), b))
		}
		type obs struct {
			t [6]int64
			v [3]bool
		}
		var spinning atomic.Bool
		result := make(chan obs)
		go func() {
			for {
				var o obs
				o.t[0] = atomic.AddInt64(&clock, 1)
				o.v[0], _ = insp.HasShare(last)
				o.t[1] = atomic.AddInt64(&clock, 1)
				o.t[2] = atomic.AddInt64(&clock, 1)
				o.v[1] = insp.EnoughShares()
				o.t[3] = atomic.AddInt64(&clock, 1)
				o.t[4] = atomic.AddInt64(&clock, 1)
				o.v[2], _ = insp.HasShare(last)
				o.t[5] = atomic.AddInt64(&clock, 1)
				bad := (o.v[0] && !o.v[1]) || (o.v[1] && !o.v[2]) || (o.v[0] && !o.v[2])
				if bad || (o.v[0] && o.v[1] && o.v[2]) {
					result <- o
					return
				}
				spinning.Store(true)
			}
		}()
		for !spinning.Load() {
		}
		inv := atomic.AddInt64(&clock, 1)
		b, _ := insp.TrustedAdd(last, share)
		res := atomic.AddInt64(&clock, 1)
		toks = append(toks, fmt.Sprintf("%d,%d,T:%d:%s,%v", inv, res, last, hx(share), b))
		o := <-result
		bad := (o.v[0] && !o.v[1]) || (o.v[1] && !o.v[2]) || (o.v[0] && !o.v[2])
		if bad || (emitted == 0 && trial == trials-1) || (trial == 0) {
			toks = append(toks, fmt.Sprintf("%d,%d,H:%d,%v", o.t[0], o.t[1], last, o.v[0]),
				fmt.Sprintf("%d,%d,E,%v", o.t[2], o.t[3], o.v[1]), fmt.Sprintf("%d,%d,H:%d,%v", o.t[4], o.t[5], last, o.v[2]))
			class := "observer-history/ordinary"
			if bad {
				class = "observer-history/suspicious"
				emitted = 2
			}
			c.Case(class, "th.lin "+s.envLine()+" "+strings.Join(toks, " "), "linearizable")
		}
	}
}

// genC18DuringWriter: cheap readers while a LONG writer holds the object (the first ThresholdSignature, a VerifyAndAdd:
// about a millisecond of pairings under the write lock). The shares that make the threshold were added - by TrustedAdd,
// by VerifyAndAdd, or one of each - and those calls have returned before the writer starts, so every read from then
// on is ordered after them: a reader that does not wait for the lock and answers from a copy it keeps shows here. Each
// reader keeps its first answer that differs from "enough shares / has the share" and the history goes to the model.
func genC18DuringWriter(c *Ctx, trials int) {
	for trial := 0; trial < trials; trial++ {
		nt := [][2]int{{3, 1}, {4, 2}, {5, 3}}[trial%3]
		s := newThSetup(c, nt[0], nt[1])
		insp, err := crypto.NewBLSThresholdSignatureInspector(s.group, s.pks, s.t, s.msg, s.tag)
		if err != nil {
			panic(err)
		}
		var clock int64
		var toks []string
		call := func(tok string) string {
			inv := atomic.AddInt64(&clock, 1)
			ret := thOp(insp, tok)
			res := atomic.AddInt64(&clock, 1)
			toks = append(toks, fmt.Sprintf("%d,%d,%s,%s", inv, res, tok, strings.Replace(ret, "sig:", "sig~", 1)))
			return ret
		}
		for i := 0; i <= s.t; i++ {
			how := "T"
			if (trial/3)%3 == 1 || ((trial/3)%3 == 2 && i < s.t) {
				how = "V"
			}
			call(fmt.Sprintf("%s:%d:%s", how, i, hx(s.shares[i])))
		}
		writer := []string{"S", fmt.Sprintf("V:%d:%s", s.n-1, hx(s.shares[s.n-1])), "S"}[(trial/9)%3]
		var mu sync.Mutex
		var wg sync.WaitGroup
		stop := make(chan struct{})
		for rd := 0; rd < 2; rd++ {
			wg.Add(1)
			go func(rd int) {
				defer wg.Done()
				tok := []string{"E", fmt.Sprintf("H:%d", s.t)}[rd]
				reported := false
				for n := 0; ; n++ {
					select {
					case <-stop:
						return
					default:
					}
					inv := atomic.AddInt64(&clock, 1)
					ret := thOp(insp, tok)
					res := atomic.AddInt64(&clock, 1)
					if (ret != "true" && !reported) || n == 0 {
						mu.Lock()
						toks = append(toks, fmt.Sprintf("%d,%d,%s,%s", inv, res, tok, ret))
						mu.Unlock()
						reported = reported || ret != "true"
					}
				}
			}(rd)
		}
		inv := atomic.AddInt64(&clock, 1)
		ret := thOp(insp, writer)
		res := atomic.AddInt64(&clock, 1)
		close(stop)
		wg.Wait()
		toks = append(toks, fmt.Sprintf("%d,%d,%s,%s", inv, res, writer, strings.Replace(ret, "sig:", "sig~", 1)))
		c.Case("readers-during-writer", "th.lin "+s.envLine()+" "+strings.Join(toks, " "), "linearizable")
	}
}

func genC18(c *Ctx) {
	genC18Frozen(c, map[bool]int{false: 12, true: 300}[c.thorough()])
	genC18DuringWriter(c, map[bool]int{false: 27, true: 270}[c.thorough()])
	genC18Observers(c, map[bool]int{false: 20000, true: 400000}[c.thorough()])
	nHist := 120
	if c.thorough() {
		nHist = 4000
	}
	for it := 0; it < nHist; it++ {
		nt := [][2]int{{3, 1}, {4, 2}, {5, 2}}[it%3]
		s := newThSetup(c, nt[0], nt[1])
		insp, err := crypto.NewBLSThresholdSignatureInspector(s.group, s.pks, s.t, s.msg, s.tag)
		if err != nil {
			panic(err)
		}
		g := 2 + c.intn(3)
		perG := 2 + c.intn(2)
		if g*perG > 10 {
			perG = 10 / g
		}
		progs := make([][]string, g)
		for k := range progs {
			progs[k] = randomThOps(c, s, perG)[:perG]
		}
		var clock int64
		type ev struct {
			inv, res int64
			op, ret  string
		}
		evs := make([][]ev, g)
		var wg sync.WaitGroup
		start := make(chan struct{})
		for k := 0; k < g; k++ {
			wg.Add(1)
			go func(k int) {
				defer wg.Done()
				<-start
				for _, tok := range progs[k] {
					inv := atomic.AddInt64(&clock, 1)
					ret := thOp(insp, tok)
					res := atomic.AddInt64(&clock, 1)
					evs[k] = append(evs[k], ev{inv, res, tok, ret})
				}
			}(k)
		}
		close(start)
		wg.Wait()
		var toks []string
		seqOps := []string{}
		for k := range evs {
			for _, e := range evs[k] {
				ret := strings.Replace(e.ret, "sig:", "sig~", 1)
				toks = append(toks, fmt.Sprintf("%d,%d,%s,%s", e.inv, e.res, e.op, ret))
				seqOps = append(seqOps, e.op)
			}
		}
		c.Case(fmt.Sprintf("concurrent-history/g=%d", g), "th.lin "+s.envLine()+" "+strings.Join(toks, " "), "linearizable")
		// after the concurrent phase: the object state is consistent with the sequential semantics
		final := []string{thOp(insp, "E"), thOp(insp, "S"), thOp(insp, "S")}
		inv := "ok"
		if final[1] != final[2] {
			inv = "threshold-signature-not-stable"
		}
		cnt := 0
		for i := 0; i < s.n; i++ {
			if thOp(insp, fmt.Sprintf("H:%d", i)) == "true" {
				cnt++
			}
		}
		if cnt > s.t+1 {
			inv = fmt.Sprintf("retained %d shares > t+1", cnt)
		}
		if (cnt == s.t+1) != (final[0] == "true") {
			inv = "EnoughShares inconsistent with the retained shares"
		}
		c.Case("post-state-invariants", "expect ok #", inv)
		_ = seqOps
	}
	genTrustedThenVerify(c)
}

// genTrustedThenVerify: the stateless methods of the object after the pool was filled through TrustedAdd: an invalid
// share of each kind is added unverified for one signer, then VerifyShare / VerifyAndAdd are called with the very same
// bytes, with the valid share of that signer and with the same bytes for another signer; the verdicts are those of the
// sequential model (VerifyShare never depends on the pool).
func genTrustedThenVerify(c *Ctx) {
	for _, nt := range [][2]int{{3, 1}, {5, 2}} {
		for _, kind := range badKinds {
			s := newThSetup(c, nt[0], nt[1])
			bad := s.badShare(c, 1, kind)
			ops := []string{
				fmt.Sprintf("VS:1:%s", hx(bad)),
				fmt.Sprintf("T:1:%s", hx(bad)),
				fmt.Sprintf("VS:1:%s", hx(bad)),
				fmt.Sprintf("VS:1:%s", hx(s.shares[1])),
				fmt.Sprintf("VS:0:%s", hx(bad)),
				fmt.Sprintf("V:1:%s", hx(bad)),
				fmt.Sprintf("T:0:%s", hx(s.shares[0])),
				fmt.Sprintf("VS:0:%s", hx(s.shares[0])),
				fmt.Sprintf("VS:1:%s", hx(bad)),
				"H:1", "E", "S", "E",
			}
			c.Case("object-trusted-add-then-verify/"+kind, "th.obj "+s.envLine()+" "+strings.Join(ops, " "), runThOps(s, ops))
		}
	}
}
