package main

import (
	"bufio"
	"encoding/hex"
	"fmt"
	"io"
	"os"
	"os/exec"
	"strings"
)

// Model helper: the harness asks the Lean driver to *build inputs* the implementation cannot
// produce itself (points outside the prime-order subgroup, sums with torsion points, ...).
type modelHelper struct {
	cmd *exec.Cmd
	in  io.WriteCloser
	out *bufio.Reader
	n   int
}

var helper *modelHelper

func driverPath() string {
	if p := os.Getenv("VERIF_DRIVER"); p != "" { // set by bin/check: its private copy of the driver
		return p
	}
	return "/verif/lean/.lake/build/bin/driver"
}

func getHelper() *modelHelper {
	if helper != nil {
		return helper
	}
	cmd := exec.Command(driverPath())
	in, _ := cmd.StdinPipe()
	out, _ := cmd.StdoutPipe()
	if err := cmd.Start(); err != nil {
		panic("cannot start model driver: " + err.Error())
	}
	helper = &modelHelper{cmd: cmd, in: in, out: bufio.NewReaderSize(out, 1<<20)}
	return helper
}

// ask sends one protocol line (without id) and returns the model's answer.
func ask(line string) string {
	h := getHelper()
	h.n++
	fmt.Fprintf(h.in, "h%d %s\n", h.n, line)
	ans, err := h.out.ReadString('\n')
	if err != nil {
		panic("model driver died: " + err.Error())
	}
	ans = strings.TrimRight(ans, "\n")
	if i := strings.IndexByte(ans, ' '); i >= 0 {
		return ans[i+1:]
	}
	return ans
}

// askBytes expects "ok <hex>".
func askBytes(line string) []byte {
	a := ask(line)
	if !strings.HasPrefix(a, "ok ") {
		panic("model helper: " + line + " -> " + a)
	}
	if a[3:] == "-" {
		return nil
	}
	b, err := hex.DecodeString(a[3:])
	if err != nil {
		panic(err)
	}
	return b
}
