//go:build !no_cgo

package main

import (
	"math/big"

	"github.com/onflow/crypto"
	"github.com/onflow/crypto/hash"
)

// skFromInt builds a BLS private key from a scalar in [1, r-1].
// skFromInt decodes the private key k (1 <= k < r). A refusal is not a harness bug but a finding (the decoder rejects a
// scalar of the documented range): it is recorded and reported by the "decoder-refusals" case every generator ends
// with; the caller gets the key 1 so that the run can go on.
func skFromInt(k *big.Int) crypto.PrivateKey {
	sk, err := crypto.DecodePrivateKey(crypto.BLSBLS12381, be(k, 32))
	if err != nil {
		if k.Sign() <= 0 || k.Cmp(blsR) >= 0 {
			panic(err) // a harness bug: asked for a key outside the range
		}
		refusalMu.Lock()
		if len(refusals) < 20 {
			refusals = append(refusals, "0x"+k.Text(16)+": "+err.Error())
		}
		refusalMu.Unlock()
		one, err1 := crypto.DecodePrivateKey(crypto.BLSBLS12381, be(big.NewInt(1), 32))
		if err1 != nil {
			panic(err1)
		}
		return one
	}
	return sk
}



var skOne crypto.PrivateKey

// hashPoint returns the compressed encoding of the hash-to-curve image of (msg, hasher):
// the signature of the private key 1.
func hashPoint(msg []byte, h hash.Hasher) []byte {
	if skOne == nil {
		skOne = skFromInt(big.NewInt(1))
	}
	s, err := skOne.Sign(msg, h)
	if err != nil {
		panic(err)
	}
	return s
}

// randScalar returns a scalar in [1, r-1]; one in ten is structured: 64-bit limbs of all ones or all zeros
// (carry boundaries of multi-limb arithmetic), the rest uniform.
func (c *Ctx) randScalar() *big.Int {
	if c.intn(10) == 0 {
		k := new(big.Int)
		for limb := 0; limb < 4; limb++ {
			k.Lsh(k, 64)
			switch c.intn(4) {
			case 0:
				k.Or(k, new(big.Int).SetUint64(^uint64(0)))
			case 1:
				// zero limb
			case 2:
				k.Or(k, new(big.Int).SetUint64(uint64(1)<<uint(c.intn(64))))
			default:
				k.Or(k, new(big.Int).SetUint64(c.rng.Uint64()))
			}
		}
		k.Mod(k, blsR)
		if k.Sign() != 0 {
			return k
		}
	}
	for {
		k := new(big.Int).SetBytes(c.bytes(32))
		k.Mod(k, blsR)
		if k.Sign() != 0 {
			return k
		}
	}
}

// fixedHasher is a hash.Hasher returning chosen bytes.
type fixedHasher struct {
	out  []byte
	size int
}

func (f *fixedHasher) Algorithm() hash.HashingAlgorithm { return hash.UnknownHashingAlgorithm }
func (f *fixedHasher) Size() int                        { return f.size }
func (f *fixedHasher) ComputeHash([]byte) hash.Hash     { return append([]byte{}, f.out...) }
func (f *fixedHasher) Write(p []byte) (int, error)      { return len(p), nil }
func (f *fixedHasher) SumHash() hash.Hash               { return append([]byte{}, f.out...) }
func (f *fixedHasher) Reset()                           {}

// blsErrClass classifies the BLS-specific sentinel errors (only available with cgo).
func blsErrClass(err error) string {
	switch {
	case crypto.IsNotBLSKeyError(err):
		return "NotBLSKey"
	case crypto.IsBLSAggregateEmptyListError(err):
		return "EmptyList"
	case crypto.IsInvalidSignatureError(err):
		return "InvalidSignature"
	}
	return ""
}

// pkOfProvenance returns the public key of the scalar k held in an object built one of several ways: 0 fresh (affine),
// 1 decoded from bytes, 2 what is left of an aggregate after a removal (projective coordinates), 3 aggregate of the
// keys of two scalars adding up to k, 4 removal of two keys from an aggregate of three. Every API that takes keys is to
// treat them alike.
func pkOfProvenance(c *Ctx, k *big.Int, kind int) crypto.PublicKey {
	fresh := skFromInt(k).PublicKey()
	switch kind {
	case 1:
		if pk, err := crypto.DecodePublicKey(crypto.BLSBLS12381, fresh.Encode()); err == nil {
			return pk
		}
	case 2:
		extra := skFromInt(c.randScalar()).PublicKey()
		if agg, err := crypto.AggregateBLSPublicKeys([]crypto.PublicKey{fresh, extra}); err == nil {
			if pk, err := crypto.RemoveBLSPublicKeys(agg, []crypto.PublicKey{extra}); err == nil {
				return pk
			}
		}
	case 3:
		a := c.randScalar()
		b := new(big.Int).Mod(new(big.Int).Sub(new(big.Int).Add(k, blsR), a), blsR)
		if b.Sign() != 0 {
			if pk, err := crypto.AggregateBLSPublicKeys([]crypto.PublicKey{skFromInt(a).PublicKey(), skFromInt(b).PublicKey()}); err == nil {
				return pk
			}
		}
	case 4:
		e1, e2 := skFromInt(c.randScalar()).PublicKey(), skFromInt(c.randScalar()).PublicKey()
		if agg, err := crypto.AggregateBLSPublicKeys([]crypto.PublicKey{e1, fresh, e2}); err == nil {
			if pk, err := crypto.RemoveBLSPublicKeys(agg, []crypto.PublicKey{e2, e1}); err == nil {
				return pk
			}
		}
	}
	return fresh
}
