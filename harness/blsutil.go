//go:build !no_cgo

package main

import (
	"math/big"

	"github.com/onflow/crypto"
	"github.com/onflow/crypto/hash"
)

var blsR, _ = new(big.Int).SetString("73eda753299d7d483339d80809a1d80553bda402fffe5bfeffffffff00000001", 16)
var blsP, _ = new(big.Int).SetString("1a0111ea397fe69a4b1ba7b6434bacd764774b84f38512bf6730d2a0f6b0f6241eabfffeb153ffffb9feffffffffaaab", 16)

func be(n *big.Int, l int) []byte {
	b := n.Bytes()
	if len(b) > l {
		return b[len(b)-l:]
	}
	out := make([]byte, l)
	copy(out[l-len(b):], b)
	return out
}

// errClass maps an error to the canonical enum of the protocol.
func errClass(err error) string {
	switch {
	case err == nil:
		return "nil"
	case crypto.IsInvalidInputsError(err):
		return "InvalidInputs"
	case crypto.IsNilHasherError(err):
		return "NilHasher"
	case crypto.IsInvalidHasherSizeError(err):
		return "HasherSize"
	case crypto.IsNotBLSKeyError(err):
		return "NotBLSKey"
	case crypto.IsBLSAggregateEmptyListError(err):
		return "EmptyList"
	case crypto.IsInvalidSignatureError(err):
		return "InvalidSignature"
	case crypto.IsNotEnoughSharesError(err):
		return "NotEnoughShares"
	case crypto.IsDuplicatedSignerError(err):
		return "DuplicatedSigner"
	case crypto.IsDKGFailureError(err):
		return "DKGFailure"
	case crypto.IsDKGInvalidStateTransitionError(err):
		return "DKGInvalidTransition"
	}
	return "Other"
}

// skFromInt builds a BLS private key from a scalar in [1, r-1].
func skFromInt(k *big.Int) crypto.PrivateKey {
	sk, err := crypto.DecodePrivateKey(crypto.BLSBLS12381, be(k, 32))
	if err != nil {
		panic(err)
	}
	return sk
}

var skOne crypto.PrivateKey

// hashPoint returns the compressed encoding of the hash-to-curve image of (msg, hasher):
// the signature of the private key 1.
func hashPoint(msg []byte, h hash.Hasher) []byte {
	if skOne == nil {
		skOne = skFromInt(big.NewInt(1))
	}
	s, err := skOne.Sign(msg, h)
	if err != nil {
		panic(err)
	}
	return s
}

// randScalar returns a scalar in [1, r-1].
func (c *Ctx) randScalar() *big.Int {
	for {
		k := new(big.Int).SetBytes(c.bytes(32))
		k.Mod(k, blsR)
		if k.Sign() != 0 {
			return k
		}
	}
}

// fixedHasher is a hash.Hasher returning chosen bytes.
type fixedHasher struct {
	out  []byte
	size int
}

func (f *fixedHasher) Algorithm() hash.HashingAlgorithm { return hash.UnknownHashingAlgorithm }
func (f *fixedHasher) Size() int                        { return f.size }
func (f *fixedHasher) ComputeHash([]byte) hash.Hash     { return append([]byte{}, f.out...) }
func (f *fixedHasher) Write(p []byte) (int, error)      { return len(p), nil }
func (f *fixedHasher) SumHash() hash.Hash               { return append([]byte{}, f.out...) }
func (f *fixedHasher) Reset()                           {}
