//go:build !no_cgo

package main

import (
	"fmt"
	"math/big"
	"strings"
	"sync"

	"github.com/onflow/crypto"
)

// invalidity kinds for batch verification
const (
	kBitflip = iota
	kSwapped      // swapped with the next invalid position
	kPlusMinusD   // s_i + d with s_j - d
	kThreeWay     // d, d', -d-d'
	kNonG1
	kWrongLen
	kBadHeader
	kIdentityKey
	kIdentitySig
	kPolyCancel // errors a_j*D with a_j = 1/prod_{k!=j}(p_j-p_k): cancel under every coefficient vector that is a polynomial of degree <= m-2 in the position (counter-derived, arithmetic progressions, ...)
	kGeom2      // errors (2d, -d) / (d, -2d) on neighbouring invalid positions: cancel under coefficients that double from one index to the next
	kKinds
)

var kindNames = []string{"bitflip", "swapped", "plus-minus-d", "three-way", "non-g1", "wrong-length", "bad-header", "identity-key", "identity-sig", "poly-cancel", "geom2"}

func genC03(c *Ctx) {
	maxExh := 5
	sampled := []int{8, 9, 65, 129, 260}
	if c.thorough() {
		maxExh = 7
		sampled = []int{8, 9, 15, 16, 17, 33, 64, 65, 129, 257, 260, 515, 1030}
	}
	h := crypto.NewExpandMsgXOFKMAC128("batch")
	msg := []byte("batch message")
	hp := hashPoint(msg, h)
	inf := make([]byte, 48)
	inf[0] = 0xc0
	// positions that the Go layer discards before the C call (wrong-length signature, identity key), applied on top of
	// the kind of a run: entropy or indices that are laid out for the surviving entries only go wrong behind them
	var discard []int
	run := func(n int, invalid []int, kind int) {
		ks := make([]*big.Int, n)
		pks := make([]crypto.PublicKey, n)
		sigs := make([]crypto.Signature, n)
		for i := range ks {
			ks[i] = c.randScalar()
			sk := skFromInt(ks[i])
			pks[i] = sk.PublicKey()
			if n <= 40 && c.intn(3) == 0 { // the same key in an object of other provenance (decoded, left by a removal, aggregated)
				pks[i] = pkOfProvenance(c, ks[i], 1+c.intn(4))
			}
			sigs[i], _ = sk.Sign(msg, h)
		}
		modelK := append([]*big.Int{}, ks...)
		g := func(k *big.Int) []byte { return askBytes("e1 mul 0x" + k.Text(16) + " " + hx(hp)) }
		switch kind {
		case kBitflip:
			for _, i := range invalid {
				sigs[i] = flipBit(sigs[i], c.intn(384))
			}
		case kSwapped:
			if len(invalid) >= 2 {
				for j := 0; j+1 < len(invalid); j += 2 {
					sigs[invalid[j]], sigs[invalid[j+1]] = sigs[invalid[j+1]], sigs[invalid[j]]
				}
				if len(invalid)%2 == 1 {
					sigs[invalid[len(invalid)-1]] = flipBit(sigs[invalid[len(invalid)-1]], 9)
				}
			} else {
				for _, i := range invalid {
					sigs[i] = g(c.randScalar())
				}
			}
		case kPlusMinusD:
			if len(invalid) >= 2 {
				d := c.randScalar()
				for j := 0; j+1 < len(invalid); j += 2 {
					a, b := invalid[j], invalid[j+1]
					sigs[a] = g(new(big.Int).Mod(new(big.Int).Add(ks[a], d), blsR))
					sigs[b] = g(new(big.Int).Mod(new(big.Int).Sub(new(big.Int).Add(ks[b], blsR), d), blsR))
				}
				if len(invalid)%2 == 1 {
					sigs[invalid[len(invalid)-1]] = g(c.randScalar())
				}
			} else {
				for _, i := range invalid {
					sigs[i] = g(c.randScalar())
				}
			}
		case kThreeWay:
			if len(invalid) >= 3 {
				d1, d2 := c.randScalar(), c.randScalar()
				d3 := new(big.Int).Mod(new(big.Int).Sub(new(big.Int).Lsh(blsR, 1), new(big.Int).Add(d1, d2)), blsR)
				ds := []*big.Int{d1, d2, d3}
				for j := 0; j < 3; j++ {
					i := invalid[j]
					sigs[i] = g(new(big.Int).Mod(new(big.Int).Add(ks[i], ds[j]), blsR))
				}
				for _, i := range invalid[3:] {
					sigs[i] = g(c.randScalar())
				}
			} else {
				for _, i := range invalid {
					sigs[i] = g(c.randScalar())
				}
			}
		case kPolyCancel:
			if len(invalid) >= 2 {
				d := c.randScalar()
				for j, pj := range invalid {
					den := big.NewInt(1)
					for k2, pk := range invalid {
						if k2 != j {
							den.Mul(den, new(big.Int).Mod(big.NewInt(int64(pj-pk)), blsR))
							den.Mod(den, blsR)
						}
					}
					aj := new(big.Int).Mul(d, new(big.Int).ModInverse(den, blsR))
					sigs[pj] = g(new(big.Int).Mod(new(big.Int).Add(ks[pj], aj), blsR))
				}
			} else {
				for _, i := range invalid {
					sigs[i] = g(c.randScalar())
				}
			}
		case kGeom2:
			if len(invalid) >= 2 {
				d := c.randScalar()
				d2 := new(big.Int).Lsh(d, 1)
				for j := 0; j+1 < len(invalid); j += 2 {
					a, b := invalid[j], invalid[j+1]
					ea, eb := d2, d
					if (j/2+len(invalid))%2 == 1 {
						ea, eb = d, d2
					}
					sigs[a] = g(new(big.Int).Mod(new(big.Int).Add(ks[a], ea), blsR))
					sigs[b] = g(new(big.Int).Mod(new(big.Int).Sub(new(big.Int).Add(ks[b], new(big.Int).Lsh(blsR, 1)), eb), blsR))
				}
				if len(invalid)%2 == 1 {
					sigs[invalid[len(invalid)-1]] = g(c.randScalar())
				}
			} else {
				for _, i := range invalid {
					sigs[i] = g(c.randScalar())
				}
			}
		case kNonG1:
			for _, i := range invalid {
				// large-order torsion and the small orders 3, 3, 11 alternate over positions and subsets
				ti := []int{0, 100, 1, 101, 2, 102}[(i+len(invalid))%6]
				sigs[i] = askBytes("e1 add " + hx(sigs[i]) + " " + hx(askBytes(fmt.Sprintf("e1 torsion %d", ti))))
			}
		case kWrongLen:
			for _, i := range invalid {
				switch (i + len(invalid)) % 4 {
				case 0:
					sigs[i] = sigs[i][:47-(i%3)*20]
				case 1: // over-long: a valid signature followed by trailing bytes
					sigs[i] = append(append([]byte{}, sigs[i]...), 0)
				case 2:
					sigs[i] = append(append([]byte{}, sigs[i]...), sigs[i]...)
				case 3:
					sigs[i] = nil
				}
			}
		case kBadHeader:
			for _, i := range invalid {
				sigs[i] = crypto.BLSInvalidSignature()
			}
		case kIdentityKey:
			for _, i := range invalid {
				pks[i] = pickIdentity(c, i)
				modelK[i] = big.NewInt(0)
				if i%2 == 0 {
					sigs[i] = inf
				}
			}
		case kIdentitySig:
			for _, i := range invalid {
				sigs[i] = inf
			}
		}
		for j, i := range discard {
			if i >= n {
				continue
			}
			if j%2 == 0 {
				sigs[i] = sigs[i][:47]
			} else {
				pks[i] = pickIdentity(c, i)
				modelK[i] = big.NewInt(0)
			}
		}
		// expected: index-by-index individual verification (model), and directly pks[i].Verify on the implementation
		var want, indiv []string
		_ = want
		res, err := crypto.BatchVerifyBLSSignaturesOneMessage(pks, sigs, msg, h)
		if err != nil {
			c.Case("batch-error", "expect ok #", "err "+errClass(err))
			return
		}
		// the coefficients are fresh randomness on every call: a defect that shows with probability 1/3 (a component
		// of order 3 killed by the blinding) needs repetitions; keep the first run that disagrees with Verify
		reps := 0
		if kind == kNonG1 {
			reps = 16
		}
		for rep := 0; rep < reps; rep++ {
			res2, err2 := crypto.BatchVerifyBLSSignaturesOneMessage(pks, sigs, msg, h)
			if err2 != nil {
				break
			}
			differs := false
			for i := range pks {
				if res2[i] != res[i] {
					differs = true
				}
			}
			if differs {
				for i := range pks {
					if ok, _ := pks[i].Verify(sigs[i], msg, h); res[i] == ok {
						res[i] = res2[i]
					}
				}
				break
			}
		}
		for i := range pks {
			ok, _ := pks[i].Verify(sigs[i], msg, h)
			indiv = append(indiv, fmt.Sprint(ok))
			class := fmt.Sprintf("batch/n=%d/%s", n, kindNames[kind])
			ans := fmt.Sprint(res[i])
			if res[i] != ok {
				ans += " differs-from-Verify"
			}
			c.Case(class, fmt.Sprintf("bls.verify 0x%s %s %s", modelK[i].Text(16), hx(hp), hx(sigs[i])), ans)
		}
	}
	for n := 1; n <= maxExh; n++ {
		for mask := 0; mask < 1<<n; mask++ {
			var invalid []int
			for i := 0; i < n; i++ {
				if mask>>i&1 == 1 {
					invalid = append(invalid, i)
				}
			}
			kinds := []int{c.intn(kKinds)}
			if n <= 4 || c.thorough() {
				kinds = []int{kBitflip, kSwapped, kPlusMinusD, kThreeWay, kNonG1, kWrongLen, kBadHeader, kIdentityKey, kIdentitySig, kPolyCancel, kGeom2}
			} else {
				kinds = []int{kSwapped, kPlusMinusD, kPolyCancel, c.intn(kKinds)}
			}
			if len(invalid) == 0 {
				kinds = []int{kBitflip}
			}
			for _, kind := range kinds {
				run(n, invalid, kind)
			}
		}
	}
	for _, n := range sampled {
		reps := 6
		if n > 40 {
			// long batches: defects next to the sizes a chunked implementation would use, everything else valid
			run(n, []int{n - 1}, kBitflip)
			if n > 64 {
				run(n, []int{63, 64}, kPlusMinusD)
			} else {
				run(n, []int{n - 2, n - 1}, kPlusMinusD)
			}
			if n > 128 {
				run(n, []int{127, 128}, kSwapped)
				run(n, []int{0, 64, 128}, kPolyCancel)
			}
			if n > 258 {
				// positions congruent modulo 256 (an index carried in a byte makes their coefficients equal), and modulo 512
				run(n, []int{2, 258}, kSwapped)
				run(n, []int{0, 256}, kPlusMinusD)
				run(n, []int{3, 259}, kSwapped)
			}
			if n > 514 {
				run(n, []int{1, 513}, kSwapped)
				run(n, []int{2, 258, 514}, kThreeWay)
			}
			run(n, nil, kBitflip)
			if !c.thorough() {
				continue
			}
			reps = 2
		}
		for rep := 0; rep < reps; rep++ {
			var invalid []int
			for i := 0; i < n; i++ {
				if c.intn(3) == 0 {
					invalid = append(invalid, i)
				}
			}
			run(n, invalid, []int{kSwapped, kPlusMinusD, kThreeWay, kPolyCancel, kGeom2, c.intn(kKinds)}[rep%6])
		}
	}
	// discarded entries in front, cancelling groups of invalid signatures in the LAST positions (and elsewhere)
	for _, sh := range []struct {
		n       int
		discard []int
		invalid []int
		kind    int
	}{{8, []int{0, 1}, []int{6, 7}, kSwapped}, {8, []int{2, 5}, []int{6, 7}, kPlusMinusD}, {12, []int{0, 3, 5}, []int{9, 10, 11}, kThreeWay},
		{12, []int{1, 2}, []int{10, 11}, kGeom2}, {9, []int{0}, []int{7, 8}, kSwapped}, {16, []int{0, 1, 2, 3}, []int{12, 13, 14, 15}, kSwapped},
		{65, []int{0, 1, 63}, []int{62, 64}, kSwapped}, {33, []int{4, 9}, []int{31, 32}, kPolyCancel}, {10, []int{8, 9}, []int{0, 1}, kSwapped}} {
		discard = sh.discard
		run(sh.n, sh.invalid, sh.kind)
	}
	discard = nil
	// input errors: every returned boolean is false
	k := skFromInt(big.NewInt(5))
	sig, _ := k.Sign(msg, h)
	ec := ecSk(ecCurves[0], big.NewInt(5)).PublicKey()
	allFalse := func(b []bool) string {
		for _, x := range b {
			if x {
				return "some-true"
			}
		}
		return fmt.Sprintf("allfalse%d", len(b))
	}
	c.Case("errors", "expect EmptyList allfalse0 InvalidInputs allfalse2 NilHasher allfalse1 HasherSize allfalse1 NotBLSKey allfalse2 #", guard(func() string {
		b1, e1 := crypto.BatchVerifyBLSSignaturesOneMessage(nil, nil, msg, h)
		b2, e2 := crypto.BatchVerifyBLSSignaturesOneMessage([]crypto.PublicKey{k.PublicKey()}, []crypto.Signature{sig, sig}, msg, h)
		b3, e3 := crypto.BatchVerifyBLSSignaturesOneMessage([]crypto.PublicKey{k.PublicKey()}, []crypto.Signature{sig}, msg, nil)
		b4, e4 := crypto.BatchVerifyBLSSignaturesOneMessage([]crypto.PublicKey{k.PublicKey()}, []crypto.Signature{sig}, msg, &fixedHasher{out: make([]byte, 64), size: 64})
		b5, e5 := crypto.BatchVerifyBLSSignaturesOneMessage([]crypto.PublicKey{k.PublicKey(), ec}, []crypto.Signature{sig, sig}, msg, h)
		return strings.Join([]string{errClass(e1), allFalse(b1), errClass(e2), allFalse(b2), errClass(e3), allFalse(b3), errClass(e4), allFalse(b4), errClass(e5), allFalse(b5)}, " ")
	}))
	// overlapping batch verifications, each worker with its own small batch (3 to 18 entries, one or two invalid ones at
	// known places): the verdict vector is a function of the batch, whatever other batches are verified at the same time
	for round := 0; round < 3; round++ {
		const g = 6
		type batch struct {
			pks  []crypto.PublicKey
			sigs []crypto.Signature
			msg  []byte
			want string
		}
		bs := make([]*batch, g)
		for i := range bs {
			b := &batch{msg: msg}
			if i%2 == 1 {
				b.msg = []byte(fmt.Sprintf("another message %d", i))
			}
			n := 3 + (i*5+round*3)%16
			want := make([]bool, n)
			for k := 0; k < n; k++ {
				sk := skFromInt(c.randScalar())
				sg, _ := sk.Sign(b.msg, h)
				want[k] = true
				if k == i%n || k == (2*i+1)%n {
					sg, _ = skFromInt(c.randScalar()).Sign(b.msg, h)
					want[k] = false
				}
				b.pks, b.sigs = append(b.pks, sk.PublicKey()), append(b.sigs, sg)
			}
			b.want = fmt.Sprint(want)
			bs[i] = b
		}
		res := make([]string, g)
		start := make(chan struct{})
		var wg sync.WaitGroup
		for i := range bs {
			wg.Add(1)
			go func(i int) {
				defer wg.Done()
				b := bs[i]
				hh := crypto.NewExpandMsgXOFKMAC128("batch")
				<-start
				for rep := 0; rep < 8 && res[i] == ""; rep++ {
					res[i] = guard(func() string {
						v, err := crypto.BatchVerifyBLSSignaturesOneMessage(b.pks, b.sigs, b.msg, hh)
						if err != nil {
							return "error " + errClass(err)
						}
						if fmt.Sprint(v) != b.want {
							return fmt.Sprintf("worker %d repetition %d: got %v want %s", i, rep, v, b.want)
						}
						return ""
					})
				}
			}(i)
		}
		close(start)
		wg.Wait()
		verdict := "ok"
		for _, r := range res {
			if r != "" {
				verdict = r
				break
			}
		}
		c.Case("overlapping-batches", fmt.Sprintf("expect ok #overlap %d", round), verdict)
	}
	// hasher objects with a history: bytes written and left pending, a digest already taken, ComputeHash or Reset used
	// before. Verify hashes the message alone whatever the hasher went through, so the batch must as well: the valid
	// signatures of msg are accepted, a signature of pending||msg and a bit flip are not (fixed expected verdicts, and
	// the same batch once more afterwards with the same object)
	{
		pend := []byte("pending bytes ")
		fresh := crypto.NewExpandMsgXOFKMAC128("batch")
		var pks []crypto.PublicKey
		var sigs []crypto.Signature
		for i := 0; i < 4; i++ {
			sk := skFromInt(big.NewInt(int64(1000 + i)))
			pks = append(pks, sk.PublicKey())
			m := msg
			if i == 1 {
				m = append(append([]byte{}, pend...), msg...)
			}
			sg, _ := sk.Sign(m, fresh)
			sigs = append(sigs, sg)
		}
		sigs[3] = flipBit(sigs[3], 77)
		for _, hist := range []string{"fresh", "pending-write", "two-pending-writes", "after-sum", "after-computehash", "after-reset", "write-after-sum"} {
			hh := crypto.NewExpandMsgXOFKMAC128("batch")
			switch hist {
			case "pending-write":
				_, _ = hh.Write(pend)
			case "two-pending-writes":
				_, _ = hh.Write(pend[:5])
				_, _ = hh.Write(pend[5:])
			case "after-sum":
				_, _ = hh.Write(pend)
				_ = hh.SumHash()
			case "after-computehash":
				_ = hh.ComputeHash(pend)
			case "after-reset":
				_, _ = hh.Write(pend)
				hh.Reset()
			case "write-after-sum":
				_, _ = hh.Write(pend)
				_ = hh.SumHash()
				hh.Reset()
				_, _ = hh.Write(pend)
			}
			for rep := 0; rep < 2; rep++ {
				ans := guard(func() string {
					res, err := crypto.BatchVerifyBLSSignaturesOneMessage(pks, sigs, msg, hh)
					if err != nil {
						return "err " + errClass(err)
					}
					out := fmt.Sprint(res)
					for i := range pks {
						if ok, _ := pks[i].Verify(sigs[i], msg, fresh); ok != res[i] {
							out += fmt.Sprintf(" entry-%d-differs-from-Verify", i)
						}
					}
					return out
				})
				c.Case("batch-hasher-history/"+hist, fmt.Sprintf("expect [true false true false] #%s rep %d", hist, rep), ans)
			}
		}
	}
}
