//go:build !no_cgo

package main

import (
	"strings"
	"bytes"
	"fmt"
	"math/big"
	"sync"

	"github.com/onflow/crypto"
	"github.com/onflow/crypto/hash"
)

func init() { generators["C19"] = genC19 }

// genC19: mixes of the operations documented as read-only / thread-safe, run concurrently over shared
// objects (the binary is built with the race detector); every result is compared with the result of the same
// call made alone, and every argument with a snapshot taken before.
func genC19(c *Ctx) {
	goroutines := []int{2, 4, 8}
	rounds := 6
	if c.thorough() {
		goroutines = []int{2, 4, 8, 16, 32, 64}
		rounds = 40
	}
	for _, g := range goroutines {
		for r := 0; r < rounds; r++ {
			c.Case(fmt.Sprintf("kmac-computehash/g=%d", g), fmt.Sprintf("expect ok #kmac %d %d", g, r), mixKmac(c, g))
			c.Case(fmt.Sprintf("bls-mix/g=%d", g), fmt.Sprintf("expect ok #bls %d %d", g, r), mixBLS(c, g))
			c.Case(fmt.Sprintf("ecdsa-mix/g=%d", g), fmt.Sprintf("expect ok #ecdsa %d %d", g, r), mixECDSA(c, g))
			c.Case(fmt.Sprintf("bls-first-use/g=%d", g), fmt.Sprintf("expect ok #blsfresh %d %d", g, r), mixBLSFirstUse(c, g))
			c.Case(fmt.Sprintf("bls-one-message-lists/g=%d", g), fmt.Sprintf("expect ok #blslists %d %d", g, r), mixBLSOneMessageLists(c, g))
			if r%3 == 0 {
				c.Case(fmt.Sprintf("bls-after-rejected/g=%d", g), fmt.Sprintf("expect ok #blsrej %d %d", g, r), mixBLSAfterRejected(c, g, r))
				c.Case(fmt.Sprintf("bls-distinct-inputs/g=%d", g), fmt.Sprintf("expect ok #blsdist %d %d", g, r), mixBLSDistinctInputs(c, g))
				c.Case(fmt.Sprintf("bls-many-messages/g=%d", g), fmt.Sprintf("expect ok #blsmany %d %d", g, r), mixBLSManyMessages(c, g))
			}
		}
	}
}

func mixKmac(c *Ctx, g int) string {
	k, err := hash.NewKMAC_128(c.bytes(16+c.intn(200)), c.bytes(c.intn(20)), 32+c.intn(200))
	if err != nil {
		return "err"
	}
	inputs := make([][]byte, g)
	want := make([][]byte, g)
	snap := make([][]byte, g)
	for i := range inputs {
		inputs[i] = c.bytes(c.intn(500))
		snap[i] = append([]byte{}, inputs[i]...)
		want[i] = k.ComputeHash(inputs[i])
	}
	got := make([][]byte, g)
	var wg sync.WaitGroup
	for i := 0; i < g; i++ {
		wg.Add(1)
		go func(i int) {
			defer wg.Done()
			for rep := 0; rep < 20; rep++ {
				got[i] = k.ComputeHash(inputs[i])
			}
		}(i)
	}
	wg.Wait()
	for i := range got {
		if !bytes.Equal(got[i], want[i]) {
			return fmt.Sprintf("result-changed at %d", i)
		}
		if !bytes.Equal(inputs[i], snap[i]) {
			return "argument-modified"
		}
	}
	return "ok"
}

func mixBLS(c *Ctx, g int) string {
	h := crypto.NewExpandMsgXOFKMAC128("shared")
	nk := 4
	sks := make([]crypto.PrivateKey, nk)
	pks := make([]crypto.PublicKey, nk)
	msg := c.bytes(40)
	sigs := make([]crypto.Signature, nk)
	pops := make([]crypto.Signature, nk)
	for i := range sks {
		sks[i] = skFromInt(c.randScalar())
		pks[i] = sks[i].PublicKey()
		sigs[i], _ = sks[i].Sign(msg, h)
		pops[i], _ = crypto.BLSGeneratePOP(sks[i])
	}
	agg, _ := crypto.AggregateBLSSignatures(sigs)
	msgs := [][]byte{msg, msg, msg, msg}
	hs := []hash.Hasher{h, h, h, h}
	badSigs := append([]crypto.Signature{}, sigs...)
	badSigs[1] = sigs[2]
	pksId := append([]crypto.PublicKey{}, pks...)
	pksId[2] = crypto.IdentityBLSPublicKey()
	shortSigs := append([]crypto.Signature{}, sigs...)
	shortSigs[1] = sigs[1][:20]
	aggPk, _ := crypto.AggregateBLSPublicKeys(pks)
	snapShort := append([]byte{}, shortSigs[1]...)
	// the operations, each returning a printable result
	ops := []func() string{
		func() string { s, err := sks[0].Sign(msg, h); return hx(s) + errClass(err) },
		func() string { ok, err := pks[1].Verify(sigs[1], msg, h); return fmt.Sprint(ok, errClass(err)) },
		func() string { ok, err := pks[1].Verify(sigs[2], msg, h); return fmt.Sprint(ok, errClass(err)) },
		func() string { ok, err := crypto.BLSVerifyPOP(pks[2], pops[2]); return fmt.Sprint(ok, errClass(err)) },
		func() string { ok, err := crypto.SPOCKVerify(pks[0], sigs[0], pks[3], sigs[3]); return fmt.Sprint(ok, errClass(err)) },
		func() string { ok, err := crypto.VerifyBLSSignatureOneMessage(pks, agg, msg, h); return fmt.Sprint(ok, errClass(err)) },
		func() string { ok, err := crypto.VerifyBLSSignatureManyMessages(pks, agg, msgs, hs); return fmt.Sprint(ok, errClass(err)) },
		func() string { b, err := crypto.BatchVerifyBLSSignaturesOneMessage(pks, badSigs, msg, h); return fmt.Sprint(b, errClass(err)) },
		func() string { ok, err := crypto.SPOCKVerifyAgainstData(pks[3], sigs[3], msg, h); return fmt.Sprint(ok, errClass(err)) },
		// the shared signature list with a key list that holds the identity key (the entry is replaced internally: the
		// caller's list must stay untouched), and a shared list with a signature of the wrong length
		func() string { b, err := crypto.BatchVerifyBLSSignaturesOneMessage(pksId, sigs, msg, h); return fmt.Sprint(b, errClass(err)) },
		func() string { b, err := crypto.BatchVerifyBLSSignaturesOneMessage(pks, shortSigs, msg, h); return fmt.Sprint(b, errClass(err)) },
		func() string { ok, err := crypto.VerifyBLSSignatureOneMessage(pksId, agg, msg, h); return fmt.Sprint(ok, errClass(err)) },
		func() string { k, err := crypto.AggregateBLSPublicKeys(pks); return hx(k.Encode()) + errClass(err) },
		func() string { s, err := crypto.AggregateBLSSignatures(sigs); return hx(s) + errClass(err) },
		func() string { k, err := crypto.RemoveBLSPublicKeys(aggPk, pks[:2]); return hx(k.Encode()) + errClass(err) },
		// rejected calls in the mix (an error path that returns scratch memory twice, or leaves shared state half
		// updated, shows in the calls that follow)
		func() string { s, err := crypto.AggregateBLSSignatures(shortSigs); return hx(s) + errClass(err) },
		func() string { s, err := crypto.AggregateBLSSignatures(badSigs[:3]); return hx(s) + errClass(err) },
		func() string {
			ok, err := crypto.VerifyBLSSignatureManyMessages(pksId, agg, msgs, hs)
			return fmt.Sprint(ok, errClass(err))
		},
		func() string { return fmt.Sprint(pks[0].Equals(pks[1]), pks[2].Equals(pks[2]), pks[0].String() == pks[0].String()) },
	}
	want := make([]string, len(ops))
	for i, op := range ops {
		want[i] = op()
	}
	// snapshots of the shared arguments
	snapKeys := make([][]byte, nk)
	for i := range pks {
		snapKeys[i] = pks[i].Encode()
	}
	snapSk := sks[0].Encode()
	snapMsg := append([]byte{}, msg...)
	snapSigs := make([][]byte, nk)
	for i := range sigs {
		snapSigs[i] = append([]byte{}, sigs[i]...)
	}
	snapAgg := append([]byte{}, agg...)
	wantHash := h.ComputeHash(msg)
	results := make([]string, g)
	var wg sync.WaitGroup
	for i := 0; i < g; i++ {
		wg.Add(1)
		go func(i int) {
			defer wg.Done()
			for rep := 0; rep < 6; rep++ {
				k := (i + rep*5) % len(ops)
				if got := ops[k](); got != want[k] {
					results[i] = fmt.Sprintf("result-changed op %d", k)
				}
			}
		}(i)
	}
	wg.Wait()
	for _, r := range results {
		if r != "" {
			return r
		}
	}
	for i := range pks {
		if !bytes.Equal(pks[i].Encode(), snapKeys[i]) || !bytes.Equal(sigs[i], snapSigs[i]) {
			return "argument-modified"
		}
	}
	if !bytes.Equal(shortSigs[1], snapShort) || len(shortSigs[1]) != 20 || !bytes.Equal(shortSigs[0], snapSigs[0]) {
		return "argument-modified"
	}
	if !bytes.Equal(sks[0].Encode(), snapSk) || !bytes.Equal(msg, snapMsg) || !bytes.Equal(agg, snapAgg) || !bytes.Equal(h.ComputeHash(msg), wantHash) {
		return "argument-modified"
	}
	return "ok"
}

// mixBLSAfterRejected: a call history, then concurrency. A run of REJECTED calls made alone (lists with a signature of the
// wrong length, empty lists, lists of unequal lengths, a key of the wrong type), then every goroutine aggregates and
// batch-verifies its own LONG list (the C calls last milliseconds, so the calls really overlap); every result must be
// the one the same call gave before the rejected calls were made. Scratch memory that an error path hands back twice,
// or global state an error path leaves half-updated, is shared by the later calls only when they overlap.
func mixBLSAfterRejected(c *Ctx, g int, r int) string {
	h := crypto.NewExpandMsgXOFKMAC128("shared-after-rejected")
	const base = 12
	listLen := 150 + 50*(r%3)
	msg := c.bytes(33)
	pks := make([]crypto.PublicKey, base)
	sigs := make([]crypto.Signature, base)
	for i := 0; i < base; i++ {
		sk := skFromInt(c.randScalar())
		pks[i] = sk.PublicKey()
		sigs[i], _ = sk.Sign(msg, h)
	}
	lists := make([][]crypto.Signature, g)
	keys := make([][]crypto.PublicKey, g)
	for w := 0; w < g; w++ {
		lists[w] = make([]crypto.Signature, listLen)
		keys[w] = make([]crypto.PublicKey, listLen)
		for j := 0; j < listLen; j++ {
			k := (j*(w+1) + w + (j*j)%(w+2)) % base
			lists[w][j], keys[w][j] = sigs[k], pks[k]
		}
		// one wrong signature in every list, at a different place: the batch verdicts are then list-specific
		lists[w][(7*w+3)%listLen] = sigs[(w+5)%base]
		keys[w][(7*w+3)%listLen] = pks[(w+6)%base]
	}
	call := func(w, kind int) string {
		switch kind {
		case 0:
			s, err := crypto.AggregateBLSSignatures(lists[w])
			return hx(s) + errClass(err)
		case 1:
			b, err := crypto.BatchVerifyBLSSignaturesOneMessage(keys[w][:48], lists[w][:48], msg, h)
			return fmt.Sprint(b, errClass(err))
		default:
			k, err := crypto.AggregateBLSPublicKeys(keys[w])
			if err != nil {
				return errClass(err)
			}
			return hx(k.Encode())
		}
	}
	want := make([][3]string, g)
	for w := 0; w < g; w++ {
		for kind := 0; kind < 3; kind++ {
			want[w][kind] = call(w, kind)
		}
	}
	// the rejected calls, alone
	short := []crypto.Signature{sigs[0], sigs[1][:47], sigs[2]}
	long := []crypto.Signature{sigs[0], append(append([]byte{}, sigs[1]...), 0), sigs[2]}
	ec := ecSk(ecCurves[0], big.NewInt(7)).PublicKey()
	for i := 0; i < 24; i++ {
		switch (i + r) % 6 {
		case 0:
			_, _ = crypto.AggregateBLSSignatures(short)
		case 1:
			_, _ = crypto.AggregateBLSSignatures(long)
		case 2:
			_, _ = crypto.BatchVerifyBLSSignaturesOneMessage(pks[:3], short, msg, h)
		case 3:
			_, _ = crypto.AggregateBLSSignatures(nil)
		case 4:
			_, _ = crypto.BatchVerifyBLSSignaturesOneMessage(pks[:2], sigs[:3], msg, h)
		default:
			_, _ = crypto.AggregateBLSPublicKeys([]crypto.PublicKey{pks[0], ec})
		}
	}
	results := make([]string, g)
	start := make(chan struct{})
	var wg sync.WaitGroup
	for w := 0; w < g; w++ {
		wg.Add(1)
		go func(w int) {
			defer wg.Done()
			<-start
			for rep := 0; rep < 5; rep++ {
				kind := []int{0, 0, 1, 0, 2}[(w+rep)%5]
				if got := call(w, kind); got != want[w][kind] {
					results[w] = fmt.Sprintf("result-changed worker %d call %d", w, kind)
				}
			}
		}(w)
	}
	close(start)
	wg.Wait()
	for _, x := range results {
		if x != "" {
			return x
		}
	}
	return "ok"
}

// mixBLSDistinctInputs: every goroutine works on its OWN message, tag and key (the calls share no argument but the
// process: state kept between calls inside the library - a memo of the last hash-to-curve, a scratch buffer - is then
// fed different inputs by overlapping calls), in a tight loop of sign / verify / PoP compared with the results of the
// same calls made alone; then each goroutine's calls are made once more, sequentially (a memo poisoned while the calls
// overlapped gives a wrong answer even to a later sequential call).
func mixBLSDistinctInputs(c *Ctx, g int) string {
	type job struct {
		sk      crypto.PrivateKey
		pk      crypto.PublicKey
		h       hash.Hasher
		msg     []byte
		sig     crypto.Signature
		pop     crypto.Signature
		wantSig string
	}
	shared := crypto.NewExpandMsgXOFKMAC128("distinct-shared")
	jobs := make([]*job, g)
	for i := range jobs {
		j := &job{sk: skFromInt(c.randScalar()), msg: c.bytes(10 + i)}
		j.pk = j.sk.PublicKey()
		if i%2 == 0 {
			j.h = shared
		} else {
			j.h = crypto.NewExpandMsgXOFKMAC128(fmt.Sprintf("distinct-%d", i))
		}
		j.sig, _ = j.sk.Sign(j.msg, j.h)
		j.pop, _ = crypto.BLSGeneratePOP(j.sk)
		j.wantSig = hx(j.sig)
		jobs[i] = j
	}
	// every worker also has its own committee (2 to 5 keys, all different from the other workers' lists), with the
	// committee's aggregate signature on a message COMMON to all workers: a key list or an aggregated key remembered from
	// one call and served to an overlapping call with another list shows as a rejected valid aggregate, or as another
	// committee's aggregate accepted
	common := []byte("one message for every committee")
	type committee struct {
		pks     []crypto.PublicKey
		sigs    []crypto.Signature
		agg     crypto.Signature
		wantKey string
	}
	coms := make([]*committee, g)
	for i := range coms {
		cm := &committee{}
		for k := 0; k < 2+i%4; k++ {
			sk := skFromInt(c.randScalar())
			sg, _ := sk.Sign(common, shared)
			cm.pks = append(cm.pks, sk.PublicKey())
			cm.sigs = append(cm.sigs, sg)
		}
		cm.agg, _ = crypto.AggregateBLSSignatures(cm.sigs)
		ak, _ := crypto.AggregateBLSPublicKeys(cm.pks)
		cm.wantKey = hx(ak.Encode())
		coms[i] = cm
	}
	comRound := func(i int) string {
		cm, other := coms[i], coms[(i+1)%g]
		if ok, err := crypto.VerifyBLSSignatureOneMessage(cm.pks, cm.agg, common, shared); err != nil || !ok {
			return "valid-aggregate-rejected"
		}
		if g > 1 {
			if ok, _ := crypto.VerifyBLSSignatureOneMessage(cm.pks, other.agg, common, shared); ok {
				return "aggregate-of-another-committee-accepted"
			}
		}
		if ak, err := crypto.AggregateBLSPublicKeys(cm.pks); err != nil || hx(ak.Encode()) != cm.wantKey {
			return "aggregated-key-changed"
		}
		if bs, err := crypto.BatchVerifyBLSSignaturesOneMessage(cm.pks, cm.sigs, common, shared); err != nil || strings.Contains(fmt.Sprint(bs), "false") {
			return "batch-rejected-valid-signatures"
		}
		return ""
	}
	round0 := func(j *job) string {
		s, err := j.sk.Sign(j.msg, j.h)
		if err != nil || hx(s) != j.wantSig {
			return "sign-result-changed"
		}
		if ok, err := j.pk.Verify(j.sig, j.msg, j.h); err != nil || !ok {
			return "valid-signature-rejected"
		}
		if ok, err := crypto.BLSVerifyPOP(j.pk, j.pop); err != nil || !ok {
			return "valid-pop-rejected"
		}
		if ok, _ := j.pk.Verify(j.pop, j.msg, j.h); ok {
			return "pop-accepted-as-signature"
		}
		return ""
	}
	round := func(j *job) string {
		if r := round0(j); r != "" {
			return r
		}
		for i := range jobs {
			if jobs[i] == j {
				return comRound(i)
			}
		}
		return ""
	}
	results := make([]string, g)
	start := make(chan struct{})
	var wg sync.WaitGroup
	for i := 0; i < g; i++ {
		wg.Add(1)
		go func(i int) {
			defer wg.Done()
			<-start
			for rep := 0; rep < 25; rep++ {
				if r := round(jobs[i]); r != "" {
					results[i] = fmt.Sprintf("%s worker %d", r, i)
					return
				}
			}
		}(i)
	}
	close(start)
	wg.Wait()
	for _, r := range results {
		if r != "" {
			return r
		}
	}
	for i, j := range jobs {
		if r := round(j); r != "" {
			return fmt.Sprintf("%s afterwards, alone, worker %d", r, i)
		}
	}
	return "ok"
}

// mixBLSManyMessages: overlapping aggregate verifications that each need several batches of pairings (9 to 20 distinct
// messages and keys per call: scratch memory of the second and later batches that is shared between calls is clobbered
// only then), valid and invalid aggregates, compared with the verdicts of the same calls made alone
func mixBLSManyMessages(c *Ctx, g int) string {
	type job struct {
		pks  []crypto.PublicKey
		msgs [][]byte
		hs   []hash.Hasher
		agg  crypto.Signature
		bad  crypto.Signature
	}
	h := crypto.NewExpandMsgXOFKMAC128("many-shared")
	jobs := make([]*job, g)
	for i := range jobs {
		n := 9 + (i*5)%12
		j := &job{}
		var sigs []crypto.Signature
		for k := 0; k < n; k++ {
			sk := skFromInt(c.randScalar())
			m := c.bytes(8 + k)
			s, _ := sk.Sign(m, h)
			j.pks, j.msgs, j.hs = append(j.pks, sk.PublicKey()), append(j.msgs, m), append(j.hs, h)
			sigs = append(sigs, s)
		}
		j.agg, _ = crypto.AggregateBLSSignatures(sigs)
		j.bad, _ = crypto.AggregateBLSSignatures(sigs[1:])
		jobs[i] = j
	}
	round := func(j *job) string {
		ok, err := crypto.VerifyBLSSignatureManyMessages(j.pks, j.agg, j.msgs, j.hs)
		if err != nil || !ok {
			return "valid-aggregate-rejected"
		}
		ok, err = crypto.VerifyBLSSignatureManyMessages(j.pks, j.bad, j.msgs, j.hs)
		if err != nil || ok {
			return "invalid-aggregate-accepted"
		}
		return ""
	}
	for i, j := range jobs {
		if r := round(j); r != "" {
			return fmt.Sprintf("%s alone, worker %d", r, i)
		}
	}
	results := make([]string, g)
	start := make(chan struct{})
	var wg sync.WaitGroup
	for i := 0; i < g; i++ {
		wg.Add(1)
		go func(i int) {
			defer wg.Done()
			<-start
			for rep := 0; rep < 4; rep++ {
				if r := round(jobs[i]); r != "" {
					results[i] = fmt.Sprintf("%s worker %d", r, i)
					return
				}
			}
		}(i)
	}
	close(start)
	wg.Wait()
	for _, r := range results {
		if r != "" {
			return r
		}
	}
	return "ok"
}

// mixBLSFirstUse: the very FIRST use of a freshly built key object is concurrent: for every provenance of a public key
// (generated, decoded, result of a removal = non-affine coordinates, key share of threshold key generation = non-affine)
// and every listed operation, a fresh object is built and ALL goroutines start the same operation on it at the same
// moment (anything a key computes or normalises lazily is then done by several goroutines at once - in Go, where the
// race detector sees it, or in C, where only the results show it). Expected results come from twin objects built the
// same way and used alone; afterwards the shared object must still encode and verify like its twin.
func mixBLSFirstUse(c *Ctx, g int) string {
	h := crypto.NewExpandMsgXOFKMAC128("first")
	msg := c.bytes(33)
	k1, k2 := c.randScalar(), c.randScalar()
	thSeed := c.bytes(32)
	refSk := skFromInt(k1)
	sig, _ := refSk.Sign(msg, h)
	pop, _ := crypto.BLSGeneratePOP(refSk)
	snapSig, snapPop := append([]byte{}, sig...), append([]byte{}, pop...)
	// threshold key shares: the signature and PoP of share 0
	thSks, _, _, err := crypto.BLSThresholdKeyGen(3, 1, thSeed)
	if err != nil {
		return "err"
	}
	thSig, _ := thSks[0].Sign(msg, h)
	thPop, _ := crypto.BLSGeneratePOP(thSks[0])
	type built struct {
		pk       crypto.PublicKey
		sig, pop []byte
	}
	builders := []func() built{
		func() built { return built{skFromInt(k1).PublicKey(), sig, pop} },
		func() built {
			d, _ := crypto.DecodePublicKey(crypto.BLSBLS12381, skFromInt(k1).PublicKey().Encode())
			return built{d, sig, pop}
		},
		func() built {
			q1, q2 := skFromInt(k1).PublicKey(), skFromInt(k2).PublicKey()
			agg, _ := crypto.AggregateBLSPublicKeys([]crypto.PublicKey{q1, q2})
			rem, _ := crypto.RemoveBLSPublicKeys(agg, []crypto.PublicKey{q2}) // = pk1, not normalised
			return built{rem, sig, pop}
		},
		func() built {
			_, pks, _, _ := crypto.BLSThresholdKeyGen(3, 1, thSeed) // key shares are not normalised
			return built{pks[0], thSig, thPop}
		},
	}
	opsOf := func(b built) []func() string {
		pk := b.pk
		return []func() string{
			func() string { ok, err := pk.Verify(b.sig, msg, h); return fmt.Sprint(ok, errClass(err)) },
			func() string { ok, err := crypto.BLSVerifyPOP(pk, b.pop); return fmt.Sprint(ok, errClass(err)) },
			func() string { return hx(pk.Encode()) },
			func() string {
				ok, err := crypto.VerifyBLSSignatureOneMessage([]crypto.PublicKey{pk}, b.sig, msg, h)
				return fmt.Sprint(ok, errClass(err))
			},
			func() string { ok, err := crypto.SPOCKVerify(pk, b.sig, pk, b.sig); return fmt.Sprint(ok, errClass(err)) },
		}
	}
	for bi, build := range builders {
		twin := opsOf(build())
		want := make([]string, len(twin))
		for i, op := range twin {
			want[i] = op()
		}
		for oi := range twin {
			fresh := build()
			ops := opsOf(fresh)
			results := make([]string, g)
			start := make(chan struct{})
			var wg sync.WaitGroup
			for i := 0; i < g; i++ {
				wg.Add(1)
				go func(i int) {
					defer wg.Done()
					<-start
					if got := ops[oi](); got != want[oi] {
						results[i] = fmt.Sprintf("result-changed provenance %d op %d: got %s want %s", bi, oi, got, want[oi])
					}
				}(i)
			}
			close(start)
			wg.Wait()
			for _, r := range results {
				if r != "" {
					return r
				}
			}
			// the shared object after its concurrent first use
			for k, op := range ops {
				if got := op(); got != want[k] {
					return fmt.Sprintf("key-changed-by-concurrent-first-use provenance %d first-op %d then op %d: got %s want %s", bi, oi, k, got, want[k])
				}
			}
		}
	}
	if !bytes.Equal(sig, snapSig) || !bytes.Equal(pop, snapPop) {
		return "argument-modified"
	}
	return "ok"
}

func mixECDSA(c *Ctx, g int) string {
	// a message longer than a sponge block that starts at an odd address (a staging copy for unaligned input that is
	// shared between hasher objects is used only then)
	frame := c.bytes(1 + 400)
	msg := frame[1:]
	for _, cv := range ecCurves {
		sk := ecSk(cv, c.randMod(cv.n))
		pk := sk.PublicKey()
		sig, err := sk.Sign(msg, hash.NewSHA3_256())
		if err != nil {
			return "err"
		}
		snapPk, snapSk, snapSig := pk.Encode(), sk.Encode(), append([]byte{}, sig...)
		results := make([]string, g)
		var wg sync.WaitGroup
		for i := 0; i < g; i++ {
			wg.Add(1)
			go func(i int) {
				defer wg.Done()
				hs := hash.NewSHA3_256() // per-goroutine hasher
				for rep := 0; rep < 3; rep++ {
					if i%2 == 0 {
						ok, err := pk.Verify(sig, msg, hs)
						if !ok || err != nil {
							results[i] = "result-changed verify"
						}
						ok2, _ := pk.Verify(flipBitRaw(sig, 9), msg, hs)
						if ok2 {
							results[i] = "result-changed verify-bad"
						}
					} else {
						s2, err := sk.Sign(msg, hs)
						if err != nil {
							results[i] = "sign error"
							continue
						}
						ok, _ := pk.Verify(s2, msg, hs)
						if !ok {
							results[i] = "result-changed sign"
						}
					}
				}
			}(i)
		}
		wg.Wait()
		for _, r := range results {
			if r != "" {
				return r
			}
		}
		if !bytes.Equal(pk.Encode(), snapPk) || !bytes.Equal(sk.Encode(), snapSk) || !bytes.Equal(sig, snapSig) {
			return "argument-modified"
		}
	}
	_ = big.NewInt
	return "ok"
}

// mixBLSOneMessageLists: nothing but overlapping VerifyBLSSignatureOneMessage / AggregateBLSPublicKeys calls, every
// worker with its own key list (8 to 40 keys: the aggregation of the list takes long enough for calls to overlap inside
// it), all on one message. Each worker alternates between its own list (valid aggregate: true) and its own list with
// the aggregate of its neighbour (false). Anything remembered about "the last list" across calls is wrong here.
func mixBLSOneMessageLists(c *Ctx, g int) string {
	h := crypto.NewExpandMsgXOFKMAC128("lists")
	msg := []byte("one message, many committees")
	type committee struct {
		pks     []crypto.PublicKey
		agg     crypto.Signature
		wantKey string
	}
	coms := make([]*committee, g)
	for i := range coms {
		cm := &committee{}
		var sigs []crypto.Signature
		for k := 0; k < 8+(i*7)%33; k++ {
			sk := skFromInt(c.randScalar())
			sg, _ := sk.Sign(msg, h)
			cm.pks = append(cm.pks, sk.PublicKey())
			sigs = append(sigs, sg)
		}
		cm.agg, _ = crypto.AggregateBLSSignatures(sigs)
		ak, _ := crypto.AggregateBLSPublicKeys(cm.pks)
		cm.wantKey = hx(ak.Encode())
		coms[i] = cm
	}
	results := make([]string, g)
	start := make(chan struct{})
	var wg sync.WaitGroup
	for i := 0; i < g; i++ {
		wg.Add(1)
		go func(i int) {
			defer wg.Done()
			cm, other := coms[i], coms[(i+1)%g]
			<-start
			for rep := 0; rep < 12; rep++ {
				r := guard(func() string {
					if ok, err := crypto.VerifyBLSSignatureOneMessage(cm.pks, cm.agg, msg, h); err != nil || !ok {
						return "valid-aggregate-rejected"
					}
					if g > 1 {
						if ok, _ := crypto.VerifyBLSSignatureOneMessage(cm.pks, other.agg, msg, h); ok {
							return "aggregate-of-another-committee-accepted"
						}
					}
					if ak, err := crypto.AggregateBLSPublicKeys(cm.pks); err != nil || hx(ak.Encode()) != cm.wantKey {
						return "aggregated-key-changed"
					}
					return ""
				})
				if r != "" {
					results[i] = fmt.Sprintf("%s worker %d repetition %d", r, i, rep)
					return
				}
			}
		}(i)
	}
	close(start)
	wg.Wait()
	for _, r := range results {
		if r != "" {
			return r
		}
	}
	for i, cm := range coms { // and afterwards, alone
		if ok, err := crypto.VerifyBLSSignatureOneMessage(cm.pks, cm.agg, msg, h); err != nil || !ok {
			return fmt.Sprintf("valid-aggregate-rejected afterwards, alone, committee %d", i)
		}
	}
	return "ok"
}
