package main

import (
	"fmt"
	"math/big"
	"strings"
	"sync"

	"github.com/onflow/crypto"
	"github.com/onflow/crypto/hash"
)

func init() { generators["C20"] = genC20 }

// genC20: a deterministic transcript of operations over seeded inputs. Part A needs no cgo; part B (BLS) is
// produced by builds with cgo only. The same program is built in every configuration of the property.
func genC20(c *Ctx) {
	// ---- part A: hashing, KMAC, PRG, ECDSA
	genC13(c)
	genC14(c)
	genC15(c)
	genC05ecdsa(c)
	for _, cv := range ecCurves {
		for l := 30; l <= 70; l += 5 {
			seed := c.bytes(l)
			ans := guard(func() string {
				sk, err := crypto.GeneratePrivateKey(cv.algo, seed)
				if err != nil {
					return "err"
				}
				return "ok " + hx(sk.Encode()) + " " + hx(sk.PublicKey().Encode())
			})
			c.Case("ecdsa-keygen", fmt.Sprintf("keygen %s %s", cv.name, hx(seed)), ans)
		}
		// verification of deterministic signatures made by the model (fixed nonces)
		hashers := []hash.Hasher{hash.NewSHA2_256(), hash.NewSHA3_256(), hash.NewSHA2_384(), hash.NewKeccak_256()}
		for i := 0; i < 12; i++ {
			d := c.randMod(cv.n)
			k := c.randMod(cv.n)
			msg := c.bytes(10 + i)
			h := hashers[i%len(hashers)]
			digest := []byte(h.ComputeHash(msg))
			sig := askBytes(fmt.Sprintf("ecdsa signwith %s %s %s %s", cv.name, hx(be(d, 32)), hx(be(k, 32)), hx(digest)))
			pk := ecSk(cv, d).PublicKey()
			for _, cand := range [][]byte{sig, flipBitRaw(sig, c.intn(512)), append(be(new(big.Int).SetBytes(sig[:32]), 32), be(new(big.Int).Sub(cv.n, new(big.Int).SetBytes(sig[32:])), 32)...)} {
				ans := guard(func() string {
					ok, err := pk.Verify(cand, msg, h)
					if err != nil {
						return "err"
					}
					return fmt.Sprint(ok)
				})
				c.Case("ecdsa-verify", fmt.Sprintf("ecdsa verify %s %s %s %s", cv.name, hx(pk.Encode()), hx(digest), hx(cand)), ans)
			}
		}
	}
	genC20conc(c)
	c.Case("marker", "expect part-B #", "part-B")
	// ---- part B: BLS12-381 (cgo builds)
	genC20bls(c)
}

// genC20conc: the same digests computed by several goroutines at once, each with its own hasher objects (a
// configuration-specific code path that keeps state outside the hasher - a package-level scratch array in the pure-Go
// permutation, say - gives wrong digests only when two permutations overlap in time). The transcript lists the
// results in a fixed order, so it is comparable across configurations and with the model.
func genC20conc(c *Ctx) {
	const G = 8
	perG := 40
	if c.thorough() {
		perG = 400
	}
	datas := map[string][]byte{}
	type job struct {
		algo hashAlgo
		ops  []string
	}
	jobs := make([][]job, G)
	for g := 0; g < G; g++ {
		for i := 0; i < perG; i++ {
			a := hashAlgos[(g+i)%len(hashAlgos)]
			l := (g*37 + i*13) % (3*a.rate + 2)
			d := genData(datas, l, 40+g)
			d2 := genData(datas, (l*7+g)%(2*a.rate), 50+i%5)
			ops := []string{"w:" + d, "w:" + d2, "s", "r", "c:" + d}
			if a.oneShot != nil {
				ops = append(ops, "o:"+d2)
			}
			jobs[g] = append(jobs[g], job{a, ops})
		}
	}
	answers := make([][]string, G)
	start := make(chan struct{})
	var wg sync.WaitGroup
	for g := 0; g < G; g++ {
		answers[g] = make([]string, perG)
		wg.Add(1)
		go func(g int) {
			defer wg.Done()
			<-start
			for i, j := range jobs[g] {
				answers[g][i] = runHashOps(j.algo.mk(), j.algo.oneShot, j.ops, datas)
			}
		}(g)
	}
	close(start)
	wg.Wait()
	for g := 0; g < G; g++ {
		for i, j := range jobs[g] {
			c.Case("concurrent-digests/"+j.algo.name, "hash "+j.algo.name+" "+strings.Join(j.ops, " "), answers[g][i])
		}
	}
}
