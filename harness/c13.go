package main

import (
	"math"
	"fmt"
	"strings"

	"github.com/onflow/crypto/hash"
)

func init() { generators["C13"] = genC13 }

type hashAlgo struct {
	name     string
	mk       func() hash.Hasher
	sponge   bool
	rate     int
	oneShot  func([]byte) []byte
}

var hashAlgos = []hashAlgo{
	{"sha2_256", hash.NewSHA2_256, false, 64, func(b []byte) []byte { var r [32]byte; hash.ComputeSHA2_256(&r, b); return r[:] }},
	{"sha2_384", hash.NewSHA2_384, false, 128, nil},
	{"sha3_256", hash.NewSHA3_256, true, 136, func(b []byte) []byte { var r [32]byte; hash.ComputeSHA3_256(&r, b); return r[:] }},
	{"sha3_384", hash.NewSHA3_384, true, 104, nil},
	{"keccak256", hash.NewKeccak_256, true, 136, nil},
}

// runHashOps applies protocol ops to a real hasher.
func runHashOps(h hash.Hasher, oneShot func([]byte) []byte, ops []string, datas map[string][]byte) string {
	return guard(func() string {
		var sb strings.Builder
		sb.WriteString("ok")
		// digests are the caller's once returned: every other one is KEPT (not copied) and printed only after all the
		// operations (a digest that aliases the hasher's state changes when the hasher is used again), the others are
		// printed at once and then overwritten (a hasher that hands out its own state is disturbed by that)
		var outs []func() string
		nDig := 0
		emit := func(d []byte) {
			nDig++
			if nDig%2 == 1 {
				outs = append(outs, func() string { return hx(d) })
			} else {
				v := hx(d)
				for i := range d {
					d[i] ^= 0xA5
				}
				outs = append(outs, func() string { return v })
			}
		}
		for _, op := range ops {
			k := op
			arg := ""
			if i := strings.IndexByte(op, ':'); i >= 0 {
				k, arg = op[:i], op[i+1:]
			}
			switch k {
			case "w":
				n, err := h.Write(datas[arg])
				if err != nil || n != len(datas[arg]) {
					outs = append(outs, func() string { return "write-error" })
				}
			case "s":
				emit(h.SumHash())
			case "S": // a call whose result nothing specifies (a second finalisation): made, result dropped
				_ = h.SumHash()
			case "W":
				_, _ = h.Write(datas[arg])
			case "r":
				h.Reset()
			case "c":
				in := append([]byte{}, datas[arg]...)
				emit(h.ComputeHash(in))
				for i := range in {
					in[i] = 0x5A
				}
			case "o":
				emit(oneShot(datas[arg]))
			}
		}
		for _, o := range outs {
			sb.WriteString(" " + o())
		}
		return sb.String()
	})
}

// genData registers a data blob described as gen:<len>:<id> and returns the token.
func genData(datas map[string][]byte, l, id int) string {
	tok := fmt.Sprintf("gen:%d:%d", l, id)
	if _, ok := datas[tok]; !ok {
		datas[tok] = lcgBytes(l, id)
	}
	return tok
}

// lcgBytes is the protocol byte generator (same as Model.genBytes).
func lcgBytes(l, id int) []byte {
	x := uint32(uint64(l)*2654435761 + uint64(id))
	b := make([]byte, l)
	for i := range b {
		x = 1664525*x + 1013904223
		b[i] = byte(x >> 24)
	}
	return b
}

func genC13(c *Ctx) {
	datas := map[string][]byte{}
	maxLenMul, splitStride, nSeq := 2, 7, 60
	if c.thorough() {
		maxLenMul, splitStride, nSeq = 4, 1, 1500
	}
	for _, a := range hashAlgos {
		emit := func(class string, ops []string) {
			// "S" and "W:" are calls made on a finalised sponge, whose own results nothing specifies: the model is not
			// told about them; what is specified is that the Reset or ComputeHash that follows starts afresh
			spec := []string{}
			for _, o := range ops {
				if o != "S" && !strings.HasPrefix(o, "W:") {
					spec = append(spec, o)
				}
			}
			line := "hash " + a.name + " " + strings.Join(spec, " ")
			c.Case(class+"/"+a.name, strings.TrimSpace(line), runHashOps(a.mk(), a.oneShot, ops, datas))
		}
		// every length 0..k*rate: ComputeHash, never-reset Write+SumHash, one-shot helper
		for l := 0; l <= maxLenMul*a.rate+1; l++ {
			d := genData(datas, l, 1)
			ops := []string{"w:" + d, "s", "r", "c:" + d}
			if a.oneShot != nil {
				ops = append(ops, "o:"+d)
			}
			emit("every-length", ops)
		}
		// every 2-split of every length (stride in quick tier), after a Reset on a dirty object
		for l := 1; l <= maxLenMul*a.rate+1; l++ {
			full := lcgBytes(l, 2)
			for cut := c.intn(splitStride); cut <= l; cut += splitStride {
				d1, d2 := "x"+fmt.Sprint(len(datas)), "y"+fmt.Sprint(len(datas))
				_ = d1
				_ = d2
				// express the two halves in hex so both sides see the same bytes
				h1, h2 := hx(full[:cut]), hx(full[cut:])
				datas[h1], datas[h2] = full[:cut], full[cut:]
				emit("two-split", []string{"w:" + genData(datas, 5, 9), "r", "w:" + h1, "w:" + h2, "s"})
				delete(datas, h1)
				delete(datas, h2)
			}
		}
		// multi-splits of longer messages
		for i := 0; i < nSeq; i++ {
			total := c.intn(6 * a.rate)
			full := c.bytes(total)
			ops := []string{"r"}
			rest := full
			for len(rest) > 0 {
				k := 1 + c.intn(a.rate+40)
				if c.intn(4) == 0 {
					k = a.rate * (1 + c.intn(2))
				}
				if k > len(rest) {
					k = len(rest)
				}
				h := hx(rest[:k])
				datas[h] = rest[:k]
				ops = append(ops, "w:"+h)
				rest = rest[k:]
			}
			ops = append(ops, "s")
			emit("multi-split", ops)
		}
		// use of a finalised object: whatever is done to it, Reset and ComputeHash start afresh
		if a.sponge {
			d := genData(datas, 5, 11)
			e := genData(datas, a.rate+3, 12)
			for _, pre := range [][]string{
				{"c:" + d, "S"}, {"S", "S"}, {"w:" + d, "s", "S"}, {"w:" + e, "s", "W:" + d, "S"}, {"c:" + e, "S", "S", "S"},
				{"w:" + d, "s", "W:" + e}, {"S"}, {"c:" + d, "W:" + e, "S"},
			} {
				emit("after-finalised", append(append([]string{}, pre...), "r", "w:"+d, "s", "c:"+e, "r", "w:"+e, "w:"+d, "s"))
				emit("after-finalised", append(append([]string{}, pre...), "c:"+e, "c:"+d, "r", "s"))
			}
		}
		// op interleavings on one object (only sequences the documentation defines)
		for i := 0; i < nSeq; i++ {
			ops := []string{}
			finalised := false // sponge: after SumHash/ComputeHash only Reset or ComputeHash are defined
			for j := 0; j < 8; j++ {
				d := genData(datas, []int{0, 1, a.rate - 1, a.rate, a.rate + 1, 3, 200}[c.intn(7)], c.intn(50))
				if a.sponge && finalised && c.intn(3) == 0 { // unspecified calls in between, results dropped
					ops = append(ops, "S")
					if c.intn(2) == 0 {
						ops = append(ops, "W:"+d, "S")
					}
				}
				switch c.intn(4) {
				case 0:
					if a.sponge && finalised {
						ops = append(ops, "r")
						finalised = false
					}
					ops = append(ops, "w:"+d)
				case 1:
					if a.sponge && finalised {
						ops = append(ops, "r")
						finalised = false
					}
					ops = append(ops, "s")
					finalised = true
				case 2:
					ops = append(ops, "r")
					finalised = false
				case 3:
					ops = append(ops, "c:"+d)
					finalised = true
				}
			}
			emit("interleaving", ops)
		}
	}
	// long messages
	for _, a := range hashAlgos {
		for _, l := range []int{10000, 65535, 65536, 65537, 1<<20 + 1} {
			d := genData(datas, l, 3)
			c.Case("long/"+a.name, "hash "+a.name+" c:"+d, runHashOps(a.mk(), a.oneShot, []string{"c:" + d}, datas))
		}
		// a long message written in two pieces around 64 KiB, after a short first write (buffered path, then fast path)
		d1, d2, d3 := genData(datas, 5, 61), genData(datas, 65531, 62), genData(datas, 70000, 63)
		c.Case("long-writes/"+a.name, "hash "+a.name+" w:"+d1+" w:"+d2+" w:"+d3+" s", runHashOps(a.mk(), a.oneShot, []string{"w:" + d1, "w:" + d2, "w:" + d3, "s"}, datas))
	}
	genC13kmac(c, datas)
}

func genC13kmac(c *Ctx, datas map[string][]byte) {
	nKey, nSeq := 401, 40
	if c.thorough() {
		nKey, nSeq = 700, 1000
	}
	run := func(class string, key, cust []byte, outLen int, ops []string) {
		line := fmt.Sprintf("kmac %s %s %d %s", hx(key), hx(cust), outLen, strings.Join(ops, " "))
		ans := guard(func() string {
			// the key and customizer buffers are the caller's: they are wiped right after the constructor returns
			// (a hasher that kept references to them would compute under the wiped key at its next Reset / ComputeHash)
			var kbuf, cbuf []byte
			if key != nil {
				kbuf = append([]byte{}, key...)
			}
			if cust != nil {
				cbuf = append([]byte{}, cust...)
			}
			h, err := hash.NewKMAC_128(kbuf, cbuf, outLen)
			if err != nil {
				return "err"
			}
			for i := range kbuf {
				kbuf[i] = 0
			}
			for i := range cbuf {
				cbuf[i] ^= 0xFF
			}
			if h.Size() != outLen {
				return "size-mismatch"
			}
			return runHashOps(h, nil, ops, datas)
		})
		c.Case(class, strings.TrimSpace(line), ans)
	}
	d1 := genData(datas, 33, 4)
	// pairs (key, customizer) whose concatenations coincide (a memo keyed by the concatenation confuses them): created
	// one after the other in this process
	{
		T := c.bytes(60)
		d := genData(datas, 40, 9)
		for round := 0; round < 2; round++ {
			for _, cut := range []int{33, 60, 16, 48, 17, 59} {
				run("kmac-key-customizer-split", T[:cut], T[cut:], 32, []string{"c:" + d, "w:" + d, "s"})
			}
		}
	}
	// every key length 0..nKey (crosses the bytepad boundary at 163, 331, 499, 667)
	for l := 0; l < nKey; l++ {
		run("kmac-keylen", lcgBytes(l, 5), []byte("cust"), 32, []string{"c:" + d1, "w:" + d1, "s"})
	}
	for l := 0; l <= 200; l++ {
		run("kmac-custlen", lcgBytes(16, 6), lcgBytes(l, 7), 16, []string{"c:" + d1})
	}
	for _, out := range []int{math.MinInt64, -(1 << 62) + 128, -(1 << 61), -(1 << 60) - 1, -(1 << 32), -1000, -1, 0, 1, 31, 32, 127, 128, 167, 168, 169, 335, 336, 337, 1000} {
		run("kmac-outlen", lcgBytes(20, 8), nil, out, []string{"c:" + d1, "w:" + d1, "s"})
	}
	if c.thorough() {
		for out := 0; out <= 1000; out++ {
			run("kmac-outlen-all", lcgBytes(20, 8), nil, out, []string{"c:" + d1})
		}
	}
	// data lengths around the rate
	for l := 0; l <= 2*168+1; l++ {
		run("kmac-datalen", lcgBytes(32, 9), []byte("H2C"), 128, []string{"c:" + genData(datas, l, 10)})
	}
	// zero-length writes at every place of a short history (an object that tracks "written since the last reset" must
	// not forget a write because an empty one followed): fixed histories, independent of the random ones below
	{
		e := genData(datas, 0, 1)
		a := genData(datas, 7, 21)
		b := genData(datas, 169, 22)
		for hi, ops := range [][]string{
			{"w:" + a, "w:" + e, "c:" + b, "s"},
			{"w:" + a, "w:" + e, "r", "w:" + b, "s"},
			{"w:" + a, "w:" + e, "s", "w:" + e, "s"},
			{"w:" + e, "w:" + a, "w:" + e, "r", "s"},
			{"w:" + b, "w:" + e, "w:" + e, "c:" + a, "w:" + a, "s"},
			{"c:" + a, "w:" + a, "w:" + e, "c:" + a, "r", "w:" + e, "s"},
			{"w:" + e, "s", "w:" + a, "w:" + e, "r", "w:" + e, "w:" + a, "s"},
		} {
			run(fmt.Sprintf("kmac-empty-writes/%d", hi), lcgBytes(16, 31), []byte("cust"), 32, ops)
			run(fmt.Sprintf("kmac-empty-writes/%d", hi), lcgBytes(200, 32), nil, 128, ops)
		}
	}
	// interleavings: KMAC SumHash/ComputeHash work on a clone, writing afterwards continues the stream
	for i := 0; i < nSeq; i++ {
		ops := []string{}
		for j := 0; j < 8; j++ {
			d := genData(datas, []int{0, 1, 167, 168, 169, 3, 400}[c.intn(7)], c.intn(50))
			switch c.intn(4) {
			case 0:
				ops = append(ops, "w:"+d)
			case 1:
				ops = append(ops, "s")
			case 2:
				ops = append(ops, "r")
			case 3:
				ops = append(ops, "c:"+d)
			}
		}
		run("kmac-interleaving", lcgBytes(16+c.intn(200), c.intn(1000)), lcgBytes(c.intn(40), c.intn(1000)), []int{0, 16, 32, 128, 200}[c.intn(5)], ops)
	}
}
