//go:build !no_cgo

package main

import (
	"bytes"
	"fmt"
	"math/big"

	"github.com/onflow/crypto"
)

func init() { generators["C05"] = genC05 }

// sigParse: E1_read_bytes then E1_write_bytes, observed through AggregateBLSSignatures([b]).
func sigParse(b []byte) string {
	return guard(func() string {
		s, err := crypto.AggregateBLSSignatures([]crypto.Signature{b})
		if err != nil {
			if crypto.IsInvalidSignatureError(err) {
				return "err"
			}
			return "err-other"
		}
		return "ok " + hx(s)
	})
}

// interesting field values for coordinates
func coordValues() []*big.Int {
	p := blsP
	one := big.NewInt(1)
	two381 := new(big.Int).Sub(new(big.Int).Lsh(one, 381), one)
	return []*big.Int{big.NewInt(0), one, big.NewInt(2), big.NewInt(3), new(big.Int).Sub(p, one), new(big.Int).Set(p),
		new(big.Int).Add(p, one), two381, new(big.Int).Rsh(p, 1), new(big.Int).Add(new(big.Int).Rsh(p, 1), one)}
}

func genC05(c *Ctx) {
	genAggLengths(c) // signatures reach the decoder through aggregation too: wrong lengths that add up
	bls := crypto.BLSBLS12381
	nRand, nFlip := 20, 8
	if c.thorough() {
		nRand, nFlip = 300, 96
	}
	// ---- BLS private keys
	rm := func(d int64) *big.Int { return new(big.Int).Add(blsR, big.NewInt(d)) }
	two256 := new(big.Int).Sub(new(big.Int).Lsh(big.NewInt(1), 256), big.NewInt(1))
	for _, v := range []*big.Int{big.NewInt(0), big.NewInt(1), big.NewInt(2), rm(-2), rm(-1), rm(0), rm(1), two256, new(big.Int).Lsh(big.NewInt(1), 248)} {
		b := be(v, 32)
		c.Case("bls-sk-boundary", "fr.dec "+hx(b), decPriv(bls, b))
	}
	// scalars on limb boundaries, reduced (accepted) and not reduced (r + k: rejected); a limb-wise comparison with r
	// that goes wrong when two limbs differ by 2^63 or more would accept the latter
	for limb := 0; limb <= 3; limb++ {
		for _, top := range []uint{63, 62, 0} {
			k := new(big.Int).Lsh(big.NewInt(1), uint(64*limb)+top)
			for _, v := range []*big.Int{k, new(big.Int).Sub(k, big.NewInt(1)), new(big.Int).Add(blsR, k), new(big.Int).Add(blsR, new(big.Int).Sub(k, big.NewInt(1)))} {
				if v.BitLen() <= 256 {
					b := be(v, 32)
					c.Case("bls-sk-limb-boundary", "fr.dec "+hx(b), decPriv(bls, b))
				}
			}
		}
	}
	for l := 0; l <= 200; l++ {
		if l == 32 {
			continue
		}
		b := c.bytes(l)
		if l > 0 {
			b[0] = 0
		}
		c.Case("bls-sk-length", "fr.dec "+hx(b), decPriv(bls, b))
	}
	for i := 0; i < nRand; i++ {
		b := be(c.randScalar(), 32)
		c.Case("bls-sk-random", "fr.dec "+hx(b), decPriv(bls, b))
		fb := flipBit(b, c.intn(256))
		c.Case("bls-sk-bitflip", "fr.dec "+hx(fb), decPriv(bls, fb))
	}
	// ---- BLS signatures (E1 points, no subgroup check at parsing)
	g1pt := func(k *big.Int) []byte { return askBytes("e1 mul 0x" + k.Text(16) + " 97f1d3a73197d7942695638c4fa9ac0fc3688c4f9774b905a14e3a3f171bac586c55e83ff97a1aeffb3af00adb22c6bb") }
	valids := [][]byte{g1pt(big.NewInt(1)), g1pt(rm(-1)), g1pt(c.randScalar()), askBytes("e1 torsion 0"), askBytes("e1 off 0"), askBytes("e1 off 1")}
	for _, v := range valids {
		c.Case("sig-valid", "e1.dec "+hx(v), sigParse(v))
		// every flag-bit combination
		for f := 0; f < 8; f++ {
			o := append([]byte{}, v...)
			o[0] = (o[0] & 0x1f) | byte(f<<5)
			c.Case("sig-flags", "e1.dec "+hx(o), sigParse(o))
		}
		// twin x + p when it still fits
		x := new(big.Int).SetBytes(append([]byte{v[0] & 0x1f}, v[1:]...))
		xp := new(big.Int).Add(x, blsP)
		if xp.BitLen() <= 381 {
			o := be(xp, 48)
			o[0] |= v[0] & 0xe0
			c.Case("sig-x-plus-p", "e1.dec "+hx(o), sigParse(o))
		}
	}
	for i := 0; i < nFlip; i++ {
		v := valids[c.intn(len(valids))]
		o := flipBit(v, c.intn(384))
		c.Case("sig-bitflip", "e1.dec "+hx(o), sigParse(o))
	}
	if c.thorough() {
		for i := 0; i < 384; i++ {
			o := flipBit(valids[2], i)
			c.Case("sig-bitflip-all", "e1.dec "+hx(o), sigParse(o))
		}
	}
	for _, x := range coordValues() {
		for _, hdr := range []byte{0x80, 0xa0} {
			if x.BitLen() > 381 {
				continue
			}
			o := be(x, 48)
			o[0] |= hdr
			c.Case("sig-coord", "e1.dec "+hx(o), sigParse(o))
		}
	}
	// infinity encodings with a non-zero byte at each position
	for pos := 0; pos < 48; pos++ {
		o := make([]byte, 48)
		o[0] = 0xc0
		if pos == 0 {
			o[0] = 0xc1
		} else {
			o[pos] = 1
		}
		c.Case("sig-infinity-dirty", "e1.dec "+hx(o), sigParse(o))
	}
	inf := make([]byte, 48)
	inf[0] = 0xc0
	c.Case("sig-infinity", "e1.dec "+hx(inf), sigParse(inf))
	for l := 0; l <= 200; l++ {
		if l == 48 {
			continue
		}
		o := c.bytes(l)
		if l > 48 {
			copy(o, valids[0])
		}
		c.Case("sig-length", "e1.dec "+hx(o), sigParse(o))
	}
	for i := 0; i < nRand; i++ {
		o := c.bytes(48)
		o[0] = o[0]&0x3f | 0x80
		c.Case("sig-random-x", "e1.dec "+hx(o), sigParse(o))
	}
	// ---- BLS public keys (E2 points + G2 membership)
	pkOf := func(k *big.Int) []byte { return skFromInt(k).PublicKey().Encode() }
	pkValids := [][]byte{pkOf(big.NewInt(1)), pkOf(rm(-1)), pkOf(c.randScalar()), pkOf(c.randScalar())}
	offs := [][]byte{askBytes("e2 off 0"), askBytes("e2 off 1"), askBytes("e2 torsion 0"), askBytes("e2 torsion 1"),
		askBytes("e2 add " + hx(pkValids[0]) + " " + hx(askBytes("e2 torsion 0")))}
	for _, v := range pkValids {
		c.Case("pk-valid", "pk.dec "+hx(v), decPub(bls, v))
		c.Case("pk-valid-compressed-api", "pk.dec "+hx(v), decPubCompressed(bls, v))
		for f := 0; f < 8; f++ {
			o := append([]byte{}, v...)
			o[0] = (o[0] & 0x1f) | byte(f<<5)
			c.Case("pk-flags", "pk.dec "+hx(o), decPub(bls, o))
		}
		// swap of the two F_p components (what a ZCash-ordered encoder would produce)
		o := append(append([]byte{}, v[48:]...), v[:48]...)
		o[0] |= v[0] & 0xe0
		o[48] &= 0x1f
		c.Case("pk-swapped-components", "pk.dec "+hx(o), decPub(bls, o))
		// c0 + p, c1 + p twins
		for part := 0; part < 2; part++ {
			x := new(big.Int).SetBytes(v[48*part : 48*part+48])
			if part == 0 {
				x = new(big.Int).SetBytes(append([]byte{v[0] & 0x1f}, v[1:48]...))
			}
			xp := new(big.Int).Add(x, blsP)
			lim := 384
			if part == 0 {
				lim = 381
			}
			if xp.BitLen() <= lim {
				o := append([]byte{}, v...)
				copy(o[48*part:], be(xp, 48))
				if part == 0 {
					o[0] |= v[0] & 0xe0
				}
				c.Case("pk-coord-plus-p", "pk.dec "+hx(o), decPub(bls, o))
			}
		}
	}
	for _, v := range offs {
		c.Case("pk-outside-g2", "pk.dec "+hx(v), decPub(bls, v))
	}
	for i := 0; i < nFlip; i++ {
		v := pkValids[c.intn(len(pkValids))]
		o := flipBit(v, c.intn(768))
		c.Case("pk-bitflip", "pk.dec "+hx(o), decPub(bls, o))
	}
	for _, x0 := range coordValues() {
		for _, x1 := range []*big.Int{big.NewInt(0), big.NewInt(1), new(big.Int).Sub(blsP, big.NewInt(1)), new(big.Int).Set(blsP)} {
			if x0.BitLen() > 381 {
				continue
			}
			o := append(be(x0, 48), be(x1, 48)...)
			o[0] |= 0x80
			c.Case("pk-coord", "pk.dec "+hx(o), decPub(bls, o))
		}
	}
	for pos := 0; pos < 96; pos++ {
		o := make([]byte, 96)
		o[0] = 0xc0
		if pos == 0 {
			o[0] = 0xc8
		} else {
			o[pos] = 0x80
		}
		c.Case("pk-infinity-dirty", "pk.dec "+hx(o), decPub(bls, o))
	}
	infpk := make([]byte, 96)
	infpk[0] = 0xc0
	c.Case("pk-infinity", "pk.dec "+hx(infpk), decPub(bls, infpk))
	idk := crypto.IdentityBLSPublicKey().Encode()
	if !bytes.Equal(idk, infpk) {
		c.Case("pk-identity-constant", "pk.dec "+hx(infpk), "ok "+hx(idk))
	}
	for l := 0; l <= 200; l++ {
		if l == 96 {
			continue
		}
		o := c.bytes(l)
		if l > 96 {
			copy(o, pkValids[0])
		}
		c.Case("pk-length", "pk.dec "+hx(o), decPub(bls, o))
	}
	for i := 0; i < nRand; i++ {
		o := c.bytes(96)
		o[0] = o[0]&0x1f | 0x80 | byte(c.intn(2)<<5)
		o[48] &= 0x1f
		c.Case("pk-random-x", "pk.dec "+hx(o), decPub(bls, o))
	}
	// the documentation cites the ZCash format: compare the encoding of the generator's multiples with it
	for _, k := range []*big.Int{big.NewInt(1), big.NewInt(2)} {
		if c.prop == "C05" { // the ZCash-format finding F2 is a C05 matter; other transcripts reuse this generator without it
			c.Case("pk-zcash-format", "pk.zcash 0x"+k.Text(16), "ok "+hx(pkOf(k)))
		}
		c.Case("pk-of-scalar", "pk.of 0x"+k.Text(16), "ok "+hx(pkOf(k)))
	}
	for i := 0; i < nRand; i++ {
		k := c.randScalar()
		c.Case("pk-of-scalar", "pk.of 0x"+k.Text(16), "ok "+hx(pkOf(k)))
	}
	// non-reduced abscissas on limb boundaries: x = k with 64-bit limbs of the form 2^63 + small above zero limbs, the valid
	// encoding of k must round-trip and the encoding of p + k (same point, abscissa not reduced) must be rejected; a
	// limb-wise comparison with p that goes wrong when two limbs differ by 2^63 or more would accept it
	for limb := 0; limb <= 4; limb++ {
		for _, top := range []uint{63, 62} {
			k := new(big.Int).Lsh(big.NewInt(1), uint(64*limb)+top)
			if limb > 0 && top == 63 {
				k.Add(k, new(big.Int).Lsh(big.NewInt(1), uint(64*(limb-1))+63)) // two adjacent high bits
			}
			enc := askBytes("e1 lift 0x" + k.Text(16))
			if len(enc) != 48 {
				continue
			}
			c.Case("sig-limb-abscissa", "e1.dec "+hx(enc), sigParse(enc))
			x := new(big.Int).SetBytes(append([]byte{enc[0] & 0x1f}, enc[1:]...))
			xp := new(big.Int).Add(x, blsP)
			if xp.BitLen() <= 381 {
				o := be(xp, 48)
				o[0] |= enc[0] & 0xe0
				c.Case("sig-limb-abscissa-plus-p", "e1.dec "+hx(o), sigParse(o))
			}
		}
	}
	// encodings of keys of every provenance: the point is held in non-affine coordinates after a removal, in the
	// key shares of threshold key generation, in aggregated keys; the bytes must be those of the affine point,
	// decode back to an equal key, and equal keys must encode equally
	nProv := 6
	if c.thorough() {
		nProv = 60
	}
	for i := 0; i < nProv; i++ {
		k1, k2, k3 := c.randScalar(), c.randScalar(), c.randScalar()
		p1, p2, p3 := skFromInt(k1).PublicKey(), skFromInt(k2).PublicKey(), skFromInt(k3).PublicKey()
		enc := func(class string, k *big.Int, build func() (crypto.PublicKey, error)) {
			c.Case("pk-encode-provenance/"+class, "pk.of 0x"+k.Text(16), guard(func() string {
				pk, err := build()
				if err != nil {
					return "err " + errClass(err)
				}
				b := hold("PublicKey.Encode", pk.Encode())
				dec, derr := crypto.DecodePublicKey(bls, b)
				if derr != nil {
					return "ok " + hx(b) + " does-not-decode"
				}
				if !dec.Equals(pk) || !pk.Equals(dec) {
					return "ok " + hx(b) + " decoded-key-not-equal"
				}
				if !bytes.Equal(pk.EncodeCompressed(), b) || !bytes.Equal(dec.Encode(), b) {
					return "ok " + hx(b) + " encodings-differ"
				}
				return "ok " + hx(b)
			}))
		}
		sum12 := new(big.Int).Mod(new(big.Int).Add(k1, k2), blsR)
		sum123 := new(big.Int).Mod(new(big.Int).Add(sum12, k3), blsR)
		enc("aggregated", sum12, func() (crypto.PublicKey, error) { return crypto.AggregateBLSPublicKeys([]crypto.PublicKey{p1, p2}) })
		enc("removed", k1, func() (crypto.PublicKey, error) {
			agg, err := crypto.AggregateBLSPublicKeys([]crypto.PublicKey{p1, p2})
			if err != nil {
				return nil, err
			}
			return crypto.RemoveBLSPublicKeys(agg, []crypto.PublicKey{p2})
		})
		enc("removed-twice", k2, func() (crypto.PublicKey, error) {
			agg, err := crypto.AggregateBLSPublicKeys([]crypto.PublicKey{p1, p2, p3})
			if err != nil {
				return nil, err
			}
			r1, err := crypto.RemoveBLSPublicKeys(agg, []crypto.PublicKey{p3})
			if err != nil {
				return nil, err
			}
			return crypto.RemoveBLSPublicKeys(r1, []crypto.PublicKey{p1})
		})
		enc("removed-then-aggregated", sum123, func() (crypto.PublicKey, error) {
			agg, err := crypto.AggregateBLSPublicKeys([]crypto.PublicKey{p1, p2, p3})
			if err != nil {
				return nil, err
			}
			r1, err := crypto.RemoveBLSPublicKeys(agg, []crypto.PublicKey{p3})
			if err != nil {
				return nil, err
			}
			return crypto.AggregateBLSPublicKeys([]crypto.PublicKey{r1, p3})
		})
		// key shares and group key of threshold key generation (the shares' scalars are the returned private keys)
		n, t := 3+i%3, 1+i%2
		sks, pks, _, err := crypto.BLSThresholdKeyGen(n, t, c.bytes(32))
		if err == nil {
			for j := range sks {
				kj := new(big.Int).SetBytes(sks[j].Encode())
				pj := pks[j]
				enc("threshold-share", kj, func() (crypto.PublicKey, error) { return pj, nil })
			}
		}
	}
	_ = fmt.Sprint
	genC05ecdsa(c)
}
