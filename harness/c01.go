//go:build !no_cgo

package main

import (
	"sync"
	"runtime"
	"bytes"
	"fmt"
	"math/big"
	"sort"

	"github.com/onflow/crypto"
	"github.com/onflow/crypto/hash"
)

func init() { generators["C01"] = genC01 }

type blsKey struct {
	k    *big.Int // scalar mod r (0 for the identity key)
	sk   crypto.PrivateKey
	pk   crypto.PublicKey
	kind string
}

func (c *Ctx) blsKeys(n int) []blsKey {
	one := big.NewInt(1)
	mk := func(k *big.Int, kind string) blsKey {
		sk := skFromInt(k)
		return blsKey{k, sk, sk.PublicKey(), kind}
	}
	keys := []blsKey{mk(one, "one"), mk(big.NewInt(2), "two"), mk(new(big.Int).Sub(blsR, one), "r-1"), mk(new(big.Int).Sub(blsR, big.NewInt(2)), "r-2")}
	// generated from a seed
	seed := c.bytes(48)
	gsk, err := crypto.GeneratePrivateKey(crypto.BLSBLS12381, seed)
	if err != nil {
		panic(err)
	}
	keys = append(keys, blsKey{new(big.Int).SetBytes(gsk.Encode()), gsk, gsk.PublicKey(), "generated"})
	// public key decoded from bytes (distinct object)
	k := c.randScalar()
	dsk := skFromInt(k)
	dpk, err := crypto.DecodePublicKey(crypto.BLSBLS12381, dsk.PublicKey().Encode())
	if err != nil {
		panic(err)
	}
	keys = append(keys, blsKey{k, dsk, dpk, "decoded"})
	// aggregated keys: a + b, and an aggregate equal to 1
	a, b := c.randScalar(), c.randScalar()
	agg, _ := crypto.AggregateBLSPrivateKeys([]crypto.PrivateKey{skFromInt(a), skFromInt(b)})
	ab := new(big.Int).Add(a, b)
	ab.Mod(ab, blsR)
	if ab.Sign() != 0 {
		apk, _ := crypto.AggregateBLSPublicKeys([]crypto.PublicKey{skFromInt(a).PublicKey(), skFromInt(b).PublicKey()})
		keys = append(keys, blsKey{ab, agg, apk, "aggregated"})
	}
	am1 := new(big.Int).Sub(blsR, a)
	am1.Add(am1, one)
	am1.Mod(am1, blsR)
	if am1.Sign() != 0 {
		agg1, _ := crypto.AggregateBLSPrivateKeys([]crypto.PrivateKey{skFromInt(a), skFromInt(am1)})
		keys = append(keys, blsKey{big.NewInt(1), agg1, agg1.PublicKey(), "aggregated-to-one"})
	}
	// aggregated private keys whose inputs had their own public key asked for in every pattern (none, first only, last
	// only, middle only, all): the key pair is (sum of scalars, sum * g2) whichever was cached
	for pat := 0; pat < 5; pat++ {
		ks := []*big.Int{c.randScalar(), c.randScalar(), c.randScalar()}
		sks := []crypto.PrivateKey{skFromInt(ks[0]), skFromInt(ks[1]), skFromInt(ks[2])}
		for i, sk := range sks {
			if pat == 4 || (pat >= 1 && pat <= 3 && i == []int{0, 0, 2, 1}[pat]) {
				_ = sk.PublicKey()
			}
		}
		sum := new(big.Int).Mod(new(big.Int).Add(new(big.Int).Add(ks[0], ks[1]), ks[2]), blsR)
		if sum.Sign() == 0 {
			continue
		}
		if ag, err := crypto.AggregateBLSPrivateKeys(sks); err == nil {
			keys = append(keys, blsKey{sum, ag, ag.PublicKey(), fmt.Sprintf("aggregated-touch-pattern-%d", pat)})
		}
	}
	// a key produced by RemoveBLSPublicKeys (possibly held in non-affine coordinates)
	{
		k1, k2 := c.randScalar(), c.randScalar()
		both, _ := crypto.AggregateBLSPublicKeys([]crypto.PublicKey{skFromInt(k1).PublicKey(), skFromInt(k2).PublicKey()})
		rm, err := crypto.RemoveBLSPublicKeys(both, []crypto.PublicKey{skFromInt(k2).PublicKey()})
		if err != nil {
			panic(err)
		}
		keys = append(keys, blsKey{k1, skFromInt(k1), rm, "removal-result"})
	}
	for len(keys) < n {
		keys = append(keys, mk(c.randScalar(), "random"))
	}
	return keys
}

// identityKeys returns identity public keys obtained in different ways.
func (c *Ctx) identityKeys() []crypto.PublicKey {
	a := c.randScalar()
	na := new(big.Int).Sub(blsR, a)
	agg, _ := crypto.AggregateBLSPublicKeys([]crypto.PublicKey{skFromInt(a).PublicKey(), skFromInt(na).PublicKey()})
	inf := make([]byte, 96)
	inf[0] = 0xc0
	dec, err := crypto.DecodePublicKey(crypto.BLSBLS12381, inf)
	if err != nil {
		panic(err)
	}
	aggsk, _ := crypto.AggregateBLSPrivateKeys([]crypto.PrivateKey{skFromInt(a), skFromInt(na)})
	// identity obtained by removing every aggregated key, and by removing a key from itself
	b := c.randScalar()
	pa, pb := skFromInt(a).PublicKey(), skFromInt(b).PublicKey()
	ab, _ := crypto.AggregateBLSPublicKeys([]crypto.PublicKey{pa, pb})
	rmAll, err := crypto.RemoveBLSPublicKeys(ab, []crypto.PublicKey{pb, pa})
	if err != nil {
		panic(err)
	}
	rmSelf, _ := crypto.RemoveBLSPublicKeys(pa, []crypto.PublicKey{pa})
	decc, err := crypto.DecodePublicKeyCompressed(crypto.BLSBLS12381, inf)
	if err != nil {
		panic(err)
	}
	// the aggregated zero key again, from inputs whose public keys were already computed (a public key assembled from
	// the inputs' cached keys must carry the identity mark too), in three touch patterns
	var touched []crypto.PublicKey
	for pat := 1; pat < 4; pat++ {
		x, y := skFromInt(a), skFromInt(na)
		if pat&1 != 0 {
			_ = x.PublicKey()
		}
		if pat&2 != 0 {
			_, _ = crypto.BLSGeneratePOP(y)
		}
		z, err := crypto.AggregateBLSPrivateKeys([]crypto.PrivateKey{x, y})
		if err != nil {
			panic(err)
		}
		touched = append(touched, z.PublicKey())
	}
	return append([]crypto.PublicKey{crypto.IdentityBLSPublicKey(), agg, dec, aggsk.PublicKey(), rmAll, rmSelf, decc}, touched...)
}

// verifyAns: the verdict of Verify; the same call is made three times in a row on one OS thread and the three verdicts
// must coincide (a memo of the last signature checked, filled before the check and kept when it fails, lets the second
// submission of a rejected string through)
func verifyAns(pk crypto.PublicKey, sig, msg []byte, h hash.Hasher) string {
	return guard(func() string {
		runtime.LockOSThread()
		defer runtime.UnlockOSThread()
		var first string
		for rep := 0; rep < 3; rep++ {
			ok, err := pk.Verify(sig, msg, h)
			v := fmt.Sprint(ok)
			if err != nil {
				v = "err " + errClass(err)
			}
			if rep == 0 {
				first = v
			} else if v != first {
				return fmt.Sprintf("unstable: %s then %s (submission %d)", first, v, rep+1)
			}
		}
		return first
	})
}

// candidateSigs builds the structured catalogue of candidate strings around a valid signature.
func (c *Ctx) candidateSigs(valid, hpoint []byte, nFlips int) map[string][][]byte {
	out := map[string][][]byte{}
	add := func(k string, b []byte) { out[k] = append(out[k], b) }
	add("valid", valid)
	add("negated", askBytes("e1 neg "+hx(valid)))
	for i := 0; i < 3; i++ {
		t := askBytes(fmt.Sprintf("e1 torsion %d", i))
		add("plus-torsion", askBytes("e1 add "+hx(valid)+" "+hx(t)))
	}
	// torsion points of small order (3, 3, 11, 10177): a random blinding factor kills them with noticeable probability
	for i := 100; i < 104; i++ {
		t := askBytes(fmt.Sprintf("e1 torsion %d", i))
		add("plus-small-torsion", askBytes("e1 add "+hx(valid)+" "+hx(t)))
	}
	add("plus-offgroup", askBytes("e1 add "+hx(valid)+" "+hx(askBytes("e1 off 0"))))
	add("plus-delta-in-g1", askBytes("e1 add "+hx(valid)+" "+hx(hpoint)))
	add("hash-point-itself", hpoint)
	for f := 0; f < 8; f++ {
		o := append([]byte{}, valid...)
		o[0] = (o[0] & 0x1f) | byte(f<<5)
		add("flags", o)
	}
	if nFlips >= 384 {
		for i := 0; i < 384; i++ {
			add("bitflip", flipBit(valid, i))
		}
	} else {
		for i := 0; i < nFlips; i++ {
			add("bitflip", flipBit(valid, c.intn(384)))
		}
	}
	x := new(big.Int).SetBytes(append([]byte{valid[0] & 0x1f}, valid[1:]...))
	xp := new(big.Int).Add(x, blsP)
	if xp.BitLen() <= 381 {
		o := be(xp, 48)
		o[0] |= valid[0] & 0xe0
		add("x-plus-p", o)
	}
	for _, v := range []*big.Int{blsP, new(big.Int).Add(blsP, big.NewInt(1)), new(big.Int).Sub(new(big.Int).Lsh(big.NewInt(1), 381), big.NewInt(1))} {
		o := be(v, 48)
		o[0] |= 0x80
		add("x-out-of-range", o)
	}
	for _, extra := range []int{1, 48, 152} {
		add("trailing-bytes", append(append([]byte{}, valid...), make([]byte, extra)...))
	}
	for _, l := range []int{0, 1, 47, 49, 96, 200} {
		o := make([]byte, l)
		copy(o, valid)
		add("length", o)
	}
	inf := make([]byte, 48)
	inf[0] = 0xc0
	add("identity-signature", inf)
	for _, pos := range []int{1, 23, 46, 47} {
		o := append([]byte{}, inf...)
		o[pos] = 1
		add("identity-dirty", o)
	}
	add("invalid-header-constant", crypto.BLSInvalidSignature())
	return out
}

func genC01(c *Ctx) {
	nKeys, nMsgs, nFlips := 8, 2, 12
	if c.thorough() {
		nKeys, nMsgs, nFlips = 14, 6, 384
	}
	keys := c.blsKeys(nKeys)
	tags := []string{"", "tag-A", "BLS_POP_", string(c.bytes(1000))}
	msgLens := []int{0, 1, 135, 136, 137, 167, 168, 169, 1024, 100 * 1024}
	emitVerify := func(class string, key blsKey, hpoint, cand []byte, ans string) {
		c.Case(class, fmt.Sprintf("bls.verify 0x%s %s %s", key.k.Text(16), hx(hpoint), hx(cand)), ans)
	}
	for ki, key := range keys {
		for mi := 0; mi < nMsgs; mi++ {
			msg := c.bytes(msgLens[(ki*nMsgs+mi)%len(msgLens)])
			tag := tags[(ki+mi)%len(tags)]
			h := crypto.NewExpandMsgXOFKMAC128(tag)
			hpoint := hashPoint(msg, h)
			sig, err := key.sk.Sign(msg, h)
			hold("Sign", sig)
			if err != nil {
				panic(err)
			}
			// Sign returns exactly sk * H(m)
			c.Case("sign/"+key.kind, fmt.Sprintf("sig.expect 0x%s %s", key.k.Text(16), hx(hpoint)), "ok "+hx(sig))
			// and the same from the message alone: the model computes the KMAC128 expand-message, the hash-to-curve
			// map (SSWU, isogeny, cofactor clearing) and the scalar multiplication itself
			if len(msg) <= 2048 {
				c.Case("sign-from-message/"+key.kind, fmt.Sprintf("bls.signmsg 0x%s %s %s", key.k.Text(16), hx([]byte(tag)), hx(msg)), "ok "+hx(sig))
			}
			flips := nFlips
			if mi > 0 && !c.thorough() {
				flips = 4
			}
			if c.thorough() && (ki > 1 || mi > 0) {
				flips = 24
			}
			for _, cc := range sortedCands(c.candidateSigs(sig, hpoint, flips)) {
				class, cands := cc.class, cc.cands
				for _, cand := range cands {
					emitVerify("verify/"+class, key, hpoint, cand, verifyAns(key.pk, cand, msg, h))
				}
			}
			// other message, other tag, other key: the candidate is the honest signature of the original
			msg2 := append([]byte{0x55}, msg...)
			emitVerify("verify/other-message", key, hashPoint(msg2, h), sig, verifyAns(key.pk, sig, msg2, h))
			h2 := crypto.NewExpandMsgXOFKMAC128(tag + "x")
			emitVerify("verify/other-tag", key, hashPoint(msg, h2), sig, verifyAns(key.pk, sig, msg, h2))
			ok := keys[(ki+1)%len(keys)]
			emitVerify("verify/other-key", ok, hpoint, sig, verifyAns(ok.pk, sig, msg, h))
			// the same three stated outright (the model takes the hash points from the implementation's hashers, so a
			// collision between messages or tags would make model and implementation agree): expect false, and the
			// hash-to-curve images differ; moving a byte across the tag / message boundary, and a trailing zero byte
			direct := func(class string, v string) { c.Case("verify/"+class, "expect false #", v) }
			direct("other-message-direct", verifyAns(key.pk, sig, msg2, h))
			direct("other-tag-direct", verifyAns(key.pk, sig, msg, h2))
			direct("other-key-direct", verifyAns(ok.pk, sig, msg, h))
			msg3 := append(append([]byte{}, msg...), 0)
			direct("trailing-zero-direct", verifyAns(key.pk, sig, msg3, h))
			if len(msg) > 0 {
				h3 := crypto.NewExpandMsgXOFKMAC128(tag + string(msg[:1]))
				direct("boundary-shift-direct", verifyAns(key.pk, sig, msg[1:], h3))
				c.Case("hash-points-distinct", "expect true #", fmt.Sprint(!bytes.Equal(hashPoint(msg[1:], h3), hpoint)))
			}
			c.Case("hash-points-distinct", "expect true #", fmt.Sprint(!bytes.Equal(hashPoint(msg2, h), hpoint) &&
				!bytes.Equal(hashPoint(msg, h2), hpoint) && !bytes.Equal(hashPoint(msg3, h), hpoint)))
		}
	}
	// call history: keys never used before whose very first verification goes through buffers the caller re-uses
	// (signature buffer and message buffer overwritten in place between calls; the same key object and a decoded copy)
	for hi := 0; hi < 3; hi++ {
		k := c.randScalar()
		key := blsKey{k: k, sk: skFromInt(k), kind: "history"}
		key.pk = key.sk.PublicKey()
		h := crypto.NewExpandMsgXOFKMAC128("history")
		msgBuf := c.bytes(40 + hi)
		msgA := append([]byte{}, msgBuf...)
		msgB := append([]byte{}, msgBuf...)
		msgB[3] ^= 0x10
		sigA, _ := key.sk.Sign(msgA, h)
		sigB, _ := key.sk.Sign(msgB, h)
		hpA, hpB := hashPoint(msgA, h), hashPoint(msgB, h)
		pk2, _ := crypto.DecodePublicKey(crypto.BLSBLS12381, key.pk.Encode())
		sigBuf := append([]byte{}, sigA...)
		pkOf := func(i int) crypto.PublicKey {
			if i%2 == 1 && pk2 != nil {
				return pk2
			}
			return key.pk
		}
		emitVerify("history/first-valid", key, hpA, sigBuf, verifyAns(pkOf(hi), sigBuf, msgBuf, h))
		copy(sigBuf, flipBit(sigA, 77))
		emitVerify("history/sig-overwritten", key, hpA, sigBuf, verifyAns(pkOf(hi+1), sigBuf, msgBuf, h))
		copy(sigBuf, sigB)
		emitVerify("history/sig-of-other-message", key, hpA, sigBuf, verifyAns(pkOf(hi), sigBuf, msgBuf, h))
		copy(msgBuf, msgB)
		emitVerify("history/message-overwritten", key, hpB, sigBuf, verifyAns(pkOf(hi+1), sigBuf, msgBuf, h))
		copy(sigBuf, sigA)
		emitVerify("history/old-sig-new-message", key, hpB, sigBuf, verifyAns(pkOf(hi), sigBuf, msgBuf, h))
		copy(msgBuf, msgA)
		emitVerify("history/restored", key, hpA, sigBuf, verifyAns(pkOf(hi+1), sigBuf, msgBuf, h))
	}
	// many domain tags in one process, each used, then every one of them used again (hashers handed out from a bounded
	// table or a cache keyed by the tag must still be the hasher of THAT tag): signatures predicted from the message
	{
		nTags := 40
		k := c.randScalar()
		sk := skFromInt(k)
		pk := sk.PublicKey()
		msg := c.bytes(20)
		tagOf := func(i int) string { return fmt.Sprintf("many-tags-%d", i) }
		for round := 0; round < 2; round++ {
			for i := 0; i < nTags; i++ {
				h := crypto.NewExpandMsgXOFKMAC128(tagOf(i))
				sig, err := sk.Sign(msg, h)
				hold("Sign", sig)
				if err != nil {
					panic(err)
				}
				c.Case(fmt.Sprintf("many-tags/round%d", round), fmt.Sprintf("bls.signmsg 0x%s %s %s", k.Text(16), hx([]byte(tagOf(i))), hx(msg)), "ok "+hx(sig))
				// the signature of the neighbouring tag is not a signature under this tag
				h2 := crypto.NewExpandMsgXOFKMAC128(tagOf((i + 1) % nTags))
				other, _ := sk.Sign(msg, h2)
				c.Case(fmt.Sprintf("many-tags-cross/round%d", round), "expect false #", verifyAns(pk, other, msg, crypto.NewExpandMsgXOFKMAC128(tagOf(i))))
			}
		}
	}
	// hashers with a history of their own (Write, Reset, SumHash, ComputeHash calls made before the hasher is handed to
	// Sign / Verify, and between the two): a signature is a function of key, tag and message only
	{
		k := c.randScalar()
		sk := skFromInt(k)
		pk := sk.PublicKey()
		tag := "hasher-history"
		histories := []func(h hash.Hasher){
			func(h hash.Hasher) { _, _ = h.Write([]byte("left over")) },
			func(h hash.Hasher) { h.Reset(); _, _ = h.Write([]byte("after reset")) },
			func(h hash.Hasher) { _, _ = h.Write([]byte("a")); h.Reset() },
			func(h hash.Hasher) { _, _ = h.Write([]byte("a")); _ = h.SumHash() },
			func(h hash.Hasher) { _, _ = h.Write([]byte("a")); _ = h.SumHash(); _, _ = h.Write([]byte("b")) },
			func(h hash.Hasher) { _ = h.ComputeHash([]byte("other")); _, _ = h.Write(nil) },
			func(h hash.Hasher) { _, _ = h.Write([]byte("a")); _, _ = h.Write(nil) },
			func(h hash.Hasher) { h.Reset(); h.Reset(); _, _ = h.Write(make([]byte, 168)); _, _ = h.Write([]byte{}) },
			func(h hash.Hasher) { _ = h.SumHash(); h.Reset(); _, _ = h.Write(make([]byte, 200)); _ = h.SumHash(); h.Reset(); _, _ = h.Write([]byte("x")) },
		}
		for hi, hist := range histories {
			msg := c.bytes(1 + c.intn(60))
			h := crypto.NewExpandMsgXOFKMAC128(tag)
			hist(h)
			sig, err := sk.Sign(msg, h)
			if err != nil {
				panic(err)
			}
			c.Case(fmt.Sprintf("hasher-history/sign-%d", hi), fmt.Sprintf("bls.signmsg 0x%s %s %s", k.Text(16), hx([]byte(tag)), hx(msg)), "ok "+hx(sig))
			// the same hasher again, then a fresh one and one with another history: all verify the same signature
			c.Case(fmt.Sprintf("hasher-history/verify-same-%d", hi), "expect true #", verifyAns(pk, sig, msg, h))
			h2 := crypto.NewExpandMsgXOFKMAC128(tag)
			histories[(hi+3)%len(histories)](h2)
			c.Case(fmt.Sprintf("hasher-history/verify-other-%d", hi), "expect true #", verifyAns(pk, sig, msg, h2))
			// and the signature of (left-over bytes || message) is not a signature of the message
			for _, prefix := range []string{"left over", "after reset", "a", "x"} {
				forged, _ := sk.Sign(append([]byte(prefix), msg...), crypto.NewExpandMsgXOFKMAC128(tag))
				c.Case(fmt.Sprintf("hasher-history/prefixed-%d", hi), "expect false #", verifyAns(pk, forged, msg, h))
			}
		}
	}
	// sparse private keys: every power of two below r, and sums of two or three powers (scalar multiplication that
	// takes a short path when a range of bits of the key is zero): signatures predicted from key and message
	{
		h := crypto.NewExpandMsgXOFKMAC128("sparse-keys")
		msg := c.bytes(11)
		hp := hashPoint(msg, h)
		emitKey := func(class string, k *big.Int) {
			if k.Sign() == 0 || k.Cmp(blsR) >= 0 {
				return
			}
			sk := skFromInt(k)
			sig, err := sk.Sign(msg, h)
			if err != nil {
				panic(err)
			}
			c.Case(class, fmt.Sprintf("sig.expect 0x%s %s", k.Text(16), hx(hp)), "ok "+hx(sig))
			if k.BitLen()%16 == 1 {
				emitVerify(class+"/verify", blsKey{k: k, sk: sk, pk: sk.PublicKey(), kind: "sparse"}, hp, sig, verifyAns(sk.PublicKey(), sig, msg, h))
			}
		}
		one := big.NewInt(1)
		for b := 0; b < 255; b++ {
			emitKey("sparse-keys/power-of-two", new(big.Int).Lsh(one, uint(b)))
		}
		for i := 0; i < 40; i++ {
			k := new(big.Int).Lsh(one, uint(128+c.intn(127)))
			k.Add(k, new(big.Int).Lsh(one, uint(c.intn(128))))
			if i%2 == 0 {
				k.Add(k, new(big.Int).Lsh(one, uint(c.intn(255))))
			}
			emitKey("sparse-keys/few-bits", k)
		}
		// the constants written in the library's source, as private keys (a shortcut that compares a scalar with the
		// wrong constant is wrong for that one key)
		for _, k := range sourceScalars() {
			emitKey("source-constant-keys", k)
		}
	}
	// a fresh key pair used for the first time by several verifiers at once: each takes the public key from the
	// private key and verifies the signature Sign returned (a public key handed out before it is complete rejects it)
	for trial := 0; trial < 12; trial++ {
		k := c.randScalar()
		h := crypto.NewExpandMsgXOFKMAC128("first-use")
		msg := c.bytes(20)
		sig, _ := skFromInt(k).Sign(msg, h)
		sk := skFromInt(k) // a second object: its public key has not been asked for yet
		const G = 6
		res := make([]string, G)
		start := make(chan struct{})
		var wg sync.WaitGroup
		for g := 0; g < G; g++ {
			wg.Add(1)
			go func(g int) {
				defer wg.Done()
				hg := crypto.NewExpandMsgXOFKMAC128("first-use")
				<-start
				res[g] = guard(func() string { return boolAns(sk.PublicKey().Verify(sig, msg, hg)) })
			}(g)
		}
		close(start)
		wg.Wait()
		verdict := "true"
		for _, r := range res {
			if r != "true" {
				verdict = r + " (one of the concurrent first users)"
			}
		}
		c.Case("verify/concurrent-first-use-of-key", "expect true #", verdict)
	}
	// fixed hashers: chosen 128-byte outputs including chunks >= p
	ones := make([]byte, 128)
	for i := range ones {
		ones[i] = 0xff
	}
	pp := append(append(make([]byte, 16), be(blsP, 48)...), append(make([]byte, 16), be(new(big.Int).Add(blsP, big.NewInt(5)), 48)...)...)
	for i, out := range [][]byte{make([]byte, 128), ones, pp, c.bytes(128)} {
		fh := &fixedHasher{out: out, size: 128}
		key := keys[i%len(keys)]
		hpoint := hashPoint(nil, fh)
		sig, _ := key.sk.Sign([]byte("m"), fh)
		c.Case("sign/fixed-hasher", fmt.Sprintf("sig.expect 0x%s %s", key.k.Text(16), hx(hpoint)), "ok "+hx(sig))
		// the hash point itself, from the 128 bytes the hasher returns (field elements >= p are reduced)
		c.Case("map-to-g1/fixed-hasher", "h2c.map "+hx(out), "ok "+hx(hpoint))
		emitVerify("verify/fixed-hasher", key, hpoint, sig, verifyAns(key.pk, sig, []byte("m"), fh))
		emitVerify("verify/fixed-hasher-flip", key, hpoint, flipBit(sig, 100), verifyAns(key.pk, flipBit(sig, 100), []byte("m"), fh))
	}
	// identity public key: false for every signature
	h := crypto.NewExpandMsgXOFKMAC128("t")
	msg := []byte("message")
	hpoint := hashPoint(msg, h)
	inf := make([]byte, 48)
	inf[0] = 0xc0
	honest, _ := keys[0].sk.Sign(msg, h)
	for _, idk := range c.identityKeys() {
		for _, cand := range [][]byte{inf, honest, hpoint, make([]byte, 48)} {
			c.Case("verify/identity-key", fmt.Sprintf("bls.verify 0x0 %s %s", hx(hpoint), hx(cand)), verifyAns(idk, cand, msg, h))
		}
	}
	// hasher guards
	for _, size := range []int{0, 64, 127, 129} {
		fh := &fixedHasher{out: make([]byte, size), size: size}
		ans := guard(func() string {
			_, e1 := keys[0].sk.Sign(msg, fh)
			_, e2 := keys[0].pk.Verify(honest, msg, fh)
			return errClass(e1) + " " + errClass(e2)
		})
		c.Case("hasher-guard", fmt.Sprintf("expect HasherSize HasherSize #%d", size), ans)
	}
	ans := guard(func() string {
		_, e1 := keys[0].sk.Sign(msg, nil)
		_, e2 := keys[0].pk.Verify(honest, msg, nil)
		return errClass(e1) + " " + errClass(e2)
	})
	c.Case("hasher-guard", "expect NilHasher NilHasher #nil", ans)
}

func pickIdentity(c *Ctx, i int) crypto.PublicKey {
	ks := c.identityKeys()
	return ks[i%len(ks)]
}

type candClass struct {
	class string
	cands [][]byte
}

// sortedCands fixes the enumeration order (Go map iteration is randomised; transcripts must be reproducible).
func sortedCands(m map[string][][]byte) []candClass {
	var keys []string
	for k := range m {
		keys = append(keys, k)
	}
	sort.Strings(keys)
	var out []candClass
	for _, k := range keys {
		out = append(out, candClass{k, m[k]})
	}
	return out
}
