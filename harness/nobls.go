//go:build no_cgo

package main

func blsErrClass(err error) string { return "" }

func genC20bls(c *Ctx) {}
