// Correspondence harness: runs the real onflow/crypto (from /repo, via the replace directive)
// on generated cases and writes, per case, the protocol line for the Lean model driver and the
// implementation's canonical answer.
package main

import (
	"sync/atomic"
	"time"
	"sync"
	"bufio"
	"encoding/hex"
	"encoding/json"
	"flag"
	"fmt"
	"math/rand/v2"
	"os"
	"sort"
	"strings"
)

type Ctx struct {
	prop    string
	tier    string
	seed    uint64
	rng     *rand.Rand
	cases   *bufio.Writer
	impl    *bufio.Writer
	n       int
	classes map[string]int
	samples map[string]string // one sample per class
	seen    map[string]struct{}
	distinct int
	extra   map[string]any
}

func (c *Ctx) thorough() bool { return c.tier == "thorough" }

// held outputs: byte slices the library RETURNED (signatures, reconstructed signatures, encodings, digests) are the
// caller's. A sample of them is kept - uncopied - together with their value at the time they were returned, and
// compared again when the generator has finished (a result handed out from a pool, a cache or internal state
// changes when the library is used again).
type heldOut struct {
	label string
	b     []byte
	was   string
}

var heldOuts []heldOut
var heldMu sync.Mutex // hold is called from the goroutines of the concurrent histories too

func hold(label string, b []byte) []byte {
	heldMu.Lock()
	defer heldMu.Unlock()
	if len(b) > 0 && len(heldOuts) < 4000 {
		heldOuts = append(heldOuts, heldOut{label, b, hx(b)})
	}
	return b
}

func heldVerdict() string {
	for _, h := range heldOuts {
		if hx(h.b) != h.was {
			return "returned-value-changed-later: " + h.label
		}
	}
	return "ok"
}

// held keys: the same for key OBJECTS the library returned (decoders, key generation): each is kept with the encoding it
// had when it was produced and encoded again when the generator has finished (a key whose fields come from a pool or
// point into a buffer that is reused changes when another key is decoded).
type heldKey struct {
	label string
	k     interface{ Encode() []byte }
	was   string
}

var heldKeys []heldKey

func holdKey(label string, k interface{ Encode() []byte }, enc []byte) {
	heldMu.Lock()
	defer heldMu.Unlock()
	if len(heldKeys) < 3000 {
		heldKeys = append(heldKeys, heldKey{label, k, hx(enc)})
	}
}

func heldKeysVerdict() string {
	return guard(func() string {
		for _, h := range heldKeys {
			if now := hx(h.k.Encode()); now != h.was {
				return "key-object-changed-later: " + h.label + " encoded to " + h.was + " when produced, to " + now + " at the end"
			}
		}
		return "ok"
	})
}

// Case records one case: protocol line (without id) and the implementation's canonical answer.
func (c *Ctx) Case(class, line, implAnswer string) {
	c.n++
	id := fmt.Sprintf("%s-%d", c.prop, c.n)
	fmt.Fprintf(c.cases, "%s %s\n", id, line)
	fmt.Fprintf(c.impl, "%s %s\n", id, implAnswer)
	c.classes[class]++
	if atomic.LoadInt32(&abortGen) == 1 && atomic.CompareAndSwapInt32(&abortGen, 1, 2) {
		panic(genAbort{})
	}
	if _, ok := c.samples[class]; !ok {
		s := id + " " + line + " => " + implAnswer
		if len(s) > 400 {
			s = s[:400] + "..."
		}
		c.samples[class] = s
	}
	if _, ok := c.seen[line]; !ok {
		c.seen[line] = struct{}{}
		c.distinct++
	}
}

func hx(b []byte) string {
	if len(b) == 0 {
		return "-"
	}
	return hex.EncodeToString(b)
}

func (c *Ctx) intn(n int) int { return int(c.rng.Uint64N(uint64(n))) }

func (c *Ctx) bytes(n int) []byte {
	b := make([]byte, n)
	for i := range b {
		b[i] = byte(c.rng.Uint64())
	}
	return b
}

// guard runs f and maps a panic to the canonical answer "panic".
func guard(f func() string) (res string) {
	defer func() {
		if r := recover(); r != nil {
			res = "panic"
		}
	}()
	return f()
}

// guardT is guard with a deadline: f runs in a goroutine of its own; when it has not returned after d the answer is
// "no-return" and the goroutine is left behind (a call that never terminates cannot be stopped from outside). Only for
// calls that do not depend on the OS thread they run on.
func guardT(d time.Duration, f func() string) string {
	done := make(chan string, 1)
	go func() { done <- guard(f) }()
	select {
	case r := <-done:
		return r
	case <-time.After(d):
		if atomic.AddInt32(&noReturns, 1) >= 3 {
			atomic.StoreInt32(&abortGen, 1) // three calls that never came back: the generator stops at its next case
		}
		return "no-return"
	}
}

var noReturns, abortGen int32

// genAbort is the panic value with which Case ends a generator run after several calls that did not return
type genAbort struct{}

var generators = map[string]func(*Ctx){}

func main() {
	prop := flag.String("prop", "", "property id")
	tier := flag.String("tier", "quick", "quick|thorough")
	seed := flag.Uint64("seed", 1, "seed")
	out := flag.String("out", "", "output directory")
	flag.Parse()
	gen, ok := generators[*prop]
	if !ok {
		fmt.Fprintf(os.Stderr, "no generator for %q\n", *prop)
		os.Exit(2)
	}
	cf, err := os.Create(*out + "/cases.txt")
	if err != nil {
		panic(err)
	}
	inf, err := os.Create(*out + "/impl.txt")
	if err != nil {
		panic(err)
	}
	c := &Ctx{prop: *prop, tier: *tier, seed: *seed,
		rng:   rand.New(rand.NewPCG(*seed, 0x9e3779b97f4a7c15)),
		cases: bufio.NewWriterSize(cf, 1<<20), impl: bufio.NewWriterSize(inf, 1<<20),
		classes: map[string]int{}, samples: map[string]string{}, seen: map[string]struct{}{},
		extra: map[string]any{}}
	func() {
		defer func() {
			if r := recover(); r != nil {
				if _, ok := r.(genAbort); !ok {
					panic(r)
				}
			}
		}()
		gen(c)
	}()
	c.Case("held-outputs", fmt.Sprintf("expect ok #held %d", len(heldOuts)), heldVerdict())
	c.Case("held-keys", fmt.Sprintf("expect ok #heldkeys %d", len(heldKeys)), heldKeysVerdict())
	c.Case("decoder-refusals", "expect ok #refusals", refusalVerdict())
	c.Case("argument-surroundings", "expect ok #guards", guardVerdict())
	c.cases.Flush()
	c.impl.Flush()
	cf.Close()
	inf.Close()
	keys := make([]string, 0, len(c.samples))
	for k := range c.samples {
		keys = append(keys, k)
	}
	sort.Strings(keys)
	samples := []string{}
	for _, k := range keys {
		samples = append(samples, k+": "+c.samples[k])
	}
	st := map[string]any{"evaluations": c.n, "distinct": c.distinct, "classes": c.classes,
		"samples": samples, "extra": c.extra}
	js, _ := json.MarshalIndent(st, "", " ")
	os.WriteFile(*out+"/stats.json", js, 0o644)
	_ = strings.Join
}
