//go:build !no_cgo

package main

func genC20bls(c *Ctx) {
	genC05(c)
	genC12(c)
	genC01(c)
	genC04(c)
	genC02(c)
	genC17(c)
	genC06(c)
	genDkgRuns(c, "C07")
}
