import Model.Sponge
import Model.KeccakF
import Model.Sha2
import Model.KmacEnc

/-! The hashers of package `hash`: concrete sponge parameters (hash/sha3.go, legacy_keccak.go),
KMAC128 (hash/kmac.go: `Code`, and NIST SP 800-185: `Spec`), and the specification-level
semantics of a `Hasher` object under Write / SumHash / Reset / ComputeHash. -/

namespace Model.Hash

inductive Algo | sha2_256 | sha2_384 | sha3_256 | sha3_384 | keccak256
deriving Repr, DecidableEq

/-- the Go sponge parameters (`NewSHA3_256`, `NewSHA3_384`, `NewKeccak_256`) -/
def keccakParams (rate : Nat) (ds : UInt8) (outLen : Nat) : Sponge.Params KeccakF.State :=
  { absorb := fun a block => KeccakF.keccakF1600 (KeccakF.xorBlock a block)   -- xorIn; keccakF1600
    extract := KeccakF.extract                                                -- copyOut
    zero := KeccakF.zeroState, rate := rate, dsByte := ds, outputLen := outLen }

def spongeOf : Algo → Option (Sponge.Params KeccakF.State)
  | .sha3_256 => some (keccakParams 136 0x06 32)
  | .sha3_384 => some (keccakParams 104 0x06 48)
  | .keccak256 => some (keccakParams 136 0x01 32)
  | _ => none

/-- the digest the standards define -/
def digest : Algo → Bytes → Bytes
  | .sha2_256, m => Sha2.sha256 m
  | .sha2_384, m => Sha2.sha384 m
  | .sha3_256, m => KeccakF.spongeRef 136 0x06 32 m
  | .sha3_384, m => KeccakF.spongeRef 104 0x06 48 m
  | .keccak256, m => KeccakF.spongeRef 136 0x01 32 m

/-! ### KMAC128 -/

namespace Kmac

def rate : Nat := 168
def functionName : Bytes := "KMAC".toUTF8.toList

/-- cSHAKE128(X, L, N, S) for non-empty N (SP 800-185 §3.3); what x/crypto's `NewCShake128` implements -/
def cshake128 (n s x : Bytes) (outLen : Nat) : Bytes :=
  KeccakF.spongeRef rate 0x04 outLen
    (KmacEnc.Spec.bytepad (KmacEnc.Spec.encodeString n ++ KmacEnc.Spec.encodeString s) rate ++ x)

/-- SP 800-185 §4.3: KMAC128(K, X, L, S) -/
def spec (key cust x : Bytes) (outLen : Nat) : Bytes :=
  cshake128 functionName cust
    (KmacEnc.Spec.bytepad (KmacEnc.Spec.encodeString key) rate ++ x ++ KmacEnc.Spec.rightEncode (outLen * 8)) outLen

/-- hash/kmac.go: the object built by `NewKMAC_128` (`none` = constructor error) -/
structure Obj where
  cust : Bytes
  outputSize : Nat
  initBlock : Bytes
  written : Bytes        -- data written since the last Reset (after initBlock)

def minKeyLen : Nat := 16

def new? (key cust : Bytes) (outputSize : Int) : Option Obj :=
  if outputSize < 0 then none
  else if key.length < minKeyLen then none
  else some { cust := cust, outputSize := outputSize.toNat,
              initBlock := KmacEnc.Code.bytepad (KmacEnc.Code.encodeString key) rate, written := [] }

def Obj.write (k : Obj) (p : Bytes) : Obj := { k with written := k.written ++ p }
def Obj.reset (k : Obj) : Obj := { k with written := [] }
/-- `SumHash`: on a clone -/
def Obj.sumHash (k : Obj) : Bytes :=
  cshake128 functionName k.cust (k.initBlock ++ k.written ++ KmacEnc.Code.rightEncode ((k.outputSize * 8) % 2 ^ 64)) k.outputSize
/-- `ComputeHash`: on a reset clone -/
def Obj.computeHash (k : Obj) (data : Bytes) : Bytes :=
  cshake128 functionName k.cust (k.initBlock ++ data ++ KmacEnc.Code.rightEncode ((k.outputSize * 8) % 2 ^ 64)) k.outputSize

end Kmac

end Model.Hash
