import Model.Bytes

/-! Models of dkg_feldmanvss.go, dkg_feldmanvssq.go and dkg_jointfeldman.go: the three DKG state
machines, handler by handler, branch by branch, over an abstract record of crypto operations `Ops`
(instantiated with BLS12-381 by the driver; the theorems hold for every instance).

A method mutating the receiver becomes `State → args → State × List Out × Res`; the `DKGProcessor`
callbacks become the output list, in call order. Go maps become association lists; wherever the code ranges
over a map only an order-independent fact is used (existence of an entry, size). -/

namespace Model.Dkg

structure Ops where
  /-- a verification vector that deserialized to G2 points, with the public key shares derived from it -/
  Vec : Type
  /-- `readVerifVector` then `computePublicKeys` for `threshold+1` points and `size` shares;
      `none`: some point is malformed / off-curve / outside G2. The payload length is checked by the caller. -/
  readVec : (threshold size : Nat) → Bytes → Option Vec
  /-- `G2_check_log(x, y[i])` -/
  checkLog : Vec → Nat → Nat → Bool
  /-- `readScalarFrStar` on a 32-byte payload -/
  readScalar : Bytes → Option Nat
  writeScalar : Nat → Bytes
  addScalar : Nat → Nat → Nat
  /-- encoded group key `vA[0]`, encoded shares `y`, whether `vA[0]` is the identity -/
  groupKey : Vec → Bytes
  pubShares : Vec → List Bytes
  groupKeyIsIdentity : Vec → Bool
  /-- component-wise sum of the keys of the qualified dealers (Joint-Feldman) -/
  sumVecs : List Vec → Option Vec
  /-- dealer side: `generateFrPolynomial(seed, degree)`; `none` = seed too short -/
  genPoly : Bytes → Nat → Option (List Nat)
  polyEval : List Nat → Nat → Nat
  /-- serialized `g2^a_0 ‖ … ‖ g2^a_t` -/
  vecBytes : List Nat → Bytes
  vecOfPoly : (size : Nat) → List Nat → Vec

inductive Out
  | bcast (m : Bytes)
  | send (dest : Nat) (m : Bytes)
  | disq (i : Nat)
  | flag (i : Nat)
deriving Repr, DecidableEq, BEq

inductive Res
  | ok
  | invalidTransition
  | invalidInputs
  | failure
  | otherErr
  | keys (x : Nat) (groupKey : Bytes) (shares : List Bytes)
  | bool (b : Bool)
deriving Repr, DecidableEq

structure Complaint where
  received : Bool
  answerReceived : Bool
  answer : Nat := 0
deriving Repr, DecidableEq

def shareSize : Nat := 32
def verifVectorSize : Nat := 96
def tagShare : UInt8 := 0
def tagVerifVec : UInt8 := 1
def tagComplaint : UInt8 := 2
def tagAnswer : UInt8 := 3

/-- state of one Feldman VSS / Feldman-VSS-Qual instance (`feldmanVSSstate` + `feldmanVSSQualState`) -/
structure St (O : Ops) where
  size : Nat
  threshold : Nat
  me : Nat
  dealer : Nat
  running : Bool := false
  a : List Nat := []
  vA : Option O.Vec := none       -- `s.vA` and `s.y` (set together, only from a valid vector)
  vAReceived : Bool := false
  x : Nat := 0
  xReceived : Bool := false
  validKey : Bool := false
  complaints : List (Nat × Complaint) := []
  disqualified : Bool := false
  sharesTimeout : Bool := false
  complaintsTimeout : Bool := false

variable {O : Ops}

def St.find (s : St O) (k : Nat) : Option Complaint := (s.complaints.find? (·.1 == k)).map (·.2)
def St.setC (s : St O) (k : Nat) (c : Complaint) : St O :=
  { s with complaints := (k, c) :: s.complaints.filter (·.1 != k) }

def St.verifyShare (s : St O) : Bool :=
  match s.vA with
  | some v => O.checkLog v s.me s.x
  | none => false

/-- `checkComplaint`: true when the answer does NOT match the public key share of the complainer -/
def St.checkComplaint (s : St O) (k : Nat) (c : Complaint) : Bool :=
  match s.vA with
  | some v => !(O.checkLog v k c.answer)
  | none => true

/-- `orig >= s.Size() || orig < 0` -/
def badIndex (size : Nat) (orig : Int) : Bool := orig ≥ size || orig < 0

/-! ### dealer: `generateShares` -/

/-- the loop `for i := 1; i <= size` of `generateShares`: private sends to the others, own share kept;
    `none` = the dealer's own share is zero (unexpected error of the code) -/
def shareLoop (O : Ops) (a : List Nat) (me : Nat) : Nat → Nat → List Out → Nat → Option (List Out × Nat)
  | 0, _, outs, x => some (outs, x)
  | k+1, i, outs, x =>       -- i runs from 1
    let img := O.polyEval a i
    if i - 1 = me then
      if img = 0 then none else shareLoop O a me k (i + 1) outs img
    else shareLoop O a me k (i + 1) (outs ++ [Out.send (i - 1) (tagShare :: O.writeScalar img)]) x

def generateShares (s : St O) (seed : Bytes) : St O × List Out × Res :=
  match O.genPoly seed s.threshold with
  | none => (s, [], .invalidInputs)
  | some a =>
    match shareLoop O a s.me s.size 1 [] 0 with
    | none => ({ s with a := a, vA := some (O.vecOfPoly s.size a) }, [], .otherErr)
    | some (outs, x) =>
      ({ s with a := a, vA := some (O.vecOfPoly s.size a), x := x,
                vAReceived := true, xReceived := true, validKey := true },
       outs ++ [Out.bcast (tagVerifVec :: O.vecBytes a)], .ok)

/-- `feldmanVSSstate.Start` (shared by the three protocols) -/
def startBody (s : St O) (seed : Bytes) : St O × List Out × Res :=
  let s := { s with running := true }
  if s.dealer = s.me then
    match generateShares s seed with
    | (s', outs, .ok) => (s', outs, .ok)
    | (s', outs, r) => ({ s' with running := false }, outs, r)
  else (s, [], .ok)

def start (s : St O) (seed : Bytes) : St O × List Out × Res :=
  if s.running then (s, [], .invalidTransition) else startBody s seed

/-! ### plain Feldman VSS -/

namespace Fvss

def receiveShare (s : St O) (origin : Nat) (data : Bytes) : St O × List Out :=
  if origin ≠ s.dealer then (s, [])
  else if s.xReceived then (s, [.flag origin])
  else
    let s := { s with xReceived := true }
    if data.length = 0 ∨ data.headD 0 ≠ tagShare then ({ s with validKey := false }, [.flag origin])
    else
      let data := data.drop 1
      if data.length ≠ shareSize then ({ s with validKey := false }, [.flag origin])
      else match O.readScalar data with
        | none => ({ s with validKey := false }, [.flag origin])
        | some x =>
          let s := { s with x := x }
          if s.vAReceived ∧ s.vA.isSome then ({ s with validKey := s.verifyShare }, [])
          else (s, [])

def receiveVerifVector (s : St O) (origin : Nat) (data : Bytes) : St O × List Out :=
  if origin ≠ s.dealer then (s, [])
  else if s.vAReceived then (s, [.flag origin])
  else if verifVectorSize * (s.threshold + 1) ≠ data.length then
    ({ s with vAReceived := true, validKey := false }, [.disq origin])
  else match O.readVec s.threshold s.size data with
    | none => ({ s with vAReceived := true, validKey := false }, [.disq origin])
    | some v =>
      let s := { s with vA := some v, vAReceived := true }
      if s.xReceived then ({ s with validKey := s.verifyShare }, []) else (s, [])

def bcastBody (s : St O) (o : Nat) (msg : Bytes) : St O × List Out :=
  if s.me = o then (s, [])
  else if msg.length = 0 then (s, [.disq o])
  else if msg.headD 0 = tagVerifVec then receiveVerifVector s o (msg.drop 1)
  else (s, [.disq o])

def handleBroadcast (s : St O) (orig : Int) (msg : Bytes) : St O × List Out × Res :=
  if !s.running then (s, [], .invalidTransition)
  else if badIndex s.size orig then (s, [], .invalidInputs)
  else ((bcastBody s orig.toNat msg).1, (bcastBody s orig.toNat msg).2, .ok)

def privBody (s : St O) (o : Nat) (msg : Bytes) : St O × List Out :=
  if s.me = o then (s, []) else receiveShare s o msg

def handlePrivate (s : St O) (orig : Int) (msg : Bytes) : St O × List Out × Res :=
  if !s.running then (s, [], .invalidTransition)
  else if badIndex s.size orig then (s, [], .invalidInputs)
  else ((privBody s orig.toNat msg).1, (privBody s orig.toNat msg).2, .ok)

def forceDisqualify (s : St O) (p : Int) : St O × List Out × Res :=
  if !s.running then (s, [], .invalidTransition)
  else if badIndex s.size p then (s, [], .invalidInputs)
  else ((if p.toNat = s.dealer then { s with validKey := false } else s), [], .ok)

/-- result of an accepted `End`: failure or keys -/
def endBody (s : St O) : Res :=
  if !s.validKey then .failure
  else match s.vA with
    | none => .failure       -- unreachable: validKey implies a valid vector
    | some v =>
      if s.x = 0 then .failure
      else if O.groupKeyIsIdentity v then .failure
      else .keys s.x (O.groupKey v) (O.pubShares v)

def end_ (s : St O) : St O × List Out × Res :=
  if !s.running then (s, [], .invalidTransition)
  else ({ s with running := false }, [], endBody s)

end Fvss

/-! ### Feldman VSS with complaints (Qual) -/

namespace FvssQ

/-- `buildAndBroadcastComplaint` -/
def buildComplaint (s : St O) : St O × List Out :=
  match s.find s.me with
  | some c =>
    if c.received then (s, [])               -- built and broadcast at most once
    else
      -- the dealer's answer came first: keep it, tag the complaint as received, process the answer
      let c := { c with received := true }
      let s := s.setC s.me c
      let outs := [Out.flag s.dealer, Out.bcast [tagComplaint, UInt8.ofNat s.dealer]]
      if c.answerReceived then
        if s.vAReceived ∧ s.vA.isSome then
          if s.checkComplaint s.me c then ({ s with disqualified := true }, outs ++ [.disq s.dealer])
          else ({ s with disqualified := false, x := c.answer }, outs)
        else ({ s with x := c.answer }, outs)
      else (s, outs)
  | none =>
    (s.setC s.me { received := true, answerReceived := false },
     [.flag s.dealer, .bcast [tagComplaint, UInt8.ofNat s.dealer]])

/-- a malformed share: complain, then flag the dealer -/
def badShare (s : St O) (origin : Nat) : St O × List Out :=
  ((buildComplaint s).1, (buildComplaint s).2 ++ [.flag origin])

def receiveShare (s : St O) (origin : Nat) (data : Bytes) : St O × List Out :=
  if origin ≠ s.dealer then (s, [])
  else if s.sharesTimeout then (s, [.flag origin])
  else if s.xReceived then (s, [.flag origin])
  else
    let s := { s with xReceived := true }
    if data.length = 0 ∨ data.headD 0 ≠ tagShare then badShare s origin
    else
      let data := data.drop 1
      if data.length ≠ shareSize then badShare s origin
      else match O.readScalar data with
        | none => badShare s origin
        | some x =>
          let s := { s with x := x }
          if s.vAReceived then
            if !s.verifyShare then buildComplaint s else (s, [])
          else (s, [])

def receiveVerifVector (s : St O) (origin : Nat) (data : Bytes) : St O × List Out :=
  if origin ≠ s.dealer then (s, [])
  else if s.sharesTimeout then (s, [.flag origin])
  else if s.vAReceived then (s, [.flag origin])
  else
    let s := { s with vAReceived := true }
    if data.length ≠ verifVectorSize * (s.threshold + 1) then ({ s with disqualified := true }, [.disq origin])
    else match O.readVec s.threshold s.size data with
      | none => ({ s with disqualified := true }, [.disq origin])
      | some v =>
        let s := { s with vA := some v }
        if s.complaints.any (fun kc => kc.2.received && kc.2.answerReceived && s.checkComplaint kc.1 kc.2) then
          ({ s with disqualified := true }, [.disq s.dealer])
        else if s.xReceived then
          if !s.verifyShare then buildComplaint s else (s, [])
        else (s, [])

/-- `buildAndBroadcastComplaintAnswer` (dealer) -/
def buildAnswer (s : St O) (complainee : Nat) : St O × List Out :=
  let data := tagAnswer :: UInt8.ofNat complainee :: O.writeScalar (O.polyEval s.a (complainee + 1))
  match s.find complainee with
  | some c => (s.setC complainee { c with answerReceived := true }, [.bcast data])
  | none => (s, [.bcast data])       -- unreachable: the entry was just created

def receiveComplaint (s : St O) (origin : Nat) (data : Bytes) : St O × List Out :=
  if s.complaintsTimeout then (s, [.flag origin])
  else if data.length ≠ 1 then
    if origin = s.dealer then ({ s with disqualified := true }, [.disq origin]) else (s, [])
  else
    let complainee := (data.headD 0).toNat
    if complainee ≥ s.size then
      if origin = s.dealer then ({ s with disqualified := true }, [.disq origin]) else (s, [])
    else if origin = s.dealer then (s, [])
    else if complainee ≠ s.dealer then (s, [])
    else match s.find origin with
      | none =>
        let s := s.setC origin { received := true, answerReceived := false }
        if s.me = s.dealer then buildAnswer s origin else (s, [])
      | some c =>
        if c.received then (s, [.flag origin])
        else
          let c := { c with received := true }
          let s := s.setC origin c
          if s.vAReceived ∧ c.answerReceived ∧ s.me ≠ s.dealer then
            let d := s.checkComplaint origin c
            ({ s with disqualified := d }, if d then [.disq s.dealer] else [])
          else (s, [])

def receiveComplaintAnswer (s : St O) (origin : Nat) (data : Bytes) : St O × List Out :=
  if origin ≠ s.dealer then (s, [])
  else if data.length ≠ 1 + shareSize then ({ s with disqualified := true }, [.disq s.dealer])
  else
    let complainer := (data.headD 0).toNat
    if complainer ≥ s.size then ({ s with disqualified := true }, [.disq origin])
    else match s.find complainer with
      | none =>
        match O.readScalar (data.drop 1) with
        | none => ({ (s.setC complainer { received := false, answerReceived := true }) with disqualified := true },
                   [.disq s.dealer])
        | some ans => (s.setC complainer { received := false, answerReceived := true, answer := ans }, [])
      | some c =>
        if c.answerReceived then (s, [.flag origin])
        else
          let c := { c with answerReceived := true }
          let s := s.setC complainer c
          if c.received then
            match O.readScalar (data.drop 1) with
            | none => ({ s with disqualified := true }, [.disq s.dealer])
            | some ans =>
              let c := { c with answer := ans }
              let s := s.setC complainer c
              let (s, o) :=
                if s.vAReceived then
                  let d := s.checkComplaint complainer c
                  ({ s with disqualified := d }, if d then [Out.disq s.dealer] else [])
                else (s, [])
              let s := if !s.disqualified ∧ complainer = s.me then { s with x := ans } else s
              (s, o)
          else (s, [])

def bcastBody (s : St O) (o : Nat) (msg : Bytes) : St O × List Out :=
  if s.me = o then (s, [])
  else if s.disqualified then (s, [])
  else
    let badMsg : St O × List Out := ((if o = s.dealer then { s with disqualified := true } else s), [.disq o])
    if msg.length = 0 then badMsg
    else
      let tag := msg.headD 0
      if tag = tagVerifVec then receiveVerifVector s o (msg.drop 1)
      else if tag = tagComplaint then receiveComplaint s o (msg.drop 1)
      else if tag = tagAnswer then receiveComplaintAnswer s o (msg.drop 1)
      else badMsg

def handleBroadcast (s : St O) (orig : Int) (msg : Bytes) : St O × List Out × Res :=
  if !s.running then (s, [], .invalidTransition)
  else if badIndex s.size orig then (s, [], .invalidInputs)
  else ((bcastBody s orig.toNat msg).1, (bcastBody s orig.toNat msg).2, .ok)

def privBody (s : St O) (o : Nat) (msg : Bytes) : St O × List Out :=
  if s.me = o then (s, [])
  else if s.disqualified then (s, [])
  else receiveShare s o msg

def handlePrivate (s : St O) (orig : Int) (msg : Bytes) : St O × List Out × Res :=
  if !s.running then (s, [], .invalidTransition)
  else if badIndex s.size orig then (s, [], .invalidInputs)
  else ((privBody s orig.toNat msg).1, (privBody s orig.toNat msg).2, .ok)

def forceDisqualify (s : St O) (p : Int) : St O × List Out × Res :=
  if !s.running then (s, [], .invalidTransition)
  else if badIndex s.size p then (s, [], .invalidInputs)
  else ((if p.toNat = s.dealer then { s with disqualified := true } else s), [], .ok)

/-- `setSharesTimeout` -/
def setSharesTimeout (s : St O) : St O × List Out :=
  let s := { s with sharesTimeout := true }
  if !s.vAReceived then ({ s with disqualified := true }, [.disq s.dealer])
  else if !s.xReceived then buildComplaint s
  else (s, [])

/-- `setComplaintsTimeout` -/
def setComplaintsTimeout (s : St O) : St O × List Out :=
  let s := { s with complaintsTimeout := true }
  if s.complaints.length > s.threshold then ({ s with disqualified := true }, [.disq s.dealer])
  else (s, [])

def timeoutBody (s : St O) : St O × List Out :=
  if s.disqualified then
    (if !s.sharesTimeout then { s with sharesTimeout := true } else { s with complaintsTimeout := true }, [])
  else if !s.sharesTimeout then setSharesTimeout s
  else setComplaintsTimeout s

def nextTimeout (s : St O) : St O × List Out × Res :=
  if !s.running then (s, [], .invalidTransition)
  else if s.complaintsTimeout then (s, [], .invalidTransition)
  else ((timeoutBody s).1, (timeoutBody s).2, .ok)

/-- the part of `End` that settles the verdict of one instance: an unanswered complaint disqualifies -/
def settle (s : St O) : St O × List Out :=
  if !s.disqualified ∧ s.complaints.any (fun kc => kc.2.received && !kc.2.answerReceived) then
    ({ s with disqualified := true }, [.disq s.dealer])
  else (s, [])

/-- accepted `End`: the instance stops, the verdict is settled, failure or keys -/
def endBody (s : St O) : St O × List Out × Res :=
  let s := { s with running := false }
  let (s, o) := settle s
  if s.disqualified then (s, o, .failure)
  else match s.vA with
    | none => ({ s with disqualified := true }, o, .failure)    -- unreachable
    | some v =>
      if s.x = 0 then ({ s with disqualified := true }, o, .failure)
      else if O.groupKeyIsIdentity v then ({ s with disqualified := true }, o, .failure)
      else (s, o, .keys s.x (O.groupKey v) (O.pubShares v))

def end_ (s : St O) : St O × List Out × Res :=
  if !s.running then (s, [], .invalidTransition)
  else if !s.sharesTimeout ∨ !s.complaintsTimeout then (s, [], .invalidTransition)
  else endBody s

end FvssQ

/-! ### Joint Feldman: `size` parallel Feldman-VSS-Qual instances sharing one `running` flag -/

structure JSt (O : Ops) where
  size : Nat
  threshold : Nat
  me : Nat
  jointRunning : Bool := false
  fvss : List (St O)

namespace Joint

def init (O : Ops) (size threshold me : Nat) : JSt O :=
  { size := size, threshold := threshold, me := me,
    fvss := (List.range size).map fun i => { size := size, threshold := threshold, me := me, dealer := i } }

/-- apply a per-instance handler to every instance in order, stopping at the first error -/
def forAll (f : St O → St O × List Out × Res) : List (St O) → List (St O) × List Out × Res
  | [] => ([], [], .ok)
  | s :: rest =>
    match f s with
    | (s', o, .ok) =>
      let (rest', o', r) := forAll f rest
      (s' :: rest', o ++ o', r)
    | (s', o, r) => (s' :: rest, o, r)

def start (j : JSt O) (seed : Bytes) : JSt O × List Out × Res :=
  if j.jointRunning then (j, [], .invalidTransition)
  else
    let (fv, o, r) := forAll (fun s => Dkg.start { s with running := false } seed) j.fvss
    match r with
    | .ok => ({ j with fvss := fv.map (fun s => { s with running := true }), jointRunning := true }, o, .ok)
    | r => ({ j with fvss := fv }, o, r)

def nextTimeout (j : JSt O) : JSt O × List Out × Res :=
  if !j.jointRunning then (j, [], .invalidTransition)
  else let (fv, o, r) := forAll FvssQ.nextTimeout j.fvss; ({ j with fvss := fv }, o, r)

def handleBroadcast (j : JSt O) (orig : Int) (msg : Bytes) : JSt O × List Out × Res :=
  if !j.jointRunning then (j, [], .invalidTransition)
  else let (fv, o, r) := forAll (fun s => FvssQ.handleBroadcast s orig msg) j.fvss; ({ j with fvss := fv }, o, r)

def handlePrivate (j : JSt O) (orig : Int) (msg : Bytes) : JSt O × List Out × Res :=
  if !j.jointRunning then (j, [], .invalidTransition)
  else let (fv, o, r) := forAll (fun s => FvssQ.handlePrivate s orig msg) j.fvss; ({ j with fvss := fv }, o, r)

def forceDisqualify (j : JSt O) (p : Int) : JSt O × List Out × Res :=
  if !j.jointRunning then (j, [], .invalidTransition)
  else if badIndex j.size p then (j, [], .invalidInputs)
  else
    let fv := j.fvss.mapIdx fun i s => if i = p.toNat then (FvssQ.forceDisqualify s p).1 else s
    ({ j with fvss := fv }, [], .ok)

def end_ (j : JSt O) : JSt O × List Out × Res :=
  if !j.jointRunning then (j, [], .invalidTransition)
  else if j.fvss.any (fun s => !s.sharesTimeout || !s.complaintsTimeout) then (j, [], .invalidTransition)
  else
    let settled := j.fvss.map FvssQ.settle
    let fv := settled.map (·.1)
    let outs := settled.flatMap (·.2)
    let j := { j with fvss := fv, jointRunning := false }
    let disq := (fv.filter (·.disqualified)).length
    if disq > j.threshold ∨ j.size - disq ≤ j.threshold then (j, outs, .failure)
    else
      let qual := fv.filter (fun s => !s.disqualified)
      let x := qual.foldl (fun acc s => O.addScalar acc s.x) 0
      match O.sumVecs (qual.filterMap (·.vA)) with
      | none => (j, outs, .failure)      -- unreachable: at least one qualified dealer
      | some v =>
        if x = 0 then (j, outs, .failure)
        else if O.groupKeyIsIdentity v then (j, outs, .failure)
        else (j, outs, .keys x (O.groupKey v) (O.pubShares v))

end Joint

/-! ### one API for the three protocols -/

inductive Proto | fvss | fvssq | joint
deriving Repr, DecidableEq

inductive Call
  | start (seed : Bytes)
  | nextTimeout
  | end_
  | bcast (orig : Int) (msg : Bytes)
  | priv (orig : Int) (msg : Bytes)
  | forceDisq (p : Int)
  | running
deriving Repr

inductive Inst (O : Ops)
  | fvss (s : St O)
  | fvssq (s : St O)
  | joint (j : JSt O)

def Inst.running : Inst O → Bool
  | .fvss s => s.running
  | .fvssq s => s.running
  | .joint j => j.jointRunning

def step (i : Inst O) (c : Call) : Inst O × List Out × Res :=
  match i, c with
  | .fvss s, .start seed => let (s', o, r) := start s seed; (.fvss s', o, r)
  | .fvss s, .nextTimeout => (.fvss s, [], .ok)            -- dkgCommon.NextTimeout: no-op
  | .fvss s, .end_ => let (s', o, r) := Fvss.end_ s; (.fvss s', o, r)
  | .fvss s, .bcast orig m => let (s', o, r) := Fvss.handleBroadcast s orig m; (.fvss s', o, r)
  | .fvss s, .priv orig m => let (s', o, r) := Fvss.handlePrivate s orig m; (.fvss s', o, r)
  | .fvss s, .forceDisq p => let (s', o, r) := Fvss.forceDisqualify s p; (.fvss s', o, r)
  | .fvssq s, .start seed => let (s', o, r) := start s seed; (.fvssq s', o, r)
  | .fvssq s, .nextTimeout => let (s', o, r) := FvssQ.nextTimeout s; (.fvssq s', o, r)
  | .fvssq s, .end_ => let (s', o, r) := FvssQ.end_ s; (.fvssq s', o, r)
  | .fvssq s, .bcast orig m => let (s', o, r) := FvssQ.handleBroadcast s orig m; (.fvssq s', o, r)
  | .fvssq s, .priv orig m => let (s', o, r) := FvssQ.handlePrivate s orig m; (.fvssq s', o, r)
  | .fvssq s, .forceDisq p => let (s', o, r) := FvssQ.forceDisqualify s p; (.fvssq s', o, r)
  | .joint j, .start seed => let (j', o, r) := Joint.start j seed; (.joint j', o, r)
  | .joint j, .nextTimeout => let (j', o, r) := Joint.nextTimeout j; (.joint j', o, r)
  | .joint j, .end_ => let (j', o, r) := Joint.end_ j; (.joint j', o, r)
  | .joint j, .bcast orig m => let (j', o, r) := Joint.handleBroadcast j orig m; (.joint j', o, r)
  | .joint j, .priv orig m => let (j', o, r) := Joint.handlePrivate j orig m; (.joint j', o, r)
  | .joint j, .forceDisq p => let (j', o, r) := Joint.forceDisqualify j p; (.joint j', o, r)
  | i, .running => (i, [], .bool i.running)

/-- constructor guards of `newDKGCommon`; `none` = invalid-input error -/
def new? (O : Ops) (p : Proto) (size threshold me dealer : Int) : Option (Inst O) :=
  if size < 2 ∨ size > 254 then none
  else if me ≥ size ∨ dealer ≥ size ∨ me < 0 ∨ dealer < 0 then none
  else if threshold ≥ size ∨ threshold < 1 then none
  else
    let s : St O := { size := size.toNat, threshold := threshold.toNat, me := me.toNat, dealer := dealer.toNat }
    match p with
    | .fvss => some (.fvss s)
    | .fvssq => some (.fvssq s)
    | .joint => some (.joint (Joint.init O size.toNat threshold.toNat me.toNat))

end Model.Dkg
