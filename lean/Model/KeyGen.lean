import Model.Sha2
import Model.Bls
import Model.Ecdsa

/-! Key generation: bls.go `generatePrivateKey` (IETF BLS KeyGen over HKDF-SHA256) and ecdsa.go
`generatePrivateKey` (HKDF-SHA256 expansion to 48 bytes reduced into [1, n-1]). -/

namespace Model.KeyGen

def seedMinLen : Nat := 32
def seedMaxLen : Nat := 256

def blsSaltString : Bytes := "BLS-SIG-KEYGEN-SALT-".toUTF8.toList

/-- the retry loop of BLS KeyGen: re-hash the salt while the scalar is zero (fuel bounds the loop) -/
def blsLoop (secret info : Bytes) : Nat → Bytes → Option Nat
  | 0, _ => none
  | fuel+1, salt =>
    let okm := Sha2.hkdf salt secret info 48
    let sk := Bls.mapToFr okm
    if sk ≠ 0 then some sk else blsLoop secret info fuel (Sha2.sha256 salt)

/-- `blsBLS12381Algo.generatePrivateKey`; `none` = invalid-input error -/
def bls (ikm : Bytes) : Option Nat :=
  if ikm.length < seedMinLen ∨ ikm.length > seedMaxLen then none
  else blsLoop (ikm ++ [0]) [0, 48] 16 (Sha2.sha256 blsSaltString)

/-- `ecdsaAlgo.generatePrivateKey` -/
def ecdsa (S : Ecdsa.CurveSpec) (seed : Bytes) : Option Nat :=
  if seed.length < seedMinLen ∨ seed.length > seedMaxLen then none
  else some (Ecdsa.mapKey S (Sha2.hkdf [] seed [] 48))

end Model.KeyGen
