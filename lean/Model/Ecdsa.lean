import Model.Field

/-! ECDSA on P-256 and secp256k1: key codecs of ecdsa.go, signature format check, verification
equation (what crypto/ecdsa and btcec are documented to compute). Core Lean only. -/

namespace Model.Ecdsa

structure CurveSpec where
  p : Nat
  n : Nat
  C : Curve.Params Nat
  g : Curve.Aff Nat

def p256P : Nat := 2 ^ 256 - 2 ^ 224 + 2 ^ 192 + 2 ^ 96 - 1
def p256 : CurveSpec :=
  { p := p256P
    n := 0xffffffff00000000ffffffffffffffffbce6faada7179e84f3b9cac2fc632551
    C := { f := Fp.ops p256P, a := p256P - 3,
           b := 0x5ac635d8aa3a93e7b3ebbd55769886bc651d06b0cc53b0f63bce3c3e27d2604b }
    g := some (0x6b17d1f2e12c4247f8bce6e563a440f277037d812deb33a0f4a13945d898c296,
               0x4fe342e2fe1a7f9b8ee7eb4a7c0f9e162bce33576b315ececbb6406837bf51f5) }

def k256P : Nat := 2 ^ 256 - 2 ^ 32 - 977
def k256 : CurveSpec :=
  { p := k256P
    n := 0xfffffffffffffffffffffffffffffffebaaedce6af48a03bbfd25e8cd0364141
    C := { f := Fp.ops k256P, a := 0, b := 7 }
    g := some (0x79be667ef9dcbbac55a06295ce870b07029bfcdb2dce28d959f2815b16f81798,
               0x483ada7726a3c4655da4fbfc0e1108a8fd17b448a68554199c47d08ffb10d4b8) }

/-- `rawDecodePrivateKey`: 32 bytes big-endian, `0 < d < n` -/
def decodePrivateKey (S : CurveSpec) (b : Bytes) : Option Nat :=
  if b.length ≠ 32 then none
  else let d := beNat b; if d ≥ S.n then none else if d = 0 then none else some d

/-- `rawDecodePublicKey`: `X ‖ Y`, both reduced, on the curve (so never the point at infinity) -/
def decodePublicKey (S : CurveSpec) (b : Bytes) : Option (Nat × Nat) :=
  if b.length ≠ 64 then none
  else
    let x := beNat (b.take 32)
    let y := beNat (b.drop 32)
    if x ≥ S.p ∨ y ≥ S.p then none
    else if Curve.onCurve S.C (some (x, y)) then some (x, y) else none

def encodePublicKey (Q : Nat × Nat) : Bytes := natBE 32 Q.1 ++ natBE 32 Q.2

/-- `decodePublicKeyCompressed`: X9.62 compressed form, prefix 0x02 / 0x03 -/
def decodePublicKeyCompressed (S : CurveSpec) (b : Bytes) : Option (Nat × Nat) :=
  if b.length ≠ 33 then none
  else
    let pre := (b.headD 0).toNat
    if pre ≠ 2 ∧ pre ≠ 3 then none
    else
      let x := beNat (b.drop 1)
      if x ≥ S.p then none
      else
        let f := S.C.f
        match Fp.sqrt? S.p (f.add (f.add (f.mul (f.mul x x) x) (f.mul S.C.a x)) S.C.b) with
        | none => none
        | some y => some (x, if y % 2 ≠ pre % 2 then Fp.neg S.p y else y)

def encodePublicKeyCompressed (Q : Nat × Nat) : Bytes := UInt8.ofNat (2 + Q.2 % 2) :: natBE 32 Q.1

def publicKeyOf (S : CurveSpec) (d : Nat) : Curve.Aff Nat := Curve.mul S.C d S.g

/-- `signatureFormatCheck`: 64 bytes, `1 ≤ r, s < n` -/
def formatCheck (S : CurveSpec) (sig : Bytes) : Bool :=
  if sig.length ≠ 64 then false
  else
    let r := beNat (sig.take 32)
    let s := beNat (sig.drop 32)
    !(r = 0 ∨ s = 0) && !(r ≥ S.n ∨ s ≥ S.n)

/-- ECDSA verification of `sig` on the hasher output `h` (at least 32 bytes): leftmost 256 bits -/
def verifyHash (S : CurveSpec) (Q : Nat × Nat) (h sig : Bytes) : Bool :=
  if sig.length ≠ 64 then false
  else
    let r := beNat (sig.take 32)
    let s := beNat (sig.drop 32)
    if r = 0 ∨ s = 0 ∨ r ≥ S.n ∨ s ≥ S.n then false
    else
      let e := beNat (h.take 32)
      let w := powMod s (S.n - 2) S.n
      let u1 := e % S.n * w % S.n
      let u2 := r * w % S.n
      match Curve.addAff S.C (Curve.mul S.C u1 S.g) (Curve.mul S.C u2 (some Q)) with
      | none => false
      | some (x, _) => x % S.n = r

/-- the signature a signer with nonce `k` produces on hash `h` (used to state sign ⇒ verify) -/
def signWith (S : CurveSpec) (d k : Nat) (h : Bytes) : Option Bytes :=
  match Curve.mul S.C k S.g with
  | none => none
  | some (x, _) =>
    let r := x % S.n
    let e := beNat (h.take 32)
    let s := powMod k (S.n - 2) S.n * ((e + r * d) % S.n) % S.n
    if r = 0 ∨ s = 0 then none else some (natBE 32 r ++ natBE 32 s)

/-- `goecdsaMapKey`: okm mod (n-1) + 1 -/
def mapKey (S : CurveSpec) (okm : Bytes) : Nat := beNat okm % (S.n - 1) + 1

end Model.Ecdsa
