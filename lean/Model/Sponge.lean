import Model.Bytes

/-! Model of hash/keccak.go (`spongeState`): buffer logic of `write`, `padAndPermute`, `sum`,
`Reset`, `ComputeHash`, parametric in the block absorption `absorb : St → Bytes → St`
(= xorIn followed by keccakF1600) and the output extraction `extract : St → Nat → Bytes` (= copyOut).

`storage[bufIndex : bufIndex+bufSize]` is the list `buf`; the `bufNilValue` sentinel is `isNil`. -/

namespace Model.Sponge

structure Params (St : Type) where
  absorb : St → Bytes → St
  extract : St → Nat → Bytes
  zero : St
  rate : Nat
  dsByte : UInt8
  outputLen : Nat

structure State (St : Type) where
  a : St
  buf : Bytes
  isNil : Bool      -- bufSize == bufNilValue: never reset, never written

variable {St : Type}

/-- a hasher as returned by `NewSHA3_256()` etc. -/
def new (P : Params St) : State St := { a := P.zero, buf := [], isNil := true }

/-- `Reset` -/
def reset (P : Params St) (_ : State St) : State St := { a := P.zero, buf := [], isNil := false }

/-- the `for len(p) > 0` loop of `write`; `fuel > len p` suffices. -/
def writeLoop (P : Params St) : Nat → State St → Bytes → State St
  | 0, s, _ => s
  | fuel+1, s, p =>
    if p.length = 0 then s
    else if s.buf.length = 0 ∧ P.rate ≤ p.length then
      -- fast path
      writeLoop P fuel { s with a := P.absorb s.a (p.take P.rate) } (p.drop P.rate)
    else
      -- slow path
      let todo := min (P.rate - s.buf.length) p.length
      let buf' := s.buf ++ p.take todo
      let s' : State St :=
        if buf'.length = P.rate then { s with a := P.absorb s.a buf', buf := [] }   -- permute()
        else { s with buf := buf' }
      writeLoop P fuel s' (p.drop todo)

/-- `write` -/
def write (P : Params St) (s : State St) (p : Bytes) : State St :=
  let s := if s.isNil then { s with buf := [], isNil := false } else s
  writeLoop P (p.length + 1) s p

/-- the padded last block built by `padAndPermute` from the buffered tail (shorter than the rate) -/
def padBlock (rate : Nat) (dsByte : UInt8) (tail : Bytes) : Bytes :=
  let b := tail ++ [dsByte] ++ zeros (rate - (tail.length + 1))
  b.take (rate - 1) ++ [b.getD (rate - 1) 0 ^^^ 0x80]

/-- `padAndPermute` (state of the permutation only; the buffer is left unusable until `Reset`) -/
def padAndPermute (P : Params St) (s : State St) : St :=
  let tail := if s.isNil then [] else s.buf
  P.absorb s.a (padBlock P.rate P.dsByte tail)

/-- `sum` / `SumHash` -/
def sum (P : Params St) (s : State St) : Bytes := P.extract (padAndPermute P s) P.outputLen

/-- `ComputeHash` -/
def computeHash (P : Params St) (s : State St) (data : Bytes) : Bytes :=
  sum P (write P (reset P s) data)

/-! ### reference: the sponge construction of FIPS 202 with a byte-aligned domain suffix -/

/-- absorb every full `rate`-byte block of `m`; returns the state and the unabsorbed tail -/
def absorbAll (absorb : St → Bytes → St) (rate : Nat) : Nat → St → Bytes → St × Bytes
  | 0, a, m => (a, m)
  | fuel+1, a, m => if m.length < rate then (a, m)
                    else absorbAll absorb rate fuel (absorb a (m.take rate)) (m.drop rate)

/-- the digest the standards define (output no longer than the rate): absorb the full blocks of the
    message, then the last block `tail ‖ ds ‖ 0…0` with `0x80` xored into its last byte, then extract -/
def refHash (P : Params St) (m : Bytes) : Bytes :=
  let (a, t) := absorbAll P.absorb P.rate (m.length + 1) P.zero m
  P.extract (P.absorb a (padBlock P.rate P.dsByte t)) P.outputLen

end Model.Sponge
