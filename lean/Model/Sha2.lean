import Model.Bytes
/-
  SHA-256 / SHA-384 / SHA-512 (FIPS 180-4), HMAC-SHA256 (RFC 2104 / FIPS 198-1)
  and HKDF-SHA256 (RFC 5869) as pure, total, executable Lean 4 functions.
  Core only: no Mathlib, no `partial`, no `unsafe`, no `sorry`.

  All recursion is structural (on an explicit `Nat` counter or on a list), so every
  definition unfolds in the kernel (`decide +kernel` works on short inputs).
-/
namespace Model



namespace Sha2

/-! ## Byte helpers -/

/-- Big-endian encoding of `v mod 256^n` on exactly `n` bytes, prepended to `acc`. -/
def natToBE : (n : Nat) → (v : Nat) → (acc : Bytes) → Bytes
  | 0,     _, acc => acc
  | n + 1, v, acc => natToBE n (v / 256) (UInt8.ofNat (v % 256) :: acc)

/-- Big-endian 4-byte encoding of a 32-bit word. -/
def word32ToBE (w : UInt32) : Bytes :=
  [(w >>> 24).toUInt8, (w >>> 16).toUInt8, (w >>> 8).toUInt8, w.toUInt8]

/-- Big-endian 8-byte encoding of a 64-bit word. -/
def word64ToBE (w : UInt64) : Bytes :=
  [(w >>> 56).toUInt8, (w >>> 48).toUInt8, (w >>> 40).toUInt8, (w >>> 32).toUInt8,
   (w >>> 24).toUInt8, (w >>> 16).toUInt8, (w >>> 8).toUInt8, w.toUInt8]

/-- Parse a byte string as big-endian 32-bit words (trailing bytes that do not fill a word
    are dropped; never happens on a 64-byte block). -/
def bytesToWords32 : Bytes → List UInt32
  | a :: b :: c :: d :: rest =>
      ((a.toUInt32 <<< 24) ||| (b.toUInt32 <<< 16) ||| (c.toUInt32 <<< 8) ||| d.toUInt32)
        :: bytesToWords32 rest
  | _ => []

/-- Parse a byte string as big-endian 64-bit words. -/
def bytesToWords64 : Bytes → List UInt64
  | a :: b :: c :: d :: e :: f :: g :: h :: rest =>
      ((a.toUInt64 <<< 56) ||| (b.toUInt64 <<< 48) ||| (c.toUInt64 <<< 40) ||| (d.toUInt64 <<< 32) |||
       (e.toUInt64 <<< 24) ||| (f.toUInt64 <<< 16) ||| (g.toUInt64 <<< 8) ||| h.toUInt64)
        :: bytesToWords64 rest
  | _ => []

/-! ## SHA-256 (FIPS 180-4 §4.1.2, §4.2.2, §5.1.1, §5.3.3, §6.2) -/

/-- ROTR^n(x) on 32-bit words, `0 < n < 32`. -/
@[inline] def rotr32 (x : UInt32) (n : UInt32) : UInt32 := (x >>> n) ||| (x <<< (32 - n))

@[inline] def ch32  (x y z : UInt32) : UInt32 := (x &&& y) ^^^ (~~~x &&& z)
@[inline] def maj32 (x y z : UInt32) : UInt32 := (x &&& y) ^^^ (x &&& z) ^^^ (y &&& z)
/-- Σ₀^{256} -/
@[inline] def bsig0_256 (x : UInt32) : UInt32 := rotr32 x 2 ^^^ rotr32 x 13 ^^^ rotr32 x 22
/-- Σ₁^{256} -/
@[inline] def bsig1_256 (x : UInt32) : UInt32 := rotr32 x 6 ^^^ rotr32 x 11 ^^^ rotr32 x 25
/-- σ₀^{256} -/
@[inline] def ssig0_256 (x : UInt32) : UInt32 := rotr32 x 7 ^^^ rotr32 x 18 ^^^ (x >>> 3)
/-- σ₁^{256} -/
@[inline] def ssig1_256 (x : UInt32) : UInt32 := rotr32 x 17 ^^^ rotr32 x 19 ^^^ (x >>> 10)

/-- K^{256}_0 … K^{256}_63 (FIPS 180-4 §4.2.2). -/
def K256 : Array UInt32 := #[
    0x428a2f98, 0x71374491, 0xb5c0fbcf, 0xe9b5dba5, 0x3956c25b, 0x59f111f1, 0x923f82a4, 0xab1c5ed5,
    0xd807aa98, 0x12835b01, 0x243185be, 0x550c7dc3, 0x72be5d74, 0x80deb1fe, 0x9bdc06a7, 0xc19bf174,
    0xe49b69c1, 0xefbe4786, 0x0fc19dc6, 0x240ca1cc, 0x2de92c6f, 0x4a7484aa, 0x5cb0a9dc, 0x76f988da,
    0x983e5152, 0xa831c66d, 0xb00327c8, 0xbf597fc7, 0xc6e00bf3, 0xd5a79147, 0x06ca6351, 0x14292967,
    0x27b70a85, 0x2e1b2138, 0x4d2c6dfc, 0x53380d13, 0x650a7354, 0x766a0abb, 0x81c2c92e, 0x92722c85,
    0xa2bfe8a1, 0xa81a664b, 0xc24b8b70, 0xc76c51a3, 0xd192e819, 0xd6990624, 0xf40e3585, 0x106aa070,
    0x19a4c116, 0x1e376c08, 0x2748774c, 0x34b0bcb5, 0x391c0cb3, 0x4ed8aa4a, 0x5b9cca4f, 0x682e6ff3,
    0x748f82ee, 0x78a5636f, 0x84c87814, 0x8cc70208, 0x90befffa, 0xa4506ceb, 0xbef9a3f7, 0xc67178f2]

/-- Eight 32-bit words: used both for the hash value `H^{(i)}` and for the working
    variables `a … h`. -/
structure State256 where
  a : UInt32
  b : UInt32
  c : UInt32
  d : UInt32
  e : UInt32
  f : UInt32
  g : UInt32
  h : UInt32

/-- H^{(0)} for SHA-256 (§5.3.3). -/
def H256init : State256 :=
  ⟨0x6a09e667, 0xbb67ae85, 0x3c6ef372, 0xa54ff53a, 0x510e527f, 0x9b05688c, 0x1f83d9ab, 0x5be0cd19⟩

/-- Extend `W_0 … W_{t-1}` by `n` further schedule words
    `W_t = σ₁(W_{t-2}) + W_{t-7} + σ₀(W_{t-15}) + W_{t-16}`. -/
def extend256 : (n : Nat) → Array UInt32 → Array UInt32
  | 0,     w => w
  | n + 1, w =>
      let t := w.size
      extend256 n (w.push (ssig1_256 (w.getD (t - 2) 0) + w.getD (t - 7) 0
                           + ssig0_256 (w.getD (t - 15) 0) + w.getD (t - 16) 0))

/-- Message schedule `W_0 … W_63` of one 64-byte block (§6.2.2 step 1). -/
def schedule256 (block : Bytes) : Array UInt32 :=
  extend256 48 (bytesToWords32 block).toArray

/-- One round `t` of §6.2.2 step 3. -/
@[inline] def round256 (s : State256) (k w : UInt32) : State256 :=
  let t1 := s.h + bsig1_256 s.e + ch32 s.e s.f s.g + k + w
  let t2 := bsig0_256 s.a + maj32 s.a s.b s.c
  { a := t1 + t2, b := s.a, c := s.b, d := s.c, e := s.d + t1, f := s.e, g := s.f, h := s.g }

/-- Rounds `t, t+1, …, t+n-1`. -/
def rounds256 (w : Array UInt32) : (n : Nat) → (t : Nat) → State256 → State256
  | 0,     _, s => s
  | n + 1, t, s => rounds256 w n (t + 1) (round256 s (K256.getD t 0) (w.getD t 0))

/-- The SHA-256 compression function: `H^{(i)}` from `H^{(i-1)}` and block `M^{(i)}` (§6.2.2). -/
def compress256 (hv : State256) (block : Bytes) : State256 :=
  let s := rounds256 (schedule256 block) 64 0 hv
  { a := hv.a + s.a, b := hv.b + s.b, c := hv.c + s.c, d := hv.d + s.d,
    e := hv.e + s.e, f := hv.f + s.f, g := hv.g + s.g, h := hv.h + s.h }

/-- Padding of §5.1.1: `0x80`, then `k` zero bytes with `len + 1 + k ≡ 56 (mod 64)`,
    then the bit length as a 64-bit big-endian integer. -/
def pad256 (msg : Bytes) : Bytes :=
  let len := msg.length
  msg ++ (0x80 :: (List.replicate ((119 - len % 64) % 64) 0 ++ natToBE 8 (len * 8) []))

/-- Process `n` consecutive 64-byte blocks of `m`. -/
def blocks256 : (n : Nat) → (m : Bytes) → State256 → State256
  | 0,     _, hv => hv
  | n + 1, m, hv => blocks256 n (m.drop 64) (compress256 hv (m.take 64))

def State256.toBytes (s : State256) : Bytes :=
  word32ToBE s.a ++ word32ToBE s.b ++ word32ToBE s.c ++ word32ToBE s.d ++
  word32ToBE s.e ++ word32ToBE s.f ++ word32ToBE s.g ++ word32ToBE s.h

/-- SHA-256 (32-byte digest). -/
def sha256 (msg : Bytes) : Bytes :=
  let m := pad256 msg
  (blocks256 (m.length / 64) m H256init).toBytes

/-! ## SHA-512 and SHA-384 (FIPS 180-4 §4.1.3, §4.2.3, §5.1.2, §5.3.4, §5.3.5, §6.4, §6.5) -/

/-- ROTR^n(x) on 64-bit words, `0 < n < 64`. -/
@[inline] def rotr64 (x : UInt64) (n : UInt64) : UInt64 := (x >>> n) ||| (x <<< (64 - n))

@[inline] def ch64  (x y z : UInt64) : UInt64 := (x &&& y) ^^^ (~~~x &&& z)
@[inline] def maj64 (x y z : UInt64) : UInt64 := (x &&& y) ^^^ (x &&& z) ^^^ (y &&& z)
/-- Σ₀^{512} -/
@[inline] def bsig0_512 (x : UInt64) : UInt64 := rotr64 x 28 ^^^ rotr64 x 34 ^^^ rotr64 x 39
/-- Σ₁^{512} -/
@[inline] def bsig1_512 (x : UInt64) : UInt64 := rotr64 x 14 ^^^ rotr64 x 18 ^^^ rotr64 x 41
/-- σ₀^{512} -/
@[inline] def ssig0_512 (x : UInt64) : UInt64 := rotr64 x 1 ^^^ rotr64 x 8 ^^^ (x >>> 7)
/-- σ₁^{512} -/
@[inline] def ssig1_512 (x : UInt64) : UInt64 := rotr64 x 19 ^^^ rotr64 x 61 ^^^ (x >>> 6)

/-- K^{512}_0 … K^{512}_79 (FIPS 180-4 §4.2.3). -/
def K512 : Array UInt64 := #[
    0x428a2f98d728ae22, 0x7137449123ef65cd, 0xb5c0fbcfec4d3b2f, 0xe9b5dba58189dbbc,
    0x3956c25bf348b538, 0x59f111f1b605d019, 0x923f82a4af194f9b, 0xab1c5ed5da6d8118,
    0xd807aa98a3030242, 0x12835b0145706fbe, 0x243185be4ee4b28c, 0x550c7dc3d5ffb4e2,
    0x72be5d74f27b896f, 0x80deb1fe3b1696b1, 0x9bdc06a725c71235, 0xc19bf174cf692694,
    0xe49b69c19ef14ad2, 0xefbe4786384f25e3, 0x0fc19dc68b8cd5b5, 0x240ca1cc77ac9c65,
    0x2de92c6f592b0275, 0x4a7484aa6ea6e483, 0x5cb0a9dcbd41fbd4, 0x76f988da831153b5,
    0x983e5152ee66dfab, 0xa831c66d2db43210, 0xb00327c898fb213f, 0xbf597fc7beef0ee4,
    0xc6e00bf33da88fc2, 0xd5a79147930aa725, 0x06ca6351e003826f, 0x142929670a0e6e70,
    0x27b70a8546d22ffc, 0x2e1b21385c26c926, 0x4d2c6dfc5ac42aed, 0x53380d139d95b3df,
    0x650a73548baf63de, 0x766a0abb3c77b2a8, 0x81c2c92e47edaee6, 0x92722c851482353b,
    0xa2bfe8a14cf10364, 0xa81a664bbc423001, 0xc24b8b70d0f89791, 0xc76c51a30654be30,
    0xd192e819d6ef5218, 0xd69906245565a910, 0xf40e35855771202a, 0x106aa07032bbd1b8,
    0x19a4c116b8d2d0c8, 0x1e376c085141ab53, 0x2748774cdf8eeb99, 0x34b0bcb5e19b48a8,
    0x391c0cb3c5c95a63, 0x4ed8aa4ae3418acb, 0x5b9cca4f7763e373, 0x682e6ff3d6b2b8a3,
    0x748f82ee5defb2fc, 0x78a5636f43172f60, 0x84c87814a1f0ab72, 0x8cc702081a6439ec,
    0x90befffa23631e28, 0xa4506cebde82bde9, 0xbef9a3f7b2c67915, 0xc67178f2e372532b,
    0xca273eceea26619c, 0xd186b8c721c0c207, 0xeada7dd6cde0eb1e, 0xf57d4f7fee6ed178,
    0x06f067aa72176fba, 0x0a637dc5a2c898a6, 0x113f9804bef90dae, 0x1b710b35131c471b,
    0x28db77f523047d84, 0x32caab7b40c72493, 0x3c9ebe0a15c9bebc, 0x431d67c49c100d4c,
    0x4cc5d4becb3e42b6, 0x597f299cfc657e2a, 0x5fcb6fab3ad6faec, 0x6c44198c4a475817]

/-- Eight 64-bit words: hash value `H^{(i)}` / working variables `a … h`. -/
structure State512 where
  a : UInt64
  b : UInt64
  c : UInt64
  d : UInt64
  e : UInt64
  f : UInt64
  g : UInt64
  h : UInt64

/-- H^{(0)} for SHA-512 (§5.3.5). -/
def H512init : State512 :=
  ⟨0x6a09e667f3bcc908, 0xbb67ae8584caa73b, 0x3c6ef372fe94f82b, 0xa54ff53a5f1d36f1,
   0x510e527fade682d1, 0x9b05688c2b3e6c1f, 0x1f83d9abfb41bd6b, 0x5be0cd19137e2179⟩

/-- H^{(0)} for SHA-384 (§5.3.4). -/
def H384init : State512 :=
  ⟨0xcbbb9d5dc1059ed8, 0x629a292a367cd507, 0x9159015a3070dd17, 0x152fecd8f70e5939,
   0x67332667ffc00b31, 0x8eb44a8768581511, 0xdb0c2e0d64f98fa7, 0x47b5481dbefa4fa4⟩

/-- Extend `W_0 … W_{t-1}` by `n` further schedule words. -/
def extend512 : (n : Nat) → Array UInt64 → Array UInt64
  | 0,     w => w
  | n + 1, w =>
      let t := w.size
      extend512 n (w.push (ssig1_512 (w.getD (t - 2) 0) + w.getD (t - 7) 0
                           + ssig0_512 (w.getD (t - 15) 0) + w.getD (t - 16) 0))

/-- Message schedule `W_0 … W_79` of one 128-byte block (§6.4.2 step 1). -/
def schedule512 (block : Bytes) : Array UInt64 :=
  extend512 64 (bytesToWords64 block).toArray

/-- One round `t` of §6.4.2 step 3. -/
@[inline] def round512 (s : State512) (k w : UInt64) : State512 :=
  let t1 := s.h + bsig1_512 s.e + ch64 s.e s.f s.g + k + w
  let t2 := bsig0_512 s.a + maj64 s.a s.b s.c
  { a := t1 + t2, b := s.a, c := s.b, d := s.c, e := s.d + t1, f := s.e, g := s.f, h := s.g }

/-- Rounds `t, t+1, …, t+n-1`. -/
def rounds512 (w : Array UInt64) : (n : Nat) → (t : Nat) → State512 → State512
  | 0,     _, s => s
  | n + 1, t, s => rounds512 w n (t + 1) (round512 s (K512.getD t 0) (w.getD t 0))

/-- The SHA-512 compression function (§6.4.2). -/
def compress512 (hv : State512) (block : Bytes) : State512 :=
  let s := rounds512 (schedule512 block) 80 0 hv
  { a := hv.a + s.a, b := hv.b + s.b, c := hv.c + s.c, d := hv.d + s.d,
    e := hv.e + s.e, f := hv.f + s.f, g := hv.g + s.g, h := hv.h + s.h }

/-- Padding of §5.1.2: `0x80`, then `k` zero bytes with `len + 1 + k ≡ 112 (mod 128)`,
    then the bit length as a 128-bit big-endian integer. -/
def pad512 (msg : Bytes) : Bytes :=
  let len := msg.length
  msg ++ (0x80 :: (List.replicate ((239 - len % 128) % 128) 0 ++ natToBE 16 (len * 8) []))

/-- Process `n` consecutive 128-byte blocks of `m`. -/
def blocks512 : (n : Nat) → (m : Bytes) → State512 → State512
  | 0,     _, hv => hv
  | n + 1, m, hv => blocks512 n (m.drop 128) (compress512 hv (m.take 128))

def State512.toBytes (s : State512) : Bytes :=
  word64ToBE s.a ++ word64ToBE s.b ++ word64ToBE s.c ++ word64ToBE s.d ++
  word64ToBE s.e ++ word64ToBE s.f ++ word64ToBE s.g ++ word64ToBE s.h

/-- Common driver of SHA-512 and SHA-384 (they differ only in `H^{(0)}` and truncation). -/
def sha512With (iv : State512) (msg : Bytes) : Bytes :=
  let m := pad512 msg
  (blocks512 (m.length / 128) m iv).toBytes

/-- SHA-512 (64-byte digest). -/
def sha512 (msg : Bytes) : Bytes := sha512With H512init msg

/-- SHA-384 (48-byte digest): SHA-512 with `H384init`, truncated to the left-most 384 bits (§6.5). -/
def sha384 (msg : Bytes) : Bytes := (sha512With H384init msg).take 48

/-! ## HMAC-SHA256 (RFC 2104, block size B = 64, output L = 32) -/

/-- Step 1–2 of RFC 2104: keys longer than `B` are hashed; the result is zero-padded to `B` bytes. -/
def hmacKeyBlock (key : Bytes) : Bytes :=
  let k := if key.length > 64 then sha256 key else key
  k ++ List.replicate (64 - k.length) 0

/-- HMAC-SHA256: `H((K ⊕ opad) ‖ H((K ⊕ ipad) ‖ msg))`. -/
def hmacSha256 (key msg : Bytes) : Bytes :=
  let k := hmacKeyBlock key
  let ikey := k.map (· ^^^ 0x36)
  let okey := k.map (· ^^^ 0x5c)
  sha256 (okey ++ sha256 (ikey ++ msg))

/-! ## HKDF-SHA256 (RFC 5869, HashLen = 32) -/

/-- HKDF-Extract: `PRK = HMAC(salt, IKM)`; an empty salt means `HashLen` zero bytes (RFC 5869 §2.2). -/
def hkdfExtract (salt ikm : Bytes) : Bytes :=
  hmacSha256 (if salt.isEmpty then List.replicate 32 0 else salt) ikm

/-- `T(i) ‖ T(i+1) ‖ … ‖ T(i+n-1)` given `prev = T(i-1)`,
    where `T(j) = HMAC(PRK, T(j-1) ‖ info ‖ j)`. -/
def hkdfExpandLoop (prk info : Bytes) : (n : Nat) → (i : Nat) → (prev : Bytes) → (acc : Bytes) → Bytes
  | 0,     _, _,    acc => acc
  | n + 1, i, prev, acc =>
      let t := hmacSha256 prk (prev ++ info ++ [UInt8.ofNat i])
      hkdfExpandLoop prk info n (i + 1) t (acc ++ t)

/-- HKDF-Expand (RFC 5869 §2.3): the first `len` bytes of `T(1) ‖ T(2) ‖ …`.
    RFC 5869 requires `len ≤ 255 * 32 = 8160`; outside that range (where real implementations
    return an error) this total function returns `[]`, so the result has length `len`
    exactly when the request is legal. -/
def hkdfExpand (prk info : Bytes) (len : Nat) : Bytes :=
  if len > 255 * 32 then []
  else (hkdfExpandLoop prk info ((len + 31) / 32) 1 [] []).take len

/-- HKDF = Expand ∘ Extract. -/
def hkdf (salt ikm info : Bytes) (len : Nat) : Bytes :=
  hkdfExpand (hkdfExtract salt ikm) info len

end Sha2
end Model
