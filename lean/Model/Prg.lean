import Model.Bytes
import Model.ChaCha20

/-! Model of random/chacha20.go and random/rand.go.

`blk : Nat → Bytes` is the keystream block function for the fixed (key, nonce); the model of the
code is parametric in it, `Model.ChaCha20.block key nonce` is the instance the driver runs.
The x/crypto cipher object is modelled by its block counter and the unused tail of the last
generated block (that is how `XORKeyStream` buffers). -/

namespace Model.Prg

/-- golang.org/x/crypto/chacha20.Cipher, as far as the PRG observes it. -/
structure Cipher where
  ctr : Nat          -- counter of the next block to generate
  buf : Bytes        -- keystream bytes generated but not yet output (fewer than 64)
deriving Repr, DecidableEq

def blocks (blk : Nat → Bytes) (start : Nat) : Nat → Bytes
  | 0 => []
  | q+1 => blk start ++ blocks blk (start + 1) q

/-- next `n` keystream bytes (XORKeyStream of an all-zero message of length `n`). -/
def Cipher.take (blk : Nat → Bytes) (c : Cipher) (n : Nat) : Cipher × Bytes :=
  if n ≤ c.buf.length then ({ c with buf := c.buf.drop n }, c.buf.take n)
  else
    let n' := n - c.buf.length
    let q := n' / 64
    let rem := n' % 64
    let full := blocks blk c.ctr q
    if rem = 0 then ({ ctr := c.ctr + q, buf := [] }, c.buf ++ full)
    else
      let b := blk (c.ctr + q)
      ({ ctr := c.ctr + q + 1, buf := b.drop rem }, c.buf ++ full ++ b.take rem)

def xorBytes (a b : Bytes) : Bytes := List.zipWith (· ^^^ ·) a b

/-- `XORKeyStream(dst, src)`. -/
def Cipher.xorKeyStream (blk : Nat → Bytes) (c : Cipher) (src : Bytes) : Cipher × Bytes :=
  let (c', ks) := c.take blk src.length
  (c', xorBytes src ks)

/-- chachaCore + genericPRG -/
structure State where
  seed : Bytes            -- 32 bytes
  cust : Bytes            -- 12 bytes (zero padded)
  counter : Nat           -- bytesCounter (uint64)
  cipher : Cipher
  ubuf : Bytes            -- uintnBuffer, 8 bytes
deriving Repr, DecidableEq

def seedLen : Nat := 32
def custMaxLen : Nat := 12
def lenEmptyMessage : Nat := 64

/-- `NewChacha20PRG`; `none` = error -/
def new? (seed cust : Bytes) : Option State :=
  if seed.length ≠ seedLen then none
  else if cust.length > custMaxLen then none
  else some { seed := seed, cust := cust ++ zeros (custMaxLen - cust.length), counter := 0,
              cipher := { ctr := 0, buf := [] }, ubuf := zeros 8 }

/-- `chachaCore.Read` on a buffer of length `n` (both message paths of the code). -/
def read (blk : Nat → Bytes) (s : State) (n : Nat) : State × Bytes :=
  let message := if n ≤ lenEmptyMessage then zeros n   -- c.emptyMessage[:n]
                 else zeros n                           -- buffer cleared, used in place
  let (c', out) := s.cipher.xorKeyStream blk message
  ({ s with cipher := c', counter := (s.counter + n) % 2 ^ 64 }, out)

/-- `Store` -/
def store (s : State) : Bytes := s.seed ++ s.cust ++ natLE 8 s.counter

/-- `RestoreChacha20PRG`, given the block function of the (seed, customizer) found in the state.
    `none` = error. -/
def restore? (blkOf : Bytes → Bytes → Nat → Bytes) (st : Bytes) : Option State :=
  if st.length ≠ 32 + 12 + 8 then none
  else
    let seed := st.take 32
    let cust := (st.drop 32).take 12
    let counter := leNat (st.drop 44)
    let blockCount := (counter / 64) % 2 ^ 32          -- uint32 conversion
    let remaining := counter % 64
    let c0 : Cipher := { ctr := blockCount, buf := [] } -- SetCounter on a fresh cipher
    let (c1, _) := c0.xorKeyStream (blkOf seed cust) (zeros remaining)
    some { seed := seed, cust := cust, counter := counter, cipher := c1, ubuf := zeros 8 }

/-! ### rand.go -/

def byteSize : Nat → Nat → Nat
  | 0, _ => 0
  | fuel+1, m => if m = 0 then 0 else 1 + byteSize fuel (m / 256)

/-- the mask loop: smallest `2^k - 1` covering `max` -/
def maskOf : Nat → Nat → Nat → Nat
  | 0, _, mask => mask
  | fuel+1, max, mask => if max &&& mask = max then mask else maskOf fuel max (mask * 2 + 1)

/-- `UintN`; `fuel` bounds the rejection loop (`none` when exhausted or `n = 0`, where the code panics). -/
def uintNLoop (blk : Nat → Bytes) (max size mask : Nat) : Nat → State → Option (State × Nat)
  | 0, _ => none
  | fuel+1, s =>
    let (s1, bytes) := read blk s size
    let ubuf := bytes ++ s1.ubuf.drop size
    let s2 := { s1 with ubuf := ubuf }
    let random := leNat ubuf &&& mask
    if random ≤ max then some (s2, random) else uintNLoop blk max size mask fuel s2

def uintN (blk : Nat → Bytes) (fuel : Nat) (s : State) (n : Nat) : Option (State × Nat) :=
  if n = 0 then none else
  let max := n - 1
  uintNLoop blk max (byteSize 9 max) (maskOf 65 max 0) fuel s

def setAt (l : List Nat) (i v : Nat) : List Nat := l.set i v

/-- loop of `Permutation` from index `i` up to `n` -/
def permLoop (blk : Nat → Bytes) (fuel : Nat) : Nat → Nat → State → List Nat → Option (State × List Nat)
  | 0, _, s, items => some (s, items)
  | k+1, i, s, items =>
    match uintN blk fuel s (i + 1) with
    | none => none
    | some (s', j) =>
      let items := setAt items i (items.getD j 0)
      let items := setAt items j i
      permLoop blk fuel k (i + 1) s' items

inductive Res (α : Type) | ok (a : α) | err | stuck
deriving Repr

/-- `Permutation(n)` for an `int` argument -/
def permutation (blk : Nat → Bytes) (fuel : Nat) (s : State) (n : Int) : State × Res (List Nat) :=
  if n < 0 then (s, .err) else
  match permLoop blk fuel n.toNat 0 s (List.replicate n.toNat 0) with
  | some (s', items) => (s', .ok items)
  | none => (s, .stuck)

def subPermutation (blk : Nat → Bytes) (fuel : Nat) (s : State) (n m : Int) : State × Res (List Nat) :=
  if m < 0 then (s, .err)
  else if n < m then (s, .err)
  else match permutation blk fuel s n with
    | (s', .ok items) => (s', .ok (items.take m.toNat))
    | (s', r) => (s', r)

/-- loop of `Samples`: the list of swaps `(i, i+j)` -/
def samplesLoop (blk : Nat → Bytes) (fuel : Nat) (n : Nat) : Nat → Nat → State → Option (State × List (Nat × Nat))
  | 0, _, s => some (s, [])
  | k+1, i, s =>
    match uintN blk fuel s (n - i) with
    | none => none
    | some (s', j) =>
      match samplesLoop blk fuel n k (i + 1) s' with
      | none => none
      | some (s'', sw) => some (s'', (i, i + j) :: sw)

def samples (blk : Nat → Bytes) (fuel : Nat) (s : State) (n m : Int) : State × Res (List (Nat × Nat)) :=
  if m < 0 then (s, .err)
  else if n < m then (s, .err)
  else match samplesLoop blk fuel n.toNat m.toNat 0 s with
    | some (s', sw) => (s', .ok sw)
    | none => (s, .stuck)

def shuffle (blk : Nat → Bytes) (fuel : Nat) (s : State) (n : Int) : State × Res (List (Nat × Nat)) :=
  if n < 0 then (s, .err) else samples blk fuel s n n

end Model.Prg
