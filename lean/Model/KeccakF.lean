import Model.Bytes


/-!
# Keccak-f[1600] and a reference sponge (FIPS 202)

Pure, total, executable, core-only.  The state is `a[25]uint64` with lane
`(x, y)` at index `x + 5*y`; bit `z` of a lane is bit `z` of the `UInt64`
(so FIPS 202's "rotate towards higher z" is a left rotation of the word and the
byte string <-> state conversion is little-endian per lane).
-/

namespace Model.KeccakF

/-- Keccak-f[1600] state: lane `(x, y)` lives at index `x + 5*y`. -/
abbrev State := Vector UInt64 25

def zeroState : State := Vector.replicate 25 0

/-- Rotate a 64-bit lane left by `n mod 64` bits. -/
@[inline] def rotl (x : UInt64) (n : Nat) : UInt64 :=
  let r : UInt64 := (n % 64).toUInt64
  if r = 0 then x else (x <<< r) ||| (x >>> (64 - r))

/-! ## Tables (FIPS 202 §3.2) -/

/-- FIPS 202 §3.2.2, Table 2: rotation offsets of ρ, entry `x + 5*y`
(unreduced, exactly as printed in the standard; `rotl` reduces mod 64). -/
def rhoOffsets : Vector Nat 25 := #v[
    0,   1, 190,  28,  91,
   36, 300,   6,  55, 276,
    3,  10, 171, 153, 231,
  105,  45,  15,  21, 136,
  210,  66, 253, 120,  78]

/-- FIPS 202 §3.2.5: the 24 round constants `RC[i_r]` of ι. -/
def roundConstants : List UInt64 := [
  0x0000000000000001, 0x0000000000008082, 0x800000000000808a, 0x8000000080008000,
  0x000000000000808b, 0x0000000080000001, 0x8000000080008081, 0x8000000000008009,
  0x000000000000008a, 0x0000000000000088, 0x0000000080008009, 0x000000008000000a,
  0x000000008000808b, 0x800000000000008b, 0x8000000000008089, 0x8000000000008003,
  0x8000000000008002, 0x8000000000000080, 0x000000000000800a, 0x800000008000000a,
  0x8000000080008081, 0x8000000000008080, 0x0000000080000001, 0x8000000080008008]

/-! ## Step mappings (FIPS 202 §3.2.1 – §3.2.5) -/

/-- θ:  `C[x] = ⊕_y A[x,y]`,  `D[x] = C[x-1] ⊕ rot(C[x+1], 1)`,  `A'[x,y] = A[x,y] ⊕ D[x]`. -/
def theta (a : State) : State :=
  let c0 := a[0] ^^^ a[5] ^^^ a[10] ^^^ a[15] ^^^ a[20]
  let c1 := a[1] ^^^ a[6] ^^^ a[11] ^^^ a[16] ^^^ a[21]
  let c2 := a[2] ^^^ a[7] ^^^ a[12] ^^^ a[17] ^^^ a[22]
  let c3 := a[3] ^^^ a[8] ^^^ a[13] ^^^ a[18] ^^^ a[23]
  let c4 := a[4] ^^^ a[9] ^^^ a[14] ^^^ a[19] ^^^ a[24]
  let d0 := c4 ^^^ rotl c1 1
  let d1 := c0 ^^^ rotl c2 1
  let d2 := c1 ^^^ rotl c3 1
  let d3 := c2 ^^^ rotl c4 1
  let d4 := c3 ^^^ rotl c0 1
  #v[
    a[0] ^^^ d0, a[1] ^^^ d1, a[2] ^^^ d2, a[3] ^^^ d3, a[4] ^^^ d4,
    a[5] ^^^ d0, a[6] ^^^ d1, a[7] ^^^ d2, a[8] ^^^ d3, a[9] ^^^ d4,
    a[10] ^^^ d0, a[11] ^^^ d1, a[12] ^^^ d2, a[13] ^^^ d3, a[14] ^^^ d4,
    a[15] ^^^ d0, a[16] ^^^ d1, a[17] ^^^ d2, a[18] ^^^ d3, a[19] ^^^ d4,
    a[20] ^^^ d0, a[21] ^^^ d1, a[22] ^^^ d2, a[23] ^^^ d3, a[24] ^^^ d4]

/-- ρ:  `A'[x,y] = rot(A[x,y], offset[x,y])`. -/
def rho (a : State) : State :=
  let r := rhoOffsets
  #v[
    rotl a[0] r[0], rotl a[1] r[1], rotl a[2] r[2], rotl a[3] r[3], rotl a[4] r[4],
    rotl a[5] r[5], rotl a[6] r[6], rotl a[7] r[7], rotl a[8] r[8], rotl a[9] r[9],
    rotl a[10] r[10], rotl a[11] r[11], rotl a[12] r[12], rotl a[13] r[13], rotl a[14] r[14],
    rotl a[15] r[15], rotl a[16] r[16], rotl a[17] r[17], rotl a[18] r[18], rotl a[19] r[19],
    rotl a[20] r[20], rotl a[21] r[21], rotl a[22] r[22], rotl a[23] r[23], rotl a[24] r[24]]

/-- π:  `A'[x,y] = A[(x + 3y) mod 5, x]`. -/
def pi (a : State) : State :=
  #v[
    a[0], a[6], a[12], a[18], a[24],
    a[3], a[9], a[10], a[16], a[22],
    a[1], a[7], a[13], a[19], a[20],
    a[4], a[5], a[11], a[17], a[23],
    a[2], a[8], a[14], a[15], a[21]]

/-- χ:  `A'[x,y] = A[x,y] ⊕ (¬A[x+1,y] ∧ A[x+2,y])`. -/
def chi (a : State) : State :=
  #v[
    a[0] ^^^ (~~~a[1] &&& a[2]), a[1] ^^^ (~~~a[2] &&& a[3]), a[2] ^^^ (~~~a[3] &&& a[4]),
      a[3] ^^^ (~~~a[4] &&& a[0]), a[4] ^^^ (~~~a[0] &&& a[1]),
    a[5] ^^^ (~~~a[6] &&& a[7]), a[6] ^^^ (~~~a[7] &&& a[8]), a[7] ^^^ (~~~a[8] &&& a[9]),
      a[8] ^^^ (~~~a[9] &&& a[5]), a[9] ^^^ (~~~a[5] &&& a[6]),
    a[10] ^^^ (~~~a[11] &&& a[12]), a[11] ^^^ (~~~a[12] &&& a[13]), a[12] ^^^ (~~~a[13] &&& a[14]),
      a[13] ^^^ (~~~a[14] &&& a[10]), a[14] ^^^ (~~~a[10] &&& a[11]),
    a[15] ^^^ (~~~a[16] &&& a[17]), a[16] ^^^ (~~~a[17] &&& a[18]), a[17] ^^^ (~~~a[18] &&& a[19]),
      a[18] ^^^ (~~~a[19] &&& a[15]), a[19] ^^^ (~~~a[15] &&& a[16]),
    a[20] ^^^ (~~~a[21] &&& a[22]), a[21] ^^^ (~~~a[22] &&& a[23]), a[22] ^^^ (~~~a[23] &&& a[24]),
      a[23] ^^^ (~~~a[24] &&& a[20]), a[24] ^^^ (~~~a[20] &&& a[21])]

/-- ι:  `A'[0,0] = A[0,0] ⊕ RC[i_r]`. -/
def iota (a : State) (rc : UInt64) : State :=
  a.set 0 (a[0] ^^^ rc)

/-- One round `Rnd(A, i_r) = ι(χ(π(ρ(θ(A)))), i_r)` (FIPS 202 §3.3). -/
def round (a : State) (rc : UInt64) : State :=
  iota (chi (pi (rho (theta a)))) rc

/-- The same round with θ, ρ∘π, χ, ι fused over local `UInt64`s (one boxed
vector per round instead of five).  Only used as compiled code for `round`, via
the proved `@[csimp]` equation below; proofs should use `round`. -/
def roundFused (a : State) (rc : UInt64) : State :=
  -- θ
  let c0 := a[0] ^^^ a[5] ^^^ a[10] ^^^ a[15] ^^^ a[20]
  let c1 := a[1] ^^^ a[6] ^^^ a[11] ^^^ a[16] ^^^ a[21]
  let c2 := a[2] ^^^ a[7] ^^^ a[12] ^^^ a[17] ^^^ a[22]
  let c3 := a[3] ^^^ a[8] ^^^ a[13] ^^^ a[18] ^^^ a[23]
  let c4 := a[4] ^^^ a[9] ^^^ a[14] ^^^ a[19] ^^^ a[24]
  let d0 := c4 ^^^ rotl c1 1
  let d1 := c0 ^^^ rotl c2 1
  let d2 := c1 ^^^ rotl c3 1
  let d3 := c2 ^^^ rotl c4 1
  let d4 := c3 ^^^ rotl c0 1
  let t0 := a[0] ^^^ d0
  let t1 := a[1] ^^^ d1
  let t2 := a[2] ^^^ d2
  let t3 := a[3] ^^^ d3
  let t4 := a[4] ^^^ d4
  let t5 := a[5] ^^^ d0
  let t6 := a[6] ^^^ d1
  let t7 := a[7] ^^^ d2
  let t8 := a[8] ^^^ d3
  let t9 := a[9] ^^^ d4
  let t10 := a[10] ^^^ d0
  let t11 := a[11] ^^^ d1
  let t12 := a[12] ^^^ d2
  let t13 := a[13] ^^^ d3
  let t14 := a[14] ^^^ d4
  let t15 := a[15] ^^^ d0
  let t16 := a[16] ^^^ d1
  let t17 := a[17] ^^^ d2
  let t18 := a[18] ^^^ d3
  let t19 := a[19] ^^^ d4
  let t20 := a[20] ^^^ d0
  let t21 := a[21] ^^^ d1
  let t22 := a[22] ^^^ d2
  let t23 := a[23] ^^^ d3
  let t24 := a[24] ^^^ d4
  -- ρ then π:  B[x,y] = rot(T[x',y'], offset[x',y'])  with  (x',y') = ((x+3y) mod 5, x)
  let b0 := rotl t0 0
  let b1 := rotl t6 300
  let b2 := rotl t12 171
  let b3 := rotl t18 21
  let b4 := rotl t24 78
  let b5 := rotl t3 28
  let b6 := rotl t9 276
  let b7 := rotl t10 3
  let b8 := rotl t16 45
  let b9 := rotl t22 253
  let b10 := rotl t1 1
  let b11 := rotl t7 6
  let b12 := rotl t13 153
  let b13 := rotl t19 136
  let b14 := rotl t20 210
  let b15 := rotl t4 91
  let b16 := rotl t5 36
  let b17 := rotl t11 10
  let b18 := rotl t17 15
  let b19 := rotl t23 120
  let b20 := rotl t2 190
  let b21 := rotl t8 55
  let b22 := rotl t14 231
  let b23 := rotl t15 105
  let b24 := rotl t21 66
  -- χ, and ι on lane (0,0)
  #v[
    b0 ^^^ (~~~b1 &&& b2) ^^^ rc, b1 ^^^ (~~~b2 &&& b3), b2 ^^^ (~~~b3 &&& b4), b3 ^^^ (~~~b4 &&& b0), b4 ^^^ (~~~b0 &&& b1),
    b5 ^^^ (~~~b6 &&& b7), b6 ^^^ (~~~b7 &&& b8), b7 ^^^ (~~~b8 &&& b9), b8 ^^^ (~~~b9 &&& b5), b9 ^^^ (~~~b5 &&& b6),
    b10 ^^^ (~~~b11 &&& b12), b11 ^^^ (~~~b12 &&& b13), b12 ^^^ (~~~b13 &&& b14), b13 ^^^ (~~~b14 &&& b10), b14 ^^^ (~~~b10 &&& b11),
    b15 ^^^ (~~~b16 &&& b17), b16 ^^^ (~~~b17 &&& b18), b17 ^^^ (~~~b18 &&& b19), b18 ^^^ (~~~b19 &&& b15), b19 ^^^ (~~~b15 &&& b16),
    b20 ^^^ (~~~b21 &&& b22), b21 ^^^ (~~~b22 &&& b23), b22 ^^^ (~~~b23 &&& b24), b23 ^^^ (~~~b24 &&& b20), b24 ^^^ (~~~b20 &&& b21)]

/-- `roundFused` is `round`: closed by unfolding both sides (`rfl`). -/
theorem roundFused_eq_round (a : State) (rc : UInt64) : roundFused a rc = round a rc := rfl

/-- Tell the compiler to run `roundFused` wherever `round` is called.  This is a
proved (kernel-checked) replacement, so it adds no trust; delete this theorem
and everything still compiles and computes the same, only ~3x slower. -/
@[csimp] theorem round_eq_roundFused : @round = @roundFused := by
  funext a rc; exact (roundFused_eq_round a rc).symm

/-- Keccak-f[1600] = Keccak-p[1600, 24]: the 24 rounds in order. -/
def keccakF1600 (a : State) : State :=
  roundConstants.foldl round a

/-! ## Bytes <-> state -/

/-- Little-endian value of (at most 8) bytes. -/
def leLane : Bytes → UInt64
  | [] => 0
  | b :: bs => b.toUInt64 ||| (leLane bs <<< 8)

/-- The 8 little-endian bytes of a lane. -/
def laneBytes (w : UInt64) : Bytes :=
  [w.toUInt8, (w >>> 8).toUInt8, (w >>> 16).toUInt8, (w >>> 24).toUInt8,
   (w >>> 32).toUInt8, (w >>> 40).toUInt8, (w >>> 48).toUInt8, (w >>> 56).toUInt8]

/-- XOR `w` into lane `i` (no-op when `i ≥ 25`). -/
@[inline] def xorLane (a : State) (i : Nat) (w : UInt64) : State :=
  if h : i < 25 then a.set i (a[i] ^^^ w) else a

/-- XOR `block` into lanes `i, i+1, …`, 8 bytes per lane, little-endian; a
trailing group of fewer than 8 bytes fills only the low bytes of its lane. -/
def xorLanes (a : State) (i : Nat) : Bytes → State
  | [] => a
  | b0 :: b1 :: b2 :: b3 :: b4 :: b5 :: b6 :: b7 :: rest =>
    xorLanes (xorLane a i (leLane [b0, b1, b2, b3, b4, b5, b6, b7])) (i + 1) rest
  | bs => xorLane a i (leLane bs)

/-- XOR `block` (length ≤ 200) into the state, starting at byte 0.
Bytes beyond the 200th are ignored. -/
def xorBlock (a : State) (block : Bytes) : State :=
  xorLanes a 0 block

/-- All 200 bytes of the state, little-endian lanes in index order. -/
def stateBytes (a : State) : Bytes :=
  a.toList.flatMap laneBytes

/-- The first `n ≤ 200` bytes of the state (at most 200 bytes are returned). -/
def extract (a : State) (n : Nat) : Bytes :=
  (stateBytes a).take n

/-! ## Reference sponge -/

/-- Padding tail appended to a message of length `len`: the domain byte, zero
fill up to a multiple of `rate`, and `0x80` XORed into the final byte
(`pad10*1` with the domain-separation suffix folded into the first byte). -/
def padTail (rate : Nat) (dsByte : UInt8) (len : Nat) : Bytes :=
  let z := rate - 1 - len % rate          -- number of bytes after the ds byte
  match z with
  | 0 => [dsByte ^^^ 0x80]
  | z' + 1 => dsByte :: (List.replicate z' 0 ++ [0x80])

/-- `msg ‖ padTail`; its length is `(msg.length / rate + 1) * rate` for `rate > 0`. -/
def pad (rate : Nat) (dsByte : UInt8) (msg : Bytes) : Bytes :=
  msg ++ padTail rate dsByte msg.length

/-- Absorb `n` consecutive `rate`-byte blocks of `p`, permuting after each. -/
def absorb (rate : Nat) (a : State) : Nat → Bytes → State
  | 0, _ => a
  | n + 1, p => absorb rate (keccakF1600 (xorBlock a (p.take rate))) n (p.drop rate)

/-- Squeeze `n` bytes, `rate` per permutation; permute only when more output is
needed.  `fuel` bounds the number of output blocks. -/
def squeeze (rate : Nat) : (fuel : Nat) → State → Nat → Bytes
  | 0, _, _ => []
  | fuel + 1, a, n =>
    if n ≤ rate then extract a n
    else extract a rate ++ squeeze rate fuel (keccakF1600 a) (n - rate)

/-- Reference sponge Keccak[1600 - 8*rate] with byte-aligned domain suffix
`dsByte`.  Meaningful for `0 < rate ≤ 200`; total for all inputs
(`rate = 0` yields `[]`). -/
def spongeRef (rate : Nat) (dsByte : UInt8) (outLen : Nat) (msg : Bytes) : Bytes :=
  if rate = 0 then [] else
  let a := absorb rate zeroState (msg.length / rate + 1) (pad rate dsByte msg)
  squeeze rate (outLen / rate + 1) a outLen

/-! ## Instances -/

def sha3_256 (m : Bytes) : Bytes := spongeRef 136 0x06 32 m
def sha3_384 (m : Bytes) : Bytes := spongeRef 104 0x06 48 m
def sha3_512 (m : Bytes) : Bytes := spongeRef 72 0x06 64 m
def keccak256 (m : Bytes) : Bytes := spongeRef 136 0x01 32 m
def shake128 (m : Bytes) (n : Nat) : Bytes := spongeRef 168 0x1f n m
def shake256 (m : Bytes) (n : Nat) : Bytes := spongeRef 136 0x1f n m

end Model.KeccakF
