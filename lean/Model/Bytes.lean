/-! Byte strings, hex, integer/byte conversions. Core Lean only. -/

namespace Model

abbrev Bytes := List UInt8

def hexDigit (n : Nat) : Char :=
  if n < 10 then Char.ofNat (48 + n) else Char.ofNat (87 + n)

def hexVal? (c : Char) : Option Nat :=
  if '0' ≤ c ∧ c ≤ '9' then some (c.toNat - 48)
  else if 'a' ≤ c ∧ c ≤ 'f' then some (c.toNat - 87)
  else if 'A' ≤ c ∧ c ≤ 'F' then some (c.toNat - 55)
  else none

/-- lower-case hex; the empty string is written `-`. -/
def toHex (b : Bytes) : String :=
  if b.isEmpty then "-" else
  String.ofList (b.flatMap fun x => [hexDigit (x.toNat / 16), hexDigit (x.toNat % 16)])

def unhexChars : List Char → Option Bytes
  | [] => some []
  | a :: b :: t => do
    let x ← hexVal? a
    let y ← hexVal? b
    let r ← unhexChars t
    pure (UInt8.ofNat (x * 16 + y) :: r)
  | _ => none

def unhex? (s : String) : Option Bytes :=
  if s == "-" then some [] else unhexChars s.toList

/-- big-endian bytes to Nat -/
def beNat (bs : Bytes) : Nat := bs.foldl (fun acc b => acc * 256 + b.toNat) 0

/-- little-endian bytes to Nat -/
def leNat : Bytes → Nat
  | [] => 0
  | b :: t => b.toNat + 256 * leNat t

/-- `len` little-endian bytes of `n` (truncating). -/
def natLE : Nat → Nat → Bytes
  | 0, _ => []
  | len+1, n => UInt8.ofNat (n % 256) :: natLE len (n / 256)

/-- `len` big-endian bytes of `n` (truncating). -/
def natBE (len n : Nat) : Bytes := (natLE len n).reverse

def zeros (n : Nat) : Bytes := List.replicate n 0

/-- protocol byte generator `gen:<len>:<id>`: 32-bit LCG, top byte of the state. -/
def genBytesAux : Nat → Nat → Bytes
  | 0, _ => []
  | n+1, x =>
    let x' := (1664525 * x + 1013904223) % 4294967296
    UInt8.ofNat (x' / 16777216) :: genBytesAux n x'

def genBytes (len id : Nat) : Bytes :=
  genBytesAux len ((len * 2654435761 + id) % 4294967296)

/-- parse a byte-string field: hex, `-`, or `gen:<len>:<id>` -/
def parseBytes? (s : String) : Option Bytes :=
  match s.splitOn ":" with
  | ["gen", l, i] => do
    let l ← l.toNat?
    let i ← i.toNat?
    pure (genBytes l i)
  | _ => unhex? s

end Model
