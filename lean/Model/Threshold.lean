import Model.Bytes
import Model.Field

/-! Threshold signatures: bls_thresholdsign.go (stateful inspector object, stateless reconstruction),
bls_thresholdsign_core.c (Lagrange coefficients with 8 indices per 64-bit limb). -/

namespace Model.Threshold

/-! ### Lagrange coefficient at zero, as the C loop computes it -/

/-- one batch of `Fr_lagrange_coeff_at_zero`: indices `js` (positions), returns the two 64-bit limb products
    and the sign flips -/
def batch (indices : List Nat) (i : Nat) : List Nat → (Nat × Nat × Bool) → (Nat × Nat × Bool)
  | [], acc => acc
  | j :: js, (num, den, sign) =>
    if j = i then batch indices i js (num, den, sign)
    else
      let xj := indices.getD j 0
      let xi := indices.getD i 0
      let (den', sign') :=
        if xj < xi then ((den * (xi - xj)) % 2 ^ 64, !sign) else ((den * (xj - xi)) % 2 ^ 64, sign)
      batch indices i js ((num * xj) % 2 ^ 64, den', sign')

/-- positions `k, k+1, …` grouped by `loops = 64 / MAX_IND_BITS = 8` -/
def batches (loops : Nat) : Nat → List Nat → List (List Nat)
  | 0, _ => []
  | fuel+1, l => if l.isEmpty then [] else l.take loops :: batches loops fuel (l.drop loops)

/-- numerator, denominator (mod r) and sign after all batches -/
def coeffParts (r : Nat) (indices : List Nat) (i : Nat) : Nat × Nat × Bool :=
  (batches 8 (indices.length + 1) (List.range indices.length)).foldl
    (fun (acc : Nat × Nat × Bool) js =>
      let (n, d, sg) := batch indices i js (1, 1, acc.2.2)
      (acc.1 * n % r, acc.2.1 * d % r, sg)) (1 % r, 1 % r, false)

/-- the coefficient as `Fr_lagrange_coeff_at_zero` finishes it: negate the denominator if the sign is set,
    invert it (Fermat exponentiation), multiply by the numerator -/
def coeff (r : Nat) (xs : List Nat) (i : Nat) : Nat :=
  let (n, d, sg) := coeffParts r xs i
  let d := if sg then (r - d) % r else d
  n * Model.powMod d (r - 2) r % r

/-! ### the stateful object (`blsThresholdSignatureInspector`), sequential semantics -/

/-- what the object needs from the BLS layer -/
structure Env where
  size : Nat
  threshold : Nat
  /-- `publicKeyShares[i].Verify(share, message, hasher)` -/
  verifyShare : Nat → Bytes → Bool
  /-- `groupPublicKey.Verify(sig, message, hasher)` -/
  verifyGroup : Bytes → Bool
  /-- `E1_lagrange_interpolate_at_zero_write` on (signer index + 1, share) pairs; `none` = some share does not parse -/
  interpolate : List (Nat × Bytes) → Option Bytes

structure Obj where
  shares : List (Nat × Bytes) := []      -- the map `shares`, keys distinct
  sig : Option Bytes := none             -- `thresholdSignature`
deriving Repr, DecidableEq

inductive Op
  | trustedAdd (orig : Int) (share : Bytes)
  | verifyAndAdd (orig : Int) (share : Bytes)
  | hasShare (orig : Int)
  | enoughShares
  | verifyShare (orig : Int) (share : Bytes)
  | verifyThresholdSignature (sig : Bytes)
  | thresholdSignature
deriving Repr, DecidableEq

inductive Ret
  | bool (b : Bool)
  | bool2 (valid enough : Bool)
  | sig (s : Bytes)
  | invalidInputs
  | duplicatedSigner
  | notEnoughShares
  | invalidSignature
deriving Repr, DecidableEq

def Obj.has (o : Obj) (i : Nat) : Bool := o.shares.any (·.1 == i)
def Obj.enough (E : Env) (o : Obj) : Bool := o.shares.length == E.threshold + 1
def badIndex (E : Env) (orig : Int) : Bool := orig ≥ E.size || orig < 0

/-- `reconstructThresholdSignature` -/
def reconstruct (E : Env) (o : Obj) : Ret :=
  if !o.enough E then .notEnoughShares
  else if o.shares.any (fun p => p.2.length ≠ 48) then .invalidSignature
  else match E.interpolate (o.shares.map fun p => (p.1 + 1, p.2)) with
    | none => .invalidSignature
    | some s => if E.verifyGroup s then .sig s else .invalidInputs

def addShare (o : Obj) (i : Nat) (share : Bytes) : Obj := { o with shares := o.shares ++ [(i, share)] }

/-- `TrustedAdd` -/
def trustedAdd (E : Env) (o : Obj) (orig : Int) (share : Bytes) : Obj × Ret :=
  if badIndex E orig then (o, .invalidInputs)
  else if o.has orig.toNat then (o, .duplicatedSigner)
  else if o.enough E then (o, .bool true)
  else (addShare o orig.toNat share, .bool ((addShare o orig.toNat share).enough E))

/-- `VerifyAndAdd` -/
def verifyAndAdd (E : Env) (o : Obj) (orig : Int) (share : Bytes) : Obj × Ret :=
  if badIndex E orig then (o, .invalidInputs)
  else if o.has orig.toNat then (o, .duplicatedSigner)
  else if E.verifyShare orig.toNat share = true ∧ o.enough E = false then
    (addShare o orig.toNat share, .bool2 true ((addShare o orig.toNat share).enough E))
  else (o, .bool2 (E.verifyShare orig.toNat share) (o.enough E))

/-- `ThresholdSignature` -/
def thresholdSignature (E : Env) (o : Obj) : Obj × Ret :=
  match o.sig with
  | some s => (o, .sig s)
  | none =>
    match reconstruct E o with
    | .sig s => ({ o with sig := some s }, .sig s)
    | r => (o, r)

def step (E : Env) (o : Obj) : Op → Obj × Ret
  | .trustedAdd orig share => trustedAdd E o orig share
  | .verifyAndAdd orig share => verifyAndAdd E o orig share
  | .hasShare orig => if badIndex E orig then (o, .invalidInputs) else (o, .bool (o.has orig.toNat))
  | .enoughShares => (o, .bool (o.enough E))
  | .verifyShare orig share =>
    if badIndex E orig then (o, .invalidInputs) else (o, .bool (E.verifyShare orig.toNat share))
  | .verifyThresholdSignature s => (o, .bool (E.verifyGroup s))
  | .thresholdSignature => thresholdSignature E o

def run (E : Env) (o : Obj) : List Op → Obj × List Ret
  | [] => (o, [])
  | op :: ops => let (o', r) := step E o op; let (o'', rs) := run E o' ops; (o'', r :: rs)

/-! ### linearizability of a concurrent history -/

/-- one completed operation of a history: invocation and response time stamps (logical clock) -/
structure Event where
  inv : Nat
  res : Nat
  op : Op
  ret : Ret
deriving Repr

/-- exhaustive search for a sequential order consistent with real time under which every operation returns
    what was observed (`fuel` ≥ number of events) -/
def linearizable (E : Env) : Nat → Obj → List Event → Bool
  | 0, _, evs => evs.isEmpty
  | fuel+1, o, evs =>
    if evs.isEmpty then true
    else
      -- an event may be linearized first iff no other pending event responded before it was invoked
      (List.range evs.length).any fun k =>
        match evs[k]? with
        | none => false
        | some e =>
          let others := evs.eraseIdx k
          if others.any (fun e' => e'.res < e.inv) then false
          else
            let (o', r) := step E o e.op
            if r == e.ret then linearizable E fuel o' others else false

end Model.Threshold
