import Model.Bytes
import Extracted.Guards

/-! NIST SP 800-185 string encoders: the Go code of hash/kmac.go (`Code`) and the standard (`Spec`). -/

namespace Model.KmacEnc

namespace Code

/-- the `for i < bound && b[i] == 0 { i++ }` loop -/
def skipLoop (b : Bytes) (bound : Nat) : Nat → Nat → Nat
  | 0, i => i
  | fuel+1, i => if i < bound ∧ b.getD i 0 = 0 then skipLoop b bound fuel (i + 1) else i

/-- `leftEncode(value uint64)` -/
def leftEncode (value : Nat) : Bytes :=
  let b : Bytes := 0 :: natBE 8 value            -- var b [9]byte; PutUint64(b[1:], value)
  let i := skipLoop b 8 8 1
  let b := b.set (i - 1) (UInt8.ofNat (9 - i))
  b.drop (i - 1)

/-- `rightEncode(value uint64)` -/
def rightEncode (value : Nat) : Bytes :=
  let b : Bytes := natBE 8 value ++ [0]          -- PutUint64(b[:8], value)
  let i := skipLoop b 7 8 0
  let b := b.set 8 (UInt8.ofNat (8 - i))
  b.drop i

/-- `encodeString(s)` -/
def encodeString (s : Bytes) : Bytes := leftEncode ((s.length * 8) % 2 ^ 64) ++ s

/-- `bytepad(input, w)` with the pad length as computed by the code: `padlenOf len w` -/
def bytepadWith (padlenOf : Nat → Nat → Nat) (input : Bytes) (w : Nat) : Bytes :=
  let buf := leftEncode w ++ input
  buf ++ zeros (padlenOf buf.length w)

/-- pad length as hash/kmac.go computes it now (expression regenerated from the source) -/
def padlen (len w : Nat) : Nat := (Extracted.Guards.hash_bytepad_padlen len w).toNat

def bytepad (input : Bytes) (w : Nat) : Bytes := bytepadWith padlen input w

end Code

namespace Spec

/-- smallest `n ≥ 1` with `2^(8n) > x` (fuel 9 suffices below 2^64) -/
def numBytes : Nat → Nat → Nat
  | 0, _ => 1
  | fuel+1, x => if x < 256 then 1 else 1 + numBytes fuel (x / 256)

/-- left_encode(x) = enc8(n) ‖ x_1 … x_n -/
def leftEncode (x : Nat) : Bytes := let n := numBytes 32 x; UInt8.ofNat n :: natBE n x

/-- right_encode(x) = x_1 … x_n ‖ enc8(n) -/
def rightEncode (x : Nat) : Bytes := let n := numBytes 32 x; natBE n x ++ [UInt8.ofNat n]

/-- encode_string(S) = left_encode(len(S) in bits) ‖ S -/
def encodeString (s : Bytes) : Bytes := leftEncode (s.length * 8) ++ s

/-- bytepad(X, w): prepend left_encode(w), append the fewest zero bytes reaching a multiple of w -/
def bytepad (x : Bytes) (w : Nat) : Bytes :=
  let z := leftEncode w ++ x
  z ++ zeros ((w - z.length % w) % w)

end Spec

end Model.KmacEnc
