import Model.Bytes

/-! ChaCha20 block function, RFC 8439 §2.3 (32-bit block counter, 96-bit nonce). Core Lean only. -/

namespace Model.ChaCha20

abbrev St := Vector UInt32 16

@[inline] def rotl (x : UInt32) (n : UInt32) : UInt32 := (x <<< n) ||| (x >>> (32 - n))

def qr (s : St) (a b c d : Fin 16) : St :=
  let va := s[a] + s[b]
  let vd := rotl (s[d] ^^^ va) 16
  let vc := s[c] + vd
  let vb := rotl (s[b] ^^^ vc) 12
  let va := va + vb
  let vd := rotl (vd ^^^ va) 8
  let vc := vc + vd
  let vb := rotl (vb ^^^ vc) 7
  (((s.set a va).set b vb).set c vc).set d vd

def doubleRound (s : St) : St :=
  let s := qr s 0 4 8 12
  let s := qr s 1 5 9 13
  let s := qr s 2 6 10 14
  let s := qr s 3 7 11 15
  let s := qr s 0 5 10 15
  let s := qr s 1 6 11 12
  let s := qr s 2 7 8 13
  qr s 3 4 9 14

def rounds : Nat → St → St
  | 0, s => s
  | n+1, s => rounds n (doubleRound s)

def le32 (b : Bytes) (i : Nat) : UInt32 :=
  UInt32.ofNat (leNat ((b.drop (4 * i)).take 4))

def initState (key nonce : Bytes) (ctr : UInt32) : St :=
  #v[0x61707865, 0x3320646e, 0x79622d32, 0x6b206574,
     le32 key 0, le32 key 1, le32 key 2, le32 key 3,
     le32 key 4, le32 key 5, le32 key 6, le32 key 7,
     ctr, le32 nonce 0, le32 nonce 1, le32 nonce 2]

def ser32 (w : UInt32) : Bytes := natLE 4 w.toNat

/-- the 64-byte keystream block number `ctr` for `key` (32 bytes) and `nonce` (12 bytes). -/
def block (key nonce : Bytes) (ctr : Nat) : Bytes :=
  let s0 := initState key nonce (UInt32.ofNat ctr)
  let s := rounds 10 s0
  (List.finRange 16).flatMap fun i => ser32 (s[i] + s0[i])

end Model.ChaCha20
