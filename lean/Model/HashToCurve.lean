import Model.Bls
import Model.Hash
import Model.IsoConsts

/-! Hash-to-curve for BLS12-381 G1 as the repository computes it (`map_to_G1` in `bls12381_utils.c` on top of
`blst_map_to_g1`), written from the standard construction (RFC 9380: `hash_to_field` on the caller-supplied 128
bytes, simplified SWU map to the 11-isogenous curve E1', addition on E1', isogeny to E1, cofactor clearing by
`h_eff = 0xd201000000010001`), not from the optimized projective C code: an independent oracle for the point the
library signs. With `Model.Kmac.spec` (the KMAC128 expand-message) the whole of `Sign` is predicted from
`(sk, tag, message)`. -/

namespace Model.H2C
open Model Model.Bls

def p := Bls.p

/-- E1' : y² = x³ + A'x + B' -/
def E1' : Curve.Params Nat := { f := Fp.ops p, a := IsoConsts.aPrime, b := IsoConsts.bPrime }

/-- `sgn0` of RFC 9380 for a prime field: parity of the canonical representative -/
def sgn0 (x : Nat) : Nat := (x % p) % 2

/-- `inv0`: inverse, with `inv0 0 = 0` -/
def inv0 (x : Nat) : Nat := if x % p = 0 then 0 else Fp.inv p x

/-- `g(x) = x³ + A'x + B'` -/
def g' (x : Nat) : Nat :=
  Fp.add p (Fp.add p (Fp.mul p (Fp.mul p x x) x) (Fp.mul p IsoConsts.aPrime x)) IsoConsts.bPrime

/-- simplified SWU map (RFC 9380 §6.6.2) of a field element to a point of E1' -/
def sswu (u : Nat) : Curve.Aff Nat :=
  let A := IsoConsts.aPrime
  let B := IsoConsts.bPrime
  let Z := IsoConsts.sswuZ
  let u2 := Fp.mul p u u
  let zu2 := Fp.mul p Z u2
  let tv1 := inv0 (Fp.add p (Fp.mul p zu2 zu2) zu2)
  let x1 :=
    if tv1 = 0 then Fp.mul p B (Fp.inv p (Fp.mul p Z A))
    else Fp.mul p (Fp.mul p (Fp.neg p B) (Fp.inv p A)) (Fp.add p 1 tv1)
  let gx1 := g' x1
  let x2 := Fp.mul p zu2 x1
  let gx2 := g' x2
  let (x, y) := match Fp.sqrt? p gx1 with
    | some y1 => (x1, y1)
    | none => (x2, (Fp.sqrt? p gx2).getD 0)
  let y := if sgn0 u = sgn0 y then y else Fp.neg p y
  some (x, y)

/-- Horner evaluation of `c₀ + c₁ x + … ` (coefficients in increasing degree) -/
def evalPoly (cs : List Nat) (x : Nat) : Nat := cs.foldr (fun c acc => Fp.add p c (Fp.mul p acc x)) 0

/-- the 11-isogeny E1' → E1 (RFC 9380 appendix E.2); the denominators of a point of E1' other than the kernel
    never vanish; a vanishing denominator maps to the point at infinity -/
def iso : Curve.Aff Nat → Curve.Aff Nat
  | none => none
  | some (x, y) =>
    let xn := evalPoly IsoConsts.xNum x
    let xd := evalPoly (IsoConsts.xDen ++ [1]) x
    let yn := evalPoly IsoConsts.yNum x
    let yd := evalPoly (IsoConsts.yDen ++ [1]) x
    if xd = 0 ∨ yd = 0 then none
    else some (Fp.mul p xn (Fp.inv p xd), Fp.mul p y (Fp.mul p yn (Fp.inv p yd)))

/-- effective cofactor `1 - z` of G1 -/
def hEff : Nat := 0xd201000000010001

/-- `map_96_bytes_to_Fp`: big-endian integer reduced mod p -/
def toFp (b : Bytes) : Nat := beNat b % p

/-- `map_to_G1`: the 128 bytes are two 64-byte field elements; the two SSWU images are added on E1', mapped to
    E1 and multiplied by the effective cofactor -/
def mapToG1 (h : Bytes) : Curve.Aff Nat :=
  let u0 := toFp (h.take 64)
  let u1 := toFp ((h.drop 64).take 64)
  let q := Curve.addAff E1' (sswu u0) (sswu u1)
  Curve.mul Bls.E1 hEff (iso q)

/-- the expand-message step of `NewExpandMsgXOFKMAC128(tag)`: KMAC128 keyed with `tag ‖ suite`, customizer "H2C",
    128 bytes of output -/
def expand (suite : Bytes) (tag msg : Bytes) : Bytes := Model.Hash.Kmac.spec (tag ++ suite) "H2C".toUTF8.toList msg 128

/-- `PrivateKey.Sign(msg, NewExpandMsgXOFKMAC128(tag))`, from the message -/
def sign (suite : Bytes) (sk : Nat) (tag msg : Bytes) : Bytes :=
  writeE1 (Curve.mul Bls.E1 sk (mapToG1 (expand suite tag msg)))

end Model.H2C
