import Model.Field

/-! BLS12-381: parameters, the two curves, the byte codecs of bls12381_utils.c
(`Fr_read_bytes`, `Fr_star_read_bytes`, `Fp_read_bytes`, `E1_read_bytes`/`E1_write_bytes`,
`E2_read_bytes`/`E2_write_bytes`, `map_bytes_to_Fr`) and of bls.go (key decoding). Core Lean only. -/

namespace Model.Bls

def p : Nat := 0x1a0111ea397fe69a4b1ba7b6434bacd764774b84f38512bf6730d2a0f6b0f6241eabfffeb153ffffb9feffffffffaaab
def r : Nat := 0x73eda753299d7d483339d80809a1d80553bda402fffe5bfeffffffff00000001

def E1 : Curve.Params Nat := { f := Fp.ops p, a := 0, b := 4 }
def E2 : Curve.Params Fp2.El := { f := Fp2.ops p, a := (0, 0), b := (4, 4) }

abbrev P1 := Curve.Aff Nat
abbrev P2 := Curve.Aff Fp2.El

def g1 : P1 := some
  (0x17f1d3a73197d7942695638c4fa9ac0fc3688c4f9774b905a14e3a3f171bac586c55e83ff97a1aeffb3af00adb22c6bb,
   0x08b3f481e3aaa0f1a09e30ed741d8ae4fcf5e095d5d00af600db18cb2c04b3edd03cc744a2888ae40caa232946c5e7e1)

def g2 : P2 := some
  ((0x024aa2b2f08f0a91260805272dc51051c6e47ad4fa403b02b4510b647ae3d1770bac0326a805bbefd48056c8c121bdb8,
    0x13e02b6052719f607dacd3a088274f65596bd0d09920b61ab5da61bbdc7f5049334cf11213945d57e5ac7d055d042b7e),
   (0x0ce5d527727d6e118cc9cdc6da2e351aadfd9baa8cbdd3a76d429a695160d12c923ac9cc3baca289e193548608b82801,
    0x0606c4a02ea734cc32acd2b02bc28b99cb3e287e85a763af267492ab572e99ab3f370d275cec1da1aaa9075ff05f79be))

/-- membership in the prime-order subgroup: `r • P = O` (what `E1_in_G1` / `E2_in_G2` decide) -/
def inG1 (P : P1) : Bool := (Curve.mul E1 r P).isNone
def inG2 (P : P2) : Bool := (Curve.mul E2 r P).isNone

/-! ### scalars -/

inductive RdErr | badEncoding | badValue | notOnCurve
deriving Repr, DecidableEq

/-- `Fr_read_bytes`: 32 bytes big-endian, value `< r` -/
def readFr (b : Bytes) : Except RdErr Nat :=
  if b.length ≠ 32 then .error .badEncoding
  else if beNat b ≥ r then .error .badValue
  else .ok (beNat b)

/-- `Fr_star_read_bytes`: additionally non-zero -/
def readFrStar (b : Bytes) : Except RdErr Nat :=
  match readFr b with
  | .error e => .error e
  | .ok x => if x = 0 then .error .badValue else .ok x

def writeFr (x : Nat) : Bytes := natBE 32 x

/-- `Fr_from_be_bytes` (`map_bytes_to_Fr`): 32-byte digits from the right, radix powers of
    `R = 2^256 mod r`; the Montgomery bookkeeping is the identity on values. -/
def mapToFrLoop : Nat → Bytes → Nat → Nat → Nat
  | 0, _, _, out => out
  | fuel+1, rest, radix, out =>
    if rest.length > 32 then
      let digit := beNat (rest.drop (rest.length - 32))
      mapToFrLoop fuel (rest.take (rest.length - 32)) (radix * (2 ^ 256 % r) % r) ((out + digit % r * radix) % r)
    else (out + beNat rest % r * radix) % r

def mapToFr (b : Bytes) : Nat := mapToFrLoop (b.length / 32 + 1) b 1 0

/-! ### F_p and points -/

/-- `Fp_read_bytes` -/
def readFp (b : Bytes) : Except RdErr Nat :=
  if b.length ≠ 48 then .error .badEncoding
  else if beNat b ≥ p then .error .badValue
  else .ok (beNat b)

def headByte (b : Bytes) : Nat := (b.headD 0).toNat

def clearHeader (b : Bytes) : Bytes :=
  match b with
  | [] => []
  | h :: t => (h &&& 0x1F) :: t

/-- `E1_read_bytes` (compressed serialization, `G1_SER_BYTES = 48`); no subgroup check -/
def readE1 (b : Bytes) : Except RdErr P1 :=
  if b.length ≠ 48 then .error .badEncoding
  else
    let b0 := headByte b
    if b0 / 128 ≠ 1 then .error .badEncoding               -- compression bit
    else if b0 / 64 % 2 = 1 then                             -- infinity bit
      if b0 % 64 ≠ 0 then .error .badEncoding
      else if (b.drop 1).any (· ≠ 0) then .error .badEncoding
      else .ok none
    else
      let ysign := b0 / 32 % 2
      match readFp (clearHeader b) with
      | .error e => .error e
      | .ok x =>
        match Fp.sqrt? p ((x * x % p * x + 4) % p) with
        | none => .error .notOnCurve
        | some y => .ok (some (x, if Fp.sign p y ≠ ysign then Fp.neg p y else y))

/-- `E1_write_bytes` (compressed) -/
def writeE1 : P1 → Bytes
  | none => 0xC0 :: zeros 47
  | some (x, y) =>
    match natBE 48 x with
    | [] => []
    | h :: t => (h ||| UInt8.ofNat (0x80 + 0x20 * Fp.sign p y)) :: t

/-- `Fp2_read_bytes`: real part first, then imaginary part -/
def readFp2 (b : Bytes) : Except RdErr Fp2.El :=
  if b.length ≠ 96 then .error .badEncoding
  else match readFp (b.take 48) with
    | .error e => .error e
    | .ok c0 => match readFp (b.drop 48) with
      | .error e => .error e
      | .ok c1 => .ok (c0, c1)

/-- `E2_read_bytes` (compressed, 96 bytes); no subgroup check -/
def readE2 (b : Bytes) : Except RdErr P2 :=
  if b.length ≠ 96 then .error .badEncoding
  else
    let b0 := headByte b
    if b0 / 128 ≠ 1 then .error .badEncoding
    else if b0 / 64 % 2 = 1 then
      if b0 % 64 ≠ 0 then .error .badEncoding
      else if (b.drop 1).any (· ≠ 0) then .error .badEncoding
      else .ok none
    else
      let ysign := b0 / 32 % 2
      match readFp2 (clearHeader b) with
      | .error e => .error e
      | .ok x =>
        let f := E2.f
        match Fp2.sqrt? p (f.add (f.mul (f.mul x x) x) E2.b) with
        | none => .error .notOnCurve
        | some y => .ok (some (x, if Fp2.sign p y ≠ ysign then Fp2.neg p y else y))

/-- `E2_write_bytes` (compressed) -/
def writeE2 : P2 → Bytes
  | none => 0xC0 :: zeros 95
  | some (x, y) =>
    match natBE 48 x.1 ++ natBE 48 x.2 with
    | [] => []
    | h :: t => (h ||| UInt8.ofNat (0x80 + 0x20 * Fp2.sign p y)) :: t

/-! ### keys (bls.go) -/

/-- `decodePrivateKey`: a scalar in `[1, r-1]` on exactly 32 bytes -/
def decodePrivateKey (b : Bytes) : Option Nat :=
  match readFrStar b with
  | .ok x => some x
  | .error _ => none

/-- `decodePublicKey`: a point of G2 (including the identity) on exactly 96 bytes -/
def decodePublicKey (b : Bytes) : Option P2 :=
  if b.length ≠ 96 then none
  else match readE2 b with
    | .error _ => none
    | .ok P => if inG2 P then some P else none

def publicKeyOf (sk : Nat) : P2 := Curve.mul E2 sk g2

/-- the signature `sk • h` for the hash-to-curve image `h` -/
def signPoint (sk : Nat) (h : P1) : Bytes := writeE1 (Curve.mul E1 sk h)

end Model.Bls
