import Model.Bytes

/-! Prime-field and quadratic-extension arithmetic over `Nat`, and a generic short-Weierstrass
curve `y² = x³ + a·x + b` over a field given by an operations record. Core Lean only. -/

namespace Model

/-- square-and-multiply, structurally recursive on `fuel` (fuel ≥ bit length of `e`) -/
def powModAux (m : Nat) : Nat → Nat → Nat → Nat → Nat
  | 0, _, _, acc => acc
  | fuel+1, a, e, acc =>
    if e = 0 then acc
    else powModAux m fuel (a * a % m) (e / 2) (if e % 2 = 1 then acc * a % m else acc)

def powMod (a e m : Nat) : Nat := powModAux m 800 (a % m) e (1 % m)

/-- operations of a field whose elements are represented canonically -/
structure Fld (F : Type) where
  zero : F
  one : F
  add : F → F → F
  sub : F → F → F
  mul : F → F → F
  neg : F → F
  inv : F → F          -- 0 ↦ 0
  beq : F → F → Bool

namespace Fp

def add (p a b : Nat) : Nat := (a + b) % p
def sub (p a b : Nat) : Nat := (a + (p - b % p)) % p
def mul (p a b : Nat) : Nat := a * b % p
def neg (p a : Nat) : Nat := (p - a % p) % p
def inv (p a : Nat) : Nat := powMod a (p - 2) p
/-- square root for `p ≡ 3 (mod 4)`; `none` when `a` is a non-residue -/
def sqrt? (p a : Nat) : Option Nat :=
  let y := powMod a ((p + 1) / 4) p
  if y * y % p = a % p then some y else none
/-- "sign" of the ZCash format: 1 iff `y > (p-1)/2` -/
def sign (p y : Nat) : Nat := if y > (p - 1) / 2 then 1 else 0

def ops (p : Nat) : Fld Nat :=
  { zero := 0, one := 1 % p, add := add p, sub := sub p, mul := mul p, neg := neg p, inv := inv p,
    beq := fun a b => a == b }

end Fp

/-! F_p² = F_p[u]/(u²+1), elements `(c0, c1)` = c0 + c1·u -/
namespace Fp2

abbrev El := Nat × Nat

def add (p : Nat) (a b : El) : El := (Fp.add p a.1 b.1, Fp.add p a.2 b.2)
def sub (p : Nat) (a b : El) : El := (Fp.sub p a.1 b.1, Fp.sub p a.2 b.2)
def neg (p : Nat) (a : El) : El := (Fp.neg p a.1, Fp.neg p a.2)
def mul (p : Nat) (a b : El) : El :=
  (Fp.sub p (Fp.mul p a.1 b.1) (Fp.mul p a.2 b.2), Fp.add p (Fp.mul p a.1 b.2) (Fp.mul p a.2 b.1))
def inv (p : Nat) (a : El) : El :=
  let n := Fp.inv p (Fp.add p (Fp.mul p a.1 a.1) (Fp.mul p a.2 a.2))
  (Fp.mul p a.1 n, Fp.mul p (Fp.neg p a.2) n)
/-- square root (p ≡ 3 mod 4), by the norm method; the caller normalises the sign -/
def sqrt? (p : Nat) (a : El) : Option El :=
  let check (x : El) : Option El := if mul p x x == (a.1 % p, a.2 % p) then some x else none
  if a.2 % p = 0 then
    match Fp.sqrt? p a.1 with
    | some x => check (x, 0)
    | none => match Fp.sqrt? p (Fp.neg p a.1) with
      | some x => check (0, x)
      | none => none
  else
    match Fp.sqrt? p (Fp.add p (Fp.mul p a.1 a.1) (Fp.mul p a.2 a.2)) with
    | none => none
    | some n =>
      let half := Fp.inv p 2
      let d1 := Fp.mul p (Fp.add p a.1 n) half
      let d2 := Fp.mul p (Fp.sub p a.1 n) half
      let x0? := match Fp.sqrt? p d1 with
        | some x => if x = 0 then Fp.sqrt? p d2 else some x
        | none => Fp.sqrt? p d2
      match x0? with
      | none => none
      | some x0 => check (x0, Fp.mul p a.2 (Fp.inv p (Fp.mul p 2 x0)))
/-- sign of the ZCash format on F_p²: sign of c1 unless c1 = 0, then sign of c0 -/
def sign (p : Nat) (y : El) : Nat := if y.2 = 0 then Fp.sign p y.1 else Fp.sign p y.2

def ops (p : Nat) : Fld El :=
  { zero := (0, 0), one := (1 % p, 0), add := add p, sub := sub p, mul := mul p, neg := neg p, inv := inv p,
    beq := fun a b => a == b }

end Fp2

/-! ### short Weierstrass curves -/

namespace Curve

variable {F : Type}

/-- affine point; `none` is the point at infinity -/
abbrev Aff (F : Type) := Option (F × F)

structure Params (F : Type) where
  f : Fld F
  a : F
  b : F

def onCurve (C : Params F) : Aff F → Bool
  | none => true
  | some (x, y) =>
    let f := C.f
    f.beq (f.mul y y) (f.add (f.add (f.mul (f.mul x x) x) (f.mul C.a x)) C.b)

def negAff (C : Params F) : Aff F → Aff F
  | none => none
  | some (x, y) => some (x, C.f.neg y)

/-- affine addition law (chord and tangent), the reference definition -/
def addAff (C : Params F) (P Q : Aff F) : Aff F :=
  let f := C.f
  match P, Q with
  | none, q => q
  | p, none => p
  | some (x1, y1), some (x2, y2) =>
    if f.beq x1 x2 then
      if f.beq (f.add y1 y2) f.zero then none
      else
        let l := f.mul (f.add (f.mul (f.add f.one (f.add f.one f.one)) (f.mul x1 x1)) C.a) (f.inv (f.add y1 y1))
        let x3 := f.sub (f.sub (f.mul l l) x1) x1
        some (x3, f.sub (f.mul l (f.sub x1 x3)) y1)
    else
      let l := f.mul (f.sub y2 y1) (f.inv (f.sub x2 x1))
      let x3 := f.sub (f.sub (f.mul l l) x1) x2
      some (x3, f.sub (f.mul l (f.sub x1 x3)) y1)

/-- Jacobian coordinates (X : Y : Z), x = X/Z², y = Y/Z³; Z = 0 is infinity -/
structure Jac (F : Type) where
  x : F
  y : F
  z : F

def toJac (C : Params F) : Aff F → Jac F
  | none => ⟨C.f.one, C.f.one, C.f.zero⟩
  | some (x, y) => ⟨x, y, C.f.one⟩

def fromJac (C : Params F) (P : Jac F) : Aff F :=
  let f := C.f
  if f.beq P.z f.zero then none
  else
    let zi := f.inv P.z
    let zi2 := f.mul zi zi
    some (f.mul P.x zi2, f.mul P.y (f.mul zi2 zi))

def dblJac (C : Params F) (P : Jac F) : Jac F :=
  let f := C.f
  if f.beq P.z f.zero || f.beq P.y f.zero then ⟨f.one, f.one, f.zero⟩ else
  let xx := f.mul P.x P.x
  let yy := f.mul P.y P.y
  let yyyy := f.mul yy yy
  let zz := f.mul P.z P.z
  let t := f.add P.x yy
  let s0 := f.sub (f.sub (f.mul t t) xx) yyyy
  let s := f.add s0 s0
  let m := f.add (f.add (f.add xx xx) xx) (f.mul C.a (f.mul zz zz))
  let x3 := f.sub (f.mul m m) (f.add s s)
  let y8 := let y2 := f.add yyyy yyyy; let y4 := f.add y2 y2; f.add y4 y4
  let y3 := f.sub (f.mul m (f.sub s x3)) y8
  let yz := f.add P.y P.z
  let z3 := f.sub (f.sub (f.mul yz yz) yy) zz
  ⟨x3, y3, z3⟩

def addJac (C : Params F) (P Q : Jac F) : Jac F :=
  let f := C.f
  if f.beq P.z f.zero then Q
  else if f.beq Q.z f.zero then P
  else
    let z1z1 := f.mul P.z P.z
    let z2z2 := f.mul Q.z Q.z
    let u1 := f.mul P.x z2z2
    let u2 := f.mul Q.x z1z1
    let s1 := f.mul P.y (f.mul Q.z z2z2)
    let s2 := f.mul Q.y (f.mul P.z z1z1)
    if f.beq u1 u2 then
      if f.beq s1 s2 then dblJac C P else ⟨f.one, f.one, f.zero⟩
    else
      let h := f.sub u2 u1
      let r := f.sub s2 s1
      let hh := f.mul h h
      let hhh := f.mul h hh
      let v := f.mul u1 hh
      let x3 := f.sub (f.sub (f.mul r r) hhh) (f.add v v)
      let y3 := f.sub (f.mul r (f.sub v x3)) (f.mul s1 hhh)
      let z3 := f.mul (f.mul P.z Q.z) h
      ⟨x3, y3, z3⟩

/-- double-and-add, least significant bit first -/
def mulJacAux (C : Params F) : Nat → Nat → Jac F → Jac F → Jac F
  | 0, _, _, acc => acc
  | fuel+1, k, base, acc =>
    if k = 0 then acc
    else mulJacAux C fuel (k / 2) (dblJac C base) (if k % 2 = 1 then addJac C acc base else acc)

/-- scalar multiplication `k • P` -/
def mul (C : Params F) (k : Nat) (P : Aff F) : Aff F :=
  fromJac C (mulJacAux C 800 k (toJac C P) (toJac C none))

/-- sum of a list of points -/
def sum (C : Params F) (ps : List (Aff F)) : Aff F :=
  fromJac C (ps.foldl (fun acc P => addJac C acc (toJac C P)) (toJac C none))

end Curve

end Model
