import Model.Ecdsa
import Proofs.AbsEcdsa
import Extracted.Guards
import Extracted.Consts

/-! # C11 — ECDSA verification is exact on P-256 and secp256k1

Decision-logic theorems about `Model.Ecdsa.verifyHash` / `formatCheck` (for every curve parameter set,
every key, hash and signature string).  The group-level facts (twin, sign ⇒ verify) are stated in
`Props.C11` part 2 once the abstract group layer is in; here: everything that is pure control flow. -/

namespace Props.C11
open Model Model.Ecdsa

/-- `SignatureFormatCheck` false ⇒ `Verify` false, for every key and hash -/
theorem format_false_verify_false (S : CurveSpec) (Q : Nat × Nat) (h sig : Bytes)
    (hf : formatCheck S sig = false) : verifyHash S Q h sig = false := by
  unfold formatCheck at hf
  unfold verifyHash
  split
  · rfl
  · next hl =>
    rw [if_neg hl] at hf
    simp only [Bool.and_eq_false_imp, Bool.not_eq_eq_eq_not, Bool.not_true, Bool.not_false,
      decide_eq_false_iff_not, decide_eq_true_eq] at hf
    simp only
    split
    · rfl
    · next hrs =>
      exfalso
      apply hrs
      by_cases h1 : beNat (sig.take 32) = 0 ∨ beNat (sig.drop 32) = 0
      · rcases h1 with h1 | h1
        · exact Or.inl h1
        · exact Or.inr (Or.inl h1)
      · have := hf h1
        rcases this with h2 | h2
        · exact Or.inr (Or.inr (Or.inl h2))
        · exact Or.inr (Or.inr (Or.inr h2))

/-- a signature that verifies is 64 bytes `r ‖ s` with `1 ≤ r, s < n` -/
theorem verify_true_format (S : CurveSpec) (Q : Nat × Nat) (h sig : Bytes)
    (hv : verifyHash S Q h sig = true) :
    sig.length = 64 ∧ 0 < beNat (sig.take 32) ∧ beNat (sig.take 32) < S.n ∧
    0 < beNat (sig.drop 32) ∧ beNat (sig.drop 32) < S.n := by
  unfold verifyHash at hv
  split at hv
  · cases hv
  · next hl =>
    simp only at hv
    split at hv
    · cases hv
    · next hrs => omega

/-- only the leftmost 32 bytes of the hasher output enter the equation -/
theorem verify_uses_leftmost_256_bits (S : CurveSpec) (Q : Nat × Nat) (h h' sig : Bytes)
    (hh : h.take 32 = h'.take 32) : verifyHash S Q h sig = verifyHash S Q h' sig := by
  unfold verifyHash
  rw [hh]

/-- the hasher guards of `Sign` / `Verify` as the code has them now: nil ⇒ error, size < 32 ⇒ error -/
theorem tie_hasher_guard (size nLen : Int) (hn : nLen = 32) :
    Extracted.Guards.crypto_pubKeyECDSA_Verify_g1 size nLen = decide (size < 32) ∧
    Extracted.Guards.crypto_prKeyECDSA_Sign_g1 size nLen = decide (size < 32) ∧
    Extracted.Guards.crypto_pubKeyECDSA_Verify_g0 true = true ∧
    Extracted.Guards.crypto_prKeyECDSA_Sign_g0 true = true := by
  subst hn
  simp [Extracted.Guards.crypto_pubKeyECDSA_Verify_g1, Extracted.Guards.crypto_prKeyECDSA_Sign_g1,
    Extracted.Guards.crypto_pubKeyECDSA_Verify_g0, Extracted.Guards.crypto_prKeyECDSA_Sign_g0]

/-- the length guards as the code has them now -/
theorem tie_length_guard (len nLen : Int) (hn : nLen = 32) :
    Extracted.Guards.crypto_pubKeyECDSA_verifyHash_g0 len nLen = decide (len ≠ 64) ∧
    Extracted.Guards.crypto_ecdsaAlgo_signatureFormatCheck_g0 len nLen = decide (len ≠ 64) := by
  subst hn
  simp [Extracted.Guards.crypto_pubKeyECDSA_verifyHash_g0, Extracted.Guards.crypto_ecdsaAlgo_signatureFormatCheck_g0]

/-! ### group-level facts (abstract group of prime order `n`, `xc (-P) = xc P`) -/

/-- the only other signature sharing `r` that verifies is the twin `(r, n - s)` -/
theorem verify_twin {n : ℕ} [Fact n.Prime] (E : EcGroup n) (Q : E.G) (e r s : ZMod n) :
    ecVerify E Q e r s ↔ ecVerify E Q e r (-s) := ecVerify_twin E Q e r s

/-- every signature made with a non-zero nonce (and non-zero `r`, `s`, as `Sign` guarantees by retrying) verifies -/
theorem sign_verify {n : ℕ} [Fact n.Prime] (E : EcGroup n) (d k e : ZMod n) (hk : k ≠ 0)
    (hr : E.xc (k • E.g) ≠ 0) (hs : k⁻¹ * (e + E.xc (k • E.g) * d) ≠ 0) :
    ecVerify E (d • E.g) e (E.xc (k • E.g)) (k⁻¹ * (e + E.xc (k • E.g) * d)) :=
  ec_sign_verify E d k e hk hr hs

/-! non-vacuity: an honest signature verifies in the model (P-256, d = 12345, k = 999) -/
example : (match publicKeyOf p256 12345, signWith p256 12345 999 (zeros 32) with
    | some Q, some sig => verifyHash p256 Q (zeros 32) sig
    | _, _ => false) = true := by decide +kernel

end Props.C11

#print axioms Props.C11.format_false_verify_false
#print axioms Props.C11.verify_true_format
#print axioms Props.C11.verify_uses_leftmost_256_bits
#print axioms Props.C11.tie_hasher_guard
#print axioms Props.C11.tie_length_guard
#print axioms Props.C11.verify_twin
#print axioms Props.C11.sign_verify
