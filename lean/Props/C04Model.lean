import Proofs.CurveInst

/-! # C04 (executable model) — the curve arithmetic the driver runs is the group of the curve

The abstract theorems of `Props/C04.lean` hold for every pairing structure. Here the *executable* model that is
compared with the implementation on every run (`Model.Curve` over `Fp.ops p`, used by the driver operations
`agg.sig`, `sig.expect`, `bls.verify`, …) is tied to Mathlib's group of points of `y² = x³ + 4` over `ZMod p`:
its sum of points, its scalar multiplication and its Jacobian formulas are the group operations, so the model's
answers obey the aggregation laws for every input, not only on the cases of a run. -/

namespace Props.C04Model
open Model Model.Curve Proofs.CurveGroup Proofs.CurveInst

/-- the group element a point of the model stands for -/
noncomputable abbrev pt (P : Bls.P1) : (W Bls.p 0 4).Point := toPoint Bls.p 0 4 P

/-- **the model's aggregation of signatures is the sum in the group of the curve** (Mathlib's group law), for
    every list of points its decoder accepts -/
theorem model_sum_is_group_sum (ps : List Bls.P1) (h : ∀ P ∈ ps, Proofs.E1Codec.Valid P) :
    pt (Curve.sum Bls.E1 ps) = (ps.map pt).sum :=
  (sum_eq Bls.p 0 4 bls_Δ bls_two bls_bits ps (fun P hP => valid_of_codec P (h P hP))).2

/-- hence it does not depend on the order of the signatures -/
theorem model_sum_order_independent (ps qs : List Bls.P1) (h : ∀ P ∈ ps, Proofs.E1Codec.Valid P) (hperm : ps.Perm qs) :
    Curve.sum Bls.E1 ps = Curve.sum Bls.E1 qs :=
  sum_perm Bls.p 0 4 bls_Δ bls_two bls_bits ps qs (fun P hP => valid_of_codec P (h P hP)) hperm

/-- and nested aggregation is aggregation of the concatenation -/
theorem model_sum_nested (ps qs : List Bls.P1) (hp : ∀ P ∈ ps, Proofs.E1Codec.Valid P) (hq : ∀ P ∈ qs, Proofs.E1Codec.Valid P) :
    Curve.sum Bls.E1 [Curve.sum Bls.E1 ps, Curve.sum Bls.E1 qs] = Curve.sum Bls.E1 (ps ++ qs) := by
  have vp := sum_eq Bls.p 0 4 bls_Δ bls_two bls_bits ps (fun P hP => valid_of_codec P (hp P hP))
  have vq := sum_eq Bls.p 0 4 bls_Δ bls_two bls_bits qs (fun P hP => valid_of_codec P (hq P hP))
  have hall : ∀ P ∈ ps ++ qs, Valid Bls.p 0 4 P := by
    intro P hP
    rcases List.mem_append.1 hP with h | h
    · exact valid_of_codec P (hp P h)
    · exact valid_of_codec P (hq P h)
  have v2 := sum_eq Bls.p 0 4 bls_Δ bls_two bls_bits [Curve.sum Bls.E1 ps, Curve.sum Bls.E1 qs] (by
    intro P hP
    simp only [List.mem_cons, List.not_mem_nil, or_false] at hP
    rcases hP with rfl | rfl
    · exact vp.1
    · exact vq.1)
  have v3 := sum_eq Bls.p 0 4 bls_Δ bls_two bls_bits (ps ++ qs) hall
  apply toPoint_inj Bls.p 0 4 bls_Δ _ _ v2.1 v3.1
  rw [v2.2, v3.2, bls_E1] at *
  simp only [List.map_cons, List.map_nil, List.sum_cons, List.sum_nil, add_zero, List.map_append, List.sum_append]
  rw [vp.2, vq.2]

/-- **the model's scalar multiplication is `k • P`** -/
theorem model_mul_is_nsmul (k : ℕ) (hk : k < 2 ^ 800) (P : Bls.P1) (hP : Valid Bls.p 0 4 P) :
    Valid Bls.p 0 4 (Curve.mul Bls.E1 k P) ∧ pt (Curve.mul Bls.E1 k P) = k • pt P :=
  mul_eq Bls.p 0 4 bls_Δ bls_two bls_bits k hk P hP

/-- **the signature of the aggregated private key is the aggregate of the signatures, in the executable model**: for a
    hash point `H` in the subgroup the membership test accepts (`r • H = ∞`) and private keys `k₁ k₂ < r`,
    `((k₁ + k₂) mod r) • H = k₁ • H + k₂ • H` as values of the model -/
theorem model_sign_aggregated_key (k1 k2 : ℕ) (h1 : k1 < Bls.r) (h2 : k2 < Bls.r) (H : Bls.P1) (hH : Valid Bls.p 0 4 H)
    (hG : Bls.inG1 H = true) :
    Curve.mul Bls.E1 ((k1 + k2) % Bls.r) H = Curve.sum Bls.E1 [Curve.mul Bls.E1 k1 H, Curve.mul Bls.E1 k2 H] := by
  have hr : Bls.r < 2 ^ 800 := by decide +kernel
  have m1 := model_mul_is_nsmul k1 (by omega) H hH
  have m2 := model_mul_is_nsmul k2 (by omega) H hH
  have m3 := model_mul_is_nsmul ((k1 + k2) % Bls.r) (lt_trans (Nat.mod_lt _ (by decide +kernel)) hr) H hH
  have mr := model_mul_is_nsmul Bls.r hr H hH
  have hnone : Curve.mul Bls.E1 Bls.r H = none := by
    unfold Bls.inG1 at hG
    cases hm : Curve.mul Bls.E1 Bls.r H with
    | none => rfl
    | some q => rw [hm] at hG; cases hG
  have hr0 : Bls.r • pt H = 0 := by
    rw [← mr.2, hnone]; rfl
  have s := sum_eq Bls.p 0 4 bls_Δ bls_two bls_bits [Curve.mul Bls.E1 k1 H, Curve.mul Bls.E1 k2 H] (by
    intro P hP
    simp only [List.mem_cons, List.not_mem_nil, or_false] at hP
    rcases hP with rfl | rfl
    · exact m1.1
    · exact m2.1)
  apply toPoint_inj Bls.p 0 4 bls_Δ _ _ m3.1 s.1
  rw [bls_E1] at *
  have e1 : toPoint Bls.p 0 4 (mul (C Bls.p 0 4) k1 H) = k1 • toPoint Bls.p 0 4 H := m1.2
  have e2 : toPoint Bls.p 0 4 (mul (C Bls.p 0 4) k2 H) = k2 • toPoint Bls.p 0 4 H := m2.2
  have e3 : toPoint Bls.p 0 4 (mul (C Bls.p 0 4) ((k1 + k2) % Bls.r) H) = ((k1 + k2) % Bls.r) • toPoint Bls.p 0 4 H := m3.2
  have e0 : Bls.r • toPoint Bls.p 0 4 H = 0 := hr0
  rw [e3, s.2]
  simp only [List.map_cons, List.map_nil, List.sum_cons, List.sum_nil, add_zero]
  rw [e1, e2, ← add_smul]
  conv_rhs => rw [← Nat.mod_add_div' (k1 + k2) Bls.r, add_smul, mul_smul, e0, nsmul_zero, add_zero]

end Props.C04Model

#print axioms Props.C04Model.model_sum_is_group_sum
#print axioms Props.C04Model.model_sum_order_independent
#print axioms Props.C04Model.model_sum_nested
#print axioms Props.C04Model.model_mul_is_nsmul
#print axioms Props.C04Model.model_sign_aggregated_key
