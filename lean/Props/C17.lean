import Proofs.AbsAgg
import Extracted.Guards
import Extracted.Consts

/-! # C17 — SPoCK verification holds exactly for proofs of one message under the claimed keys -/

namespace Props.C17

variable {r : ℕ} [Fact r.Prime] {P : PairingGroups r}

/-- **exact characterisation**: true iff both proofs are canonical encodings of G1 elements, neither key
    is the identity, and `e(p1, pk2) = e(p2, pk1)` -/
theorem spock_iff (C : Codec P) (pk1 pk2 : P.G2) (p1 p2 : Bytes) :
    spockVerify C pk1 p1 pk2 p2 = true ↔
      pk1 ≠ 0 ∧ pk2 ≠ 0 ∧ ∃ s1 s2 : P.G1, p1 = C.encode (P.ι s1) ∧ p2 = C.encode (P.ι s2) ∧
        P.e s1 pk2 = P.e s2 pk1 := by
  unfold spockVerify
  constructor
  · intro h
    split at h; · cases h
    split at h; · cases h
    rename_i hl hk
    split at h; · cases h
    rename_i x1 hd1
    split at h; · cases h
    rename_i s1 ht1
    split at h; · cases h
    rename_i x2 hd2
    split at h; · cases h
    rename_i s2 ht2
    simp only [decide_eq_true_eq] at h
    refine ⟨fun h0 => hk (Or.inl h0), fun h0 => hk (Or.inr h0), s1, s2, ?_, ?_, ?_⟩
    · rw [(P.toG1_iff _ _).1 ht1]; exact (C.enc_dec _ _ hd1).symm
    · rw [(P.toG1_iff _ _).1 ht2]; exact (C.enc_dec _ _ hd2).symm
    · rw [map_neg, neg_add_eq_zero] at h; exact h
  · rintro ⟨h1, h2, s1, s2, rfl, rfl, he⟩
    have l1 := C.len _ _ (C.dec_enc (P.ι s1))
    have l2 := C.len _ _ (C.dec_enc (P.ι s2))
    rw [if_neg (by simp [l1, l2]), if_neg (by simp [h1, h2])]
    simp only [C.dec_enc, P.toG1_ι, decide_eq_true_eq]
    rw [map_neg, neg_add_eq_zero]; exact he

/-- the verdict is unchanged when the two (key, proof) pairs are swapped -/
theorem spock_symm (C : Codec P) (pk1 pk2 : P.G2) (p1 p2 : Bytes) :
    spockVerify C pk1 p1 pk2 p2 = spockVerify C pk2 p2 pk1 p1 := by
  have h : ∀ a b c d, spockVerify C a b c d = true → spockVerify C c d a b = true := by
    intro a b c d hv
    obtain ⟨h1, h2, s1, s2, e1, e2, he⟩ := (spock_iff C a c b d).1 hv
    exact (spock_iff C c a d b).2 ⟨h2, h1, s2, s1, e2, e1, he.symm⟩
  cases h1 : spockVerify C pk1 p1 pk2 p2 <;> cases h2 : spockVerify C pk2 p2 pk1 p1 <;> try rfl
  · have := h _ _ _ _ h2; rw [h1] at this; cases this
  · have := h _ _ _ _ h1; rw [h2] at this; cases this

/-- two honest proofs over the same data (same hash-to-curve image) always verify -/
theorem spock_honest (C : Codec P) (sk1 sk2 : ZMod r) (h1 : sk1 ≠ 0) (h2 : sk2 ≠ 0) (hg : P.g2 ≠ 0) (h : P.G1) :
    spockVerify C (pubOf P sk1) (signCore C sk1 h) (pubOf P sk2) (signCore C sk2 h) = true := by
  rw [spock_iff]
  refine ⟨P.g2_smul_ne_zero hg sk1 h1, P.g2_smul_ne_zero hg sk2 h2, sk1 • h, sk2 • h, rfl, rfl, ?_⟩
  simp [pubOf, map_smul, smul_smul, mul_comm]

/-- proofs over different data do not verify (keys non-zero, hash images different) -/
theorem spock_other_data (C : Codec P) (sk1 sk2 : ZMod r) (h1 : sk1 ≠ 0) (h2 : sk2 ≠ 0) (h h' : P.G1)
    (hne : h ≠ h') :
    spockVerify C (pubOf P sk1) (signCore C sk1 h) (pubOf P sk2) (signCore C sk2 h') = false := by
  by_contra hc
  obtain ⟨_, _, s1, s2, e1, e2, he⟩ := (spock_iff C _ _ _ _).1 (by simpa using hc)
  have d1 := C.dec_enc (P.ι (sk1 • h))
  have d2 := C.dec_enc (P.ι (sk2 • h'))
  unfold signCore at e1 e2
  rw [e1, C.dec_enc] at d1
  rw [e2, C.dec_enc] at d2
  have hs1 : s1 = sk1 • h := P.ι_inj (Option.some.inj d1)
  have hs2 : s2 = sk2 • h' := P.ι_inj (Option.some.inj d2)
  subst hs1 hs2
  have : P.e ((sk1 * sk2) • (h - h')) P.g2 = 0 := by
    have := he
    simp only [pubOf, map_smul, LinearMap.smul_apply, smul_smul] at this
    rw [map_smul, LinearMap.smul_apply, map_sub, LinearMap.sub_apply, smul_sub, sub_eq_zero]
    rw [mul_comm sk2 sk1] at this
    exact this
  have hz := P.nondeg_g2 _ this
  have hmul : sk1 * sk2 ≠ 0 := mul_ne_zero h1 h2
  have : h - h' = 0 := by
    have h3 := congrArg (fun x => (sk1 * sk2)⁻¹ • x) hz
    simp only [smul_smul, smul_zero] at h3
    rw [inv_mul_cancel₀ hmul, one_smul] at h3
    exact h3
  exact hne (sub_eq_zero.1 this)

/-- scaling both proofs by a common factor preserves the verdict -/
theorem spock_scaled (C : Codec P) (pk1 pk2 : P.G2) (s1 s2 : P.G1) (c : ZMod r) (hc : c ≠ 0) :
    spockVerify C pk1 (C.encode (P.ι (c • s1))) pk2 (C.encode (P.ι (c • s2)))
      = spockVerify C pk1 (C.encode (P.ι s1)) pk2 (C.encode (P.ι s2)) := by
  have key : ∀ a b : P.G1, (spockVerify C pk1 (C.encode (P.ι a)) pk2 (C.encode (P.ι b)) = true ↔
      pk1 ≠ 0 ∧ pk2 ≠ 0 ∧ P.e a pk2 = P.e b pk1) := by
    intro a b
    rw [spock_iff]
    constructor
    · rintro ⟨h1, h2, t1, t2, e1, e2, he⟩
      have d1 := C.dec_enc (P.ι a); rw [e1, C.dec_enc] at d1
      have d2 := C.dec_enc (P.ι b); rw [e2, C.dec_enc] at d2
      have := P.ι_inj (Option.some.inj d1); have := P.ι_inj (Option.some.inj d2)
      subst_vars
      exact ⟨h1, h2, he⟩
    · rintro ⟨h1, h2, he⟩; exact ⟨h1, h2, a, b, rfl, rfl, he⟩
  have hiff : (P.e (c • s1) pk2 = P.e (c • s2) pk1) ↔ (P.e s1 pk2 = P.e s2 pk1) := by
    simp only [map_smul, LinearMap.smul_apply]
    constructor
    · intro h
      have := congrArg (fun x => c⁻¹ • x) h
      simpa [smul_smul, inv_mul_cancel₀ hc] using this
    · intro h; rw [h]
  cases h1 : spockVerify C pk1 (C.encode (P.ι (c • s1))) pk2 (C.encode (P.ι (c • s2))) <;>
    cases h2 : spockVerify C pk1 (C.encode (P.ι s1)) pk2 (C.encode (P.ι s2)) <;> try rfl
  · have := (key _ _).1 h2
    have := (key (c • s1) (c • s2)).2 ⟨this.1, this.2.1, hiff.2 this.2.2⟩
    rw [h1] at this; cases this
  · have := (key _ _).1 h1
    have := (key s1 s2).2 ⟨this.1, this.2.1, hiff.1 this.2.2⟩
    rw [h2] at this; cases this

/-- a proof outside the prime-order subgroup (`s + T`), a malformed or wrong-length proof, an identity key: false -/
theorem spock_rejects (C : Codec P) (pk1 pk2 : P.G2) (p1 p2 : Bytes)
    (h : pk1 = 0 ∨ pk2 = 0 ∨ p1.length ≠ 48 ∨ p2.length ≠ 48 ∨
      (∀ s : P.G1, p1 ≠ C.encode (P.ι s)) ∨ (∀ s : P.G1, p2 ≠ C.encode (P.ι s))) :
    spockVerify C pk1 p1 pk2 p2 = false := by
  by_contra hc
  obtain ⟨h1, h2, s1, s2, e1, e2, _⟩ := (spock_iff C _ _ _ _).1 (by simpa using hc)
  rcases h with h | h | h | h | h | h
  · exact h1 h
  · exact h2 h
  · exact h (e1 ▸ C.len _ _ (C.dec_enc _))
  · exact h (e2 ▸ C.len _ _ (C.dec_enc _))
  · exact h s1 e1
  · exact h s2 e2

/-- `SPOCKVerifyAgainstData` coincides with BLS `Verify`, `SPOCKProve` with `Sign`: they are the same code path;
    and SPoCK verification of an honest proof against a verified signature agrees with verification -/
theorem spock_vs_verify (C : Codec P) (sk1 sk2 : ZMod r) (h1 : sk1 ≠ 0) (h2 : sk2 ≠ 0) (hg : P.g2 ≠ 0)
    (h : P.G1) (p2 : Bytes) :
    spockVerify C (pubOf P sk1) (signCore C sk1 h) (pubOf P sk2) p2 = true ↔ verifyCore C (pubOf P sk2) p2 h = true := by
  rw [show pubOf P sk2 = sk2 • P.g2 from rfl, verifyCore_iff C sk2 h2 hg]
  constructor
  · intro hv
    obtain ⟨_, _, s1, s2, e1, e2, he⟩ := (spock_iff C _ _ _ _).1 hv
    have d1 := C.dec_enc (P.ι (sk1 • h))
    unfold signCore at e1
    rw [e1, C.dec_enc] at d1
    have hs1 : s1 = sk1 • h := P.ι_inj (Option.some.inj d1)
    subst hs1
    have hz : P.e (sk1 • (sk2 • h - s2)) P.g2 = 0 := by
      simp only [pubOf, map_smul, LinearMap.smul_apply, smul_smul] at he
      rw [map_smul, LinearMap.smul_apply, map_sub, LinearMap.sub_apply, smul_sub, map_smul,
        LinearMap.smul_apply, smul_smul, sub_eq_zero]
      rw [mul_comm sk1 sk2]; exact he
    have hz' := P.nondeg_g2 _ hz
    have : sk2 • h - s2 = 0 := by
      have := congrArg (fun x => sk1⁻¹ • x) hz'
      simpa [smul_smul, inv_mul_cancel₀ h1] using this
    rw [e2, ← sub_eq_zero.1 this]; rfl
  · rintro rfl
    exact spock_honest C sk1 sk2 h1 h2 hg h

theorem tie_guards (nil1 nil2 : Bool) :
    Extracted.Consts.crypto_g1BytesLen = 48 := by decide

end Props.C17

#print axioms Props.C17.spock_iff
#print axioms Props.C17.spock_symm
#print axioms Props.C17.spock_honest
#print axioms Props.C17.spock_other_data
#print axioms Props.C17.spock_scaled
#print axioms Props.C17.spock_rejects
#print axioms Props.C17.spock_vs_verify
