import Props.C05
import Props.C06Driver
import Proofs.BlsLaws

/-! # C05 (executable model ↔ group law) — the membership test of the decoders is the group-theoretic one.

`Bls.inG1` / `Bls.inG2` run the model's Jacobian double-and-add with the scalar `r`; by the group bridge
(`Proofs/CurveGroup`, `Proofs/CurveGroup2`) that test holds exactly for the points of order dividing `r` in Mathlib's
group of the curve, and the validity predicates of the codec theorems are the validity predicates of the bridge. Hence:
the public keys the model's decoder accepts are exactly the canonical encodings of the `r`-torsion points of
`E2(F_p²)`, the identity included. -/

namespace Props.C05Model
open Model Model.Curve

local notation "r" => Model.Bls.r

section E1
open Proofs.CurveGroup Proofs.CurveInst

/-- the validity predicate of the signature codec is the validity predicate of the group bridge -/
theorem e1_valid_iff (P : Bls.P1) : Proofs.E1Codec.Valid P ↔ Valid Bls.p 0 4 P := by
  constructor
  · intro h
    cases P with
    | none => exact True.intro
    | some xy =>
      obtain ⟨x, y⟩ := xy
      obtain ⟨hx, hy, hc⟩ := h x y rfl
      refine ⟨hx, hy, ?_⟩
      show (Fp.mul Bls.p y y == Fp.add Bls.p (Fp.add Bls.p (Fp.mul Bls.p (Fp.mul Bls.p x x) x) (Fp.mul Bls.p 0 x)) 4) = true
      rw [beq_iff_eq]
      unfold Fp.mul Fp.add
      rw [hc]
      simp [Nat.add_mod, Nat.mul_mod]
  · exact Props.C06Driver.codec_valid1 P

/-- **the G1 membership test of the model is `r • P = 0` in the group of the curve** -/
theorem inG1_iff_torsion (P : Bls.P1) (hP : Valid Bls.p 0 4 P) :
    Bls.inG1 P = true ↔ r • toPoint Bls.p 0 4 P = 0 := by
  have hr800 : r < 2 ^ 800 := by decide +kernel
  obtain ⟨k, hk⟩ : ∃ k, k = r := ⟨_, rfl⟩
  have m := mul_eq Bls.p 0 4 bls_Δ bls_two bls_bits k (hk ▸ hr800) P hP
  unfold Bls.inG1
  rw [bls_E1, ← hk, ← m.2]
  constructor
  · intro h
    rw [Option.isNone_iff_eq_none] at h
    rw [h]; rfl
  · intro h
    have vn : Valid Bls.p 0 4 none := True.intro
    have := toPoint_inj Bls.p 0 4 bls_Δ _ _ m.1 vn (h.trans rfl)
    rw [this]; rfl

end E1

section E2
open Proofs.CurveGroup2 Proofs.CurveInst2

/-- the validity predicate of the public-key codec is the validity predicate of the group bridge -/
theorem e2_valid_iff (P : Bls.P2) : Proofs.E2Codec.Valid P ↔ Valid Bls.p (0, 0) (4, 4) P := by
  constructor
  · intro h
    cases P with
    | none => exact True.intro
    | some xy =>
      obtain ⟨x, y⟩ := xy
      obtain ⟨hx1, hx2, hy1, hy2, hc⟩ := h x y rfl
      refine ⟨⟨hx1, hx2⟩, ⟨hy1, hy2⟩, ?_⟩
      show (Fp2.mul Bls.p y y == Fp2.add Bls.p (Fp2.add Bls.p (Fp2.mul Bls.p (Fp2.mul Bls.p x x) x)
        (Fp2.mul Bls.p (0, 0) x)) (4, 4)) = true
      rw [beq_iff_eq, hc]
      unfold Proofs.E2Codec.rhs
      rw [← cast_inj Bls.p (lt_add Bls.p _ _) (lt_add Bls.p _ _), c_add, c_add, c_add, c_mul Bls.p (0, 0) x, c_zero]
      ring
  · exact Proofs.BlsLaws.codec_valid P

/-- **the G2 membership test of the model is `r • P = 0` in the group of the curve over `F_p²`** -/
theorem inG2_iff_torsion (P : Bls.P2) (hP : Valid Bls.p (0, 0) (4, 4) P) :
    Bls.inG2 P = true ↔ r • toPoint Bls.p (0, 0) (4, 4) P = 0 := by
  have hr800 : r < 2 ^ 800 := by decide +kernel
  obtain ⟨k, hk⟩ : ∃ k, k = r := ⟨_, rfl⟩
  have m := mul_eq Bls.p (0, 0) (4, 4) bls2_Δ bls2_two bls2_bits k (hk ▸ hr800) P hP
  unfold Bls.inG2
  rw [bls_E2, ← hk, ← m.2]
  constructor
  · intro h
    rw [Option.isNone_iff_eq_none] at h
    rw [h]; rfl
  · intro h
    have vn : Valid Bls.p (0, 0) (4, 4) none := True.intro
    have := toPoint_inj Bls.p (0, 0) (4, 4) bls2_Δ _ _ m.1 vn (h.trans rfl)
    rw [this]; rfl

/-- **accepted BLS public keys are exactly the canonical encodings of the `r`-torsion points of `E2(F_p²)`** (as
    elements of Mathlib's group of the curve), the identity included -/
theorem bls_pk_accepts_iff_torsion (b : Bytes) (P : Bls.P2) :
    Bls.decodePublicKey b = some P ↔
      (Valid Bls.p (0, 0) (4, 4) P ∧ r • toPoint Bls.p (0, 0) (4, 4) P = 0 ∧ Bls.writeE2 P = b) := by
  rw [Props.C05.bls_pk_accepts_iff, e2_valid_iff]
  constructor
  · rintro ⟨hv, hg, hw⟩; exact ⟨hv, (inG2_iff_torsion P hv).1 hg, hw⟩
  · rintro ⟨hv, hg, hw⟩; exact ⟨hv, (inG2_iff_torsion P hv).2 hg, hw⟩

/-- the decoded key of two accepted byte strings is the same group element only if the strings are equal -/
theorem bls_pk_decode_injective (b b' : Bytes) (P P' : Bls.P2) (h : Bls.decodePublicKey b = some P)
    (h' : Bls.decodePublicKey b' = some P')
    (he : toPoint Bls.p (0, 0) (4, 4) P = toPoint Bls.p (0, 0) (4, 4) P') : b = b' := by
  obtain ⟨hv, _, hw⟩ := (bls_pk_accepts_iff_torsion b P).1 h
  obtain ⟨hv', _, hw'⟩ := (bls_pk_accepts_iff_torsion b' P').1 h'
  rw [← hw, ← hw', toPoint_inj Bls.p (0, 0) (4, 4) bls2_Δ P P' hv hv' he]

end E2

section sig
open Proofs.CurveGroup Proofs.CurveInst

/-- accepted signature strings are exactly the canonical encodings of the points of `E1(F_p)` (group bridge form) -/
theorem bls_sig_accepts_iff_point (b : Bytes) (P : Bls.P1) :
    Bls.readE1 b = .ok P ↔ (Valid Bls.p 0 4 P ∧ Bls.writeE1 P = b) := by
  rw [Props.C05.bls_sig_accepts_iff, e1_valid_iff]

/-- a raw ECDSA public key accepted on P-256 is a point of the bridge's group of the curve -/
theorem ecdsa_p256_pk_valid (b : Bytes) (Q : ℕ × ℕ) (h : Ecdsa.decodePublicKey Ecdsa.p256 b = some Q) :
    Valid Ecdsa.p256P p256a p256b (some Q) := by
  obtain ⟨_, _, h1, h2, hc⟩ := (Props.C05.ecdsa_pk_accepts_iff Ecdsa.p256 b Q).1 h
  obtain ⟨x, y⟩ := Q
  exact ⟨h1, h2, hc⟩

/-- the same on secp256k1 -/
theorem ecdsa_k256_pk_valid (b : Bytes) (Q : ℕ × ℕ) (h : Ecdsa.decodePublicKey Ecdsa.k256 b = some Q) :
    Valid Ecdsa.k256P 0 7 (some Q) := by
  obtain ⟨_, _, h1, h2, hc⟩ := (Props.C05.ecdsa_pk_accepts_iff Ecdsa.k256 b Q).1 h
  obtain ⟨x, y⟩ := Q
  exact ⟨h1, h2, hc⟩

end sig

/-- non-vacuity: the generator of G2 satisfies the right-hand side of `bls_pk_accepts_iff_torsion` -/
example : Bls.decodePublicKey (Bls.writeE2 Bls.g2) = some Bls.g2 :=
  (bls_pk_accepts_iff_torsion _ _).2 ⟨Proofs.CurveInst2.bls_g2_valid, Proofs.BlsFeldman.rG, rfl⟩

end Props.C05Model

#print axioms Props.C05Model.inG1_iff_torsion
#print axioms Props.C05Model.inG2_iff_torsion
#print axioms Props.C05Model.bls_pk_accepts_iff_torsion
#print axioms Props.C05Model.bls_pk_decode_injective
#print axioms Props.C05Model.bls_sig_accepts_iff_point
#print axioms Props.C05Model.ecdsa_p256_pk_valid
#print axioms Props.C05Model.ecdsa_k256_pk_valid
