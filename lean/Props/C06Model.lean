import Proofs.CurveInst
import Props.C06

/-! # C06 (executable model) — threshold reconstruction, for the curve arithmetic and the coefficient loop the driver
runs: the shares `Q(x_i) • H` of any polynomial of degree < #signers, weighted by the coefficients of the limb-batched
loop (`Model.Threshold.coeff`) and summed with the model's curve arithmetic, give `Q(0) • H` -/

namespace Props.C06Model
open Model Model.Curve Proofs.CurveGroup Proofs.CurveInst

local notation "r" => Model.Bls.r

theorem list_range_sum {M : Type*} [AddCommMonoid M] (f : ℕ → M) (n : ℕ) :
    ((List.range n).map f).sum = ∑ i ∈ Finset.range n, f i := by
  induction n with
  | zero => simp
  | succ n ih => rw [List.range_succ, List.map_append, List.sum_append, ih, Finset.sum_range_succ]; simp

/-- weighted sums of multiples of a point of the subgroup, computed by the model: only the scalar modulo `r` matters -/
theorem weighted_sum (n : ℕ) (c q : ℕ → ℕ) (hc : ∀ i, c i < 2 ^ 800) (hq : ∀ i, q i < 2 ^ 800) (k0 : ℕ)
    (hk0 : k0 < 2 ^ 800) (hmod : (∑ i ∈ Finset.range n, c i * q i) % r = k0 % r) (H : Bls.P1)
    (hH : Valid Bls.p 0 4 H) (hG : Bls.inG1 H = true) :
    Curve.sum Bls.E1 ((List.range n).map fun i => Curve.mul Bls.E1 (c i) (Curve.mul Bls.E1 (q i) H)) =
      Curve.mul Bls.E1 k0 H := by
  rw [bls_E1]
  have hr800 : r < 2 ^ 800 := by decide +kernel
  have T0 : r • toPoint Bls.p 0 4 H = 0 := by
    have mr := mul_eq Bls.p 0 4 bls_Δ bls_two bls_bits r hr800 H hH
    have hnone : Curve.mul (C Bls.p 0 4) r H = none := by
      unfold Bls.inG1 at hG
      rw [bls_E1] at hG
      cases hm : Curve.mul (C Bls.p 0 4) r H with
      | none => rfl
      | some q => rw [hm] at hG; cases hG
    rw [← mr.2, hnone]; rfl
  have term : ∀ i, Valid Bls.p 0 4 (Curve.mul (C Bls.p 0 4) (c i) (Curve.mul (C Bls.p 0 4) (q i) H)) ∧
      toPoint Bls.p 0 4 (Curve.mul (C Bls.p 0 4) (c i) (Curve.mul (C Bls.p 0 4) (q i) H)) =
        (c i * q i) • toPoint Bls.p 0 4 H := by
    intro i
    have m1 := mul_eq Bls.p 0 4 bls_Δ bls_two bls_bits _ (hq i) H hH
    have m2 := mul_eq Bls.p 0 4 bls_Δ bls_two bls_bits _ (hc i) _ m1.1
    exact ⟨m2.1, by rw [m2.2, m1.2, smul_smul]⟩
  have s := sum_eq Bls.p 0 4 bls_Δ bls_two bls_bits ((List.range n).map fun i =>
      Curve.mul (C Bls.p 0 4) (c i) (Curve.mul (C Bls.p 0 4) (q i) H)) (by
    intro P hP
    obtain ⟨i, _, rfl⟩ := List.mem_map.1 hP
    exact (term i).1)
  have m0 := mul_eq Bls.p 0 4 bls_Δ bls_two bls_bits k0 hk0 H hH
  apply toPoint_inj Bls.p 0 4 bls_Δ _ _ s.1 m0.1
  rw [s.2, m0.2, List.map_map]
  have hmap : (List.range n).map (toPoint Bls.p 0 4 ∘ fun i =>
      Curve.mul (C Bls.p 0 4) (c i) (Curve.mul (C Bls.p 0 4) (q i) H)) =
      (List.range n).map (fun i => (c i * q i) • toPoint Bls.p 0 4 H) := by
    apply List.map_congr_left
    intro i _
    exact (term i).2
  rw [hmap, list_range_sum, ← Finset.sum_smul]
  conv_lhs => rw [← Nat.mod_add_div' (∑ i ∈ Finset.range n, c i * q i) r, add_smul, mul_smul, T0, nsmul_zero,
    add_zero, hmod]
  conv_rhs => rw [← Nat.mod_add_div' k0 r, add_smul, mul_smul, T0, nsmul_zero, add_zero]

/-- **threshold reconstruction in the executable model**: distinct signer abscissas at most 255, a polynomial `Q` over
    `F_r` of degree below the number of signers, a hash point `H` on the curve in the subgroup (`r • H = ∞`):
    the sum of `coeff_i • (Q(x_i) • H)` is `Q(0) • H`, all computed by `Model.Curve` and `Model.Threshold.coeff` -/
theorem model_threshold_reconstruction (xs : List ℕ) (hb : ∀ x ∈ xs, x ≤ 255)
    (hinj : Set.InjOn (fun j => ((xs.getD j 0 : ℕ) : ZMod r)) (Finset.range xs.length))
    (Q : Polynomial (ZMod r)) (hdeg : Q.degree < xs.length) (H : Bls.P1) (hH : Valid Bls.p 0 4 H)
    (hG : Bls.inG1 H = true) :
    Curve.sum Bls.E1 ((List.range xs.length).map fun i =>
        Curve.mul Bls.E1 (Model.Threshold.coeff r xs i) (Curve.mul Bls.E1 (Q.eval ((xs.getD i 0 : ℕ) : ZMod r)).val H)) =
      Curve.mul Bls.E1 (Q.eval 0).val H := by
  have hr800 : r < 2 ^ 800 := by decide +kernel
  have hr0 : 0 < r := by decide +kernel
  have vlt : ∀ z : ZMod r, z.val < 2 ^ 800 := fun z => lt_trans (ZMod.val_lt z) hr800
  have hc : ∀ i, Model.Threshold.coeff r xs i < 2 ^ 800 := by
    intro i
    unfold Model.Threshold.coeff
    exact lt_trans (Nat.mod_lt _ hr0) hr800
  -- Lagrange interpolation at zero in F_r, with the coefficients of the C loop
  have lag := Props.C06.c_loop_reconstructs (G := ZMod r) xs hb hinj Q hdeg 1
  simp only [smul_eq_mul, mul_one] at lag
  have hcast : ((∑ i ∈ Finset.range xs.length,
      Model.Threshold.coeff r xs i * (Q.eval ((xs.getD i 0 : ℕ) : ZMod r)).val : ℕ) : ZMod r) = Q.eval 0 := by
    rw [Nat.cast_sum, ← lag]
    apply Finset.sum_congr rfl
    intro i _
    rw [Nat.cast_mul, ZMod.natCast_zmod_val]
  have hmod : (∑ i ∈ Finset.range xs.length,
      Model.Threshold.coeff r xs i * (Q.eval ((xs.getD i 0 : ℕ) : ZMod r)).val) % r = (Q.eval 0).val % r := by
    have := congrArg ZMod.val hcast
    rw [ZMod.val_natCast] at this
    rw [this, Nat.mod_eq_of_lt (ZMod.val_lt _)]
  exact weighted_sum xs.length (fun i => Model.Threshold.coeff r xs i)
    (fun i => (Q.eval ((xs.getD i 0 : ℕ) : ZMod r)).val) hc (fun i => vlt _) _ (vlt _) hmod H hH hG

end Props.C06Model

#print axioms Props.C06Model.model_threshold_reconstruction
