import Proofs.AbsBls
import Mathlib.Tactic.Ring
import Mathlib.Tactic.NormNum.Prime
import Extracted.Guards
import Extracted.Consts
import Proofs.E1Codec
import Model.HashToCurve

/-! # C01 — BLS Verify accepts exactly the one signature `sk • H(m)` per key, message, hasher

Property theorems over the abstract pairing setting (`Proofs/AbsBls.lean`): every group structure with a
bilinear non-degenerate pairing, every hash-to-curve function `H`, every codec satisfying the codec laws. -/

namespace Props.C01

variable {r : ℕ} [Fact r.Prime] {P : PairingGroups r}

/-- **Verify accepts exactly one 48-byte string, the one Sign returns** (non-zero private key, any
    message, any 128-byte-output hasher). -/
theorem verify_iff (C : Codec P) (H : Bytes → P.G1) (sk : ZMod r) (hsk : sk ≠ 0) (hg : P.g2 ≠ 0)
    (k : Hasher) (hk : k.size = 128) (sig data : Bytes) :
    verify C H (sk • P.g2) sig data (some k) = .ok true ↔ sign C H sk data (some k) = .ok sig := by
  unfold verify sign checkHasher
  simp only [hk, ne_eq, not_true_eq_false, ↓reduceIte, Except.ok.injEq]
  rw [verifyCore_iff C sk hsk hg]
  exact eq_comm

/-- every other input yields `(false, nil)`: the verdict is a boolean without error whenever the hasher is valid -/
theorem verify_total (C : Codec P) (H : Bytes → P.G1) (pk : P.G2) (k : Hasher) (hk : k.size = 128)
    (sig data : Bytes) : ∃ b, verify C H pk sig data (some k) = .ok b := by
  unfold verify checkHasher
  simp [hk]

/-- what Sign returns verifies -/
theorem sign_verifies (C : Codec P) (H : Bytes → P.G1) (sk : ZMod r) (hsk : sk ≠ 0) (hg : P.g2 ≠ 0)
    (k : Hasher) (hk : k.size = 128) (data sig : Bytes) (hs : sign C H sk data (some k) = .ok sig) :
    verify C H (sk • P.g2) sig data (some k) = .ok true :=
  (verify_iff C H sk hsk hg k hk sig data).2 hs

/-- another message / tag / hasher whose hash-to-curve image differs: the signature is rejected -/
theorem other_message_rejected (C : Codec P) (sk : ZMod r) (hsk : sk ≠ 0) (hg : P.g2 ≠ 0)
    (h h' : P.G1) (hne : h ≠ h') : verifyCore C (sk • P.g2) (signCore C sk h) h' = false := by
  by_contra hc
  have := (verifyCore_iff C sk hsk hg _ h').1 (by simpa using hc)
  unfold signCore at this
  have h1 := C.dec_enc (P.ι (sk • h))
  rw [this, C.dec_enc] at h1
  have h2 : sk • h' = sk • h := P.ι_inj (Option.some.inj h1)
  have : h' = h := by
    have := congrArg (fun x => sk⁻¹ • x) h2
    simpa [smul_smul, inv_mul_cancel₀ hsk] using this
  exact hne this.symm

/-- another key: the signature of `sk` does not verify under `sk' • g2` unless it is also `sk'`'s signature -/
theorem other_key_rejected (C : Codec P) (sk sk' : ZMod r) (hsk' : sk' ≠ 0) (hg : P.g2 ≠ 0)
    (h : P.G1) (hne : sk • h ≠ sk' • h) : verifyCore C (sk' • P.g2) (signCore C sk h) h = false := by
  by_contra hc
  have := (verifyCore_iff C sk' hsk' hg _ h).1 (by simpa using hc)
  unfold signCore at this
  have h1 := C.dec_enc (P.ι (sk • h))
  rw [this, C.dec_enc] at h1
  exact hne (P.ι_inj (Option.some.inj h1)).symm

/-- a curve point outside the prime-order subgroup (e.g. `s + T`, `T` of small order) is rejected -/
theorem outside_subgroup_rejected (C : Codec P) (pk : P.G2) (x : P.E1) (hx : P.toG1 x = none) (h : P.G1) :
    verifyCore C pk (C.encode x) h = false := by
  unfold verifyCore
  split; · rfl
  split; · rfl
  rw [C.dec_enc]
  simp [hx]

/-- any string the codec rejects, and any string of another length, is rejected -/
theorem malformed_rejected (C : Codec P) (pk : P.G2) (sig : Bytes) (h : P.G1)
    (hbad : sig.length ≠ 48 ∨ C.decode sig = none) : verifyCore C pk sig h = false := by
  unfold verifyCore
  rcases hbad with hl | hd
  · simp [hl]
  · split; · rfl
    split; · rfl
    simp [hd]

/-- the identity signature never verifies under a non-identity key when `H(m) ≠ 0`; and never under the identity key -/
theorem identity_signature_rejected (C : Codec P) (sk : ZMod r) (hsk : sk ≠ 0) (hg : P.g2 ≠ 0) (h : P.G1)
    (hh : h ≠ 0) : verifyCore C (sk • P.g2) (C.encode 0) h = false := by
  by_contra hc
  have := (verifyCore_iff C sk hsk hg _ h).1 (by simpa using hc)
  unfold signCore at this
  have h1 := C.dec_enc (0 : P.E1)
  rw [this, C.dec_enc] at h1
  have h2 : P.ι (sk • h) = P.ι 0 := by rw [map_zero]; exact Option.some.inj h1
  have h3 : sk • h = 0 := P.ι_inj h2
  have : h = 0 := by
    have := congrArg (fun x => sk⁻¹ • x) h3
    simpa [smul_smul, inv_mul_cancel₀ hsk] using this
  exact hh this

/-- **verification under the identity public key is false for every signature** -/
theorem identity_key_rejects_all (C : Codec P) (H : Bytes → P.G1) (k : Hasher) (hk : k.size = 128)
    (sig data : Bytes) : verify C H 0 sig data (some k) = .ok false := by
  unfold verify checkHasher
  simp [hk, verifyCore_identity_key]

/-- hasher guards: nil ⇒ nil-hasher error, size ≠ 128 ⇒ hasher-size error, before anything else -/
theorem hasher_guard (C : Codec P) (H : Bytes → P.G1) (pk : P.G2) (sk : ZMod r) (sig data : Bytes) :
    verify C H pk sig data none = .error .nilHasher ∧ sign C H sk data none = .error .nilHasher ∧
    ∀ k : Hasher, k.size ≠ 128 →
      verify C H pk sig data (some k) = .error .hasherSize ∧ sign C H sk data (some k) = .error .hasherSize := by
  refine ⟨rfl, rfl, ?_⟩
  intro k hk
  simp [verify, sign, checkHasher, hk]

/-! ### tie: the guards of the code as it is now -/

theorem tie_guards (len size : Int) :
    Extracted.Guards.crypto_pubKeyBLSBLS12381_Verify_g1 len = decide (len ≠ 48) ∧
    Extracted.Guards.crypto_checkBLSHasher_g1 size = decide (size ≠ 128) ∧
    Extracted.Guards.crypto_checkBLSHasher_g0 true = true ∧
    Extracted.Guards.crypto_pubKeyBLSBLS12381_Verify_g2 true = true ∧
    Extracted.Consts.crypto_expandMsgOutput = 128 ∧ Extracted.Consts.crypto__Ciconst_MAP_TO_G1_INPUT_LEN = 128 ∧
    Extracted.Consts.crypto_SignatureLenBLSBLS12381 = 48 := by
  refine ⟨rfl, rfl, rfl, rfl, by decide, by decide, by decide⟩

/-! ### the `Codec` laws assumed above hold for the executable model of `E1_read_bytes` / `E1_write_bytes` -/

/-- the three laws of the structure `Codec` (`dec_enc`, `enc_dec`, `len`), proved for `Model.Bls.readE1` /
    `Model.Bls.writeE1` on the reduced points of the curve (the model the correspondence run compares with the
    C functions): they are theorems about the concrete byte format, not assumptions -/
theorem concrete_codec_laws :
    (∀ Q : Model.Bls.P1, Proofs.E1Codec.Valid Q → Model.Bls.readE1 (Model.Bls.writeE1 Q) = .ok Q) ∧
    (∀ (b : Model.Bytes) (Q : Model.Bls.P1), Model.Bls.readE1 b = .ok Q →
        Model.Bls.writeE1 Q = b ∧ Proofs.E1Codec.Valid Q) ∧
    (∀ (b : Model.Bytes) (Q : Model.Bls.P1), Model.Bls.readE1 b = .ok Q → b.length = 48) := by
  refine ⟨Proofs.E1Codec.e1_roundtrip, ?_, ?_⟩
  · intro b Q h
    exact ⟨Proofs.E1Codec.e1_canonical b Q h, Proofs.E1Codec.e1_accepts_valid b Q h⟩
  · intro b Q h
    unfold Model.Bls.readE1 at h
    split at h
    · cases h
    · omega

/-- **one encoding per signature point**: two byte strings that `E1_read_bytes` maps to the same point are the
    same byte string, so a valid signature has exactly one accepted encoding -/
theorem signature_encoding_unique (b b' : Model.Bytes) (Q : Model.Bls.P1)
    (h : Model.Bls.readE1 b = .ok Q) (h' : Model.Bls.readE1 b' = .ok Q) : b = b' :=
  Proofs.E1Codec.e1_unique_encoding b b' Q h h'

/-! ### non-vacuity: the hypotheses are satisfiable (toy instance: G1 = G2 = GT = ZMod 7, E1 = ZMod 7 × ZMod 3) -/

instance : Fact (Nat.Prime 7) := ⟨by norm_num⟩

def toy : PairingGroups 7 where
  E1 := ZMod 7 × ZMod 3
  G1 := ZMod 7
  G2 := ZMod 7
  GT := ZMod 7
  ι := AddMonoidHom.inl (ZMod 7) (ZMod 3)
  ι_inj := fun a b h => by simpa using congrArg Prod.fst h
  toG1 := fun x => if x.2 = 0 then some x.1 else none
  toG1_iff := by
    intro x s
    constructor
    · intro h
      split at h
      · next h2 => cases h; ext <;> simp [h2]
      · cases h
    · rintro rfl; simp
  e := LinearMap.mk₂ (ZMod 7) (fun a b => a * b) (by intros; ring) (by intros; simp; ring) (by intros; ring)
    (by intros; simp; ring)
  g2 := 1
  nondeg_g2 := by intro a h; simpa using h

example : toy.g2 ≠ 0 := by show (1 : ZMod 7) ≠ 0; decide
/-- in the toy instance there is a point outside the subgroup: `(s, 1)` -/
example : toy.toG1 ((3 : ZMod 7), (1 : ZMod 3)) = none := by
  show (if (1 : ZMod 3) = 0 then some (3 : ZMod 7) else none) = none
  decide

/-! ### the concrete hash-to-curve the driver runs (`Model/HashToCurve.lean`)

The acceptance theorems above hold for *every* hash-to-curve function `H : Bytes → G1`. The model also carries the
one the library uses - KMAC128 expand-message, two field elements, simplified SWU to the 11-isogenous curve, isogeny,
cofactor clearing - written from RFC 9380, so that `Sign` is predicted from `(sk, tag, message)` alone and compared
with the implementation on every run (`sign-from-message`, `pop-gen-from-key`, `map-to-g1`). The facts below are
kernel evaluations on samples (tests, labelled as tests): they guard the generated isogeny constants. -/

open Model Model.H2C in
/-- the SWU images of sample field elements, including the exceptional case `u = 0`, lie on E1' -/
example : Curve.onCurve E1' (sswu 0) = true ∧ Curve.onCurve E1' (sswu 1) = true ∧
    Curve.onCurve E1' (sswu (Bls.p - 1)) = true ∧ Curve.onCurve E1' (sswu 0x1234567890abcdef) = true := by decide +kernel

open Model Model.H2C in
/-- the 11-isogeny (constants regenerated from blst's source by `tools/gen_iso.py`) sends a point of E1' to a point of E1 -/
example : Curve.onCurve Bls.E1 (iso (sswu 5)) = true ∧ (iso (sswu 5)).isSome = true := by decide +kernel

open Model Model.H2C in
/-- `map_to_G1` of 128 bytes whose two halves exceed `p` is a point of the prime-order subgroup G1 -/
example : Bls.inG1 (mapToG1 (List.replicate 128 0xff)) = true ∧ (mapToG1 (List.replicate 128 0xff)).isSome = true := by
  decide +kernel

open Model Model.H2C in
/-- `Sign` from the message is `sk • H(m)` compressed, with `H = mapToG1 ∘ expand` (definitional) -/
theorem sign_from_message (suite : Model.Bytes) (sk : Nat) (tag msg : Model.Bytes) :
    H2C.sign suite sk tag msg = Bls.signPoint sk (mapToG1 (expand suite tag msg)) := rfl

end Props.C01

#print axioms Props.C01.verify_iff
#print axioms Props.C01.verify_total
#print axioms Props.C01.sign_verifies
#print axioms Props.C01.other_message_rejected
#print axioms Props.C01.other_key_rejected
#print axioms Props.C01.outside_subgroup_rejected
#print axioms Props.C01.malformed_rejected
#print axioms Props.C01.identity_signature_rejected
#print axioms Props.C01.identity_key_rejects_all
#print axioms Props.C01.hasher_guard
#print axioms Props.C01.tie_guards
#print axioms Props.C01.concrete_codec_laws
#print axioms Props.C01.signature_encoding_unique
#print axioms verifyCore_iff
#print axioms pairingCheck_iff
#print axioms Props.C01.sign_from_message
