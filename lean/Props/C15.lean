import Model.Prg
import Proofs.Prg
import Proofs.Uniform
import Proofs.FisherYates
import Proofs.FisherYatesSurj

/-! # C15 — sampling helpers are in range, valid and exactly uniform in the PRG's bits

Theorems about the model of `random/rand.go` (`Model.Prg.uintN`, `permutation`, `subPermutation`,
`samples`, `shuffle`) for an arbitrary keystream block function. -/

namespace Props.C15
open Model Model.Prg

variable (blk : Nat → Bytes)

theorem uintNLoop_le (max size mask : Nat) : ∀ (fuel : Nat) (s s' : State) (v : Nat),
    uintNLoop blk max size mask fuel s = some (s', v) → v ≤ max := by
  intro fuel
  induction fuel with
  | zero => intro s s' v h; simp [uintNLoop] at h
  | succ k ih =>
    intro s s' v h
    simp only [uintNLoop] at h
    split at h
    · next hle => cases h; exact hle
    · exact ih _ _ _ h

/-- **`UintN(n)` lies in `[0, n)`** whenever it returns (every `n > 0`, every seed, every state). -/
theorem uintN_lt (fuel : Nat) (s s' : State) (n v : Nat) (h : uintN blk fuel s n = some (s', v)) :
    v < n := by
  unfold uintN at h
  split at h
  · cases h
  · next hn =>
    have := uintNLoop_le blk _ _ _ _ _ _ _ h
    omega

/-- `UintN(0)` is the documented panic: the model does not return -/
theorem uintN_zero (fuel : Nat) (s : State) : uintN blk fuel s 0 = none := by simp [uintN]

/-- the swaps applied by `Samples(n, m)` are `(i, i + j)` with `i < m`, `i + j < n`, in order of `i` -/
theorem samplesLoop_swaps (fuel n : Nat) : ∀ (k i : Nat) (s s' : State) (sw : List (Nat × Nat)),
    i + k ≤ n → samplesLoop blk fuel n k i s = some (s', sw) →
    sw.length = k ∧ ∀ idx (h : idx < sw.length), (sw[idx]).1 = i + idx ∧ (sw[idx]).1 ≤ (sw[idx]).2 ∧ (sw[idx]).2 < n := by
  intro k
  induction k with
  | zero =>
    intro i s s' sw _ h
    simp only [samplesLoop] at h
    cases h
    simp
  | succ k ih =>
    intro i s s' sw hik h
    simp only [samplesLoop] at h
    split at h
    · cases h
    · next s1 j hu =>
      split at h
      · cases h
      · rename_i s2 sw2 hrec
        have hj := uintN_lt blk _ _ _ _ _ hu
        obtain ⟨hl, hall⟩ := ih (i + 1) s1 s2 sw2 (by omega) hrec
        cases h
        refine ⟨by simp [hl], ?_⟩
        intro idx hidx
        cases idx with
        | zero => simp; omega
        | succ idx =>
          simp only [List.getElem_cons_succ]
          have := hall idx (by simpa using hidx)
          omega

theorem samples_swaps (fuel : Nat) (s s' : State) (n m : Int) (sw : List (Nat × Nat))
    (h : samples blk fuel s n m = (s', .ok sw)) :
    0 ≤ m ∧ m ≤ n ∧ sw.length = m.toNat ∧
    ∀ idx (h : idx < sw.length), (sw[idx]).1 = idx ∧ (sw[idx]).1 ≤ (sw[idx]).2 ∧ (sw[idx]).2 < n.toNat := by
  unfold samples at h
  split at h; · cases h
  split at h; · cases h
  split at h
  · next s2 sw2 hrec =>
    cases h
    have := samplesLoop_swaps blk fuel n.toNat m.toNat 0 s s' sw (by omega) hrec
    refine ⟨by omega, by omega, this.1, ?_⟩
    intro idx hidx
    have := this.2 idx hidx
    omega
  · cases h


/-- one inside-out Fisher–Yates step keeps "the first `i` entries are a rearrangement of `0..i-1`" -/
theorem step_count (items : List Nat) (i j : Nat) (hi : i < items.length) (hj : j ≤ i)
    (h : ∀ a, List.count a (items.take i) = List.count a (List.range i)) :
    ∀ a, List.count a ((setAt (setAt items i (items.getD j 0)) j i).take (i + 1))
      = List.count a (List.range (i + 1)) := by
  intro a
  have hjl : j < items.length := by omega
  have hx : items.getD j 0 = items[j] := by simp [List.getD, hjl]
  unfold setAt
  rw [hx, List.take_set, List.take_set, List.take_succ_eq_append_getElem hi, List.range_succ]
  rw [List.count_set (by simp; omega), List.count_set (by simp; omega)]
  simp only [List.count_append, h a, List.count_singleton]
  have h1 : (List.take i items ++ [items[i]])[i]'(by simp; omega) = items[i] := by
    simp
  rw [h1]
  have h2 : ((List.take i items ++ [items[i]]).set i items[j])[j]'(by simp; omega) = items[j] := by
    by_cases hji : j = i
    · subst hji; simp
    · rw [List.getElem_set_ne (by omega)]
      rw [List.getElem_append_left (by simp; omega)]
      simp
  rw [h2]
  simp only [beq_iff_eq]
  split <;> split <;> split <;> omega

theorem permLoop_perm (fuel : Nat) : ∀ (k i : Nat) (s s' : State) (items out : List Nat),
    i + k = items.length →
    (∀ a, List.count a (items.take i) = List.count a (List.range i)) →
    permLoop blk fuel k i s items = some (s', out) →
    out.length = items.length ∧ ∀ a, List.count a out = List.count a (List.range items.length) := by
  intro k
  induction k with
  | zero =>
    intro i s s' items out hik hinv h
    simp only [permLoop] at h
    cases h
    refine ⟨rfl, ?_⟩
    intro a
    have := hinv a
    rw [List.take_of_length_le (by omega)] at this
    rw [this]; congr 2
  | succ k ih =>
    intro i s s' items out hik hinv h
    simp only [permLoop] at h
    split at h
    · cases h
    · rename_i s1 j hu
      have hj := uintN_lt blk _ _ _ _ _ hu
      have hstep := step_count items i j (by omega) (by omega) hinv
      have := ih (i + 1) s1 s' _ out (by simp [setAt]; omega) hstep h
      simpa [setAt] using this

/-- **`Permutation(n)` is a permutation of `0..n-1`** for every `n ≥ 0` and every generator state. -/
theorem permutation_perm (fuel : Nat) (s s' : State) (n : Int) (out : List Nat)
    (h : permutation blk fuel s n = (s', .ok out)) :
    0 ≤ n ∧ out.Perm (List.range n.toNat) := by
  unfold permutation at h
  split at h; · cases h
  split at h
  · rename_i s2 items hrec
    cases h
    have := permLoop_perm blk fuel n.toNat 0 s s' (List.replicate n.toNat 0) out (by simp) (by simp) hrec
    refine ⟨by omega, ?_⟩
    rw [List.perm_iff_count]
    simpa using this.2
  · cases h

/-- `SubPermutation(n, m)`: the first `m` entries of a permutation of `0..n-1` (hence distinct, in range) -/
theorem subPermutation_prefix (fuel : Nat) (s s' : State) (n m : Int) (out : List Nat)
    (h : subPermutation blk fuel s n m = (s', .ok out)) :
    0 ≤ m ∧ m ≤ n ∧ ∃ full : List Nat, full.Perm (List.range n.toNat) ∧ out = full.take m.toNat := by
  unfold subPermutation at h
  split at h; · cases h
  split at h; · cases h
  split at h
  · rename_i s2 items hp
    cases h
    exact ⟨by omega, by omega, items, (permutation_perm blk fuel s s' n items hp).2, rfl⟩
  · rename_i s2 r hne hp
    cases r <;> simp_all


/-! ### exact uniformity

`UintN(n)` repeats *attempts*; an attempt reads `size` fresh bytes, forms a candidate and accepts it when it is
`≤ n-1`. (a) the candidate is the number of the fresh bytes modulo `2^k` (`k` the bit length of `n-1`,
`k ≤ 8·size`): the stale bytes of the scratch buffer never matter; (b) over the `256^size` equally likely byte
strings every candidate value `< 2^k` occurs exactly `2^(8·size-k)` times - in particular every value `< n`
equally often; (c) the function returns the candidate of the first accepted attempt. Hence every value of
`[0, n)` has exactly the same probability. -/

/-- (a) + parameters: mask and byte size computed by the code from `n` -/
theorem uintN_candidate (n : Nat) (hn : 0 < n) (h64 : n - 1 < 2 ^ 64) :
    ∃ k, maskOf 65 (n - 1) 0 = 2 ^ k - 1 ∧ n - 1 < 2 ^ k ∧ k ≤ 8 * byteSize 9 (n - 1) ∧
      ∀ bytes stale : Bytes, bytes.length = byteSize 9 (n - 1) →
        leNat (bytes ++ stale) &&& maskOf 65 (n - 1) 0 = attempt k (leNat bytes) := by
  obtain ⟨k, h1, h2, h3⟩ := uintN_params n hn h64
  refine ⟨k, h1, h2, h3, ?_⟩
  intro bytes stale hl
  rw [h1]
  exact candidate_eq bytes stale _ k hl h3

/-- (b) every value in range is produced by exactly the same number of source byte strings -/
theorem uintN_attempt_uniform (size k v v' : ℕ) (hk : k ≤ 8 * size) (hv : v < 2 ^ k) (hv' : v' < 2 ^ k) :
    ((Finset.range (256 ^ size)).filter (fun x => attempt k x = v)).card = 2 ^ (8 * size - k) ∧
    ((Finset.range (256 ^ size)).filter (fun x => attempt k x = v)).card =
      ((Finset.range (256 ^ size)).filter (fun x => attempt k x = v')).card :=
  ⟨attempt_uniform size k v hk hv, attempt_equiprobable size k v v' hk hv hv'⟩

/-- one attempt of the loop: the new state and the candidate -/
def cand (max size mask : Nat) (s : State) : State × Nat :=
  let r := read blk s size
  let ubuf := r.2 ++ r.1.ubuf.drop size
  ({ r.1 with ubuf := ubuf }, leNat ubuf &&& mask)

/-- "the loop returns the candidate of the first accepted attempt" -/
inductive FirstAccept (max size mask : Nat) : State → State → Nat → Prop
  | hit (s) : (cand blk max size mask s).2 ≤ max →
      FirstAccept max size mask s (cand blk max size mask s).1 (cand blk max size mask s).2
  | miss (s s' v) : ¬ (cand blk max size mask s).2 ≤ max →
      FirstAccept max size mask (cand blk max size mask s).1 s' v → FirstAccept max size mask s s' v

/-- (c) -/
theorem uintNLoop_first_accept (max size mask : Nat) : ∀ (fuel : Nat) (s s' : State) (v : Nat),
    uintNLoop blk max size mask fuel s = some (s', v) → FirstAccept blk max size mask s s' v := by
  intro fuel
  induction fuel with
  | zero => intro s s' v h; simp [uintNLoop] at h
  | succ f ih =>
    intro s s' v h
    simp only [uintNLoop] at h
    split at h
    · next hle =>
      cases h
      exact FirstAccept.hit s hle
    · next hgt =>
      exact FirstAccept.miss s s' v hgt (ih _ _ _ h)

/-! ### equal likelihood of the outcomes: Fisher–Yates is injective in its choices -/

open Proofs.FisherYates in
/-- the loop of `Permutation` is the pure inside-out Fisher–Yates `run` on the vector of its successive draws
    `j_i = UintN(i+1)`, each `≤ i` -/
theorem permLoop_run (fuel : Nat) : ∀ (k i : Nat) (s s' : State) (items out : List Nat),
    permLoop blk fuel k i s items = some (s', out) →
    ∃ js : List Nat, js.length = k ∧ Valid js i ∧ out = run js i items := by
  intro k
  induction k with
  | zero =>
    intro i s s' items out h
    simp only [permLoop] at h
    cases h
    exact ⟨[], rfl, trivial, rfl⟩
  | succ k ih =>
    intro i s s' items out h
    simp only [permLoop] at h
    split at h
    · cases h
    · rename_i s1 j hu
      have hj := uintN_lt blk _ _ _ _ _ hu
      obtain ⟨js, hl, hv, ho⟩ := ih (i + 1) s1 s' _ out h
      exact ⟨j :: js, by simp [hl], ⟨by omega, hv⟩, by rw [ho]; rfl⟩

open Proofs.FisherYates in
/-- `Permutation(n)` returns `run js 0 [0,…,0]` for the vector `js` of its `n` draws -/
theorem permutation_run (fuel : Nat) (s s' : State) (n : Int) (out : List Nat)
    (h : permutation blk fuel s n = (s', .ok out)) :
    ∃ js : List Nat, js.length = n.toNat ∧ Valid js 0 ∧ out = run js 0 (List.replicate n.toNat 0) := by
  unfold permutation at h
  split at h; · cases h
  split at h
  · rename_i s2 items hrec
    cases h
    exact permLoop_run blk fuel n.toNat 0 s s' _ out hrec
  · cases h

open Proofs.FisherYates in
/-- **distinct choice vectors give distinct permutations**: the map from the `n!` valid choice vectors
    (`j_i ≤ i`) to the permutations of `0..n-1` is injective, hence (equal finite cardinalities, `permutation_perm`)
    a bijection: if the draws are uniform and independent, every permutation has probability `1/n!` -/
theorem permutation_choices_injective (n : Nat) (js js' : List Nat) (hl : js.length = n) (hl' : js'.length = n)
    (hv : Valid js 0) (hv' : Valid js' 0)
    (h : run js 0 (List.replicate n 0) = run js' 0 (List.replicate n 0)) : js = js' :=
  (run_inj n js js' 0 _ _ (by omega) hv hv' (by omega) (inv_init n) (inv_init n) h).1

open Proofs.FisherYates in
/-- **every permutation is the outcome of exactly one choice vector**: for every arrangement `p` of `0..n-1` there is
    one and only one vector of draws `j_0 ≤ 0, j_1 ≤ 1, …, j_{n-1} ≤ n-1` on which the loop of `Permutation` returns
    `p` (`Proofs/FisherYatesSurj.lean`: the last step can be undone - the position of the value `i` is the draw - and
    the state before it still satisfies the loop invariant). The `n!` outcomes are therefore in one-to-one
    correspondence with the `n!` draw vectors; with each draw `UintN(i+1)` uniform in the bytes it consumes
    (`uintN_attempt_uniform`, `uintNLoop_first_accept`) and consuming bytes of its own, all outcomes are equally likely -/
theorem permutation_every_outcome_once (n : Nat) (p : List Nat) (hp : p.Perm (List.range n)) :
    ∃ js, (js.length = n ∧ Valid js 0 ∧ run js 0 (List.replicate n 0) = p) ∧
      ∀ js', js'.length = n → Valid js' 0 → run js' 0 (List.replicate n 0) = p → js' = js :=
  permutation_bijective n p hp

open Proofs.FisherYates in
/-- non-vacuity: the arrangement `[2, 0, 3, 1]` is reached (by the draws `0, 0, 0, 2`) -/
example : run [0, 0, 0, 2] 0 (List.replicate 4 0) = [2, 0, 3, 1] ∧ Valid [0, 0, 0, 2] 0 := by
  refine ⟨by decide, ?_⟩
  simp [Valid]

open Proofs.FisherYates in
/-- the loop of `Samples` reports the swaps `(i, i + j_i)` of a valid choice vector, in order -/
theorem samplesLoop_choices (fuel n : Nat) : ∀ (k i : Nat) (s s' : State) (sw : List (Nat × Nat)),
    i + k ≤ n → samplesLoop blk fuel n k i s = some (s', sw) →
    ∃ js : List Nat, js.length = k ∧ SValid n js i ∧
      sw = (List.range k).map (fun d => (i + d, i + d + js.getD d 0)) := by
  intro k
  induction k with
  | zero =>
    intro i s s' sw _ h
    simp only [samplesLoop] at h
    cases h
    exact ⟨[], rfl, trivial, rfl⟩
  | succ k ih =>
    intro i s s' sw hik h
    simp only [samplesLoop] at h
    split at h
    · cases h
    · rename_i s1 j hu
      split at h
      · cases h
      · rename_i s2 sw2 hrec
        have hj := uintN_lt blk _ _ _ _ _ hu
        obtain ⟨js, hl, hv, ho⟩ := ih (i + 1) s1 s2 sw2 (by omega) hrec
        cases h
        refine ⟨j :: js, by simp [hl], ⟨by omega, hv⟩, ?_⟩
        rw [List.range_succ_eq_map, List.map_cons, List.map_map, ho]
        congr 1
        apply List.map_congr_left
        intro d _
        simp only [Function.comp, List.getD_cons_succ]
        congr 1 <;> omega

open Proofs.FisherYates in
/-- **distinct choice vectors give distinct samples**: applied to any array of `n` distinct elements, two valid
    choice vectors of `Samples(n, m)` / `Shuffle(n)` that produce the same first `m` positions are equal; so the
    `n!/(n-m)!` choice vectors give pairwise different ordered samples -/
theorem samples_choices_injective (n : Nat) (js js' : List Nat) (l : List Nat) (hlen : js.length = js'.length)
    (hl : l.length = n) (hn : l.Nodup) (hv : SValid n js 0) (hv' : SValid n js' 0)
    (h : ∀ k (h1 : k < (swaps js 0 l).length) (h2 : k < (swaps js' 0 l).length), k < js.length →
      (swaps js 0 l)[k] = (swaps js' 0 l)[k]) : js = js' :=
  swaps_inj n js js' 0 l hlen hl hn hv hv' (fun k h1 h2 _ hk => h k h1 h2 (by omega))

/-- negative or inconsistent sizes are errors and leave the generator untouched -/
theorem samples_errors (fuel : Nat) (s : State) (n m : Int) (h : m < 0 ∨ n < m) :
    samples blk fuel s n m = (s, .err) := by
  unfold samples
  rcases h with h | h
  · simp [h]
  · by_cases hm : m < 0 <;> simp [hm, h]

theorem shuffle_errors (fuel : Nat) (s : State) (n : Int) (h : n < 0) :
    shuffle blk fuel s n = (s, .err) := by simp [shuffle, h]

theorem permutation_errors (fuel : Nat) (s : State) (n : Int) (h : n < 0) :
    permutation blk fuel s n = (s, .err) := by simp [permutation, h]

theorem subPermutation_errors (fuel : Nat) (s : State) (n m : Int) (h : m < 0 ∨ n < m) :
    subPermutation blk fuel s n m = (s, .err) := by
  unfold subPermutation
  rcases h with h | h
  · simp [h]
  · by_cases hm : m < 0 <;> simp [hm, h]

end Props.C15

#print axioms Props.C15.uintN_lt
#print axioms Props.C15.uintN_zero
#print axioms Props.C15.samplesLoop_swaps
#print axioms Props.C15.samples_swaps
#print axioms Props.C15.samples_errors
#print axioms Props.C15.shuffle_errors
#print axioms Props.C15.permutation_errors
#print axioms Props.C15.subPermutation_errors
#print axioms Props.C15.step_count
#print axioms Props.C15.permLoop_perm
#print axioms Props.C15.permutation_perm
#print axioms Props.C15.subPermutation_prefix
#print axioms Props.C15.uintN_candidate
#print axioms Props.C15.uintN_attempt_uniform
#print axioms Props.C15.uintNLoop_first_accept
#print axioms Props.C15.permLoop_run
#print axioms Props.C15.permutation_run
#print axioms Props.C15.permutation_choices_injective
#print axioms Props.C15.samplesLoop_choices
#print axioms Props.C15.samples_choices_injective
#print axioms Props.C15.permutation_every_outcome_once
