import Proofs.CurveInst

/-! # C12 (executable model) — the ECDSA public key of the model is the private scalar times the generator, in the group
of the curve as Mathlib defines it (P-256 and secp256k1) -/

namespace Props.C12Model
open Model Model.Curve Proofs.CurveGroup Proofs.CurveInst

/-- P-256: `publicKeyOf d` is `d • G` in the group of points of the curve over `ZMod p`, and a canonical point of it -/
theorem p256_public_key_is_scalar_mul (d : ℕ) (hd : d < 2 ^ 800) :
    Valid Ecdsa.p256P p256a p256b (Ecdsa.publicKeyOf Ecdsa.p256 d) ∧
      toPoint Ecdsa.p256P p256a p256b (Ecdsa.publicKeyOf Ecdsa.p256 d) = d • toPoint Ecdsa.p256P p256a p256b Ecdsa.p256.g :=
  mul_eq Ecdsa.p256P p256a p256b p256_Δ p256_two p256_bits d hd Ecdsa.p256.g p256_g_valid

/-- secp256k1: the same -/
theorem k256_public_key_is_scalar_mul (d : ℕ) (hd : d < 2 ^ 800) :
    Valid Ecdsa.k256P 0 7 (Ecdsa.publicKeyOf Ecdsa.k256 d) ∧
      toPoint Ecdsa.k256P 0 7 (Ecdsa.publicKeyOf Ecdsa.k256 d) = d • toPoint Ecdsa.k256P 0 7 Ecdsa.k256.g :=
  mul_eq Ecdsa.k256P 0 7 k256_Δ k256_two k256_bits d hd Ecdsa.k256.g k256_g_valid

/-- public keys of private keys that differ by a multiple of the order of the generator coincide; in particular the
    key derivation's reduction into `[1, n-1]` loses nothing: stated for any `n` with `n • G = 0` in the model -/
theorem k256_public_key_mod (d n : ℕ) (hd : d < 2 ^ 800) (hn : Curve.mul Ecdsa.k256.C n Ecdsa.k256.g = none)
    (hn8 : n < 2 ^ 800) (hn0 : 0 < n) :
    Ecdsa.publicKeyOf Ecdsa.k256 (d % n) = Ecdsa.publicKeyOf Ecdsa.k256 d := by
  have m1 := k256_public_key_is_scalar_mul d hd
  have m2 := k256_public_key_is_scalar_mul (d % n) (lt_trans (Nat.mod_lt _ hn0) hn8)
  have mn := mul_eq Ecdsa.k256P 0 7 k256_Δ k256_two k256_bits n hn8 Ecdsa.k256.g k256_g_valid
  have e0 : n • toPoint Ecdsa.k256P 0 7 Ecdsa.k256.g = 0 := by
    rw [← mn.2, ← k256_C, hn]; rfl
  apply toPoint_inj Ecdsa.k256P 0 7 k256_Δ _ _ m2.1 m1.1
  rw [m2.2, m1.2]
  conv_rhs => rw [← Nat.mod_add_div' d n, add_smul, mul_smul, e0, nsmul_zero, add_zero]

end Props.C12Model

#print axioms Props.C12Model.p256_public_key_is_scalar_mul
#print axioms Props.C12Model.k256_public_key_is_scalar_mul
#print axioms Props.C12Model.k256_public_key_mod
