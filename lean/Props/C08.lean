import Model.Dkg
import Proofs.DkgFlags
import Proofs.DkgOnce
import Proofs.DkgHonest
import Proofs.DkgBlame
import Proofs.DkgJointAgree
import Proofs.DkgDealerBlame

/-! # C08 — DKG qualification is fair: honest never blamed, bad dealing never accepted

Theorems over the state-machine models (every crypto-operations record, every state, every message). -/

namespace Props.C08
open Model Model.Dkg

variable {O : Ops}

/-! ### who can be blamed: only the sender of the message being handled, or the dealer -/

def blameOK (allowed : List Nat) : Out → Bool
  | .disq i => allowed.contains i
  | .flag i => allowed.contains i
  | _ => true

/-- every Disqualify / FlagMisbehavior callback in `outs` targets a participant of `allowed` -/
def BlameIn (allowed : List Nat) (outs : List Out) : Prop := outs.all (blameOK allowed) = true

theorem BlameIn.append {a : List Nat} {o1 o2 : List Out} (h1 : BlameIn a o1) (h2 : BlameIn a o2) :
    BlameIn a (o1 ++ o2) := by
  unfold BlameIn at *; simp [List.all_append, h1, h2]

theorem buildComplaint_blame (s : St O) (o : Nat) : BlameIn [o, s.dealer] (FvssQ.buildComplaint s).2 := by
  unfold FvssQ.buildComplaint St.setC
  repeat' (first | split | (simp only []; split))
  all_goals simp [BlameIn, blameOK]

theorem receiveShare_blame (s : St O) (o : Nat) (d : Bytes) :
    BlameIn [o, s.dealer] (FvssQ.receiveShare s o d).2 := by
  have hb : ∀ t : St O, t.dealer = s.dealer → BlameIn [o, s.dealer] (FvssQ.buildComplaint t).2 := by
    intro t ht; rw [← ht]; exact buildComplaint_blame t o
  unfold FvssQ.receiveShare FvssQ.badShare
  repeat' (first | split | (simp only []; split))
  all_goals first
    | (simp [BlameIn, blameOK]; done)
    | exact hb _ rfl
    | exact BlameIn.append (hb _ rfl) (by simp [BlameIn, blameOK])

theorem receiveVerifVector_blame (s : St O) (o : Nat) (d : Bytes) :
    BlameIn [o, s.dealer] (FvssQ.receiveVerifVector s o d).2 := by
  have hb : ∀ t : St O, t.dealer = s.dealer → BlameIn [o, s.dealer] (FvssQ.buildComplaint t).2 := by
    intro t ht; rw [← ht]; exact buildComplaint_blame t o
  unfold FvssQ.receiveVerifVector
  repeat' (first | split | (simp only []; split))
  all_goals first
    | (simp [BlameIn, blameOK]; done)
    | exact hb _ rfl

theorem receiveComplaint_blame (s : St O) (o : Nat) (d : Bytes) :
    BlameIn [o, s.dealer] (FvssQ.receiveComplaint s o d).2 := by
  unfold FvssQ.receiveComplaint FvssQ.buildAnswer St.setC
  repeat' (first | split | (simp only []; split))
  all_goals (simp [BlameIn, blameOK])

theorem receiveComplaintAnswer_blame (s : St O) (o : Nat) (d : Bytes) :
    BlameIn [o, s.dealer] (FvssQ.receiveComplaintAnswer s o d).2 := by
  unfold FvssQ.receiveComplaintAnswer St.setC
  repeat' (first | split | (simp only []; split))
  all_goals (simp [BlameIn, blameOK])

/-- **whatever message arrives from `o`, an instance only ever blames `o` or its dealer** -/
theorem handlers_blame (s : St O) (o : Nat) (m : Bytes) :
    BlameIn [o, s.dealer] (FvssQ.bcastBody s o m).2 ∧ BlameIn [o, s.dealer] (FvssQ.privBody s o m).2 := by
  constructor
  · unfold FvssQ.bcastBody
    repeat' (first | split | (simp only []; split))
    all_goals first
      | (simp [BlameIn, blameOK]; done)
      | exact receiveVerifVector_blame s o _
      | exact receiveComplaint_blame s o _
      | exact receiveComplaintAnswer_blame s o _
  · unfold FvssQ.privBody
    repeat' (first | split | (simp only []; split))
    all_goals first
      | (simp [BlameIn, blameOK]; done)
      | exact receiveShare_blame s o _

/-- the timeouts and End only ever blame the dealer -/
theorem timeouts_blame (s : St O) :
    BlameIn [s.dealer, s.dealer] (FvssQ.timeoutBody s).2 ∧ BlameIn [s.dealer, s.dealer] (FvssQ.settle s).2 := by
  constructor
  · unfold FvssQ.timeoutBody FvssQ.setSharesTimeout FvssQ.setComplaintsTimeout
    repeat' (first | split | (simp only []; split))
    all_goals first
      | (simp [BlameIn, blameOK]; done)
      | exact buildComplaint_blame (O := O) { s with sharesTimeout := true } s.dealer
  · unfold FvssQ.settle
    split <;> simp [BlameIn, blameOK]

/-! ### once disqualified, always disqualified -/

theorem disq_monotone (s : St O) (o : Nat) (m : Bytes) (h : s.disqualified = true) :
    (FvssQ.bcastBody s o m).1 = s ∧ (FvssQ.privBody s o m).1 = s ∧
    (FvssQ.timeoutBody s).1.disqualified = true ∧ (FvssQ.settle s).1.disqualified = true := by
  refine ⟨?_, ?_, ?_, ?_⟩
  · unfold FvssQ.bcastBody; split; · rfl
    simp [h]
  · unfold FvssQ.privBody; split; · rfl
    simp [h]
  · unfold FvssQ.timeoutBody; simp only [h, ↓reduceIte]; split <;> rfl
  · unfold FvssQ.settle; simp [h]

/-- a disqualified dealer is never accepted: End fails -/
theorem disqualified_end_fails (s : St O) (h : s.disqualified = true) : (FvssQ.endBody s).2.2 = .failure := by
  unfold FvssQ.endBody FvssQ.settle
  simp [h]

/-- a dealer that leaves a registered complaint unanswered is disqualified at End -/
theorem unanswered_complaint_fails (s : St O)
    (h : s.complaints.any (fun kc => kc.2.received && !kc.2.answerReceived) = true) :
    (FvssQ.endBody s).2.2 = .failure := by
  unfold FvssQ.endBody FvssQ.settle
  by_cases hd : s.disqualified = true
  · simp [hd]
  · simp [hd, h]

/-- more than `t` complaint entries at the second timeout disqualify the dealer -/
theorem too_many_complaints_disqualify (s : St O) (h1 : s.disqualified = false) (h2 : s.sharesTimeout = true)
    (h : s.complaints.length > s.threshold) : (FvssQ.timeoutBody s).1.disqualified = true := by
  unfold FvssQ.timeoutBody FvssQ.setComplaintsTimeout
  simp [h1, h2, h]

/-- a missing verification vector at the first timeout disqualifies the dealer -/
theorem missing_vector_disqualifies (s : St O) (h1 : s.disqualified = false) (h2 : s.sharesTimeout = false)
    (h : s.vAReceived = false) : (FvssQ.timeoutBody s).1.disqualified = true := by
  unfold FvssQ.timeoutBody FvssQ.setSharesTimeout
  simp [h1, h2, h]

/-- a late verification vector or share is not processed (only flagged) -/
theorem late_messages_ignored (s : St O) (o : Nat) (d : Bytes) (h : s.sharesTimeout = true) (ho : o = s.dealer) :
    (FvssQ.receiveVerifVector s o d).1 = s ∧ (FvssQ.receiveShare s o d).1 = s := by
  unfold FvssQ.receiveVerifVector FvssQ.receiveShare
  simp [h, ho]

/-- a malformed verification vector (wrong size, or a point that is malformed / off-curve / outside G2)
    disqualifies the dealer at once -/
theorem malformed_vector_disqualifies (s : St O) (d : Bytes)
    (h1 : s.sharesTimeout = false) (h2 : s.vAReceived = false)
    (hbad : d.length ≠ verifVectorSize * (s.threshold + 1) ∨ O.readVec s.threshold s.size d = none) :
    (FvssQ.receiveVerifVector s s.dealer d).1.disqualified = true := by
  unfold FvssQ.receiveVerifVector
  simp only [ne_eq, not_true_eq_false, ↓reduceIte, h1, h2, Bool.false_eq_true]
  rcases hbad with h | h
  · simp [h]
  · by_cases hl : d.length ≠ verifVectorSize * (s.threshold + 1)
    · simp [hl]
    · simp [hl, h]

/-! ### plain Feldman VSS: keys only with a valid vector and a share that matches it -/

/-- invariant of a non-dealer Feldman VSS instance -/
def FvssInv (s : St O) : Prop :=
  s.validKey = true → s.vAReceived = true ∧ s.xReceived = true ∧ ∃ v, s.vA = some v ∧ O.checkLog v s.me s.x = true

theorem fvss_receiveShare_inv (s : St O) (o : Nat) (d : Bytes) (h : FvssInv s) :
    FvssInv (Fvss.receiveShare s o d).1 := by
  unfold Fvss.receiveShare
  by_cases h1 : o ≠ s.dealer
  · rw [if_pos h1]; exact h
  rw [if_neg h1]
  by_cases h2 : s.xReceived = true
  · rw [if_pos h2]; exact h
  rw [if_neg h2]
  simp only
  by_cases h3 : d.length = 0 ∨ d.headD 0 ≠ tagShare
  · rw [if_pos h3]; intro hv; simp at hv
  rw [if_neg h3]
  by_cases h4 : (d.drop 1).length ≠ shareSize
  · rw [if_pos h4]; intro hv; simp at hv
  rw [if_neg h4]
  cases hr : O.readScalar (d.drop 1) with
  | none => simp only; intro hv; simp at hv
  | some x =>
    simp only
    by_cases h5 : s.vAReceived = true ∧ s.vA.isSome = true
    · rw [if_pos h5]
      intro hv
      simp only at hv ⊢
      obtain ⟨h51, h52⟩ := h5
      cases hva : s.vA with
      | none => simp [hva] at h52
      | some v =>
        simp only [St.verifyShare, hva] at hv
        refine ⟨h51, ?_, v, ?_, hv⟩
        · trivial
        · first | exact hva | rfl
    · rw [if_neg h5]
      intro hv
      simp only at hv
      have := h hv
      exact absurd this.2.1 h2

theorem fvss_receiveVerifVector_inv (s : St O) (o : Nat) (d : Bytes) (h : FvssInv s) :
    FvssInv (Fvss.receiveVerifVector s o d).1 := by
  unfold Fvss.receiveVerifVector
  by_cases h1 : o ≠ s.dealer
  · rw [if_pos h1]; exact h
  rw [if_neg h1]
  by_cases h2 : s.vAReceived = true
  · rw [if_pos h2]; exact h
  rw [if_neg h2]
  by_cases h3 : verifVectorSize * (s.threshold + 1) ≠ d.length
  · rw [if_pos h3]; intro hv; simp at hv
  rw [if_neg h3]
  cases hr : O.readVec s.threshold s.size d with
  | none => simp only; intro hv; simp at hv
  | some v =>
    simp only
    by_cases h5 : s.xReceived = true
    · rw [if_pos h5]
      intro hv
      simp only [St.verifyShare] at hv
      exact ⟨rfl, h5, v, rfl, hv⟩
    · rw [if_neg h5]
      intro hv
      simp only at hv
      have := h hv
      exact absurd this.1 h2

/-- **plain Feldman VSS never returns keys unless a valid vector was received and the share matches it**:
    whenever `End` returns keys, the returned private share satisfies the share check against the stored
    vector and the returned public keys are those of that vector -/
theorem fvss_keys_sound (s : St O) (h : FvssInv s) (x : Nat) (Y : Bytes) (ys : List Bytes)
    (hk : (Fvss.end_ s).2.2 = .keys x Y ys) :
    ∃ v, s.vA = some v ∧ O.checkLog v s.me x = true ∧ Y = O.groupKey v ∧ ys = O.pubShares v ∧ x ≠ 0 := by
  unfold Fvss.end_ at hk
  split at hk
  · cases hk
  · simp only at hk
    unfold Fvss.endBody at hk
    split at hk; · cases hk
    rename_i hvk
    have hvk' : s.validKey = true := by simpa using hvk
    obtain ⟨_, _, v, hv, hc⟩ := h hvk'
    simp only [hv] at hk
    split at hk; · cases hk
    split at hk; · cases hk
    cases hk
    exact ⟨v, hv, hc, rfl, rfl, by assumption⟩

/-- the invariant holds initially and is preserved by every API call of a non-dealer instance -/
theorem fvss_inv_init (size t me dealer : Nat) :
    FvssInv ({ size := size, threshold := t, me := me, dealer := dealer } : St O) := by
  intro h; cases h

theorem fvss_step_inv (s : St O) (hnd : s.dealer ≠ s.me) (h : FvssInv s) (orig : Int) (m seed : Bytes) :
    FvssInv (Fvss.handleBroadcast s orig m).1 ∧ FvssInv (Fvss.handlePrivate s orig m).1 ∧
    FvssInv (Fvss.forceDisqualify s orig).1 ∧ FvssInv (Fvss.end_ s).1 ∧ FvssInv (start s seed).1 := by
  refine ⟨?_, ?_, ?_, ?_, ?_⟩
  · unfold Fvss.handleBroadcast Fvss.bcastBody
    repeat' (first | split | (simp only []; split))
    all_goals first
      | exact h
      | exact fvss_receiveVerifVector_inv s _ _ h
  · unfold Fvss.handlePrivate Fvss.privBody
    repeat' (first | split | (simp only []; split))
    all_goals first
      | exact h
      | exact fvss_receiveShare_inv s _ _ h
  · unfold Fvss.forceDisqualify
    repeat' (first | split | (simp only []; split))
    all_goals first
      | exact h
      | (intro hv; simp at hv)
  · unfold Fvss.end_
    split
    · exact h
    · exact h
  · unfold start startBody
    simp only [hnd, ↓reduceIte]
    split
    · exact h
    · exact h

/-! ### an honest participant is never flagged for a second complaint; delivery order never matters -/

open Proofs.DkgCommute in
/-- **an honest participant broadcasts its complaint at most once**, whatever it receives, in whatever order,
    across deliveries and timeouts (a second complaint makes every other honest participant flag it: the defect
    class F9) -/
theorem own_complaint_at_most_once (s : St O) (hme : s.me ≠ s.dealer) (evs : List Ev) :
    cnt (outputs s evs) ≤ 1 := (complaint_at_most_once s hme evs).1

open Proofs.DkgCommute in
/-- **share and verification vector in either order** (exactly the same state, or disqualified in both) -/
theorem share_vector_any_order (s : St O) (hme : s.me ≠ s.dealer) (hn : KeysNodup s) (vec sh : Bytes) :
    Rel (FvssQ.privBody (FvssQ.bcastBody s s.dealer (tagVerifVec :: vec)).1 s.dealer sh).1
        (FvssQ.bcastBody (FvssQ.privBody s s.dealer sh).1 s.dealer (tagVerifVec :: vec)).1 :=
  share_vector_commute s hme hn vec sh

open Proofs.DkgCommute in
/-- **a complaint and the dealer's answer to it in either order** (the defect class F10: an answer that arrives
    before the complaint is kept and checked) -/
theorem complaint_answer_any_order (s : St O) (k : Nat) (sc : Option Nat) (hk : k ≠ s.me)
    (hdq : s.disqualified = false) (hwf : EntriesWF s) :
    RelP (if (rcOk s k).disqualified then rcOk s k else raOk (rcOk s k) k sc)
         (if (raOk s k sc).disqualified then raOk s k sc else rcOk (raOk s k sc) k) :=
  complaint_answer_same s k sc hk hdq hwf

/-! ### an honest dealer is never disqualified -/

open Proofs.DkgCommute in
/-- **no honest dealer is ever disqualified, whatever the other participants do**: at a receiver whose share matches
    the dealer's vector, for every list of deliveries per round and every order, as long as every delivery is one
    an honest dealer or an arbitrary (Byzantine) other participant can cause — the dealer sends nothing but its
    vector, the receiver's share and valid answers; the others send anything — the vector and the share arrive in
    the first round, at most `t` participants ever complain or are answered, and each of them is answered before
    `End`: then `End` returns the receiver's share and the keys of the dealer's polynomial -/
theorem honest_dealer_never_disqualified (H : Honest O) (K : Finset Nat) (s0 : St O) (h0 : HD H s0)
    (hst0 : s0.sharesTimeout = false) (hct0 : s0.complaintsTimeout = false) (hK : K.card ≤ s0.threshold)
    (hk0 : keysIn K s0) (hx0 : H.x0 ≠ 0) (hid : O.groupKeyIsIdentity H.v0 = false) (r1 r2 r3 : List Dl)
    (ok1 : RoundOK' H K s0 false r1) (ok2 : RoundOK' H K s0 false r2) (ok3 : RoundOK' H K s0 true r3)
    (hvec : ∃ e ∈ r1, ∃ d, ∀ t, CfgCT s0 false t → classify t e = .vec d)
    (hshare : ∃ e ∈ r1, ∃ d, ∀ t, CfgCT s0 false t → classify t e = .share d)
    (hans : ∀ k ∈ K, ∃ a, (∃ e ∈ r1, ∀ t, CfgCT s0 false t → classify t e = .ans k (some a)) ∨
      (∃ e ∈ r2, ∀ t, CfgCT s0 false t → classify t e = .ans k (some a)) ∨
      (∃ e ∈ r3, ∀ t, CfgCT s0 true t → classify t e = .ans k (some a))) :
    exec s0 r1 r2 r3 = .keys H.x0 (O.groupKey H.v0) (O.pubShares H.v0) :=
  honest_dealer_keys H K s0 h0 hst0 hct0 hK hk0 hx0 hid r1 r2 r3 ok1 ok2 ok3 hvec hshare hans

open Proofs.DkgCommute in
/-- the state right after `Start` satisfies the hypotheses on the state -/
theorem honest_dealer_init (H : Honest O) (size threshold dealer : Nat) (hne : H.me ≠ dealer) (K : Finset Nat) :
    HD H ({ size := size, threshold := threshold, me := H.me, dealer := dealer, running := true } : St O) ∧
    keysIn K ({ size := size, threshold := threshold, me := H.me, dealer := dealer, running := true } : St O) :=
  ⟨hd_init H size threshold dealer hne, fun k c hc => by cases hc⟩

/-! ### no honest participant is blamed by another honest participant (network level) -/

open Proofs.DkgCommute Proofs.DkgAgree in
/-- **honest never blamed**: in an execution of Feldman-VSS-Qual, no `Disqualify` / `FlagMisbehavior` callback of
    the honest participant `mb` (during the three rounds, at the two timeouts, at `End`) targets the honest
    participant `ma`, for every behaviour of the dealer and of the other participants, every private message and
    every delivery order at `ma` and at `mb`; the only assumption is that what `mb` receives from `ma` by broadcast
    in each round is what `ma`'s state machine broadcast in that round (reliable broadcast, round synchrony) -/
theorem honest_never_blamed_by_honest (size threshold dealer ma mb : Nat) (hmad : ma ≠ dealer) (hmbd : mb ≠ dealer)
    (hab : ma ≠ mb) (ra1 ra2 ra3 rb1 rb2 rb3 : List Dl)
    (n1 : stream rb1 (ma, false) = (bR1 (fresh O size threshold ma dealer) ra1).map (Dl.bcast ma))
    (n2 : stream rb2 (ma, false) = (bR2 (fresh O size threshold ma dealer) ra1 ra2).map (Dl.bcast ma))
    (n3 : stream rb3 (ma, false) = (bR3 (fresh O size threshold ma dealer) ra1 ra2 ra3).map (Dl.bcast ma)) :
    NoBlame ma (allOuts (fresh O size threshold mb dealer) rb1 rb2 rb3) :=
  honest_never_blamed size threshold dealer ma mb hmad hmbd hab ra1 ra2 ra3 rb1 rb2 rb3 n1 n2 n3

open Proofs.DkgCommute Proofs.DkgAgree in
/-- an honest participant other than the dealer broadcasts at most one message in a whole execution: its complaint,
    in the first round or at the first timeout; nothing in the third round -/
theorem honest_broadcasts_one_complaint (size threshold me dealer : Nat) (hne : me ≠ dealer) (r1 r2 r3 : List Dl) :
    bR3 (fresh O size threshold me dealer) r1 r2 r3 = [] ∧
    ((bR1 (fresh O size threshold me dealer) r1 = [] ∧ bR2 (fresh O size threshold me dealer) r1 r2 = []) ∨
     (bR1 (fresh O size threshold me dealer) r1 = [cmplMsg dealer] ∧ bR2 (fresh O size threshold me dealer) r1 r2 = []) ∨
     (bR1 (fresh O size threshold me dealer) r1 = [] ∧ bR2 (fresh O size threshold me dealer) r1 r2 = [cmplMsg dealer])) :=
  emission_once size threshold me dealer hne r1 r2 r3

open Proofs.DkgCommute Proofs.DkgAgree in
/-- whatever is delivered from `o`, nobody but `o` and the dealer is blamed; the one complaint of an honest
    participant, delivered once before the second timeout, blames nobody but possibly the dealer -/
theorem blame_targets (s : St O) (e : Dl) (A : Nat) (hA : A ≠ s.dealer) :
    (A ≠ e.sender → NoBlame A (stepOuts s e)) ∧
    (s.me ≠ s.dealer → s.complaintsTimeout = false → recvAt s A = false → NoBlame A (stepOuts s (zCmpl A s.dealer))) :=
  ⟨step_noblame_other s e A hA, fun hme hct hr => step_noblame_complaint s A hA hme hct hr⟩

open Proofs.DkgCommute Proofs.DkgAgree in
/-- **inside Joint-Feldman** every broadcast reaches all `n` instances: the instance of dealer `d` at an honest
    participant also sees the other broadcasts of an honest participant `A` (its vector, its answers, its complaints
    against other dealers). They draw no blame and change nothing (`irrelevant_honest_noblame`, `irrelevant_noop`), so a
    round of the instance never blames `A`, under the same hypothesis on `A`'s complaints against `d` as in the
    single-instance theorem -/
theorem joint_round_never_blames_honest (s : St O) (inv : Inv s) (A : Nat) (hA : A ≠ s.dealer) (hAme : A ≠ s.me)
    (hd : s.dealer < 256) (l : List Dl) (hon : HonestFrom A s.size s.complaintsTimeout l)
    (hl : stream (relevantOnly A s.dealer l) (A, false) = [] ∨
      (stream (relevantOnly A s.dealer l) (A, false) = [zCmpl A s.dealer] ∧ recvAt s A = false ∧ s.complaintsTimeout = false)) :
    NoBlame A (runOuts s l) := run_noblame_joint s inv A hA hAme hd l hon hl

open Proofs.DkgCommute Proofs.DkgAgree in
/-- **an honest dealer is never blamed by an honest receiver** (the instances whose dealer is itself honest): over
    the three rounds, both timeouts and `End` of a Feldman-VSS-Qual instance - also as one of the `n` instances of
    Joint-Feldman -, no `Disqualify` and no `FlagMisbehavior` callback of the receiver targets the dealer, whatever
    the other participants broadcast or send and in whatever order, given what an honest dealer and a reliable
    network provide: deliveries compatible with an honest dealer (`RoundOK'`), the vector and the receiver's share in
    the first round, at most `t` complainers (`K`), each answered, no message of the dealer delivered twice (`Once`),
    neither vector nor share after the first round (`NoVS`), and no complaint-tagged broadcast of the dealer after
    the second timeout (`DealerQuiet`). -/
theorem honest_dealer_never_blamed_by_honest (H : Honest O) (K : Finset Nat) (s0 : St O) (h0 : HD H s0)
    (hst0 : s0.sharesTimeout = false) (hct0 : s0.complaintsTimeout = false) (hK : K.card ≤ s0.threshold)
    (hk0 : keysIn K s0) (hv0 : s0.vAReceived = false) (hx0 : s0.xReceived = false) (hc0 : s0.complaints = [])
    (r1 r2 r3 : List Dl)
    (ok1 : RoundOK' H K s0 false r1) (ok2 : RoundOK' H K s0 false r2) (ok3 : RoundOK' H K s0 true r3)
    (hvec : ∃ e ∈ r1, ∃ d, ∀ t, CfgCT s0 false t → classify t e = .vec d)
    (hshare : ∃ e ∈ r1, ∃ d, ∀ t, CfgCT s0 false t → classify t e = .share d)
    (hans : ∀ k ∈ K, ∃ a, (∃ e ∈ r1, ∀ t, CfgCT s0 false t → classify t e = .ans k (some a)) ∨
      (∃ e ∈ r2, ∀ t, CfgCT s0 false t → classify t e = .ans k (some a)) ∨
      (∃ e ∈ r3, ∀ t, CfgCT s0 true t → classify t e = .ans k (some a)))
    (once : Once s0 (r1 ++ (r2 ++ r3))) (novs2 : NoVS s0 r2) (novs3 : NoVS s0 r3)
    (quiet3 : ∀ e ∈ r3, ∀ t, CfgCT s0 true t → DealerQuiet t e) :
    NoBlame s0.dealer (allOuts s0 r1 r2 r3) :=
  honest_dealer_never_blamed H K s0 h0 hst0 hct0 hK hk0 hv0 hx0 hc0 r1 r2 r3 ok1 ok2 ok3 hvec hshare hans once
    novs2 novs3 quiet3

open Proofs.DkgCommute Proofs.DkgAgree in
/-- the step behind it: one allowed, first-time, in-time delivery never blames the dealer -/
theorem delivery_never_blames_honest_dealer {H : Honest O} {s : St O} (h : HD H s) (e : Dl)
    (ha : AllowedK H s (classify s e)) (hf : FreshFor s (classify s e)) (hq : DealerQuiet s e) :
    NoBlame s.dealer (stepOuts s e) := step_noblame_dealer h e ha hf hq

/-! ### non-vacuity of the honest-dealer theorem: a concrete run that meets every hypothesis -/

section NonVacuity
open Proofs.DkgCommute

/-- a trivial crypto record: every vector of the right length parses, every share is valid -/
def triv : Ops where
  Vec := Unit
  readVec := fun _ _ _ => some ()
  checkLog := fun _ _ _ => true
  readScalar := fun _ => some 1
  writeScalar := fun _ => []
  addScalar := fun a b => a + b
  groupKey := fun _ => []
  pubShares := fun _ => []
  groupKeyIsIdentity := fun _ => false
  sumVecs := fun _ => none
  genPoly := fun _ _ => none
  polyEval := fun _ _ => 0
  vecBytes := fun _ => []
  vecOfPoly := fun _ _ => ()

def vb : Bytes := List.replicate (96 * 2) 0
def sb : Bytes := tagShare :: List.replicate 32 0

def Htriv : Honest triv := { v0 := (), vb := vb, x0 := 1, sb := sb, me := 1, shareOk := rfl }

def s0 : St triv := { size := 3, threshold := 1, me := 1, dealer := 0, running := true }

/-- non-vacuity: the dealer's vector and share delivered in round one, nobody complains -/
example : exec s0 [.bcast 0 (tagVerifVec :: vb), .priv 0 sb] [] [] = .keys 1 [] [] := by
  have hcl1 : ∀ t : St triv, CfgCT s0 false t → classify t (.bcast 0 (tagVerifVec :: vb)) = .vec vb := by
    intro t ⟨h1, h2, _, _, _⟩
    show classifyB t 0 (tagVerifVec :: vb) = _
    unfold classifyB
    have e1 : t.me = 1 := h1
    have e2 : t.dealer = 0 := h2
    simp [e1, e2, tagVerifVec]
  have hcl2 : ∀ t : St triv, CfgCT s0 false t → classify t (.priv 0 sb) = .share sb := by
    intro t ⟨h1, h2, _, _, _⟩
    show (if t.me = 0 then Kind.noop else if 0 = t.dealer then Kind.share sb else Kind.noop) = _
    have e1 : t.me = 1 := h1
    have e2 : t.dealer = 0 := h2
    simp [e1, e2]
  refine honest_dealer_never_disqualified Htriv ∅ s0 (hd_init Htriv 3 1 0 (by decide)) rfl rfl (by simp)
    (fun k c hc => by cases hc) (by decide) rfl _ _ _ ?_ ?_ ?_ ⟨_, by simp, vb, hcl1⟩ ⟨_, List.mem_cons_of_mem _ (by simp), sb, hcl2⟩
    (fun k hk => by simp at hk)
  · intro e he t ht
    simp only [List.mem_cons, List.not_mem_nil, or_false] at he
    rcases he with rfl | rfl
    · rw [hcl1 t ht]
      refine ⟨⟨rfl, ?_⟩, trivial, trivial⟩
      unfold parseVec
      have hth : t.threshold = 1 := ht.2.2.2.1
      have hlen : vb.length = verifVectorSize * (t.threshold + 1) := by
        rw [hth]; unfold vb verifVectorSize; rw [List.length_replicate]
      rw [if_neg (fun hne => hne hlen)]
      rfl
    · rw [hcl2 t ht]
      refine ⟨⟨rfl, ?_⟩, trivial, trivial⟩
      rfl
  · intro e he; cases he
  · intro e he; cases he

open Proofs.DkgAgree in
/-- non-vacuity of `honest_never_blamed_by_honest`: participant 1 gets no share, complains at the first timeout;
    participant 2 receives the complaint in the second round; the hypotheses hold, and participant 2 does output
    callbacks (it flags the dealer for a second vector) - none of them targets participant 1 -/
example :
    stream [.bcast 0 (tagVerifVec :: vb), .priv 0 sb, .bcast 0 (tagVerifVec :: vb)] (1, false) =
      (bR1 (fresh triv 3 1 1 0) [.bcast 0 (tagVerifVec :: vb)]).map (Dl.bcast 1) ∧
    stream [Dl.bcast 1 (cmplMsg 0)] (1, false) = (bR2 (fresh triv 3 1 1 0) [.bcast 0 (tagVerifVec :: vb)] []).map (Dl.bcast 1) ∧
    stream [] (1, false) = (bR3 (fresh triv 3 1 1 0) [.bcast 0 (tagVerifVec :: vb)] [] []).map (Dl.bcast 1) ∧
    allOuts (fresh triv 3 1 2 0) [.bcast 0 (tagVerifVec :: vb), .priv 0 sb, .bcast 0 (tagVerifVec :: vb)]
      [Dl.bcast 1 (cmplMsg 0)] [] = [Out.flag 0, Out.disq 0] := by
  have e1 : bR1 (fresh triv 3 1 1 0) [.bcast 0 (tagVerifVec :: vb)] = [] := by decide +kernel
  have e2 : bR2 (fresh triv 3 1 1 0) [.bcast 0 (tagVerifVec :: vb)] [] = [cmplMsg 0] := by decide +kernel
  have e3 : bR3 (fresh triv 3 1 1 0) [.bcast 0 (tagVerifVec :: vb)] [] [] = [] := by decide +kernel
  rw [e1, e2, e3]
  exact ⟨rfl, rfl, rfl, by decide +kernel⟩


open Proofs.DkgAgree in
/-- non-vacuity of `honest_dealer_never_blamed_by_honest`: the same run (vector and share in round one, nobody
    complains) meets every hypothesis; the receiver's outputs are empty -/
example : NoBlame s0.dealer (allOuts s0 [.bcast 0 (tagVerifVec :: vb), .priv 0 sb] [] []) ∧
    allOuts s0 [.bcast 0 (tagVerifVec :: vb), .priv 0 sb] [] [] = [] := by
  have hcl1 : ∀ t : St triv, t.me = 1 → t.dealer = 0 → classify t (.bcast 0 (tagVerifVec :: vb)) = .vec vb := by
    intro t e1 e2
    show classifyB t 0 (tagVerifVec :: vb) = _
    unfold classifyB
    simp [e1, e2, tagVerifVec]
  have hcl2 : ∀ t : St triv, t.me = 1 → t.dealer = 0 → classify t (.priv 0 sb) = .share sb := by
    intro t e1 e2
    show (if t.me = 0 then Kind.noop else if 0 = t.dealer then Kind.share sb else Kind.noop) = _
    simp [e1, e2]
  refine ⟨?_, by decide +kernel⟩
  refine honest_dealer_never_blamed_by_honest Htriv ∅ s0 (hd_init Htriv 3 1 0 (by decide)) rfl rfl (by simp)
    (fun k c hc => by cases hc) rfl rfl rfl _ _ _ ?_ ?_ ?_ ⟨_, by simp, vb, fun t ht => hcl1 t ht.1 ht.2.1⟩
    ⟨_, List.mem_cons_of_mem _ (by simp), sb, fun t ht => hcl2 t ht.1 ht.2.1⟩ (fun k hk => by simp at hk) ?_ ?_ ?_ ?_
  · intro e he t ht
    simp only [List.mem_cons, List.not_mem_nil, or_false] at he
    rcases he with rfl | rfl
    · rw [hcl1 t ht.1 ht.2.1]
      refine ⟨⟨rfl, ?_⟩, trivial, trivial⟩
      unfold parseVec
      have hth : t.threshold = 1 := ht.2.2.2.1
      have hlen : vb.length = verifVectorSize * (t.threshold + 1) := by
        rw [hth]; unfold vb verifVectorSize; rw [List.length_replicate]
      rw [if_neg (fun hne => hne hlen)]
      rfl
    · rw [hcl2 t ht.1 ht.2.1]
      refine ⟨⟨rfl, ?_⟩, trivial, trivial⟩
      rfl
  · intro e he; cases he
  · intro e he; cases he
  · -- no message of the dealer twice: the vector and the share are different messages
    show List.Pairwise _ ([Dl.bcast 0 (tagVerifVec :: vb), Dl.priv 0 sb] ++ ([] ++ []))
    simp only [List.append_nil, List.pairwise_cons, List.mem_cons, List.not_mem_nil, or_false, forall_eq,
      List.Pairwise.nil, and_true, IsEmpty.forall_iff, implies_true]
    intro t u ht hu
    rw [hcl1 t ht.1 ht.2.1, hcl2 u hu.1 hu.2.1]
    exact fun hh => hh
  · intro e he; cases he
  · intro e he; cases he
  · intro e he; cases he

end NonVacuity

end Props.C08

#print axioms Props.C08.handlers_blame
#print axioms Props.C08.timeouts_blame
#print axioms Props.C08.disq_monotone
#print axioms Props.C08.disqualified_end_fails
#print axioms Props.C08.unanswered_complaint_fails
#print axioms Props.C08.too_many_complaints_disqualify
#print axioms Props.C08.missing_vector_disqualifies
#print axioms Props.C08.late_messages_ignored
#print axioms Props.C08.malformed_vector_disqualifies
#print axioms Props.C08.fvss_keys_sound
#print axioms Props.C08.fvss_step_inv
#print axioms Props.C08.own_complaint_at_most_once
#print axioms Props.C08.share_vector_any_order
#print axioms Props.C08.complaint_answer_any_order
#print axioms Props.C08.honest_dealer_never_disqualified
#print axioms Props.C08.honest_dealer_init
#print axioms Props.C08.honest_never_blamed_by_honest
#print axioms Props.C08.honest_broadcasts_one_complaint
#print axioms Props.C08.blame_targets
#print axioms Props.C08.joint_round_never_blames_honest
#print axioms Props.C08.honest_dealer_never_blamed_by_honest
#print axioms Props.C08.delivery_never_blames_honest_dealer
