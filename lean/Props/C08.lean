import Model.Dkg
import Proofs.DkgFlags
import Proofs.DkgOnce

/-! # C08 — DKG qualification is fair: honest never blamed, bad dealing never accepted

Theorems over the state-machine models (every crypto-operations record, every state, every message). -/

namespace Props.C08
open Model Model.Dkg

variable {O : Ops}

/-! ### who can be blamed: only the sender of the message being handled, or the dealer -/

def blameOK (allowed : List Nat) : Out → Bool
  | .disq i => allowed.contains i
  | .flag i => allowed.contains i
  | _ => true

/-- every Disqualify / FlagMisbehavior callback in `outs` targets a participant of `allowed` -/
def BlameIn (allowed : List Nat) (outs : List Out) : Prop := outs.all (blameOK allowed) = true

theorem BlameIn.append {a : List Nat} {o1 o2 : List Out} (h1 : BlameIn a o1) (h2 : BlameIn a o2) :
    BlameIn a (o1 ++ o2) := by
  unfold BlameIn at *; simp [List.all_append, h1, h2]

theorem buildComplaint_blame (s : St O) (o : Nat) : BlameIn [o, s.dealer] (FvssQ.buildComplaint s).2 := by
  unfold FvssQ.buildComplaint St.setC
  repeat' (first | split | (simp only []; split))
  all_goals simp [BlameIn, blameOK]

theorem receiveShare_blame (s : St O) (o : Nat) (d : Bytes) :
    BlameIn [o, s.dealer] (FvssQ.receiveShare s o d).2 := by
  have hb : ∀ t : St O, t.dealer = s.dealer → BlameIn [o, s.dealer] (FvssQ.buildComplaint t).2 := by
    intro t ht; rw [← ht]; exact buildComplaint_blame t o
  unfold FvssQ.receiveShare FvssQ.badShare
  repeat' (first | split | (simp only []; split))
  all_goals first
    | (simp [BlameIn, blameOK]; done)
    | exact hb _ rfl
    | exact BlameIn.append (hb _ rfl) (by simp [BlameIn, blameOK])

theorem receiveVerifVector_blame (s : St O) (o : Nat) (d : Bytes) :
    BlameIn [o, s.dealer] (FvssQ.receiveVerifVector s o d).2 := by
  have hb : ∀ t : St O, t.dealer = s.dealer → BlameIn [o, s.dealer] (FvssQ.buildComplaint t).2 := by
    intro t ht; rw [← ht]; exact buildComplaint_blame t o
  unfold FvssQ.receiveVerifVector
  repeat' (first | split | (simp only []; split))
  all_goals first
    | (simp [BlameIn, blameOK]; done)
    | exact hb _ rfl

theorem receiveComplaint_blame (s : St O) (o : Nat) (d : Bytes) :
    BlameIn [o, s.dealer] (FvssQ.receiveComplaint s o d).2 := by
  unfold FvssQ.receiveComplaint FvssQ.buildAnswer St.setC
  repeat' (first | split | (simp only []; split))
  all_goals (simp [BlameIn, blameOK])

theorem receiveComplaintAnswer_blame (s : St O) (o : Nat) (d : Bytes) :
    BlameIn [o, s.dealer] (FvssQ.receiveComplaintAnswer s o d).2 := by
  unfold FvssQ.receiveComplaintAnswer St.setC
  repeat' (first | split | (simp only []; split))
  all_goals (simp [BlameIn, blameOK])

/-- **whatever message arrives from `o`, an instance only ever blames `o` or its dealer** -/
theorem handlers_blame (s : St O) (o : Nat) (m : Bytes) :
    BlameIn [o, s.dealer] (FvssQ.bcastBody s o m).2 ∧ BlameIn [o, s.dealer] (FvssQ.privBody s o m).2 := by
  constructor
  · unfold FvssQ.bcastBody
    repeat' (first | split | (simp only []; split))
    all_goals first
      | (simp [BlameIn, blameOK]; done)
      | exact receiveVerifVector_blame s o _
      | exact receiveComplaint_blame s o _
      | exact receiveComplaintAnswer_blame s o _
  · unfold FvssQ.privBody
    repeat' (first | split | (simp only []; split))
    all_goals first
      | (simp [BlameIn, blameOK]; done)
      | exact receiveShare_blame s o _

/-- the timeouts and End only ever blame the dealer -/
theorem timeouts_blame (s : St O) :
    BlameIn [s.dealer, s.dealer] (FvssQ.timeoutBody s).2 ∧ BlameIn [s.dealer, s.dealer] (FvssQ.settle s).2 := by
  constructor
  · unfold FvssQ.timeoutBody FvssQ.setSharesTimeout FvssQ.setComplaintsTimeout
    repeat' (first | split | (simp only []; split))
    all_goals first
      | (simp [BlameIn, blameOK]; done)
      | exact buildComplaint_blame (O := O) { s with sharesTimeout := true } s.dealer
  · unfold FvssQ.settle
    split <;> simp [BlameIn, blameOK]

/-! ### once disqualified, always disqualified -/

theorem disq_monotone (s : St O) (o : Nat) (m : Bytes) (h : s.disqualified = true) :
    (FvssQ.bcastBody s o m).1 = s ∧ (FvssQ.privBody s o m).1 = s ∧
    (FvssQ.timeoutBody s).1.disqualified = true ∧ (FvssQ.settle s).1.disqualified = true := by
  refine ⟨?_, ?_, ?_, ?_⟩
  · unfold FvssQ.bcastBody; split; · rfl
    simp [h]
  · unfold FvssQ.privBody; split; · rfl
    simp [h]
  · unfold FvssQ.timeoutBody; simp only [h, ↓reduceIte]; split <;> rfl
  · unfold FvssQ.settle; simp [h]

/-- a disqualified dealer is never accepted: End fails -/
theorem disqualified_end_fails (s : St O) (h : s.disqualified = true) : (FvssQ.endBody s).2.2 = .failure := by
  unfold FvssQ.endBody FvssQ.settle
  simp [h]

/-- a dealer that leaves a registered complaint unanswered is disqualified at End -/
theorem unanswered_complaint_fails (s : St O)
    (h : s.complaints.any (fun kc => kc.2.received && !kc.2.answerReceived) = true) :
    (FvssQ.endBody s).2.2 = .failure := by
  unfold FvssQ.endBody FvssQ.settle
  by_cases hd : s.disqualified = true
  · simp [hd]
  · simp [hd, h]

/-- more than `t` complaint entries at the second timeout disqualify the dealer -/
theorem too_many_complaints_disqualify (s : St O) (h1 : s.disqualified = false) (h2 : s.sharesTimeout = true)
    (h : s.complaints.length > s.threshold) : (FvssQ.timeoutBody s).1.disqualified = true := by
  unfold FvssQ.timeoutBody FvssQ.setComplaintsTimeout
  simp [h1, h2, h]

/-- a missing verification vector at the first timeout disqualifies the dealer -/
theorem missing_vector_disqualifies (s : St O) (h1 : s.disqualified = false) (h2 : s.sharesTimeout = false)
    (h : s.vAReceived = false) : (FvssQ.timeoutBody s).1.disqualified = true := by
  unfold FvssQ.timeoutBody FvssQ.setSharesTimeout
  simp [h1, h2, h]

/-- a late verification vector or share is not processed (only flagged) -/
theorem late_messages_ignored (s : St O) (o : Nat) (d : Bytes) (h : s.sharesTimeout = true) (ho : o = s.dealer) :
    (FvssQ.receiveVerifVector s o d).1 = s ∧ (FvssQ.receiveShare s o d).1 = s := by
  unfold FvssQ.receiveVerifVector FvssQ.receiveShare
  simp [h, ho]

/-- a malformed verification vector (wrong size, or a point that is malformed / off-curve / outside G2)
    disqualifies the dealer at once -/
theorem malformed_vector_disqualifies (s : St O) (d : Bytes)
    (h1 : s.sharesTimeout = false) (h2 : s.vAReceived = false)
    (hbad : d.length ≠ verifVectorSize * (s.threshold + 1) ∨ O.readVec s.threshold s.size d = none) :
    (FvssQ.receiveVerifVector s s.dealer d).1.disqualified = true := by
  unfold FvssQ.receiveVerifVector
  simp only [ne_eq, not_true_eq_false, ↓reduceIte, h1, h2, Bool.false_eq_true]
  rcases hbad with h | h
  · simp [h]
  · by_cases hl : d.length ≠ verifVectorSize * (s.threshold + 1)
    · simp [hl]
    · simp [hl, h]

/-! ### plain Feldman VSS: keys only with a valid vector and a share that matches it -/

/-- invariant of a non-dealer Feldman VSS instance -/
def FvssInv (s : St O) : Prop :=
  s.validKey = true → s.vAReceived = true ∧ s.xReceived = true ∧ ∃ v, s.vA = some v ∧ O.checkLog v s.me s.x = true

theorem fvss_receiveShare_inv (s : St O) (o : Nat) (d : Bytes) (h : FvssInv s) :
    FvssInv (Fvss.receiveShare s o d).1 := by
  unfold Fvss.receiveShare
  by_cases h1 : o ≠ s.dealer
  · rw [if_pos h1]; exact h
  rw [if_neg h1]
  by_cases h2 : s.xReceived = true
  · rw [if_pos h2]; exact h
  rw [if_neg h2]
  simp only
  by_cases h3 : d.length = 0 ∨ d.headD 0 ≠ tagShare
  · rw [if_pos h3]; intro hv; simp at hv
  rw [if_neg h3]
  by_cases h4 : (d.drop 1).length ≠ shareSize
  · rw [if_pos h4]; intro hv; simp at hv
  rw [if_neg h4]
  cases hr : O.readScalar (d.drop 1) with
  | none => simp only; intro hv; simp at hv
  | some x =>
    simp only
    by_cases h5 : s.vAReceived = true ∧ s.vA.isSome = true
    · rw [if_pos h5]
      intro hv
      simp only at hv ⊢
      obtain ⟨h51, h52⟩ := h5
      cases hva : s.vA with
      | none => simp [hva] at h52
      | some v =>
        simp only [St.verifyShare, hva] at hv
        refine ⟨h51, ?_, v, ?_, hv⟩
        · trivial
        · first | exact hva | rfl
    · rw [if_neg h5]
      intro hv
      simp only at hv
      have := h hv
      exact absurd this.2.1 h2

theorem fvss_receiveVerifVector_inv (s : St O) (o : Nat) (d : Bytes) (h : FvssInv s) :
    FvssInv (Fvss.receiveVerifVector s o d).1 := by
  unfold Fvss.receiveVerifVector
  by_cases h1 : o ≠ s.dealer
  · rw [if_pos h1]; exact h
  rw [if_neg h1]
  by_cases h2 : s.vAReceived = true
  · rw [if_pos h2]; exact h
  rw [if_neg h2]
  by_cases h3 : verifVectorSize * (s.threshold + 1) ≠ d.length
  · rw [if_pos h3]; intro hv; simp at hv
  rw [if_neg h3]
  cases hr : O.readVec s.threshold s.size d with
  | none => simp only; intro hv; simp at hv
  | some v =>
    simp only
    by_cases h5 : s.xReceived = true
    · rw [if_pos h5]
      intro hv
      simp only [St.verifyShare] at hv
      exact ⟨rfl, h5, v, rfl, hv⟩
    · rw [if_neg h5]
      intro hv
      simp only at hv
      have := h hv
      exact absurd this.1 h2

/-- **plain Feldman VSS never returns keys unless a valid vector was received and the share matches it**:
    whenever `End` returns keys, the returned private share satisfies the share check against the stored
    vector and the returned public keys are those of that vector -/
theorem fvss_keys_sound (s : St O) (h : FvssInv s) (x : Nat) (Y : Bytes) (ys : List Bytes)
    (hk : (Fvss.end_ s).2.2 = .keys x Y ys) :
    ∃ v, s.vA = some v ∧ O.checkLog v s.me x = true ∧ Y = O.groupKey v ∧ ys = O.pubShares v ∧ x ≠ 0 := by
  unfold Fvss.end_ at hk
  split at hk
  · cases hk
  · simp only at hk
    unfold Fvss.endBody at hk
    split at hk; · cases hk
    rename_i hvk
    have hvk' : s.validKey = true := by simpa using hvk
    obtain ⟨_, _, v, hv, hc⟩ := h hvk'
    simp only [hv] at hk
    split at hk; · cases hk
    split at hk; · cases hk
    cases hk
    exact ⟨v, hv, hc, rfl, rfl, by assumption⟩

/-- the invariant holds initially and is preserved by every API call of a non-dealer instance -/
theorem fvss_inv_init (size t me dealer : Nat) :
    FvssInv ({ size := size, threshold := t, me := me, dealer := dealer } : St O) := by
  intro h; cases h

theorem fvss_step_inv (s : St O) (hnd : s.dealer ≠ s.me) (h : FvssInv s) (orig : Int) (m seed : Bytes) :
    FvssInv (Fvss.handleBroadcast s orig m).1 ∧ FvssInv (Fvss.handlePrivate s orig m).1 ∧
    FvssInv (Fvss.forceDisqualify s orig).1 ∧ FvssInv (Fvss.end_ s).1 ∧ FvssInv (start s seed).1 := by
  refine ⟨?_, ?_, ?_, ?_, ?_⟩
  · unfold Fvss.handleBroadcast Fvss.bcastBody
    repeat' (first | split | (simp only []; split))
    all_goals first
      | exact h
      | exact fvss_receiveVerifVector_inv s _ _ h
  · unfold Fvss.handlePrivate Fvss.privBody
    repeat' (first | split | (simp only []; split))
    all_goals first
      | exact h
      | exact fvss_receiveShare_inv s _ _ h
  · unfold Fvss.forceDisqualify
    repeat' (first | split | (simp only []; split))
    all_goals first
      | exact h
      | (intro hv; simp at hv)
  · unfold Fvss.end_
    split
    · exact h
    · exact h
  · unfold start startBody
    simp only [hnd, ↓reduceIte]
    split
    · exact h
    · exact h

/-! ### an honest participant is never flagged for a second complaint; delivery order never matters -/

open Proofs.DkgCommute in
/-- **an honest participant broadcasts its complaint at most once**, whatever it receives, in whatever order,
    across deliveries and timeouts (a second complaint makes every other honest participant flag it: the defect
    class F9) -/
theorem own_complaint_at_most_once (s : St O) (hme : s.me ≠ s.dealer) (evs : List Ev) :
    cnt (outputs s evs) ≤ 1 := (complaint_at_most_once s hme evs).1

open Proofs.DkgCommute in
/-- **share and verification vector in either order** (exactly the same state, or disqualified in both) -/
theorem share_vector_any_order (s : St O) (hme : s.me ≠ s.dealer) (hn : KeysNodup s) (vec sh : Bytes) :
    Rel (FvssQ.privBody (FvssQ.bcastBody s s.dealer (tagVerifVec :: vec)).1 s.dealer sh).1
        (FvssQ.bcastBody (FvssQ.privBody s s.dealer sh).1 s.dealer (tagVerifVec :: vec)).1 :=
  share_vector_commute s hme hn vec sh

open Proofs.DkgCommute in
/-- **a complaint and the dealer's answer to it in either order** (the defect class F10: an answer that arrives
    before the complaint is kept and checked) -/
theorem complaint_answer_any_order (s : St O) (k : Nat) (sc : Option Nat) (hk : k ≠ s.me)
    (hdq : s.disqualified = false) (hwf : EntriesWF s) :
    RelP (if (rcOk s k).disqualified then rcOk s k else raOk (rcOk s k) k sc)
         (if (raOk s k sc).disqualified then raOk s k sc else rcOk (raOk s k sc) k) :=
  complaint_answer_same s k sc hk hdq hwf

end Props.C08

#print axioms Props.C08.handlers_blame
#print axioms Props.C08.timeouts_blame
#print axioms Props.C08.disq_monotone
#print axioms Props.C08.disqualified_end_fails
#print axioms Props.C08.unanswered_complaint_fails
#print axioms Props.C08.too_many_complaints_disqualify
#print axioms Props.C08.missing_vector_disqualifies
#print axioms Props.C08.late_messages_ignored
#print axioms Props.C08.malformed_vector_disqualifies
#print axioms Props.C08.fvss_keys_sound
#print axioms Props.C08.fvss_step_inv
#print axioms Props.C08.own_complaint_at_most_once
#print axioms Props.C08.share_vector_any_order
#print axioms Props.C08.complaint_answer_any_order
