import Extracted.Hazards
import Extracted.Guards
import Extracted.Consts
import Props.C10
import Props.C18
import Props.C09Audit

/-! # C09 — no exported function panics or corrupts memory on untrusted input

(1) Coverage: every place where the Go code hands the first element of a slice to C (`&x[0]`, which panics on
    an empty slice and lets C read `len` bytes) is listed with the reason why the slice is non-empty and long
    enough there; the list is checked against the sites extracted from the code on every run, so a new
    unguarded site breaks `covered`.
(2) Guard lemmas: the guards of the code as it is now imply the non-emptiness / exact length the sites need.
(3) State-machine part: handler sequences never reach a nil key vector (C08/C10 invariants), out-of-range
    indices are refused before use.

*partial*: memory safety inside BLST and the Go runtime is outside the model; a `hash.Hasher` that lies about
its `Size()` is a program, not an input. -/

namespace Props.C09

inductive Why
  | guardedLength      -- the function returns before this point unless the slice has the exact positive length
  | nonEmptyList       -- the function returns before this point on an empty list; the buffer has one entry per element
  | freshBuffer        -- allocated in the function with a positive constant size
  | hasherContract     -- output of a hasher whose Size() was checked to be 128 (hash.Hasher contract)
  | callersGuard       -- unexported helper: every call site passes a buffer whose length was checked / allocated by the caller
  | stateInvariant     -- protected by a state-machine invariant proved in Props.C08 / Props.C10 / Props.C18
  | testOnlyHelper     -- unexported and not reachable from the exported API (used by the repository's tests only)
deriving DecidableEq, Repr

def covered : List (String × String × Why) := [
  ("AggregateBLSPrivateKeys", "scalars", .nonEmptyList),
  ("AggregateBLSPublicKeys", "points", .nonEmptyList),
  ("AggregateBLSSignatures", "aggregatedSig", .freshBuffer),
  ("AggregateBLSSignatures", "flatSigs", .nonEmptyList),
  ("BLSReconstructThresholdSignature", "flatShares", .nonEmptyList),
  ("BLSReconstructThresholdSignature", "indexSigners", .nonEmptyList),
  ("BLSReconstructThresholdSignature", "thresholdSignature", .freshBuffer),
  ("BLSThresholdKeyGen", "a", .callersGuard),
  ("BatchVerifyBLSSignaturesOneMessage", "flatSigs", .nonEmptyList),
  ("BatchVerifyBLSSignaturesOneMessage", "h", .hasherContract),
  ("BatchVerifyBLSSignaturesOneMessage", "pkPoints", .nonEmptyList),
  ("BatchVerifyBLSSignaturesOneMessage", "seed", .nonEmptyList),
  ("BatchVerifyBLSSignaturesOneMessage", "verifInt", .nonEmptyList),
  ("E2PolynomialImages", "A", .callersGuard),
  ("E2PolynomialImages", "out", .callersGuard),
  ("JointFeldmanState_sumUpQualifiedKeys", "qualifiedPubKey", .stateInvariant),
  ("JointFeldmanState_sumUpQualifiedKeys", "qualifiedx", .stateInvariant),
  ("JointFeldmanState_sumUpQualifiedKeys", "qualifiedy[i]", .stateInvariant),
  ("RemoveBLSPublicKeys", "pointsToSubtract", .nonEmptyList),
  ("SPOCKVerify", "proof1", .guardedLength),
  ("SPOCKVerify", "proof2", .guardedLength),
  ("VerifyBLSSignatureManyMessages", "allPks", .nonEmptyList),
  ("VerifyBLSSignatureManyMessages", "distinctPks", .nonEmptyList),
  ("VerifyBLSSignatureManyMessages", "flatDistinctHashes", .nonEmptyList),
  ("VerifyBLSSignatureManyMessages", "flatHashes", .nonEmptyList),
  ("VerifyBLSSignatureManyMessages", "hashPerPk", .nonEmptyList),
  ("VerifyBLSSignatureManyMessages", "lenHashes", .nonEmptyList),
  ("VerifyBLSSignatureManyMessages", "pkPerHash", .nonEmptyList),
  ("VerifyBLSSignatureManyMessages", "s", .guardedLength),
  ("blsThresholdSignatureInspector_reconstructThresholdSignature", "shares", .stateInvariant),
  ("blsThresholdSignatureInspector_reconstructThresholdSignature", "signers", .stateInvariant),
  ("blsThresholdSignatureInspector_reconstructThresholdSignature", "thresholdSignature", .freshBuffer),
  ("feldmanVSSQualState_End", "s.vA", .stateInvariant),
  ("feldmanVSSstate_End", "s.vA", .stateInvariant),
  ("frPolynomialImage", "a", .stateInvariant),
  ("frPolynomialImage", "dest", .callersGuard),
  ("generateFrPolynomial", "a", .freshBuffer),
  ("hashToG1Bytes", "data", .testOnlyHelper),
  ("hashToG1Bytes", "dst", .testOnlyHelper),
  ("hashToG1Bytes", "hash", .testOnlyHelper),
  ("mapToFr", "src", .callersGuard),
  ("mapToG1", "data", .testOnlyHelper),
  ("multi_pairing", "p1", .testOnlyHelper),
  ("multi_pairing", "p2", .testOnlyHelper),
  ("prKeyBLSBLS12381_Sign", "h", .hasherContract),
  ("prKeyBLSBLS12381_Sign", "s", .freshBuffer),
  ("prKeyBLSBLS12381_signWithXMDSHA256", "data", .testOnlyHelper),
  ("prKeyBLSBLS12381_signWithXMDSHA256", "dst", .testOnlyHelper),
  ("prKeyBLSBLS12381_signWithXMDSHA256", "hash", .testOnlyHelper),
  ("prKeyBLSBLS12381_signWithXMDSHA256", "s", .testOnlyHelper),
  ("pubKeyBLSBLS12381_Verify", "h", .hasherContract),
  ("pubKeyBLSBLS12381_Verify", "s", .guardedLength),
  ("readPointE1", "src", .testOnlyHelper),
  ("readPointE2", "src", .callersGuard),
  ("readScalarFrStar", "src", .guardedLength),
  ("readVerifVector", "A", .callersGuard),
  ("readVerifVector", "src", .callersGuard),
  ("unsafeMapToG1", "seed", .testOnlyHelper),
  ("unsafeMapToG1Complement", "seed", .testOnlyHelper),
  ("unsafeMapToG2", "seed", .testOnlyHelper),
  ("unsafeMapToG2Complement", "seed", .testOnlyHelper),
  ("writePointE1", "dest", .callersGuard),
  ("writePointE2", "dest", .callersGuard),
  ("writeScalar", "dest", .callersGuard),
  ("writeVerifVector", "A", .callersGuard),
  ("writeVerifVector", "dest", .callersGuard)]

/-- **every pointer-to-first-element site of the code as it is now is covered** (a new `&x[0]` breaks this) -/
theorem covered_all : Extracted.Hazards.sites.all (fun s => covered.any fun c => c.1 == s.1 && c.2.1 == s.2) = true := by
  decide

/-- no stale entries: everything in the table still exists in the code -/
theorem covered_exact : covered.all (fun c => Extracted.Hazards.sites.any fun s => c.1 == s.1 && c.2.1 == s.2) = true := by
  decide

/-! ### (2) the guards imply what the sites need -/

/-- guarded lengths: passing the guard means the slice has exactly the positive length C will read -/
theorem guarded_lengths (len len2 : Int) :
    (Extracted.Guards.crypto_pubKeyBLSBLS12381_Verify_g1 len = false → len = 48) ∧
    (Extracted.Guards.crypto_VerifyBLSSignatureManyMessages_g0 len = false → len = 48) ∧
    (Extracted.Guards.crypto_SPOCKVerify_g1 len len2 = false → len = 48 ∧ len2 = 48) ∧
    (Extracted.Guards.crypto_readScalarFrStar_g0 len = false → len = 32) ∧
    (Extracted.Guards.crypto_blsBLS12381Algo_decodePublicKey_g0 len = false → len = 96) := by
  simp [Extracted.Guards.crypto_pubKeyBLSBLS12381_Verify_g1, Extracted.Guards.crypto_VerifyBLSSignatureManyMessages_g0,
    Extracted.Guards.crypto_SPOCKVerify_g1, Extracted.Guards.crypto_readScalarFrStar_g0,
    Extracted.Guards.crypto_blsBLS12381Algo_decodePublicKey_g0]

/-- non-empty lists: passing the guards means at least one element (and matching lengths) -/
theorem nonempty_lists (n m k t : Int) (hn : 0 ≤ n) :
    (Extracted.Guards.crypto_AggregateBLSSignatures_g0 n = false → 0 < n) ∧
    (Extracted.Guards.crypto_AggregateBLSPublicKeys_g0 n = false → 0 < n) ∧
    (Extracted.Guards.crypto_AggregateBLSPrivateKeys_g0 n = false → 0 < n) ∧
    (Extracted.Guards.crypto_RemoveBLSPublicKeys_g1 n = false → 0 < n) ∧
    (Extracted.Guards.crypto_VerifyBLSSignatureManyMessages_g1 n = false →
      Extracted.Guards.crypto_VerifyBLSSignatureManyMessages_g2 k m n = false → 0 < n ∧ m = n ∧ k = n) ∧
    (Extracted.Guards.crypto_BatchVerifyBLSSignaturesOneMessage_g0 n = false →
      Extracted.Guards.crypto_BatchVerifyBLSSignaturesOneMessage_g1 n m = false → 0 < n ∧ m = n) ∧
    (Extracted.Guards.crypto_BLSReconstructThresholdSignature_g1 m t = false →
      Extracted.Guards.crypto_BLSReconstructThresholdSignature_g3 n t = false → 2 ≤ n) := by
  simp [Extracted.Guards.crypto_AggregateBLSSignatures_g0, Extracted.Guards.crypto_AggregateBLSPublicKeys_g0,
    Extracted.Guards.crypto_AggregateBLSPrivateKeys_g0, Extracted.Guards.crypto_RemoveBLSPublicKeys_g1,
    Extracted.Guards.crypto_VerifyBLSSignatureManyMessages_g1, Extracted.Guards.crypto_VerifyBLSSignatureManyMessages_g2,
    Extracted.Guards.crypto_BatchVerifyBLSSignaturesOneMessage_g0, Extracted.Guards.crypto_BatchVerifyBLSSignaturesOneMessage_g1,
    Extracted.Guards.crypto_BLSReconstructThresholdSignature_g1, Extracted.Guards.crypto_BLSReconstructThresholdSignature_g3]
  omega

/-- index guards: an index that passes is a valid position -/
theorem index_guards (i n : Int) :
    (Extracted.Guards.crypto_blsThresholdSignatureInspector_validIndex_g0 i n = false → 0 ≤ i ∧ i < n) ∧
    (Extracted.Guards.crypto_JointFeldmanState_ForceDisqualify_g1 n i = false → 0 ≤ i ∧ i < n) ∧
    (Extracted.Guards.crypto_feldmanVSSstate_HandleBroadcastMsg_g1 n i = false → 0 ≤ i ∧ i < n) ∧
    (Extracted.Guards.crypto_SigningAlgorithm_String_g0 i = false → 0 ≤ i ∧ i < 4) ∧
    (Extracted.Guards.hash_HashingAlgorithm_String_g0 i = false → 0 ≤ i ∧ i < 7) := by
  simp [Extracted.Guards.crypto_blsThresholdSignatureInspector_validIndex_g0,
    Extracted.Guards.crypto_JointFeldmanState_ForceDisqualify_g1, Extracted.Guards.crypto_feldmanVSSstate_HandleBroadcastMsg_g1,
    Extracted.Guards.crypto_SigningAlgorithm_String_g0, Extracted.Guards.hash_HashingAlgorithm_String_g0]
  omega

/-- DKG sizes fit the `index = byte` conversions: participants are below 255 -/
theorem dkg_index_fits_byte (size : Int) (h : Extracted.Guards.crypto_newDKGCommon_g0 size = false) :
    2 ≤ size ∧ size ≤ 254 := by
  simp [Extracted.Guards.crypto_newDKGCommon_g0] at h
  omega

/-- **no index or slice expression has appeared since the review**: the table regenerated from the source on this
    run (per function and operand type, the number of `x[i]` / `x[a:b]` on a slice, array or string whose bound can
    fail at run time, in the three packages; `&x[0]` hand-overs, map lookups, compile-time-checked bounds and the
    index variable of a loop over the operand itself apart) is the reviewed one. A new index expression breaks this
    lemma and sends the check into its boundary search; renaming variables does not -/
theorem index_sites_exact : Extracted.Hazards.indexSites = Props.C09Audit.auditedIndexSites := by decide +kernel

end Props.C09

#print axioms Props.C09.covered_all
#print axioms Props.C09.covered_exact
#print axioms Props.C09.guarded_lengths
#print axioms Props.C09.nonempty_lists
#print axioms Props.C09.index_guards
#print axioms Props.C09.dkg_index_fits_byte
#print axioms Props.C09.index_sites_exact
