import Extracted.Footprints

/-! # C19 — operations documented as read-only or thread-safe are race-free

(1) Footprint model: an operation reads and writes sets of abstract locations; two operations conflict when one
    writes a location the other reads or writes. Operations that write no shared location never conflict, and
    each returns what it returns when run alone (its result is a function of locations nobody writes).
(2) Tie: the write footprints on shared roots (receiver, parameters, package variables), the method calls on
    shared roots and the provenance/const-ness of every cgo argument are regenerated from the code on every
    run; the listed operations must have no shared write, only read-only calls, and pass shared objects to C
    through pointers to const only.

*partial*: the Go memory model and the C side's actual accesses (beyond `const`) are not modelled; callee
footprints are direct (one level) — the race-detector runs of the harness cover the transitive reality. -/

namespace Props.C19

/-! ### (1) footprint model -/

structure OpFP (Loc : Type) where
  reads : List Loc
  writes : List Loc

variable {Loc : Type} [DecidableEq Loc]

def conflict (a b : OpFP Loc) : Bool :=
  a.writes.any (fun l => b.reads.contains l || b.writes.contains l) || b.writes.any (fun l => a.reads.contains l)

/-- operations without shared writes are pairwise conflict-free: no data race in any interleaving -/
theorem drf (ops : List (OpFP Loc)) (h : ∀ o ∈ ops, o.writes = []) :
    ∀ a ∈ ops, ∀ b ∈ ops, conflict a b = false := by
  intro a ha b hb
  simp [conflict, h a ha, h b hb]

/-- and each operation returns what it returns when run alone: its result depends on the locations it reads
    only, and no concurrent operation changes them -/
theorem result_unchanged {Val Res : Type} (o : OpFP Loc) (run : (Loc → Val) → Res)
    (hdep : ∀ m m' : Loc → Val, (∀ l ∈ o.reads, m l = m' l) → run m = run m')
    (others : List (OpFP Loc)) (hw : ∀ p ∈ others, p.writes = [])
    (m m' : Loc → Val) (hframe : ∀ l, (∀ p ∈ others, l ∉ p.writes) → m l = m' l) :
    run m = run m' := by
  apply hdep
  intro l _
  apply hframe
  intro p hp
  rw [hw p hp]; simp

/-! ### (2) tie to the code as it is now -/

open Extracted.Footprints

def find? (n : String) : Option Fn := fns.find? (·.name == n)

/-- the operations the property lists (and the helpers they are made of) -/
def listed : List String := [
  "hash.kmac128_ComputeHash", "hash.kmac128_SumHash",
  "crypto.prKeyBLSBLS12381_Sign", "crypto.pubKeyBLSBLS12381_Verify", "crypto.checkBLSHasher",
  "crypto.BLSVerifyPOP", "crypto.SPOCKVerify", "crypto.SPOCKVerifyAgainstData",
  "crypto.VerifyBLSSignatureOneMessage", "crypto.VerifyBLSSignatureManyMessages",
  "crypto.BatchVerifyBLSSignaturesOneMessage", "crypto.AggregateBLSPublicKeys",
  "crypto.prKeyECDSA_Sign", "crypto.prKeyECDSA_signHash", "crypto.pubKeyECDSA_Verify", "crypto.pubKeyECDSA_verifyHash"]

/-- method calls on shared objects that are read-only: KMAC `ComputeHash`/`Clone` (shown below), accessors,
    encoders, and the listed operations themselves -/
def readOnlyCalls : List String := ["ComputeHash", "Clone", "Size", "Encode", "Verify", "Params", "signHash",
  "verifyHash", "Algorithm", "isIdentity", "Bytes"]

def callOK (c : String × String) : Bool := readOnlyCalls.contains c.2

/-- cgo argument check: every argument that points into a shared object goes to a `const` parameter -/
def cgoOK (call : String × List String) : Bool :=
  match cProtos.find? (·.1 == call.1) with
  | some (_, consts) => (call.2.zip consts).all fun (a, c) => a == "local" || c
  | none => call.2.all (· == "local")

/-- **all listed operations exist, write no shared location, make only read-only calls on shared objects, and
    hand shared objects to C through pointers to const** -/
theorem footprints : listed.all (fun n => match find? n with
    | some f => f.writes.isEmpty && f.calls.all callOK && f.cgo.all cgoOK
    | none => false) = true := by decide

/-- KMAC128 `ComputeHash` and `SumHash` only ever `Clone` the shared state: everything else happens on the clone -/
theorem kmac_clone_only :
    (find? "hash.kmac128_ComputeHash").map (·.calls) = some [("recv:k", "Clone")] ∧
    (find? "hash.kmac128_SumHash").map (·.calls) = some [("recv:k", "Clone")] := by decide

/-- the C entry points that receive keys take them through pointers to const -/
theorem c_const_keys :
    cProtos.lookup "bls_verify" = some [true, true, true, true] ∧
    cProtos.lookup "bls_spock_verify" = some [true, true, true, true] ∧
    (cProtos.lookup "bls_sign").map (·.drop 1) = some [true, true, true] ∧
    (cProtos.lookup "bls_batch_verify").map (fun l => l.drop 2) = some [true, true, true, true, true] := by decide

end Props.C19

#print axioms Props.C19.drf
#print axioms Props.C19.result_unchanged
#print axioms Props.C19.footprints
#print axioms Props.C19.kmac_clone_only
#print axioms Props.C19.c_const_keys
