import Proofs.AbsAgg
import Extracted.Guards

/-! # C04 — key and signature aggregation are mutually consistent group homomorphisms -/

namespace Props.C04

variable {r : ℕ} [Fact r.Prime] {P : PairingGroups r}

/-- the public key of the aggregated private key is the aggregate of the public keys -/
theorem pub_aggSK (sks : List (ZMod r)) (h : sks ≠ []) :
    (aggSK sks).map (pubOf P) = aggPK (sks.map (pubOf P)) := by
  unfold aggSK aggPK pubOf
  simp only [h, ↓reduceIte, List.map_eq_nil_iff, Except.map]
  rw [list_sum_smul]

/-- aggregating the individual signatures gives the signature of the aggregated private key -/
theorem aggSig_sign (C : Codec P) (sks : List (ZMod r)) (hne : sks ≠ []) (h : P.G1) :
    aggSig C (sks.map (fun sk => signCore C sk h)) = .ok (signCore C sks.sum h) := by
  unfold aggSig
  rw [if_neg (by simpa using hne)]
  have : sks.map (fun sk => signCore C sk h) = (sks.map (fun sk => P.ι (sk • h))).map C.encode := by
    simp [signCore, List.map_map, Function.comp_def]
  rw [this, decodeAll_encode]
  simp only [signCore]
  congr 2
  have e1 : (sks.map (fun sk => P.ι (sk • h))) = (sks.map (fun sk => sk • h)).map P.ι := by
    simp [List.map_map, Function.comp_def]
  rw [e1, list_sum_map_hom, list_sum_smul]

/-- `RemoveBLSPublicKeys(Aggregate(A ++ B), B) = Aggregate(A)` -/
theorem remove_agg (A B : List P.G2) : removePK (A ++ B).sum B = A.sum := by
  simp [removePK]

/-- results do not depend on the order of the inputs -/
theorem agg_perm (pks pks' : List P.G2) (h : pks.Perm pks') : aggPK pks = aggPK pks' := by
  unfold aggPK
  by_cases hn : pks = []
  · subst hn; have := List.Perm.nil_eq h; subst this; rfl
  · have hn' : pks' ≠ [] := fun h' => hn (by subst h'; exact List.Perm.eq_nil h)
    simp [hn, hn', h.sum_eq]

theorem aggSK_perm (sks sks' : List (ZMod r)) (h : sks.Perm sks') : aggSK sks = aggSK sks' := by
  unfold aggSK
  by_cases hn : sks = []
  · subst hn; have := List.Perm.nil_eq h; subst this; rfl
  · have hn' : sks' ≠ [] := fun h' => hn (by subst h'; exact List.Perm.eq_nil h)
    simp [hn, hn', h.sum_eq]

/-- results do not depend on how the aggregation is nested -/
theorem agg_nest (groups : List (List P.G2)) : (groups.map List.sum).sum = groups.flatten.sum := by
  induction groups with
  | nil => rfl
  | cons g t ih => rw [List.map_cons, List.sum_cons, ih, List.flatten_cons, List.sum_append]

/-- keys that sum to the identity give the identity key; signatures that sum to the identity give the identity encoding -/
theorem agg_cancel (C : Codec P) (sk : ZMod r) (h : P.G1) :
    aggPK [pubOf P sk, pubOf P (-sk)] = .ok 0 ∧
    aggSig C [signCore C sk h, signCore C (-sk) h] = .ok (C.encode 0) := by
  constructor
  · simp [aggPK, pubOf]
  · have := aggSig_sign C [sk, -sk] (by simp) h
    simpa [signCore] using this

/-- documented errors: empty lists, malformed signatures -/
theorem agg_errors (C : Codec P) :
    aggSK ([] : List (ZMod r)) = .error .emptyList ∧ aggPK ([] : List P.G2) = .error .emptyList ∧
    aggSig C [] = .error .emptyList ∧
    ∀ (pre : List P.E1) (post : List Bytes) (bad : Bytes), (bad.length ≠ 48 ∨ C.decode bad = none) →
      aggSig C (pre.map C.encode ++ bad :: post) = .error .invalidSignature := by
  refine ⟨rfl, rfl, rfl, ?_⟩
  intro pre post bad hbad
  unfold aggSig
  rw [if_neg (by simp)]
  have : decodeAll C (pre.map C.encode ++ bad :: post) = none := by
    induction pre with
    | nil =>
      simp only [List.map_nil, List.nil_append, decodeAll]
      rcases hbad with hl | hd
      · simp [hl]
      · split
        · rfl
        · simp [hd]
    | cons x t ih =>
      simp only [List.map_cons, List.cons_append, decodeAll]
      rw [if_neg (by simpa using C.len _ _ (C.dec_enc x)), C.dec_enc, ih]
  rw [this]

/-- tie: the empty-list guards of the code as it is now -/
theorem tie_guards (n : Int) :
    Extracted.Guards.crypto_AggregateBLSSignatures_g0 n = decide (n = 0) ∧
    Extracted.Guards.crypto_AggregateBLSPrivateKeys_g0 n = decide (n = 0) ∧
    Extracted.Guards.crypto_AggregateBLSPublicKeys_g0 n = decide (n = 0) ∧
    Extracted.Guards.crypto_RemoveBLSPublicKeys_g1 n = decide (n = 0) := ⟨rfl, rfl, rfl, rfl⟩

end Props.C04

#print axioms Props.C04.pub_aggSK
#print axioms Props.C04.aggSig_sign
#print axioms Props.C04.remove_agg
#print axioms Props.C04.agg_perm
#print axioms Props.C04.aggSK_perm
#print axioms Props.C04.agg_nest
#print axioms Props.C04.agg_cancel
#print axioms Props.C04.agg_errors
#print axioms Props.C04.tie_guards
