import Proofs.AbsMany
import Extracted.Guards

/-! # C02 — aggregate BLS verification equals the pairing-product definition -/

namespace Props.C02

variable {r : ℕ} [Fact r.Prime] {P : PairingGroups r}

/-- **pairing-product definition**, for every list, every grouping (map iteration order, equal points in
    distinct objects), and either C back end -/
theorem verifyMany_spec (C : Codec P) (entries : List (P.G1 × P.G2)) (sig : Bytes) (byMsg : Bool)
    (gm : List (P.G1 × List P.G2)) (gk : List (P.G2 × List P.G1))
    (hgm : (flattenByMsg gm).Perm entries) (hgk : (flattenByKey gk).Perm entries) :
    verifyManyCore C entries sig byMsg gm gk = true ↔
      (∀ x ∈ entries, x.2 ≠ 0) ∧ ∃ s : P.G1, sig = C.encode (P.ι s) ∧ P.e s P.g2 = pairingSum entries :=
  verifyManyCore_spec C entries sig byMsg gm gk hgm hgk

/-- with known private keys: true exactly when no key is the identity and the signature is the canonical
    encoding of `Σ sk_i • H_i(m_i)` -/
theorem verifyMany_iff_sum (C : Codec P) (hg : P.g2 ≠ 0) (es : List (ZMod r × P.G1)) (sig : Bytes) (byMsg : Bool)
    (gm : List (P.G1 × List P.G2)) (gk : List (P.G2 × List P.G1))
    (hgm : (flattenByMsg gm).Perm (es.map fun x => (x.2, x.1 • P.g2)))
    (hgk : (flattenByKey gk).Perm (es.map fun x => (x.2, x.1 • P.g2))) :
    verifyManyCore C (es.map fun x => (x.2, x.1 • P.g2)) sig byMsg gm gk = true ↔
      (∀ x ∈ es, x.1 ≠ 0) ∧ sig = C.encode (P.ι ((es.map fun x => x.1 • x.2).sum)) := by
  rw [verifyMany_spec C _ sig byMsg gm gk hgm hgk, pairingSum_scalars]
  constructor
  · rintro ⟨hid, s, rfl, he⟩
    refine ⟨?_, ?_⟩
    · intro x hx h0
      exact hid (x.2, x.1 • P.g2) (List.mem_map.2 ⟨x, hx, rfl⟩) (by simp [h0])
    · have : P.e (s - (es.map fun x => x.1 • x.2).sum) P.g2 = 0 := by
        rw [map_sub, LinearMap.sub_apply, he, sub_self]
      rw [sub_eq_zero.1 (P.nondeg_g2 _ this)]
  · rintro ⟨hid, rfl⟩
    refine ⟨?_, _, rfl, rfl⟩
    intro x hx
    obtain ⟨y, hy, rfl⟩ := List.mem_map.1 hx
    exact P.g2_smul_ne_zero hg y.1 (hid y hy)

/-- the verdict does not depend on the order of the triples, nor on the grouping or back end selected -/
theorem verifyMany_perm (C : Codec P) (entries entries' : List (P.G1 × P.G2)) (hp : entries.Perm entries')
    (sig : Bytes) (b b' : Bool) (gm gm' : List (P.G1 × List P.G2)) (gk gk' : List (P.G2 × List P.G1))
    (hgm : (flattenByMsg gm).Perm entries) (hgk : (flattenByKey gk).Perm entries)
    (hgm' : (flattenByMsg gm').Perm entries') (hgk' : (flattenByKey gk').Perm entries') :
    verifyManyCore C entries sig b gm gk = verifyManyCore C entries' sig b' gm' gk' := by
  have key : ∀ e1 e2 : List (P.G1 × P.G2), e1.Perm e2 → ∀ (b1 b2 : Bool) g1 k1 g2 k2,
      (flattenByMsg g1).Perm e1 → (flattenByKey k1).Perm e1 → (flattenByMsg g2).Perm e2 → (flattenByKey k2).Perm e2 →
      verifyManyCore C e1 sig b1 g1 k1 = true → verifyManyCore C e2 sig b2 g2 k2 = true := by
    intro e1 e2 hp b1 b2 g1 k1 g2 k2 h1 h2 h3 h4 hv
    obtain ⟨hid, s, hs, he⟩ := (verifyMany_spec C e1 sig b1 g1 k1 h1 h2).1 hv
    refine (verifyMany_spec C e2 sig b2 g2 k2 h3 h4).2 ⟨?_, s, hs, ?_⟩
    · intro x hx; exact hid x (hp.symm.subset hx)
    · rw [he]; exact pairingSum_perm hp
  cases h1 : verifyManyCore C entries sig b gm gk <;> cases h2 : verifyManyCore C entries' sig b' gm' gk' <;> try rfl
  · have := key _ _ hp.symm _ b _ _ gm gk hgm' hgk' hgm hgk h2
    rw [h1] at this; cases this
  · have := key _ _ hp _ b' _ _ gm' gk' hgm hgk hgm' hgk' h1
    rw [h2] at this; cases this

/-- keys that cancel on one message contribute nothing: `pk` and `-pk` on the same `h` -/
theorem pairingSum_cancel (h : P.G1) (pk : P.G2) (rest : List (P.G1 × P.G2)) :
    pairingSum ((h, pk) :: (h, -pk) :: rest) = pairingSum rest := by
  simp [pairingSum]

/-- repeated pairs are counted with multiplicity -/
theorem pairingSum_dup (h : P.G1) (pk : P.G2) (rest : List (P.G1 × P.G2)) :
    pairingSum ((h, pk) :: (h, pk) :: rest) = (2 : ZMod r) • P.e h pk + pairingSum rest := by
  simp [pairingSum, two_smul, add_assoc]

/-- `VerifyBLSSignatureOneMessage(pks, s, m, h)` equals `Verify` of `s` under the sum of `pks` -/
theorem verifyOne_eq (C : Codec P) (pks : List P.G2) (hne : pks ≠ []) (sig : Bytes) (h : P.G1) :
    verifyOneCore C pks sig h = .ok (verifyCore C pks.sum sig h) := by
  simp [verifyOneCore, aggPK, hne]

theorem verifyOne_empty (C : Codec P) (sig : Bytes) (h : P.G1) :
    verifyOneCore C ([] : List P.G2) sig h = .error .emptyList := rfl

theorem pairingSum_same_msg (h : P.G1) (pks : List P.G2) :
    pairingSum (pks.map fun pk => (h, pk)) = P.e h pks.sum := by
  unfold pairingSum
  induction pks with
  | nil => simp
  | cons a t ih =>
    simp only [List.map_cons, List.sum_cons, map_add]
    rw [← ih]

/-- one-message verification agrees with many-messages verification on the replicated message -/
theorem verifyOne_eq_many (C : Codec P) (pks : List P.G2) (hne : pks ≠ []) (hid : ∀ pk ∈ pks, pk ≠ 0)
    (hsum : pks.sum ≠ 0) (sig : Bytes) (h : P.G1) (b : Bool)
    (gm : List (P.G1 × List P.G2)) (gk : List (P.G2 × List P.G1))
    (hgm : (flattenByMsg gm).Perm (pks.map fun pk => (h, pk))) (hgk : (flattenByKey gk).Perm (pks.map fun pk => (h, pk))) :
    verifyOneCore C pks sig h = .ok (verifyManyCore C (pks.map fun pk => (h, pk)) sig b gm gk) := by
  rw [verifyOne_eq C pks hne]
  congr 1
  have hps := pairingSum_same_msg h pks
  rw [Bool.eq_iff_iff, verifyCore_true_iff, verifyMany_spec C _ sig b gm gk hgm hgk, hps]
  constructor
  · rintro ⟨_, s, hs, he⟩
    refine ⟨?_, s, hs, he⟩
    intro y hy
    obtain ⟨pk, hpk, rfl⟩ := List.mem_map.1 hy
    exact hid pk hpk
  · rintro ⟨_, s, hs, he⟩
    exact ⟨hsum, s, hs, he⟩

/-- tie: the guards of the Go function as they are now, in source order -/
theorem tie_guards (ls lp lm lk : Int) :
    Extracted.Guards.crypto_VerifyBLSSignatureManyMessages_g0 ls = decide (ls ≠ 48) ∧
    Extracted.Guards.crypto_VerifyBLSSignatureManyMessages_g1 lp = decide (lp = 0) ∧
    Extracted.Guards.crypto_VerifyBLSSignatureManyMessages_g2 lk lm lp = (decide (lp ≠ lm) || decide (lk ≠ lm)) :=
  ⟨rfl, rfl, rfl⟩

end Props.C02

#print axioms Props.C02.verifyMany_spec
#print axioms Props.C02.verifyMany_iff_sum
#print axioms Props.C02.verifyMany_perm
#print axioms Props.C02.pairingSum_cancel
#print axioms Props.C02.pairingSum_dup
#print axioms Props.C02.verifyOne_eq
#print axioms Props.C02.verifyOne_empty
#print axioms Props.C02.verifyOne_eq_many
#print axioms Props.C02.tie_guards
