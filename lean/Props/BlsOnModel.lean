import Proofs.BlsConcrete2
import Props.C02
import Props.C16
import Props.C17
import Props.C01Model

/-! # The abstract BLS theorems of C02, C16, C17 on the groups of the executable model

`Proofs/BlsConcrete.lean` instantiates the pairing setting with the groups `Model.Curve` computes in; the pairing is
the only parameter. Here the acceptance theorems of aggregate verification, proofs of possession and SPoCK are stated
for that instance, with the right-hand sides written in the functions of the model the correspondence run executes
(`Bls.signPoint`, `Bls.publicKeyOf`, `Bls.writeE2`, `Curve.sum`): for EVERY bilinear map on the `r`-torsion groups that
is non-degenerate at `g2`. -/

namespace Props.BlsOnModel
open Model Proofs.BlsConcrete Proofs.CurveGroup Proofs.CurveInst

local notation "r" => Model.Bls.r

variable (GT : Type) [AddCommGroup GT] [Module (ZMod r) GT] (e : G1 →ₗ[ZMod r] G2 →ₗ[ZMod r] GT)
  (nd : ∀ s : G1, e s g2 = 0 → s = 0)
  (Hm : Model.Bytes → Bls.P1) (hv : ∀ b, Valid Bls.p 0 4 (Hm b)) (hG : ∀ b, Bls.inG1 (Hm b) = true)

/-- a hash-to-curve function of the model with values in the subgroup, as a function into `G1` -/
noncomputable def Hg : Model.Bytes → G1 := fun b => mkG1 (Hm b) (hv b) (hG b)

/-- the key encoder of the instance -/
def encPk : G2 → Model.Bytes := fun pk => encodePk pk.1

/-- **C16 on the model's groups**: a proof of possession verifies under `sk • g2` exactly when it is the model's
    signature of the key's own encoding - `signPoint sk (H (writeE2 (publicKeyOf sk)))` -/
theorem model_pop_iff (sk : ZMod r) (hsk : sk ≠ 0) (pop : Model.Bytes) :
    Props.C16.popVerify (codec GT e nd) encPk (Hg Hm hv hG) (sk • (concrete GT e nd).g2) pop = true ↔
      pop = Bls.signPoint sk.val (Hm (Bls.writeE2 (Bls.publicKeyOf sk.val))) := by
  rw [Props.C16.pop_iff (codec GT e nd) encPk (Hg Hm hv hG) sk hsk g2_ne_zero pop]
  unfold Props.C16.popGen
  have h1 : encPk (sk • (concrete GT e nd).g2) = Bls.writeE2 (Bls.publicKeyOf sk.val) := encodePk_smul_g2 sk
  rw [h1]
  show pop = encodeF ((sk • mkG1 _ _ _ : G1) : E1P) ↔ _
  rw [encode_smul]

/-- **C17 on the model's groups**: proofs of the same data by two keys verify -/
theorem model_spock_honest (sk1 sk2 : ZMod r) (h1 : sk1 ≠ 0) (h2 : sk2 ≠ 0) (H : Bls.P1) (hv' : Valid Bls.p 0 4 H)
    (hG' : Bls.inG1 H = true) :
    spockVerify (codec GT e nd) (sk1 • (concrete GT e nd).g2) (Bls.signPoint sk1.val H)
      (sk2 • (concrete GT e nd).g2) (Bls.signPoint sk2.val H) = true := by
  rw [← encode_smul sk1 H hv' hG', ← encode_smul sk2 H hv' hG']
  exact Props.C17.spock_honest (codec GT e nd) sk1 sk2 h1 h2 g2_ne_zero (mkG1 H hv' hG')

/-- proofs over data with different hash points do not verify -/
theorem model_spock_other_data (sk1 sk2 : ZMod r) (h1 : sk1 ≠ 0) (h2 : sk2 ≠ 0) (H H' : Bls.P1)
    (hv1 : Valid Bls.p 0 4 H) (hG1 : Bls.inG1 H = true) (hv2 : Valid Bls.p 0 4 H') (hG2 : Bls.inG1 H' = true)
    (hne : H ≠ H') :
    spockVerify (codec GT e nd) (sk1 • (concrete GT e nd).g2) (Bls.signPoint sk1.val H)
      (sk2 • (concrete GT e nd).g2) (Bls.signPoint sk2.val H') = false := by
  rw [← encode_smul sk1 H hv1 hG1, ← encode_smul sk2 H' hv2 hG2]
  refine Props.C17.spock_other_data (codec GT e nd) sk1 sk2 h1 h2 (mkG1 H hv1 hG1) (mkG1 H' hv2 hG2) ?_
  intro h
  apply hne
  have : toPoint Bls.p 0 4 H = toPoint Bls.p 0 4 H' := congrArg Subtype.val h
  exact toPoint_inj Bls.p 0 4 bls_Δ _ _ hv1 hv2 this

/-- a SPoCK proof checked against an honest proof of the same data is a signature check -/
theorem model_spock_vs_verify (sk1 sk2 : ZMod r) (h1 : sk1 ≠ 0) (h2 : sk2 ≠ 0) (H : Bls.P1) (hv' : Valid Bls.p 0 4 H)
    (hG' : Bls.inG1 H = true) (p2 : Model.Bytes) :
    spockVerify (codec GT e nd) (sk1 • (concrete GT e nd).g2) (Bls.signPoint sk1.val H)
      (sk2 • (concrete GT e nd).g2) p2 = true ↔ p2 = Bls.signPoint sk2.val H := by
  rw [← encode_smul sk1 H hv' hG']
  have := Props.C17.spock_vs_verify (codec GT e nd) sk1 sk2 h1 h2 g2_ne_zero (mkG1 H hv' hG') p2
  rw [show signCore (codec GT e nd) sk1 (mkG1 H hv' hG') = encodeF ((sk1 • mkG1 H hv' hG' : G1) : E1P) from rfl] at this
  unfold pubOf at this
  exact this.trans (Props.C01Model.model_verify_iff GT e nd sk2 h2 p2 H hv' hG')

/-! ### C02: aggregate verification -/

theorem coe_list_sum (l : List G1) : ((l.sum : G1) : E1P) = (l.map fun x : G1 => x.1).sum := by
  induction l with
  | nil => rfl
  | cons x t ih => rw [List.sum_cons, List.map_cons, List.sum_cons, AddSubgroup.coe_add, ih]

/-- the encoding of `Σ sk_i • H(m_i)` in `G1` is the model's aggregate of the signatures `sk_i • H(m_i)` -/
theorem encode_sum (es : List (ZMod r × Model.Bytes)) :
    encodeF (((es.map fun x => x.1 • Hg Hm hv hG x.2).sum : G1) : E1P) =
      Bls.writeE1 (Curve.sum Bls.E1 (es.map fun x => Curve.mul Bls.E1 x.1.val (Hm x.2))) := by
  have hr800 : r < 2 ^ 800 := by decide +kernel
  have term : ∀ x : ZMod r × Model.Bytes,
      Valid Bls.p 0 4 (Curve.mul (C Bls.p 0 4) x.1.val (Hm x.2)) ∧
        toPoint Bls.p 0 4 (Curve.mul (C Bls.p 0 4) x.1.val (Hm x.2)) = ((x.1 • Hg Hm hv hG x.2 : G1) : E1P) := by
    intro x
    obtain ⟨k, hk⟩ : ∃ k, k = x.1.val := ⟨_, rfl⟩
    have m := mul_eq Bls.p 0 4 bls_Δ bls_two bls_bits k (by rw [hk]; exact lt_trans (ZMod.val_lt _) hr800) (Hm x.2) (hv x.2)
    rw [← hk]
    refine ⟨m.1, ?_⟩
    rw [m.2, torsion_smul, ← hk]
    rfl
  have s := sum_eq Bls.p 0 4 bls_Δ bls_two bls_bits (es.map fun x => Curve.mul (C Bls.p 0 4) x.1.val (Hm x.2)) (by
    intro P hP
    obtain ⟨x, _, rfl⟩ := List.mem_map.1 hP
    exact (term x).1)
  unfold encodeF
  rw [bls_E1, coe_list_sum, List.map_map]
  have : (es.map ((fun x : G1 => x.1) ∘ fun x => x.1 • Hg Hm hv hG x.2)) =
      ((es.map fun x => Curve.mul (C Bls.p 0 4) x.1.val (Hm x.2)).map (toPoint Bls.p 0 4)) := by
    rw [List.map_map]
    apply List.map_congr_left
    intro x _
    exact ((term x).2).symm
  rw [this, ← s.2, ofPoint_toPoint Bls.p 0 4 bls_Δ _ s.1]

/-- **C02 on the model's groups**: for keys `sk_i • g2` and messages `m_i`, whatever grouping and back end the code
    selects, aggregate verification accepts exactly the model's aggregate of the individual signatures (and no key
    may be the identity) -/
theorem model_verifyMany_iff (es : List (ZMod r × Model.Bytes)) (sig : Model.Bytes) (byMsg : Bool)
    (gm : List (G1 × List G2)) (gk : List (G2 × List G1))
    (hgm : (flattenByMsg (P := concrete GT e nd) gm).Perm
      ((es.map fun x => (x.1, Hg Hm hv hG x.2)).map fun x => (x.2, x.1 • (concrete GT e nd).g2)))
    (hgk : (flattenByKey (P := concrete GT e nd) gk).Perm
      ((es.map fun x => (x.1, Hg Hm hv hG x.2)).map fun x => (x.2, x.1 • (concrete GT e nd).g2))) :
    verifyManyCore (codec GT e nd)
        ((es.map fun x => (x.1, Hg Hm hv hG x.2)).map fun x => (x.2, x.1 • (concrete GT e nd).g2)) sig byMsg gm gk = true ↔
      (∀ x ∈ es, x.1 ≠ 0) ∧
        sig = Bls.writeE1 (Curve.sum Bls.E1 (es.map fun x => Curve.mul Bls.E1 x.1.val (Hm x.2))) := by
  refine (Props.C02.verifyMany_iff_sum (codec GT e nd) g2_ne_zero (es.map fun x : ZMod r × Model.Bytes => (x.1, Hg Hm hv hG x.2)) sig byMsg
    gm gk hgm hgk).trans ?_
  rw [← encode_sum Hm hv hG es]
  constructor
  · rintro ⟨h1, h2⟩
    refine ⟨fun x hx => h1 (x.1, Hg Hm hv hG x.2) (List.mem_map.2 ⟨x, hx, rfl⟩), ?_⟩
    rw [h2, List.map_map]; rfl
  · rintro ⟨h1, h2⟩
    refine ⟨?_, ?_⟩
    · intro x hx
      obtain ⟨y, hy, rfl⟩ := List.mem_map.1 hx
      exact h1 y hy
    · rw [h2, List.map_map]; rfl

end Props.BlsOnModel

#print axioms Props.BlsOnModel.model_verifyMany_iff

#print axioms Props.BlsOnModel.model_pop_iff
#print axioms Props.BlsOnModel.model_spock_honest
#print axioms Props.BlsOnModel.model_spock_other_data
#print axioms Props.BlsOnModel.model_spock_vs_verify
