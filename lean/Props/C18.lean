import Model.Threshold
import Extracted.Locks

/-! # C18 — the stateful threshold-signature object is linearizable under concurrent use

(1) Invariants of the sequential semantics `Model.Threshold.step` by induction over operation sequences.
(2) A concurrent execution in which every operation's body runs atomically (under the object's lock) is
    linearizable with the body as linearization point — for any number of threads and any interleaving.
(3) Tie: the lock discipline extracted from the code justifies (2)'s atomicity assumption for every method
    that touches mutable state. `sync.RWMutex` itself and the Go memory model are assumed (partial). -/

namespace Props.C18
open Model Model.Threshold

variable (E : Env)

/-! ### (1) sequential invariants -/

def Inv (o : Obj) : Prop :=
  o.shares.length ≤ E.threshold + 1 ∧ (o.shares.map (·.1)).Nodup ∧
  (∀ s, o.sig = some s → E.verifyGroup s = true ∧ o.shares.length = E.threshold + 1)

theorem inv_init : Inv E {} := ⟨by simp, by simp, by intro s h; cases h⟩

theorem has_iff (o : Obj) (i : Nat) : o.has i = true ↔ i ∈ o.shares.map (·.1) := by
  unfold Obj.has
  simp [List.any_eq_true, List.mem_map]

theorem addShare_inv (o : Obj) (i : Nat) (share : Bytes) (h : Inv E o)
    (hh : o.has i = false) (he : o.enough E = false) : Inv E (addShare o i share) := by
  obtain ⟨h1, h2, h3⟩ := h
  have hlt : o.shares.length < E.threshold + 1 := by
    have : o.shares.length ≠ E.threshold + 1 := by simpa [Obj.enough] using he
    omega
  refine ⟨by simp [addShare]; omega, ?_, ?_⟩
  · simp only [addShare, List.map_append, List.map_cons, List.map_nil]
    rw [List.nodup_append]
    refine ⟨h2, by simp, ?_⟩
    intro a ha b hb' hab
    simp at hb'
    subst hb' hab
    have := (has_iff o _).2 ha
    rw [hh] at this; cases this
  · intro s hs
    have := h3 s hs
    omega

theorem trustedAdd_inv (o : Obj) (orig : Int) (share : Bytes) (h : Inv E o) :
    Inv E (trustedAdd E o orig share).1 := by
  unfold trustedAdd
  by_cases h1 : badIndex E orig = true
  · rw [if_pos h1]; exact h
  rw [if_neg h1]
  by_cases h2 : o.has orig.toNat = true
  · rw [if_pos h2]; exact h
  rw [if_neg h2]
  by_cases h3 : o.enough E = true
  · rw [if_pos h3]; exact h
  rw [if_neg h3]
  exact addShare_inv E o _ share h (by simpa using h2) (by simpa using h3)

theorem verifyAndAdd_inv (o : Obj) (orig : Int) (share : Bytes) (h : Inv E o) :
    Inv E (verifyAndAdd E o orig share).1 := by
  unfold verifyAndAdd
  by_cases h1 : badIndex E orig = true
  · rw [if_pos h1]; exact h
  rw [if_neg h1]
  by_cases h2 : o.has orig.toNat = true
  · rw [if_pos h2]; exact h
  rw [if_neg h2]
  by_cases h3 : E.verifyShare orig.toNat share = true ∧ o.enough E = false
  · rw [if_pos h3]; exact addShare_inv E o _ share h (by simpa using h2) h3.2
  · rw [if_neg h3]; exact h

theorem reconstruct_sig (o : Obj) (s : Bytes) (h : reconstruct E o = .sig s) :
    E.verifyGroup s = true ∧ o.shares.length = E.threshold + 1 := by
  unfold reconstruct at h
  split at h; · cases h
  rename_i hen
  split at h; · cases h
  split at h; · cases h
  split at h
  · rename_i hv
    cases h
    exact ⟨hv, by simpa [Obj.enough] using hen⟩
  · cases h

theorem thresholdSignature_inv (o : Obj) (h : Inv E o) : Inv E (thresholdSignature E o).1 := by
  unfold thresholdSignature
  cases hs : o.sig with
  | some s => exact h
  | none =>
    simp only
    cases hr : reconstruct E o with
    | sig s =>
      obtain ⟨h1, h2, _⟩ := h
      refine ⟨h1, h2, ?_⟩
      intro s' hs'
      simp only [Option.some.injEq] at hs'
      subst hs'
      exact reconstruct_sig E o _ hr
    | _ => exact h

/-- **at most `t+1` shares, at most one share per signer, a cached threshold signature is valid** — after any
    operation -/
theorem step_inv (o : Obj) (op : Op) (h : Inv E o) : Inv E (step E o op).1 := by
  cases op with
  | trustedAdd orig share => exact trustedAdd_inv E o orig share h
  | verifyAndAdd orig share => exact verifyAndAdd_inv E o orig share h
  | hasShare orig => simp only [step]; split <;> exact h
  | enoughShares => exact h
  | verifyShare orig share => simp only [step]; split <;> exact h
  | verifyThresholdSignature s => exact h
  | thresholdSignature => exact thresholdSignature_inv E o h

/-- invariants hold after every operation sequence -/
theorem run_inv (ops : List Op) : ∀ o, Inv E o → Inv E (run E o ops).1 := by
  induction ops with
  | nil => intro o h; exact h
  | cons op ops ih => intro o h; simp only [run]; exact ih _ (step_inv E o op h)

/-- the read-only operations leave the state unchanged -/
theorem readers_pure (o : Obj) (orig : Int) (share s : Bytes) :
    (step E o (.hasShare orig)).1 = o ∧ (step E o .enoughShares).1 = o ∧
    (step E o (.verifyShare orig share)).1 = o ∧ (step E o (.verifyThresholdSignature s)).1 = o := by
  refine ⟨?_, rfl, ?_, rfl⟩ <;> (simp only [step]; split <;> rfl)

/-- **the stateless methods are history independent**: what `VerifyShare` and `VerifyThresholdSignature` return does
    not depend on the object's pool, hence not on which shares were added before (verified or not) nor on any
    concurrent writer - after any two histories `ops`, `ops'` from any two states the answers are equal -/
theorem stateless_history_independent (o o' : Obj) (ops ops' : List Op) (orig : Int) (share s : Bytes) :
    (step E (run E o ops).1 (.verifyShare orig share)).2 = (step E (run E o' ops').1 (.verifyShare orig share)).2 ∧
    (step E (run E o ops).1 (.verifyThresholdSignature s)).2 =
      (step E (run E o' ops').1 (.verifyThresholdSignature s)).2 := by
  refine ⟨?_, rfl⟩
  simp only [step]
  split <;> rfl

/-- the retained shares only grow (as a list prefix), hence `EnoughShares` never reverts to false -/
theorem shares_grow (o : Obj) (op : Op) : ∃ extra, (step E o op).1.shares = o.shares ++ extra := by
  cases op with
  | trustedAdd orig share =>
    simp only [step, trustedAdd]
    repeat' split
    all_goals first | exact ⟨_, rfl⟩ | exact ⟨[], by simp⟩
  | verifyAndAdd orig share =>
    simp only [step, verifyAndAdd]
    repeat' split
    all_goals first | exact ⟨_, rfl⟩ | exact ⟨[], by simp⟩
  | hasShare orig => simp only [step]; split <;> exact ⟨[], by simp⟩
  | enoughShares => exact ⟨[], by simp [step]⟩
  | verifyShare orig share => simp only [step]; split <;> exact ⟨[], by simp⟩
  | verifyThresholdSignature s => exact ⟨[], by simp [step]⟩
  | thresholdSignature =>
    simp only [step, thresholdSignature]
    repeat' split
    all_goals exact ⟨[], by simp⟩

theorem enough_monotone (o : Obj) (op : Op) (h : Inv E o) (he : o.enough E = true) :
    (step E o op).1.enough E = true := by
  obtain ⟨extra, hx⟩ := shares_grow E o op
  have hi := (step_inv E o op h).1
  unfold Obj.enough at *
  rw [hx] at hi ⊢
  simp only [List.length_append] at hi ⊢
  simp only [beq_iff_eq] at he ⊢
  omega

/-- once `ThresholdSignature` has succeeded, every later call returns the same signature, whatever happens in between -/
theorem sig_stable (o : Obj) (s : Bytes) (hs : o.sig = some s) (op : Op) :
    (step E o op).1.sig = some s ∧ (step E o .thresholdSignature).2 = .sig s := by
  constructor
  · cases op with
    | trustedAdd orig share =>
      simp only [step, trustedAdd]; repeat' split
      all_goals first | exact hs | (simp [addShare, hs])
    | verifyAndAdd orig share =>
      simp only [step, verifyAndAdd]; repeat' split
      all_goals first | exact hs | (simp [addShare, hs])
    | hasShare orig => simp only [step]; split <;> exact hs
    | enoughShares => exact hs
    | verifyShare orig share => simp only [step]; split <;> exact hs
    | verifyThresholdSignature s' => exact hs
    | thresholdSignature => simp [step, thresholdSignature, hs]
  · simp [step, thresholdSignature, hs]

/-- **the object never returns a threshold signature that fails verification under the group key** -/
theorem stateful_never_invalid (o : Obj) (h : Inv E o) (s : Bytes)
    (hr : (step E o .thresholdSignature).2 = .sig s) : E.verifyGroup s = true := by
  simp only [step, thresholdSignature] at hr
  cases hs : o.sig with
  | some s' =>
    simp only [hs] at hr
    cases hr
    exact (h.2.2 s hs).1
  | none =>
    simp only [hs] at hr
    cases hrec : reconstruct E o with
    | sig s' =>
      simp only [hrec] at hr
      cases hr
      exact (reconstruct_sig E o s hrec).1
    | _ => simp [hrec] at hr

/-- fewer than `t+1` shares: not-enough-shares error -/
theorem not_enough (o : Obj) (hs : o.sig = none) (he : o.enough E = false) :
    (step E o .thresholdSignature).2 = .notEnoughShares := by
  simp [step, thresholdSignature, hs, reconstruct, he]

/-! ### (2) concurrent executions with atomic bodies are linearizable -/

/-- a completed operation of a concurrent execution: its body ran atomically at logical time `body`,
    strictly between its invocation and its response -/
structure Timed where
  inv : Nat
  body : Nat
  res : Nat
  op : Op
  ret : Ret

/-- the execution semantics: bodies run one at a time (mutual exclusion), in the order of their `body` stamps;
    `sorted` lists the operations in that order and `ret` is what each body returned -/
def ValidExec (o : Obj) : List Timed → Prop
  | [] => True
  | e :: rest => e.inv < e.body ∧ e.body < e.res ∧ (step E o e.op).2 = e.ret ∧
      (∀ e' ∈ rest, e.body < e'.body) ∧ ValidExec (step E o e.op).1 rest

/-- **linearizability**: the order of the bodies is a sequential order that explains every return value … -/
theorem exec_sequential (o : Obj) (evs : List Timed) (h : ValidExec E o evs) :
    (run E o (evs.map (·.op))).2 = evs.map (·.ret) := by
  induction evs generalizing o with
  | nil => rfl
  | cons e rest ih =>
    obtain ⟨_, _, hret, _, hrest⟩ := h
    simp only [List.map_cons, run]
    rw [ih _ hrest, hret]

/-- … and is consistent with real time: an operation that responded before another was invoked is ordered first -/
theorem exec_realtime (o : Obj) (evs : List Timed) (h : ValidExec E o evs) :
    ∀ i j (hi : i < evs.length) (hj : j < evs.length), evs[i].res < evs[j].inv → i < j := by
  induction evs generalizing o with
  | nil => intro i j hi; simp at hi
  | cons e rest ih =>
    obtain ⟨h1, h2, _, hall, hrest⟩ := h
    intro i j hi hj hlt
    cases i with
    | zero =>
      cases j with
      | zero => simp at hlt; omega
      | succ j => omega
    | succ i =>
      cases j with
      | zero =>
        -- rest[i] responded before e was invoked, but e's body precedes rest[i]'s body: impossible
        exfalso
        simp only [List.getElem_cons_succ, List.getElem_cons_zero] at hlt
        have hil : i < rest.length := by simpa using hi
        have hmem : rest[i] ∈ rest := List.getElem_mem hil
        have hb := hall _ hmem
        -- rest[i].body < rest[i].res follows from validity of the tail
        have hvalid : ∀ (o' : Obj) (l : List Timed), ValidExec E o' l → ∀ x ∈ l, x.inv < x.body ∧ x.body < x.res := by
          intro o' l
          induction l generalizing o' with
          | nil => intro _ x hx; cases hx
          | cons a t iht =>
            intro hv x hx
            obtain ⟨a1, a2, _, _, at'⟩ := hv
            rcases List.mem_cons.1 hx with rfl | hx
            · exact ⟨a1, a2⟩
            · exact iht _ at' x hx
        have := hvalid _ _ hrest _ hmem
        omega
      | succ j =>
        simp only [List.getElem_cons_succ] at hlt
        have := ih _ hrest i j (by simpa using hi) (by simpa using hj) hlt
        omega

/-! ### (3) tie: lock discipline of the code as it is now -/

open Extracted.Locks

def exported (m : Method) : Bool := (m.name.toList.headD 'a').isUpper

def find? (n : String) : Option Method := methods.find? (·.name == n)

/-- does the method, directly or through methods of the object it calls, touch / write mutable state? -/
def touchesT : Nat → Method → Bool
  | 0, m => m.touchesMutable
  | f+1, m => m.touchesMutable || m.callees.any fun c => match find? c with | some m' => touchesT f m' | none => false
def writesT : Nat → Method → Bool
  | 0, m => m.writesMutable
  | f+1, m => m.writesMutable || m.callees.any fun c => match find? c with | some m' => writesT f m' | none => false
/-- is the method only ever entered with the lock held (it takes it, or all its callers are such)? -/
def underLock : Nat → Method → Bool
  | 0, m => m.lock != "none"
  | f+1, m => m.lock != "none" ||
      (!exported m && (methods.filter fun c => c.callees.contains m.name).all fun c => underLock f c)
/-- does a method holding the lock call (transitively) another method that takes it (re-entrancy)? -/
def callsLocked : Nat → Method → Bool
  | 0, _ => false
  | f+1, m => m.callees.any fun c => match find? c with
      | some m' => m'.lock != "none" || callsLocked f m'
      | none => false

/-- **lock discipline**: every method that reaches mutable state runs under the lock (taken first, released by
    defer, nothing mutable touched before); writers hold the write lock; no locked method re-enters the lock -/
theorem discipline : methods.all (fun m =>
    (m.lock == "none" || (m.deferredUnlock && !m.touchesBeforeLock &&
        m.calleesBeforeLock.all fun c => match find? c with | some m' => !(touchesT 4 m') | none => false)) &&
    (!(touchesT 4 m) || underLock 4 m) &&
    (!(exported m && writesT 4 m) || m.lock == "Lock") &&
    (m.lock == "none" || !(callsLocked 4 m))) = true := by decide

/-- the operations the property lists all exist in the code -/
theorem methods_present : ["TrustedAdd", "VerifyAndAdd", "HasShare", "EnoughShares", "VerifyShare",
    "VerifyThresholdSignature", "ThresholdSignature"].all (fun n => (find? n).isSome) = true := by decide

end Props.C18

#print axioms Props.C18.step_inv
#print axioms Props.C18.run_inv
#print axioms Props.C18.readers_pure
#print axioms Props.C18.stateless_history_independent
#print axioms Props.C18.enough_monotone
#print axioms Props.C18.sig_stable
#print axioms Props.C18.stateful_never_invalid
#print axioms Props.C18.not_enough
#print axioms Props.C18.exec_sequential
#print axioms Props.C18.exec_realtime
#print axioms Props.C18.discipline
#print axioms Props.C18.methods_present
