import Model.Bls
import Model.Ecdsa
import Proofs.Bytes
import Proofs.E2Codec
import Proofs.EcdsaCodec
import Extracted.Consts

/-! # C05 — serialization is canonical and validating

Theorems about the byte codecs of the model (`Model.Bls`, `Model.Ecdsa`): for every byte string a
decoder either rejects it or accepts it and the encoder gives the same bytes back; accepted private keys
are exactly the 32-byte scalars in `[1, order-1]`; the compressed point codecs of BLS12-381 (E1: signatures,
E2: public keys) accept exactly the canonical encodings of reduced curve points and round-trip on all of them
(primality of `p` by a Pratt certificate, `p ≡ 3 mod 4`, completeness of the F_p and F_p² square roots, no
point with `y = 0` on either curve); the same for X9.62-compressed ECDSA public keys on P-256 and secp256k1
(no 2-torsion: `x³ - 3x + b` has no root mod p by `gcd(x^p - x, f) = 1` computed in the kernel; `-7` is not a cube). -/

namespace Props.C05
open Model

/-! ### BLS private keys -/

theorem readFr_ok_iff (b : Bytes) (x : Nat) :
    Bls.readFr b = .ok x ↔ b.length = 32 ∧ beNat b = x ∧ x < Bls.r := by
  unfold Bls.readFr
  split
  · simp_all
  · split
    · simp only [reduceCtorEq, false_iff]; omega
    · simp only [Except.ok.injEq]; omega

theorem readFrStar_ok_iff (b : Bytes) (x : Nat) :
    Bls.readFrStar b = .ok x ↔ b.length = 32 ∧ beNat b = x ∧ 0 < x ∧ x < Bls.r := by
  unfold Bls.readFrStar
  split
  · next e he =>
    simp only [reduceCtorEq, false_iff]
    intro h
    have := (readFr_ok_iff b x).2 ⟨h.1, h.2.1, h.2.2.2⟩
    rw [he] at this; cases this
  · next y hy =>
    have hy' := (readFr_ok_iff b y).1 hy
    split
    · simp only [reduceCtorEq, false_iff]; omega
    · simp only [Except.ok.injEq]; omega

/-- accepted BLS private keys are exactly the 32-byte big-endian scalars in `[1, r-1]` -/
theorem bls_sk_accepts_iff (b : Bytes) (x : Nat) :
    Bls.decodePrivateKey b = some x ↔ b.length = 32 ∧ beNat b = x ∧ 0 < x ∧ x < Bls.r := by
  rw [← readFrStar_ok_iff]
  unfold Bls.decodePrivateKey
  split <;> simp_all

/-- **canonical**: whatever `DecodePrivateKey` accepts re-encodes to exactly the input bytes -/
theorem bls_sk_canonical (b : Bytes) (x : Nat) (h : Bls.decodePrivateKey b = some x) :
    Bls.writeFr x = b := by
  obtain ⟨hl, hx, _, _⟩ := (bls_sk_accepts_iff b x).1 h
  unfold Bls.writeFr
  rw [← hx, ← hl, natBE_beNat]

/-- **round trip**: every scalar in `[1, r-1]` encodes to bytes that decode back to it -/
theorem bls_sk_roundtrip (x : Nat) (h0 : 0 < x) (hr : x < Bls.r) :
    Bls.decodePrivateKey (Bls.writeFr x) = some x := by
  rw [bls_sk_accepts_iff]
  unfold Bls.writeFr
  refine ⟨natBE_length _ _, ?_, h0, hr⟩
  rw [beNat_natBE]
  apply Nat.mod_eq_of_lt
  have : Bls.r < 256 ^ 32 := by decide
  omega

/-! ### ECDSA private keys (both curves) -/

theorem ecdsa_sk_accepts_iff (S : Ecdsa.CurveSpec) (b : Bytes) (d : Nat) :
    Ecdsa.decodePrivateKey S b = some d ↔ b.length = 32 ∧ beNat b = d ∧ 0 < d ∧ d < S.n := by
  unfold Ecdsa.decodePrivateKey
  split
  · simp_all
  · simp only
    split
    · simp only [reduceCtorEq, false_iff]; omega
    · split
      · simp only [reduceCtorEq, false_iff]; omega
      · simp only [Option.some.injEq]; omega

theorem ecdsa_sk_canonical (S : Ecdsa.CurveSpec) (b : Bytes) (d : Nat)
    (h : Ecdsa.decodePrivateKey S b = some d) : natBE 32 d = b := by
  obtain ⟨hl, hx, _, _⟩ := (ecdsa_sk_accepts_iff S b d).1 h
  rw [← hx, ← hl, natBE_beNat]

/-! ### ECDSA raw public keys -/

/-- accepted raw public keys are exactly the reduced coordinate pairs on the curve -/
theorem ecdsa_pk_accepts_iff (S : Ecdsa.CurveSpec) (b : Bytes) (Q : Nat × Nat) :
    Ecdsa.decodePublicKey S b = some Q ↔
      b.length = 64 ∧ Q = (beNat (b.take 32), beNat (b.drop 32)) ∧ Q.1 < S.p ∧ Q.2 < S.p ∧
      Curve.onCurve S.C (some Q) = true := by
  unfold Ecdsa.decodePublicKey
  split
  · simp_all
  · simp only
    split
    · simp only [reduceCtorEq, false_iff]
      rintro ⟨_, rfl, h1, h2, _⟩
      simp only at h1 h2
      omega
    · split
      · next hc =>
        simp only [Option.some.injEq]
        constructor
        · rintro rfl; exact ⟨by omega, rfl, by simp only; omega, by simp only; omega, hc⟩
        · rintro ⟨_, rfl, _⟩; rfl
      · next hc =>
        simp only [reduceCtorEq, false_iff]
        rintro ⟨_, rfl, _, _, h⟩
        exact hc h

/-- **canonical**: an accepted raw public key re-encodes to the input -/
theorem ecdsa_pk_canonical (S : Ecdsa.CurveSpec) (b : Bytes) (Q : Nat × Nat)
    (h : Ecdsa.decodePublicKey S b = some Q) : Ecdsa.encodePublicKey Q = b := by
  obtain ⟨hl, rfl, _, _, _⟩ := (ecdsa_pk_accepts_iff S b Q).1 h
  unfold Ecdsa.encodePublicKey
  have h1 : (b.take 32).length = 32 := by simp [hl]
  have h2 : (b.drop 32).length = 32 := by simp [hl]
  have e1 := natBE_beNat (b.take 32)
  have e2 := natBE_beNat (b.drop 32)
  rw [h1] at e1; rw [h2] at e2
  simp only [e1, e2, List.take_append_drop]

/-! ### BLS points: signatures (E1, 48 bytes) and public keys (E2, 96 bytes) -/

/-- **signature parsing is canonical and validating**: `E1_read_bytes` returns `P` on `b` exactly when `P` is a
    reduced point of `y² = x³ + 4` (or infinity) and `b` is its compressed serialization -/
theorem bls_sig_accepts_iff (b : Bytes) (P : Bls.P1) :
    Bls.readE1 b = .ok P ↔ (Proofs.E1Codec.Valid P ∧ Bls.writeE1 P = b) := Proofs.E1Codec.e1_accepts_iff b P

/-- accepted signature bytes re-encode to exactly the input -/
theorem bls_sig_canonical (b : Bytes) (P : Bls.P1) (h : Bls.readE1 b = .ok P) : Bls.writeE1 P = b :=
  Proofs.E1Codec.e1_canonical b P h

/-- every point the package can produce (a reduced curve point) encodes to bytes that decode back to it -/
theorem bls_sig_roundtrip (P : Bls.P1) (h : Proofs.E1Codec.Valid P) : Bls.readE1 (Bls.writeE1 P) = .ok P :=
  Proofs.E1Codec.e1_roundtrip P h

/-- the same three facts for `E2_read_bytes` / `E2_write_bytes` -/
theorem bls_e2_accepts_iff (b : Bytes) (P : Bls.P2) :
    Bls.readE2 b = .ok P ↔ (Proofs.E2Codec.Valid P ∧ Bls.writeE2 P = b) := Proofs.E2Codec.e2_accepts_iff b P

/-- **accepted BLS public keys are exactly the canonical compressed encodings of G2 elements, including the
    identity**: `DecodePublicKey` returns `P` on `b` iff `P` is a reduced curve point (or infinity) with
    `r • P = O` and `b` is its serialization -/
theorem bls_pk_accepts_iff (b : Bytes) (P : Bls.P2) :
    Bls.decodePublicKey b = some P ↔ (Proofs.E2Codec.Valid P ∧ Bls.inG2 P = true ∧ Bls.writeE2 P = b) := by
  unfold Bls.decodePublicKey
  constructor
  · intro h
    split at h
    · cases h
    cases hr : Bls.readE2 b with
    | error e => rw [hr] at h; cases h
    | ok Q =>
      rw [hr] at h
      dsimp only at h
      split at h
      · rename_i hg
        have := Option.some.inj h
        subst this
        obtain ⟨hv, hw⟩ := (bls_e2_accepts_iff b Q).1 hr
        exact ⟨hv, hg, hw⟩
      · cases h
  · rintro ⟨hv, hg, hw⟩
    have hr := (bls_e2_accepts_iff b P).2 ⟨hv, hw⟩
    have hl : b.length = 96 := by
      unfold Bls.readE2 at hr
      split at hr
      · cases hr
      · omega
    rw [if_neg (by omega), hr]
    dsimp only
    rw [if_pos hg]

/-- an accepted public key re-encodes to exactly the input bytes, and is in G2 -/
theorem bls_pk_canonical (b : Bytes) (P : Bls.P2) (h : Bls.decodePublicKey b = some P) :
    Bls.writeE2 P = b ∧ Bls.inG2 P = true :=
  let ⟨_, hg, hw⟩ := (bls_pk_accepts_iff b P).1 h; ⟨hw, hg⟩

/-- every G2 element (the identity included) encodes to bytes that decode back to it -/
theorem bls_pk_roundtrip (P : Bls.P2) (hv : Proofs.E2Codec.Valid P) (hg : Bls.inG2 P = true) :
    Bls.decodePublicKey (Bls.writeE2 P) = some P := (bls_pk_accepts_iff _ P).2 ⟨hv, hg, rfl⟩

/-- the identity public key is the one byte string `C0 00 … 00` -/
theorem bls_pk_identity (b : Bytes) : Bls.decodePublicKey b = some none ↔ b = 0xC0 :: zeros 95 := by
  rw [bls_pk_accepts_iff]
  constructor
  · rintro ⟨_, _, hw⟩; exact hw.symm
  · intro h
    exact ⟨fun x y hxy => (nomatch hxy), by decide +kernel, h.symm⟩

/-! ### X9.62-compressed ECDSA public keys -/

/-- **accepted compressed ECDSA public keys are exactly the canonical encodings `02/03 ‖ X` of the reduced points
    of the curve** (P-256) -/
theorem ecdsa_p256_compressed_iff (b : Bytes) (Q : Nat × Nat) :
    Ecdsa.decodePublicKeyCompressed Ecdsa.p256 b = some Q ↔
      (Proofs.EcdsaCodec.Valid Ecdsa.p256 Q ∧ Ecdsa.encodePublicKeyCompressed Q = b) :=
  Proofs.EcdsaCodec.pkc_accepts_iff _ Proofs.EcdsaCodec.good_p256 b Q

/-- the same for secp256k1 -/
theorem ecdsa_k256_compressed_iff (b : Bytes) (Q : Nat × Nat) :
    Ecdsa.decodePublicKeyCompressed Ecdsa.k256 b = some Q ↔
      (Proofs.EcdsaCodec.Valid Ecdsa.k256 Q ∧ Ecdsa.encodePublicKeyCompressed Q = b) :=
  Proofs.EcdsaCodec.pkc_accepts_iff _ Proofs.EcdsaCodec.good_k256 b Q

/-- neither curve has a point with `y = 0` (no 2-torsion) -/
theorem ecdsa_no_two_torsion :
    (∀ t : ZMod Ecdsa.p256P, t ^ 3 + (Ecdsa.p256.C.a : ZMod Ecdsa.p256P) * t + (Ecdsa.p256.C.b : ZMod Ecdsa.p256P) ≠ 0) ∧
    (∀ t : ZMod Ecdsa.k256P, t ^ 3 + (Ecdsa.k256.C.a : ZMod Ecdsa.k256P) * t + (Ecdsa.k256.C.b : ZMod Ecdsa.k256P) ≠ 0) :=
  ⟨Proofs.EcdsaRoots.p256_no_root, Proofs.EcdsaRoots.k256_no_root⟩

/-! ### lengths: the decoders accept exactly one length each (tie to the constants of the code) -/

theorem bls_pk_length (b : Bytes) (h : (Bls.decodePublicKey b).isSome) : b.length = 96 := by
  unfold Bls.decodePublicKey at h
  split at h
  · simp at h
  · omega

theorem bls_sig_length (b : Bytes) (P : Bls.P1) (h : Bls.readE1 b = .ok P) : b.length = 48 := by
  unfold Bls.readE1 at h
  split at h
  · cases h
  · omega

theorem tie_lengths :
    Extracted.Consts.crypto_PrKeyLenBLSBLS12381 = 32 ∧ Extracted.Consts.crypto_PubKeyLenBLSBLS12381 = 96 ∧
    Extracted.Consts.crypto_SignatureLenBLSBLS12381 = 48 ∧ Extracted.Consts.crypto__Ciconst_Fr_BYTES = 32 ∧
    Extracted.Consts.crypto__Ciconst_G1_SER_BYTES = 48 ∧ Extracted.Consts.crypto__Ciconst_G2_SER_BYTES = 96 ∧
    Extracted.Consts.crypto_PrKeyLenECDSAP256 = 32 ∧ Extracted.Consts.crypto_PubKeyLenECDSAP256 = 64 ∧
    Extracted.Consts.crypto_PrKeyLenECDSASecp256k1 = 32 ∧ Extracted.Consts.crypto_PubKeyLenECDSASecp256k1 = 64 := by
  decide

/-! ### non-vacuity -/

example : Bls.decodePrivateKey (Bls.writeFr 5) = some 5 := bls_sk_roundtrip 5 (by decide) (by decide)
example : (Ecdsa.decodePublicKey Ecdsa.p256 (Ecdsa.encodePublicKey
    (0x6b17d1f2e12c4247f8bce6e563a440f277037d812deb33a0f4a13945d898c296,
     0x4fe342e2fe1a7f9b8ee7eb4a7c0f9e162bce33576b315ececbb6406837bf51f5))).isSome := by decide +kernel

end Props.C05

#print axioms Props.C05.readFrStar_ok_iff
#print axioms Props.C05.bls_sk_accepts_iff
#print axioms Props.C05.bls_sk_canonical
#print axioms Props.C05.bls_sk_roundtrip
#print axioms Props.C05.ecdsa_sk_accepts_iff
#print axioms Props.C05.ecdsa_sk_canonical
#print axioms Props.C05.ecdsa_pk_accepts_iff
#print axioms Props.C05.ecdsa_pk_canonical
#print axioms Props.C05.bls_pk_length
#print axioms Props.C05.bls_sig_length
#print axioms Props.C05.tie_lengths
#print axioms Props.C05.bls_sig_accepts_iff
#print axioms Props.C05.bls_sig_canonical
#print axioms Props.C05.bls_sig_roundtrip
#print axioms Props.C05.bls_e2_accepts_iff
#print axioms Props.C05.bls_pk_accepts_iff
#print axioms Props.C05.bls_pk_canonical
#print axioms Props.C05.bls_pk_roundtrip
#print axioms Props.C05.bls_pk_identity
#print axioms Props.C05.ecdsa_p256_compressed_iff
#print axioms Props.C05.ecdsa_k256_compressed_iff
#print axioms Props.C05.ecdsa_no_two_torsion
