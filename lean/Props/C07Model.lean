import Proofs.BlsFeldman
import Proofs.BlsLaws
import Proofs.DkgEmit
import Props.C05

/-! # C07 / C08 (executable model) — the Feldman check of the BLS crypto record the driver runs accepts exactly what an
honest dealer sends: by the group law of `E2` (Mathlib), not by sampling -/

namespace Props.C07Model
open Model Model.Curve

/-- **the Feldman identity in the executable model**: the image of the commitment vector `(a_k • g2)_k` at `x`, computed
    "in the exponent" by the model of `E2_polynomial_image`, is `f(x) • g2` for the value `f(x)` the model of
    `Fr_polynomial_image` gives the dealer -/
theorem bls_feldman_identity (a : List ℕ) (ha : ∀ c ∈ a, c < 2 ^ 800) (x : ℕ) (hx : x < 2 ^ 800) :
    Driver.Dkg.polyImageE2 (a.map fun c => Curve.mul Bls.E2 c Bls.g2) x =
      Curve.mul Bls.E2 (Driver.Dkg.polyEval a x) Bls.g2 := Proofs.BlsFeldman.feldman a ha x hx

/-- **an honest dealer's shares pass the receiver's check**: whatever the polynomial `a` (coefficients below `2^800`),
    the group size (below `2^800`; the constructor allows at most 254) and the receiver `i`, the vector a receiver derives from the dealer's commitments (public key shares
    computed in the exponent, as `readVec` does) and the share `a(i+1)` the dealer sends satisfy `checkLog` of the
    BLS record the driver runs -/
theorem bls_honest_share_passes_check (a : List ℕ) (ha : ∀ c ∈ a, c < 2 ^ 800) (size i : ℕ) (hs : size < 2 ^ 800)
    (hi : i < size) (a0 : Bls.P2) :
    Driver.Dkg.blsOps.checkLog
      ({ a0 := a0, ys := (List.range size).map fun j =>
          Driver.Dkg.polyImageE2 (a.map fun c => Curve.mul Bls.E2 c Bls.g2) (j + 1) } : Driver.Dkg.Vec)
      i (Driver.Dkg.polyEval a (i + 1)) = true := by
  show (match ((List.range size).map fun j =>
      Driver.Dkg.polyImageE2 (a.map fun c => Curve.mul Bls.E2 c Bls.g2) (j + 1))[i]? with
    | some y => Curve.mul Bls.E2 (Driver.Dkg.polyEval a (i + 1)) Bls.g2 == y
    | none => false) = true
  have hx : i + 1 < 2 ^ 800 := by omega
  rw [List.getElem?_map, List.getElem?_range hi]
  simp only [Option.map_some]
  rw [bls_feldman_identity a ha (i + 1) hx]
  exact beq_self_eq_true _

/-- the vector reader of the BLS record accepts what its writer produces and derives the public key shares of the same
    polynomial (codec round trip of `E2`, membership of the multiples of `g2`, Feldman identity) -/
theorem bls_vector_reader_accepts_writer (a : List ℕ) (ha : ∀ c ∈ a, c < 2 ^ 800) (t size : ℕ)
    (hlen : a.length = t + 1) (hs : size < 2 ^ 800) :
    Driver.Dkg.blsOps.readVec t size (Driver.Dkg.blsOps.vecBytes a) = some (Driver.Dkg.blsOps.vecOfPoly size a) :=
  Proofs.BlsLaws.readVec_vecBytes a ha t size hlen hs

/-- **the laws `OpsLaws` hold for the BLS crypto record the driver runs against the implementation**, for every
    polynomial of `threshold + 1` coefficients below `2^800` (the dealer's are below `r`) and every group size the
    constructor allows: so `Props.C07.receiver_accepts_dealer_emission` applies to the real record, not only to toy ones -/
theorem bls_ops_laws (size threshold : ℕ) (a : List ℕ) (ha : ∀ c ∈ a, c < 2 ^ 800) (hlen : a.length = threshold + 1)
    (hs : size < 2 ^ 800) : Proofs.DkgAgree.OpsLaws Driver.Dkg.blsOps size threshold a := by
  have hr0 : 0 < Bls.r := by decide +kernel
  have pe : ∀ i, Driver.Dkg.polyEval a i < Bls.r := fun i => by
    rw [Proofs.BlsFeldman.polyEval_mod]; exact Nat.mod_lt _ hr0
  refine ⟨?_, bls_vector_reader_accepts_writer a ha threshold size hlen hs, ?_, ?_, ?_⟩
  · show (a.flatMap fun c => Bls.writeE2 (Curve.mul Bls.E2 c Bls.g2)).length = Model.Dkg.verifVectorSize * (threshold + 1)
    rw [← hlen]
    clear hlen ha pe
    induction a with
    | nil => rfl
    | cons c t ih =>
      rw [List.flatMap_cons, List.length_append, Proofs.BlsLaws.writeE2_length, ih, List.length_cons]
      unfold Model.Dkg.verifVectorSize
      ring
  · intro i
    show (Bls.writeFr (Driver.Dkg.polyEval a i)).length = Model.Dkg.shareSize
    unfold Bls.writeFr
    rw [Model.natBE_length]; rfl
  · intro i hne
    show (match Bls.readFrStar (Bls.writeFr (Driver.Dkg.polyEval a i)) with | .ok x => some x | .error _ => none) =
      some (Driver.Dkg.polyEval a i)
    have : Bls.readFrStar (Bls.writeFr (Driver.Dkg.polyEval a i)) = .ok (Driver.Dkg.polyEval a i) := by
      rw [Props.C05.readFrStar_ok_iff]
      unfold Bls.writeFr
      have h256 : (256 : ℕ) ^ 32 = 2 ^ 256 := by norm_num
      have hr256 : Bls.r < 2 ^ 256 := by decide +kernel
      refine ⟨Model.natBE_length _ _, ?_, Nat.pos_of_ne_zero hne, pe i⟩
      rw [Model.beNat_natBE, h256, Nat.mod_eq_of_lt (lt_trans (pe i) hr256)]
    rw [this]
  · intro i hi
    show (match ((List.range size).map fun j => Curve.mul Bls.E2 (Driver.Dkg.polyEval a (j + 1)) Bls.g2)[i]? with
      | some y => Curve.mul Bls.E2 (Driver.Dkg.polyEval a (i + 1)) Bls.g2 == y
      | none => false) = true
    rw [List.getElem?_map, List.getElem?_range hi]
    simp only [Option.map_some]
    exact beq_self_eq_true _

end Props.C07Model

#print axioms Props.C07Model.bls_feldman_identity
#print axioms Props.C07Model.bls_honest_share_passes_check
#print axioms Props.C07Model.bls_vector_reader_accepts_writer
#print axioms Props.C07Model.bls_ops_laws
