import Proofs.BlsFeldman

/-! # C07 / C08 (executable model) — the Feldman check of the BLS crypto record the driver runs accepts exactly what an
honest dealer sends: by the group law of `E2` (Mathlib), not by sampling -/

namespace Props.C07Model
open Model Model.Curve

/-- **the Feldman identity in the executable model**: the image of the commitment vector `(a_k • g2)_k` at `x`, computed
    "in the exponent" by the model of `E2_polynomial_image`, is `f(x) • g2` for the value `f(x)` the model of
    `Fr_polynomial_image` gives the dealer -/
theorem bls_feldman_identity (a : List ℕ) (ha : ∀ c ∈ a, c < 2 ^ 800) (x : ℕ) (hx : x < 2 ^ 800) :
    Driver.Dkg.polyImageE2 (a.map fun c => Curve.mul Bls.E2 c Bls.g2) x =
      Curve.mul Bls.E2 (Driver.Dkg.polyEval a x) Bls.g2 := Proofs.BlsFeldman.feldman a ha x hx

/-- **an honest dealer's shares pass the receiver's check**: whatever the polynomial `a` (coefficients below `2^800`),
    the group size (below `2^800`; the constructor allows at most 254) and the receiver `i`, the vector a receiver derives from the dealer's commitments (public key shares
    computed in the exponent, as `readVec` does) and the share `a(i+1)` the dealer sends satisfy `checkLog` of the
    BLS record the driver runs -/
theorem bls_honest_share_passes_check (a : List ℕ) (ha : ∀ c ∈ a, c < 2 ^ 800) (size i : ℕ) (hs : size < 2 ^ 800)
    (hi : i < size) (a0 : Bls.P2) :
    Driver.Dkg.blsOps.checkLog
      ({ a0 := a0, ys := (List.range size).map fun j =>
          Driver.Dkg.polyImageE2 (a.map fun c => Curve.mul Bls.E2 c Bls.g2) (j + 1) } : Driver.Dkg.Vec)
      i (Driver.Dkg.polyEval a (i + 1)) = true := by
  show (match ((List.range size).map fun j =>
      Driver.Dkg.polyImageE2 (a.map fun c => Curve.mul Bls.E2 c Bls.g2) (j + 1))[i]? with
    | some y => Curve.mul Bls.E2 (Driver.Dkg.polyEval a (i + 1)) Bls.g2 == y
    | none => false) = true
  have hx : i + 1 < 2 ^ 800 := by omega
  rw [List.getElem?_map, List.getElem?_range hi]
  simp only [Option.map_some]
  rw [bls_feldman_identity a ha (i + 1) hx]
  exact beq_self_eq_true _

end Props.C07Model

#print axioms Props.C07Model.bls_feldman_identity
#print axioms Props.C07Model.bls_honest_share_passes_check
