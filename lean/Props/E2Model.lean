import Proofs.CurveInst2

/-! # C04 / C12 (executable model, `E2`) — public keys: the arithmetic of `E2` in the model is the group of the curve
over `F_p²` (Mathlib), so the BLS public key of the model is `sk • g2`, aggregation of public keys is the group sum,
and the public key of the aggregated private key is the aggregate of the public keys -/

namespace Props.E2Model
open Model Model.Curve Proofs.CurveGroup2 Proofs.CurveInst2

/-- the group element a point of the model's `E2` stands for -/
noncomputable abbrev pt2 (P : Bls.P2) : (W Bls.p (0, 0) (4, 4)).Point := toPoint Bls.p (0, 0) (4, 4) P

/-- **the BLS public key of the model is `sk • g2`** in the group of points of `E2` over `F_p²`, and a canonical point -/
theorem bls_public_key_is_scalar_mul (sk : ℕ) (h : sk < 2 ^ 800) :
    Valid Bls.p (0, 0) (4, 4) (Bls.publicKeyOf sk) ∧ pt2 (Bls.publicKeyOf sk) = sk • pt2 Bls.g2 :=
  mul_eq Bls.p (0, 0) (4, 4) bls2_Δ bls2_two bls2_bits sk h Bls.g2 bls_g2_valid

/-- aggregation of public keys in the model is the sum in the group, hence independent of the order -/
theorem model_pk_sum_is_group_sum (ps : List Bls.P2) (h : ∀ P ∈ ps, Valid Bls.p (0, 0) (4, 4) P) :
    pt2 (Curve.sum Bls.E2 ps) = (ps.map pt2).sum :=
  (sum_eq Bls.p (0, 0) (4, 4) bls2_Δ bls2_two bls2_bits ps h).2

theorem model_pk_sum_order_independent (ps qs : List Bls.P2) (h : ∀ P ∈ ps, Valid Bls.p (0, 0) (4, 4) P)
    (hperm : ps.Perm qs) : Curve.sum Bls.E2 ps = Curve.sum Bls.E2 qs :=
  sum_perm Bls.p (0, 0) (4, 4) bls2_Δ bls2_two bls2_bits ps qs h hperm

/-- **the public key of the aggregated private key is the aggregate of the public keys, in the executable model** -/
theorem model_pk_of_aggregated_key (k1 k2 : ℕ) (h1 : k1 < Bls.r) (h2 : k2 < Bls.r) :
    Bls.publicKeyOf ((k1 + k2) % Bls.r) = Curve.sum Bls.E2 [Bls.publicKeyOf k1, Bls.publicKeyOf k2] := by
  have hr : Bls.r < 2 ^ 800 := by decide +kernel
  have m1 := bls_public_key_is_scalar_mul k1 (by omega)
  have m2 := bls_public_key_is_scalar_mul k2 (by omega)
  have m3 := bls_public_key_is_scalar_mul ((k1 + k2) % Bls.r) (lt_trans (Nat.mod_lt _ (by decide +kernel)) hr)
  have mr := bls_public_key_is_scalar_mul Bls.r hr
  have hnone : Bls.publicKeyOf Bls.r = none := by decide +kernel
  have e0 : Bls.r • toPoint Bls.p (0, 0) (4, 4) Bls.g2 = 0 := by
    have := mr.2
    rw [hnone] at this
    exact this.symm
  have s := sum_eq Bls.p (0, 0) (4, 4) bls2_Δ bls2_two bls2_bits [Bls.publicKeyOf k1, Bls.publicKeyOf k2] (by
    intro P hP
    simp only [List.mem_cons, List.not_mem_nil, or_false] at hP
    rcases hP with rfl | rfl
    · exact m1.1
    · exact m2.1)
  apply toPoint_inj Bls.p (0, 0) (4, 4) bls2_Δ _ _ m3.1 s.1
  have e1 : toPoint Bls.p (0, 0) (4, 4) (Bls.publicKeyOf k1) = k1 • toPoint Bls.p (0, 0) (4, 4) Bls.g2 := m1.2
  have e2 : toPoint Bls.p (0, 0) (4, 4) (Bls.publicKeyOf k2) = k2 • toPoint Bls.p (0, 0) (4, 4) Bls.g2 := m2.2
  have e3 : toPoint Bls.p (0, 0) (4, 4) (Bls.publicKeyOf ((k1 + k2) % Bls.r)) =
      ((k1 + k2) % Bls.r) • toPoint Bls.p (0, 0) (4, 4) Bls.g2 := m3.2
  rw [e3, s.2]
  simp only [List.map_cons, List.map_nil, List.sum_cons, List.sum_nil, add_zero]
  rw [e1, e2, ← add_smul]
  conv_rhs => rw [← Nat.mod_add_div' (k1 + k2) Bls.r, add_smul, mul_smul, e0, nsmul_zero, add_zero]

end Props.E2Model

#print axioms Props.E2Model.bls_public_key_is_scalar_mul
#print axioms Props.E2Model.model_pk_sum_is_group_sum
#print axioms Props.E2Model.model_pk_sum_order_independent
#print axioms Props.E2Model.model_pk_of_aggregated_key
