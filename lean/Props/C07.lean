import Model.Dkg
import Proofs.DkgFlags
import Props.C08
import Proofs.DkgRounds
import Proofs.DkgJoint
import Proofs.DkgShare
import Proofs.DkgAgree
import Proofs.DkgNonzero
import Proofs.DkgJointAgree
import Proofs.DkgJointEnd
import Proofs.DkgEmit
import Proofs.DkgAnswer
import Driver.Dkg

/-! # C07 — DKG: honest participants agree on the verdict and on consistent keys

Model-level theorems about what `End` returns (every crypto-operations record, every state), and the
**schedule quantifier**: at an honest participant of Feldman-VSS-Qual other than the dealer, any two deliveries
the network may reorder commute (`delivery_pair_commutes`), the state after a round does not depend on the
delivery order (`round_order_independent`), and `End` returns the same verdict and keys for every delivery
order of each round (`end_result_order_independent`); the same for Joint-Feldman, where the participant is also
the dealer of one of the `n` parallel instances (`joint_end_order_independent`). **Agreement between different
participants** of one Feldman-VSS-Qual execution is `honest_receivers_agree` (`Proofs/DkgAgree.lean`): two honest
participants that are not the dealer leave `End` with the same public result under reliable broadcast and round
synchrony, for every behaviour of everybody else and every delivery order. What remains by correspondence only:
the two instances of a Joint-Feldman execution whose dealer is one of the two participants themselves (there the
comparison is between the dealer's own view and a receiver's; `honest_dealer_never_disqualified` of C08 covers the
receiver's side); every other instance is covered by `joint_instances_agree`. -/

namespace Props.C07
open Model Model.Dkg

variable {O : Ops}

/-- Feldman-VSS-Qual: when `End` returns keys the dealer is not disqualified, no registered complaint is
    unanswered, the keys are those of the one stored valid vector, and the private share is non-zero -/
theorem fvssq_keys_shape (s : St O) (x : Nat) (Y : Bytes) (ys : List Bytes)
    (hk : (FvssQ.endBody s).2.2 = .keys x Y ys) :
    s.disqualified = false ∧
    s.complaints.any (fun kc => kc.2.received && !kc.2.answerReceived) = false ∧
    ∃ v, s.vA = some v ∧ Y = O.groupKey v ∧ ys = O.pubShares v ∧ x = s.x ∧ x ≠ 0 ∧
      O.groupKeyIsIdentity v = false := by
  unfold FvssQ.endBody FvssQ.settle at hk
  by_cases hd : s.disqualified = true
  · simp [hd] at hk
  · have hd' : s.disqualified = false := by simpa using hd
    by_cases hu : s.complaints.any (fun kc => kc.2.received && !kc.2.answerReceived) = true
    · simp [hd', hu] at hk
    · have hu' : s.complaints.any (fun kc => kc.2.received && !kc.2.answerReceived) = false := by simpa using hu
      simp only [hd', hu', Bool.not_false, Bool.false_eq_true, and_false, ↓reduceIte] at hk
      cases hv : s.vA with
      | none => simp [hv] at hk
      | some v =>
        simp only [hv] at hk
        split at hk; · cases hk
        split at hk; · cases hk
        rename_i h0 hid
        cases hk
        exact ⟨hd', hu', v, rfl, rfl, rfl, rfl, h0, by simpa using hid⟩

/-- the verdict of `End` is a function of the disqualification flag, the complaint table, the stored vector
    and share: two instances that agree on these return the same result -/
theorem end_verdict_function (s s' : St O) (h1 : s.disqualified = s'.disqualified)
    (h2 : s.complaints = s'.complaints) (h3 : s.vA = s'.vA) (h4 : s.x = s'.x) :
    (FvssQ.endBody s).2.2 = (FvssQ.endBody s').2.2 := by
  unfold FvssQ.endBody FvssQ.settle
  simp only [h1, h2, h3, h4]
  repeat' (first | split | (simp only []; split))
  all_goals simp_all

/-- Joint-Feldman: `End` fails when more than `t` dealers are disqualified or fewer than `t+1` remain;
    otherwise the keys are the sums over the qualified instances -/
theorem joint_end_shape (j : JSt O) (hr : j.jointRunning = true)
    (ht : j.fvss.any (fun s => !s.sharesTimeout || !s.complaintsTimeout) = false) :
    let fv := (j.fvss.map FvssQ.settle).map (·.1)
    let disq := (fv.filter (·.disqualified)).length
    (disq > j.threshold ∨ j.size - disq ≤ j.threshold → (Joint.end_ j).2.2 = .failure) ∧
    (Joint.end_ j).1.jointRunning = false := by
  unfold Joint.end_
  simp only [hr, ht, Bool.not_true, Bool.false_eq_true, ↓reduceIte]
  constructor
  · intro h
    rw [if_pos h]
  · repeat' (first | split | (simp only []; split))
    all_goals rfl

/-! ### the verdict does not depend on the delivery order within a round -/

open Proofs.DkgCommute in
/-- the state of a participant other than the dealer right after `Start` satisfies the invariants -/
theorem inv_after_start (size threshold me dealer : Nat) (h : me ≠ dealer) :
    Inv ({ size := size, threshold := threshold, me := me, dealer := dealer, running := true } : St O) := by
  refine ⟨h, List.nodup_nil, ?_, ?_, ?_⟩
  · intro k c hc; cases hc
  · intro hv; cases hv
  · intro c hc; cases hc

open Proofs.DkgCommute in
/-- that state is what `Start` produces at a non-dealer -/
theorem start_state (size threshold me dealer : Nat) (h : dealer ≠ me) (seed : Bytes) :
    (Dkg.start ({ size := size, threshold := threshold, me := me, dealer := dealer } : St O) seed).1 =
      { size := size, threshold := threshold, me := me, dealer := dealer, running := true } := by
  unfold Dkg.start Dkg.startBody
  simp [h]

open Proofs.DkgCommute in
/-- **any two deliveries that the network may reorder commute**: broadcasts of different senders, or the private
    and the broadcast channel of one sender; both orders end disqualified (every later message is then ignored and
    `End` fails) or in the same state up to the order of the complaint table -/
theorem delivery_pair_commutes (s : St O) (inv : Inv s) (e1 e2 : Dl) (hr : reorderable e1 e2) :
    RelP (step (step s e1) e2) (step (step s e2) e1) := step_pair s inv e1 e2 hr

open Proofs.DkgCommute in
/-- **the state after a round does not depend on the delivery order**: two delivery orders with the same stream
    of messages per sender and channel lead to related states -/
theorem round_order_independent (s : St O) (inv : Inv s) (l1 l2 : List Dl) (h : ∀ c, stream l1 c = stream l2 c) :
    RelP (runList s l1) (runList s l2) := round_independent s inv l1 l2 (swaps_of_streams l1 l2 h)

open Proofs.DkgCommute in
/-- **`End` returns the same result for every delivery order**: three rounds of deliveries separated by the two
    timeouts, each round in any order that keeps every sender's broadcasts in order and every sender's private
    messages in order -/
theorem end_result_order_independent (s : St O) (inv : Inv s) (r1 r1' r2 r2' r3 r3' : List Dl)
    (h1 : ∀ c, stream r1 c = stream r1' c) (h2 : ∀ c, stream r2 c = stream r2' c)
    (h3 : ∀ c, stream r3 c = stream r3' c) : exec s r1 r2 r3 = exec s r1' r2' r3' :=
  exec_order_independent s inv r1 r1' r2 r2' r3 r3' h1 h2 h3

open Proofs.DkgCommute in
/-- **Joint-Feldman**: all `n` instances of a participant (its own dealing and the `n-1` it receives) see the same
    deliveries; the result of `End` (failure, or private share / group key / key shares) is the same for every
    delivery order of the three rounds -/
theorem joint_end_order_independent (size threshold : Nat) (L : List (St O)) (hinv : ∀ s ∈ L, InvAny s)
    (r1 r1' r2 r2' r3 r3' : List Dl) (h1 : ∀ c, stream r1 c = stream r1' c) (h2 : ∀ c, stream r2 c = stream r2' c)
    (h3 : ∀ c, stream r3 c = stream r3' c) :
    jres size threshold (L.map (fun s => runRounds s r1 r2 r3)) =
      jres size threshold (L.map (fun s => runRounds s r1' r2' r3')) :=
  joint_order_independent size threshold L hinv r1 r1' r2 r2' r3 r3' h1 h2 h3

open Proofs.DkgCommute in
/-- tie: a running Joint-Feldman participant handles deliveries and timeouts instance by instance, and `End`
    computes `jres` of its instances -/
theorem tie_joint (j : JSt O) (o : Nat) (m : Bytes) (hr : j.jointRunning = true) :
    ((∀ s ∈ j.fvss, s.running = true ∧ o < s.size) →
      (Joint.handleBroadcast j o m).1.fvss = j.fvss.map (fun s => Proofs.DkgCommute.step s (.bcast o m)) ∧
      (Joint.handlePrivate j o m).1.fvss = j.fvss.map (fun s => Proofs.DkgCommute.step s (.priv o m))) ∧
    ((∀ s ∈ j.fvss, s.running = true ∧ s.complaintsTimeout = false) → (Joint.nextTimeout j).1.fvss = j.fvss.map tstep) ∧
    ((∀ s ∈ j.fvss, s.sharesTimeout = true ∧ s.complaintsTimeout = true) →
      (Joint.end_ j).2.2 = jres j.size j.threshold j.fvss) :=
  ⟨fun h => ⟨joint_bcast j o m hr h, joint_priv j o m hr h⟩, joint_timeout j hr, joint_end j hr⟩

open Proofs.DkgCommute in
/-- `step`, `tstep` and `endRes` are the bodies of `HandleBroadcastMsg` / `HandlePrivateMsg`, `NextTimeout` and
    `End` of the model on a running instance -/
theorem tie_steps (s : St O) (o : Nat) (m : Bytes) (hr : s.running = true) (ho : o < s.size) :
    (FvssQ.handleBroadcast s o m).1 = step s (.bcast o m) ∧ (FvssQ.handlePrivate s o m).1 = step s (.priv o m) ∧
    (s.complaintsTimeout = false → (FvssQ.nextTimeout s).1 = tstep s) ∧
    (s.sharesTimeout = true → s.complaintsTimeout = true → (FvssQ.end_ s).2.2 = endRes s) := by
  have hb : badIndex s.size (o : Int) = false := by
    unfold badIndex; simp; omega
  refine ⟨?_, ?_, ?_, ?_⟩
  · unfold FvssQ.handleBroadcast; simp [hr, hb]; rfl
  · unfold FvssQ.handlePrivate; simp [hr, hb]; rfl
  · intro hct; unfold FvssQ.nextTimeout; simp [hr, hct]; rfl
  · intro h1 h2; unfold FvssQ.end_; simp [hr, h1, h2]; rfl

open Proofs.DkgCommute in
/-- **consistent keys, for every behaviour of the dealer and of the others and every schedule**: at a participant
    other than the dealer, if `End` returns keys after any three rounds of deliveries (arbitrary senders, tags,
    payloads, repetitions and order) then they are the group key and key shares of the stored verification
    vector and the returned private share passes the share check against that vector — the share is either the
    dealer's first private message or the answer to the node's own complaint, never an unchecked value -/
theorem keys_match_public_data (size threshold me dealer : Nat) (hne : me ≠ dealer) (r1 r2 r3 : List Dl)
    (x : Nat) (Y : Bytes) (ys : List Bytes)
    (hk : exec ({ size := size, threshold := threshold, me := me, dealer := dealer, running := true } : St O)
      r1 r2 r3 = .keys x Y ys) :
    ∃ v, (final ({ size := size, threshold := threshold, me := me, dealer := dealer, running := true } : St O)
        r1 r2 r3).vA = some v ∧ Y = O.groupKey v ∧ ys = O.pubShares v ∧ O.checkLog v me x = true := by
  obtain ⟨v, a1, a2, a3, a4⟩ := exec_keys_consistent _ (sc_fresh size threshold me dealer hne) r1 r2 r3 x Y ys hk
  refine ⟨v, a1, a2, a3, ?_⟩
  have hme : (final ({ size := size, threshold := threshold, me := me, dealer := dealer, running := true } : St O)
      r1 r2 r3).me = me := final_me _ (sc_fresh size threshold me dealer hne) r1 r2 r3
  rw [hme] at a4
  exact a4

open Proofs.DkgCommute in
/-- share consistency is an invariant of every delivery and every timeout (the induction behind the theorem above) -/
theorem share_consistency_invariant (s : St O) (h : SC s) (e : Dl) : SC (Proofs.DkgCommute.step s e) ∧ SC (tstep s) :=
  ⟨sc_step s h e, sc_tstep s h⟩

open Proofs.DkgCommute Proofs.DkgAgree in
/-- **agreement between different honest participants** (Feldman-VSS-Qual, neither is the dealer): with reliable
    broadcast and round synchrony — in each round every broadcast of a third participant, the dealer included,
    reaches both, in the sender's order, and what each of the two broadcasts in a round is what the other receives
    from it in that round (`Net`) — both leave `End` with the same public result: both fail, or both hold the same
    group public key and the same vector of public key shares. Nothing is assumed about the dealer, the other
    participants, the private messages, or the order in which either of the two is delivered the messages of a
    round; their own broadcasts are the outputs of the state machine on what they received (`bR1`/`bR2`/`bR3`). -/
theorem honest_receivers_agree (size threshold dealer ma mb : Nat) (hd : dealer < size) (hs : size ≤ 256)
    (hma : ma < size) (hmb : mb < size) (hmad : ma ≠ dealer) (hmbd : mb ≠ dealer) (hab : ma ≠ mb)
    (ra1 ra2 ra3 rb1 rb2 rb3 : List Dl)
    (ba1 : ∀ e ∈ ra1, e.sender < size) (ba2 : ∀ e ∈ ra2, e.sender < size) (ba3 : ∀ e ∈ ra3, e.sender < size)
    (bb1 : ∀ e ∈ rb1, e.sender < size) (bb2 : ∀ e ∈ rb2, e.sender < size) (bb3 : ∀ e ∈ rb3, e.sender < size)
    (n1 : Net ma mb ra1 rb1 (bR1 (fresh O size threshold ma dealer) ra1) (bR1 (fresh O size threshold mb dealer) rb1))
    (n2 : Net ma mb ra2 rb2 (bR2 (fresh O size threshold ma dealer) ra1 ra2) (bR2 (fresh O size threshold mb dealer) rb1 rb2))
    (n3 : Net ma mb ra3 rb3 (bR3 (fresh O size threshold ma dealer) ra1 ra2 ra3)
      (bR3 (fresh O size threshold mb dealer) rb1 rb2 rb3)) :
    pubRes (final (fresh O size threshold ma dealer) ra1 ra2 ra3) =
      pubRes (final (fresh O size threshold mb dealer) rb1 rb2 rb3) :=
  agreement size threshold dealer ma mb hd hs hma hmb hmad hmbd hab ra1 ra2 ra3 rb1 rb2 rb3 ba1 ba2 ba3 bb1 bb2 bb3 n1 n2 n3

open Proofs.DkgCommute Proofs.DkgAgree in
/-- **agreement on what `End` returns**: under the same hypotheses, and with scalars read from the wire never zero
    (`ReadsNonzero`, true of the BLS12-381 instance: `reads_nonzero_bls`), either both honest participants get a
    DKG failure, or both get keys with the same group public key and the same vector of public key shares, each with
    a non-zero private share (which `keys_match_public_data` shows to match its public share) -/
theorem honest_receivers_same_end (hr : ReadsNonzero O) (size threshold dealer ma mb : Nat) (hd : dealer < size)
    (hs : size ≤ 256) (hma : ma < size) (hmb : mb < size) (hmad : ma ≠ dealer) (hmbd : mb ≠ dealer) (hab : ma ≠ mb)
    (ra1 ra2 ra3 rb1 rb2 rb3 : List Dl)
    (ba1 : ∀ e ∈ ra1, e.sender < size) (ba2 : ∀ e ∈ ra2, e.sender < size) (ba3 : ∀ e ∈ ra3, e.sender < size)
    (bb1 : ∀ e ∈ rb1, e.sender < size) (bb2 : ∀ e ∈ rb2, e.sender < size) (bb3 : ∀ e ∈ rb3, e.sender < size)
    (n1 : Net ma mb ra1 rb1 (bR1 (fresh O size threshold ma dealer) ra1) (bR1 (fresh O size threshold mb dealer) rb1))
    (n2 : Net ma mb ra2 rb2 (bR2 (fresh O size threshold ma dealer) ra1 ra2) (bR2 (fresh O size threshold mb dealer) rb1 rb2))
    (n3 : Net ma mb ra3 rb3 (bR3 (fresh O size threshold ma dealer) ra1 ra2 ra3)
      (bR3 (fresh O size threshold mb dealer) rb1 rb2 rb3)) :
    (exec (fresh O size threshold ma dealer) ra1 ra2 ra3 = .failure ∧
      exec (fresh O size threshold mb dealer) rb1 rb2 rb3 = .failure) ∨
    (∃ Y ys xa xb, xa ≠ 0 ∧ xb ≠ 0 ∧ exec (fresh O size threshold ma dealer) ra1 ra2 ra3 = .keys xa Y ys ∧
      exec (fresh O size threshold mb dealer) rb1 rb2 rb3 = .keys xb Y ys) :=
  agreement_end hr size threshold dealer ma mb hd hs hma hmb hmad hmbd hab ra1 ra2 ra3 rb1 rb2 rb3
    ba1 ba2 ba3 bb1 bb2 bb3 n1 n2 n3

open Proofs.DkgCommute Proofs.DkgAgree in
/-- **Joint-Feldman, instance by instance**: in Joint-Feldman every broadcast is handed to all `n` instances; for
    the instance of dealer `d` a broadcast of another participant `A ≠ d` is ignored unless it is `A`'s complaint
    against `d` (`irrelevant_noop`: its own vector, its answers, its complaints against other dealers change
    nothing). With the network hypothesis stated on the *full* broadcast streams (`NetD`: among what one honest
    participant receives from the other in a round, the complaints against `d` are exactly what the other's instance
    of `d` broadcast), two honest participants end every instance whose dealer is neither of them — honest or not —
    with the same public result: the same verdict on the dealer and the same contribution to the group key -/
theorem joint_instances_agree (size threshold dealer ma mb : Nat) (hd : dealer < size) (hs : size ≤ 256)
    (hma : ma < size) (hmb : mb < size) (hmad : ma ≠ dealer) (hmbd : mb ≠ dealer) (hab : ma ≠ mb)
    (ra1 ra2 ra3 rb1 rb2 rb3 : List Dl)
    (ba1 : ∀ e ∈ ra1, e.sender < size) (ba2 : ∀ e ∈ ra2, e.sender < size) (ba3 : ∀ e ∈ ra3, e.sender < size)
    (bb1 : ∀ e ∈ rb1, e.sender < size) (bb2 : ∀ e ∈ rb2, e.sender < size) (bb3 : ∀ e ∈ rb3, e.sender < size)
    (n1 : NetD dealer ma mb ra1 rb1 (bR1 (fresh O size threshold ma dealer) ra1) (bR1 (fresh O size threshold mb dealer) rb1))
    (n2 : NetD dealer ma mb ra2 rb2 (bR2 (fresh O size threshold ma dealer) ra1 ra2)
      (bR2 (fresh O size threshold mb dealer) rb1 rb2))
    (n3 : NetD dealer ma mb ra3 rb3 (bR3 (fresh O size threshold ma dealer) ra1 ra2 ra3)
      (bR3 (fresh O size threshold mb dealer) rb1 rb2 rb3)) :
    pubRes (final (fresh O size threshold ma dealer) ra1 ra2 ra3) =
      pubRes (final (fresh O size threshold mb dealer) rb1 rb2 rb3) :=
  agreement_instance size threshold dealer ma mb hd hs hma hmb hmad hmbd hab ra1 ra2 ra3 rb1 rb2 rb3
    ba1 ba2 ba3 bb1 bb2 bb3 n1 n2 n3

open Proofs.DkgCommute Proofs.DkgAgree in
/-- the same for what Joint `End` actually uses of an instance: the verdict after `End`'s settling of unanswered
    complaints and, if the dealer stays qualified, its verification vector -/
theorem joint_instance_views_agree (size threshold dealer ma mb : Nat) (hd : dealer < size) (hs : size ≤ 256)
    (hma : ma < size) (hmb : mb < size) (hmad : ma ≠ dealer) (hmbd : mb ≠ dealer) (hab : ma ≠ mb)
    (ra1 ra2 ra3 rb1 rb2 rb3 : List Dl)
    (ba1 : ∀ e ∈ ra1, e.sender < size) (ba2 : ∀ e ∈ ra2, e.sender < size) (ba3 : ∀ e ∈ ra3, e.sender < size)
    (bb1 : ∀ e ∈ rb1, e.sender < size) (bb2 : ∀ e ∈ rb2, e.sender < size) (bb3 : ∀ e ∈ rb3, e.sender < size)
    (n1 : NetD dealer ma mb ra1 rb1 (bR1 (fresh O size threshold ma dealer) ra1) (bR1 (fresh O size threshold mb dealer) rb1))
    (n2 : NetD dealer ma mb ra2 rb2 (bR2 (fresh O size threshold ma dealer) ra1 ra2)
      (bR2 (fresh O size threshold mb dealer) rb1 rb2))
    (n3 : NetD dealer ma mb ra3 rb3 (bR3 (fresh O size threshold ma dealer) ra1 ra2 ra3)
      (bR3 (fresh O size threshold mb dealer) rb1 rb2 rb3)) :
    pview (final (fresh O size threshold ma dealer) ra1 ra2 ra3) =
      pview (final (fresh O size threshold mb dealer) rb1 rb2 rb3) :=
  pview_agree_instance size threshold dealer ma mb hd hs hma hmb hmad hmbd hab ra1 ra2 ra3 rb1 rb2 rb3
    ba1 ba2 ba3 bb1 bb2 bb3 n1 n2 n3

open Proofs.DkgCommute Proofs.DkgAgree in
/-- **the instance of an honest dealer, seen by the dealer itself and by an honest receiver**: the dealer's own
    instance (`DS`: it holds its vector `v`, answers every complaint at once; only the at most `t` participants of `K`
    ever complain) and a receiver's instance under the hypotheses of `honest_dealer_never_disqualified` (C08: the
    vector and the share arrive in the first round, answers are valid, complainers are in `K`) end with the same
    public view: the dealer is qualified at both, with the same vector (`hv`: the vector the receiver parsed from the
    dealer's broadcast is the dealer's) -/
theorem honest_dealer_instance_views_agree (H : Honest O) (K : Finset Nat) (v : O.Vec) (hv : H.v0 = v)
    (sD sR : St O) (hD : DS K v sD) (hKD : K.card ≤ sD.threshold) (hR : HD H sR)
    (hst0 : sR.sharesTimeout = false) (hct0 : sR.complaintsTimeout = false) (hKR : K.card ≤ sR.threshold)
    (hk0 : keysIn K sR) (rd1 rd2 rd3 rr1 rr2 rr3 : List Dl)
    (k1 : ∀ o m, Dl.bcast o m ∈ rd1 → m.headD 0 = tagComplaint → o ∈ K)
    (k2 : ∀ o m, Dl.bcast o m ∈ rd2 → m.headD 0 = tagComplaint → o ∈ K)
    (k3 : ∀ o m, Dl.bcast o m ∈ rd3 → m.headD 0 = tagComplaint → o ∈ K)
    (ok1 : RoundOK' H K sR false rr1) (ok2 : RoundOK' H K sR false rr2) (ok3 : RoundOK' H K sR true rr3)
    (hvec : ∃ e ∈ rr1, ∃ d, ∀ t, CfgCT sR false t → classify t e = .vec d)
    (hshare : ∃ e ∈ rr1, ∃ d, ∀ t, CfgCT sR false t → classify t e = .share d)
    (hans : ∀ k ∈ K, ∃ a, (∃ e ∈ rr1, ∀ t, CfgCT sR false t → classify t e = .ans k (some a)) ∨
      (∃ e ∈ rr2, ∀ t, CfgCT sR false t → classify t e = .ans k (some a)) ∨
      (∃ e ∈ rr3, ∀ t, CfgCT sR true t → classify t e = .ans k (some a))) :
    pview (final sD rd1 rd2 rd3) = pview (final sR rr1 rr2 rr3) := by
  rw [dealer_side_view K v sD hD hKD rd1 rd2 rd3 k1 k2 k3,
    honest_dealer_view H K sR hR hst0 hct0 hKR hk0 rr1 rr2 rr3 ok1 ok2 ok3 hvec hshare hans, hv]

open Proofs.DkgCommute Proofs.DkgAgree in
/-- non-vacuity of the dealer-side hypothesis `DS`: it holds right after a successful `Start` of the dealer -/
theorem dealer_instance_after_start (K : Finset Nat) (size threshold me : Nat) (seed : Bytes) (s' : St O) (outs : List Out)
    (h : Dkg.start ({ size := size, threshold := threshold, me := me, dealer := me } : St O) seed = (s', outs, .ok)) :
    ∃ a, DS K (O.vecOfPoly size a) s' := ds_after_start K size threshold me seed s' outs h

open Proofs.DkgCommute Proofs.DkgAgree in
/-- **from the instances to Joint-Feldman's `End`** (partial: the per-instance hypotheses are not yet composed into
    one statement about a Joint-Feldman execution): two participants whose `n` instances have pairwise the same public
    view — which `joint_instance_views_agree` proves for every dealer other than the two participants themselves, and
    `honest_dealer_instance_views_agree` for the two instances they deal themselves — get from `End`
    the same public result: both fail (too many disqualified dealers, or an identity group key), or both hold the same
    group public key and the same vector of public key shares, each with its own combined private share (`End` fails
    privately at a participant only if that combined share is zero) -/
theorem joint_end_agrees_given_instances_partial (jA jB : JSt O) (hrA : jA.jointRunning = true)
    (hrB : jB.jointRunning = true) (hs : jA.size = jB.size) (ht : jA.threshold = jB.threshold)
    (htA : ∀ s ∈ jA.fvss, s.sharesTimeout = true ∧ s.complaintsTimeout = true)
    (htB : ∀ s ∈ jB.fvss, s.sharesTimeout = true ∧ s.complaintsTimeout = true)
    (hv : jA.fvss.map pview = jB.fvss.map pview) :
    ∃ pub : Option (Bytes × List Bytes), ∃ xA xB : Nat,
      (Joint.end_ jA).2.2 = (match pub with | none => .failure | some Yys => if xA = 0 then .failure else .keys xA Yys.1 Yys.2) ∧
      (Joint.end_ jB).2.2 = (match pub with | none => .failure | some Yys => if xB = 0 then .failure else .keys xB Yys.1 Yys.2) := by
  refine ⟨jpub jA.size jA.threshold jA.fvss, jshare jA.fvss, jshare jB.fvss, ?_, ?_⟩
  · rw [(tie_joint jA 0 [] hrA).2.2 htA, jres_jpub]
    cases jpub jA.size jA.threshold jA.fvss <;> rfl
  · rw [(tie_joint jB 0 [] hrB).2.2 htB, jres_jpub, ← hs, ← ht, ← jpub_of_pviews jA.size jA.threshold jA.fvss jB.fvss hv]
    cases jpub jA.size jA.threshold jA.fvss <;> rfl

open Proofs.DkgCommute Proofs.DkgAgree in
/-- tie between executions of the model's Joint-Feldman API and the per-instance executions the instance theorems
    speak about: a started participant that receives three rounds of deliveries through `Joint.handleBroadcast` /
    `Joint.handlePrivate` with `Joint.nextTimeout` in between (`jfinal`) holds exactly the `final` states of the
    instances it held after `Start`, all past both timeouts -/
theorem joint_execution_is_instancewise {n : Nat} (j : JSt O) (h : JI n false false j) (r1 r2 r3 : List Dl)
    (h1 : ∀ e ∈ r1, e.sender < n) (h2 : ∀ e ∈ r2, e.sender < n) (h3 : ∀ e ∈ r3, e.sender < n) :
    (jfinal j r1 r2 r3).fvss = j.fvss.map (fun s => final s r1 r2 r3) ∧ (jfinal j r1 r2 r3).size = j.size ∧
    (jfinal j r1 r2 r3).threshold = j.threshold ∧ JI n true true (jfinal j r1 r2 r3) :=
  jfinal_fvss j h r1 r2 r3 h1 h2 h3

open Proofs.DkgCommute Proofs.DkgAgree in
/-- the instances a participant holds right after a successful `Joint.start`: the fresh receiver instance for every
    other dealer, and for itself the dealer instance holding the vector of the polynomial it drew (`DS`) -/
theorem joint_instances_after_start (K : Finset Nat) (size threshold me : Nat) (seed : Bytes) (j : JSt O)
    (outs : List Out) (hme : me < size) (h : Joint.start (Joint.init O size threshold me) seed = (j, outs, .ok)) :
    ∃ sD : St O, (∃ a, DS K (O.vecOfPoly size a) sD) ∧ sD.size = size ∧ sD.threshold = threshold ∧ sD.running = true ∧
      sD.sharesTimeout = false ∧ sD.complaintsTimeout = false ∧ sD.dealer = me ∧
      j.fvss = (List.range size).map (fun i => if i = me then sD else fresh O size threshold me i) ∧
      j.size = size ∧ j.threshold = threshold ∧ j.jointRunning = true :=
  joint_start_fvss K size threshold me seed j outs hme h

open Proofs.DkgCommute Proofs.DkgAgree in
/-- **Joint-Feldman: two honest participants end with the same public result** — the closed composition of the
    instance theorems, stated on executions of the model's API (`Joint.start`, then `jfinal` = three rounds through
    `HandleBroadcastMsg`/`HandlePrivateMsg` with `NextTimeout` in between, then `Joint.end_`). Hypotheses: reliable
    broadcast with synchronous rounds for the instances of every third-party dealer (`NetD`; those dealers and all
    other participants are arbitrary, Byzantine included), and honest-dealer delivery (`OwnNet`) for the two
    instances `A` and `B` deal themselves. Conclusion: both fail, or both return the same group public key and the
    same public key shares, each with its own private share. -/
theorem joint_feldman_agreement (size threshold A B : Nat) (hs : size ≤ 256) (hA : A < size) (hB : B < size)
    (hab : A ≠ B) (seedA seedB : Bytes) (jA jB : JSt O) (outsA outsB : List Out)
    (stA : Joint.start (Joint.init O size threshold A) seedA = (jA, outsA, .ok))
    (stB : Joint.start (Joint.init O size threshold B) seedB = (jB, outsB, .ok))
    (rA1 rA2 rA3 rB1 rB2 rB3 : List Dl)
    (ba1 : ∀ e ∈ rA1, e.sender < size) (ba2 : ∀ e ∈ rA2, e.sender < size) (ba3 : ∀ e ∈ rA3, e.sender < size)
    (bb1 : ∀ e ∈ rB1, e.sender < size) (bb2 : ∀ e ∈ rB2, e.sender < size) (bb3 : ∀ e ∈ rB3, e.sender < size)
    (third : ∀ d, d < size → d ≠ A → d ≠ B →
      NetD d A B rA1 rB1 (bR1 (fresh O size threshold A d) rA1) (bR1 (fresh O size threshold B d) rB1) ∧
      NetD d A B rA2 rB2 (bR2 (fresh O size threshold A d) rA1 rA2) (bR2 (fresh O size threshold B d) rB1 rB2) ∧
      NetD d A B rA3 rB3 (bR3 (fresh O size threshold A d) rA1 rA2 rA3) (bR3 (fresh O size threshold B d) rB1 rB2 rB3))
    (KA KB : Finset Nat)
    (ownA : ∀ sD ∈ jA.fvss, sD.dealer = A → ∀ v, sD.vA = some v →
      OwnNet KA v (fresh O size threshold B A) rA1 rA2 rA3 rB1 rB2 rB3)
    (ownB : ∀ sD ∈ jB.fvss, sD.dealer = B → ∀ v, sD.vA = some v →
      OwnNet KB v (fresh O size threshold A B) rB1 rB2 rB3 rA1 rA2 rA3) :
    ∃ pub : Option (Bytes × List Bytes), ∃ xA xB : Nat,
      (Joint.end_ (jfinal jA rA1 rA2 rA3)).2.2 =
        (match pub with | none => .failure | some Yys => if xA = 0 then .failure else .keys xA Yys.1 Yys.2) ∧
      (Joint.end_ (jfinal jB rB1 rB2 rB3)).2.2 =
        (match pub with | none => .failure | some Yys => if xB = 0 then .failure else .keys xB Yys.1 Yys.2) :=
  Proofs.DkgAgree.joint_feldman_agreement size threshold A B hs hA hB hab seedA seedB jA jB outsA outsB stA stB
    rA1 rA2 rA3 rB1 rB2 rB3 ba1 ba2 ba3 bb1 bb2 bb3 third KA KB ownA ownB

open Proofs.DkgCommute Proofs.DkgAgree in
/-- **what an honest dealer emits at `Start`** (the emission side of `OwnNet`): the broadcast of the verification vector
    of the polynomial it drew and, to every other participant `i`, the private message carrying `a(i+1)` -/
theorem dealer_start_outputs (size threshold me : Nat) (seed : Bytes) (s' : St O) (outs : List Out)
    (h : Dkg.start ({ size := size, threshold := threshold, me := me, dealer := me } : St O) seed = (s', outs, .ok)) :
    ∃ a, O.genPoly seed threshold = some a ∧ s'.a = a ∧ s'.vA = some (O.vecOfPoly size a) ∧
      Out.bcast (tagVerifVec :: O.vecBytes a) ∈ outs ∧
      ∀ i, i < size → i ≠ me → Out.send i (tagShare :: O.writeScalar (O.polyEval a (i + 1))) ∈ outs :=
  start_outputs size threshold me seed s' outs h

open Proofs.DkgCommute Proofs.DkgAgree in
/-- **and a receiver accepts it**: under the laws tying the writers of the crypto record to its readers (`OpsLaws`:
    the serialized vector parses back, a written share reads back, the Feldman check accepts `a(i+1)` against the
    vector of `a`), the two messages of `dealer_start_outputs` are classified by `rcv`'s instance, in every state, as
    the dealer's vector and `rcv`'s share, and are deliveries an honest dealer can cause - the round-one hypotheses
    of `OwnNet` (`hvec`, `hshare` and the `RoundOK'` entries of the dealer's messages) hold for the dealer's own
    emission -/
theorem receiver_accepts_dealer_emission (size threshold dealer rcv : Nat) (hne : rcv ≠ dealer) (hr : rcv < size)
    (a : List Nat) (L : OpsLaws O size threshold a) (hx : O.polyEval a (rcv + 1) ≠ 0) (ct : Bool) (t : St O)
    (ht : CfgCT (fresh O size threshold rcv dealer) ct t) :
    classify t (.bcast dealer (tagVerifVec :: O.vecBytes a)) = .vec (O.vecBytes a) ∧
    AllowedK (honestOf size threshold a L rcv hr) t (.vec (O.vecBytes a)) ∧
    classify t (.priv dealer (tagShare :: O.writeScalar (O.polyEval a (rcv + 1)))) =
      .share (tagShare :: O.writeScalar (O.polyEval a (rcv + 1))) ∧
    AllowedK (honestOf size threshold a L rcv hr) t (.share (tagShare :: O.writeScalar (O.polyEval a (rcv + 1)))) :=
  emission_allowed size threshold dealer rcv hne hr a L hx ct t ht

open Proofs.DkgCommute Proofs.DkgAgree in
/-- **the dealer answers a first complaint at once** with the complainer's share of the polynomial it drew (the
    emission behind the answer part `hans` of `OwnNet`) -/
theorem dealer_answers_complaint (s : St O) (hmd : s.me = s.dealer) (hndq : s.disqualified = false)
    (hct : s.complaintsTimeout = false) (hd : s.dealer < 256) (hds : s.dealer < s.size) (o : Nat) (hod : o ≠ s.dealer)
    (hf : s.find o = none) :
    stepOuts s (.bcast o (cmplMsg s.dealer)) =
      [Out.bcast (tagAnswer :: UInt8.ofNat o :: O.writeScalar (O.polyEval s.a (o + 1)))] :=
  dealer_answers s hmd hndq hct hd hds o hod hf

open Proofs.DkgCommute Proofs.DkgAgree in
/-- **and a receiver accepts that answer** as a valid answer for `o` (under `OpsLaws`, non-zero share) -/
theorem receiver_accepts_dealer_answer (size threshold dealer rcv o : Nat) (hne : rcv ≠ dealer) (hr : rcv < size)
    (ho : o < size) (ho256 : o < 256) (a : List Nat) (L : OpsLaws O size threshold a)
    (hx : O.polyEval a (o + 1) ≠ 0) (ct : Bool) (t : St O) (ht : CfgCT (fresh O size threshold rcv dealer) ct t) :
    classify t (.bcast dealer (tagAnswer :: UInt8.ofNat o :: O.writeScalar (O.polyEval a (o + 1)))) =
      .ans o (some (O.polyEval a (o + 1))) ∧
    AllowedK (honestOf size threshold a L rcv hr) t (.ans o (some (O.polyEval a (o + 1)))) :=
  answer_allowed size threshold dealer rcv o hne hr ho ho256 a L hx ct t ht

open Proofs.DkgCommute Proofs.DkgAgree in
/-- the broadcasts of `A` an instance of another dealer ignores: everything but `A`'s complaint against that dealer -/
theorem joint_irrelevant_broadcasts_ignored (s : St O) (hme : s.me ≠ s.dealer) (A : Nat) (hAd : A ≠ s.dealer)
    (hd : s.dealer < 256) (e : Dl) (h : irrelevant A s.dealer e = true) :
    Proofs.DkgCommute.step s e = s ∧ bcasts (stepOuts s e) = [] := irrelevant_noop s hme A hAd hd e h

open Proofs.DkgAgree in
/-- the BLS12-381 instance the driver runs against the implementation never reads a zero scalar from the wire -/
theorem reads_nonzero_bls : ReadsNonzero Driver.Dkg.blsOps := by
  intro b n h
  have h' : (match Bls.readFrStar b with | .ok x => some x | .error _ => none) = some n := h
  unfold Bls.readFrStar at h'
  cases hrd : Bls.readFr b with
  | error e => rw [hrd] at h'; cases h'
  | ok x =>
    rw [hrd] at h'
    simp only [] at h'
    by_cases hx : x = 0
    · rw [if_pos hx] at h'; cases h'
    · rw [if_neg hx] at h'; cases h'; exact hx

open Proofs.DkgCommute Proofs.DkgAgree in
/-- the public result is what `End` returns: a failure, or the public result together with the private share -/
theorem end_result_is_public_result (s : St O) : endRes s =
    match pubRes s with
    | none => .failure
    | some Yys => if s.x = 0 then .failure else .keys s.x Yys.1 Yys.2 := endRes_pubRes s

open Proofs.DkgCommute Proofs.DkgAgree in
/-- tie between the theorem's `bR` (what a participant broadcasts) and the handlers: the only broadcast an honest
    participant other than the dealer ever makes is its complaint, made exactly when its own table entry gets
    the `received` flag; this is what the other participant's stream from it consists of -/
theorem broadcasts_are_the_complaint (a : St O) (hme : a.me ≠ a.dealer) (e : Dl) :
    bcasts (stepOuts a e) = if ownRecv a then [] else if ownRecv (Proofs.DkgCommute.step a e) then [cmplMsg a.dealer] else [] :=
  step_good a hme e

open Proofs.DkgCommute Proofs.DkgAgree in
/-- the simulation behind the agreement theorem: after any delivery, the public part of a participant's state is
    that of the shadow observer that was given the same broadcast and the participant's complaint, if emitted -/
theorem shadow_simulation {zme : Nat} {a : St O} {z : St (shadowOps O zme)} (ai : AInv a) (zi : ZInv z) (h : PubEq a z)
    (e : Dl) (he : e.sender < a.size) : PubEq (Proofs.DkgCommute.step a e) (runList z (zEvents a e)) :=
  (shadow_step ai zi h e he).1

section NonVacuity
open Proofs.DkgCommute

/-- toy crypto record: a share of participant `k` is valid iff it equals `k + 5` -/
def toy : Ops where
  Vec := Unit
  readVec := fun _ _ _ => some ()
  checkLog := fun _ k x => x == k + 5
  readScalar := fun b => some (b.headD 0).toNat
  writeScalar := fun _ => []
  addScalar := fun a b => a + b
  groupKey := fun _ => []
  pubShares := fun _ => []
  groupKeyIsIdentity := fun _ => false
  sumVecs := fun _ => none
  genPoly := fun _ _ => none
  polyEval := fun _ _ => 0
  vecBytes := fun _ => []
  vecOfPoly := fun _ _ => ()

def toyVec : Bytes := List.replicate (96 * 2) 0
def toyBadShare : Bytes := tagShare :: 9 :: List.replicate 31 0
def toyAnswer : Bytes := tagAnswer :: 1 :: 6 :: List.replicate 31 0
def toyStart : St toy := { size := 3, threshold := 1, me := 1, dealer := 0, running := true }

/-- non-vacuity of `keys_match_public_data`: the dealer sends a wrong share (9), the node complains, the dealer
    answers with the right one (6 = 1 + 5); `End` returns keys with the adopted share -/
example : exec toyStart [.bcast 0 (tagVerifVec :: toyVec), .priv 0 toyBadShare] [.bcast 0 toyAnswer] [] =
    .keys 6 [] [] := by decide +kernel

/-- and a wrong answer (7) makes `End` fail instead of returning an unchecked share -/
example : exec toyStart [.bcast 0 (tagVerifVec :: toyVec), .priv 0 toyBadShare]
    [.bcast 0 (tagAnswer :: 1 :: 7 :: List.replicate 31 0)] [] = .failure := by decide +kernel

open Proofs.DkgAgree in
/-- non-vacuity of `honest_receivers_agree`: dealer 0 sends participant 1 a wrong share and participant 2 a right
    one; 1 complains in round 1 (2 receives the complaint before the vector), the dealer answers in round 2; the
    three `Net` hypotheses hold and both end with the same public keys -/
def toyGoodShare2 : Bytes := tagShare :: 7 :: List.replicate 31 0
def nvA1 : List Dl := [.bcast 0 (tagVerifVec :: toyVec), .priv 0 toyBadShare]
def nvB1 : List Dl := [.priv 0 toyGoodShare2, .bcast 1 (Proofs.DkgAgree.cmplMsg 0), .bcast 0 (tagVerifVec :: toyVec)]
def nvR2 : List Dl := [.bcast 0 toyAnswer]

open Proofs.DkgAgree in
theorem nv_stream (l1 l2 : List Dl) (h0 : stream l1 (0, false) = stream l2 (0, false))
    (hn : ∀ n, stream l1 (n + 3, false) = stream l2 (n + 3, false)) :
    ∀ o, o ≠ 1 → o ≠ 2 → stream l1 (o, false) = stream l2 (o, false) := by
  intro o h1 h2
  match o, h1, h2 with
  | 0, _, _ => exact h0
  | 1, h, _ => exact absurd rfl h
  | 2, _, h => exact absurd rfl h
  | n + 3, _, _ => exact hn n

open Proofs.DkgAgree in
example : pubRes (final (fresh toy 3 1 1 0) nvA1 nvR2 []) = some ([], []) ∧
    pubRes (final (fresh toy 3 1 2 0) nvB1 nvR2 []) = some ([], []) ∧
    Net 1 2 nvA1 nvB1 (bR1 (fresh toy 3 1 1 0) nvA1) (bR1 (fresh toy 3 1 2 0) nvB1) ∧
    Net 1 2 nvR2 nvR2 (bR2 (fresh toy 3 1 1 0) nvA1 nvR2) (bR2 (fresh toy 3 1 2 0) nvB1 nvR2) ∧
    Net 1 2 [] [] (bR3 (fresh toy 3 1 1 0) nvA1 nvR2 []) (bR3 (fresh toy 3 1 2 0) nvB1 nvR2 []) := by
  have e1 : bR1 (fresh toy 3 1 1 0) nvA1 = [cmplMsg 0] := by decide +kernel
  have e2 : bR1 (fresh toy 3 1 2 0) nvB1 = [] := by decide +kernel
  have e3 : bR2 (fresh toy 3 1 1 0) nvA1 nvR2 = [] := by decide +kernel
  have e4 : bR2 (fresh toy 3 1 2 0) nvB1 nvR2 = [] := by decide +kernel
  have e5 : bR3 (fresh toy 3 1 1 0) nvA1 nvR2 [] = [] := by decide +kernel
  have e6 : bR3 (fresh toy 3 1 2 0) nvB1 nvR2 [] = [] := by decide +kernel
  rw [e1, e2, e3, e4, e5, e6]
  refine ⟨by decide +kernel, by decide +kernel, ⟨nv_stream _ _ rfl (fun _ => rfl), rfl, rfl⟩,
    ⟨nv_stream _ _ rfl (fun _ => rfl), rfl, rfl⟩, ⟨nv_stream _ _ rfl (fun _ => rfl), rfl, rfl⟩⟩


/-! #### non-vacuity of `joint_feldman_agreement`: two participants, each deals to the other, nobody complains -/

/-- toy crypto record in which `Start` succeeds: every share is 1 and valid -/
def toyJ : Ops where
  Vec := Unit
  readVec := fun _ _ _ => some ()
  checkLog := fun _ _ _ => true
  readScalar := fun _ => some 1
  writeScalar := fun _ => List.replicate 32 0
  addScalar := fun a b => a + b
  groupKey := fun _ => []
  pubShares := fun _ => []
  groupKeyIsIdentity := fun _ => false
  sumVecs := fun _ => some ()
  genPoly := fun _ _ => some [1]
  polyEval := fun _ _ => 1
  vecBytes := fun _ => List.replicate (96 * 2) 0
  vecOfPoly := fun _ _ => ()

def jShare : Bytes := tagShare :: List.replicate 32 0
/-- what a participant of the toy run receives in the first round from the other one `o`: vector and share -/
def jRound (o : Nat) : List Dl := [.bcast o (tagVerifVec :: toyVec), .priv o jShare]

open Proofs.DkgAgree in
theorem nv_own (rcv dealer : Nat) (hne : rcv ≠ dealer) (v : Unit) :
    OwnNet (O := toyJ) ∅ v (fresh toyJ 2 1 rcv dealer) (jRound rcv) [] [] (jRound dealer) [] [] := by
  have hcl1 : ∀ t : St toyJ, CfgCT (fresh toyJ 2 1 rcv dealer) false t →
      classify t (.bcast dealer (tagVerifVec :: toyVec)) = .vec toyVec := by
    intro t ⟨h1, h2, _, _, _⟩
    show classifyB t dealer (tagVerifVec :: toyVec) = _
    unfold classifyB
    have e1 : t.me = rcv := h1
    have e2 : t.dealer = dealer := h2
    simp [e1, e2, hne, tagVerifVec]
  have hcl2 : ∀ t : St toyJ, CfgCT (fresh toyJ 2 1 rcv dealer) false t →
      classify t (.priv dealer jShare) = .share jShare := by
    intro t ⟨h1, h2, _, _, _⟩
    show (if t.me = dealer then Kind.noop else if dealer = t.dealer then Kind.share jShare else Kind.noop) = _
    have e1 : t.me = rcv := h1
    have e2 : t.dealer = dealer := h2
    simp [e1, e2, hne]
  refine ⟨{ v0 := (), vb := toyVec, x0 := 1, sb := jShare, me := rcv, shareOk := rfl }, rfl, rfl, by simp [Proofs.DkgAgree.fresh], ?_, ?_, ?_,
    ?_, ?_, ?_, ⟨_, by simp [jRound], toyVec, hcl1⟩, ⟨_, List.mem_cons_of_mem _ (by simp), jShare, hcl2⟩,
    fun k hk => by simp at hk⟩
  · intro o m hm ht
    simp only [jRound, List.mem_cons, List.not_mem_nil, or_false] at hm
    rcases hm with hm | hm
    · cases hm
      exact absurd ht (by decide)
    · cases hm
  · intro o m hm; cases hm
  · intro o m hm; cases hm
  · intro e he t ht
    simp only [jRound, List.mem_cons, List.not_mem_nil, or_false] at he
    rcases he with rfl | rfl
    · rw [hcl1 t ht]
      refine ⟨⟨rfl, ?_⟩, trivial, trivial⟩
      unfold parseVec
      have hth : t.threshold = 1 := ht.2.2.2.1
      have hlen : toyVec.length = verifVectorSize * (t.threshold + 1) := by
        rw [hth]; unfold toyVec verifVectorSize; rw [List.length_replicate]
      rw [if_neg (fun hne' => hne' hlen)]
      rfl
    · rw [hcl2 t ht]
      refine ⟨⟨rfl, ?_⟩, trivial, trivial⟩
      rfl
  · intro e he; cases he
  · intro e he; cases he

def jA0 : JSt toyJ := (Joint.start (Joint.init toyJ 2 1 0) []).1
def jB0 : JSt toyJ := (Joint.start (Joint.init toyJ 2 1 1) []).1

open Proofs.DkgAgree in
/-- the hypotheses of `joint_feldman_agreement` are met by a run of the model's API in which both `Start` calls
    succeed, and the common result is a pair of keys (not the failure) -/
example :
    (∃ pub : Option (Bytes × List Bytes), ∃ xA xB : Nat,
      (Joint.end_ (jfinal jA0 (jRound 1) [] [])).2.2 =
        (match pub with | none => .failure | some Yys => if xA = 0 then .failure else .keys xA Yys.1 Yys.2) ∧
      (Joint.end_ (jfinal jB0 (jRound 0) [] [])).2.2 =
        (match pub with | none => .failure | some Yys => if xB = 0 then .failure else .keys xB Yys.1 Yys.2)) ∧
    (Joint.end_ (jfinal jA0 (jRound 1) [] [])).2.2 = .keys 2 [] [] ∧
    (Joint.end_ (jfinal jB0 (jRound 0) [] [])).2.2 = .keys 2 [] [] := by
  refine ⟨?_, by decide +kernel, by decide +kernel⟩
  refine joint_feldman_agreement (O := toyJ) 2 1 0 1 (by decide) (by decide) (by decide) (by decide) [] [] jA0 jB0
    (Joint.start (Joint.init toyJ 2 1 0) []).2.1 (Joint.start (Joint.init toyJ 2 1 1) []).2.1 ?_ ?_
    (jRound 1) [] [] (jRound 0) [] [] ?_ ?_ ?_ ?_ ?_ ?_ ?_ ∅ ∅ ?_ ?_
  · have : (Joint.start (Joint.init toyJ 2 1 0) []).2.2 = .ok := by decide +kernel
    rw [← this]; rfl
  · have : (Joint.start (Joint.init toyJ 2 1 1) []).2.2 = .ok := by decide +kernel
    rw [← this]; rfl
  · intro e he
    simp only [jRound, List.mem_cons, List.not_mem_nil, or_false] at he
    rcases he with rfl | rfl <;> decide
  · intro e he; cases he
  · intro e he; cases he
  · intro e he
    simp only [jRound, List.mem_cons, List.not_mem_nil, or_false] at he
    rcases he with rfl | rfl <;> decide
  · intro e he; cases he
  · intro e he; cases he
  · intro d hd h0 h1; omega
  · intro sD _ _ v _; exact nv_own 1 0 (by decide) v
  · intro sD _ _ v _; exact nv_own 0 1 (by decide) v



open Proofs.DkgAgree in
/-- the laws are satisfiable: the toy record in which `Start` succeeds meets them for its polynomial -/
example : OpsLaws toyJ 2 1 [1] := by
  refine ⟨?_, rfl, fun _ => ?_, fun _ _ => rfl, fun _ _ => rfl⟩
  · show (List.replicate (96 * 2) (0 : UInt8)).length = verifVectorSize * (1 + 1)
    rw [List.length_replicate]; rfl
  · show (List.replicate 32 (0 : UInt8)).length = shareSize
    rw [List.length_replicate]; rfl

end NonVacuity

end Props.C07

#print axioms Props.C07.fvssq_keys_shape
#print axioms Props.C07.end_verdict_function
#print axioms Props.C07.joint_end_shape
#print axioms Props.C07.inv_after_start
#print axioms Props.C07.start_state
#print axioms Props.C07.delivery_pair_commutes
#print axioms Props.C07.round_order_independent
#print axioms Props.C07.end_result_order_independent
#print axioms Props.C07.tie_steps
#print axioms Props.C07.joint_end_order_independent
#print axioms Props.C07.tie_joint
#print axioms Props.C07.keys_match_public_data
#print axioms Props.C07.share_consistency_invariant
#print axioms Props.C07.honest_receivers_agree
#print axioms Props.C07.end_result_is_public_result
#print axioms Props.C07.broadcasts_are_the_complaint
#print axioms Props.C07.shadow_simulation
#print axioms Props.C07.honest_receivers_same_end
#print axioms Props.C07.reads_nonzero_bls
#print axioms Props.C07.joint_instances_agree
#print axioms Props.C07.joint_irrelevant_broadcasts_ignored
#print axioms Props.C07.joint_instance_views_agree
#print axioms Props.C07.joint_end_agrees_given_instances_partial
#print axioms Props.C07.honest_dealer_instance_views_agree
#print axioms Props.C07.dealer_instance_after_start
#print axioms Props.C07.joint_execution_is_instancewise
#print axioms Props.C07.joint_instances_after_start
#print axioms Props.C07.joint_feldman_agreement
#print axioms Props.C07.dealer_start_outputs
#print axioms Props.C07.receiver_accepts_dealer_emission
#print axioms Props.C07.dealer_answers_complaint
#print axioms Props.C07.receiver_accepts_dealer_answer
