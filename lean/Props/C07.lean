import Model.Dkg
import Proofs.DkgFlags
import Props.C08

/-! # C07 — DKG: honest participants agree on the verdict and on consistent keys

Model-level theorems about what `End` returns (every crypto-operations record, every state). The
network-level agreement statement (two honest receivers of one execution reach the same verdict) is
checked by the correspondence runs and the property predicates of the harness in this round; see DESIGN.md
for the proof plan (`Trig` history invariant) — *partial*. -/

namespace Props.C07
open Model Model.Dkg

variable {O : Ops}

/-- Feldman-VSS-Qual: when `End` returns keys the dealer is not disqualified, no registered complaint is
    unanswered, the keys are those of the one stored valid vector, and the private share is non-zero -/
theorem fvssq_keys_shape (s : St O) (x : Nat) (Y : Bytes) (ys : List Bytes)
    (hk : (FvssQ.endBody s).2.2 = .keys x Y ys) :
    s.disqualified = false ∧
    s.complaints.any (fun kc => kc.2.received && !kc.2.answerReceived) = false ∧
    ∃ v, s.vA = some v ∧ Y = O.groupKey v ∧ ys = O.pubShares v ∧ x = s.x ∧ x ≠ 0 ∧
      O.groupKeyIsIdentity v = false := by
  unfold FvssQ.endBody FvssQ.settle at hk
  by_cases hd : s.disqualified = true
  · simp [hd] at hk
  · have hd' : s.disqualified = false := by simpa using hd
    by_cases hu : s.complaints.any (fun kc => kc.2.received && !kc.2.answerReceived) = true
    · simp [hd', hu] at hk
    · have hu' : s.complaints.any (fun kc => kc.2.received && !kc.2.answerReceived) = false := by simpa using hu
      simp only [hd', hu', Bool.not_false, Bool.false_eq_true, and_false, ↓reduceIte] at hk
      cases hv : s.vA with
      | none => simp [hv] at hk
      | some v =>
        simp only [hv] at hk
        split at hk; · cases hk
        split at hk; · cases hk
        rename_i h0 hid
        cases hk
        exact ⟨hd', hu', v, rfl, rfl, rfl, rfl, h0, by simpa using hid⟩

/-- the verdict of `End` is a function of the disqualification flag, the complaint table, the stored vector
    and share: two instances that agree on these return the same result -/
theorem end_verdict_function (s s' : St O) (h1 : s.disqualified = s'.disqualified)
    (h2 : s.complaints = s'.complaints) (h3 : s.vA = s'.vA) (h4 : s.x = s'.x) :
    (FvssQ.endBody s).2.2 = (FvssQ.endBody s').2.2 := by
  unfold FvssQ.endBody FvssQ.settle
  simp only [h1, h2, h3, h4]
  repeat' (first | split | (simp only []; split))
  all_goals simp_all

/-- Joint-Feldman: `End` fails when more than `t` dealers are disqualified or fewer than `t+1` remain;
    otherwise the keys are the sums over the qualified instances -/
theorem joint_end_shape (j : JSt O) (hr : j.jointRunning = true)
    (ht : j.fvss.any (fun s => !s.sharesTimeout || !s.complaintsTimeout) = false) :
    let fv := (j.fvss.map FvssQ.settle).map (·.1)
    let disq := (fv.filter (·.disqualified)).length
    (disq > j.threshold ∨ j.size - disq ≤ j.threshold → (Joint.end_ j).2.2 = .failure) ∧
    (Joint.end_ j).1.jointRunning = false := by
  unfold Joint.end_
  simp only [hr, ht, Bool.not_true, Bool.false_eq_true, ↓reduceIte]
  constructor
  · intro h
    rw [if_pos h]
  · repeat' (first | split | (simp only []; split))
    all_goals rfl

end Props.C07

#print axioms Props.C07.fvssq_keys_shape
#print axioms Props.C07.end_verdict_function
#print axioms Props.C07.joint_end_shape
