import Proofs.AbsBatch
import Proofs.BatchBound
import Extracted.Guards
import Extracted.Consts

/-! # C03 — batch verification agrees index-by-index with individual verification

The internal randomness is a universally quantified coefficient vector; the statement holds for every
vector outside the explicit bad set `¬ Good` (some contiguous segment that contains a defective entry has
its randomised defects summing to zero). -/

namespace Props.C03

variable {r : ℕ} [Fact r.Prime] {P : PairingGroups r}

theorem prepLeaf_correct (C : Codec P) (h : P.G1) (pk : P.G2) (sig : Bytes) (c : ZMod r) (hc : c ≠ 0) :
    ((prepLeaf C pk sig c).2 && (expected h (prepLeaf C pk sig c).1).isValid) = verifyCore C pk sig h := by
  rw [Bool.eq_iff_iff, verifyCore_true_iff]
  by_cases hpre : sig.length = 48 ∧ pk ≠ 0
  · obtain ⟨hl, hpk⟩ := hpre
    cases hr : readG1 C sig with
    | none =>
      rw [prepLeaf_none C pk sig c hl hpk hr]
      simp only [expected, Res.isValid, Bool.and_false, Bool.false_eq_true, false_iff]
      rintro ⟨_, s, hs, _⟩
      rw [(readG1_some_iff C sig s).2 hs] at hr; cases hr
    | some s =>
      have hs := (readG1_some_iff C sig s).1 hr
      rw [prepLeaf_some C pk sig c s hl hpk hr]
      have hdef : defect h ({ pk := c • pk, s := c • s, res := .undefined } : BLeaf P) = c • (P.e s P.g2 - P.e h pk) := by
        simp [defect, map_smul, smul_sub]
      simp only [expected, hdef, Bool.true_and]
      constructor
      · intro hv
        split at hv
        · next h0 =>
          have : P.e s P.g2 - P.e h pk = 0 := by
            have h3 := congrArg (fun x => c⁻¹ • x) h0
            simp only [smul_smul, smul_zero] at h3
            rw [inv_mul_cancel₀ hc, one_smul] at h3
            exact h3
          exact ⟨hpk, s, hs, sub_eq_zero.1 this⟩
        · simp [Res.isValid] at hv
      · rintro ⟨_, s', hs', he⟩
        have : s' = s := by
          have h1 := C.dec_enc (P.ι s')
          rw [← hs', hs, C.dec_enc] at h1
          exact (P.ι_inj (Option.some.inj h1)).symm
        subst this
        rw [he, sub_self, smul_zero]
        simp [Res.isValid]
  · rw [prepLeaf_pre_false C pk sig c hpre]
    simp only [Bool.false_and, Bool.false_eq_true, false_iff]
    rintro ⟨hpk, s, hs, _⟩
    exact hpre ⟨hs ▸ C.len _ _ (C.dec_enc _), hpk⟩

theorem prepLeaf_shape (C : Codec P) (h : P.G1) (pk : P.G2) (sig : Bytes) (c : ZMod r) :
    ((prepLeaf C pk sig c).1.res = .invalid → defect h (prepLeaf C pk sig c).1 = 0) ∧
    (prepLeaf C pk sig c).1.res ≠ .valid := by
  unfold prepLeaf
  simp only
  split <;> simp [defect]

theorem zip_individual (C : Codec P) (h : P.G1) (inputs : List (P.G2 × Bytes × ZMod r))
    (hc : ∀ x ∈ inputs, x.2.2 ≠ 0) :
    List.zipWith (fun (p : BLeaf P × Bool) (v : Res) => p.2 && v.isValid)
        (inputs.map fun x => prepLeaf C x.1 x.2.1 x.2.2)
        (inputs.map fun x => expected h (prepLeaf C x.1 x.2.1 x.2.2).1)
      = inputs.map fun x => verifyCore C x.1 x.2.1 h := by
  induction inputs with
  | nil => rfl
  | cons a t ih =>
    simp only [List.map_cons, List.zipWith_cons_cons]
    rw [prepLeaf_correct C h a.1 a.2.1 a.2.2 (hc a (by simp))]
    rw [ih (fun x hx => hc x (List.mem_cons_of_mem _ hx))]

/-- **batch verification returns, at every index, the verdict of individual verification**, for every
    list length, every tree split, every kind of invalid entry (correlated errors included), every
    coefficient vector with non-zero entries outside the bad set. -/
theorem batch_eq_individual (C : Codec P) (split : Nat → Nat) (hsplit : ∀ n, 2 ≤ n → 0 < split n ∧ split n < n)
    (h : P.G1) (inputs : List (P.G2 × Bytes × ZMod r)) (hc : ∀ x ∈ inputs, x.2.2 ≠ 0)
    (hgood : Good h (inputs.map fun x => (prepLeaf C x.1 x.2.1 x.2.2).1)) :
    batchVerify C split h inputs = inputs.map fun x => verifyCore C x.1 x.2.1 h := by
  unfold batchVerify
  simp only [List.map_map]
  have hspec := treeVerify_spec split hsplit h ((inputs.map fun x => prepLeaf C x.1 x.2.1 x.2.2).length + 1)
    (inputs.map fun x => (prepLeaf C x.1 x.2.1 x.2.2).1) (by simp) hgood
    (by
      intro x hx
      obtain ⟨y, _, rfl⟩ := List.mem_map.1 hx
      exact (prepLeaf_shape C h y.1 y.2.1 y.2.2).1)
    (by
      intro x hx
      obtain ⟨y, _, rfl⟩ := List.mem_map.1 hx
      exact (prepLeaf_shape C h y.1 y.2.1 y.2.2).2)
  have e : (List.map ((fun x => x.1) ∘ fun x => prepLeaf C x.1 x.2.1 x.2.2) inputs)
      = inputs.map fun x => (prepLeaf C x.1 x.2.1 x.2.2).1 := by simp [Function.comp_def]
  rw [e, hspec, List.map_map]
  exact zip_individual C h inputs hc


/-! ### the exceptional coefficient vectors are few -/

open Proofs.BatchCount Proofs.BatchBound in
theorem good_congr (h : P.G1) (l l' : List (BLeaf P)) (hd : l.map (defect h) = l'.map (defect h))
    (hg : Good h l) : Good h l' := by
  intro a b hx
  have e : ∀ m : List (BLeaf P), ((m.drop a).take b).map (defect h) = ((m.map (defect h)).drop a).take b := by
    intro m; rw [List.map_take, List.map_drop]
  rw [e l', ← hd, ← e l]
  apply hg a b
  obtain ⟨x, hxm, hxd⟩ := hx
  have : defect h x ∈ ((l'.drop a).take b).map (defect h) := List.mem_map.2 ⟨x, hxm, rfl⟩
  rw [e l', ← hd, ← e l] at this
  obtain ⟨y, hym, hyd⟩ := List.mem_map.1 this
  exact ⟨y, hym, by rw [hyd]; exact hxd⟩

open Proofs.BatchCount Proofs.BatchBound in
/-- the defect of a prepared leaf is the coefficient times the defect of the same leaf prepared with coefficient 1 -/
theorem prep_defect (C : Codec P) (h : P.G1) (pk : P.G2) (sig : Bytes) (c : ZMod r) :
    defect h (prepLeaf C pk sig c).1 =
      c • delta h (prepLeaf C pk sig 1).1.pk (prepLeaf C pk sig 1).1.s := by
  unfold prepLeaf defect delta
  simp only
  split
  · simp
  · simp only [one_smul, map_smul, LinearMap.smul_apply, smul_sub]

open Proofs.BatchCount Proofs.BatchBound in
/-- **batch verification equals individual verification for all but a few coefficient vectors**: for every list
    of `n` keys and signatures (any mix of valid, invalid, correlated, malformed, off-group, identity) there is a set
    of at most `(n+1)² · N^(n-1)` of the `N^n` coefficient vectors (`N = 2^128`: a fraction `≤ (n+1)²/2^128`) outside
    which the result is, index by index, what `Verify` returns -/
theorem batch_agrees_outside_few (C : Codec P) (split : Nat → Nat) (hsplit : ∀ n, 2 ≤ n → 0 < split n ∧ split n < n)
    (h : P.G1) (n N : ℕ) (hN : N < r) (pk : Fin n → P.G2) (sig : Fin n → Bytes) :
    ∃ B : Finset (Fin n → Fin N), B.card ≤ (n + 1) ^ 2 * N ^ (n - 1) ∧
      ∀ c, c ∉ B →
        batchVerify C split h (List.ofFn fun i => (pk i, sig i, coef (r := r) N (c i))) =
          List.ofFn fun i => verifyCore C (pk i) (sig i) h := by
  obtain ⟨B, hB, hgood⟩ := bad_vectors_few n N hN h
    (fun i => (prepLeaf C (pk i) (sig i) 1).1.pk) (fun i => (prepLeaf C (pk i) (sig i) 1).1.s)
  refine ⟨B, hB, fun c hc => ?_⟩
  have hne : ∀ x ∈ (List.ofFn fun i => (pk i, sig i, coef (r := r) N (c i))), x.2.2 ≠ 0 := by
    intro x hx
    obtain ⟨i, rfl⟩ := (List.mem_ofFn' _ _).1 hx
    show coef (r := r) N (c i) ≠ 0
    unfold coef
    intro hz
    rw [ZMod.natCast_eq_zero_iff] at hz
    have := Nat.le_of_dvd (by omega) hz
    have := (c i).isLt
    omega
  have := batch_eq_individual C split hsplit h _ hne (by
    apply good_congr h _ _ _ (hgood c hc)
    rw [List.map_ofFn, List.map_ofFn, List.map_ofFn]
    congr 1
    funext i
    simp only [Function.comp]
    rw [defect_scaled, prep_defect])
  rw [this, List.map_ofFn]
  rfl

/-- the result has one boolean per input -/
theorem batch_length (C : Codec P) (split : Nat → Nat) (hsplit : ∀ n, 2 ≤ n → 0 < split n ∧ split n < n)
    (h : P.G1) (inputs : List (P.G2 × Bytes × ZMod r)) (hc : ∀ x ∈ inputs, x.2.2 ≠ 0)
    (hgood : Good h (inputs.map fun x => (prepLeaf C x.1 x.2.1 x.2.2).1)) :
    (batchVerify C split h inputs).length = inputs.length := by
  rw [batch_eq_individual C split hsplit h inputs hc hgood]; simp

/-- the code's split `left = len - len/2` is admissible; so is any other proper split -/
theorem code_split_ok : ∀ n, 2 ≤ n → 0 < n - n / 2 ∧ n - n / 2 < n := by
  intro n hn; omega

/-- a valid-only batch is good for every coefficient vector: nothing can go wrong -/
theorem good_of_all_valid (h : P.G1) (l : List (BLeaf P)) (hv : ∀ x ∈ l, defect h x = 0) : Good h l := by
  intro a b ⟨x, hx, hne⟩
  exact absurd (hv x (List.mem_of_mem_drop (List.mem_of_mem_take hx))) hne

/-- a batch with exactly one defective entry is good for every coefficient vector -/
theorem good_of_single_defect (h : P.G1) (pre post : List (BLeaf P)) (x : BLeaf P)
    (hpre : ∀ y ∈ pre, defect h y = 0) (hpost : ∀ y ∈ post, defect h y = 0) : Good h (pre ++ x :: post) := by
  intro a b ⟨y, hy, hne⟩
  -- every element of the segment other than `x` has defect zero, so the sum is the defect of `x` (if present)
  have hz : ∀ (seg : List (BLeaf P)), (∀ z ∈ seg, defect h z = 0) → (seg.map (defect h)).sum = 0 := by
    intro seg hs
    induction seg with
    | nil => simp
    | cons z t ih =>
      simp only [List.map_cons, List.sum_cons, hs z (by simp), zero_add]
      exact ih (fun w hw => hs w (List.mem_cons_of_mem _ hw))
  -- decompose the segment around `x` using sublist structure: a segment of `pre ++ x :: post` is
  -- `pre' ++ x :: post'`, or inside `pre`, or inside `post`
  have hseg : ∃ p q : List (BLeaf P), ((pre ++ x :: post).drop a).take b = p ++ q ∧
      (∀ z ∈ p, defect h z = 0) ∧ (q = [] ∨ ∃ q', q = x :: q' ∧ ∀ z ∈ q', defect h z = 0) := by
    by_cases ha : a ≤ pre.length
    · rw [List.drop_append_of_le_length ha]
      by_cases hb : b ≤ (pre.drop a).length
      · refine ⟨(pre.drop a).take b, [], ?_, ?_, Or.inl rfl⟩
        · rw [List.take_append_of_le_length hb]; simp
        · intro z hz'; exact hpre z (List.mem_of_mem_drop (List.mem_of_mem_take hz'))
      · have hb' : (pre.drop a).length ≤ b := by omega
        rw [List.take_append (l₁ := pre.drop a), List.take_of_length_le hb']
        refine ⟨pre.drop a, (x :: post).take (b - (pre.drop a).length), rfl, ?_, ?_⟩
        · intro z hz'; exact hpre z (List.mem_of_mem_drop hz')
        · cases hk : b - (pre.drop a).length with
          | zero => left; simp
          | succ k =>
            right
            refine ⟨post.take k, by simp, ?_⟩
            intro z hz'; exact hpost z (List.mem_of_mem_take hz')
    · have ha' : pre.length ≤ a := by omega
      obtain ⟨d, rfl⟩ := Nat.exists_eq_add_of_le ha'
      rw [show pre.length + d = pre.length + d from rfl, List.drop_append]
      simp only [List.drop_of_length_le (Nat.le_add_right _ _), Nat.add_sub_cancel_left, List.nil_append]
      cases d with
      | zero =>
        simp only [List.drop_zero]
        cases b with
        | zero => exact ⟨[], [], by simp, by simp, Or.inl rfl⟩
        | succ k =>
          refine ⟨[], x :: post.take k, by simp, by simp, Or.inr ⟨post.take k, rfl, ?_⟩⟩
          intro z hz'; exact hpost z (List.mem_of_mem_take hz')
      | succ k =>
        refine ⟨(post.drop k).take b, [], by simp, ?_, Or.inl rfl⟩
        intro z hz'; exact hpost z (List.mem_of_mem_drop (List.mem_of_mem_take hz'))
  obtain ⟨p, q, hpq, hp, hq⟩ := hseg
  rw [hpq] at hy ⊢
  rw [List.map_append, List.sum_append, hz p hp, zero_add]
  rcases hq with rfl | ⟨q', rfl, hq'⟩
  · simp only [List.append_nil] at hy
    exact absurd (hp y hy) hne
  · simp only [List.map_cons, List.sum_cons, hz q' hq', add_zero]
    rcases List.mem_append.1 hy with hy | hy
    · exact absurd (hp y hy) hne
    · rcases List.mem_cons.1 hy with rfl | hy
      · exact hne
      · exact absurd (hq' y hy) hne

/-- on an input error every returned boolean is false (the Go-level guards return `falseSlice`); guards as the
    code has them now -/
theorem tie_guards (lp ls : Int) :
    Extracted.Guards.crypto_BatchVerifyBLSSignaturesOneMessage_g0 lp = decide (lp = 0) ∧
    Extracted.Guards.crypto_BatchVerifyBLSSignaturesOneMessage_g1 lp ls = decide (lp ≠ ls) ∧
    Extracted.Consts.crypto_securityBits = 128 := ⟨rfl, rfl, by decide⟩

/-- coefficients are `rand + 1` with `rand < 2^(8·(securityBits/8))`: never zero modulo the group order -/
theorem coeff_nonzero (rnd : Nat) (hr : rnd < 2 ^ (8 * (Extracted.Consts.crypto_securityBits / 8)).toNat) :
    (rnd + 1) % 0x73eda753299d7d483339d80809a1d80553bda402fffe5bfeffffffff00000001 ≠ 0 := by
  have : (8 * (Extracted.Consts.crypto_securityBits / 8)).toNat = 128 := by decide
  rw [this] at hr
  omega

end Props.C03

#print axioms Props.C03.prepLeaf_correct
#print axioms Props.C03.zip_individual
#print axioms Props.C03.batch_eq_individual
#print axioms Props.C03.batch_length
#print axioms Props.C03.code_split_ok
#print axioms Props.C03.good_of_all_valid
#print axioms Props.C03.good_of_single_defect
#print axioms Props.C03.tie_guards
#print axioms Props.C03.coeff_nonzero
#print axioms treeVerify_spec
#print axioms Props.C03.batch_agrees_outside_few
