import Model.Dkg
import Proofs.DkgFlags
import Extracted.Guards
import Extracted.Consts

/-! # C10 — DKG instances follow the documented single-use state machine

Theorems over the state-machine models of `Model/Dkg.lean`, for every crypto-operations record `O`,
every state and every argument. -/

namespace Props.C10
open Model Model.Dkg

variable {O : Ops}

def isReject : Res → Bool
  | .invalidTransition => true
  | .invalidInputs => true
  | _ => false

/-- phases of the documented automaton of the Qual-based protocols -/
inductive Phase | notRunning | round1 | round2 | round3
deriving DecidableEq, Repr

def phase (s : St O) : Phase :=
  if !s.running then .notRunning
  else if !s.sharesTimeout then .round1
  else if !s.complaintsTimeout then .round2
  else .round3

/-! ### the class of every answer is the one the documented automaton prescribes -/

/-- message handlers and ForceDisqualify (Feldman-VSS-Qual): state-transition error iff not running,
    else invalid-input error iff the index is out of range, else accepted -/
theorem fvssq_handler_class (s : St O) (orig : Int) (m : Bytes) :
    (FvssQ.handleBroadcast s orig m).2.2 =
      (if !s.running then .invalidTransition else if badIndex s.size orig then .invalidInputs else .ok) ∧
    (FvssQ.handlePrivate s orig m).2.2 =
      (if !s.running then .invalidTransition else if badIndex s.size orig then .invalidInputs else .ok) ∧
    (FvssQ.forceDisqualify s orig).2.2 =
      (if !s.running then .invalidTransition else if badIndex s.size orig then .invalidInputs else .ok) := by
  unfold FvssQ.handleBroadcast FvssQ.handlePrivate FvssQ.forceDisqualify
  refine ⟨?_, ?_, ?_⟩ <;> (split <;> try rfl) <;> (split <;> rfl)

theorem fvss_handler_class (s : St O) (orig : Int) (m : Bytes) :
    (Fvss.handleBroadcast s orig m).2.2 =
      (if !s.running then .invalidTransition else if badIndex s.size orig then .invalidInputs else .ok) ∧
    (Fvss.handlePrivate s orig m).2.2 =
      (if !s.running then .invalidTransition else if badIndex s.size orig then .invalidInputs else .ok) ∧
    (Fvss.forceDisqualify s orig).2.2 =
      (if !s.running then .invalidTransition else if badIndex s.size orig then .invalidInputs else .ok) := by
  unfold Fvss.handleBroadcast Fvss.handlePrivate Fvss.forceDisqualify
  refine ⟨?_, ?_, ?_⟩ <;> (split <;> try rfl) <;> (split <;> rfl)

/-- the complaints timeout only ever follows the shares timeout (invariant of every reachable state) -/
def TimeoutsOrdered (s : St O) : Prop := s.complaintsTimeout = true → s.sharesTimeout = true

/-- NextTimeout (Qual): accepted exactly in rounds 1 and 2 -/
theorem fvssq_timeout_class (s : St O) (hw : TimeoutsOrdered s) :
    (FvssQ.nextTimeout s).2.2 = (if phase s = .round1 ∨ phase s = .round2 then .ok else .invalidTransition) := by
  unfold TimeoutsOrdered at hw
  unfold FvssQ.nextTimeout phase
  cases h0 : s.running <;> cases h1 : s.sharesTimeout <;> cases h2 : s.complaintsTimeout <;> simp_all

theorem startBody_ne_IT (s : St O) (seed : Bytes) : (startBody s seed).2.2 ≠ .invalidTransition := by
  unfold startBody
  simp only
  split
  · split
    · simp
    · rename_i r hne heq
      unfold generateShares at heq
      split at heq
      · cases heq; simp
      · split at heq
        · cases heq; simp
        · cases heq; simp at hne
  · simp

/-- Start: refused with a state-transition error exactly while running -/
theorem start_class (s : St O) (seed : Bytes) :
    (start s seed).2.2 = .invalidTransition ↔ s.running = true := by
  unfold start
  constructor
  · intro h
    split at h
    · assumption
    · exact absurd h (startBody_ne_IT s seed)
  · intro h; simp [h]

theorem fvssq_endBody_not_reject (s : St O) : isReject (FvssQ.endBody s).2.2 = false := by
  unfold FvssQ.endBody
  simp only
  split
  · rfl
  · split
    · rfl
    · split; · rfl
      split <;> rfl

theorem fvss_endBody_not_reject (s : St O) : isReject (Fvss.endBody s) = false := by
  unfold Fvss.endBody
  split; · rfl
  split; · rfl
  split; · rfl
  split <;> rfl

/-- End (Qual): refused unless running with both timeouts passed -/
theorem fvssq_end_class (s : St O) (hw : TimeoutsOrdered s) :
    (FvssQ.end_ s).2.2 = .invalidTransition ↔ phase s ≠ .round3 := by
  unfold TimeoutsOrdered at hw
  unfold FvssQ.end_ phase
  cases hr : s.running <;> cases h1 : s.sharesTimeout <;> cases h2 : s.complaintsTimeout <;> simp_all
  have := fvssq_endBody_not_reject s
  intro h; rw [h] at this; simp [isReject] at this

/-- plain Feldman VSS: NextTimeout is a no-op; End is refused exactly when not running -/
theorem fvss_end_class (s : St O) : (Fvss.end_ s).2.2 = .invalidTransition ↔ s.running = false := by
  unfold Fvss.end_
  cases hr : s.running <;> simp
  have := fvss_endBody_not_reject s
  intro h; rw [h] at this; simp [isReject] at this

theorem fvss_timeout_noop (s : St O) : step (.fvss s) .nextTimeout = (.fvss s, [], .ok) := rfl

/-! ### a call rejected for a state-machine or index reason changes nothing and emits nothing -/

theorem fvssq_reject_noop (s : St O) (orig : Int) (m : Bytes) :
    (isReject (FvssQ.handleBroadcast s orig m).2.2 = true →
      (FvssQ.handleBroadcast s orig m).1 = s ∧ (FvssQ.handleBroadcast s orig m).2.1 = []) ∧
    (isReject (FvssQ.handlePrivate s orig m).2.2 = true →
      (FvssQ.handlePrivate s orig m).1 = s ∧ (FvssQ.handlePrivate s orig m).2.1 = []) ∧
    (isReject (FvssQ.forceDisqualify s orig).2.2 = true →
      (FvssQ.forceDisqualify s orig).1 = s ∧ (FvssQ.forceDisqualify s orig).2.1 = []) ∧
    (isReject (FvssQ.nextTimeout s).2.2 = true →
      (FvssQ.nextTimeout s).1 = s ∧ (FvssQ.nextTimeout s).2.1 = []) ∧
    (isReject (FvssQ.end_ s).2.2 = true → (FvssQ.end_ s).1 = s ∧ (FvssQ.end_ s).2.1 = []) := by
  refine ⟨?_, ?_, ?_, ?_, ?_⟩
  · unfold FvssQ.handleBroadcast
    split; · intro _; exact ⟨rfl, rfl⟩
    split; · intro _; exact ⟨rfl, rfl⟩
    intro h; simp [isReject] at h
  · unfold FvssQ.handlePrivate
    split; · intro _; exact ⟨rfl, rfl⟩
    split; · intro _; exact ⟨rfl, rfl⟩
    intro h; simp [isReject] at h
  · unfold FvssQ.forceDisqualify
    split; · intro _; exact ⟨rfl, rfl⟩
    split; · intro _; exact ⟨rfl, rfl⟩
    intro h; simp [isReject] at h
  · unfold FvssQ.nextTimeout
    split; · intro _; exact ⟨rfl, rfl⟩
    split; · intro _; exact ⟨rfl, rfl⟩
    intro h; simp [isReject] at h
  · unfold FvssQ.end_
    split; · intro _; exact ⟨rfl, rfl⟩
    split; · intro _; exact ⟨rfl, rfl⟩
    intro h; rw [fvssq_endBody_not_reject] at h; cases h

theorem fvss_reject_noop (s : St O) (orig : Int) (m : Bytes) :
    (isReject (Fvss.handleBroadcast s orig m).2.2 = true →
      (Fvss.handleBroadcast s orig m).1 = s ∧ (Fvss.handleBroadcast s orig m).2.1 = []) ∧
    (isReject (Fvss.handlePrivate s orig m).2.2 = true →
      (Fvss.handlePrivate s orig m).1 = s ∧ (Fvss.handlePrivate s orig m).2.1 = []) ∧
    (isReject (Fvss.forceDisqualify s orig).2.2 = true →
      (Fvss.forceDisqualify s orig).1 = s ∧ (Fvss.forceDisqualify s orig).2.1 = []) ∧
    (isReject (Fvss.end_ s).2.2 = true → (Fvss.end_ s).1 = s ∧ (Fvss.end_ s).2.1 = []) := by
  refine ⟨?_, ?_, ?_, ?_⟩
  · unfold Fvss.handleBroadcast
    split; · intro _; exact ⟨rfl, rfl⟩
    split; · intro _; exact ⟨rfl, rfl⟩
    intro h; simp [isReject] at h
  · unfold Fvss.handlePrivate
    split; · intro _; exact ⟨rfl, rfl⟩
    split; · intro _; exact ⟨rfl, rfl⟩
    intro h; simp [isReject] at h
  · unfold Fvss.forceDisqualify
    split; · intro _; exact ⟨rfl, rfl⟩
    split; · intro _; exact ⟨rfl, rfl⟩
    intro h; simp [isReject] at h
  · unfold Fvss.end_
    split; · intro _; exact ⟨rfl, rfl⟩
    intro h; simp only at h; rw [fvss_endBody_not_reject] at h; cases h

theorem start_reject_noop (s : St O) (seed : Bytes) (h : (start s seed).2.2 = .invalidTransition) :
    (start s seed).1 = s ∧ (start s seed).2.1 = [] := by
  have hr := (start_class s seed).1 h
  unfold start
  simp [hr]

/-- hence: erasing the rejected calls from any history changes no later answer (single instance, Qual) -/
def runQ (s : St O) : List Call → St O × List (List Out × Res)
  | [] => (s, [])
  | c :: cs =>
    let (s', o, r) := match c with
      | .start seed => start s seed
      | .nextTimeout => FvssQ.nextTimeout s
      | .end_ => FvssQ.end_ s
      | .bcast orig m => FvssQ.handleBroadcast s orig m
      | .priv orig m => FvssQ.handlePrivate s orig m
      | .forceDisq p => FvssQ.forceDisqualify s p
      | .running => (s, [], .bool s.running)
    let (s'', rest) := runQ s' cs
    (s'', (o, r) :: rest)

def stepQ (s : St O) (c : Call) : St O × List Out × Res :=
  match c with
  | .start seed => start s seed
  | .nextTimeout => FvssQ.nextTimeout s
  | .end_ => FvssQ.end_ s
  | .bcast orig m => FvssQ.handleBroadcast s orig m
  | .priv orig m => FvssQ.handlePrivate s orig m
  | .forceDisq p => FvssQ.forceDisqualify s p
  | .running => (s, [], .bool s.running)

/-! ### progress of the timeouts and End -/

/-- message handlers and ForceDisqualify never change the phase -/
theorem handlers_preserve_phase (s : St O) (orig : Int) (m : Bytes) :
    phase (FvssQ.handleBroadcast s orig m).1 = phase s ∧ phase (FvssQ.handlePrivate s orig m).1 = phase s ∧
    phase (FvssQ.forceDisqualify s orig).1 = phase s := by
  have hp : ∀ s' : St O, sameFlags s s' → phase s' = phase s := by
    intro s' h; unfold phase; rw [h.1, h.2.1, h.2.2.1]
  refine ⟨?_, ?_, ?_⟩
  · unfold FvssQ.handleBroadcast
    split; · rfl
    split; · rfl
    exact hp _ (bcastBody_flags s _ m)
  · unfold FvssQ.handlePrivate
    split; · rfl
    split; · rfl
    exact hp _ (privBody_flags s _ m)
  · unfold FvssQ.forceDisqualify
    split; · rfl
    split; · rfl
    split <;> rfl

/-- what an accepted NextTimeout does to the flags -/
def TimeoutStep (s s' : St O) : Prop :=
  s'.running = s.running ∧
  (s.sharesTimeout = false → s'.sharesTimeout = true ∧ s'.complaintsTimeout = s.complaintsTimeout) ∧
  (s.sharesTimeout = true → s'.sharesTimeout = true ∧ s'.complaintsTimeout = true)

theorem timeoutBody_step (s : St O) : TimeoutStep s (FvssQ.timeoutBody s).1 := by
  unfold FvssQ.timeoutBody FvssQ.setSharesTimeout FvssQ.setComplaintsTimeout
  repeat' (first | split | (simp only []; split))
  all_goals first
    | (refine ⟨rfl, fun h => ?_, fun h => ?_⟩ <;> simp_all; done)
    | (rename_i h1 h2 h3 h4
       obtain ⟨e1, e2, e3, _⟩ := buildComplaint_flags ({ s with sharesTimeout := true } : St O)
       simp only at e1 e2 e3
       refine ⟨e1, fun _ => ⟨e2, e3⟩, fun h => ?_⟩
       simp_all)

/-- an accepted NextTimeout moves to the next round: round 1 → round 2 → round 3, so it is accepted exactly
    twice per run -/
theorem fvssq_timeout_progress (s : St O) (hw : TimeoutsOrdered s) :
    (phase s = .round1 → phase (FvssQ.nextTimeout s).1 = .round2) ∧
    (phase s = .round2 → phase (FvssQ.nextTimeout s).1 = .round3) ∧
    TimeoutsOrdered (FvssQ.nextTimeout s).1 := by
  obtain ⟨e1, e2, e3⟩ := timeoutBody_step s
  unfold TimeoutsOrdered at hw ⊢
  unfold FvssQ.nextTimeout phase
  cases hr : s.running <;> cases h1 : s.sharesTimeout <;> cases h2 : s.complaintsTimeout <;> simp_all

/-- End always leaves the instance not running (whenever it is not refused) -/
theorem end_stops (s : St O) :
    ((FvssQ.end_ s).2.2 ≠ .invalidTransition → (FvssQ.end_ s).1.running = false) ∧
    ((Fvss.end_ s).2.2 ≠ .invalidTransition → (Fvss.end_ s).1.running = false) := by
  constructor
  · intro h
    unfold FvssQ.end_ at h ⊢
    split; · simp_all
    split; · simp_all
    unfold FvssQ.endBody FvssQ.settle
    simp only
    split <;> (split; · rfl
               split; · rfl
               split; · rfl
               split <;> rfl)
  · intro h
    unfold Fvss.end_ at h ⊢
    split; · simp_all
    rfl

/-- Joint-Feldman: every call is refused with a state-transition error while the protocol is not running,
    without touching the state; ForceDisqualify with an out-of-range index is refused with an invalid-input error -/
theorem joint_not_running (j : JSt O) (h : j.jointRunning = false) (orig : Int) (m : Bytes) :
    Joint.nextTimeout j = (j, [], .invalidTransition) ∧ Joint.end_ j = (j, [], .invalidTransition) ∧
    Joint.handleBroadcast j orig m = (j, [], .invalidTransition) ∧
    Joint.handlePrivate j orig m = (j, [], .invalidTransition) ∧
    Joint.forceDisqualify j orig = (j, [], .invalidTransition) := by
  simp [Joint.nextTimeout, Joint.end_, Joint.handleBroadcast, Joint.handlePrivate, Joint.forceDisqualify, h]

theorem joint_force_range (j : JSt O) (h : j.jointRunning = true) (p : Int) (hb : badIndex j.size p = true) :
    Joint.forceDisqualify j p = (j, [], .invalidInputs) := by
  simp [Joint.forceDisqualify, h, hb]

theorem joint_start_running (j : JSt O) (h : j.jointRunning = true) (seed : Bytes) :
    Joint.start j seed = (j, [], .invalidTransition) := by
  simp [Joint.start, h]

/-! ### tie: guards and constants of the code as it is now -/

theorem tie_guards (size threshold me dealer orig n : Int) :
    Extracted.Guards.crypto_newDKGCommon_g0 size = (decide (size < 2) || decide (size > 254)) ∧
    Extracted.Guards.crypto_newDKGCommon_g2 size threshold = (decide (threshold ≥ size) || decide (threshold < 1)) ∧
    Extracted.Guards.crypto_feldmanVSSstate_HandleBroadcastMsg_g1 n orig = (decide (orig ≥ n) || decide (orig < 0)) ∧
    Extracted.Consts.crypto_DKGMinSize = 2 ∧ Extracted.Consts.crypto_DKGMaxSize = 254 ∧
    Extracted.Consts.crypto_MinimumThreshold = 1 ∧
    Extracted.Consts.crypto_feldmanVSSShare = 0 ∧ Extracted.Consts.crypto_feldmanVSSVerifVec = 1 ∧
    Extracted.Consts.crypto_feldmanVSSComplaint = 2 ∧ Extracted.Consts.crypto_feldmanVSSComplaintAnswer = 3 := by
  refine ⟨rfl, rfl, rfl, by decide, by decide, by decide, by decide, by decide, by decide, by decide⟩

end Props.C10

#print axioms Props.C10.fvssq_handler_class
#print axioms Props.C10.fvss_handler_class
#print axioms Props.C10.fvssq_timeout_class
#print axioms Props.C10.start_class
#print axioms Props.C10.fvssq_end_class
#print axioms Props.C10.fvss_end_class
#print axioms Props.C10.fvss_timeout_noop
#print axioms Props.C10.fvssq_reject_noop
#print axioms Props.C10.fvss_reject_noop
#print axioms Props.C10.start_reject_noop
#print axioms Props.C10.handlers_preserve_phase
#print axioms Props.C10.fvssq_timeout_progress
#print axioms Props.C10.end_stops
#print axioms Props.C10.joint_not_running
#print axioms Props.C10.joint_force_range
#print axioms Props.C10.joint_start_running
#print axioms Props.C10.tie_guards
