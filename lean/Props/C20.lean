import Model.KeccakF
import Extracted.Consts

/-! # C20 — results do not depend on the build configuration

The property is decided by translation validation (one transcript per build configuration, compared with the model
and with each other). What *can* be proved at the level of the repository's own Go code is the equivalence of the
two configuration-specific pairs of helpers of `hash/`: `xorIn` / `copyOut` in `xor_generic.go` (build tag
`purego`, or a non-amd64/386/ppc64le target) and in `xor_unaligned.go` (default). The unaligned `xorIn` is
unrolled for 13 lanes plus 4 more "if n >= 136": it agrees with the generic loop exactly for the two rates the
package uses (104 and 136, taken from the regenerated constants), and for no other rate; the unaligned `copyOut`
copies bytes, the generic one whole lanes: they agree for output lengths that are multiples of 8 (32 and 48 here).
Both agree with the model's `xorBlock` / `extract`, which is what the sponge theorems of C13 are about. The
assembly permutation, BLST's ADX/portable paths and cgo stay outside any model (see DESIGN.md section 6). -/

namespace Props.C20
open Model Model.KeccakF

/-- lane `i` of the buffer: `binary.LittleEndian.Uint64(buf[8*i:])`, resp. `bw[i]` of the unaligned view -/
def lane (buf : Bytes) (i : Nat) : UInt64 := leLane ((buf.drop (8 * i)).take 8)

/-- `xorIn` of `xor_generic.go`: `n := len(buf) / 8; for i := range n { d.a[i] ^= LittleEndian.Uint64(buf); buf = buf[8:] }` -/
def xorInGeneric (a : State) (buf : Bytes) : State :=
  (List.range (buf.length / 8)).foldl (fun a i => xorLane a i (lane buf i)) a

/-- `xorIn` of `xor_unaligned.go`: lanes 0..12 unconditionally, lanes 13..16 `if n >= 136` -/
def xorInUnaligned (a : State) (buf : Bytes) : State :=
  let a := (List.range 13).foldl (fun a i => xorLane a i (lane buf i)) a
  if buf.length ≥ 136 then [13, 14, 15, 16].foldl (fun a i => xorLane a i (lane buf i)) a else a

/-- **the two `xorIn` variants agree on every block of one of the two rates the package uses** -/
theorem xorIn_variants_eq (a : State) (buf : Bytes)
    (h : (buf.length : Int) = Extracted.Consts.hash_rateSHA3_384 ∨ (buf.length : Int) = Extracted.Consts.hash_rateSHA3_256 ∨
      (buf.length : Int) = Extracted.Consts.hash_rateKeccak_256) :
    xorInGeneric a buf = xorInUnaligned a buf := by
  have hl : buf.length = 104 ∨ buf.length = 136 := by
    unfold Extracted.Consts.hash_rateSHA3_384 Extracted.Consts.hash_rateSHA3_256 Extracted.Consts.hash_rateKeccak_256 at h
    omega
  unfold xorInGeneric xorInUnaligned
  rcases hl with hl | hl
  · rw [hl]; rfl
  · rw [hl]; rfl

/-- the unrolled variant is *not* a general `xorIn`: for the cSHAKE128 rate 168 it would drop four lanes (the
    reason KMAC128 goes through `golang.org/x/crypto/sha3` and not through this sponge) -/
example : xorInGeneric zeroState (List.replicate 168 1) ≠ xorInUnaligned zeroState (List.replicate 168 1) := by
  decide +kernel

/-- every rate of the package's sponges is at most `maxRate`, the size of the storage buffer the unaligned view
    is cast from -/
theorem rates_within_storage :
    Extracted.Consts.hash_rateSHA3_384 ≤ Extracted.Consts.hash_maxRate ∧ Extracted.Consts.hash_rateSHA3_256 ≤ Extracted.Consts.hash_maxRate ∧
    Extracted.Consts.hash_rateKeccak_256 ≤ Extracted.Consts.hash_maxRate ∧ Extracted.Consts.hash_rateSHA3_384 ≥ 8 * 13 := by
  decide

/-! ### both variants are the model's `xorBlock` -/

theorem xorLanes_fold (n : Nat) : ∀ (bs : Bytes) (_ : bs.length = 8 * n) (a : State) (i : Nat),
    xorLanes a i bs = (List.range n).foldl (fun a j => xorLane a (i + j) (leLane ((bs.drop (8 * j)).take 8))) a := by
  induction n with
  | zero =>
    intro bs h a i
    have : bs = [] := List.eq_nil_of_length_eq_zero (by omega)
    subst this; rfl
  | succ n ih =>
    intro bs h a i
    match bs, h with
    | b0 :: b1 :: b2 :: b3 :: b4 :: b5 :: b6 :: b7 :: rest, h =>
      have hr : rest.length = 8 * n := by simp only [List.length_cons] at h; omega
      show xorLanes (xorLane a i (leLane [b0, b1, b2, b3, b4, b5, b6, b7])) (i + 1) rest = _
      rw [ih rest hr, List.range_succ_eq_map, List.foldl_cons, List.foldl_map]
      simp only [Nat.mul_zero, List.drop_zero, Nat.add_zero]
      congr 1
      funext a' j
      have e1 : 8 * (j + 1) = 8 + 8 * j := by omega
      have e2 : i + (j + 1) = i + 1 + j := by omega
      rw [e1, e2, ← List.drop_drop]
      rfl

/-- the generic `xorIn` is the model's `xorBlock` on every buffer whose length is a multiple of 8 -/
theorem xorInGeneric_eq_model (a : State) (buf : Bytes) (n : Nat) (h : buf.length = 8 * n) :
    xorInGeneric a buf = xorBlock a buf := by
  unfold xorInGeneric xorBlock lane
  rw [xorLanes_fold n buf h a 0, h]
  have : 8 * n / 8 = n := by omega
  rw [this]
  congr 1
  funext a' j
  rw [Nat.zero_add]

/-- hence so is the unaligned one, for the package's rates -/
theorem xorInUnaligned_eq_model (a : State) (buf : Bytes) (h : buf.length = 104 ∨ buf.length = 136) :
    xorInUnaligned a buf = xorBlock a buf := by
  have hg : xorInGeneric a buf = xorInUnaligned a buf := by
    unfold xorInGeneric xorInUnaligned
    rcases h with hl | hl
    · rw [hl]; rfl
    · rw [hl]; rfl
  rw [← hg]
  rcases h with hl | hl
  · exact xorInGeneric_eq_model a buf 13 (by omega)
  · exact xorInGeneric_eq_model a buf 17 (by omega)

/-! ### `copyOut` -/

/-- `copyOut` of `xor_generic.go`: whole lanes while at least 8 bytes of the output remain -/
def copyOutGeneric (a : State) (n : Nat) : Bytes := (a.toList.take (n / 8)).flatMap laneBytes

/-- `copyOut` of `xor_unaligned.go`: `copy(buf, ab[:])` on the little-endian byte image of the state -/
def copyOutUnaligned (a : State) (n : Nat) : Bytes := (stateBytes a).take n

theorem flatMap_take_lanes (l : List UInt64) (k : Nat) : (l.flatMap laneBytes).take (8 * k) = (l.take k).flatMap laneBytes := by
  induction l generalizing k with
  | nil => simp
  | cons w t ih =>
    cases k with
    | zero => simp
    | succ k =>
      have hlen : (laneBytes w).length = 8 := rfl
      rw [List.flatMap_cons, List.take_succ_cons, List.flatMap_cons]
      have : 8 * (k + 1) = (laneBytes w).length + 8 * k := by rw [hlen]; omega
      rw [this, List.take_length_add_append, ih]

/-- **the two `copyOut` variants agree on every output length that is a multiple of 8** (the digests are 32 and 48
    bytes long); both are the model's `extract` -/
theorem copyOut_variants_eq (a : State) (n : Nat) (h : n % 8 = 0) :
    copyOutGeneric a n = copyOutUnaligned a n ∧ copyOutUnaligned a n = extract a n := by
  refine ⟨?_, rfl⟩
  unfold copyOutGeneric copyOutUnaligned stateBytes
  have : n = 8 * (n / 8) := by omega
  rw [this, flatMap_take_lanes]
  congr 2
  omega

/-- the digest lengths of the package's sponges are multiples of 8 (regenerated constants) -/
theorem digest_lengths_whole_lanes :
    Extracted.Consts.hash_HashLenSHA3_256 % 8 = 0 ∧ Extracted.Consts.hash_HashLenSHA3_384 % 8 = 0 ∧ Extracted.Consts.hash_HashLenKeccak_256 % 8 = 0 := by
  decide

/-- and for a length that is not a multiple of 8 they would differ (the generic one leaves the tail untouched) -/
example : copyOutGeneric zeroState 12 ≠ copyOutUnaligned zeroState 12 := by decide +kernel

/-- the model's transcript is a function of the request lines only: there is no configuration parameter anywhere in
    `Model/` (trivially true, stated because the decision procedure of this property compares every configuration
    with this one function) -/
theorem model_has_no_configuration (f : String → String) (l1 l2 : List String) (h : l1 = l2) : l1.map f = l2.map f := by
  rw [h]

end Props.C20

#print axioms Props.C20.xorIn_variants_eq
#print axioms Props.C20.rates_within_storage
#print axioms Props.C20.xorInGeneric_eq_model
#print axioms Props.C20.xorInUnaligned_eq_model
#print axioms Props.C20.copyOut_variants_eq
#print axioms Props.C20.digest_lengths_whole_lanes
#print axioms Props.C20.model_has_no_configuration
