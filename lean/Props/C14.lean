import Model.Prg
import Proofs.Prg
import Extracted.Consts

/-! # C14 — ChaCha20 PRG equals the RFC 8439 keystream; Store/Restore resumes exactly

Property theorems only (helper lemmas are in `Proofs/Prg.lean`).  The block function `blk` is
universally quantified: the statements hold for the Go control flow over *any* 64-byte block
function; that `Model.ChaCha20.block` is the RFC function and that x/crypto computes it is the
correspondence part of the check. -/

namespace Props.C14
open Model Model.Prg

/-- what a user may assume about a generator that has output `T` bytes so far -/
def StateInv (blk : Nat → Bytes) (s : State) (T : Nat) : Prop :=
  Inv blk s.cipher T ∧ s.counter = T ∧ T < 2 ^ 64

theorem xor_zeros (ks : Bytes) (n : Nat) (h : ks.length = n) : xorBytes (zeros n) ks = ks := by
  subst h
  unfold xorBytes zeros
  induction ks with
  | nil => simp
  | cons a t ih => simp [List.replicate_succ, ih]

/-- One `Read` of any size returns the next bytes of the keystream (both message paths). -/
theorem read_spec (blk : Nat → Bytes) (hblk : ∀ i, (blk i).length = 64) (s : State) (T n : Nat)
    (h : StateInv blk s T) (hn : T + n < 2 ^ 64) :
    (read blk s n).2 = (keystream blk (T + n)).drop T ∧ StateInv blk (read blk s n).1 (T + n) := by
  obtain ⟨hi, hc, _⟩ := h
  have hs := take_spec blk hblk s.cipher T n hi
  have hl : ((keystream blk (T + n)).drop T).length = n := by
    rw [List.length_drop, keystream_length blk hblk]; omega
  unfold Prg.read Cipher.xorKeyStream
  simp only [ite_self, zeros, List.length_replicate]
  refine ⟨?_, ?_, ?_, hn⟩
  · rw [hs.1]; exact xor_zeros _ _ hl
  · exact hs.2
  · simp only [hc]; omega

def readMany (blk : Nat → Bytes) : State → List Nat → State × Bytes
  | s, [] => (s, [])
  | s, n :: ns =>
    let (s1, o1) := read blk s n
    let (s2, o2) := readMany blk s1 ns
    (s2, o1 ++ o2)

theorem drop_glue {α} (X : List α) (T a : Nat) (h : T + a ≤ X.length) :
    (X.take (T + a)).drop T ++ X.drop (T + a) = X.drop T := by
  conv => rhs; rw [← List.take_append_drop (T + a) X]
  rw [List.drop_append_of_le_length]
  rw [List.length_take]; omega

theorem readMany_spec (blk : Nat → Bytes) (hblk : ∀ i, (blk i).length = 64) (sizes : List Nat) :
    ∀ (s : State) (T : Nat), StateInv blk s T → T + sizes.sum < 2 ^ 64 →
    (readMany blk s sizes).2 = (keystream blk (T + sizes.sum)).drop T ∧
    StateInv blk (readMany blk s sizes).1 (T + sizes.sum) := by
  induction sizes with
  | nil =>
    intro s T h _
    simp only [readMany, List.sum_nil, Nat.add_zero]
    refine ⟨?_, h⟩
    rw [List.drop_of_length_le]; rw [keystream_length blk hblk]; omega
  | cons n ns ih =>
    intro s T h hb
    simp only [List.sum_cons] at hb ⊢
    have h1 := read_spec blk hblk s T n h (by omega)
    have h2 := ih (read blk s n).1 (T + n) h1.2 (by omega)
    simp only [readMany]
    rw [show T + (n + ns.sum) = T + n + ns.sum by omega]
    refine ⟨?_, h2.2⟩
    rw [h2.1, h1.1]
    rw [← keystream_prefix blk hblk (T + n) (T + n + ns.sum) (by omega)]
    apply drop_glue
    rw [keystream_length blk hblk]; omega

/-- **Reads of any sizes concatenate to the keystream prefix** (no bound on the number of reads). -/
theorem read_concat (blk : Nat → Bytes) (hblk : ∀ i, (blk i).length = 64) (seed cust : Bytes)
    (s0 : State) (h0 : new? seed cust = some s0) (sizes : List Nat) (hb : sizes.sum < 2 ^ 64) :
    (readMany blk s0 sizes).2 = keystream blk sizes.sum := by
  have hinit : StateInv blk s0 0 := by
    unfold new? at h0
    split at h0; · cases h0
    split at h0; · cases h0
    cases h0
    exact ⟨inv_init blk, rfl, by decide⟩
  have := (readMany_spec blk hblk sizes s0 0 hinit (by omega)).1
  simpa using this

/-- constructor guards: exactly the 32-byte seeds with customizers of at most 12 bytes are accepted -/
theorem ctor_guards (seed cust : Bytes) :
    (new? seed cust).isSome ↔ seed.length = 32 ∧ cust.length ≤ 12 := by
  unfold new? seedLen custMaxLen
  split
  · simp_all
  · split <;> simp_all <;> omega

/-- the customizer is zero-padded to 12 bytes -/
theorem ctor_pad (seed cust : Bytes) (s : State) (h : new? seed cust = some s) :
    s.cust.length = 12 ∧ s.seed.length = 32 ∧ s.cust.take cust.length = cust := by
  unfold new? seedLen custMaxLen at h
  split at h; · cases h
  split at h; · cases h
  cases h
  simp_all [zeros]

theorem store_len (s : State) (h1 : s.seed.length = 32) (h2 : s.cust.length = 12) :
    (store s).length = 52 := by
  simp [store, natLE, h1, h2]

theorem restore_guard (blkOf : Bytes → Bytes → Nat → Bytes) (st : Bytes) :
    (restore? blkOf st).isSome ↔ st.length = 52 := by
  unfold restore?
  split <;> simp_all

/-- **Store/Restore resumes exactly**: for every generator that has output `T < 2^38` bytes (the
    RFC's 2^32-block limit), the generator rebuilt from `Store()` is the original generator as a
    state (up to the scratch buffer of `UintN`, see C15 `uintN_scratch_irrelevant`), so every later
    output is the continuation of the stream. -/
theorem restore_store (blkOf : Bytes → Bytes → Nat → Bytes)
    (hblk : ∀ k n i, (blkOf k n i).length = 64) (s : State) (T : Nat)
    (hs : s.seed.length = 32) (hc : s.cust.length = 12)
    (h : StateInv (blkOf s.seed s.cust) s T) (hT : T < 2 ^ 38) :
    restore? blkOf (store s) = some { s with ubuf := zeros 8 } := by
  obtain ⟨hi, hcnt, _⟩ := h
  have hlen : (store s).length = 52 := store_len s hs hc
  have hle : (natLE 8 s.counter).length = 8 := natLE_length _ _
  have htake : (store s).take 32 = s.seed := by
    unfold store
    rw [List.append_assoc, List.take_append_of_le_length (by omega), ← hs, List.take_length]
  have hdrop : (store s).drop 32 = s.cust ++ natLE 8 s.counter := by
    unfold store
    rw [List.append_assoc, ← hs, List.drop_left]
  have hcust : ((store s).drop 32).take 12 = s.cust := by
    rw [hdrop, ← hc, List.take_left]
  have hctr : leNat ((store s).drop 44) = T := by
    have : (store s).drop 44 = natLE 8 s.counter := by
      rw [show 44 = 32 + 12 by rfl, ← List.drop_drop, hdrop, ← hc, List.drop_left]
    rw [this, leNat_natLE, hcnt]
    exact Nat.mod_eq_of_lt (by omega)
  unfold restore?
  rw [if_neg (by omega)]
  simp only [htake, hcust, hctr]
  have hq : T / 64 % 2 ^ 32 = T / 64 := Nat.mod_eq_of_lt (by omega)
  rw [hq]
  have hinv0 : Inv (blkOf s.seed s.cust) { ctr := T / 64, buf := [] } (64 * (T / 64)) := by
    refine ⟨Nat.le_refl _, by simp only; omega, ?_⟩
    simp only
    rw [List.drop_of_length_le]
    rw [blocks_length _ (hblk _ _)]; exact Nat.le_refl _
  have hsp := take_spec (blkOf s.seed s.cust) (hblk _ _) { ctr := T / 64, buf := [] } (64 * (T / 64))
    (T % 64) hinv0
  rw [Nat.div_add_mod] at hsp
  have := Inv.unique _ hsp.2 hi
  unfold Cipher.xorKeyStream
  simp only [zeros, List.length_replicate]
  rw [this]
  cases s
  simp_all

/-! ### the concrete instance -/

theorem block_length (key nonce : Bytes) (i : Nat) : (ChaCha20.block key nonce i).length = 64 := by
  unfold ChaCha20.block
  simp [ChaCha20.ser32, natLE, List.finRange]

/-- RFC 8439 §2.3.2 test vector (block counter 1), checked by the kernel. -/
theorem rfc8439_block_kat :
    ChaCha20.block ((List.range 32).map UInt8.ofNat) [0,0,0,9,0,0,0,0x4a,0,0,0,0] 1 =
    [0x10,0xf1,0xe7,0xe4,0xd1,0x3b,0x59,0x15,0x50,0x0f,0xdd,0x1f,0xa3,0x20,0x71,0xc4,
     0xc7,0xd1,0xf4,0xc7,0x33,0xc0,0x68,0x03,0x04,0x22,0xaa,0x9a,0xc3,0xd4,0x6c,0x4e,
     0xd2,0x82,0x64,0x46,0x07,0x9f,0xaa,0x09,0x14,0xc2,0xd7,0x05,0xd9,0x8b,0x02,0xa2,
     0xb5,0x12,0x9c,0xd1,0xde,0x16,0x4e,0xb9,0xcb,0xd0,0x83,0xe8,0xa2,0x50,0x3c,0x4e] := by
  decide +kernel

/-- `read_concat` for the instance the driver runs -/
theorem read_concat_chacha (seed cust : Bytes) (s0 : State) (h0 : new? seed cust = some s0)
    (sizes : List Nat) (hb : sizes.sum < 2 ^ 64) :
    (readMany (ChaCha20.block s0.seed s0.cust) s0 sizes).2
      = keystream (ChaCha20.block s0.seed s0.cust) sizes.sum :=
  read_concat _ (block_length _ _) seed cust s0 h0 sizes hb

/-! ### tie to the constants the code has now (regenerated on every run) -/

theorem tie_seedLen : Extracted.Consts.random_Chacha20SeedLen = (seedLen : Int) := by decide
theorem tie_custMaxLen : Extracted.Consts.random_Chacha20CustomizerMaxLen = (custMaxLen : Int) := by decide
theorem tie_emptyMessage : Extracted.Consts.random_lenEmptyMessage = (lenEmptyMessage : Int) := by decide
theorem tie_stateLen : Extracted.Consts.random_keySize + Extracted.Consts.random_nonceSize
    + Extracted.Consts.random_counterBytesLen = 52 := by decide

/-! ### non-vacuity -/

example : ∃ s0, new? (zeros 32) [1, 2, 3] = some s0 ∧ StateInv (ChaCha20.block s0.seed s0.cust) s0 0 :=
  ⟨_, rfl, inv_init _, rfl, by decide⟩

example : (restore? ChaCha20.block (store ⟨zeros 32, zeros 12, 70,
    ⟨2, (ChaCha20.block (zeros 32) (zeros 12) 1).drop 6⟩, zeros 8⟩)).isSome := by
  decide +kernel

end Props.C14

#print axioms Props.C14.read_spec
#print axioms Props.C14.readMany_spec
#print axioms Props.C14.read_concat
#print axioms Props.C14.read_concat_chacha
#print axioms Props.C14.restore_store
#print axioms Props.C14.ctor_guards
#print axioms Props.C14.ctor_pad
#print axioms Props.C14.store_len
#print axioms Props.C14.restore_guard
#print axioms Props.C14.block_length
#print axioms Props.C14.rfc8439_block_kat
#print axioms Props.C14.tie_seedLen
#print axioms Props.C14.tie_custMaxLen
#print axioms Props.C14.tie_emptyMessage
#print axioms Props.C14.tie_stateLen
