import Props.C14
import Proofs.Bytes

/-! # C14 (continued) — `RestoreChacha20PRG` on EVERY accepted state string

`Props.C14.restore_store` speaks about strings that `Store()` produced.  These theorems speak about
every 52-byte string the decoder accepts (an adversary or a corrupted file may supply any): the
restored generator holds exactly the three fields of the string, stores back to the same bytes, and
is positioned at the string's counter.  Property theorems only. -/

namespace Props.C14
open Model Model.Prg

/-- **Restore/Store is the identity on every accepted state string**: whatever 52 bytes
    `RestoreChacha20PRG` accepts, `Store()` of the restored generator returns those same bytes
    (seed, customizer and the full 64-bit counter, including counters beyond the 2^38-byte limit of
    the stream), for every block function. -/
theorem store_restore (blkOf : Bytes → Bytes → Nat → Bytes) (st : Bytes) (s : State)
    (h : restore? blkOf st = some s) : store s = st := by
  unfold restore? at h
  split at h
  · cases h
  · rename_i hl
    have hl : st.length = 52 := by omega
    simp only [Option.some.injEq] at h
    subst h
    simp only [store]
    have h8 : (st.drop 44).length = 8 := by simp [hl]
    have := natLE_leNat (st.drop 44)
    rw [h8] at this
    rw [this]
    have : (st.drop 32).take 12 ++ st.drop 44 = st.drop 32 := by
      have : st.drop 44 = (st.drop 32).drop 12 := by rw [List.drop_drop]
      rw [this, List.take_append_drop]
    rw [List.append_assoc, this, List.take_append_drop]

/-- restoring never fabricates state: the restored generator's seed, customizer and counter are the
    three fields of the string -/
theorem restore_fields (blkOf : Bytes → Bytes → Nat → Bytes) (st : Bytes) (s : State)
    (h : restore? blkOf st = some s) :
    s.seed = st.take 32 ∧ s.cust = (st.drop 32).take 12 ∧ s.counter = leNat (st.drop 44) ∧
      s.counter < 2 ^ 64 := by
  unfold restore? at h
  split at h
  · cases h
  · rename_i hl
    simp only [Option.some.injEq] at h
    subst h
    refine ⟨rfl, rfl, rfl, ?_⟩
    have := leNat_lt (st.drop 44)
    have h8 : (st.drop 44).length = 8 := by simp; omega
    rw [h8] at this
    simpa using this

/-- **A restored generator is positioned exactly at its counter**, for EVERY accepted state string
    (not only the ones `Store()` produced): if the 64-bit counter field `T` of the string is below
    2^38 (the RFC's 2^32-block limit), the generator `RestoreChacha20PRG` returns satisfies the
    invariant of a generator of that seed and customizer that has output `T` bytes — so by
    `read_spec` / `readMany_spec` every later output is the keystream from offset `T` on. -/
theorem restore_positions (blkOf : Bytes → Bytes → Nat → Bytes)
    (hblk : ∀ k n i, (blkOf k n i).length = 64) (st : Bytes) (s : State)
    (h : restore? blkOf st = some s) (hT : leNat (st.drop 44) < 2 ^ 38) :
    StateInv (blkOf s.seed s.cust) s (leNat (st.drop 44)) := by
  unfold restore? at h
  split at h
  · cases h
  · simp only [Option.some.injEq] at h
    subst h
    generalize leNat (st.drop 44) = T at hT ⊢
    have hq : T / 64 % 2 ^ 32 = T / 64 := Nat.mod_eq_of_lt (by omega)
    set blk := blkOf (st.take 32) ((st.drop 32).take 12) with hb
    have hinv0 : Inv blk { ctr := T / 64, buf := [] } (64 * (T / 64)) := by
      refine ⟨Nat.le_refl _, (by show 64 * (T / 64) < 64 * (T / 64) + 64; omega), ?_⟩
      simp only
      rw [List.drop_of_length_le]
      rw [blocks_length _ (hblk _ _)]
    have hsp := take_spec blk (hblk _ _) { ctr := T / 64, buf := [] } (64 * (T / 64)) (T % 64) hinv0
    rw [Nat.div_add_mod] at hsp
    refine ⟨?_, rfl, by omega⟩
    simp only [hq]
    unfold Cipher.xorKeyStream
    simp only [zeros, List.length_replicate]
    exact hsp.2

/-- the hypotheses are satisfiable: a 52-byte string with counter 100 is accepted -/
example : (restore? (fun _ _ _ => zeros 64) (zeros 44 ++ natLE 8 100)).isSome = true := by decide

end Props.C14

#print axioms Props.C14.store_restore
#print axioms Props.C14.restore_fields
#print axioms Props.C14.restore_positions
