import Proofs.BlsConcrete
import Props.C01
import Mathlib.LinearAlgebra.Dual.Lemmas

/-! # C01 (the abstract theorems on the groups of the executable model)

`Props.C01.verify_iff` speaks about any `PairingGroups` structure. Here the structure is the one of the executable
model (`Proofs/BlsConcrete.lean`): `E1` is the group of the curve `Model.Curve` computes in, `G1` / `G2` its `r`-torsion
(resp. that of the curve over `F_p²`), the codec is `Bls.readE1` / `Bls.writeE1`. The pairing is the only parameter:
for EVERY `ZMod r`-bilinear map on these subgroups that is non-degenerate at the generator of `G2`, verification
under the key `sk • g2` - the point `Bls.publicKeyOf sk` of the model - accepts exactly the string
`Bls.signPoint sk H`, the bytes the model's `Sign` produces and the run compares with the implementation. -/

namespace Props.C01Model
open Model Proofs.BlsConcrete Proofs.CurveGroup Proofs.CurveInst

local notation "r" => Model.Bls.r

variable (GT : Type) [AddCommGroup GT] [Module (ZMod r) GT] (e : G1 →ₗ[ZMod r] G2 →ₗ[ZMod r] GT)
  (nd : ∀ s : G1, e s g2 = 0 → s = 0)

/-- the abstract `Sign` on the concrete groups is the model's `signPoint` -/
theorem model_sign_is_abstract_sign (sk : ZMod r) (H : Bls.P1) (hv : Valid Bls.p 0 4 H) (hG : Bls.inG1 H = true) :
    signCore (codec GT e nd) sk (mkG1 H hv hG) = Bls.signPoint sk.val H :=
  encode_smul sk H hv hG

/-- the abstract public key on the concrete groups is the model's `publicKeyOf` -/
theorem model_public_key_is_abstract_key (sk : ZMod r) :
    (show G2 from sk • (concrete GT e nd).g2).1 =
      Proofs.CurveGroup2.toPoint Bls.p (0, 0) (4, 4) (Bls.publicKeyOf sk.val) :=
  smul_g2 sk

/-- **Verify on the groups of the model accepts exactly the model's signature bytes**, whatever the pairing -/
theorem model_verify_iff (sk : ZMod r) (hsk : sk ≠ 0) (sig : Model.Bytes) (H : Bls.P1) (hv : Valid Bls.p 0 4 H)
    (hG : Bls.inG1 H = true) :
    verifyCore (codec GT e nd) (sk • (concrete GT e nd).g2) sig (mkG1 H hv hG) = true ↔
      sig = Bls.signPoint sk.val H := by
  rw [verifyCore_iff (codec GT e nd) sk hsk (g2_ne_zero) sig (mkG1 H hv hG), model_sign_is_abstract_sign]

/-- the subgroup test of the abstract setting is the model's `inG1` on decoded signatures -/
theorem model_toG1_iff (Q : Bls.P1) (hv : Valid Bls.p 0 4 Q) :
    ((concrete GT e nd).toG1 (toPoint Bls.p 0 4 Q)).isSome = Bls.inG1 Q := by
  cases hto : (concrete GT e nd).toG1 (toPoint Bls.p 0 4 Q) with
  | none =>
    cases hb : Bls.inG1 Q with
    | false => rfl
    | true =>
      have := ((concrete GT e nd).toG1_iff (toPoint Bls.p 0 4 Q) (mkG1 Q hv hb)).2 rfl
      rw [hto] at this; cases this
  | some s =>
    have hs : (show G1 from s).1 = toPoint Bls.p 0 4 Q := ((concrete GT e nd).toG1_iff _ s).1 hto
    have h0 := (mem_torsion (show G1 from s).1).1 (show G1 from s).2
    rw [hs] at h0
    rw [(inG1_iff_torsion Q hv).2 h0]
    rfl

/-- non-vacuity: bilinear maps that are non-degenerate at `g2` exist on these groups (a linear functional that does
    not vanish at `g2`, times the identity of `G1`) - the theorem above is not about an empty class -/
example : ∃ (e : G1 →ₗ[ZMod r] G2 →ₗ[ZMod r] G1), ∀ s : G1, e s g2 = 0 → s = 0 := by
  obtain ⟨φ, hφ⟩ : ∃ φ : Module.Dual (ZMod r) G2, φ g2 ≠ 0 := by
    by_contra hc
    push Not at hc
    exact g2_ne_zero ((Module.forall_dual_apply_eq_zero_iff (ZMod r) g2).1 hc)
  refine ⟨LinearMap.mk₂ (ZMod r) (fun s b => φ b • s) ?_ ?_ ?_ ?_, ?_⟩
  · intro a b c; exact smul_add _ _ _
  · intro c a b; exact smul_comm _ _ _
  · intro a b c; rw [map_add, add_smul]
  · intro c a b; rw [map_smul, smul_eq_mul, mul_smul]
  · intro s hs
    rw [LinearMap.mk₂_apply] at hs
    rcases smul_eq_zero.1 hs with h | h
    · exact absurd h hφ
    · exact h

end Props.C01Model

#print axioms Props.C01Model.model_sign_is_abstract_sign
#print axioms Props.C01Model.model_public_key_is_abstract_key
#print axioms Props.C01Model.model_verify_iff
#print axioms Props.C01Model.model_toG1_iff
