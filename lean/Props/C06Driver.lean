import Props.C06Model
import Proofs.E1Codec
import Driver.Threshold
import Proofs.BlsLaws

/-! # C06 (the function the driver runs) — `Driver.Threshold.interpolate`, the oracle every reconstruction of the
implementation is compared with, returns the signature of the secret `Q(0)` on shares of any polynomial `Q`:
codec round trip, agreement of the textbook coefficient with the limb-batched loop (the "poison" check never fires),
and `Props.C06Model.model_threshold_reconstruction`. -/

namespace Props.C06Driver
open Model Model.Curve Proofs.CurveGroup Proofs.CurveInst

local notation "r" => Model.Bls.r

/-- group-valid points of `E1` are the valid points of the codec -/
theorem codec_valid1 (P : Bls.P1) (h : Valid Bls.p 0 4 P) : Proofs.E1Codec.Valid P := by
  intro x y hP
  subst hP
  obtain ⟨hx, hy, hc⟩ := h
  refine ⟨hx, hy, ?_⟩
  have hc' : (Fp.mul Bls.p y y == Fp.add Bls.p (Fp.add Bls.p (Fp.mul Bls.p (Fp.mul Bls.p x x) x) (Fp.mul Bls.p 0 x)) 4) = true := hc
  rw [beq_iff_eq] at hc'
  unfold Fp.mul Fp.add at hc'
  rw [hc']
  simp [Nat.add_mod, Nat.mul_mod]

/-- the textbook coefficient of the driver, as a field element -/
theorem coeffSpec_cast (xs : List ℕ) (hb : ∀ x ∈ xs, x ≤ 255) (i : ℕ) :
    ((Driver.Threshold.coeffSpec xs i : ℕ) : ZMod r) =
      ∏ j ∈ (Finset.range xs.length).erase i,
        ((xs.getD j 0 : ℕ) : ZMod r) / (((xs.getD j 0 : ℕ) : ZMod r) - ((xs.getD i 0 : ℕ) : ZMod r)) := by
  have hr2 : 2 < r := by decide +kernel
  have hrb : r < 2 ^ 800 := by decide +kernel
  have hr0 : 0 < r := by decide +kernel
  unfold Driver.Threshold.coeffSpec
  simp only []
  have key : ∀ (n : ℕ) (acc : ℕ),
      (((List.range n).foldl (fun acc j => if j = i then acc else
          acc * xs.getD j 0 % Driver.Threshold.r *
            powMod ((xs.getD j 0 + Driver.Threshold.r - xs.getD i 0) % Driver.Threshold.r) (Driver.Threshold.r - 2)
              Driver.Threshold.r % Driver.Threshold.r) acc : ℕ) : ZMod r) =
        (acc : ZMod r) * ∏ j ∈ (Finset.range n).erase i,
          ((xs.getD j 0 : ℕ) : ZMod r) / (((xs.getD j 0 : ℕ) : ZMod r) - ((xs.getD i 0 : ℕ) : ZMod r)) := by
    intro n
    induction n with
    | zero => intro acc; simp
    | succ n ih =>
      intro acc
      rw [List.range_succ, List.foldl_append, List.foldl_cons, List.foldl_nil]
      by_cases hn : n = i
      · rw [if_pos hn, ih acc]
        congr 1
        rw [Finset.range_add_one, hn, Finset.erase_insert_eq_erase]
      · rw [if_neg hn]
        show (((_ * xs.getD n 0 % r * powMod ((xs.getD n 0 + r - xs.getD i 0) % r) (r - 2) r % r : ℕ)) : ZMod r) = _
        rw [ZMod.natCast_mod, Nat.cast_mul, ZMod.natCast_mod, Nat.cast_mul, ih acc,
          Proofs.PowMod.powMod_inv r hr2 hrb, ZMod.natCast_mod]
        have hsub : (((xs.getD n 0 + r - xs.getD i 0 : ℕ)) : ZMod r) =
            ((xs.getD n 0 : ℕ) : ZMod r) - ((xs.getD i 0 : ℕ) : ZMod r) := by
          have hi255 : xs.getD i 0 ≤ 255 := by
            unfold List.getD
            cases h : xs[i]? with
            | none => simp
            | some v => simp only [Option.getD_some]; exact hb v (List.mem_of_getElem? h)
          have hr255 : 255 < r := by decide +kernel
          have hle : xs.getD i 0 ≤ xs.getD n 0 + r := by omega
          rw [Nat.cast_sub hle, Nat.cast_add, ZMod.natCast_self, add_zero]
        rw [hsub, Finset.range_add_one, Finset.erase_insert_of_ne hn, Finset.prod_insert (by simp)]
        rw [div_eq_mul_inv]
        ring
  have := key xs.length 1
  rw [Nat.cast_one, one_mul] at this
  exact this

/-- the two ways the driver computes the coefficient agree - the "poison" branch of `interpolate` is dead -/
theorem coeffSpec_eq_impl (xs : List ℕ) (hb : ∀ x ∈ xs, x ≤ 255) (i : ℕ) :
    Driver.Threshold.coeffSpec xs i = Driver.Threshold.coeffImpl xs i := by
  have hr2 : 2 < r := by decide +kernel
  have hrb : r < 2 ^ 800 := by decide +kernel
  have hr0 : 0 < r := by decide +kernel
  have h1 := coeffSpec_cast xs hb i
  have h2 := @Proofs.LagrangeCoeff.coeff_spec Model.Bls.r _ xs i hr2 hrb hb
  have hl1 : Driver.Threshold.coeffSpec xs i < r := by
    unfold Driver.Threshold.coeffSpec
    simp only []
    generalize (List.range xs.length) = l
    have : ∀ (l : List ℕ) (acc : ℕ), acc < r → l.foldl (fun acc j => if j = i then acc else
          acc * xs.getD j 0 % Driver.Threshold.r *
            powMod ((xs.getD j 0 + Driver.Threshold.r - xs.getD i 0) % Driver.Threshold.r) (Driver.Threshold.r - 2)
              Driver.Threshold.r % Driver.Threshold.r) acc < r := by
      intro l
      induction l with
      | nil => intro acc h; exact h
      | cons j t ih =>
        intro acc h
        rw [List.foldl_cons]
        apply ih
        split
        · exact h
        · exact Nat.mod_lt _ hr0
    exact this l 1 (by omega)
  have hl2 : Driver.Threshold.coeffImpl xs i < r := by
    unfold Driver.Threshold.coeffImpl Model.Threshold.coeff
    exact Nat.mod_lt _ hr0
  have hc : ((Driver.Threshold.coeffSpec xs i : ℕ) : ZMod r) = ((Driver.Threshold.coeffImpl xs i : ℕ) : ZMod r) := by
    rw [h1]; exact h2.symm
  have := congrArg ZMod.val hc
  rwa [ZMod.val_natCast, ZMod.val_natCast, Nat.mod_eq_of_lt hl1, Nat.mod_eq_of_lt hl2] at this

theorem range_map_getD (xs : List ℕ) : (List.range xs.length).map (fun i => xs.getD i 0) = xs := by
  apply List.ext_getElem
  · simp
  · intro i h1 h2
    simp [List.getD, List.getElem?_eq_getElem h2]

/-- a multiple of a valid point is read back from its encoding -/
theorem read_sign (k : ℕ) (hk : k < 2 ^ 800) (H : Bls.P1) (hH : Valid Bls.p 0 4 H) :
    (match Bls.readE1 (Bls.signPoint k H) with | .ok P => some P | .error _ => none) =
      some (Curve.mul Bls.E1 k H) := by
  have m := mul_eq Bls.p 0 4 bls_Δ bls_two bls_bits k hk H hH
  rw [← bls_E1] at m
  unfold Bls.signPoint
  rw [Proofs.E1Codec.e1_roundtrip _ (codec_valid1 _ m.1)]

/-- **the driver's reconstruction oracle is correct on every share set of every polynomial**: for distinct signer
    abscissas `xs` (at most 255), a polynomial `Q` over `F_r` of degree below their number and a hash point `H` of the
    subgroup, `Driver.Threshold.interpolate` on the encoded shares `Q(x_i) • H` returns the encoding of `Q(0) • H` -/
theorem driver_interpolate_reconstructs (xs : List ℕ) (hb : ∀ x ∈ xs, x ≤ 255)
    (hinj : Set.InjOn (fun j => ((xs.getD j 0 : ℕ) : ZMod r)) (Finset.range xs.length))
    (Q : Polynomial (ZMod r)) (hdeg : Q.degree < xs.length) (H : Bls.P1) (hH : Valid Bls.p 0 4 H)
    (hG : Bls.inG1 H = true) :
    Driver.Threshold.interpolate ((List.range xs.length).map fun i =>
        (xs.getD i 0, Bls.signPoint (Q.eval ((xs.getD i 0 : ℕ) : ZMod r)).val H)) =
      some (Bls.signPoint (Q.eval 0).val H) := by
  have hr800 : r < 2 ^ 800 := by decide +kernel
  have vlt : ∀ z : ZMod r, z.val < 2 ^ 800 := fun z => lt_trans (ZMod.val_lt z) hr800
  unfold Driver.Threshold.interpolate
  generalize Curve.mul Bls.E1 1 Bls.g1 = poison
  rw [Proofs.BlsLaws.mapM_map
    (fun i => (xs.getD i 0, Bls.signPoint (Q.eval ((xs.getD i 0 : ℕ) : ZMod r)).val H)) _
    (fun i => Curve.mul Bls.E1 (Q.eval ((xs.getD i 0 : ℕ) : ZMod r)).val H) (List.range xs.length)
    (fun i _ => read_sign _ (vlt _) H hH)]
  simp only [Option.bind_eq_bind, Option.bind_some, Option.pure_def, List.map_map, List.length_map, List.length_range]
  have hx : (List.range xs.length).map ((fun p : ℕ × Bytes => p.1) ∘ fun i =>
      (xs.getD i 0, Bls.signPoint (Q.eval ((xs.getD i 0 : ℕ) : ZMod r)).val H)) = xs := range_map_getD xs
  rw [hx]
  unfold Bls.signPoint
  apply congrArg (fun P => some (Bls.writeE1 P))
  rw [← Props.C06Model.model_threshold_reconstruction xs hb hinj Q hdeg H hH hG]
  apply congrArg (Curve.sum Bls.E1)
  apply List.map_congr_left
  intro i hi
  have hi' : i < xs.length := List.mem_range.1 hi
  rw [coeffSpec_eq_impl xs hb i]
  rw [if_pos (beq_self_eq_true _)]
  have hg : ((List.range xs.length).map fun i =>
      Curve.mul Bls.E1 (Q.eval ((xs.getD i 0 : ℕ) : ZMod r)).val H).getD i none =
      Curve.mul Bls.E1 (Q.eval ((xs.getD i 0 : ℕ) : ZMod r)).val H := by
    simp [List.getD, hi']
  rw [hg]
  unfold Driver.Threshold.coeffImpl Driver.Threshold.r
  exact Eq.refl _

/-- distinct signer abscissas at most 255 are distinct field elements -/
theorem inj_of_nodup (xs : List ℕ) (hb : ∀ x ∈ xs, x ≤ 255) (hnd : xs.Nodup) :
    Set.InjOn (fun j => ((xs.getD j 0 : ℕ) : ZMod r)) (Finset.range xs.length) := by
  have hr255 : 255 < r := by decide +kernel
  intro a ha b hb' hab
  have ha' : a < xs.length := by simpa using ha
  have hb'' : b < xs.length := by simpa using hb'
  simp only [List.getD, List.getElem?_eq_getElem ha', List.getElem?_eq_getElem hb'', Option.getD_some] at hab
  have h1 : xs[a] < r := lt_of_le_of_lt (hb _ (List.getElem_mem ha')) hr255
  have h2 : xs[b] < r := lt_of_le_of_lt (hb _ (List.getElem_mem hb'')) hr255
  have := congrArg ZMod.val hab
  rw [ZMod.val_natCast, ZMod.val_natCast, Nat.mod_eq_of_lt h1, Nat.mod_eq_of_lt h2] at this
  exact (List.Nodup.getElem_inj_iff hnd).1 this

/-- the same with the hypothesis the implementation enforces (no duplicated signer) -/
theorem driver_interpolate_reconstructs_nodup (xs : List ℕ) (hb : ∀ x ∈ xs, x ≤ 255) (hnd : xs.Nodup)
    (Q : Polynomial (ZMod r)) (hdeg : Q.degree < xs.length) (H : Bls.P1) (hH : Valid Bls.p 0 4 H)
    (hG : Bls.inG1 H = true) :
    Driver.Threshold.interpolate ((List.range xs.length).map fun i =>
        (xs.getD i 0, Bls.signPoint (Q.eval ((xs.getD i 0 : ℕ) : ZMod r)).val H)) =
      some (Bls.signPoint (Q.eval 0).val H) :=
  driver_interpolate_reconstructs xs hb (inj_of_nodup xs hb hnd) Q hdeg H hH hG

/-- the hypotheses are met: signers 1, 2, 3, the polynomial `X^2 + 7`, the generator of `G1` -/
example : (∀ x ∈ [1, 2, 3], x ≤ 255) ∧ [1, 2, 3].Nodup ∧ Valid Bls.p 0 4 Bls.g1 ∧ Bls.inG1 Bls.g1 = true ∧
    ((Polynomial.X ^ 2 + Polynomial.C 7 : Polynomial (ZMod r)).degree < ([1, 2, 3] : List ℕ).length) := by
  refine ⟨by decide, by decide, bls_g1_valid, by decide +kernel, ?_⟩
  have : (Polynomial.X ^ 2 + Polynomial.C 7 : Polynomial (ZMod r)).degree ≤ 2 := by
    compute_degree
  exact lt_of_le_of_lt this (by norm_num)

/-! ### the duplicate-signer test of the oracle (seeded change C06-l: a bitmap that confuses signers 64 apart) -/

section dup
open Driver.Threshold

/-- **distinct signers are never reported as duplicates** (and a repeated signer always is, unless an earlier entry
    is refused first): on a list of well-formed entries with pairwise distinct signers in range, the per-entry loop of
    the reconstruction oracle raises nothing, whatever the group size and the positions of the signers -/
theorem loop_none_of_nodup (n t : Int) : ∀ (pairs : List (Int × Bytes)) (i : Nat) (seen : List Int),
    (∀ p ∈ pairs, p.2.length = 48 ∧ 0 ≤ p.1 ∧ p.1 < n) → (pairs.map (·.1)).Nodup →
    (∀ p ∈ pairs, p.1 ∉ seen) → reconstruct.loop n t i seen pairs = none := by
  intro pairs
  induction pairs with
  | nil => intro i seen _ _ _; simp [reconstruct.loop]
  | cons p rest ih =>
    intro i seen hw hnd hs
    obtain ⟨s, b⟩ := p
    have hp := hw (s, b) (by simp)
    simp only [List.map_cons, List.nodup_cons] at hnd
    unfold reconstruct.loop
    rw [if_neg (by simp [hp.1]), if_neg (by omega), if_neg (by simpa using hs (s, b) (by simp))]
    apply ih
    · intro q hq; exact hw q (List.mem_cons_of_mem _ hq)
    · exact hnd.2
    · intro q hq hmem
      rcases List.mem_cons.mp hmem with h | h
      · exact hnd.1 (h ▸ List.mem_map_of_mem hq)
      · exact hs q (List.mem_cons_of_mem _ hq) h

/-- a signer that occurs twice among well-formed entries is reported as a duplicate -/
theorem loop_dup (n t : Int) (i : Nat) (seen : List Int) (s : Int) (b : Bytes) (rest : List (Int × Bytes))
    (hb : b.length = 48) (hr : 0 ≤ s ∧ s < n) (hs : s ∈ seen) :
    reconstruct.loop n t i seen ((s, b) :: rest) = some "err DuplicatedSigner" := by
  unfold reconstruct.loop
  rw [if_neg (by simp [hb]), if_neg (by omega), if_pos (by simpa using hs)]

end dup

end Props.C06Driver

#print axioms Props.C06Driver.driver_interpolate_reconstructs_nodup
#print axioms Props.C06Driver.driver_interpolate_reconstructs
#print axioms Props.C06Driver.loop_none_of_nodup
#print axioms Props.C06Driver.loop_dup
