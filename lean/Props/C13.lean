import Model.Sponge
import Proofs.Sponge
import Model.Hash
import Extracted.Consts
import Proofs.KmacEnc
import Proofs.SpongeFips

/-! # C13 — hashers and KMAC128 equal their standards for all inputs and chunkings

Part 1: the Go sponge (`hash/keccak.go`) for an arbitrary block-absorption function, any rate > 0,
any domain byte: every split of the input into `Write` calls gives the reference digest. -/

namespace Props.C13
open Model Model.Sponge

variable {St : Type}

theorem sum_of_repr (P : Params St) (hr : 0 < P.rate) (s : State St) (m : Bytes)
    (hn : s.isNil = false) (h : Absorbs P.absorb P.rate P.zero m s.a s.buf) :
    sum P s = refHash P m := by
  have := h.eq_absorbAll hr (m.length + 1) (by omega)
  unfold sum padAndPermute refHash
  rw [this]
  simp [hn]

/-- **All splits**: `Reset`, then any sequence of `Write` calls, then `SumHash` gives the digest of the
    concatenation (no bound on the number or sizes of the chunks). -/
theorem write_chunks (P : Params St) (hr : 0 < P.rate) (s : State St) (chunks : List Bytes) :
    sum P (chunks.foldl (write P) (reset P s)) = refHash P chunks.flatten := by
  have h0 : Absorbs P.absorb P.rate P.zero [] (reset P s).a (reset P s).buf :=
    Absorbs.done _ _ (by simpa [reset] using hr)
  have := writes_repr P hr P.zero chunks (reset P s) [] rfl h0
  exact sum_of_repr P hr _ _ this.2 (by simpa using this.1)

/-- `ComputeHash(x)` does not depend on anything written to the hasher before. -/
theorem computeHash_fresh (P : Params St) (hr : 0 < P.rate) (s : State St) (x : Bytes) :
    computeHash P s x = refHash P x := by
  have := write_chunks P hr s [x]
  simpa [computeHash] using this

/-- a hasher that was never reset behaves as a reset one (the `bufNilValue` sentinel) -/
theorem never_reset_ok (P : Params St) (hr : 0 < P.rate) (chunks : List Bytes) :
    sum P (chunks.foldl (write P) (new P)) = refHash P chunks.flatten := by
  cases chunks with
  | nil =>
    have h0 : Absorbs P.absorb P.rate P.zero [] P.zero [] := Absorbs.done _ _ (by simpa using hr)
    have := h0.eq_absorbAll hr 1 (by simp)
    simp only [List.foldl_nil, List.flatten_nil]
    unfold sum padAndPermute refHash new
    simp [this]
  | cons c cs =>
    have hw : write P (new P) c = write P (reset P (new P)) c := by
      simp [write, new, reset]
    have := write_chunks P hr (new P) (c :: cs)
    simpa [hw] using this

/-- the one-shot helpers (`ComputeSHA3_256`, …: `write` on a fresh state, `padAndPermute`, `copyOut`) agree -/
theorem oneShot_eq (P : Params St) (hr : 0 < P.rate) (x : Bytes) :
    sum P (write P (new P) x) = refHash P x := by
  have := never_reset_ok P hr [x]
  simpa using this

/-! ## Part 2: the concrete hashers -/

open Model.Hash in
/-- the three sponge hashers of the package: any split of the input gives `refHash` on the Keccak parameters -/
theorem sha3_write_chunks (a : Hash.Algo) (P : Sponge.Params KeccakF.State) (h : Hash.spongeOf a = some P)
    (s : Sponge.State KeccakF.State) (chunks : List Bytes) :
    Sponge.sum P (chunks.foldl (Sponge.write P) (Sponge.reset P s)) = Sponge.refHash P chunks.flatten := by
  have hr : 0 < P.rate := by
    cases a <;> simp [Hash.spongeOf, Hash.keccakParams] at h <;> subst h <;> decide
  exact write_chunks P hr s chunks

/-- the reference digest of these theorems is FIPS 202's sponge - pad the whole message with the domain suffix and
    `pad10*1`, absorb every block of the padded message, squeeze - for every rate > 0, domain byte, message and
    output length up to the rate -/
theorem refHash_is_fips202 (rate : Nat) (hr : 0 < rate) (ds : UInt8) (outLen : Nat) (ho : outLen ≤ rate) (m : Bytes) :
    Sponge.refHash (Hash.keccakParams rate ds outLen) m = KeccakF.spongeRef rate ds outLen m :=
  Proofs.SpongeFips.refHash_eq_spongeRef rate hr ds outLen ho m

open Model.Hash in
/-- **SHA3-256, SHA3-384 and Keccak-256 of the package are the standard's functions for every input and every way
    of cutting it into `Write` calls**: `Reset`, any sequence of `Write`s, `SumHash` returns `Hash.digest` (FIPS 202
    pad-then-absorb over `keccakF1600`) of the concatenation -/
theorem sha3_hashers_equal_standard (a : Hash.Algo) (P : Sponge.Params KeccakF.State) (h : Hash.spongeOf a = some P)
    (s : Sponge.State KeccakF.State) (chunks : List Bytes) :
    Sponge.sum P (chunks.foldl (Sponge.write P) (Sponge.reset P s)) = Hash.digest a chunks.flatten := by
  rw [sha3_write_chunks a P h s chunks]
  cases a <;> simp [Hash.spongeOf] at h <;> subst h
  · exact refHash_is_fips202 136 (by decide) 0x06 32 (by decide) _
  · exact refHash_is_fips202 104 (by decide) 0x06 48 (by decide) _
  · exact refHash_is_fips202 136 (by decide) 0x01 32 (by decide) _

/-- parameters of the code as it is now: rates, domain bytes, output lengths -/
theorem tie_params :
    Extracted.Consts.hash_rateSHA3_256 = 136 ∧ Extracted.Consts.hash_rateSHA3_384 = 104 ∧
    Extracted.Consts.hash_rateKeccak_256 = 136 ∧ Extracted.Consts.hash_dsByteSHA3 = 6 ∧
    Extracted.Consts.hash_dsByteKeccak = 1 ∧ Extracted.Consts.hash_HashLenSHA3_256 = 32 ∧
    Extracted.Consts.hash_HashLenSHA3_384 = 48 ∧ Extracted.Consts.hash_HashLenKeccak_256 = 32 ∧
    Extracted.Consts.hash_cSHAKE128BlockSize = 168 ∧ Extracted.Consts.hash_KmacMinKeyLen = 16 ∧
    Extracted.Consts.hash_HashLenSHA2_256 = 32 ∧ Extracted.Consts.hash_HashLenSHA2_384 = 48 := by decide

/-- the pad length `bytepad` computes (expression regenerated from hash/kmac.go) is the one of SP 800-185:
    the fewest zero bytes reaching a multiple of `w` -/
theorem padlen_spec (len w : Nat) (hw : 0 < w) : KmacEnc.Code.padlen len w = (w - len % w) % w := by
  unfold KmacEnc.Code.padlen Extracted.Guards.hash_bytepad_padlen
  have h1 : Int.tmod (len : Int) (w : Int) = ((len % w : Nat) : Int) := by
    rw [Int.tmod_eq_emod_of_nonneg (by omega)]; simp
  have hlt : len % w < w := Nat.mod_lt _ hw
  rw [h1]
  have h2 : ((w : Int) - ((len % w : Nat) : Int)) = ((w - len % w : Nat) : Int) := by omega
  rw [h2, Int.tmod_eq_emod_of_nonneg (by omega)]
  norm_cast

/-- `bytepad` output is block aligned and minimal -/
theorem bytepad_aligned_minimal (x : Bytes) (w : Nat) (hw : 0 < w) :
    (KmacEnc.Code.bytepad x w).length % w = 0 ∧
    (KmacEnc.Code.bytepad x w).length < (KmacEnc.Code.leftEncode w ++ x).length + w ∧
    (KmacEnc.Code.bytepad x w).take (KmacEnc.Code.leftEncode w ++ x).length = KmacEnc.Code.leftEncode w ++ x := by
  unfold KmacEnc.Code.bytepad KmacEnc.Code.bytepadWith
  simp only [List.length_append, zeros, List.length_replicate, padlen_spec _ w hw]
  have hlt := Nat.mod_lt ((KmacEnc.Code.leftEncode w).length + x.length) hw
  have hdm := Nat.div_add_mod ((KmacEnc.Code.leftEncode w).length + x.length) w
  refine ⟨?_, ?_, ?_⟩
  · by_cases h0 : ((KmacEnc.Code.leftEncode w).length + x.length) % w = 0
    · rw [h0]; simp [h0]
    · have : (w - ((KmacEnc.Code.leftEncode w).length + x.length) % w) % w
          = w - ((KmacEnc.Code.leftEncode w).length + x.length) % w := Nat.mod_eq_of_lt (by omega)
      rw [this]
      have e : (KmacEnc.Code.leftEncode w).length + x.length + (w - ((KmacEnc.Code.leftEncode w).length + x.length) % w)
          = w * (((KmacEnc.Code.leftEncode w).length + x.length) / w + 1) := by
        rw [Nat.mul_add, Nat.mul_one]; omega
      rw [e]; exact Nat.mul_mod_right _ _
  · have := Nat.mod_lt (w - ((KmacEnc.Code.leftEncode w).length + x.length) % w) hw
    omega
  · rw [← List.length_append, List.take_left]

/-- **`left_encode` and `right_encode` of the code equal SP 800-185 for every 64-bit value** -/
theorem encoders_spec (v : Nat) (hv : v < 2 ^ 64) :
    KmacEnc.Code.leftEncode v = KmacEnc.Spec.leftEncode v ∧ KmacEnc.Code.rightEncode v = KmacEnc.Spec.rightEncode v :=
  ⟨KmacEnc.leftEncode_spec v hv, KmacEnc.rightEncode_spec v hv⟩

/-- `encode_string` for every string whose bit length fits 64 bits -/
theorem encodeString_spec (s : Bytes) (hs : s.length * 8 < 2 ^ 64) :
    KmacEnc.Code.encodeString s = KmacEnc.Spec.encodeString s := by
  unfold KmacEnc.Code.encodeString KmacEnc.Spec.encodeString
  rw [Nat.mod_eq_of_lt hs, KmacEnc.leftEncode_spec _ hs]

/-- **`bytepad` of the code (with the pad length it computes now) is SP 800-185's** -/
theorem bytepad_spec (x : Bytes) (w : Nat) (hw : 0 < w) (hw64 : w < 2 ^ 64) :
    KmacEnc.Code.bytepad x w = KmacEnc.Spec.bytepad x w := by
  unfold KmacEnc.Code.bytepad KmacEnc.Code.bytepadWith KmacEnc.Spec.bytepad
  simp only [padlen_spec _ w hw, KmacEnc.leftEncode_spec w hw64]

/-- **KMAC128 of the code equals NIST SP 800-185 KMAC128** for every key, customizer, data and output size
    (x/crypto's cSHAKE128 being the standard function: correspondence) -/
theorem kmac_eq_spec (key cust : Bytes) (outputSize : Int) (k : Hash.Kmac.Obj)
    (hk : Hash.Kmac.new? key cust outputSize = some k) (hkey : key.length * 8 < 2 ^ 64)
    (hout : outputSize.toNat * 8 < 2 ^ 64) (data : Bytes) :
    k.computeHash data = Hash.Kmac.spec key cust data outputSize.toNat := by
  unfold Hash.Kmac.new? at hk
  split at hk; · cases hk
  split at hk; · cases hk
  cases hk
  unfold Hash.Kmac.Obj.computeHash Hash.Kmac.spec
  simp only
  rw [Nat.mod_eq_of_lt hout, KmacEnc.rightEncode_spec _ hout, encodeString_spec key hkey,
    bytepad_spec _ _ (by decide) (by decide)]

/-- constructor guards of `NewKMAC_128` -/
theorem kmac_guard (key cust : Bytes) (outputSize : Int) :
    (Hash.Kmac.new? key cust outputSize).isSome ↔ 0 ≤ outputSize ∧ 16 ≤ key.length := by
  unfold Hash.Kmac.new? Hash.Kmac.minKeyLen
  split
  · simp; omega
  · split
    · simp; omega
    · simp; omega

theorem tie_kmac_guards (outputSize len_key : Int) :
    Extracted.Guards.hash_NewKMAC_128_g0 outputSize = decide (outputSize < 0) ∧
    Extracted.Guards.hash_NewKMAC_128_g1 len_key = decide (len_key < 16) := ⟨rfl, rfl⟩

/-- `SumHash` and `ComputeHash` of KMAC leave the object unchanged, so writing afterwards continues the stream -/
theorem kmac_sum_then_write (k : Hash.Kmac.Obj) (p q : Bytes) :
    ((k.write p).write q).sumHash = (k.write (p ++ q)).sumHash := by
  simp [Hash.Kmac.Obj.write, Hash.Kmac.Obj.sumHash, List.append_assoc]

/-- `ComputeHash(x)` = `Reset; Write(x); SumHash` on a clone -/
theorem kmac_computeHash_eq (k : Hash.Kmac.Obj) (x : Bytes) :
    k.computeHash x = (k.reset.write x).sumHash := by
  simp [Hash.Kmac.Obj.computeHash, Hash.Kmac.Obj.write, Hash.Kmac.Obj.reset, Hash.Kmac.Obj.sumHash]

/-! known-answer vectors checked by the kernel on the concrete functions -/

theorem kat_sha3_256_empty : Hash.digest .sha3_256 [] =
    [0xa7,0xff,0xc6,0xf8,0xbf,0x1e,0xd7,0x66,0x51,0xc1,0x47,0x56,0xa0,0x61,0xd6,0x62,
     0xf5,0x80,0xff,0x4d,0xe4,0x3b,0x49,0xfa,0x82,0xd8,0x0a,0x4b,0x80,0xf8,0x43,0x4a] := by decide +kernel

theorem kat_refHash_sha3_256_empty : Sponge.refHash (Hash.keccakParams 136 0x06 32) [] =
    [0xa7,0xff,0xc6,0xf8,0xbf,0x1e,0xd7,0x66,0x51,0xc1,0x47,0x56,0xa0,0x61,0xd6,0x62,
     0xf5,0x80,0xff,0x4d,0xe4,0x3b,0x49,0xfa,0x82,0xd8,0x0a,0x4b,0x80,0xf8,0x43,0x4a] := by decide +kernel

theorem kat_sha2_256_abc : Hash.digest .sha2_256 [0x61, 0x62, 0x63] =
    [0xba,0x78,0x16,0xbf,0x8f,0x01,0xcf,0xea,0x41,0x41,0x40,0xde,0x5d,0xae,0x22,0x23,
     0xb0,0x03,0x61,0xa3,0x96,0x17,0x7a,0x9c,0xb4,0x10,0xff,0x61,0xf2,0x00,0x15,0xad] := by decide +kernel

theorem kat_encoders : KmacEnc.Code.leftEncode 0 = [1, 0] ∧ KmacEnc.Code.leftEncode 168 = [1, 168] ∧
    KmacEnc.Code.leftEncode 256 = [2, 1, 0] ∧ KmacEnc.Code.rightEncode 0 = [0, 1] ∧
    KmacEnc.Code.rightEncode 1024 = [4, 0, 2] ∧ KmacEnc.Spec.leftEncode 256 = [2, 1, 0] ∧
    KmacEnc.Spec.rightEncode 1024 = [4, 0, 2] ∧
    KmacEnc.Code.leftEncode (2 ^ 64 - 1) = KmacEnc.Spec.leftEncode (2 ^ 64 - 1) := by decide +kernel

end Props.C13

#print axioms Props.C13.write_chunks
#print axioms Props.C13.computeHash_fresh
#print axioms Props.C13.never_reset_ok
#print axioms Props.C13.oneShot_eq
#print axioms Props.C13.sha3_write_chunks
#print axioms Props.C13.refHash_is_fips202
#print axioms Props.C13.sha3_hashers_equal_standard
#print axioms Props.C13.tie_params
#print axioms Props.C13.padlen_spec
#print axioms Props.C13.bytepad_aligned_minimal
#print axioms Props.C13.encoders_spec
#print axioms Props.C13.encodeString_spec
#print axioms Props.C13.bytepad_spec
#print axioms Props.C13.kmac_eq_spec
#print axioms Props.C13.kmac_guard
#print axioms Props.C13.tie_kmac_guards
#print axioms Props.C13.kmac_sum_then_write
#print axioms Props.C13.kmac_computeHash_eq
#print axioms Props.C13.kat_sha3_256_empty
#print axioms Props.C13.kat_refHash_sha3_256_empty
#print axioms Props.C13.kat_sha2_256_abc
#print axioms Props.C13.kat_encoders
