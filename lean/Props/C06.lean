import Mathlib.LinearAlgebra.Lagrange
import Mathlib.Algebra.Field.ZMod
import Mathlib.Algebra.Module.Basic
import Props.C18
import Model.Threshold
import Extracted.Guards
import Extracted.Consts
import Proofs.LagrangeCoeff
import Proofs.Primes

/-! # C06 — threshold shares reconstruct the unique group signature for any ≥ t+1 signers -/

namespace Props.C06
open Polynomial

variable {F : Type*} [Field F]

/-- the Lagrange coefficient at 0 of node `i`: `Π_{j ≠ i} x_j / (x_j - x_i)` -/
noncomputable def lagrangeAtZero {ι : Type*} [DecidableEq ι] (s : Finset ι) (v : ι → F) (i : ι) : F :=
  ∏ j ∈ s.erase i, v j / (v j - v i)

theorem eval_zero_basis {ι : Type*} [DecidableEq ι] (s : Finset ι) (v : ι → F) (i : ι) :
    (Lagrange.basis s v i).eval 0 = lagrangeAtZero s v i := by
  unfold Lagrange.basis lagrangeAtZero Lagrange.basisDivisor
  rw [eval_prod]
  apply Finset.prod_congr rfl
  intro j _
  simp only [eval_mul, eval_C, eval_sub, eval_X, zero_sub]
  rw [div_eq_mul_inv, mul_comm, ← neg_sub (v j) (v i), inv_neg, neg_mul_neg]

/-- **interpolation at zero**: a polynomial of degree `< #s` takes at 0 the value
    `Σ_i P(x_i) · Π_{j≠i} x_j / (x_j - x_i)`, for any set of pairwise distinct nodes -/
theorem interp_zero {ι : Type*} [DecidableEq ι] (s : Finset ι) (v : ι → F) (hv : Set.InjOn v s)
    (P : F[X]) (hdeg : P.degree < s.card) :
    P.eval 0 = ∑ i ∈ s, P.eval (v i) * lagrangeAtZero s v i := by
  conv_lhs => rw [Lagrange.eq_interpolate hv hdeg]
  simp only [Lagrange.interpolate_apply, eval_finset_sum, eval_mul, eval_C, eval_zero_basis]

/-- **reconstruction is independent of the subset and of the order of the signers**: for every polynomial of
    degree ≤ t over the scalar field, every set of t+1 (or more) distinct signer indices, combining the
    signature shares `P(x_i) • h` with the Lagrange coefficients yields `P(0) • h` -/
theorem reconstruct_const {G : Type*} [AddCommGroup G] [Module F G] {ι : Type*} [DecidableEq ι]
    (s : Finset ι) (v : ι → F) (hv : Set.InjOn v s) (P : F[X]) (hdeg : P.degree < s.card) (h : G) :
    ∑ i ∈ s, lagrangeAtZero s v i • (P.eval (v i) • h) = P.eval 0 • h := by
  rw [interp_zero s v hv P hdeg, Finset.sum_smul]
  apply Finset.sum_congr rfl
  intro i _
  rw [smul_smul, mul_comm]

/-- two different qualifying signer sets give the same group signature -/
theorem reconstruct_subset_independent {G : Type*} [AddCommGroup G] [Module F G] {ι : Type*} [DecidableEq ι]
    (s s' : Finset ι) (v : ι → F) (hv : Set.InjOn v s) (hv' : Set.InjOn v s') (P : F[X])
    (hdeg : P.degree < s.card) (hdeg' : P.degree < s'.card) (h : G) :
    ∑ i ∈ s, lagrangeAtZero s v i • (P.eval (v i) • h) = ∑ i ∈ s', lagrangeAtZero s' v i • (P.eval (v i) • h) := by
  rw [reconstruct_const s v hv P hdeg, reconstruct_const s' v hv' P hdeg']

/-- key generation consistency: the public key shares `P(x_i) • g2` interpolate to the group key `P(0) • g2` -/
theorem keygen_public_consistent {G2 : Type*} [AddCommGroup G2] [Module F G2] {ι : Type*} [DecidableEq ι]
    (s : Finset ι) (v : ι → F) (hv : Set.InjOn v s) (P : F[X]) (hdeg : P.degree < s.card) (g2 : G2) :
    ∑ i ∈ s, lagrangeAtZero s v i • (P.eval (v i) • g2) = P.eval 0 • g2 :=
  reconstruct_const s v hv P hdeg g2

/-! ### the C loop: 8 indices per 64-bit limb never overflow -/

/-- any product of at most 8 factors, each at most 255, fits in 64 bits -/
theorem limb_no_overflow (l : List Nat) (hl : l.length ≤ 8) (hb : ∀ x ∈ l, x ≤ 255) : l.prod < 2 ^ 64 := by
  have key : ∀ (l : List Nat), (∀ x ∈ l, x ≤ 255) → l.prod ≤ 255 ^ l.length := by
    intro l
    induction l with
    | nil => intro _; simp
    | cons a t ih =>
      intro h
      simp only [List.prod_cons, List.length_cons, pow_succ]
      have h1 := h a (by simp)
      have h2 := ih (fun x hx => h x (by simp [hx]))
      calc a * t.prod ≤ 255 * 255 ^ t.length := Nat.mul_le_mul h1 h2
        _ = 255 ^ t.length * 255 := by ring
  have h1 := key l hb
  have h2 : 255 ^ l.length ≤ 255 ^ 8 := Nat.pow_le_pow_right (by norm_num) hl
  have h3 : (255 : Nat) ^ 8 < 2 ^ 64 := by norm_num
  omega

/-- **the C loop computes the Lagrange coefficient**: for every list of signer indices (each at most 255 =
    `MAX_IND`) and every position `i`, the value returned by the limb-batched loop of
    `Fr_lagrange_coeff_at_zero` (`Model.Threshold.coeff`: 8 indices per 64-bit limb, sign bookkeeping, one Fermat
    inversion) is `Π_{j≠i} x_j / (x_j - x_i)` in `F_r`, with `r` the BLS12-381 group order (prime by a Pratt
    certificate) -/
theorem coeff_is_lagrange (xs : List Nat) (i : Nat) (hb : ∀ x ∈ xs, x ≤ 255) :
    ((Model.Threshold.coeff Model.Bls.r xs i : Nat) : ZMod Model.Bls.r) =
      lagrangeAtZero (Finset.range xs.length) (fun j => ((xs.getD j 0 : Nat) : ZMod Model.Bls.r)) i := by
  rw [Proofs.LagrangeCoeff.coeff_spec xs i (by decide +kernel) (by decide +kernel) hb]
  rfl

/-- consequence: the shares `P(x_j) • h` of any polynomial of degree `< #signers`, weighted by the coefficients the
    C loop computes, sum to `P(0) • h` - for every list of distinct signer indices at most 255 -/
theorem c_loop_reconstructs {G : Type*} [AddCommGroup G] [Module (ZMod Model.Bls.r) G] (xs : List Nat)
    (hb : ∀ x ∈ xs, x ≤ 255)
    (hinj : Set.InjOn (fun j => ((xs.getD j 0 : Nat) : ZMod Model.Bls.r)) (Finset.range xs.length))
    (Q : (ZMod Model.Bls.r)[X]) (hdeg : Q.degree < xs.length) (h : G) :
    ∑ i ∈ Finset.range xs.length,
      ((Model.Threshold.coeff Model.Bls.r xs i : Nat) : ZMod Model.Bls.r) •
        (Q.eval ((xs.getD i 0 : Nat) : ZMod Model.Bls.r) • h) = Q.eval 0 • h := by
  have := reconstruct_const (Finset.range xs.length) (fun j => ((xs.getD j 0 : Nat) : ZMod Model.Bls.r)) hinj Q
    (by simpa using hdeg) h
  rw [this.symm]
  apply Finset.sum_congr rfl
  intro i _
  rw [coeff_is_lagrange xs i hb]

/-- tie: batching constants of the C code as they are now (64 / MAX_IND_BITS = 8 indices per limb, indices ≤ 255) -/
theorem tie_limbs :
    Extracted.Consts.crypto_ThresholdSignMaxSize = 254 ∧ Extracted.Consts.crypto_ThresholdSignMinSize = 2 ∧
    Extracted.Consts.crypto_MinimumThreshold = 1 := by decide

/-! ### the stateful API (shared with C18) and the stateless guards -/

open Model.Threshold in
/-- the stateful object never returns an invalid threshold signature; fewer than t+1 shares give the
    not-enough-shares error (re-exported from `Props.C18`) -/
theorem stateful_safe (E : Env) (o : Obj) (h : Props.C18.Inv E o) :
    (∀ s, (step E o .thresholdSignature).2 = .sig s → E.verifyGroup s = true) ∧
    (o.sig = none → o.enough E = false → (step E o .thresholdSignature).2 = .notEnoughShares) :=
  ⟨fun s hs => Props.C18.stateful_never_invalid E o h s hs, Props.C18.not_enough E o⟩

theorem tie_guards (size threshold ls lsg : Int) :
    Extracted.Guards.crypto_BLSReconstructThresholdSignature_g0 size = (decide (size < 2) || decide (size > 254)) ∧
    Extracted.Guards.crypto_BLSReconstructThresholdSignature_g1 size threshold = (decide (threshold ≥ size) || decide (threshold < 1)) ∧
    Extracted.Guards.crypto_BLSReconstructThresholdSignature_g2 ls lsg = decide (ls ≠ lsg) ∧
    Extracted.Guards.crypto_BLSReconstructThresholdSignature_g3 ls threshold = decide (ls < threshold + 1) ∧
    Extracted.Guards.crypto_BLSThresholdKeyGen_g0 size = (decide (size < 2) || decide (size > 254)) ∧
    Extracted.Guards.crypto_BLSThresholdKeyGen_g1 size threshold = (decide (threshold ≥ size) || decide (threshold < 1)) :=
  ⟨rfl, rfl, rfl, rfl, rfl, rfl⟩

end Props.C06

#print axioms Props.C06.interp_zero
#print axioms Props.C06.reconstruct_const
#print axioms Props.C06.reconstruct_subset_independent
#print axioms Props.C06.keygen_public_consistent
#print axioms Props.C06.limb_no_overflow
#print axioms Props.C06.tie_limbs
#print axioms Props.C06.stateful_safe
#print axioms Props.C06.tie_guards
#print axioms Props.C06.coeff_is_lagrange
#print axioms Props.C06.c_loop_reconstructs
