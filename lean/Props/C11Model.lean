import Proofs.EcdsaModel
import Proofs.EcdsaExact
import Proofs.EcdsaTwin

/-! # C11 (executable model) — every signature the model's signing function returns is accepted by the model's
verification, for both curves, every private key, nonce, and hash: by the group law of the curve (Mathlib), not by
sampling -/

namespace Props.C11Model
open Model Model.Curve Proofs.CurveGroup Proofs.CurveInst Proofs.EcdsaModel

instance fact_p256_n : Fact (Nat.Prime Ecdsa.p256.n) := ⟨by
  have : Ecdsa.p256.n = 115792089210356248762697446949407573529996955224135760342422259061068512044369 := by decide +kernel
  rw [this]; exact Proofs.Primes.prime_p256_n⟩

instance fact_k256_n : Fact (Nat.Prime Ecdsa.k256.n) := ⟨by
  have : Ecdsa.k256.n = 115792089237316195423570985008687907852837564279074904382605163141518161494337 := by decide +kernel
  rw [this]; exact Proofs.Primes.prime_k256_n⟩

instance : Fact (Nat.Prime Ecdsa.p256.p) := fact_p256
instance : Fact (Nat.Prime Ecdsa.k256.p) := fact_k256

theorem good_p256 : Good Ecdsa.p256 p256a p256b :=
  ⟨p256_C, p256_Δ, p256_two, p256_bits, p256_g_valid, by decide +kernel, by decide +kernel, by decide +kernel⟩

theorem good_k256 : Good Ecdsa.k256 0 7 :=
  ⟨k256_C, k256_Δ, k256_two, k256_bits, k256_g_valid, by decide +kernel, by decide +kernel, by decide +kernel⟩

/-- **P-256: sign ⇒ verify in the executable model** -/
theorem p256_sign_verify (d k : ℕ) (hd : d < Ecdsa.p256.n) (hk : k < Ecdsa.p256.n) (h sig : Bytes) (Q : ℕ × ℕ)
    (hQ : Ecdsa.publicKeyOf Ecdsa.p256 d = some Q) (hs : Ecdsa.signWith Ecdsa.p256 d k h = some sig) :
    Ecdsa.verifyHash Ecdsa.p256 Q h sig = true := sign_verify good_p256 d k hd hk h sig Q hQ hs

/-- **secp256k1: sign ⇒ verify in the executable model** -/
theorem k256_sign_verify (d k : ℕ) (hd : d < Ecdsa.k256.n) (hk : k < Ecdsa.k256.n) (h sig : Bytes) (Q : ℕ × ℕ)
    (hQ : Ecdsa.publicKeyOf Ecdsa.k256 d = some Q) (hs : Ecdsa.signWith Ecdsa.k256 d k h = some sig) :
    Ecdsa.verifyHash Ecdsa.k256 Q h sig = true := sign_verify good_k256 d k hd hk h sig Q hQ hs

/-- **P-256: verification is exact** - under the public key of `d`, the model accepts exactly the outputs of the
    signing function over all nonces `0 < k < n` (so every accepted `(r, s)` is a genuine signature of the key holder) -/
theorem p256_verify_iff_signed (d : ℕ) (hd : d < Ecdsa.p256.n) (h sig : Bytes) (Q : ℕ × ℕ)
    (hQ : Ecdsa.publicKeyOf Ecdsa.p256 d = some Q) :
    Ecdsa.verifyHash Ecdsa.p256 Q h sig = true ↔
      ∃ k, 0 < k ∧ k < Ecdsa.p256.n ∧ Ecdsa.signWith Ecdsa.p256 d k h = some sig :=
  Proofs.EcdsaExact.verify_iff_signed good_p256 d hd h sig Q hQ

/-- **secp256k1: verification is exact** -/
theorem k256_verify_iff_signed (d : ℕ) (hd : d < Ecdsa.k256.n) (h sig : Bytes) (Q : ℕ × ℕ)
    (hQ : Ecdsa.publicKeyOf Ecdsa.k256 d = some Q) :
    Ecdsa.verifyHash Ecdsa.k256 Q h sig = true ↔
      ∃ k, 0 < k ∧ k < Ecdsa.k256.n ∧ Ecdsa.signWith Ecdsa.k256 d k h = some sig :=
  Proofs.EcdsaExact.verify_iff_signed good_k256 d hd h sig Q hQ

/-- **P-256: the twin `(r, n - s)` of an accepted signature is accepted** (ECDSA malleability, byte level) -/
theorem p256_twin_accepted (d : ℕ) (hd : d < Ecdsa.p256.n) (h sig : Bytes) (Q : ℕ × ℕ)
    (hQ : Ecdsa.publicKeyOf Ecdsa.p256 d = some Q) (hv : Ecdsa.verifyHash Ecdsa.p256 Q h sig = true) :
    Ecdsa.verifyHash Ecdsa.p256 Q h
      (natBE 32 (beNat (sig.take 32)) ++ natBE 32 (Ecdsa.p256.n - beNat (sig.drop 32))) = true :=
  Proofs.EcdsaTwin.verify_twin good_p256 d hd h sig Q hQ hv

/-- **secp256k1: the twin of an accepted signature is accepted** -/
theorem k256_twin_accepted (d : ℕ) (hd : d < Ecdsa.k256.n) (h sig : Bytes) (Q : ℕ × ℕ)
    (hQ : Ecdsa.publicKeyOf Ecdsa.k256 d = some Q) (hv : Ecdsa.verifyHash Ecdsa.k256 Q h sig = true) :
    Ecdsa.verifyHash Ecdsa.k256 Q h
      (natBE 32 (beNat (sig.take 32)) ++ natBE 32 (Ecdsa.k256.n - beNat (sig.drop 32))) = true :=
  Proofs.EcdsaTwin.verify_twin good_k256 d hd h sig Q hQ hv

/-- non-vacuity: a signature of the model under private key 5 with nonce 7 on secp256k1 exists and is accepted -/
example : ∃ sig Q, Ecdsa.publicKeyOf Ecdsa.k256 5 = some Q ∧ Ecdsa.signWith Ecdsa.k256 5 7 (List.replicate 32 9) = some sig ∧
    Ecdsa.verifyHash Ecdsa.k256 Q (List.replicate 32 9) sig = true := by
  cases hq : Ecdsa.publicKeyOf Ecdsa.k256 5 with
  | none => exact absurd hq (by decide +kernel)
  | some Q =>
    cases hs : Ecdsa.signWith Ecdsa.k256 5 7 (List.replicate 32 9) with
    | none => exact absurd hs (by decide +kernel)
    | some sig => exact ⟨sig, Q, rfl, rfl, k256_sign_verify 5 7 (by decide +kernel) (by decide +kernel) _ sig Q hq hs⟩

end Props.C11Model

#print axioms Props.C11Model.p256_sign_verify
#print axioms Props.C11Model.k256_sign_verify
#print axioms Props.C11Model.p256_verify_iff_signed
#print axioms Props.C11Model.k256_verify_iff_signed
#print axioms Props.C11Model.p256_twin_accepted
#print axioms Props.C11Model.k256_twin_accepted
