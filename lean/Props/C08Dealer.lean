import Proofs.DkgDealerOnce

/-! # C08 (continued) — the dealer's side of a repeated complaint

`Proofs.DkgAgree.dealer_answers`: the dealer answers a first complaint at once.  Here: a complaint that is already
registered is never answered again, by any instance (a second answer would make every honest receiver flag the honest
dealer: "complaint answer was already received"), and an answer is only ever broadcast together with registering the
complaint - so the next copy of the same complaint meets the first theorem.  Property theorems only. -/

namespace Props.C08
open Model Model.Dkg Proofs.DkgCommute Proofs.DkgAgree

variable {O : Ops}

/-- **a registered complaint is not answered again**: whatever the data, the handler broadcasts nothing when the
    complaint of `origin` is already marked as received - it flags the sender or stays silent -/
theorem repeated_complaint_not_answered (s : St O) (origin : Nat) (data : Bytes) (c : Complaint)
    (hf : s.find origin = some c) (hr : c.received = true) :
    ∀ m, Out.bcast m ∉ (FvssQ.receiveComplaint s origin data).2 := by
  intro m
  unfold FvssQ.receiveComplaint
  simp only [hf, hr]
  repeat' split
  all_goals simp

/-- **an answer is broadcast only while registering the complaint**: if the handler broadcasts anything, the
    complaint of `origin` was not registered before and is registered (as received) afterwards -/
theorem answer_registers_complaint (s : St O) (origin : Nat) (data : Bytes) (m : Bytes)
    (h : Out.bcast m ∈ (FvssQ.receiveComplaint s origin data).2) :
    s.find origin = none ∧
      ∃ c, (FvssQ.receiveComplaint s origin data).1.find origin = some c ∧ c.received = true := by
  unfold FvssQ.receiveComplaint at h ⊢
  repeat' (first | split at h | (simp only [] at h; split at h))
  all_goals first
    | (exfalso; simp at h; done)
    | skip
  rename_i h5 h4 h3 _ heq h2 h1 h0
  refine ⟨heq, ?_⟩
  rw [if_neg h5, if_neg h4]
  simp only []
  rw [if_neg h2, if_neg h3, if_neg h1]
  rw [if_pos h0]
  unfold FvssQ.buildAnswer
  simp only [find_setC_same]
  exact ⟨_, rfl, rfl⟩

/-- **a registered complaint stays registered**: no complaint delivery, whatever its origin and data, removes the
    mark of `k` -/
theorem registered_stays (s : St O) (k origin : Nat) (data : Bytes) (h : Reg s k) :
    Reg (FvssQ.receiveComplaint s origin data).1 k := by
  unfold FvssQ.receiveComplaint
  repeat' (first | split | (simp only []; split))
  all_goals first
    | exact h
    | (obtain ⟨c, h1, h2⟩ := h; exact ⟨c, h1, h2⟩)
    | skip
  all_goals first
    | exact reg_setC _ _ _ _ h (fun _ => rfl)
    | exact reg_congr _ _ _ rfl (reg_setC _ _ _ _ h (fun _ => rfl))
    | (unfold FvssQ.buildAnswer; simp only [find_setC_same]
       exact reg_setC _ _ _ _ (reg_setC _ _ _ _ h (fun _ => rfl)) (fun _ => rfl))

/-- **every complainer is answered at most once**, over every history of complaint deliveries (any origins, any
    data, repeated in any pattern), from every state; and not at all once its complaint is registered.
    Partial with respect to the full event alphabet: the history consists of complaint deliveries only (the handlers of
    the other message kinds and the timeouts never remove an entry of the complaint table, which is not proven here). -/
theorem dealer_answers_once_partial (k : Nat) (s : St O) (evs : List (Nat × Bytes)) :
    answersTo k s evs ≤ 1 ∧ (Reg s k → answersTo k s evs = 0) := by
  induction evs generalizing s with
  | nil => simp [answersTo]
  | cons e r ih =>
    obtain ⟨o, d⟩ := e
    obtain ⟨r1, r2⟩ := ih (FvssQ.receiveComplaint s o d).1
    simp only [answersTo]
    refine ⟨?_, ?_⟩
    · split
      · next hc =>
        obtain ⟨hok, hb⟩ := hc
        obtain ⟨m, hm⟩ := (any_isBcast _).mp hb
        obtain ⟨_, c, h1, h2⟩ := answer_registers_complaint s o d m hm
        have := r2 ⟨c, hok ▸ h1, h2⟩
        omega
      · omega
    · intro hreg
      have h0 := r2 (registered_stays s k o d hreg)
      split
      · next hc =>
        obtain ⟨hok, hb⟩ := hc
        obtain ⟨m, hm⟩ := (any_isBcast _).mp hb
        obtain ⟨c, h1, h2⟩ := hreg
        exact absurd hm (repeated_complaint_not_answered s o d c (hok ▸ h1) h2 m)
      · omega

/-! ### the full event alphabet: every delivery (broadcast or private, any sender, any bytes) and the timeouts -/

/-- at the dealer's own instance a registered complaint stays registered across every delivery -/
theorem reg_step_dealer (s : St O) (hmd : s.me = s.dealer) (k : Nat) (e : Dl) (h : Reg s k) : Reg (step s e) k := by
  cases e with
  | priv o m => show Reg (FvssQ.privBody s o m).1 k; rw [dealer_priv_noop s hmd]; exact h
  | bcast o m =>
    show Reg (FvssQ.bcastBody s o m).1 k
    rcases dealer_bcast_cases s hmd o m with h1 | ⟨h1, _⟩
    · rw [h1]; exact registered_stays s k o _ h
    · exact reg_congr _ _ _ h1 h

/-- deliveries from `k` (any kind) that make the instance broadcast something, along a history of deliveries and timeouts -/
def answersToEv (k : Nat) : St O → List Ev → Nat
  | _, [] => 0
  | s, ev :: r =>
    (match ev with
     | .dl e => if e.sender = k ∧ (stepOut s e).any isBcast then 1 else 0
     | .timeout => 0) + answersToEv k (evStep s ev) r

/-- **the dealer answers every complainer at most once**: along every history of deliveries and timeouts, from every
    state of the dealer's own instance, at most one delivery sent by `k` makes the instance broadcast anything (that
    broadcast is the answer of `dealer_answers`), and none once the complaint of `k` is registered.  With
    `dealer_bcast_cases` / `dealer_priv_noop` (Proofs/DkgDealerOnce): at this instance only a complaint delivery
    broadcasts at all, so "no second answer" holds for whatever the other participants send, in whatever order. -/
theorem dealer_answers_once (k : Nat) (s : St O) (hmd : s.me = s.dealer) (evs : List Ev) :
    answersToEv k s evs ≤ 1 ∧ (Reg s k → answersToEv k s evs = 0) := by
  induction evs generalizing s with
  | nil => simp [answersToEv]
  | cons ev r ih =>
    obtain ⟨r1, r2⟩ := ih (evStep s ev) (evStep_dealer s hmd ev)
    simp only [answersToEv]
    cases ev with
    | timeout =>
      simp only [Nat.zero_add]
      exact ⟨r1, fun hreg => r2 (reg_tstep s k hreg)⟩
    | dl e =>
      simp only []
      have hstay : Reg s k → Reg (step s e) k := reg_step_dealer s hmd k e
      -- a broadcast at this delivery: it is a complaint delivery from k, unregistered before, registered after
      have key : e.sender = k ∧ (stepOut s e).any isBcast = true → ¬ Reg s k ∧ Reg (step s e) k := by
        rintro ⟨hs, hb⟩
        obtain ⟨x, hx⟩ := (any_isBcast _).mp hb
        cases e with
        | priv o m =>
          have : stepOut s (.priv o m) = [] := by
            show (FvssQ.privBody s o m).2 = []; rw [dealer_priv_noop s hmd]
          rw [this] at hx; cases hx
        | bcast o m =>
          have hso : o = k := hs
          rcases dealer_bcast_cases s hmd o m with h1 | ⟨_, h2⟩
          · have hx' : Out.bcast x ∈ (FvssQ.receiveComplaint s o (m.drop 1)).2 := by rw [← h1]; exact hx
            obtain ⟨hn, c, hc1, hc2⟩ := answer_registers_complaint s o _ x hx'
            refine ⟨?_, ?_⟩
            · rintro ⟨c', hc', _⟩; rw [← hso, hn] at hc'; cases hc'
            · show Reg (FvssQ.bcastBody s o m).1 k
              rw [h1]; exact ⟨c, hso ▸ hc1, hc2⟩
          · exact absurd hx (h2 x)
      refine ⟨?_, ?_⟩
      · split
        · next hc => have := r2 (key hc).2; omega
        · omega
      · intro hreg
        have h0 := r2 (hstay hreg)
        split
        · next hc => exact absurd hreg (key hc).1
        · omega

/-- non-vacuity: a state with the complaint of node 1 registered exists (so the second clause is not empty), and the
    initial table registers nothing (so the first clause starts from the reachable state) -/
example (s : St O) : Reg (s.setC 1 { received := true, answerReceived := false }) 1 :=
  ⟨_, find_setC_same _ _ _, rfl⟩

end Props.C08

#print axioms Props.C08.repeated_complaint_not_answered
#print axioms Props.C08.answer_registers_complaint
#print axioms Props.C08.registered_stays
#print axioms Props.C08.dealer_answers_once_partial
#print axioms Props.C08.reg_step_dealer
#print axioms Props.C08.dealer_answers_once
