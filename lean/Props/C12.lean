import Model.KeyGen
import Proofs.Bytes
import Mathlib.Data.Nat.ModEq
import Mathlib.Tactic.NormNum
import Extracted.Guards
import Extracted.Consts
import Model.Ecdsa

/-! # C12 — key generation is a fixed, in-range, deterministic function of the seed -/

namespace Props.C12
open Model Model.Bls


theorem beNat_append (a b : Bytes) : beNat (a ++ b) = beNat a * 256 ^ b.length + beNat b := by
  rw [beNat_eq, beNat_eq, beNat_eq, List.reverse_append]
  have hrev : ∀ (u v : Bytes), leNat (u ++ v) = leNat u + 256 ^ u.length * leNat v := by
    intro u v
    induction u with
    | nil => simp [leNat]
    | cons c u ihu =>
      simp only [List.cons_append, leNat, ihu, List.length_cons, Nat.pow_succ]
      ring
  rw [hrev, List.length_reverse]; ring

theorem mapToFrLoop_spec : ∀ (fuel : Nat) (rest : Bytes) (radix out : Nat),
    rest.length < 32 * fuel →
    mapToFrLoop fuel rest radix out = (out + beNat rest * radix) % r := by
  intro fuel
  induction fuel with
  | zero => intro rest radix out h; omega
  | succ n ih =>
    intro rest radix out h
    unfold mapToFrLoop
    split
    · next hgt =>
      rw [ih _ _ _ (by rw [List.length_take]; omega)]
      have hsplit : rest = rest.take (rest.length - 32) ++ rest.drop (rest.length - 32) := (List.take_append_drop _ _).symm
      have hlen : (rest.drop (rest.length - 32)).length = 32 := by rw [List.length_drop]; omega
      conv_rhs => rw [hsplit, beNat_append, hlen]
      generalize beNat (rest.take (rest.length - 32)) = A
      generalize beNat (rest.drop (rest.length - 32)) = B
      show Nat.ModEq r _ _
      have h1 : Nat.ModEq r ((out + B % r * radix) % r) (out + B * radix) :=
        (Nat.mod_modEq _ _).trans (Nat.ModEq.add_left _ ((Nat.mod_modEq _ _).mul_right _))
      have h2 : Nat.ModEq r (radix * (2 ^ 256 % r) % r) (radix * 2 ^ 256) :=
        (Nat.mod_modEq _ _).trans ((Nat.mod_modEq _ _).mul_left _)
      have h3 := h1.add (h2.mul_left A)
      refine h3.trans ?_
      have : (256 : Nat) ^ 32 = 2 ^ 256 := by norm_num
      rw [this]
      have e : out + B * radix + A * (radix * 2 ^ 256) = out + (A * 2 ^ 256 + B) * radix := by ring
      rw [e]
    · next hle =>
      show Nat.ModEq r _ _
      exact Nat.ModEq.add_left _ ((Nat.mod_modEq _ _).mul_right _)


/-- **`map_bytes_to_Fr` is big-endian OS2IP reduced modulo the group order, for every input length**
    (the 32-byte digit loop with Montgomery radix powers of bls12381_utils.c) -/
theorem mapToFr_eq (b : Bytes) : mapToFr b = beNat b % r := by
  unfold mapToFr
  rw [mapToFrLoop_spec _ _ _ _ (by
    have := Nat.div_add_mod b.length 32
    have := Nat.mod_lt b.length (by norm_num : 32 > 0)
    omega)]
  simp

theorem blsLoop_range (secret info : Bytes) : ∀ (fuel : Nat) (salt : Bytes) (sk : Nat),
    KeyGen.blsLoop secret info fuel salt = some sk → 0 < sk ∧ sk < r := by
  intro fuel
  induction fuel with
  | zero => intro salt sk h; simp [KeyGen.blsLoop] at h
  | succ n ih =>
    intro salt sk h
    simp only [KeyGen.blsLoop] at h
    split at h
    · next hne =>
      cases h
      refine ⟨Nat.pos_of_ne_zero hne, ?_⟩
      rw [mapToFr_eq]
      exact Nat.mod_lt _ (by decide)
    · exact ih _ _ h

/-- the BLS private key is never zero and always below the group order -/
theorem bls_key_range (seed : Bytes) (sk : Nat) (h : KeyGen.bls seed = some sk) : 0 < sk ∧ sk < r := by
  unfold KeyGen.bls at h
  split at h
  · cases h
  · exact blsLoop_range _ _ _ _ _ h

/-- seeds outside 32..256 bytes are rejected; seeds inside are never rejected for their length -/
theorem seed_guard (seed : Bytes) :
    (seed.length < 32 ∨ 256 < seed.length → KeyGen.bls seed = none ∧
      KeyGen.ecdsa Ecdsa.p256 seed = none ∧ KeyGen.ecdsa Ecdsa.k256 seed = none) ∧
    (32 ≤ seed.length ∧ seed.length ≤ 256 → (KeyGen.ecdsa Ecdsa.p256 seed).isSome ∧ (KeyGen.ecdsa Ecdsa.k256 seed).isSome) := by
  unfold KeyGen.bls KeyGen.ecdsa KeyGen.seedMinLen KeyGen.seedMaxLen
  constructor
  · intro h; simp [h]
  · intro h
    have : ¬ (seed.length < 32 ∨ seed.length > 256) := by omega
    simp [this]

/-- the ECDSA private key lies in `[1, n-1]` -/
theorem ecdsa_key_range (S : Ecdsa.CurveSpec) (hn : 2 ≤ S.n) (seed : Bytes) (d : Nat)
    (h : KeyGen.ecdsa S seed = some d) : 0 < d ∧ d < S.n := by
  unfold KeyGen.ecdsa at h
  split at h
  · cases h
  · cases h
    unfold Ecdsa.mapKey
    have := Nat.mod_lt (beNat (Sha2.hkdf [] seed [] 48)) (by omega : S.n - 1 > 0)
    omega

/-- determinism: the key is a function of the seed (definitional) -/
theorem deterministic (seed seed' : Bytes) (h : seed = seed') :
    KeyGen.bls seed = KeyGen.bls seed' ∧ KeyGen.ecdsa Ecdsa.p256 seed = KeyGen.ecdsa Ecdsa.p256 seed' := by
  subst h; exact ⟨rfl, rfl⟩

/-- tie: the seed-length guards and derivation constants of the code as it is now -/
theorem tie_guards (len : Int) :
    Extracted.Guards.crypto_blsBLS12381Algo_generatePrivateKey_g0 len = (decide (len < 32) || decide (len > 256)) ∧
    Extracted.Guards.crypto_ecdsaAlgo_generatePrivateKey_g0 len = (decide (len < 32) || decide (len > 256)) ∧
    Extracted.Consts.crypto_KeyGenSeedMinLen = (KeyGen.seedMinLen : Int) ∧
    Extracted.Consts.crypto_KeyGenSeedMaxLen = (KeyGen.seedMaxLen : Int) ∧
    Extracted.Consts.crypto_frBytesLen = 32 ∧ Extracted.Consts.crypto_securityBits = 128 := by
  refine ⟨rfl, rfl, by decide, by decide, by decide, by decide⟩

example : 2 ≤ Ecdsa.p256.n ∧ 2 ≤ Ecdsa.k256.n := by decide

/-! ### the generators -/

/-- **the four generators the public keys are multiples of are points of their curves annihilated by the group order**
    (kernel evaluation of the model's own arithmetic on the real constants): `G1`, `G2` of BLS12-381 by `r`, the base
    points of P-256 and secp256k1 by `n`. Since `r` and both `n` are prime (Pratt certificates, `Proofs/Primes.lean`) and
    the generators are not the point at infinity, their order is exactly `r`, resp. `n`: `sk ↦ sk • G` is injective on
    `[1, r-1]`, resp. `[1, n-1]` -/
theorem generators_have_prime_order :
    (Curve.onCurve Bls.E1 Bls.g1 = true ∧ Curve.mul Bls.E1 Bls.r Bls.g1 = none ∧ Bls.g1.isSome = true) ∧
    (Curve.onCurve Bls.E2 Bls.g2 = true ∧ Curve.mul Bls.E2 Bls.r Bls.g2 = none ∧ Bls.g2.isSome = true) ∧
    (Curve.onCurve Ecdsa.p256.C Ecdsa.p256.g = true ∧ Curve.mul Ecdsa.p256.C Ecdsa.p256.n Ecdsa.p256.g = none ∧
      Ecdsa.p256.g.isSome = true) ∧
    (Curve.onCurve Ecdsa.k256.C Ecdsa.k256.g = true ∧ Curve.mul Ecdsa.k256.C Ecdsa.k256.n Ecdsa.k256.g = none ∧
      Ecdsa.k256.g.isSome = true) := by
  decide +kernel

end Props.C12

#print axioms Props.C12.mapToFr_eq
#print axioms Props.C12.bls_key_range
#print axioms Props.C12.seed_guard
#print axioms Props.C12.ecdsa_key_range
#print axioms Props.C12.deterministic
#print axioms Props.C12.tie_guards
#print axioms Props.C12.generators_have_prime_order
