import Proofs.AbsMany
import Mathlib.Tactic.Abel

/-! `BatchVerifyBLSSignaturesOneMessage` (bls_multisig.go) and `bls_batch_verify` / `build_tree` /
`bls_batch_verify_tree` (bls_core.c) over the abstract pairing setting.

The random coefficients are a universally quantified vector; the tree split is a parameter
(`split len` = length of the left part, any value with `0 < split len < len` for `len ≥ 2`). -/

variable {r : ℕ} [Fact r.Prime] {P : PairingGroups r}

inductive Res | undefined | valid | invalid
deriving DecidableEq, Repr

/-- a leaf after the per-index loop of `bls_batch_verify` -/
structure BLeaf (P : PairingGroups r) where
  pk : P.G2
  s : P.G1
  res : Res

/-- `bls_verify_E1` on the aggregated (pk, sig) of a node: `e(Σ s, -g2) · e(h, Σ pk) = 1` -/
def nodeCheck (h : P.G1) (l : List (BLeaf P)) : Bool :=
  decide (P.e (l.map (·.s)).sum (-P.g2) + P.e h (l.map (·.pk)).sum = 0)

/-- `bls_batch_verify_tree` on the segment `l` (results of the segment are returned) -/
def treeVerify (split : Nat → Nat) (h : P.G1) : Nat → List (BLeaf P) → List Res
  | 0, l => l.map (·.res)
  | fuel+1, l =>
    if nodeCheck h l then l.map (fun x => if x.res = .undefined then .valid else x.res)
    else if l.length ≤ 1 then l.map (fun _ => Res.invalid)
    else
      let k := split l.length
      treeVerify split h fuel (l.take k) ++ treeVerify split h fuel (l.drop k)

/-- Go pre-marking (`len ≠ 48` or identity key ⇒ false, pair replaced by identities) followed by the C loop:
    read + membership, failure ⇒ zeroed leaf marked INVALID, success ⇒ both sides multiplied by `c` -/
def prepLeaf (C : Codec P) (pk : P.G2) (sig : Bytes) (c : ZMod r) : BLeaf P × Bool :=
  let pre : Bool := decide (sig.length = 48) && decide (pk ≠ 0)
  let pk0 := if pre then pk else 0
  let sig0 := if pre then sig else C.encode 0
  match readG1 C sig0 with
  | none => ({ pk := 0, s := 0, res := .invalid }, pre)
  | some s => ({ pk := c • pk0, s := c • s, res := .undefined }, pre)

def Res.isValid : Res → Bool
  | .valid => true
  | _ => false

theorem prepLeaf_pre_false (C : Codec P) (pk : P.G2) (sig : Bytes) (c : ZMod r)
    (h : ¬ (sig.length = 48 ∧ pk ≠ 0)) : (prepLeaf C pk sig c).2 = false := by
  have hpre : (decide (sig.length = 48) && decide (pk ≠ 0)) = false := by
    rcases not_and_or.1 h with h1 | h1
    · simp [h1]
    · simp only [ne_eq, not_not] at h1; simp [h1]
  unfold prepLeaf
  simp only [hpre]
  split <;> rfl

theorem prepLeaf_none (C : Codec P) (pk : P.G2) (sig : Bytes) (c : ZMod r)
    (hl : sig.length = 48) (hpk : pk ≠ 0) (hr : readG1 C sig = none) :
    prepLeaf C pk sig c = ({ pk := 0, s := 0, res := .invalid }, true) := by
  unfold prepLeaf
  simp [hl, hpk, hr]

theorem prepLeaf_some (C : Codec P) (pk : P.G2) (sig : Bytes) (c : ZMod r) (s : P.G1)
    (hl : sig.length = 48) (hpk : pk ≠ 0) (hr : readG1 C sig = some s) :
    prepLeaf C pk sig c = ({ pk := c • pk, s := c • s, res := .undefined }, true) := by
  unfold prepLeaf
  simp [hl, hpk, hr]

/-- the whole function: per-index booleans -/
def batchVerify (C : Codec P) (split : Nat → Nat) (h : P.G1) (inputs : List (P.G2 × Bytes × ZMod r)) : List Bool :=
  let prepped := inputs.map fun x => prepLeaf C x.1 x.2.1 x.2.2
  let tree := treeVerify split h (prepped.length + 1) (prepped.map (·.1))
  List.zipWith (fun (p : BLeaf P × Bool) (v : Res) => p.2 && v.isValid) prepped tree

/-- the defect of a leaf: zero exactly when the leaf passes the pairing equation on its own -/
def defect (h : P.G1) (x : BLeaf P) : P.GT := P.e x.s P.g2 - P.e h x.pk

theorem nodeCheck_iff (h : P.G1) (l : List (BLeaf P)) :
    nodeCheck h l = true ↔ (l.map (defect h)).sum = 0 := by
  unfold nodeCheck
  simp only [decide_eq_true_eq]
  have : (l.map (defect h)).sum = P.e (l.map (·.s)).sum P.g2 - P.e h (l.map (·.pk)).sum := by
    induction l with
    | nil => simp
    | cons a t ih =>
      simp only [List.map_cons, List.sum_cons, ih, defect, map_add, LinearMap.add_apply]
      abel
  rw [this, map_neg, neg_add_eq_zero, sub_eq_zero]

/-- the coefficient vector is good for the leaves: no contiguous segment containing a defective leaf has
    defects summing to zero (the complement is the counted bad set of DESIGN.md §6 C03) -/
def Good (h : P.G1) (l : List (BLeaf P)) : Prop :=
  ∀ a b, (∃ x ∈ (l.drop a).take b, defect h x ≠ 0) → (((l.drop a).take b).map (defect h)).sum ≠ 0

theorem Good.take {h : P.G1} {l : List (BLeaf P)} (hg : Good h l) (k : Nat) : Good h (l.take k) := by
  intro a b hx
  have e : ((l.take k).drop a).take b = (l.drop a).take (min b (k - a)) := by
    rw [List.drop_take, List.take_take]
  rw [e] at hx ⊢
  exact hg a _ hx

theorem Good.drop {h : P.G1} {l : List (BLeaf P)} (hg : Good h l) (k : Nat) : Good h (l.drop k) := by
  intro a b hx
  have e : ((l.drop k).drop a).take b = (l.drop (k + a)).take b := by rw [List.drop_drop]
  rw [e] at hx ⊢
  exact hg _ _ hx

theorem Good.whole {h : P.G1} {l : List (BLeaf P)} (hg : Good h l) (hx : ∃ x ∈ l, defect h x ≠ 0) :
    (l.map (defect h)).sum ≠ 0 := by
  have := hg 0 l.length (by simpa using hx)
  simpa using this

/-- expected result of one leaf -/
def expected (h : P.G1) (x : BLeaf P) : Res :=
  match x.res with
  | .invalid => .invalid
  | .valid => .valid
  | .undefined => if defect h x = 0 then .valid else .invalid

/-- **the tree recursion returns the index-by-index verdicts** for every good coefficient vector, every
    split with `0 < split len < len`, every list length -/
theorem treeVerify_spec (split : Nat → Nat) (hsplit : ∀ n, 2 ≤ n → 0 < split n ∧ split n < n) (h : P.G1) :
    ∀ (fuel : Nat) (l : List (BLeaf P)), l.length < fuel → Good h l →
      (∀ x ∈ l, x.res = .invalid → defect h x = 0) → (∀ x ∈ l, x.res ≠ .valid) →
      treeVerify split h fuel l = l.map (expected h) := by
  intro fuel
  induction fuel with
  | zero => intro l hl; omega
  | succ n ih =>
    intro l hl hg hinv hnv
    unfold treeVerify
    split
    · next hok =>
      -- the node verifies: no leaf of the segment is defective
      have hsum := (nodeCheck_iff h l).1 hok
      have hall : ∀ x ∈ l, defect h x = 0 := by
        intro x hx
        by_contra hne
        exact hg.whole ⟨x, hx, hne⟩ hsum
      apply List.map_congr_left
      intro x hx
      unfold expected
      cases hr : x.res <;> simp [hall x hx]
    · next hbad =>
      have hsum : (l.map (defect h)).sum ≠ 0 := fun h0 => hbad ((nodeCheck_iff h l).2 h0)
      split
      · next hle =>
        -- a leaf that fails on its own
        match l, hle with
        | [], _ => simp at hsum
        | [x], _ =>
          simp only [List.map_cons, List.map_nil, List.sum_cons, List.sum_nil, add_zero] at hsum
          simp only [List.map_cons, List.map_nil, List.cons.injEq, and_true]
          unfold expected
          cases hr : x.res
          · simp [hsum]
          · exact absurd hr (hnv x (by simp))
          · rfl
      · next hgt =>
        have hk := hsplit l.length (by omega)
        have e1 := ih (l.take (split l.length)) (by rw [List.length_take]; omega) (hg.take _)
          (fun x hx => hinv x (List.mem_of_mem_take hx)) (fun x hx => hnv x (List.mem_of_mem_take hx))
        have e2 := ih (l.drop (split l.length)) (by rw [List.length_drop]; omega) (hg.drop _)
          (fun x hx => hinv x (List.mem_of_mem_drop hx)) (fun x hx => hnv x (List.mem_of_mem_drop hx))
        simp only
        rw [e1, e2, ← List.map_append, List.take_append_drop]
