import Proofs.DkgCommute

/-! Every delivery at an honest non-dealer participant of Feldman-VSS-Qual is a no-op, a single-entry update of
the complaint table, the dealer's vector or the dealer's share; any two deliveries the network may reorder
commute (up to `RelP`), hence the state after a round does not depend on the delivery order. -/

namespace Proofs.DkgCommute
open Model Model.Dkg
variable {O : Ops}

/-- one delivery: a broadcast or a private message from `o` -/
inductive Dl
  | bcast (o : Nat) (m : Bytes)
  | priv (o : Nat) (m : Bytes)

def step (s : St O) : Dl → St O
  | .bcast o m => (FvssQ.bcastBody s o m).1
  | .priv o m => (FvssQ.privBody s o m).1

def Dl.sender : Dl → Nat
  | .bcast o _ => o
  | .priv o _ => o

def Dl.isPriv : Dl → Bool
  | .bcast _ _ => false
  | .priv _ _ => true

/-- the network may deliver `a` and `b` in either order: different senders, or the two channels of one sender -/
def reorderable (a b : Dl) : Prop := a.sender ≠ b.sender ∨ a.isPriv ≠ b.isPriv

/-! ### what a delivery is, independently of the mutable state -/

/-- kinds of deliveries at a participant that is not the dealer -/
inductive Kind
  | noop                                   -- ignored (at most a `FlagMisbehavior` callback)
  | disq                                   -- a malformed broadcast of the dealer: disqualifies
  | cmpl (k : Nat)                         -- a well-formed complaint of `k` against the dealer
  | ans (j : Nat) (sc : Option Nat)        -- the dealer's answer for complainer `j`
  | vec (data : Bytes)                     -- the dealer's verification vector
  | share (data : Bytes)                   -- the dealer's private share message

/-- classification of a broadcast from `o`; it reads only fields no handler changes (`size`, `dealer`,
    `complaintsTimeout`) -/
def classifyB (s : St O) (o : Nat) (m : Bytes) : Kind :=
  if s.me = o then .noop
  else if m.length = 0 then (if o = s.dealer then .disq else .noop)
  else if m.headD 0 = tagVerifVec then (if o = s.dealer then .vec (m.drop 1) else .noop)
  else if m.headD 0 = tagComplaint then
    (if s.complaintsTimeout then .noop
     else match parseC s (m.drop 1) with
       | none => if o = s.dealer then .disq else .noop
       | some ce => if o = s.dealer then .noop else if ce ≠ s.dealer then .noop else .cmpl o)
  else if m.headD 0 = tagAnswer then
    (if o = s.dealer then (match parseA s (m.drop 1) with | none => .disq | some (j, sc) => .ans j sc) else .noop)
  else (if o = s.dealer then .disq else .noop)

def classify (s : St O) : Dl → Kind
  | .bcast o m => classifyB s o m
  | .priv o m => if s.me = o then .noop else if o = s.dealer then .share m else .noop

/-- effect of a delivery of each kind on a state that is not disqualified -/
def interp (s : St O) : Kind → St O
  | .noop => s
  | .disq => setDisq s true
  | .cmpl k => rcOk s k
  | .ans j sc => raOk s j sc
  | .vec d => (FvssQ.receiveVerifVector s s.dealer d).1
  | .share d => (FvssQ.receiveShare s s.dealer d).1

theorem step_disq (s : St O) (e : Dl) (h : s.disqualified = true) (hme : s.me ≠ s.dealer) : step s e = s := by
  cases e with
  | bcast o m =>
    show (FvssQ.bcastBody s o m).1 = s
    unfold FvssQ.bcastBody
    by_cases ho : s.me = o
    · rw [if_pos ho]
    · rw [if_neg ho, if_pos h]
  | priv o m =>
    show (FvssQ.privBody s o m).1 = s
    unfold FvssQ.privBody
    by_cases ho : s.me = o
    · rw [if_pos ho]
    · rw [if_neg ho, if_pos h]

theorem step_classify (s : St O) (e : Dl) (hme : s.me ≠ s.dealer) (hdq : s.disqualified = false) :
    step s e = interp s (classify s e) := by
  cases e with
  | priv o m =>
    show (FvssQ.privBody s o m).1 = interp s (if s.me = o then .noop else if o = s.dealer then .share m else .noop)
    unfold FvssQ.privBody
    by_cases ho : s.me = o
    · rw [if_pos ho, if_pos ho]; rfl
    · rw [if_neg ho, if_neg ho, if_neg (by simp [hdq])]
      by_cases hod : o = s.dealer
      · rw [if_pos hod]; subst hod; rfl
      · rw [if_neg hod]
        unfold FvssQ.receiveShare
        rw [if_pos hod]; rfl
  | bcast o m =>
    show (FvssQ.bcastBody s o m).1 = interp s (classifyB s o m)
    unfold classifyB FvssQ.bcastBody
    by_cases ho : s.me = o
    · rw [if_pos ho, if_pos ho]; rfl
    · rw [if_neg ho, if_neg ho, if_neg (by simp [hdq])]
      simp only []
      by_cases hl : m.length = 0
      · rw [if_pos hl, if_pos hl]
        by_cases hod : o = s.dealer
        · rw [if_pos hod, if_pos hod]; rfl
        · rw [if_neg hod, if_neg hod]; rfl
      · rw [if_neg hl, if_neg hl]
        by_cases h1 : m.headD 0 = tagVerifVec
        · rw [if_pos h1, if_pos h1]
          by_cases hod : o = s.dealer
          · rw [if_pos hod]; subst hod; rfl
          · rw [if_neg hod]
            unfold FvssQ.receiveVerifVector
            rw [if_pos hod]; rfl
        · rw [if_neg h1, if_neg h1]
          by_cases h2 : m.headD 0 = tagComplaint
          · rw [if_pos h2, if_pos h2]
            by_cases hct : s.complaintsTimeout = true
            · rw [if_pos hct]
              unfold FvssQ.receiveComplaint
              rw [if_pos hct]; rfl
            · have hct' : s.complaintsTimeout = false := by simpa using hct
              rw [if_neg hct, rc_eq s o _ hme hct']
              cases parseC s (m.drop 1) with
              | none =>
                simp only []
                by_cases hod : o = s.dealer
                · rw [if_pos hod, if_pos hod]; rfl
                · rw [if_neg hod, if_neg hod]; rfl
              | some ce =>
                simp only []
                by_cases hod : o = s.dealer
                · rw [if_pos hod, if_pos hod]; rfl
                · rw [if_neg hod, if_neg hod]
                  by_cases hce : ce ≠ s.dealer
                  · rw [if_pos hce, if_pos hce]; rfl
                  · rw [if_neg hce, if_neg hce]; rfl
          · rw [if_neg h2, if_neg h2]
            by_cases h3 : m.headD 0 = tagAnswer
            · rw [if_pos h3, if_pos h3]
              by_cases hod : o = s.dealer
              · rw [if_pos hod]
                subst hod
                rw [ra_eq]
                cases parseA s (m.drop 1) with
                | none => rfl
                | some p => rfl
              · rw [if_neg hod]
                unfold FvssQ.receiveComplaintAnswer
                rw [if_pos hod]; rfl
            · rw [if_neg h3, if_neg h3]
              by_cases hod : o = s.dealer
              · rw [if_pos hod, if_pos hod]; rfl
              · rw [if_neg hod, if_neg hod]; rfl


/-! ### generic commutation of two state-dependent single-entry updates -/

theorem RelP.symm' {a b : St O} (h : RelP a b) : RelP b a := by
  rcases h with h | h
  · exact Or.inl ⟨h.2, h.1⟩
  · exact Or.inr h.symm'

theorem notTrue_disq (s : St O) (hdq : s.disqualified = false) (K : Nat) (u : Upd)
    (h : (applyUpd s K u).disqualified = false) : u.disq ≠ some true := by
  intro hu
  rw [applyUpd_disq, hu] at h
  cases h

theorem disq_of_notTrue (s : St O) (hdq : s.disqualified = false) (K : Nat) (u : Upd) (h : u.disq ≠ some true) :
    (applyUpd s K u).disqualified = false := by
  rw [applyUpd_disq]
  cases hu : u.disq with
  | none => exact hdq
  | some b =>
    cases b with
    | true => exact absurd hu h
    | false => rfl

/-- two updates of different entries whose descriptors do not depend on the other entry -/
theorem stable_pair (s : St O) (hdq : s.disqualified = false) (K1 K2 : Nat) (F1 F2 : St O → Upd)
    (hK : K2 ≠ K1 ∨ (F1 s).entry = none ∨ (F2 s).entry = none)
    (h1 : ∀ u, u.disq ≠ some true → u = F2 s → F1 (applyUpd s K2 u) = F1 s)
    (h2 : ∀ u, u.disq ≠ some true → u = F1 s → F2 (applyUpd s K1 u) = F2 s)
    (hx : (F1 s).x = none ∨ (F2 s).x = none) :
    RelP (if (applyUpd s K1 (F1 s)).disqualified then applyUpd s K1 (F1 s)
          else applyUpd (applyUpd s K1 (F1 s)) K2 (F2 (applyUpd s K1 (F1 s))))
         (if (applyUpd s K2 (F2 s)).disqualified then applyUpd s K2 (F2 s)
          else applyUpd (applyUpd s K2 (F2 s)) K1 (F1 (applyUpd s K2 (F2 s)))) := by
  have key := upd_pair s hdq K2 K1 (F1 s) (F2 s) hK hx
  have e1 : (if (applyUpd s K1 (F1 s)).disqualified then applyUpd s K1 (F1 s)
          else applyUpd (applyUpd s K1 (F1 s)) K2 (F2 (applyUpd s K1 (F1 s)))) =
      (if (applyUpd s K1 (F1 s)).disqualified then applyUpd s K1 (F1 s)
          else applyUpd (applyUpd s K1 (F1 s)) K2 (F2 s)) := by
    by_cases hd : (applyUpd s K1 (F1 s)).disqualified = true
    · rw [if_pos hd, if_pos hd]
    · have hd' : (applyUpd s K1 (F1 s)).disqualified = false := by simpa using hd
      rw [if_neg hd, if_neg hd, h2 _ (notTrue_disq s hdq K1 _ hd') rfl]
  have e2 : (if (applyUpd s K2 (F2 s)).disqualified then applyUpd s K2 (F2 s)
          else applyUpd (applyUpd s K2 (F2 s)) K1 (F1 (applyUpd s K2 (F2 s)))) =
      (if (applyUpd s K2 (F2 s)).disqualified then applyUpd s K2 (F2 s)
          else applyUpd (applyUpd s K2 (F2 s)) K1 (F1 s)) := by
    by_cases hd : (applyUpd s K2 (F2 s)).disqualified = true
    · rw [if_pos hd, if_pos hd]
    · have hd' : (applyUpd s K2 (F2 s)).disqualified = false := by simpa using hd
      rw [if_neg hd, if_neg hd, h1 _ (notTrue_disq s hdq K2 _ hd') rfl]
  rw [e1, e2]
  exact key

/-- the descriptor of a complaint of `k` -/
def cmplF (k : Nat) (t : St O) : Upd := rcU (t.find k) t.vAReceived (t.checkComplaint k)

/-- the descriptor of the dealer's answer for `j` -/
def ansF (j : Nat) (sc : Option Nat) (t : St O) : Upd :=
  raU (t.find j) t.vAReceived (t.checkComplaint j) t.disqualified (decide (j = t.me)) sc

theorem rcOk_F (s : St O) (k : Nat) : rcOk s k = applyUpd s k (cmplF k s) := rcOk_upd s k
theorem raOk_F (s : St O) (j : Nat) (sc : Option Nat) : raOk s j sc = applyUpd s j (ansF j sc s) := raOk_upd s j sc

theorem cc_applyUpd (s : St O) (K : Nat) (u : Upd) (k : Nat) : (applyUpd s K u).checkComplaint k = s.checkComplaint k := by
  funext c
  unfold St.checkComplaint
  rw [(applyUpd_vA s K u).1]

theorem find_applyUpd_stable (s : St O) (k K : Nat) (u : Upd) (h : k ≠ K ∨ u.entry = none) :
    (applyUpd s K u).find k = s.find k := by
  rcases h with h | h
  · exact find_applyUpd_other s k K u h
  · unfold applyUpd
    rw [h]
    cases u.disq <;> cases u.x <;> rfl

theorem cmplF_stable (s : St O) (k K : Nat) (u : Upd) (h : k ≠ K ∨ u.entry = none) : cmplF k (applyUpd s K u) = cmplF k s := by
  unfold cmplF
  rw [find_applyUpd_stable s k K u h, (applyUpd_vA s K u).2.1, cc_applyUpd]

theorem ansF_stable (s : St O) (hdq : s.disqualified = false) (j : Nat) (sc : Option Nat) (K : Nat) (u : Upd)
    (h : j ≠ K ∨ u.entry = none) (hu : u.disq ≠ some true) : ansF j sc (applyUpd s K u) = ansF j sc s := by
  unfold ansF
  rw [find_applyUpd_stable s j K u h, (applyUpd_vA s K u).2.1, cc_applyUpd, (applyUpd_vA s K u).2.2.1,
    disq_of_notTrue s hdq K u hu, hdq]

theorem rcU_x (fc : Option Complaint) (b : Bool) (chk : Complaint → Bool) : (rcU fc b chk).x = none := by
  unfold rcU
  cases fc with
  | none => rfl
  | some c =>
    simp only []
    split
    · rfl
    · split <;> rfl

/-- **two complaints commute** -/
theorem cmpl_cmpl (s : St O) (hdq : s.disqualified = false) (k k' : Nat) (h : k ≠ k') :
    RelP (if (rcOk s k).disqualified then rcOk s k else rcOk (rcOk s k) k')
         (if (rcOk s k').disqualified then rcOk s k' else rcOk (rcOk s k') k) := by
  have := stable_pair s hdq k k' (cmplF k) (cmplF k') (Or.inl h.symm)
    (fun u _ _ => cmplF_stable s k k' u (Or.inl h)) (fun u _ _ => cmplF_stable s k' k u (Or.inl h.symm))
    (Or.inl (rcU_x _ _ _))
  simpa only [← rcOk_F] using this

/-- **a complaint and the dealer's answer to another complainer commute** -/
theorem cmpl_ans_other (s : St O) (hdq : s.disqualified = false) (k j : Nat) (sc : Option Nat) (h : k ≠ j) :
    RelP (if (rcOk s k).disqualified then rcOk s k else raOk (rcOk s k) j sc)
         (if (raOk s j sc).disqualified then raOk s j sc else rcOk (raOk s j sc) k) := by
  have := stable_pair s hdq k j (cmplF k) (ansF j sc) (Or.inl h.symm)
    (fun u _ _ => cmplF_stable s k j u (Or.inl h))
    (fun u hu _ => ansF_stable s hdq j sc k u (Or.inl h.symm) hu)
    (Or.inl (rcU_x _ _ _))
  simpa only [← rcOk_F, ← raOk_F] using this


/-! ### the share as a pre-update followed by the node's own complaint -/

def pre (sh : Bytes) (s : St O) : St O := match parseShare O sh with | none => markX s | some x => setX s x

def ownF (t : St O) : Upd := bcU (t.find t.me) (t.vAReceived && t.vA.isSome) (t.checkComplaint t.me)

def shareF (sh : Bytes) (t : St O) : Upd :=
  match parseShare O sh with
  | none => ownF t
  | some x => if t.vAReceived ∧ (!(setX t x).verifyShare) = true then ownF t else {}

theorem rs_F (s : St O) (d : Nat) (hd : d = s.dealer) (sh : Bytes) (hst : s.sharesTimeout = false)
    (hx : s.xReceived = false) :
    (FvssQ.receiveShare s d sh).1 = applyUpd (pre sh s) s.me (shareF sh s) := by
  rw [rs_eq s d hd sh hst hx]
  unfold pre shareF
  cases parseShare O sh with
  | none => simp only []; rw [bc_upd]; rfl
  | some x =>
    simp only []
    unfold rsOk
    by_cases hv : s.vAReceived = true
    · rw [if_pos hv]
      by_cases hl : (!(setX s x).verifyShare) = true
      · rw [if_pos hl, if_pos ⟨hv, hl⟩, bc_upd]; rfl
      · rw [if_neg hl, if_neg (fun h => hl h.2)]; rfl
    · rw [if_neg hv, if_neg (fun h => hv h.1)]; rfl

theorem pre_applyUpd (sh : Bytes) (s : St O) (K : Nat) (u : Upd) (hx : u.x = none) :
    pre sh (applyUpd s K u) = applyUpd (pre sh s) K u := by
  unfold pre applyUpd
  rw [hx]
  cases parseShare O sh <;> cases u.entry <;> cases u.disq <;> rfl

theorem pre_disq (sh : Bytes) (s : St O) : (pre sh s).disqualified = s.disqualified := by
  unfold pre; cases parseShare O sh <;> rfl

theorem pre_me (sh : Bytes) (s : St O) : (pre sh s).me = s.me := by
  unfold pre; cases parseShare O sh <;> rfl

theorem applyUpd_disq_pre (sh : Bytes) (s : St O) (K : Nat) (u : Upd) :
    (applyUpd (pre sh s) K u).disqualified = (applyUpd s K u).disqualified := by
  rw [applyUpd_disq, applyUpd_disq, pre_disq]

/-- the dealer's share and a single-entry update of another entry commute -/
theorem share_upd (s : St O) (hdq : s.disqualified = false) (sh : Bytes) (K : Nat) (F : St O → Upd)
    (hK : s.me ≠ K ∨ (F s).entry = none) (hx : (F s).x = none)
    (hFpre : F (pre sh s) = F s)
    (hF : ∀ u, u.disq ≠ some true → F (applyUpd (pre sh s) s.me u) = F (pre sh s))
    (hS : ∀ u, u.disq ≠ some true → u = F s → shareF sh (applyUpd s K u) = shareF sh s) :
    RelP (if (applyUpd s K (F s)).disqualified then applyUpd s K (F s)
          else applyUpd (pre sh (applyUpd s K (F s))) s.me (shareF sh (applyUpd s K (F s))))
         (if (applyUpd (pre sh s) s.me (shareF sh s)).disqualified then applyUpd (pre sh s) s.me (shareF sh s)
          else applyUpd (applyUpd (pre sh s) s.me (shareF sh s)) K (F (applyUpd (pre sh s) s.me (shareF sh s)))) := by
  have hdqT : (pre sh s).disqualified = false := by rw [pre_disq]; exact hdq
  have key := stable_pair (pre sh s) hdqT K s.me F (fun _ => shareF sh s)
    (by rw [hFpre]; rcases hK with h | h; exact Or.inl h; exact Or.inr (Or.inl h))
    (fun u hu _ => hF u hu) (fun _ _ _ => rfl) (by rw [hFpre]; exact Or.inl hx)
  rw [hFpre] at key
  by_cases hd : (applyUpd s K (F s)).disqualified = true
  · -- the update disqualifies: the share is then ignored; in the other order the update comes last
    have hd' : (applyUpd (pre sh s) K (F s)).disqualified = true := by rw [applyUpd_disq_pre]; exact hd
    rw [if_pos hd]
    rw [if_pos hd'] at key
    left
    refine ⟨hd, ?_⟩
    rcases key with h | h
    · exact h.2
    · rw [← h.2.2.2.2.2.2.2.2.2.2.2.2.1]; exact hd'
  · have hd1 : (applyUpd s K (F s)).disqualified = false := by simpa using hd
    have hd' : ¬ (applyUpd (pre sh s) K (F s)).disqualified = true := by rw [applyUpd_disq_pre]; exact hd
    rw [if_neg hd]
    rw [if_neg hd'] at key
    rw [pre_applyUpd sh s K (F s) hx, hS _ (notTrue_disq s hdq K _ hd1) rfl]
    exact key


theorem find_pre (sh : Bytes) (s : St O) (k : Nat) : (pre sh s).find k = s.find k := by
  unfold pre; cases parseShare O sh <;> rfl

theorem cmplF_pre (sh : Bytes) (s : St O) (k : Nat) : cmplF k (pre sh s) = cmplF k s := by
  unfold cmplF pre; cases parseShare O sh <;> rfl

theorem ansF_pre (sh : Bytes) (s : St O) (j : Nat) (sc : Option Nat) : ansF j sc (pre sh s) = ansF j sc s := by
  unfold ansF pre; cases parseShare O sh <;> rfl

theorem ownF_stable (s : St O) (K : Nat) (u : Upd) (h : s.me ≠ K ∨ u.entry = none) : ownF (applyUpd s K u) = ownF s := by
  unfold ownF
  have a := applyUpd_vA s K u
  rw [a.2.2.1, find_applyUpd_stable s s.me K u h, a.1, a.2.1, cc_applyUpd]

theorem shareF_stable (sh : Bytes) (s : St O) (K : Nat) (u : Upd) (h : s.me ≠ K ∨ u.entry = none) (hx : u.x = none) :
    shareF sh (applyUpd s K u) = shareF sh s := by
  unfold shareF
  cases parseShare O sh with
  | none => exact ownF_stable s K u h
  | some x =>
    simp only []
    have a := applyUpd_vA s K u
    have hvs : (setX (applyUpd s K u) x).verifyShare = (setX s x).verifyShare := by
      unfold St.verifyShare
      simp only [setX_vA, setX_me, setX_x, a.1, a.2.2.1]
    rw [a.2.1, hvs, ownF_stable s K u h]

theorem ansF_x (j : Nat) (sc : Option Nat) (t : St O) (h : j ≠ t.me) : (ansF j sc t).x = none := by
  unfold ansF raU
  have : decide (j = t.me) = false := by simpa using h
  rw [this]
  cases t.find j with
  | none => cases sc <;> rfl
  | some c =>
    simp only []
    split
    · rfl
    · split
      · cases sc <;> simp
      · rfl

/-- **a complaint and the node's share commute** -/
theorem cmpl_share (s : St O) (hdq : s.disqualified = false) (k : Nat) (hk : k ≠ s.me) (sh : Bytes) :
    RelP (if (rcOk s k).disqualified then rcOk s k
          else applyUpd (pre sh (rcOk s k)) s.me (shareF sh (rcOk s k)))
         (if (applyUpd (pre sh s) s.me (shareF sh s)).disqualified then applyUpd (pre sh s) s.me (shareF sh s)
          else rcOk (applyUpd (pre sh s) s.me (shareF sh s)) k) := by
  have hkm : s.me ≠ k := fun h => hk h.symm
  have := share_upd s hdq sh k (cmplF k) (Or.inl hkm) (rcU_x _ _ _) (cmplF_pre sh s k)
    (fun u _ => cmplF_stable (pre sh s) k s.me u (Or.inl hk))
    (fun u _ hu => shareF_stable sh s k u (Or.inl hkm) (by rw [hu]; exact rcU_x _ _ _))
  simpa only [← rcOk_F] using this

/-- **the dealer's answer to another complainer and the node's share commute** -/
theorem ans_share_other (s : St O) (hdq : s.disqualified = false) (j : Nat) (sc : Option Nat) (hj : j ≠ s.me) (sh : Bytes) :
    RelP (if (raOk s j sc).disqualified then raOk s j sc
          else applyUpd (pre sh (raOk s j sc)) s.me (shareF sh (raOk s j sc)))
         (if (applyUpd (pre sh s) s.me (shareF sh s)).disqualified then applyUpd (pre sh s) s.me (shareF sh s)
          else raOk (applyUpd (pre sh s) s.me (shareF sh s)) j sc) := by
  have hjm : s.me ≠ j := fun h => hj h.symm
  have hdqT : (pre sh s).disqualified = false := by rw [pre_disq]; exact hdq
  have := share_upd s hdq sh j (ansF j sc) (Or.inl hjm) (ansF_x j sc s hj) (ansF_pre sh s j sc)
    (fun u hu => ansF_stable (pre sh s) hdqT j sc s.me u (Or.inl hj) hu)
    (fun u _ hu => shareF_stable sh s j u (Or.inl hjm) (by rw [hu]; exact ansF_x j sc s hj))
  simpa only [← raOk_F] using this


/-! ### any two reorderable deliveries commute -/

def run (s : St O) (k : Kind) : St O := if s.disqualified then s else interp s k

theorem step_run (s : St O) (e : Dl) (hme : s.me ≠ s.dealer) : step s e = run s (classify s e) := by
  unfold run
  by_cases hd : s.disqualified = true
  · rw [if_pos hd, step_disq s e hd hme]
  · rw [if_neg hd]
    exact step_classify s e hme (by simpa using hd)

/-- invariants of a running instance at a participant other than the dealer -/
structure Inv (s : St O) : Prop where
  hme : s.me ≠ s.dealer
  nodup : KeysNodup s
  wf : EntriesWF s
  vecok : VecOK s
  own : ∀ c, s.find s.me = some c → c.received = true → s.xReceived = true ∨ s.sharesTimeout = true

/-- kinds that the network may deliver in either order -/
def Compat : Kind → Kind → Prop
  | .noop, _ => True
  | _, .noop => True
  | .cmpl k, .cmpl k' => k ≠ k'
  | .cmpl _, _ => True
  | _, .cmpl _ => True
  | .share _, .share _ => False
  | .share _, _ => True
  | _, .share _ => True
  | _, _ => False

/-- a complaint comes from another participant -/
def KOK (s : St O) : Kind → Prop
  | .cmpl k => k ≠ s.me
  | _ => True

theorem run_disq (s : St O) (k : Kind) (h : s.disqualified = true) : run s k = s := by
  unfold run; rw [if_pos h]

theorem applyUpd_cfg (s : St O) (K : Nat) (u : Upd) : SameCfg s (applyUpd s K u) := by
  have a := applyUpd_vA s K u
  have r := applyUpd_rest s K u
  exact ⟨a.2.2.1, a.2.2.2.1, r.1, r.2.1, r.2.2.2.2.2.1, r.2.2.2.2.2.2, r.2.2.1⟩

theorem rcOk_cfg (s : St O) (k : Nat) : SameCfg s (rcOk s k) := by rw [rcOk_F]; exact applyUpd_cfg _ _ _
theorem raOk_cfg (s : St O) (j : Nat) (sc : Option Nat) : SameCfg s (raOk s j sc) := by
  rw [raOk_F]; exact applyUpd_cfg _ _ _

theorem rcOk_keeps (s : St O) (k : Nat) :
    (rcOk s k).vAReceived = s.vAReceived ∧ (rcOk s k).xReceived = s.xReceived ∧ (rcOk s k).vA = s.vA := by
  rw [rcOk_F]
  have a := applyUpd_vA s k (cmplF k s)
  exact ⟨a.2.1, a.2.2.2.2, a.1⟩

theorem raOk_keeps (s : St O) (j : Nat) (sc : Option Nat) :
    (raOk s j sc).vAReceived = s.vAReceived ∧ (raOk s j sc).xReceived = s.xReceived ∧ (raOk s j sc).vA = s.vA := by
  rw [raOk_F]
  have a := applyUpd_vA s j (ansF j sc s)
  exact ⟨a.2.1, a.2.2.2.2, a.1⟩

/-- a disqualifying delivery and anything else -/
theorem disq_any (s : St O) (hdq : s.disqualified = false) (k : Kind) : RelP (run (run s .disq) k) (run (run s k) .disq) := by
  left
  have h1 : (run s .disq).disqualified = true := by
    unfold run; rw [hdq]; rfl
  refine ⟨by rw [run_disq _ _ h1]; exact h1, ?_⟩
  unfold run
  by_cases hd : (if s.disqualified = true then s else interp s k).disqualified = true
  · rw [if_pos hd]; exact hd
  · rw [if_neg hd]; rfl


theorem run_cmpl (s : St O) (hdq : s.disqualified = false) (k : Nat) : run s (.cmpl k) = rcOk s k := by
  unfold run; rw [hdq]; rfl
theorem run_ans (s : St O) (hdq : s.disqualified = false) (j : Nat) (sc : Option Nat) : run s (.ans j sc) = raOk s j sc := by
  unfold run; rw [hdq]; rfl
theorem run_vec (s : St O) (hdq : s.disqualified = false) (d : Bytes) :
    run s (.vec d) = (FvssQ.receiveVerifVector s s.dealer d).1 := by
  unfold run; rw [hdq]; rfl
theorem run_share (s : St O) (hdq : s.disqualified = false) (d : Bytes) :
    run s (.share d) = (FvssQ.receiveShare s s.dealer d).1 := by
  unfold run; rw [hdq]; rfl

theorem pair_cc (s : St O) (hdq : s.disqualified = false) (k k' : Nat) (h : k ≠ k') :
    RelP (run (run s (.cmpl k)) (.cmpl k')) (run (run s (.cmpl k')) (.cmpl k)) := by
  rw [run_cmpl s hdq, run_cmpl s hdq]
  exact cmpl_cmpl s hdq k k' h

theorem pair_ca (s : St O) (hdq : s.disqualified = false) (hwf : EntriesWF s) (k j : Nat) (sc : Option Nat)
    (hk : k ≠ s.me) :
    RelP (run (run s (.cmpl k)) (.ans j sc)) (run (run s (.ans j sc)) (.cmpl k)) := by
  rw [run_cmpl s hdq, run_ans s hdq]
  by_cases h : k = j
  · subst h; exact complaint_answer_same s k sc hk hdq hwf
  · exact cmpl_ans_other s hdq k j sc h

theorem pair_cv (s : St O) (inv : Inv s) (hdq : s.disqualified = false) (k : Nat) (hk : k ≠ s.me) (d : Bytes) :
    RelP (run (run s (.cmpl k)) (.vec d)) (run (run s (.vec d)) (.cmpl k)) := by
  rw [run_cmpl s hdq, run_vec s hdq]
  have cC := rcOk_cfg s k
  have kC := rcOk_keeps s k
  show RelP (if (rcOk s k).disqualified then rcOk s k else (FvssQ.receiveVerifVector (rcOk s k) (rcOk s k).dealer d).1)
    (if (FvssQ.receiveVerifVector s s.dealer d).1.disqualified then (FvssQ.receiveVerifVector s s.dealer d).1
     else rcOk (FvssQ.receiveVerifVector s s.dealer d).1 k)
  by_cases hg : s.sharesTimeout = true ∨ s.vAReceived = true
  · -- the vector is late or a duplicate: ignored in both orders
    have h1 := rv_noop s s.dealer rfl d hg
    have h2 := rv_noop (rcOk s k) (rcOk s k).dealer rfl d (by rw [cC.2.2.2.2.1, kC.1]; exact hg)
    rw [h1, h2, hdq]
    simp only [ite_self, Bool.false_eq_true, if_false]
    exact Or.inr (Equiv.refl' _)
  · have hst : s.sharesTimeout = false := by
      cases h : s.sharesTimeout
      · rfl
      · exact absurd (Or.inl h) hg
    have hv : s.vAReceived = false := by
      cases h : s.vAReceived
      · rfl
      · exact absurd (Or.inr h) hg
    have e1 := rv_eq s s.dealer rfl d hst hv
    have e2 := rv_eq (rcOk s k) (rcOk s k).dealer rfl d (by rw [cC.2.2.2.2.1]; exact hst) (by rw [kC.1]; exact hv)
    rw [parseVec_cfg s _ cC] at e2
    rw [e1, e2]
    cases parseVec s d with
    | none =>
      left
      simp only [vecBad_disqualified, if_true, and_true]
      split
      · assumption
      · rfl
    | some v =>
      simp only []
      exact (vec_complaint s v k hk inv.nodup inv.wf hdq hv).symm'

theorem pair_cs (s : St O) (hdq : s.disqualified = false) (k : Nat) (hk : k ≠ s.me) (sh : Bytes) :
    RelP (run (run s (.cmpl k)) (.share sh)) (run (run s (.share sh)) (.cmpl k)) := by
  rw [run_cmpl s hdq, run_share s hdq]
  have cC := rcOk_cfg s k
  have kC := rcOk_keeps s k
  show RelP (if (rcOk s k).disqualified then rcOk s k else (FvssQ.receiveShare (rcOk s k) (rcOk s k).dealer sh).1)
    (if (FvssQ.receiveShare s s.dealer sh).1.disqualified then (FvssQ.receiveShare s s.dealer sh).1
     else rcOk (FvssQ.receiveShare s s.dealer sh).1 k)
  by_cases hg : s.sharesTimeout = true ∨ s.xReceived = true
  · have h1 := rs_noop s s.dealer rfl sh hg
    have h2 := rs_noop (rcOk s k) (rcOk s k).dealer rfl sh (by rw [cC.2.2.2.2.1, kC.2.1]; exact hg)
    rw [h1, h2, hdq]
    simp only [ite_self, Bool.false_eq_true, if_false]
    exact Or.inr (Equiv.refl' _)
  · have hst : s.sharesTimeout = false := by
      cases h : s.sharesTimeout
      · rfl
      · exact absurd (Or.inl h) hg
    have hx : s.xReceived = false := by
      cases h : s.xReceived
      · rfl
      · exact absurd (Or.inr h) hg
    rw [rs_F s s.dealer rfl sh hst hx,
      rs_F (rcOk s k) (rcOk s k).dealer rfl sh (by rw [cC.2.2.2.2.1]; exact hst) (by rw [kC.2.1]; exact hx), cC.1]
    exact cmpl_share s hdq k hk sh


theorem pair_as (s : St O) (inv : Inv s) (hdq : s.disqualified = false) (j : Nat) (sc : Option Nat) (sh : Bytes) :
    RelP (run (run s (.ans j sc)) (.share sh)) (run (run s (.share sh)) (.ans j sc)) := by
  rw [run_ans s hdq, run_share s hdq]
  have cA := raOk_cfg s j sc
  have kA := raOk_keeps s j sc
  show RelP (if (raOk s j sc).disqualified then raOk s j sc
        else (FvssQ.receiveShare (raOk s j sc) (raOk s j sc).dealer sh).1)
    (if (FvssQ.receiveShare s s.dealer sh).1.disqualified then (FvssQ.receiveShare s s.dealer sh).1
     else raOk (FvssQ.receiveShare s s.dealer sh).1 j sc)
  by_cases hg : s.sharesTimeout = true ∨ s.xReceived = true
  · have h1 := rs_noop s s.dealer rfl sh hg
    have h2 := rs_noop (raOk s j sc) (raOk s j sc).dealer rfl sh (by rw [cA.2.2.2.2.1, kA.2.1]; exact hg)
    rw [h1, h2, hdq]
    simp only [ite_self, Bool.false_eq_true, if_false]
    exact Or.inr (Equiv.refl' _)
  · have hst : s.sharesTimeout = false := by
      cases h : s.sharesTimeout
      · rfl
      · exact absurd (Or.inl h) hg
    have hx : s.xReceived = false := by
      cases h : s.xReceived
      · rfl
      · exact absurd (Or.inr h) hg
    by_cases hj : j = s.me
    · -- the answer to the node's own complaint
      subst hj
      rw [rs_eq s s.dealer rfl sh hst hx,
        rs_eq (raOk s s.me sc) (raOk s s.me sc).dealer rfl sh (by rw [cA.2.2.2.2.1]; exact hst) (by rw [kA.2.1]; exact hx)]
      cases parseShare O sh with
      | none =>
        simp only []
        exact (share_answer_me_bad s sc hdq inv.wf inv.vecok).symm'
      | some x0 =>
        simp only []
        refine (share_answer_me_good s x0 sc hdq inv.wf inv.vecok ?_).symm'
        intro c hc
        cases hr : c.received with
        | false => rfl
        | true =>
          rcases inv.own c hc hr with h | h
          · rw [hx] at h; cases h
          · rw [hst] at h; cases h
    · rw [rs_F s s.dealer rfl sh hst hx,
        rs_F (raOk s j sc) (raOk s j sc).dealer rfl sh (by rw [cA.2.2.2.2.1]; exact hst) (by rw [kA.2.1]; exact hx), cA.1]
      exact ans_share_other s hdq j sc hj sh

theorem classify_cfg (s t : St O) (h : SameCfg s t) (e : Dl) : classify t e = classify s e := by
  obtain ⟨h1, h2, h3, _, _, h6, _⟩ := h
  cases e with
  | bcast o m =>
    show classifyB t o m = classifyB s o m
    unfold classifyB parseC parseA
    rw [h1, h2, h3, h6]
  | priv o m =>
    show (if t.me = o then Kind.noop else if o = t.dealer then Kind.share m else Kind.noop) = _
    rw [h1, h2]; rfl

theorem pair_vs (s : St O) (inv : Inv s) (hdq : s.disqualified = false) (d sh : Bytes) :
    RelP (run (run s (.vec d)) (.share sh)) (run (run s (.share sh)) (.vec d)) := by
  have hme := inv.hme
  have key := share_vector_commute s hme inv.nodup d sh
  -- both sides of `key` are the two runs
  have cV := rv_cfg s s.dealer d
  have cP := rs_cfg s s.dealer sh
  have e1 : (FvssQ.bcastBody s s.dealer (tagVerifVec :: d)).1 = run s (.vec d) := by
    rw [bvec_eq s s.dealer rfl hme]; rfl
  have e2 : (FvssQ.privBody s s.dealer sh).1 = run s (.share sh) := by
    rw [priv_eq s s.dealer rfl hme]; rfl
  have hmeV : (run s (.vec d)).me ≠ (run s (.vec d)).dealer := by
    rw [run_vec s hdq, cV.1, cV.2.1]; exact hme
  have hmeP : (run s (.share sh)).me ≠ (run s (.share sh)).dealer := by
    rw [run_share s hdq, cP.1, cP.2.1]; exact hme
  have dV : (run s (.vec d)).dealer = s.dealer := by rw [run_vec s hdq]; exact cV.2.1
  have dP : (run s (.share sh)).dealer = s.dealer := by rw [run_share s hdq]; exact cP.2.1
  have e3 : (FvssQ.privBody (run s (.vec d)) s.dealer sh).1 = run (run s (.vec d)) (.share sh) := by
    rw [priv_eq _ s.dealer dV.symm hmeV]
    show _ = (if (run s (.vec d)).disqualified then run s (.vec d)
      else (FvssQ.receiveShare (run s (.vec d)) (run s (.vec d)).dealer sh).1)
    rw [dV]
  have e4 : (FvssQ.bcastBody (run s (.share sh)) s.dealer (tagVerifVec :: d)).1 = run (run s (.share sh)) (.vec d) := by
    rw [bvec_eq _ s.dealer dP.symm hmeP]
    show _ = (if (run s (.share sh)).disqualified then run s (.share sh)
      else (FvssQ.receiveVerifVector (run s (.share sh)) (run s (.share sh)).dealer d).1)
    rw [dP]
  rw [e1, e2, e3, e4] at key
  exact key.toP


theorem noop_any (s : St O) (k : Kind) : RelP (run (run s .noop) k) (run (run s k) .noop) := by
  have h : ∀ t : St O, run t .noop = t := by intro t; unfold run; split <;> rfl
  rw [h s, h (run s k)]
  exact Or.inr (Equiv.refl' _)

/-- **any two compatible kinds of deliveries commute** -/
theorem kind_pair (s : St O) (inv : Inv s) (hdq : s.disqualified = false) (k1 k2 : Kind) (hc : Compat k1 k2)
    (ok1 : KOK s k1) (ok2 : KOK s k2) : RelP (run (run s k1) k2) (run (run s k2) k1) := by
  cases k1 with
  | noop => exact noop_any s k2
  | disq =>
    cases k2 with
    | noop => exact (noop_any s .disq).symm'
    | disq => exact absurd hc (by simp [Compat])
    | cmpl k => exact disq_any s hdq _
    | ans j sc => exact absurd hc (by simp [Compat])
    | vec d => exact absurd hc (by simp [Compat])
    | share d => exact disq_any s hdq _
  | cmpl k =>
    cases k2 with
    | noop => exact (noop_any s _).symm'
    | disq => exact (disq_any s hdq _).symm'
    | cmpl k' => exact pair_cc s hdq k k' hc
    | ans j sc => exact pair_ca s hdq inv.wf k j sc ok1
    | vec d => exact pair_cv s inv hdq k ok1 d
    | share d => exact pair_cs s hdq k ok1 d
  | ans j sc =>
    cases k2 with
    | noop => exact (noop_any s _).symm'
    | disq => exact absurd hc (by simp [Compat])
    | cmpl k => exact (pair_ca s hdq inv.wf k j sc ok2).symm'
    | ans j' sc' => exact absurd hc (by simp [Compat])
    | vec d => exact absurd hc (by simp [Compat])
    | share d => exact pair_as s inv hdq j sc d
  | vec d =>
    cases k2 with
    | noop => exact (noop_any s _).symm'
    | disq => exact absurd hc (by simp [Compat])
    | cmpl k => exact (pair_cv s inv hdq k ok2 d).symm'
    | ans j sc => exact absurd hc (by simp [Compat])
    | vec d' => exact absurd hc (by simp [Compat])
    | share sh => exact pair_vs s inv hdq d sh
  | share sh =>
    cases k2 with
    | noop => exact (noop_any s _).symm'
    | disq => exact (disq_any s hdq _).symm'
    | cmpl k => exact (pair_cs s hdq k ok2 sh).symm'
    | ans j sc => exact (pair_as s inv hdq j sc sh).symm'
    | vec d => exact (pair_vs s inv hdq d sh).symm'
    | share sh' => exact absurd hc (by simp [Compat])

/-! ### from deliveries to kinds -/

/-- where a kind of delivery comes from: sender and channel (`none`: ignored anyway) -/
def src (s : St O) : Kind → Option (Nat × Bool)
  | .noop => none
  | .disq => some (s.dealer, false)
  | .cmpl k => some (k, false)
  | .ans _ _ => some (s.dealer, false)
  | .vec _ => some (s.dealer, false)
  | .share _ => some (s.dealer, true)

theorem compat_of_src (s : St O) (k1 k2 : Kind) (h : src s k1 = none ∨ src s k2 = none ∨ src s k1 ≠ src s k2) :
    Compat k1 k2 := by
  cases k1 <;> cases k2 <;> simp [Compat, src] at h ⊢
  · intro hk; exact h hk

theorem classifyB_src (s : St O) (o : Nat) (m : Bytes) :
    (src s (classifyB s o m) = none ∨ src s (classifyB s o m) = some (o, false)) ∧ KOK s (classifyB s o m) := by
  unfold classifyB
  repeat' (first | split | (simp only []; split))
  all_goals (simp_all [src, KOK])
  all_goals (intro h; simp_all)

theorem classify_src (s : St O) (e : Dl) :
    (src s (classify s e) = none ∨ src s (classify s e) = some (e.sender, e.isPriv)) ∧ KOK s (classify s e) := by
  cases e with
  | bcast o m => exact classifyB_src s o m
  | priv o m =>
    have hc : classify s (Dl.priv o m) = (if s.me = o then Kind.noop else if o = s.dealer then Kind.share m else Kind.noop) := rfl
    rw [hc]
    by_cases h1 : s.me = o
    · rw [if_pos h1]; exact ⟨Or.inl rfl, trivial⟩
    · rw [if_neg h1]
      by_cases h2 : o = s.dealer
      · rw [if_pos h2]
        refine ⟨Or.inr ?_, trivial⟩
        show some (s.dealer, true) = some (o, true)
        rw [h2]
      · rw [if_neg h2]; exact ⟨Or.inl rfl, trivial⟩

theorem compat_of_reorderable (s : St O) (e1 e2 : Dl) (h : reorderable e1 e2) :
    Compat (classify s e1) (classify s e2) ∧ KOK s (classify s e1) ∧ KOK s (classify s e2) := by
  obtain ⟨a1, b1⟩ := classify_src s e1
  obtain ⟨a2, b2⟩ := classify_src s e2
  refine ⟨compat_of_src s _ _ ?_, b1, b2⟩
  rcases a1 with a1 | a1
  · exact Or.inl a1
  rcases a2 with a2 | a2
  · exact Or.inr (Or.inl a2)
  right; right
  rw [a1, a2]
  intro heq
  have h1 : e1.sender = e2.sender := congrArg Prod.fst (Option.some.inj heq)
  have h2 : e1.isPriv = e2.isPriv := congrArg Prod.snd (Option.some.inj heq)
  rcases h with h | h
  · exact h h1
  · exact h h2


theorem interp_cfg (s : St O) (k : Kind) : SameCfg s (interp s k) := by
  cases k with
  | noop => exact SameCfg.rfl' s
  | disq => exact ⟨rfl, rfl, rfl, rfl, rfl, rfl, rfl⟩
  | cmpl k => exact rcOk_cfg s k
  | ans j sc => exact raOk_cfg s j sc
  | vec d => exact rv_cfg s s.dealer d
  | share d => exact rs_cfg s s.dealer d

theorem run_cfg (s : St O) (k : Kind) : SameCfg s (run s k) := by
  unfold run
  split
  · exact SameCfg.rfl' s
  · exact interp_cfg s k

/-- **any two deliveries that the network may reorder commute** at an honest participant other than the dealer:
    both orders end disqualified, or in the same state up to the order of the complaint table -/
theorem step_pair (s : St O) (inv : Inv s) (e1 e2 : Dl) (hr : reorderable e1 e2) :
    RelP (step (step s e1) e2) (step (step s e2) e1) := by
  have hme := inv.hme
  by_cases hd : s.disqualified = true
  · rw [step_disq s e1 hd hme, step_disq s e2 hd hme, step_disq s e1 hd hme]
    exact Or.inr (Equiv.refl' _)
  have hdq : s.disqualified = false := by simpa using hd
  obtain ⟨hc, ok1, ok2⟩ := compat_of_reorderable s e1 e2 hr
  have c1 := run_cfg s (classify s e1)
  have c2 := run_cfg s (classify s e2)
  rw [step_run s e1 hme, step_run s e2 hme,
    step_run _ e2 (by rw [c1.1, c1.2.1]; exact hme), step_run _ e1 (by rw [c2.1, c2.2.1]; exact hme),
    classify_cfg s _ c1, classify_cfg s _ c2]
  exact kind_pair s inv hdq _ _ hc ok1 ok2

end Proofs.DkgCommute
