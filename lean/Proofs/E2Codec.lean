import Proofs.E1Codec
import Mathlib.NumberTheory.SumTwoSquares

/-! `E2_read_bytes` / `E2_write_bytes` (compressed 96-byte serialization of E2 points over F_p²): what is
accepted re-serializes to exactly the input and is a reduced point of the curve.  Uses `p ≡ 3 (mod 4)`
(so `-1` is a non-residue and the norm form `c0² + c1²` is anisotropic) and that 32 is not a cube mod `p`
(E2 has no point with `y = 0`: norms would give `N(x)³ = N(-4(1+u)) = 32`). -/

namespace Proofs.E2Codec
open Model Model.Bls Proofs.PowMod Proofs.Primes Proofs.E1Codec

theorem add_cast (a b : Nat) : ((Fp.add p a b : Nat) : ZMod p) = (a : ZMod p) + b := by
  unfold Fp.add; rw [ZMod.natCast_mod, Nat.cast_add]

theorem mul_cast (a b : Nat) : ((Fp.mul p a b : Nat) : ZMod p) = (a : ZMod p) * b := by
  unfold Fp.mul; rw [ZMod.natCast_mod, Nat.cast_mul]

theorem sub_cast (a b : Nat) : ((Fp.sub p a b : Nat) : ZMod p) = (a : ZMod p) - b := by
  unfold Fp.sub
  rw [ZMod.natCast_mod, Nat.cast_add, Nat.cast_sub (le_of_lt (Nat.mod_lt _ p_pos)), ZMod.natCast_self,
    ZMod.natCast_mod]
  ring

theorem inv_cast (a : Nat) : ((Fp.inv p a : Nat) : ZMod p) = (a : ZMod p)⁻¹ :=
  powMod_inv p (by decide +kernel) p_bits a

theorem add_lt (a b : Nat) : Fp.add p a b < p := Nat.mod_lt _ p_pos
theorem mul_lt (a b : Nat) : Fp.mul p a b < p := Nat.mod_lt _ p_pos
theorem sub_lt (a b : Nat) : Fp.sub p a b < p := Nat.mod_lt _ p_pos

/-- norm of an element of F_p² = F_p[u]/(u²+1), in `ZMod p` -/
def norm (a : Fp2.El) : ZMod p := (a.1 : ZMod p) ^ 2 + (a.2 : ZMod p) ^ 2

theorem norm_mul (a b : Fp2.El) : norm (Fp2.mul p a b) = norm a * norm b := by
  unfold norm Fp2.mul
  simp only [sub_cast, add_cast, mul_cast]
  ring

theorem p_mod_four : p % 4 = 3 := by decide +kernel

theorem neg_one_not_sq (z : ZMod p) : z ^ 2 ≠ -1 := by
  intro h
  have : IsSquare (-1 : ZMod p) := ⟨z, by rw [← h, pow_two]⟩
  exact (ZMod.exists_sq_eq_neg_one_iff.1 this) p_mod_four

theorem sum_sq_zero (u v : ZMod p) (h : u ^ 2 + v ^ 2 = 0) : u = 0 ∧ v = 0 := by
  by_cases hv : v = 0
  · subst hv
    simp at h
    exact ⟨h, rfl⟩
  · exfalso
    apply neg_one_not_sq (u / v)
    field_simp
    linear_combination h

theorem sqrt_lt (a y : Nat) (h : Fp.sqrt? p a = some y) : y < p := (sqrt_some a y h).1

theorem sqrt_lt_gen (q : Nat) (hq : 0 < q) (a y : Nat) (h : Fp.sqrt? q a = some y) : y < q := by
  unfold Fp.sqrt? at h
  dsimp only at h
  split at h
  · have := Option.some.inj h
    rw [← this]
    unfold powMod
    exact powModAux_lt q hq _ _ _ _ (Nat.mod_lt _ hq)
  · cases h

theorem check_some (q : Nat) (a y x : Fp2.El)
    (hx : (if (Fp2.mul q x x == (a.1 % q, a.2 % q)) = true then some x else none) = some y) :
    x = y ∧ Fp2.mul q y y = (a.1 % q, a.2 % q) := by
  split at hx
  · rename_i hc
    have := Option.some.inj hx
    subst this
    exact ⟨rfl, by simpa using hc⟩
  · cases hx

/-- whatever `Fp2.sqrt?` returns is a reduced element whose square is the (reduced) input -/
theorem sqrt2_some_gen (q : Nat) (hq : 0 < q) (a y : Fp2.El) (h : Fp2.sqrt? q a = some y) :
    y.1 < q ∧ y.2 < q ∧ Fp2.mul q y y = (a.1 % q, a.2 % q) := by
  unfold Fp2.sqrt? at h
  dsimp only at h
  have hcheck := check_some q a y
  have sqrt_lt := sqrt_lt_gen q hq
  split at h
  · -- a.2 = 0
    cases h1 : Fp.sqrt? q a.1 with
    | some x =>
      rw [h1] at h
      obtain ⟨hxy, hm⟩ := hcheck _ h
      have e1 : y.1 = x := congrArg Prod.fst hxy.symm
      have e2 : y.2 = 0 := congrArg Prod.snd hxy.symm
      exact ⟨e1 ▸ sqrt_lt _ _ h1, e2 ▸ hq, hm⟩
    | none =>
      rw [h1] at h
      dsimp only at h
      cases h2 : Fp.sqrt? q (Fp.neg q a.1) with
      | some x =>
        rw [h2] at h
        obtain ⟨hxy, hm⟩ := hcheck _ h
        have e1 : y.1 = 0 := congrArg Prod.fst hxy.symm
        have e2 : y.2 = x := congrArg Prod.snd hxy.symm
        exact ⟨e1 ▸ hq, e2 ▸ sqrt_lt _ _ h2, hm⟩
      | none => rw [h2] at h; cases h
  · cases h1 : Fp.sqrt? q (Fp.add q (Fp.mul q a.1 a.1) (Fp.mul q a.2 a.2)) with
    | none => rw [h1] at h; cases h
    | some n =>
      rw [h1] at h
      dsimp only at h
      split at h
      · cases h
      · rename_i x0 hx0
        obtain ⟨hxy, hm⟩ := hcheck _ h
        have e1 : y.1 = x0 := congrArg Prod.fst hxy.symm
        have e2 := congrArg Prod.snd hxy.symm
        dsimp only at e2
        refine ⟨?_, ?_, hm⟩
        · rw [e1]
          -- x0 comes from one of the two F_p square roots
          split at hx0
          · split at hx0
            · exact sqrt_lt _ _ hx0
            · rename_i x hx _
              have := Option.some.inj hx0
              rw [← this]
              exact sqrt_lt _ _ hx
          · exact sqrt_lt _ _ hx0
        · rw [e2]; exact Nat.mod_lt _ hq

theorem sqrt2_some (a y : Fp2.El) (h : Fp2.sqrt? p a = some y) :
    y.1 < p ∧ y.2 < p ∧ Fp2.mul p y y = (a.1 % p, a.2 % p) := sqrt2_some_gen p p_pos a y h

theorem readFp2_ok (b : Bytes) (x : Fp2.El) (h : readFp2 b = .ok x) :
    b.length = 96 ∧ x.1 < p ∧ x.2 < p ∧ x.1 = beNat (b.take 48) ∧ x.2 = beNat (b.drop 48) := by
  unfold readFp2 at h
  split at h
  · cases h
  rename_i hl
  cases h1 : readFp (b.take 48) with
  | error e => rw [h1] at h; cases h
  | ok c0 =>
    rw [h1] at h
    dsimp only at h
    cases h2 : readFp (b.drop 48) with
    | error e => rw [h2] at h; cases h
    | ok c1 =>
      rw [h2] at h
      dsimp only at h
      have h := Except.ok.inj h
      obtain ⟨_, a1, a2⟩ := readFp_ok _ _ h1
      obtain ⟨_, b1, b2⟩ := readFp_ok _ _ h2
      have e1 : x.1 = c0 := congrArg Prod.fst h.symm
      have e2 : x.2 = c1 := congrArg Prod.snd h.symm
      exact ⟨by omega, e1 ▸ a1, e2 ▸ b1, e1 ▸ a2, e2 ▸ b2⟩

theorem thirty_two_not_cube (n : ZMod p) : n ^ 3 ≠ 32 := by
  intro h
  have h32 : ((32 : Nat) : ZMod p) = 32 := by norm_cast
  have hne : (32 : ZMod p) ≠ 0 := by
    rw [← h32]
    intro hc
    rw [ZMod.natCast_eq_zero_iff] at hc
    have : p ≤ 32 := Nat.le_of_dvd (by norm_num) hc
    exact absurd this (by decide +kernel)
  have hn : n ≠ 0 := by
    intro hn; rw [hn] at h; apply hne; rw [← h]; norm_num
  have h2 : n ^ (p - 1) = 1 := ZMod.pow_card_sub_one_eq_one hn
  have h3 : ((32 : Nat) : ZMod p) ^ ((p - 1) / 3) = 1 := by
    rw [h32, ← h, ← pow_mul]
    have : 3 * ((p - 1) / 3) = p - 1 := by decide +kernel
    rw [this, h2]
  exact powMod_ne_one (a := 32) (e := (p - 1) / 3) (m := p) p_gt_one (by decide +kernel) (by decide +kernel) h3

/-- E2 has no point with `y = 0`: `x³ + 4(1+u) ≠ 0` in F_p² (norms: `N(x)³ = 32` is impossible) -/
theorem no_y_zero2 (x : Fp2.El) :
    ¬ ((Fp2.add p (Fp2.mul p (Fp2.mul p x x) x) (4, 4)).1 % p = 0 ∧
       (Fp2.add p (Fp2.mul p (Fp2.mul p x x) x) (4, 4)).2 % p = 0) := by
  rintro ⟨h1, h2⟩
  set X := Fp2.mul p (Fp2.mul p x x) x with hX
  have hn : norm X = norm x ^ 3 := by rw [hX, norm_mul, norm_mul]; ring
  have c1 : (X.1 : ZMod p) = -4 := by
    have : (((Fp2.add p X (4, 4)).1 % p : Nat) : ZMod p) = 0 := by rw [h1]; simp
    rw [ZMod.natCast_mod] at this
    unfold Fp2.add at this
    dsimp only at this
    rw [add_cast] at this
    have h4 : ((4 : Nat) : ZMod p) = 4 := by norm_cast
    rw [h4] at this
    linear_combination this
  have c2 : (X.2 : ZMod p) = -4 := by
    have : (((Fp2.add p X (4, 4)).2 % p : Nat) : ZMod p) = 0 := by rw [h2]; simp
    rw [ZMod.natCast_mod] at this
    unfold Fp2.add at this
    dsimp only at this
    rw [add_cast] at this
    have h4 : ((4 : Nat) : ZMod p) = 4 := by norm_cast
    rw [h4] at this
    linear_combination this
  apply thirty_two_not_cube (norm x)
  rw [← hn]
  unfold norm
  rw [c1, c2]; norm_num

theorem sign_le2 (y : Fp2.El) : Fp2.sign p y ≤ 1 := by
  unfold Fp2.sign; split <;> exact sign_le _

theorem fneg_zero : Fp.neg p 0 = 0 := by decide +kernel

theorem fneg_ne_zero (y : Nat) (h0 : 0 < y) (hy : y < p) : Fp.neg p y ≠ 0 := by
  unfold Fp.neg
  rw [Nat.mod_eq_of_lt hy, Nat.mod_eq_of_lt (by omega)]
  omega

theorem sign_neg2 (y : Fp2.El) (h1 : y.1 < p) (h2 : y.2 < p) (hne : ¬ (y.1 = 0 ∧ y.2 = 0)) :
    Fp2.sign p (Fp2.neg p y) = 1 - Fp2.sign p y := by
  unfold Fp2.sign Fp2.neg
  dsimp only
  by_cases hz : y.2 = 0
  · rw [hz, fneg_zero, if_pos rfl, if_pos rfl]
    exact sign_neg y.1 (by omega) h1
  · rw [if_neg (fneg_ne_zero y.2 (by omega) h2), if_neg hz]
    exact sign_neg y.2 (by omega) h2

theorem mul_zero_zero : Fp2.mul p (0, 0) (0, 0) = (0, 0) := by decide +kernel

/-- **canonical**: whatever `E2_read_bytes` accepts re-serializes to exactly the input bytes -/
theorem e2_canonical (b : Bytes) (P : P2) (h : readE2 b = .ok P) : writeE2 P = b := by
  unfold readE2 at h
  by_cases hl : b.length ≠ 96
  · rw [if_pos hl] at h; cases h
  rw [if_neg hl] at h
  have hlen : b.length = 96 := by omega
  obtain ⟨h0, t, rfl⟩ : ∃ h0 t, b = h0 :: t := by
    cases b with
    | nil => simp at hlen
    | cons a t => exact ⟨_, _, rfl⟩
  dsimp only at h
  rw [show headByte (h0 :: t) = h0.toNat from rfl] at h
  have hlt : h0.toNat < 256 := h0.toNat_lt
  have htl : t.length = 95 := by simpa using hlen
  by_cases hc : h0.toNat / 128 ≠ 1
  · rw [if_pos hc] at h; cases h
  rw [if_neg hc] at h
  by_cases hinf : h0.toNat / 64 % 2 = 1
  · rw [if_pos hinf] at h
    by_cases hz : h0.toNat % 64 ≠ 0
    · rw [if_pos hz] at h; cases h
    rw [if_neg hz] at h
    by_cases ht : (List.drop 1 (h0 :: t)).any (· ≠ 0) = true
    · rw [if_pos ht] at h; cases h
    rw [if_neg ht] at h
    have h := Except.ok.inj h
    subst h
    have := header_inf h0.toNat hlt (by omega) hinf (by omega)
    have h0c : h0 = 0xC0 := by rw [← UInt8.ofNat_toNat (x := h0), this]; rfl
    have := all_zero t (by simpa using ht)
    rw [htl] at this
    rw [writeE2, h0c, ← this]
  · rw [if_neg hinf] at h
    cases hx : readFp2 (clearHeader (h0 :: t)) with
    | error e => rw [hx] at h; cases h
    | ok x =>
      rw [hx] at h
      dsimp only at h
      obtain ⟨_, hx1, hx2, hxe1, hxe2⟩ := readFp2_ok _ _ hx
      cases hs : Fp2.sqrt? p (E2.f.add (E2.f.mul (E2.f.mul x x) x) E2.b) with
      | none => rw [hs] at h; cases h
      | some y =>
        rw [hs] at h
        dsimp only at h
        have h := Except.ok.inj h
        subst h
        obtain ⟨hy1, hy2, hyy⟩ := sqrt2_some _ _ hs
        have hyne : ¬ (y.1 = 0 ∧ y.2 = 0) := by
          rintro ⟨z1, z2⟩
          have hy : y = (0, 0) := Prod.ext z1 z2
          rw [hy, mul_zero_zero] at hyy
          exact no_y_zero2 x ⟨(congrArg Prod.fst hyy).symm, (congrArg Prod.snd hyy).symm⟩
        have hsign : Fp2.sign p (if Fp2.sign p y ≠ h0.toNat / 32 % 2 then Fp2.neg p y else y) = h0.toNat / 32 % 2 := by
          by_cases hne : Fp2.sign p y ≠ h0.toNat / 32 % 2
          · rw [if_pos hne, sign_neg2 y hy1 hy2 hyne]
            have := sign_le2 y
            omega
          · rw [if_neg hne]; omega
        unfold writeE2
        dsimp only
        rw [hsign, hxe1, hxe2]
        have hch : clearHeader (h0 :: t) = (h0 &&& 0x1F) :: t := rfl
        have hl96 : (clearHeader (h0 :: t)).length = 96 := by rw [hch]; simp [htl]
        have hn1 := Model.natBE_beNat ((clearHeader (h0 :: t)).take 48)
        have hn2 := Model.natBE_beNat ((clearHeader (h0 :: t)).drop 48)
        rw [List.length_take, hl96, show min 48 96 = 48 from rfl] at hn1
        rw [List.length_drop, hl96, show 96 - 48 = 48 from rfl] at hn2
        rw [hn1, hn2, List.take_append_drop, hch]
        dsimp only
        have := header_recombine h0.toNat hlt (by omega) hinf
        rw [UInt8.ofNat_toNat] at this
        rw [this]

theorem el_ext (a b : Fp2.El) (ha1 : a.1 < p) (ha2 : a.2 < p) (hb1 : b.1 < p) (hb2 : b.2 < p)
    (h1 : (a.1 : ZMod p) = b.1) (h2 : (a.2 : ZMod p) = b.2) : a = b :=
  Prod.ext (eq_of_cast_eq _ _ ha1 hb1 h1) (eq_of_cast_eq _ _ ha2 hb2 h2)

theorem mul2_lt (a b : Fp2.El) : (Fp2.mul p a b).1 < p ∧ (Fp2.mul p a b).2 < p := ⟨sub_lt _ _, add_lt _ _⟩

theorem mul2_cast (a b : Fp2.El) :
    ((Fp2.mul p a b).1 : ZMod p) = (a.1 : ZMod p) * b.1 - (a.2 : ZMod p) * b.2 ∧
    ((Fp2.mul p a b).2 : ZMod p) = (a.1 : ZMod p) * b.2 + (a.2 : ZMod p) * b.1 := by
  unfold Fp2.mul
  simp only [sub_cast, add_cast, mul_cast]
  exact ⟨trivial, trivial⟩

theorem neg2_cast (a : Fp2.El) :
    ((Fp2.neg p a).1 : ZMod p) = -(a.1 : ZMod p) ∧ ((Fp2.neg p a).2 : ZMod p) = -(a.2 : ZMod p) :=
  ⟨neg_cast _, neg_cast _⟩

theorem neg2_lt (a : Fp2.El) : (Fp2.neg p a).1 < p ∧ (Fp2.neg p a).2 < p := ⟨fneg_lt _, fneg_lt _⟩

theorem neg2_sq (y : Fp2.El) : Fp2.mul p (Fp2.neg p y) (Fp2.neg p y) = Fp2.mul p y y := by
  apply el_ext _ _ (mul2_lt _ _).1 (mul2_lt _ _).2 (mul2_lt _ _).1 (mul2_lt _ _).2
  · rw [(mul2_cast _ _).1, (mul2_cast _ _).1, (neg2_cast _).1, (neg2_cast _).2]; ring
  · rw [(mul2_cast _ _).2, (mul2_cast _ _).2, (neg2_cast _).1, (neg2_cast _).2]; ring

/-- the right-hand side of the curve equation of E2, `x³ + 4(1+u)`, as the code computes it -/
def rhs (x : Fp2.El) : Fp2.El := Fp2.add p (Fp2.mul p (Fp2.mul p x x) x) (4, 4)

theorem rhs_lt (x : Fp2.El) : (rhs x).1 < p ∧ (rhs x).2 < p := ⟨add_lt _ _, add_lt _ _⟩

/-- reduced affine point of `y² = x³ + 4(1+u)` over F_p², or the point at infinity -/
def Valid (P : P2) : Prop :=
  ∀ x y, P = some (x, y) → x.1 < p ∧ x.2 < p ∧ y.1 < p ∧ y.2 < p ∧ Fp2.mul p y y = rhs x

/-- whatever is accepted is a reduced point of the curve -/
theorem e2_accepts_valid (b : Bytes) (P : P2) (h : readE2 b = .ok P) : Valid P := by
  intro x y hP
  subst hP
  unfold readE2 at h
  dsimp only at h
  split at h
  · cases h
  split at h
  · cases h
  split at h
  · split at h
    · cases h
    split at h
    · cases h
    · cases h
  cases hx : readFp2 (clearHeader b) with
  | error e => rw [hx] at h; cases h
  | ok x' =>
    rw [hx] at h
    dsimp only at h
    cases hs : Fp2.sqrt? p (E2.f.add (E2.f.mul (E2.f.mul x' x') x') E2.b) with
    | none => rw [hs] at h; cases h
    | some y' =>
      rw [hs] at h
      have h := Except.ok.inj h
      have h := Option.some.inj h
      obtain ⟨_, hx1, hx2, _, _⟩ := readFp2_ok _ _ hx
      obtain ⟨hy1, hy2, hyy⟩ := sqrt2_some _ _ hs
      have hrhs : E2.f.add (E2.f.mul (E2.f.mul x' x') x') E2.b = rhs x' := rfl
      rw [hrhs, Nat.mod_eq_of_lt (rhs_lt x').1, Nat.mod_eq_of_lt (rhs_lt x').2] at hyy
      have hx' : x' = x := congrArg Prod.fst h
      have hy' := congrArg Prod.snd h
      dsimp only at hy'
      subst hx'
      refine ⟨hx1, hx2, ?_, ?_, ?_⟩
      · rw [← hy']; split
        · exact (neg2_lt _).1
        · exact hy1
      · rw [← hy']; split
        · exact (neg2_lt _).2
        · exact hy2
      · rw [← hy']; split
        · rw [neg2_sq]; exact hyy
        · exact hyy


/-! ### completeness of the F_p² square root -/

theorem sqrt2_branchA (q : Nat) (a : Fp2.El) (x : Nat) (h2 : a.2 % q = 0) (h1 : Fp.sqrt? q a.1 = some x)
    (hc : Fp2.mul q (x, 0) (x, 0) = (a.1 % q, a.2 % q)) : Fp2.sqrt? q a = some (x, 0) := by
  unfold Fp2.sqrt?
  dsimp only
  rw [if_pos h2, h1]
  dsimp only
  rw [if_pos (by rw [hc]; exact beq_self_eq_true _)]

theorem sqrt2_branchB (q : Nat) (a : Fp2.El) (x : Nat) (h2 : a.2 % q = 0) (h1 : Fp.sqrt? q a.1 = none)
    (h3 : Fp.sqrt? q (Fp.neg q a.1) = some x)
    (hc : Fp2.mul q (0, x) (0, x) = (a.1 % q, a.2 % q)) : Fp2.sqrt? q a = some (0, x) := by
  unfold Fp2.sqrt?
  dsimp only
  rw [if_pos h2, h1]
  dsimp only
  rw [h3]
  dsimp only
  rw [if_pos (by rw [hc]; exact beq_self_eq_true _)]

theorem sqrt2_branchC (q : Nat) (a : Fp2.El) (n x0 : Nat) (h2 : ¬ a.2 % q = 0)
    (hn : Fp.sqrt? q (Fp.add q (Fp.mul q a.1 a.1) (Fp.mul q a.2 a.2)) = some n)
    (hp : (Fp.sqrt? q (Fp.mul q (Fp.add q a.1 n) (Fp.inv q 2)) = some x0 ∧ x0 ≠ 0) ∨
          (Fp.sqrt? q (Fp.mul q (Fp.add q a.1 n) (Fp.inv q 2)) = none ∧
           Fp.sqrt? q (Fp.mul q (Fp.sub q a.1 n) (Fp.inv q 2)) = some x0))
    (hc : Fp2.mul q (x0, Fp.mul q a.2 (Fp.inv q (Fp.mul q 2 x0))) (x0, Fp.mul q a.2 (Fp.inv q (Fp.mul q 2 x0))) =
      (a.1 % q, a.2 % q)) :
    Fp2.sqrt? q a = some (x0, Fp.mul q a.2 (Fp.inv q (Fp.mul q 2 x0))) := by
  unfold Fp2.sqrt?
  dsimp only
  rw [if_neg h2, hn]
  dsimp only
  rcases hp with ⟨h1, hne⟩ | ⟨h1, h3⟩
  · rw [h1]
    dsimp only
    rw [if_neg hne]
    dsimp only
    rw [if_pos (by rw [hc]; exact beq_self_eq_true _)]
  · rw [h1]
    dsimp only
    rw [h3]
    dsimp only
    rw [if_pos (by rw [hc]; exact beq_self_eq_true _)]

theorem two_ne_zero' : (2 : ZMod p) ≠ 0 := by
  have h2 : ((2 : Nat) : ZMod p) = 2 := by norm_cast
  rw [← h2]
  intro hc
  rw [ZMod.natCast_eq_zero_iff] at hc
  have : p ≤ 2 := Nat.le_of_dvd (by norm_num) hc
  exact absurd this (by decide +kernel)

/-- F_p square root, completeness: a reduced non-zero square has a root, equal to `±z` -/
theorem sqrtF_of_sq (a : Nat) (ha : a < p) (z : ZMod p) (hz : z ≠ 0) (h : (a : ZMod p) = z ^ 2) :
    ∃ x, Fp.sqrt? p a = some x ∧ x < p ∧ ((x : ZMod p) = z ∨ (x : ZMod p) = -z) := by
  have hv : z.val < p := ZMod.val_lt z
  have hv0 : 0 < z.val := by
    rcases Nat.eq_zero_or_pos z.val with h0 | h0
    · exact absurd ((ZMod.val_eq_zero z).1 h0) hz
    · exact h0
  have hsq : z.val * z.val % p = a := by
    have : ((z.val * z.val : Nat) : ZMod p) = (a : ZMod p) := by
      rw [Nat.cast_mul, ZMod.natCast_zmod_val, h, pow_two]
    have := (ZMod.natCast_eq_natCast_iff _ _ _).1 this
    rw [Nat.ModEq, Nat.mod_eq_of_lt ha] at this
    exact this
  obtain ⟨y0, h1, h2⟩ := sqrt_of_square a z.val hv0 hv hsq
  refine ⟨y0, h1, (sqrt_some _ _ h1).1, ?_⟩
  rcases h2 with rfl | rfl
  · left; exact ZMod.natCast_zmod_val z
  · right; rw [neg_cast, ZMod.natCast_zmod_val]

/-- F_p square root, soundness of `none`: a non-square has no root -/
theorem sqrtF_none (a : Nat) (ha : a < p) (h : ∀ w : ZMod p, w ^ 2 ≠ (a : ZMod p)) : Fp.sqrt? p a = none := by
  cases hs : Fp.sqrt? p a with
  | none => rfl
  | some x =>
    exfalso
    obtain ⟨_, hxx⟩ := sqrt_some _ _ hs
    apply h (x : ZMod p)
    have : ((x * x % p : Nat) : ZMod p) = ((a % p : Nat) : ZMod p) := by rw [hxx]
    rw [ZMod.natCast_mod, ZMod.natCast_mod, Nat.cast_mul] at this
    rw [pow_two, this]

theorem neg_sq_not_sq (z : ZMod p) (hz : z ≠ 0) (w : ZMod p) : w ^ 2 ≠ -z ^ 2 := by
  intro h
  apply neg_one_not_sq (w / z)
  field_simp
  linear_combination h

/-- F_p² is a domain: equal squares differ by a sign -/
theorem sq_eq_sq2 (u0 u1 v0 v1 : ZMod p) (h0 : u0 * u0 - u1 * u1 = v0 * v0 - v1 * v1)
    (h1 : u0 * u1 + u1 * u0 = v0 * v1 + v1 * v0) :
    (u0 = v0 ∧ u1 = v1) ∨ (u0 = -v0 ∧ u1 = -v1) := by
  have hN : ((u0 - v0) ^ 2 + (u1 - v1) ^ 2) * ((u0 + v0) ^ 2 + (u1 + v1) ^ 2) = 0 := by
    have e : ((u0 - v0) ^ 2 + (u1 - v1) ^ 2) * ((u0 + v0) ^ 2 + (u1 + v1) ^ 2) =
        ((u0 * u0 - u1 * u1) - (v0 * v0 - v1 * v1)) ^ 2 + ((u0 * u1 + u1 * u0) - (v0 * v1 + v1 * v0)) ^ 2 := by ring
    rw [e, h0, h1]; ring
  rcases mul_eq_zero.1 hN with h | h
  · left
    obtain ⟨a, b⟩ := sum_sq_zero _ _ h
    exact ⟨sub_eq_zero.1 a, sub_eq_zero.1 b⟩
  · right
    obtain ⟨a, b⟩ := sum_sq_zero _ _ h
    exact ⟨eq_neg_of_add_eq_zero_left a, eq_neg_of_add_eq_zero_left b⟩

theorem cand_sq (Y0 Y1 X0 : ZMod p) (hY0 : Y0 ≠ 0) (hX : X0 * X0 = Y0 * Y0) :
    X0 * X0 - ((Y0 * Y1 + Y1 * Y0) * (2 * X0)⁻¹) * ((Y0 * Y1 + Y1 * Y0) * (2 * X0)⁻¹) = Y0 * Y0 - Y1 * Y1 ∧
    X0 * ((Y0 * Y1 + Y1 * Y0) * (2 * X0)⁻¹) + ((Y0 * Y1 + Y1 * Y0) * (2 * X0)⁻¹) * X0 = Y0 * Y1 + Y1 * Y0 := by
  have hX0 : X0 ≠ 0 := by
    intro h; rw [h] at hX
    have : Y0 * Y0 = 0 := by rw [← hX]; ring
    exact hY0 (mul_self_eq_zero.1 this)
  have h2 := two_ne_zero'
  have h2x : (2 * X0) ≠ 0 := mul_ne_zero h2 hX0
  set C := (Y0 * Y1 + Y1 * Y0) * (2 * X0)⁻¹ with hC
  have hC2 : C * (2 * X0) = Y0 * Y1 + Y1 * Y0 := by rw [hC, mul_assoc, inv_mul_cancel₀ h2x, mul_one]
  have hCC : C * C = Y1 * Y1 := by
    have e : (C * C) * (4 * (Y0 * Y0)) = (Y1 * Y1) * (4 * (Y0 * Y0)) := by
      have : (C * C) * (4 * (Y0 * Y0)) = (C * (2 * X0)) * (C * (2 * X0)) := by rw [← hX]; ring
      rw [this, hC2]; ring
    have h4 : (4 * (Y0 * Y0) : ZMod p) ≠ 0 := by
      have : (4 : ZMod p) = 2 * 2 := by norm_num
      rw [this]
      exact mul_ne_zero (mul_ne_zero h2 h2) (mul_ne_zero hY0 hY0)
    exact mul_right_cancel₀ h4 e
  constructor
  · rw [hCC, hX]
  · have : X0 * C + C * X0 = C * (2 * X0) := by ring
    rw [this, hC2]

theorem cast_zero_iff (a : Nat) (ha : a < p) : (a : ZMod p) = 0 ↔ a = 0 := by
  constructor
  · intro h; exact eq_of_cast_eq a 0 ha p_pos (by simpa using h)
  · intro h; rw [h]; simp

theorem two_cast : ((2 : Nat) : ZMod p) = 2 := by norm_cast

/-- existence half: the square of a non-zero reduced element has a root according to `Fp2.sqrt?` -/
theorem sqrt2_exists (y : Fp2.El) (hy1 : y.1 < p) (hy2 : y.2 < p) (hne : ¬ (y.1 = 0 ∧ y.2 = 0)) :
    ∃ y0, Fp2.sqrt? p (Fp2.mul p y y) = some y0 := by
  obtain ⟨hc0, hc1⟩ := mul2_cast y y
  obtain ⟨ha1, ha2⟩ := mul2_lt y y
  generalize ha : Fp2.mul p y y = a at hc0 hc1 ha1 ha2
  generalize hY0 : (y.1 : ZMod p) = Y0 at hc0 hc1
  generalize hY1 : (y.2 : ZMod p) = Y1 at hc0 hc1
  have hne' : ¬ (Y0 = 0 ∧ Y1 = 0) := by
    rintro ⟨h0, h1⟩
    rw [← hY0, cast_zero_iff _ hy1] at h0
    rw [← hY1, cast_zero_iff _ hy2] at h1
    exact hne ⟨h0, h1⟩
  have hmod : (a.1 % p, a.2 % p) = a := by rw [Nat.mod_eq_of_lt ha1, Nat.mod_eq_of_lt ha2]
  have h2 := two_ne_zero'
  by_cases hA : a.2 = 0
  · -- imaginary part zero: y is real or purely imaginary
    have hA1 : Y0 * Y1 + Y1 * Y0 = 0 := by rw [← hc1, hA]; simp
    have hprod : Y0 * Y1 = 0 := by
      have : 2 * (Y0 * Y1) = 0 := by rw [← hA1]; ring
      exact (mul_eq_zero.1 this).resolve_left h2
    have hmodz : a.2 % p = 0 := by rw [hA]; rfl
    rcases mul_eq_zero.1 hprod with hz | hz
    · -- Y0 = 0: a.1 = -Y1²
      have hY1ne : Y1 ≠ 0 := fun h => hne' ⟨hz, h⟩
      have hA0 : (a.1 : ZMod p) = -Y1 ^ 2 := by rw [hc0, hz]; ring
      have hnone : Fp.sqrt? p a.1 = none :=
        sqrtF_none a.1 ha1 (fun w => by rw [hA0]; exact neg_sq_not_sq Y1 hY1ne w)
      obtain ⟨x, hx, hxl, hxv⟩ := sqrtF_of_sq (Fp.neg p a.1) (fneg_lt _) Y1 hY1ne (by rw [neg_cast, hA0]; ring)
      refine ⟨(0, x), sqrt2_branchB p a x hmodz hnone hx ?_⟩
      rw [hmod]
      apply el_ext _ _ (mul2_lt _ _).1 (mul2_lt _ _).2 ha1 ha2
      · rw [(mul2_cast _ _).1, hA0]
        dsimp only
        rcases hxv with h | h <;> rw [h] <;> simp <;> ring
      · rw [(mul2_cast _ _).2, hA]
        dsimp only
        simp
    · -- Y1 = 0: a.1 = Y0²
      have hY0ne : Y0 ≠ 0 := fun h => hne' ⟨h, hz⟩
      have hA0 : (a.1 : ZMod p) = Y0 ^ 2 := by rw [hc0, hz]; ring
      obtain ⟨x, hx, hxl, hxv⟩ := sqrtF_of_sq a.1 ha1 Y0 hY0ne hA0
      refine ⟨(x, 0), sqrt2_branchA p a x hmodz hx ?_⟩
      rw [hmod]
      apply el_ext _ _ (mul2_lt _ _).1 (mul2_lt _ _).2 ha1 ha2
      · rw [(mul2_cast _ _).1, hA0]
        dsimp only
        rcases hxv with h | h <;> rw [h] <;> simp <;> ring
      · rw [(mul2_cast _ _).2, hA]
        dsimp only
        simp
  · -- imaginary part non-zero: both components of y are non-zero
    have hA1ne : (a.2 : ZMod p) ≠ 0 := fun h => hA ((cast_zero_iff _ ha2).1 h)
    have hY0ne : Y0 ≠ 0 := by
      intro h; apply hA1ne; rw [hc1, h]; ring
    have hY1ne : Y1 ≠ 0 := by
      intro h; apply hA1ne; rw [hc1, h]; ring
    have hMne : Y0 ^ 2 + Y1 ^ 2 ≠ 0 := fun h => hY0ne (sum_sq_zero _ _ h).1
    have hmodnz : ¬ a.2 % p = 0 := by rw [Nat.mod_eq_of_lt ha2]; exact hA
    obtain ⟨n, hn, hnl, hnv⟩ := sqrtF_of_sq (Fp.add p (Fp.mul p a.1 a.1) (Fp.mul p a.2 a.2)) (add_lt _ _)
      (Y0 ^ 2 + Y1 ^ 2) hMne (by rw [add_cast, mul_cast, mul_cast, hc0, hc1]; ring)
    have hd1 : ((Fp.mul p (Fp.add p a.1 n) (Fp.inv p 2) : Nat) : ZMod p) = ((a.1 : ZMod p) + n) * 2⁻¹ := by
      rw [mul_cast, add_cast, inv_cast, two_cast]
    have hd2 : ((Fp.mul p (Fp.sub p a.1 n) (Fp.inv p 2) : Nat) : ZMod p) = ((a.1 : ZMod p) - n) * 2⁻¹ := by
      rw [mul_cast, sub_cast, inv_cast, two_cast]
    have hpick : ∃ x0, x0 < p ∧ ((x0 : ZMod p) = Y0 ∨ (x0 : ZMod p) = -Y0) ∧
        ((Fp.sqrt? p (Fp.mul p (Fp.add p a.1 n) (Fp.inv p 2)) = some x0 ∧ x0 ≠ 0) ∨
         (Fp.sqrt? p (Fp.mul p (Fp.add p a.1 n) (Fp.inv p 2)) = none ∧
          Fp.sqrt? p (Fp.mul p (Fp.sub p a.1 n) (Fp.inv p 2)) = some x0)) := by
      rcases hnv with hnv | hnv
      · -- n = M: d1 = Y0²
        have e1 : ((Fp.mul p (Fp.add p a.1 n) (Fp.inv p 2) : Nat) : ZMod p) = Y0 ^ 2 := by
          rw [hd1, hnv, hc0]; field_simp; ring
        obtain ⟨x0, hx0, hx0l, hx0v⟩ := sqrtF_of_sq _ (mul_lt _ _) Y0 hY0ne e1
        refine ⟨x0, hx0l, hx0v, Or.inl ⟨hx0, ?_⟩⟩
        intro hz
        rw [hz] at hx0v
        rcases hx0v with h | h
        · exact hY0ne (by simpa using h.symm)
        · exact hY0ne (by simpa using h.symm)
      · -- n = -M: d1 = -Y1², d2 = Y0²
        have e1 : ((Fp.mul p (Fp.add p a.1 n) (Fp.inv p 2) : Nat) : ZMod p) = -Y1 ^ 2 := by
          rw [hd1, hnv, hc0]; field_simp; ring
        have e2 : ((Fp.mul p (Fp.sub p a.1 n) (Fp.inv p 2) : Nat) : ZMod p) = Y0 ^ 2 := by
          rw [hd2, hnv, hc0]; field_simp; ring
        have hnone := sqrtF_none _ (mul_lt (Fp.add p a.1 n) (Fp.inv p 2))
          (fun w => by rw [e1]; exact neg_sq_not_sq Y1 hY1ne w)
        obtain ⟨x0, hx0, hx0l, hx0v⟩ := sqrtF_of_sq _ (mul_lt _ _) Y0 hY0ne e2
        exact ⟨x0, hx0l, hx0v, Or.inr ⟨hnone, hx0⟩⟩
    obtain ⟨x0, hx0l, hx0v, hp⟩ := hpick
    refine ⟨_, sqrt2_branchC p a n x0 hmodnz hn hp ?_⟩
    rw [hmod]
    have hXX : (x0 : ZMod p) * x0 = Y0 * Y0 := by rcases hx0v with h | h <;> rw [h] <;> ring
    obtain ⟨c1, c2⟩ := cand_sq Y0 Y1 (x0 : ZMod p) hY0ne hXX
    have hC : ((Fp.mul p a.2 (Fp.inv p (Fp.mul p 2 x0)) : Nat) : ZMod p) =
        (Y0 * Y1 + Y1 * Y0) * (2 * (x0 : ZMod p))⁻¹ := by
      rw [mul_cast, inv_cast, mul_cast, two_cast, hc1]
    apply el_ext _ _ (mul2_lt _ _).1 (mul2_lt _ _).2 ha1 ha2
    · rw [(mul2_cast _ _).1]
      dsimp only
      rw [hC, c1, hc0]
    · rw [(mul2_cast _ _).2]
      dsimp only
      rw [hC, c2, hc1]

/-- **completeness of the F_p² square root**: for a non-zero reduced `y`, `Fp2.sqrt? (y²)` is `y` or `-y` -/
theorem sqrt2_of_square (y : Fp2.El) (hy1 : y.1 < p) (hy2 : y.2 < p) (hne : ¬ (y.1 = 0 ∧ y.2 = 0)) :
    ∃ y0, Fp2.sqrt? p (Fp2.mul p y y) = some y0 ∧ (y0 = y ∨ y0 = Fp2.neg p y) := by
  obtain ⟨y0, h⟩ := sqrt2_exists y hy1 hy2 hne
  refine ⟨y0, h, ?_⟩
  obtain ⟨b1, b2, hsq⟩ := sqrt2_some _ _ h
  rw [Nat.mod_eq_of_lt (mul2_lt y y).1, Nat.mod_eq_of_lt (mul2_lt y y).2] at hsq
  have e0 := congrArg (fun e : Fp2.El => (e.1 : ZMod p)) hsq
  have e1 := congrArg (fun e : Fp2.El => (e.2 : ZMod p)) hsq
  dsimp only at e0 e1
  rw [(mul2_cast _ _).1, (mul2_cast _ _).1] at e0
  rw [(mul2_cast _ _).2, (mul2_cast _ _).2] at e1
  rcases sq_eq_sq2 _ _ _ _ e0 e1 with ⟨h0, h1⟩ | ⟨h0, h1⟩
  · left; exact el_ext _ _ b1 b2 hy1 hy2 h0 h1
  · right
    exact el_ext _ _ b1 b2 (neg2_lt y).1 (neg2_lt y).2 (by rw [(neg2_cast y).1, h0]) (by rw [(neg2_cast y).2, h1])

theorem neg2_neg2 (y : Fp2.El) (hy1 : y.1 < p) (hy2 : y.2 < p) : Fp2.neg p (Fp2.neg p y) = y :=
  Prod.ext (neg_neg' _ hy1) (neg_neg' _ hy2)

theorem beNat_append (a b : Bytes) : beNat (a ++ b) = beNat a * 256 ^ b.length + beNat b := by
  unfold beNat
  rw [List.foldl_append, beNat_foldl, beNat_foldl b 0]
  simp

/-- **round trip**: every reduced affine point of E2 (and the point at infinity) serializes to bytes that
    `E2_read_bytes` maps back to the same point -/
theorem e2_roundtrip (P : P2) (hP : Valid P) : readE2 (writeE2 P) = .ok P := by
  cases P with
  | none => decide +kernel
  | some xy =>
    obtain ⟨x, y⟩ := xy
    obtain ⟨hx1, hx2, hy1, hy2, hcurve⟩ := hP x y rfl
    have hyne : ¬ (y.1 = 0 ∧ y.2 = 0) := by
      rintro ⟨z1, z2⟩
      have hy : y = (0, 0) := Prod.ext z1 z2
      rw [hy, mul_zero_zero] at hcurve
      apply no_y_zero2 x
      have e1 : (rhs x).1 = 0 := (congrArg Prod.fst hcurve).symm
      have e2 : (rhs x).2 = 0 := (congrArg Prod.snd hcurve).symm
      unfold rhs at e1 e2
      rw [e1, e2]
      exact ⟨rfl, rfl⟩
    have hlen1 := natBE_length 48 x.1
    have hlen2 := natBE_length 48 x.2
    obtain ⟨h0, t1, hht⟩ : ∃ h0 t, natBE 48 x.1 = h0 :: t := by
      cases hn : natBE 48 x.1 with
      | nil => rw [hn] at hlen1; simp at hlen1
      | cons a t => exact ⟨_, _, rfl⟩
    have htl : t1.length = 47 := by rw [hht] at hlen1; simpa using hlen1
    have hbe : beNat (h0 :: t1) = x.1 := by
      rw [← hht, beNat_natBE]
      exact Nat.mod_eq_of_lt (lt_trans hx1 (lt_trans p_lt (by decide +kernel)))
    have hbe2 : beNat (natBE 48 x.2) = x.2 := by
      rw [beNat_natBE]
      exact Nat.mod_eq_of_lt (lt_trans hx2 (lt_trans p_lt (by decide +kernel)))
    have hh0 : h0.toNat < 32 := by
      rw [beNat_cons, htl] at hbe
      have : x.1 < 2 ^ 381 := lt_trans hx1 p_lt
      by_contra hc
      have h32 : 32 ≤ h0.toNat := by omega
      have : 32 * 256 ^ 47 ≤ h0.toNat * 256 ^ 47 := Nat.mul_le_mul_right _ h32
      have e : (32 : Nat) * 256 ^ 47 = 2 ^ 381 := by decide +kernel
      omega
    have hs : Fp2.sign p y < 2 := by have := sign_le2 y; omega
    obtain ⟨f1, f2, f3, f4⟩ := header_build h0.toNat hh0 (Fp2.sign p y) hs
    rw [UInt8.ofNat_toNat] at f1 f2 f3 f4
    have hrx : E2.f.add (E2.f.mul (E2.f.mul x x) x) E2.b = Fp2.mul p y y := by rw [hcurve]; rfl
    obtain ⟨y0, hsq, hy0y⟩ := sqrt2_of_square y hy1 hy2 hyne
    unfold writeE2
    dsimp only
    rw [hht]
    dsimp only [List.cons_append]
    unfold readE2
    have hl96 : ((h0 ||| UInt8.ofNat (0x80 + 0x20 * Fp2.sign p y)) :: (t1 ++ natBE 48 x.2)).length = 96 := by
      simp [htl, hlen2]
    rw [if_neg (by rw [hl96]; simp)]
    dsimp only
    rw [show headByte ((h0 ||| UInt8.ofNat (0x80 + 0x20 * Fp2.sign p y)) :: (t1 ++ natBE 48 x.2)) =
      (h0 ||| UInt8.ofNat (0x80 + 0x20 * Fp2.sign p y)).toNat from rfl]
    rw [if_neg (by omega), if_neg (by omega)]
    have hch : clearHeader ((h0 ||| UInt8.ofNat (0x80 + 0x20 * Fp2.sign p y)) :: (t1 ++ natBE 48 x.2)) =
        (h0 :: t1) ++ natBE 48 x.2 := by
      show ((h0 ||| UInt8.ofNat (0x80 + 0x20 * Fp2.sign p y)) &&& 0x1F) :: (t1 ++ natBE 48 x.2) = _
      rw [f4]; rfl
    have hrd : readFp2 ((h0 :: t1) ++ natBE 48 x.2) = .ok x := by
      have hl1 : (h0 :: t1).length = 48 := by simp [htl]
      unfold readFp2
      rw [if_neg (by simp [htl, hlen2])]
      have ht : ((h0 :: t1) ++ natBE 48 x.2).take 48 = h0 :: t1 := by
        rw [List.take_append_of_le_length (by omega), List.take_of_length_le (by omega)]
      have hd : ((h0 :: t1) ++ natBE 48 x.2).drop 48 = natBE 48 x.2 := by
        rw [List.drop_append_of_le_length (by omega), List.drop_of_length_le (by omega)]; rfl
      rw [ht, hd]
      have r1 : readFp (h0 :: t1) = .ok x.1 := by
        unfold readFp; rw [if_neg (by simp [htl]), hbe, if_neg (by omega)]
      have r2 : readFp (natBE 48 x.2) = .ok x.2 := by
        unfold readFp; rw [if_neg (by simp [hlen2]), hbe2, if_neg (by omega)]
      rw [r1]
      dsimp only
      rw [r2]
    rw [hch, hrd]
    dsimp only
    rw [hrx, hsq]
    dsimp only
    rw [f3]
    rcases hy0y with rfl | rfl
    · rw [if_neg (by simp)]
    · rw [if_pos, neg2_neg2 y hy1 hy2]
      rw [sign_neg2 y hy1 hy2 hyne]; omega

/-- **accepted = canonical encodings of curve points** for E2 -/
theorem e2_accepts_iff (b : Bytes) (P : P2) : readE2 b = .ok P ↔ (Valid P ∧ writeE2 P = b) := by
  constructor
  · intro h; exact ⟨e2_accepts_valid b P h, e2_canonical b P h⟩
  · rintro ⟨hv, rfl⟩; exact e2_roundtrip P hv

theorem e2_unique_encoding (b b' : Bytes) (P : P2) (h : readE2 b = .ok P) (h' : readE2 b' = .ok P) : b = b' := by
  rw [← e2_canonical b P h, ← e2_canonical b' P h']

end Proofs.E2Codec
