import Mathlib.Tactic.Ring
import Mathlib.Tactic.NormNum
import Mathlib.Algebra.BigOperators.Group.List.Basic
import Model.Threshold

/-! The limb-batched loop of `Fr_lagrange_coeff_at_zero` computes the plain products: 8 factors below 2^8
never overflow a 64-bit limb, the batches partition the positions, the sign is the parity of the number of
nodes below `x_i`. -/

namespace Proofs.Limbs
open Model.Threshold

variable (indices : List Nat) (i : Nat)

/-- absolute difference, as the C code forms it (`x_j - x_i` or `x_i - x_j`, whichever is not negative) -/
def dist (a b : Nat) : Nat := if a < b then b - a else a - b

/-- numerator factors of the positions `js`: `Π_{j ∈ js, j ≠ i} x_j` -/
def num : List Nat → Nat
  | [] => 1
  | j :: js => if j = i then num js else indices.getD j 0 * num js

/-- denominator factors: `Π_{j ∈ js, j ≠ i} |x_j - x_i|` -/
def den : List Nat → Nat
  | [] => 1
  | j :: js => if j = i then den js else dist (indices.getD j 0) (indices.getD i 0) * den js

/-- sign flips: parity of `#{j ∈ js, j ≠ i, x_j < x_i}` -/
def flips : List Nat → Bool
  | [] => false
  | j :: js => if j = i then flips js else xor (decide (indices.getD j 0 < indices.getD i 0)) (flips js)

theorem batch_eq (js : List Nat) (n d : Nat) (sg : Bool) (hn : n < 2 ^ 64) (hd : d < 2 ^ 64) :
    batch indices i js (n, d, sg) =
      ((n * num indices i js) % 2 ^ 64, (d * den indices i js) % 2 ^ 64, xor sg (flips indices i js)) := by
  induction js generalizing n d sg with
  | nil =>
    norm_num at hn hd
    simp only [batch, num, den, flips, Nat.mul_one, Bool.xor_false]
    norm_num
    exact ⟨(Nat.mod_eq_of_lt hn).symm, (Nat.mod_eq_of_lt hd).symm⟩
  | cons j js ih =>
    unfold batch
    by_cases hji : j = i
    · simp only [hji, if_true, num, den, flips]
      exact ih n d sg hn hd
    · simp only [hji, if_false, num, den, flips]
      by_cases hlt : indices.getD j 0 < indices.getD i 0
      · simp only [hlt, if_true, decide_true]
        rw [ih _ _ _ (Nat.mod_lt _ (by norm_num)) (Nat.mod_lt _ (by norm_num))]
        refine Prod.ext ?_ (Prod.ext ?_ ?_)
        · simp only [Nat.mod_mul_mod, Nat.mul_assoc]
        · simp only [dist, hlt, if_true, Nat.mod_mul_mod, Nat.mul_assoc]
        · cases sg <;> cases flips indices i js <;> rfl
      · simp only [hlt, if_false, decide_false]
        rw [ih _ _ _ (Nat.mod_lt _ (by norm_num)) (Nat.mod_lt _ (by norm_num))]
        refine Prod.ext ?_ (Prod.ext ?_ ?_)
        · simp only [Nat.mod_mul_mod, Nat.mul_assoc]
        · simp only [dist, hlt, if_false, Nat.mod_mul_mod, Nat.mul_assoc]
        · cases sg <;> cases flips indices i js <;> rfl

theorem num_append (a b : List Nat) : num indices i (a ++ b) = num indices i a * num indices i b := by
  induction a with
  | nil => simp [num]
  | cons j a ih => by_cases h : j = i <;> simp [num, h, ih, Nat.mul_assoc]

theorem den_append (a b : List Nat) : den indices i (a ++ b) = den indices i a * den indices i b := by
  induction a with
  | nil => simp [den]
  | cons j a ih => by_cases h : j = i <;> simp [den, h, ih, Nat.mul_assoc]

theorem flips_append (a b : List Nat) : flips indices i (a ++ b) = xor (flips indices i a) (flips indices i b) := by
  induction a with
  | nil => simp [flips]
  | cons j a ih =>
    by_cases h : j = i
    · simp [flips, h, ih]
    · simp only [List.cons_append, flips, h, if_false, ih]
      cases decide (indices.getD j 0 < indices.getD i 0) <;> cases flips indices i a <;> cases flips indices i b <;> rfl

/-- a product of at most 8 factors, each at most 255, is below 2^64 -/
theorem pow_bound (k : Nat) (hk : k ≤ 8) : 255 ^ k < 2 ^ 64 :=
  lt_of_le_of_lt (Nat.pow_le_pow_right (by norm_num) hk) (by norm_num)

theorem num_le (hb : ∀ x ∈ indices, x ≤ 255) (js : List Nat) : num indices i js ≤ 255 ^ js.length := by
  induction js with
  | nil => simp [num]
  | cons j js ih =>
    have hx : indices.getD j 0 ≤ 255 := by
      rw [List.getD_eq_getElem?_getD]
      cases h : indices[j]? with
      | none => simp
      | some x => exact hb x (List.mem_of_getElem? h)
    by_cases h : j = i
    · simp only [num, h, if_true, List.length_cons, pow_succ]
      exact le_trans ih (Nat.le_mul_of_pos_right _ (by norm_num))
    · simp only [num, h, if_false, List.length_cons, pow_succ]
      rw [Nat.mul_comm (255 ^ js.length)]
      exact Nat.mul_le_mul hx ih

theorem dist_le (a b : Nat) (ha : a ≤ 255) (hb : b ≤ 255) : dist a b ≤ 255 := by
  unfold dist; split <;> omega

theorem getD_le (hb : ∀ x ∈ indices, x ≤ 255) (j : Nat) : indices.getD j 0 ≤ 255 := by
  rw [List.getD_eq_getElem?_getD]
  cases h : indices[j]? with
  | none => simp
  | some x => exact hb x (List.mem_of_getElem? h)

theorem den_le (hb : ∀ x ∈ indices, x ≤ 255) (js : List Nat) : den indices i js ≤ 255 ^ js.length := by
  induction js with
  | nil => simp [den]
  | cons j js ih =>
    by_cases h : j = i
    · simp only [den, h, if_true, List.length_cons, pow_succ]
      exact le_trans ih (Nat.le_mul_of_pos_right _ (by norm_num))
    · simp only [den, h, if_false, List.length_cons, pow_succ]
      rw [Nat.mul_comm (255 ^ js.length)]
      exact Nat.mul_le_mul (dist_le _ _ (getD_le indices hb j) (getD_le indices hb i)) ih

/-- **no overflow**: one batch of at most 8 positions returns the exact products -/
theorem batch_exact (hb : ∀ x ∈ indices, x ≤ 255) (js : List Nat) (hl : js.length ≤ 8) (sg : Bool) :
    batch indices i js (1, 1, sg) = (num indices i js, den indices i js, xor sg (flips indices i js)) := by
  rw [batch_eq indices i js 1 1 sg (by norm_num) (by norm_num)]
  have h1 := lt_of_le_of_lt (num_le indices i hb js) (pow_bound _ hl)
  have h2 := lt_of_le_of_lt (den_le indices i hb js) (pow_bound _ hl)
  simp only [Nat.one_mul, Nat.mod_eq_of_lt h1, Nat.mod_eq_of_lt h2]

/-! ### the batches partition the positions -/

theorem batches_flatten (loops : Nat) (hl : 0 < loops) (fuel : Nat) (l : List Nat) (hf : l.length < fuel) :
    (batches loops fuel l).flatten = l := by
  induction fuel generalizing l with
  | zero => omega
  | succ fuel ih =>
    unfold batches
    by_cases he : l.isEmpty
    · simp only [he, if_true, List.flatten_nil]
      exact (List.isEmpty_iff.1 he).symm
    · simp only [he, Bool.false_eq_true, if_false, List.flatten_cons]
      have hne : l ≠ [] := fun h => he (by simp [h])
      have hpos : 0 < l.length := List.length_pos_iff.2 hne
      rw [ih (l.drop loops) (by simp only [List.length_drop]; omega)]
      exact List.take_append_drop loops l

theorem batches_len (loops fuel : Nat) (l : List Nat) : ∀ b ∈ batches loops fuel l, b.length ≤ loops := by
  induction fuel generalizing l with
  | zero => intro b hb; simp [batches] at hb
  | succ fuel ih =>
    intro b hb
    unfold batches at hb
    by_cases he : l.isEmpty
    · simp [he] at hb
    · simp only [he, Bool.false_eq_true, if_false, List.mem_cons] at hb
      rcases hb with rfl | hb
      · simp [List.length_take]
      · exact ih _ b hb

/-- the fold over batches, given that every batch has at most 8 positions -/
theorem fold_spec (r : Nat) (hb : ∀ x ∈ indices, x ≤ 255) (bs : List (List Nat)) (hbs : ∀ b ∈ bs, b.length ≤ 8)
    (n d : Nat) (sg : Bool) :
    bs.foldl (fun (acc : Nat × Nat × Bool) js =>
        let (n, d, sg) := batch indices i js (1, 1, acc.2.2)
        (acc.1 * n % r, acc.2.1 * d % r, sg)) (n % r, d % r, sg) =
      ((n * num indices i bs.flatten) % r, (d * den indices i bs.flatten) % r, xor sg (flips indices i bs.flatten)) := by
  induction bs generalizing n d sg with
  | nil => simp [num, den, flips]
  | cons b bs ih =>
    simp only [List.foldl_cons, List.flatten_cons]
    rw [batch_exact indices i hb b (hbs b (by simp))]
    simp only [Nat.mod_mul_mod]
    rw [ih (fun b' hb' => hbs b' (by simp [hb'])), num_append, den_append, flips_append]
    refine Prod.ext ?_ (Prod.ext ?_ ?_)
    · simp only [Nat.mul_assoc]
    · simp only [Nat.mul_assoc]
    · simp only [Bool.xor_assoc]

/-- **the C loop computes the plain products**: for indices at most 255 (`MAX_IND`), `coeffParts` returns
    `Π_{j≠i} x_j mod r`, `Π_{j≠i} |x_j - x_i| mod r` and the parity of `#{j ≠ i : x_j < x_i}` -/
theorem coeffParts_spec (r : Nat) (hb : ∀ x ∈ indices, x ≤ 255) :
    coeffParts r indices i =
      (num indices i (List.range indices.length) % r, den indices i (List.range indices.length) % r,
       flips indices i (List.range indices.length)) := by
  unfold coeffParts
  have h := fold_spec indices i r hb (batches 8 (indices.length + 1) (List.range indices.length))
    (batches_len 8 _ _) 1 1 false
  rw [batches_flatten 8 (by norm_num) _ _ (by simp)] at h
  simpa using h

end Proofs.Limbs
