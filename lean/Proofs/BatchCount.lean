import Mathlib.Data.ZMod.Basic
import Mathlib.Algebra.Field.ZMod
import Mathlib.Algebra.Module.Basic
import Mathlib.Data.Fintype.Pi
import Mathlib.Data.Fintype.BigOperators
import Mathlib.Algebra.BigOperators.Group.Finset.Basic

/-! Counting the coefficient vectors for which batch verification can differ from individual verification:
for a fixed set of positions containing a defective one, at most `N^(n-1)` of the `N^n` vectors make the
blinded defects of the set cancel. -/

namespace Proofs.BatchCount
open Finset

variable {r : ℕ} [Fact r.Prime] {G : Type*} [AddCommGroup G] [Module (ZMod r) G]

/-- the coefficient drawn for one signature: `rand + 1` with `rand < N`, as a scalar -/
def coef (N : ℕ) (x : Fin N) : ZMod r := ((x.val + 1 : ℕ) : ZMod r)

theorem coef_injective (N : ℕ) (hN : N < r) : Function.Injective (coef (r := r) N) := by
  intro a b h
  unfold coef at h
  have := (ZMod.natCast_eq_natCast_iff' _ _ _).1 h
  rw [Nat.mod_eq_of_lt (by have := a.isLt; omega), Nat.mod_eq_of_lt (by have := b.isLt; omega)] at this
  exact Fin.ext (by omega)

open Classical in
/-- the vectors for which the blinded defects over the positions `S` sum to zero -/
noncomputable def cancelSet (r : ℕ) [Fact r.Prime] {G : Type*} [AddCommGroup G] [Module (ZMod r) G]
    (n N : ℕ) (δ : Fin n → G) (S : Finset (Fin n)) : Finset (Fin n → Fin N) :=
  Finset.univ.filter (fun c => ∑ i ∈ S, coef (r := r) N (c i) • δ i = 0)

/-- **a defective position pins its coefficient**: once the other coefficients are chosen, at most one value of
    the coefficient at `j` makes the sum vanish; hence at most `N^(n-1)` cancelling vectors -/
theorem cancelSet_card (n N : ℕ) (hN : N < r) (δ : Fin n → G) (S : Finset (Fin n)) (j : Fin n) (hj : j ∈ S)
    (hd : δ j ≠ 0) : (cancelSet r n N δ S).card ≤ N ^ (n - 1) := by
  classical
  -- restrict a vector to the positions other than j
  let restr : (Fin n → Fin N) → ({i : Fin n // i ≠ j} → Fin N) := fun c i => c i.1
  have hinj : Set.InjOn restr (cancelSet r n N δ S : Set (Fin n → Fin N)) := by
    intro c hc c' hc' hr
    have hc := (Finset.mem_filter.1 (Finset.mem_coe.1 hc)).2
    have hc' := (Finset.mem_filter.1 (Finset.mem_coe.1 hc')).2
    have hoth : ∀ i, i ≠ j → c i = c' i := fun i hi => congrFun hr ⟨i, hi⟩
    -- split the sums at j
    have e1 : ∑ i ∈ S, coef (r := r) N (c i) • δ i = coef (r := r) N (c j) • δ j + ∑ i ∈ S.erase j, coef (r := r) N (c i) • δ i :=
      (Finset.add_sum_erase S _ hj).symm
    have e2 : ∑ i ∈ S, coef (r := r) N (c' i) • δ i = coef (r := r) N (c' j) • δ j + ∑ i ∈ S.erase j, coef (r := r) N (c' i) • δ i :=
      (Finset.add_sum_erase S _ hj).symm
    have e3 : ∑ i ∈ S.erase j, coef (r := r) N (c i) • δ i = ∑ i ∈ S.erase j, coef (r := r) N (c' i) • δ i := by
      apply Finset.sum_congr rfl
      intro i hi
      rw [hoth i (Finset.ne_of_mem_erase hi)]
    rw [e1] at hc
    rw [e2, ← e3] at hc'
    have : (coef (r := r) N (c j) - coef (r := r) N (c' j)) • δ j = 0 := by
      rw [sub_smul]
      have := congrArg₂ (· - ·) hc hc'
      simp only [sub_self, add_sub_add_right_eq_sub] at this
      exact this
    have hz : coef (r := r) N (c j) - coef (r := r) N (c' j) = 0 := by
      by_contra hne
      apply hd
      have : (coef (r := r) N (c j) - coef (r := r) N (c' j))⁻¹ • ((coef (r := r) N (c j) - coef (r := r) N (c' j)) • δ j) = 0 := by
        rw [this, smul_zero]
      rwa [smul_smul, inv_mul_cancel₀ hne, one_smul] at this
    have hcj : c j = c' j := coef_injective N hN (sub_eq_zero.1 hz)
    funext i
    by_cases hi : i = j
    · rw [hi]; exact hcj
    · exact hoth i hi
  calc (cancelSet r n N δ S).card
      ≤ (Finset.univ : Finset ({i : Fin n // i ≠ j} → Fin N)).card :=
        Finset.card_le_card_of_injOn restr (fun _ _ => Finset.mem_univ _) hinj
    _ = N ^ (n - 1) := by
        rw [Finset.card_univ, Fintype.card_fun, Fintype.card_fin, Fintype.card_subtype_compl, Fintype.card_fin]
        simp


/-- positions `a, …, a+b-1` -/
def seg (n a b : ℕ) : Finset (Fin n) := Finset.univ.filter (fun i => a ≤ i.val ∧ i.val < a + b)

/-- the bad vectors: some contiguous segment containing a defective position has blinded defects summing to zero -/
noncomputable def badSet (r : ℕ) [Fact r.Prime] {G : Type*} [AddCommGroup G] [Module (ZMod r) G]
    (n N : ℕ) (δ : Fin n → G) : Finset (Fin n → Fin N) :=
  @Finset.filter _ (fun c => ∃ a ∈ Finset.range (n + 1), ∃ b ∈ Finset.range (n + 1),
    (∃ j ∈ seg n a b, δ j ≠ 0) ∧ ∑ i ∈ seg n a b, coef (r := r) N (c i) • δ i = 0) (Classical.decPred _) Finset.univ

theorem mem_badSet (n N : ℕ) (δ : Fin n → G) (c : Fin n → Fin N) :
    c ∈ badSet r n N δ ↔ ∃ a ∈ Finset.range (n + 1), ∃ b ∈ Finset.range (n + 1),
      (∃ j ∈ seg n a b, δ j ≠ 0) ∧ ∑ i ∈ seg n a b, coef (r := r) N (c i) • δ i = 0 := by
  unfold badSet
  rw [@Finset.mem_filter _ _ (Classical.decPred _)]
  simp

open Classical in
/-- **at most `(n+1)² · N^(n-1)` of the `N^n` coefficient vectors are bad**: with `N = 2^128` the probability of
    a bad vector is at most `(n+1)² / 2^128` -/
theorem badSet_card (n N : ℕ) (hN : N < r) (δ : Fin n → G) :
    (badSet r n N δ).card ≤ (n + 1) ^ 2 * N ^ (n - 1) := by
  have hsub : badSet r n N δ ⊆ (Finset.range (n + 1) ×ˢ Finset.range (n + 1)).biUnion
      (fun ab => if ∃ j ∈ seg n ab.1 ab.2, δ j ≠ 0 then cancelSet r n N δ (seg n ab.1 ab.2) else ∅) := by
    intro c hc
    obtain ⟨a, ha, b, hb, hj, hs⟩ := (mem_badSet n N δ c).1 hc
    refine Finset.mem_biUnion.2 ⟨(a, b), Finset.mem_product.2 ⟨ha, hb⟩, ?_⟩
    simp only []
    rw [if_pos hj]
    unfold cancelSet
    exact Finset.mem_filter.2 ⟨Finset.mem_univ _, hs⟩
  calc (badSet r n N δ).card
      ≤ ((Finset.range (n + 1) ×ˢ Finset.range (n + 1)).biUnion
          (fun ab => if ∃ j ∈ seg n ab.1 ab.2, δ j ≠ 0 then cancelSet r n N δ (seg n ab.1 ab.2) else ∅)).card :=
        Finset.card_le_card hsub
    _ ≤ ∑ ab ∈ Finset.range (n + 1) ×ˢ Finset.range (n + 1),
          (if ∃ j ∈ seg n ab.1 ab.2, δ j ≠ 0 then cancelSet r n N δ (seg n ab.1 ab.2) else ∅).card :=
        Finset.card_biUnion_le
    _ ≤ ∑ _ab ∈ Finset.range (n + 1) ×ˢ Finset.range (n + 1), N ^ (n - 1) := by
        apply Finset.sum_le_sum
        intro ab _
        split
        · rename_i h
          obtain ⟨j, hj, hd⟩ := h
          exact cancelSet_card n N hN δ _ j hj hd
        · simp
    _ = (n + 1) ^ 2 * N ^ (n - 1) := by
        rw [Finset.sum_const, Finset.card_product, Finset.card_range, smul_eq_mul, pow_two]

end Proofs.BatchCount
