import Model.Hash

/-! The reference digest of the C13 theorems (`Sponge.refHash`: absorb the full blocks of the message, then one
padded block built from the tail) is the sponge construction as FIPS 202 writes it (`KeccakF.spongeRef`: pad the
whole message with `pad10*1`, absorb every block of the padded message, squeeze), for every rate, domain byte,
message and every output length up to the rate. -/

namespace Proofs.SpongeFips
open Model

/-- the last block: what remains of the padded message once the full blocks of the message are taken off is the
    padded block the Go code builds from the buffered tail -/
theorem pad_last_block (rate : Nat) (ds : UInt8) (t : Bytes) (ht : t.length < rate) :
    (t ++ KeccakF.padTail rate ds t.length).take rate = Sponge.padBlock rate ds t := by
  have hmod : t.length % rate = t.length := Nat.mod_eq_of_lt ht
  unfold KeccakF.padTail Sponge.padBlock
  simp only [hmod]
  cases hz : rate - 1 - t.length with
  | zero =>
    simp only []
    have hl : t.length = rate - 1 := by omega
    have h0 : rate - (t.length + 1) = 0 := by omega
    rw [h0]
    have hb : t ++ [ds] ++ zeros 0 = t ++ [ds] := by simp [zeros]
    rw [hb]
    have htk : (t ++ [ds]).take (rate - 1) = t := by
      rw [← hl]; simp
    have hg : (t ++ [ds]).getD (rate - 1) 0 = ds := by
      rw [← hl]; simp [List.getD]
    rw [htk, hg]
    apply List.take_of_length_le
    simp; omega
  | succ z =>
    simp only []
    have h0 : rate - (t.length + 1) = z + 1 := by omega
    rw [h0]
    have hb : t ++ [ds] ++ zeros (z + 1) = (t ++ ds :: List.replicate z 0) ++ [0] := by
      simp [zeros, List.replicate_succ']
    have hlen : (t ++ ds :: List.replicate z 0).length = rate - 1 := by
      simp; omega
    rw [hb]
    have htk : ((t ++ ds :: List.replicate z 0) ++ [0]).take (rate - 1) = t ++ ds :: List.replicate z 0 :=
      List.take_left' hlen
    have hg : ((t ++ ds :: List.replicate z 0) ++ [0]).getD (rate - 1) 0 = 0 := by
      rw [← hlen]; simp [List.getD]
    rw [htk, hg]
    have : (0 : UInt8) ^^^ 0x80 = 0x80 := by decide
    rw [this]
    have hw : t ++ ds :: (List.replicate z 0 ++ [0x80]) = (t ++ ds :: List.replicate z 0) ++ [0x80] := by simp
    rw [hw]
    apply List.take_of_length_le
    simp; omega

/-- absorbing the padded message block by block = absorbing the full blocks of the message, then the padded block -/
theorem absorb_pad (rate : Nat) (hr : 0 < rate) (ds : UInt8) :
    ∀ (fuel : Nat) (a : KeccakF.State) (m : Bytes), m.length < fuel →
      KeccakF.absorb rate a (m.length / rate + 1) (m ++ KeccakF.padTail rate ds m.length) =
        (fun (r : KeccakF.State × Bytes) =>
          KeccakF.keccakF1600 (KeccakF.xorBlock r.1 (Sponge.padBlock rate ds r.2)))
          (Sponge.absorbAll (fun a block => KeccakF.keccakF1600 (KeccakF.xorBlock a block)) rate fuel a m) := by
  intro fuel
  induction fuel with
  | zero => intro a m h; omega
  | succ fuel ih =>
    intro a m hlt
    unfold Sponge.absorbAll
    by_cases hm : m.length < rate
    · rw [if_pos hm]
      have hq : m.length / rate = 0 := Nat.div_eq_of_lt hm
      rw [hq]
      show KeccakF.absorb rate a 1 _ = _
      unfold KeccakF.absorb KeccakF.absorb
      simp only []
      rw [pad_last_block rate ds m hm]
    · rw [if_neg hm]
      have hle : rate ≤ m.length := by omega
      have hq : m.length / rate = (m.length - rate) / rate + 1 := by
        rw [Nat.div_eq_sub_div hr hle]
      have hdl : (m.drop rate).length = m.length - rate := by simp
      have hmod : (m.length - rate) % rate = m.length % rate := by
        rw [Nat.mod_eq_sub_mod hle]
      have hpt : KeccakF.padTail rate ds m.length = KeccakF.padTail rate ds (m.drop rate).length := by
        unfold KeccakF.padTail
        rw [hdl, hmod]
      rw [hq]
      show KeccakF.absorb rate a ((m.length - rate) / rate + 1 + 1) _ = _
      conv => lhs; unfold KeccakF.absorb
      have htk : (m ++ KeccakF.padTail rate ds m.length).take rate = m.take rate := by
        rw [List.take_append_of_le_length hle]
      have hdr : (m ++ KeccakF.padTail rate ds m.length).drop rate = m.drop rate ++ KeccakF.padTail rate ds m.length := by
        rw [List.drop_append_of_le_length hle]
      rw [htk, hdr, hpt, ← hdl]
      exact ih _ (m.drop rate) (by rw [hdl]; omega)

/-- **`refHash` is FIPS 202's sponge** (pad, absorb, squeeze) on the Keccak parameters of the package, for every
    rate > 0, every domain byte, every message, and every output length up to the rate (one squeeze block) -/
theorem refHash_eq_spongeRef (rate : Nat) (hr : 0 < rate) (ds : UInt8) (outLen : Nat) (ho : outLen ≤ rate)
    (m : Bytes) :
    Sponge.refHash (Hash.keccakParams rate ds outLen) m = KeccakF.spongeRef rate ds outLen m := by
  unfold KeccakF.spongeRef
  rw [if_neg (by omega)]
  simp only []
  unfold KeccakF.pad
  rw [absorb_pad rate hr ds (m.length + 1) KeccakF.zeroState m (by omega)]
  unfold Sponge.refHash Hash.keccakParams
  simp only []
  unfold KeccakF.squeeze
  rw [if_pos ho]

end Proofs.SpongeFips
