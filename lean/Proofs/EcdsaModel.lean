import Proofs.CurveInst
import Proofs.Bytes

/-! The executable ECDSA model accepts every signature its own signing function produces (both curves, every private
key, nonce and hash), by the group law of the curve. -/

namespace Proofs.EcdsaModel
open Model Model.Curve Proofs.CurveGroup Proofs.CurveInst

/-- the facts about a curve of the model the proof uses -/
structure Good (S : Ecdsa.CurveSpec) (a b : ℕ) [Fact (Nat.Prime S.p)] [Fact (Nat.Prime S.n)] : Prop where
  hC : S.C = C S.p a b
  hΔ : (W S.p a b).Δ ≠ 0
  h2 : 2 < S.p
  hb : S.p < 2 ^ 800
  hg : Valid S.p a b S.g
  hn : Curve.mul S.C S.n S.g = none
  n2 : 2 < S.n
  n256 : S.n < 2 ^ 256

variable {S : Ecdsa.CurveSpec} {a b : ℕ} [Fact (Nat.Prime S.p)] [hn : Fact (Nat.Prime S.n)]

theorem nsmul_mod (G : Good S a b) (m : ℕ) (hm : m < 2 ^ 800) :
    Valid S.p a b (Curve.mul S.C (m % S.n) S.g) ∧
      toPoint S.p a b (Curve.mul S.C (m % S.n) S.g) = m • toPoint S.p a b S.g := by
  have hn800 : S.n < 2 ^ 800 := lt_trans G.n256 (Nat.pow_lt_pow_right (by decide) (by decide))
  have m1 := mul_eq S.p a b G.hΔ G.h2 G.hb (m % S.n) (lt_trans (Nat.mod_lt _ (by have := G.n2; omega)) hn800) S.g G.hg
  have mn := mul_eq S.p a b G.hΔ G.h2 G.hb S.n hn800 S.g G.hg
  rw [← G.hC] at m1 mn
  have e0 : S.n • toPoint S.p a b S.g = 0 := by rw [← mn.2, G.hn]; rfl
  refine ⟨m1.1, ?_⟩
  rw [m1.2]
  conv_rhs => rw [← Nat.mod_add_div' m S.n, add_smul, mul_smul, e0, nsmul_zero, add_zero]

/-- **sign ⇒ verify in the executable model**: whatever the private key `d`, the nonce `k` and the hash `h`, if the
    model's signing function returns a signature then the model's verification accepts it under `d • G` -/
theorem sign_verify (G : Good S a b) (d k : ℕ) (hd : d < S.n) (hk : k < S.n) (h sig : Bytes) (Q : ℕ × ℕ)
    (hQ : Ecdsa.publicKeyOf S d = some Q) (hs : Ecdsa.signWith S d k h = some sig) :
    Ecdsa.verifyHash S Q h sig = true := by
  have hn0 : 0 < S.n := by have := G.n2; omega
  have hn800 : S.n < 2 ^ 800 := lt_trans G.n256 (Nat.pow_lt_pow_right (by decide) (by decide))
  unfold Ecdsa.signWith at hs
  cases hR : Curve.mul S.C k S.g with
  | none => rw [hR] at hs; cases hs
  | some xy =>
    obtain ⟨x, y⟩ := xy
    rw [hR] at hs
    simp only [] at hs
    set r := x % S.n with hr
    set e := beNat (h.take 32) with he
    set s := powMod k (S.n - 2) S.n * ((e + r * d) % S.n) % S.n with hsdef
    by_cases hz : r = 0 ∨ s = 0
    · rw [if_pos hz] at hs; cases hs
    · rw [if_neg hz] at hs
      have hsig : sig = natBE 32 r ++ natBE 32 s := (Option.some.inj hs).symm
      have hr0 : r ≠ 0 := fun h' => hz (Or.inl h')
      have hs0 : s ≠ 0 := fun h' => hz (Or.inr h')
      have hrn : r < S.n := Nat.mod_lt _ hn0
      have hsn : s < S.n := Nat.mod_lt _ hn0
      have h256 : (256 : ℕ) ^ 32 = 2 ^ 256 := by norm_num
      have tk : (sig.take 32) = natBE 32 r := by
        rw [hsig, List.take_append_of_le_length (by rw [Model.natBE_length]),
          List.take_of_length_le (by rw [Model.natBE_length])]
      have dr : (sig.drop 32) = natBE 32 s := by
        rw [hsig, List.drop_append_of_le_length (by rw [Model.natBE_length]),
          List.drop_of_length_le (by rw [Model.natBE_length]), List.nil_append]
      have br : beNat (sig.take 32) = r := by
        rw [tk, Model.beNat_natBE, h256, Nat.mod_eq_of_lt (lt_trans hrn G.n256)]
      have bs : beNat (sig.drop 32) = s := by
        rw [dr, Model.beNat_natBE, h256, Nat.mod_eq_of_lt (lt_trans hsn G.n256)]
      unfold Ecdsa.verifyHash
      have hlen : sig.length = 64 := by rw [hsig, List.length_append, Model.natBE_length, Model.natBE_length]
      rw [if_neg (by simp [hlen])]
      simp only [br, bs]
      rw [if_neg (by omega)]
      -- the scalars, in ZMod n
      set w := powMod s (S.n - 2) S.n with hw
      have cw : ((w : ℕ) : ZMod S.n) = (s : ZMod S.n)⁻¹ := Proofs.PowMod.powMod_inv S.n G.n2 hn800 s
      have ck : ((powMod k (S.n - 2) S.n : ℕ) : ZMod S.n) = (k : ZMod S.n)⁻¹ := Proofs.PowMod.powMod_inv S.n G.n2 hn800 k
      have cs : (s : ZMod S.n) = (k : ZMod S.n)⁻¹ * ((e : ZMod S.n) + r * d) := by
        rw [hsdef, ZMod.natCast_mod, Nat.cast_mul, ck, ZMod.natCast_mod]; push_cast; ring
      have cs0 : (s : ZMod S.n) ≠ 0 := by
        intro h'
        have := (ZMod.natCast_eq_zero_iff s S.n).1 h'
        exact hs0 (Nat.eq_zero_of_dvd_of_lt this hsn)
      have ck0 : (k : ZMod S.n) ≠ 0 := by
        intro h'; apply cs0; rw [cs, h', inv_zero, zero_mul]
      -- u1 + u2 d = k (mod n)
      have key : (((e % S.n * w % S.n + r * w % S.n * d : ℕ)) : ZMod S.n) = k := by
        have hne : (e : ZMod S.n) + r * d ≠ 0 := by
          intro h'; apply cs0; rw [cs, h', mul_zero]
        have e1 : ((e % S.n * w % S.n : ℕ) : ZMod S.n) = (e : ZMod S.n) * w := by
          rw [ZMod.natCast_mod, Nat.cast_mul, ZMod.natCast_mod]
        have e2 : ((r * w % S.n : ℕ) : ZMod S.n) = (r : ZMod S.n) * w := by
          rw [ZMod.natCast_mod, Nat.cast_mul]
        rw [Nat.cast_add, Nat.cast_mul, e1, e2, cw, cs]
        field_simp
      -- the points
      have hwn : w < S.n := by
        rw [hw, Proofs.PowMod.powMod_eq _ _ _ (by omega) (by omega)]; exact Nat.mod_lt _ hn0
      have hbound : e % S.n * w < 2 ^ 800 := by
        have h1 : e % S.n * w < 2 ^ 256 * 2 ^ 256 :=
          Nat.mul_lt_mul'' (lt_trans (Nat.mod_lt _ hn0) G.n256) (lt_trans hwn G.n256)
        have h2 : (2 : ℕ) ^ 256 * 2 ^ 256 ≤ 2 ^ 800 := by
          rw [← pow_add]; exact Nat.pow_le_pow_right (by decide) (by decide)
        omega
      have u1 := nsmul_mod G (e % S.n * w) hbound
      have pk := mul_eq S.p a b G.hΔ G.h2 G.hb d (lt_trans hd hn800) S.g G.hg
      rw [← G.hC] at pk
      have hQ' : Curve.mul S.C d S.g = some Q := hQ
      have vQ : Valid S.p a b (some Q) := by rw [← hQ']; exact pk.1
      have u2 := mul_eq S.p a b G.hΔ G.h2 G.hb (r * w % S.n) (lt_trans (Nat.mod_lt _ hn0) hn800) (some Q) vQ
      rw [← G.hC] at u2
      have sm := addAff_eq S.p a b G.hΔ G.h2 G.hb _ _ u1.1 u2.1
      rw [← G.hC] at sm
      have kR := mul_eq S.p a b G.hΔ G.h2 G.hb k (lt_trans hk hn800) S.g G.hg
      rw [← G.hC] at kR
      have e0 : S.n • toPoint S.p a b S.g = 0 := by
        have mn := mul_eq S.p a b G.hΔ G.h2 G.hb S.n hn800 S.g G.hg
        rw [← G.hC] at mn
        rw [← mn.2, G.hn]; rfl
      have hsum : Curve.addAff S.C (Curve.mul S.C (e % S.n * w % S.n) S.g) (Curve.mul S.C (r * w % S.n) (some Q)) =
          Curve.mul S.C k S.g := by
        apply toPoint_inj S.p a b G.hΔ _ _ sm.1 kR.1
        rw [sm.2, u1.2, u2.2, kR.2, ← hQ', pk.2, smul_smul, ← add_smul]
        -- both scalars agree modulo n
        have hmod : (e % S.n * w + r * w % S.n * d) % S.n = k % S.n := by
          have := congrArg ZMod.val key
          have h1 : (e % S.n * w + r * w % S.n * d) % S.n = (e % S.n * w % S.n + r * w % S.n * d) % S.n := by
            conv_rhs => rw [Nat.add_mod, Nat.mod_mod, ← Nat.add_mod]
          rw [ZMod.val_natCast, ZMod.val_natCast] at this
          rw [h1]; exact this
        conv_lhs => rw [← Nat.mod_add_div' (e % S.n * w + r * w % S.n * d) S.n, add_smul, mul_smul, e0, nsmul_zero, add_zero, hmod]
        conv_rhs => rw [← Nat.mod_add_div' k S.n, add_smul, mul_smul, e0, nsmul_zero, add_zero]
      rw [hsum, hR]
      exact decide_eq_true hr.symm

end Proofs.EcdsaModel
