import Proofs.DkgEmit

/-! The answers of an honest dealer: the dealer's own instance answers a first complaint at once with the complainer's
share (`dealer_answers`), and - under `OpsLaws` - a receiver classifies that broadcast as a valid answer
(`answer_allowed`): the answer part (`hans`) of `OwnNet` for the dealer's own emission. -/

namespace Proofs.DkgAgree
open Model Model.Dkg Proofs.DkgCommute

variable {O : Ops}

/-- **the dealer answers a first complaint at once**: a well-formed complaint of `o` against the dealer, received by the
    dealer's own (qualified) instance before the complaints timeout and not registered yet, makes it broadcast the
    answer carrying `a(o+1)` for the polynomial `s.a` it drew at `Start` - and nothing else -/
theorem dealer_answers (s : St O) (hmd : s.me = s.dealer) (hndq : s.disqualified = false)
    (hct : s.complaintsTimeout = false) (hd : s.dealer < 256) (hds : s.dealer < s.size) (o : Nat) (hod : o ≠ s.dealer)
    (hf : s.find o = none) :
    stepOuts s (.bcast o (cmplMsg s.dealer)) =
      [Out.bcast (tagAnswer :: UInt8.ofNat o :: O.writeScalar (O.polyEval s.a (o + 1)))] := by
  show (FvssQ.bcastBody s o (cmplMsg s.dealer)).2 = _
  unfold FvssQ.bcastBody
  rw [if_neg (by rw [hmd]; exact fun h => hod h.symm), if_neg (by simp [hndq])]
  simp only []
  have hlen : ¬ (cmplMsg s.dealer).length = 0 := by simp [cmplMsg]
  have htag : (cmplMsg s.dealer).headD 0 = tagComplaint := rfl
  rw [if_neg hlen, if_neg (by rw [htag]; decide), if_pos htag]
  show (FvssQ.receiveComplaint s o [UInt8.ofNat s.dealer]).2 = _
  unfold FvssQ.receiveComplaint
  rw [if_neg (by simp [hct]), if_neg (by simp)]
  simp only []
  have hval : (([UInt8.ofNat s.dealer] : Bytes).headD 0).toNat = s.dealer := by
    show (UInt8.ofNat s.dealer).toNat = s.dealer
    rw [UInt8.toNat_ofNat']; omega
  rw [hval, if_neg (by omega), if_neg hod, if_neg (by simp), hf]
  simp only []
  have hmd' : (s.setC o { received := true, answerReceived := false }).me =
      (s.setC o { received := true, answerReceived := false }).dealer := hmd
  rw [if_pos hmd']
  unfold FvssQ.buildAnswer
  have hfind : (s.setC o { received := true, answerReceived := false }).find o =
      some { received := true, answerReceived := false } := by
    unfold St.find St.setC
    simp
  rw [hfind]
  rfl

/-- **and a receiver accepts the answer**: the broadcast of `dealer_answers` is classified by `rcv`'s instance, in every
    state before or after the complaints timeout, as the dealer's answer for `o` with the share `a(o+1)`, which passes
    the check against the dealer's vector -/
theorem answer_allowed (size threshold dealer rcv o : Nat) (hne : rcv ≠ dealer) (hr : rcv < size) (ho : o < size)
    (ho256 : o < 256) (a : List Nat) (L : OpsLaws O size threshold a) (hx : O.polyEval a (o + 1) ≠ 0) (ct : Bool)
    (t : St O) (ht : CfgCT (fresh O size threshold rcv dealer) ct t) :
    classify t (.bcast dealer (tagAnswer :: UInt8.ofNat o :: O.writeScalar (O.polyEval a (o + 1)))) =
      .ans o (some (O.polyEval a (o + 1))) ∧
    AllowedK (honestOf size threshold a L rcv hr) t (.ans o (some (O.polyEval a (o + 1)))) := by
  obtain ⟨h1, h2, h3, _, _⟩ := ht
  have e1 : t.me = rcv := h1
  have e2 : t.dealer = dealer := h2
  have e3 : t.size = size := h3
  refine ⟨?_, ⟨_, rfl, L.shareOk o ho⟩⟩
  show classifyB t dealer (tagAnswer :: UInt8.ofNat o :: O.writeScalar (O.polyEval a (o + 1))) = _
  unfold classifyB
  rw [if_neg (by rw [e1]; exact hne), if_neg (by simp)]
  have hh : (tagAnswer :: UInt8.ofNat o :: O.writeScalar (O.polyEval a (o + 1))).headD 0 = tagAnswer := rfl
  rw [if_neg (by rw [hh]; decide), if_neg (by rw [hh]; decide), if_pos hh, if_pos e2.symm]
  show (match parseA t (UInt8.ofNat o :: O.writeScalar (O.polyEval a (o + 1))) with
    | none => Kind.disq | some (j, sc) => Kind.ans j sc) = _
  unfold parseA
  have hlen : (UInt8.ofNat o :: O.writeScalar (O.polyEval a (o + 1))).length = 1 + shareSize := by
    rw [List.length_cons, L.shareLen]; omega
  have hval : ((UInt8.ofNat o :: O.writeScalar (O.polyEval a (o + 1))).headD 0).toNat = o := by
    show (UInt8.ofNat o).toNat = o
    rw [UInt8.toNat_ofNat']; omega
  rw [if_neg (fun h => h hlen), hval, e3, if_neg (by omega)]
  show Kind.ans o (O.readScalar (O.writeScalar (O.polyEval a (o + 1)))) = _
  rw [L.shareRead _ hx]

end Proofs.DkgAgree
