import Proofs.AbsBatch
import Proofs.BatchCount
import Mathlib.Algebra.BigOperators.Intervals

/-! The explicit bad set of coefficient vectors of `Proofs/AbsBatch.lean` is small: at most `(n+1)² · 2^(128(n-1))`
of the `2^(128 n)` vectors are not `Good`. -/

variable {r : ℕ} [Fact r.Prime] {P : PairingGroups r}

namespace Proofs.BatchBound
open Proofs.BatchCount

/-- sum of a list as a sum over positions -/
theorem list_sum_getD {G : Type*} [AddCommMonoid G] (l : List G) : l.sum = ∑ i ∈ Finset.range l.length, l.getD i 0 := by
  induction l with
  | nil => simp
  | cons a t ih =>
    rw [List.sum_cons, List.length_cons, Finset.sum_range_succ', ih]
    simp [add_comm]

theorem seg_getD {G : Type*} (l : List G) (a b i : ℕ) (d : G) (hi : i < ((l.drop a).take b).length) :
    ((l.drop a).take b).getD i d = l.getD (a + i) d := by
  rw [List.length_take, List.length_drop] at hi
  rw [List.getD_eq_getElem?_getD, List.getD_eq_getElem?_getD, List.getElem?_take_of_lt (by omega), List.getElem?_drop]

/-- the sum over a segment of a list is the sum over the corresponding positions -/
theorem seg_sum {G : Type*} [AddCommMonoid G] (n : ℕ) (f : Fin n → G) (a b : ℕ) :
    (((List.ofFn f).drop a).take b).sum = ∑ i ∈ seg n a b, f i := by
  rw [list_sum_getD]
  have hlen : (((List.ofFn f).drop a).take b).length = min b (n - a) := by simp
  rw [hlen]
  have e1 : ∀ i ∈ Finset.range (min b (n - a)), (((List.ofFn f).drop a).take b).getD i 0 = (List.ofFn f).getD (a + i) 0 := by
    intro i hi
    exact seg_getD _ a b i 0 (by rw [hlen]; exact Finset.mem_range.1 hi)
  rw [Finset.sum_congr rfl e1]
  -- both sides as sums over ℕ with an indicator
  have e2 : ∑ i ∈ seg n a b, f i = ∑ k ∈ Finset.range n, if a ≤ k ∧ k < a + b then (List.ofFn f).getD k 0 else 0 := by
    unfold seg
    rw [Finset.sum_filter, ← Fin.sum_univ_eq_sum_range (fun k => if a ≤ k ∧ k < a + b then (List.ofFn f).getD k 0 else 0) n]
    apply Finset.sum_congr rfl
    intro i _
    split
    · simp [List.getD_eq_getElem?_getD]
    · rfl
  rw [e2]
  -- the indicator sum is the sum over the interval [a, a + min b (n-a))
  have e3 : ∑ k ∈ Finset.range n, (if a ≤ k ∧ k < a + b then (List.ofFn f).getD k 0 else 0) =
      ∑ k ∈ Finset.Ico a (a + min b (n - a)), (List.ofFn f).getD k 0 := by
    rw [← Finset.sum_filter]
    apply Finset.sum_congr
    · ext k
      simp only [Finset.mem_filter, Finset.mem_range, Finset.mem_Ico]
      omega
    · intro _ _; rfl
  rw [e3, Finset.sum_Ico_eq_sum_range]
  simp


/-- a leaf after blinding with the coefficient `c` -/
def scaled (pk : P.G2) (s : P.G1) (c : ZMod r) : BLeaf P := { pk := c • pk, s := c • s, res := .undefined }

/-- defect of the unblinded pair -/
def delta (h : P.G1) (pk : P.G2) (s : P.G1) : P.GT := P.e s P.g2 - P.e h pk

theorem defect_scaled (h : P.G1) (pk : P.G2) (s : P.G1) (c : ZMod r) :
    defect h (scaled pk s c) = c • delta h pk s := by
  unfold defect scaled delta
  simp only [map_smul, LinearMap.smul_apply, smul_sub]

theorem mem_seg_list {α : Type*} (n : ℕ) (f : Fin n → α) (a b : ℕ) (x : α)
    (hx : x ∈ ((List.ofFn f).drop a).take b) : ∃ i ∈ seg n a b, x = f i := by
  obtain ⟨k, hk, rfl⟩ := List.mem_iff_getElem.1 hx
  have hlen : (((List.ofFn f).drop a).take b).length = min b (n - a) := by simp
  rw [hlen] at hk
  have hlt : a + k < n := by omega
  refine ⟨⟨a + k, hlt⟩, ?_, ?_⟩
  · unfold seg
    simp only [Finset.mem_filter, Finset.mem_univ, true_and]
    omega
  · simp [List.getElem_take, List.getElem_drop]

theorem seg_min (n a b : ℕ) : seg n a b = seg n a (min b (n - a)) := by
  unfold seg
  ext i
  simp only [Finset.mem_filter, Finset.mem_univ, true_and]
  have := i.isLt
  omega

/-- **outside the counted bad set the coefficient vector is `Good`** -/
theorem good_of_not_bad (n N : ℕ) (hN : N < r) (h : P.G1) (pk : Fin n → P.G2) (s : Fin n → P.G1)
    (c : Fin n → Fin N) (hc : c ∉ badSet r n N (fun i => delta h (pk i) (s i))) :
    Good h (List.ofFn fun i => scaled (pk i) (s i) (coef (r := r) N (c i))) := by
  intro a b hx hsum
  apply hc
  rw [mem_badSet]
  obtain ⟨x, hxm, hxd⟩ := hx
  obtain ⟨i, hi, rfl⟩ := mem_seg_list n _ a b x hxm
  have ha : a < n := by
    unfold seg at hi
    simp only [Finset.mem_filter, Finset.mem_univ, true_and] at hi
    have := i.isLt; omega
  refine ⟨a, Finset.mem_range.2 (by omega), min b (n - a), Finset.mem_range.2 (by omega), ?_, ?_⟩
  · refine ⟨i, by rw [← seg_min]; exact hi, ?_⟩
    intro hz
    apply hxd
    rw [defect_scaled, hz, smul_zero]
  · rw [← seg_min]
    have := seg_sum n (fun i => defect h (scaled (pk i) (s i) (coef (r := r) N (c i)))) a b
    have hm : (List.ofFn fun i => defect h (scaled (pk i) (s i) (coef (r := r) N (c i)))) =
        (List.ofFn fun i => scaled (pk i) (s i) (coef (r := r) N (c i))).map (defect h) := by
      rw [List.map_ofFn]; rfl
    rw [hm, ← List.map_drop, ← List.map_take] at this
    rw [this] at hsum
    rw [← hsum]
    apply Finset.sum_congr rfl
    intro j _
    rw [defect_scaled]

/-- **the bad vectors are few**: all but at most `(n+1)² · N^(n-1)` of the `N^n` coefficient vectors are `Good`
    for the given keys and signatures (with `N = 2^128`: a fraction of at most `(n+1)² / 2^128`) -/
theorem bad_vectors_few (n N : ℕ) (hN : N < r) (h : P.G1) (pk : Fin n → P.G2) (s : Fin n → P.G1) :
    ∃ B : Finset (Fin n → Fin N), B.card ≤ (n + 1) ^ 2 * N ^ (n - 1) ∧
      ∀ c, c ∉ B → Good h (List.ofFn fun i => scaled (pk i) (s i) (coef (r := r) N (c i))) :=
  ⟨badSet r n N (fun i => delta h (pk i) (s i)), badSet_card n N hN _, fun c hc => good_of_not_bad n N hN h pk s c hc⟩

end Proofs.BatchBound
