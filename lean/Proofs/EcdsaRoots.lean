import Proofs.Primes
import Model.Ecdsa
import Mathlib.Tactic.LinearCombination
import Mathlib.Tactic.Ring

/-! No point of P-256 or secp256k1 has `y = 0` (the curves have no 2-torsion): the cubic `x³ + a·x + b` has no root
modulo `p`.  secp256k1: `-7` is not a cube.  P-256: `gcd(x^p - x, x³ - 3x + b) = 1`, checked by computing `x^p`
modulo the cubic in the kernel and a Bézout identity. -/

namespace Proofs.EcdsaRoots
open Model Model.Ecdsa Proofs.PowMod Proofs.Primes

/-! ### polynomials of degree ≤ 2 modulo `x³ + a·x + b` over `F_q` -/

abbrev Tri := Nat × Nat × Nat     -- c0 + c1·x + c2·x²

/-- product modulo the cubic and modulo `q`: `x³ = -(a x + b)`, `x⁴ = -(a x² + b x)` -/
def mulMod (q a b : Nat) (u v : Tri) : Tri :=
  let c0 := u.1 * v.1
  let c1 := u.1 * v.2.1 + u.2.1 * v.1
  let c2 := u.1 * v.2.2 + u.2.1 * v.2.1 + u.2.2 * v.1
  let c3 := u.2.1 * v.2.2 + u.2.2 * v.2.1
  let c4 := u.2.2 * v.2.2
  -- negative terms as multiples of q - a, q - b (a, b < q)
  ((c0 + (q - b) * (c3 % q)) % q, (c1 + (q - a) * (c3 % q) + (q - b) * (c4 % q)) % q, (c2 + (q - a) * (c4 % q)) % q)

def ev {q : Nat} (u : Tri) (t : ZMod q) : ZMod q := (u.1 : ZMod q) + (u.2.1 : ZMod q) * t + (u.2.2 : ZMod q) * t ^ 2

theorem ev_mulMod (q a b : Nat) (ha : a ≤ q) (hb : b ≤ q) (u v : Tri) (t : ZMod q)
    (ht : t ^ 3 + (a : ZMod q) * t + (b : ZMod q) = 0) :
    ev (mulMod q a b u v) t = ev u t * ev v t := by
  unfold ev mulMod
  simp only [ZMod.natCast_mod, Nat.cast_add, Nat.cast_mul, Nat.cast_sub ha, Nat.cast_sub hb, ZMod.natCast_self, zero_sub]
  have h3 : t ^ 3 = -((a : ZMod q) * t + b) := by linear_combination ht
  have h4 : t ^ 4 = -((a : ZMod q) * t ^ 2 + b * t) := by
    have : t ^ 4 = t * t ^ 3 := by ring
    rw [this, h3]; ring
  linear_combination (-(↑u.2.1 * ↑v.2.2 + ↑u.2.2 * ↑v.2.1 : ZMod q)) * h3 - (↑u.2.2 * ↑v.2.2 : ZMod q) * h4

/-- `x^e` modulo the cubic, square-and-multiply with fuel -/
def powXAux (q a b : Nat) : Nat → Tri → Nat → Tri → Tri
  | 0, _, _, acc => acc
  | fuel+1, base, e, acc =>
    if e = 0 then acc
    else powXAux q a b fuel (mulMod q a b base base) (e / 2) (if e % 2 = 1 then mulMod q a b acc base else acc)

theorem ev_powXAux (q a b : Nat) (ha : a ≤ q) (hb : b ≤ q) (t : ZMod q)
    (ht : t ^ 3 + (a : ZMod q) * t + (b : ZMod q) = 0) :
    ∀ (fuel : Nat) (base : Tri) (e : Nat) (acc : Tri), e < 2 ^ fuel →
      ev (powXAux q a b fuel base e acc) t = ev acc t * ev base t ^ e := by
  intro fuel
  induction fuel with
  | zero =>
    intro base e acc he
    have : e = 0 := by simpa using he
    subst this; simp [powXAux]
  | succ n ih =>
    intro base e acc he
    unfold powXAux
    by_cases h0 : e = 0
    · subst h0; simp
    · rw [if_neg h0]
      have he2 : e / 2 < 2 ^ n := by rw [pow_succ] at he; omega
      rw [ih _ _ _ he2, ev_mulMod q a b ha hb base base t ht]
      by_cases h1 : e % 2 = 1
      · rw [if_pos h1, ev_mulMod q a b ha hb acc base t ht]
        have hE : e = 2 * (e / 2) + 1 := by omega
        conv_rhs => rw [hE]
        ring
      · rw [if_neg h1]
        have hE : e = 2 * (e / 2) := by omega
        conv_rhs => rw [hE]
        ring

/-- `x^e mod (x³ + a x + b)` -/
def powX (q a b e : Nat) : Tri := powXAux q a b 300 (0, 1, 0) e (1, 0, 0)

theorem ev_powX (q a b e : Nat) (ha : a ≤ q) (hb : b ≤ q) (he : e < 2 ^ 300) (t : ZMod q)
    (ht : t ^ 3 + (a : ZMod q) * t + (b : ZMod q) = 0) : ev (powX q a b e) t = t ^ e := by
  unfold powX
  rw [ev_powXAux q a b ha hb t ht 300 _ e _ he]
  simp [ev]


/-- Bézout evaluation: if the coefficients of `U·f + V·(G - x)` are `1, 0, 0, 0, 0` modulo `q`, a root of `f` that is
    also a fixed point of `G` cannot exist -/
theorem no_common_root (q a b u0 u1 v0 v1 v2 g0 g1 g2 : Nat) (hq : 1 < q)
    (h0 : (u0 * b + v0 * g0) % q = 1)
    (h1 : (u0 * a + u1 * b + v0 * (g1 + (q - 1)) + v1 * g0) % q = 0)
    (h2 : (u1 * a + v0 * g2 + v1 * (g1 + (q - 1)) + v2 * g0) % q = 0)
    (h3 : (u0 + v1 * g2 + v2 * (g1 + (q - 1))) % q = 0)
    (h4 : (u1 + v2 * g2) % q = 0)
    (t : ZMod q) (hf : t ^ 3 + (a : ZMod q) * t + (b : ZMod q) = 0)
    (hg : ev ((g0, g1, g2) : Tri) t = t) : False := by
  have hq1 : ((q - 1 : Nat) : ZMod q) = -1 := by
    rw [Nat.cast_sub (le_of_lt hq), ZMod.natCast_self]; simp
  have c0 : ((u0 * b + v0 * g0 : Nat) : ZMod q) = 1 := by
    rw [← ZMod.natCast_mod, h0]; simp
  have c1 : ((u0 * a + u1 * b + v0 * (g1 + (q - 1)) + v1 * g0 : Nat) : ZMod q) = 0 := by
    rw [← ZMod.natCast_mod, h1]; simp
  have c2 : ((u1 * a + v0 * g2 + v1 * (g1 + (q - 1)) + v2 * g0 : Nat) : ZMod q) = 0 := by
    rw [← ZMod.natCast_mod, h2]; simp
  have c3 : ((u0 + v1 * g2 + v2 * (g1 + (q - 1)) : Nat) : ZMod q) = 0 := by
    rw [← ZMod.natCast_mod, h3]; simp
  have c4 : ((u1 + v2 * g2 : Nat) : ZMod q) = 0 := by
    rw [← ZMod.natCast_mod, h4]; simp
  push_cast at c0 c1 c2 c3 c4
  rw [hq1] at c1 c2 c3
  unfold ev at hg
  simp only [] at hg
  have hone : (1 : ZMod q) = 0 := by
    have key : ((u0 : ZMod q) + u1 * t) * (t ^ 3 + a * t + b) +
        ((v0 : ZMod q) + v1 * t + v2 * t ^ 2) * ((g0 : ZMod q) + g1 * t + g2 * t ^ 2 - t) = 0 := by
      rw [hf, hg]; ring
    linear_combination key - c0 - t * c1 - t ^ 2 * c2 - t ^ 3 * c3 - t ^ 4 * c4
  haveI : Fact (1 < q) := ⟨hq⟩
  exact one_ne_zero hone

/-! ### P-256 -/

def p256A : Nat := p256P - 3
def p256B : Nat := 0x5ac635d8aa3a93e7b3ebbd55769886bc651d06b0cc53b0f63bce3c3e27d2604b

instance : Fact (Nat.Prime p256P) := ⟨by
  have : p256P = 115792089210356248762697446949407573530086143415290314195533631308867097853951 := by decide +kernel
  rw [this]; exact prime_p256_p⟩

/-- **P-256 has no point with `y = 0`**: `x³ - 3x + b` has no root modulo `p` -/
theorem p256_no_root (t : ZMod p256P) : t ^ 3 + (p256A : ZMod p256P) * t + (p256B : ZMod p256P) ≠ 0 := by
  intro hf
  have hG : ev (powX p256P p256A p256B p256P) t = t := by
    rw [ev_powX p256P p256A p256B p256P (by decide +kernel) (by decide +kernel) (by decide +kernel) t hf]
    exact ZMod.pow_card t
  have hGv : powX p256P p256A p256B p256P =
      (0x92e088642d3312c097d5943a147b76e7b494e0924f03d682e5350a345a27381d,
       0x1b6b65e0dba268d6bf72f99fba65e1bf30f126868605e87e9d516f57ef5dd84c,
       0x368fbbcd696676a0341535e2f5c2448c25b58fb7587e14be8d657ae5d2ec63f1) := by decide +kernel
  rw [hGv] at hG
  exact no_common_root p256P p256A p256B
    0xed31f3b7e1f57596f80c37f95ae2665123a4ae100c3fd1b79e0fd4fa86c24540
    0xe2064682e0b89b67347009d7a074489e0ba61223ca75a16af0484bd16bc9ddc
    0xa969487079f1744798bf0de6fded091b66e9d328eb0645fe5d979d1339b7f47f
    0xa4a08891884100c13323460107a8d28eede4387fa3e6e9bfebec9f6d72d0b5cc
    0x4cde11cf86cb876cd59cf0115813c55af0ecd3cda667d98bb9a347a56aa74a6d
    _ _ _ (by decide +kernel) (by decide +kernel) (by decide +kernel) (by decide +kernel) (by decide +kernel)
    (by decide +kernel) t hf hG

/-! ### secp256k1 -/

instance : Fact (Nat.Prime k256P) := ⟨by
  have : k256P = 115792089237316195423570985008687907853269984665640564039457584007908834671663 := by decide +kernel
  rw [this]; exact prime_k256_p⟩

/-- **secp256k1 has no point with `y = 0`**: `-7` is not a cube modulo `p` -/
theorem k256_no_root (t : ZMod k256P) : t ^ 3 + ((0 : Nat) : ZMod k256P) * t + ((7 : Nat) : ZMod k256P) ≠ 0 := by
  intro hf
  have h1 : t ^ 3 = -7 := by
    have h7 : ((7 : Nat) : ZMod k256P) = 7 := by norm_cast
    rw [h7] at hf
    simp only [Nat.cast_zero, zero_mul, add_zero] at hf
    linear_combination hf
  have ht : t ≠ 0 := by
    intro h0
    rw [h0] at h1
    have : ((7 : Nat) : ZMod k256P) = 0 := by
      have h03 : (0 : ZMod k256P) ^ 3 = 0 := by norm_num
      rw [h03] at h1
      push_cast; linear_combination h1
    rw [ZMod.natCast_eq_zero_iff] at this
    have := Nat.le_of_dvd (by norm_num) this
    exact absurd this (by decide +kernel)
  have h2 : t ^ (k256P - 1) = 1 := ZMod.pow_card_sub_one_eq_one ht
  have h3 : ((-7 : ZMod k256P)) ^ ((k256P - 1) / 3) = 1 := by
    rw [← h1, ← pow_mul]
    have : 3 * ((k256P - 1) / 3) = k256P - 1 := by decide +kernel
    rw [this, h2]
  have h5 : (((k256P - 7 : Nat) : ZMod k256P)) = -7 := by
    rw [Nat.cast_sub (by decide +kernel)]; simp
  rw [← h5] at h3
  exact powMod_ne_one (a := k256P - 7) (e := (k256P - 1) / 3) (m := k256P) (by decide +kernel) (by decide +kernel)
    (by decide +kernel) h3

end Proofs.EcdsaRoots
