import Proofs.DkgAnswer

/-! Helper definitions and lemmas for `Props/C08Dealer.lean` (a registered complaint stays registered). -/

namespace Props.C08
open Model Model.Dkg Proofs.DkgCommute

variable {O : Ops}

/-- the complaint of `k` is registered as received -/
def Reg (s : St O) (k : Nat) : Prop := ∃ c, s.find k = some c ∧ c.received = true

theorem reg_setC (s : St O) (k o : Nat) (c : Complaint) (h : Reg s k) (hc : o = k → c.received = true) :
    Reg (s.setC o c) k := by
  by_cases hok : o = k
  · subst hok; exact ⟨c, find_setC_same _ _ _, hc rfl⟩
  · obtain ⟨c', h1, h2⟩ := h
    exact ⟨c', by rw [find_setC_other _ _ _ _ (fun h => hok h.symm)]; exact h1, h2⟩

theorem reg_congr (s t : St O) (k : Nat) (hc : t.complaints = s.complaints) (h : Reg s k) : Reg t k := by
  obtain ⟨c, h1, h2⟩ := h
  exact ⟨c, by unfold St.find at h1 ⊢; rw [hc]; exact h1, h2⟩

def isBcast : Out → Bool
  | .bcast _ => true
  | _ => false

/-- over a history of complaint deliveries `(origin, data)`: how many deliveries from `k` made the instance broadcast -/
def answersTo (k : Nat) : St O → List (Nat × Bytes) → Nat
  | _, [] => 0
  | s, (o, d) :: r =>
    (if o = k ∧ (FvssQ.receiveComplaint s o d).2.any isBcast then 1 else 0) +
      answersTo k (FvssQ.receiveComplaint s o d).1 r

theorem any_isBcast (l : List Out) : l.any isBcast = true ↔ ∃ m, Out.bcast m ∈ l := by
  constructor
  · intro h
    obtain ⟨x, hx, hb⟩ := List.any_eq_true.mp h
    cases x <;> simp [isBcast] at hb
    exact ⟨_, hx⟩
  · rintro ⟨m, hm⟩
    exact List.any_eq_true.mpr ⟨_, hm, rfl⟩

end Props.C08
