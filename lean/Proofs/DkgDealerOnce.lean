import Proofs.DkgAnswer
import Proofs.DkgOnce
import Proofs.DkgJointEnd

/-! Helper definitions and lemmas for `Props/C08Dealer.lean` (a registered complaint stays registered). -/

namespace Props.C08
open Model Model.Dkg Proofs.DkgCommute Proofs.DkgAgree

variable {O : Ops}

/-- the complaint of `k` is registered as received -/
def Reg (s : St O) (k : Nat) : Prop := ∃ c, s.find k = some c ∧ c.received = true

theorem reg_setC (s : St O) (k o : Nat) (c : Complaint) (h : Reg s k) (hc : o = k → c.received = true) :
    Reg (s.setC o c) k := by
  by_cases hok : o = k
  · subst hok; exact ⟨c, find_setC_same _ _ _, hc rfl⟩
  · obtain ⟨c', h1, h2⟩ := h
    exact ⟨c', by rw [find_setC_other _ _ _ _ (fun h => hok h.symm)]; exact h1, h2⟩

theorem reg_congr (s t : St O) (k : Nat) (hc : t.complaints = s.complaints) (h : Reg s k) : Reg t k := by
  obtain ⟨c, h1, h2⟩ := h
  exact ⟨c, by unfold St.find at h1 ⊢; rw [hc]; exact h1, h2⟩

def isBcast : Out → Bool
  | .bcast _ => true
  | _ => false

/-- over a history of complaint deliveries `(origin, data)`: how many deliveries from `k` made the instance broadcast -/
def answersTo (k : Nat) : St O → List (Nat × Bytes) → Nat
  | _, [] => 0
  | s, (o, d) :: r =>
    (if o = k ∧ (FvssQ.receiveComplaint s o d).2.any isBcast then 1 else 0) +
      answersTo k (FvssQ.receiveComplaint s o d).1 r

theorem any_isBcast (l : List Out) : l.any isBcast = true ↔ ∃ m, Out.bcast m ∈ l := by
  constructor
  · intro h
    obtain ⟨x, hx, hb⟩ := List.any_eq_true.mp h
    cases x <;> simp [isBcast] at hb
    exact ⟨_, hx⟩
  · rintro ⟨m, hm⟩
    exact List.any_eq_true.mpr ⟨_, hm, rfl⟩

/-! ### the dealer's own instance: which deliveries can change the complaint table or broadcast -/

theorem dealer_bcast_cases (s : St O) (hmd : s.me = s.dealer) (o : Nat) (m : Bytes) :
    FvssQ.bcastBody s o m = FvssQ.receiveComplaint s o (m.drop 1) ∨
      ((FvssQ.bcastBody s o m).1.complaints = s.complaints ∧ ∀ x, Out.bcast x ∉ (FvssQ.bcastBody s o m).2) := by
  unfold FvssQ.bcastBody
  by_cases ho : s.me = o
  · rw [if_pos ho]; right; simp
  · have hod : o ≠ s.dealer := by rw [← hmd]; exact fun h => ho h.symm
    rw [if_neg ho]
    by_cases hd : s.disqualified = true
    · rw [if_pos hd]; right; simp
    · rw [if_neg hd]
      simp only []
      rw [if_neg hod]
      by_cases hl : m.length = 0
      · rw [if_pos hl]; right; simp
      · rw [if_neg hl]
        by_cases h1 : m.headD 0 = tagVerifVec
        · rw [if_pos h1]; right
          unfold FvssQ.receiveVerifVector; rw [if_pos hod]; simp
        · rw [if_neg h1]
          by_cases h2 : m.headD 0 = tagComplaint
          · rw [if_pos h2]; left; rfl
          · rw [if_neg h2]
            by_cases h3 : m.headD 0 = tagAnswer
            · rw [if_pos h3]; right
              unfold FvssQ.receiveComplaintAnswer; rw [if_pos hod]; simp
            · rw [if_neg h3]; right; simp

theorem dealer_priv_noop (s : St O) (hmd : s.me = s.dealer) (o : Nat) (m : Bytes) :
    FvssQ.privBody s o m = (s, []) := by
  unfold FvssQ.privBody
  by_cases ho : s.me = o
  · rw [if_pos ho]
  · have hod : o ≠ s.dealer := by rw [← hmd]; exact fun h => ho h.symm
    rw [if_neg ho]
    split
    · rfl
    · unfold FvssQ.receiveShare; rw [if_pos hod]

theorem reg_buildComplaint (s : St O) (k : Nat) (h : Reg s k) : Reg (FvssQ.buildComplaint s).1 k := by
  unfold FvssQ.buildComplaint
  repeat' (first | split | (simp only []; split))
  all_goals first
    | exact h
    | exact reg_setC _ _ _ _ h (fun _ => rfl)
    | exact reg_congr _ _ _ rfl (reg_setC _ _ _ _ h (fun _ => rfl))

theorem reg_tstep (s : St O) (k : Nat) (h : Reg s k) : Reg (tstep s) k := by
  rw [tstep_eq]
  repeat' split
  all_goals first
    | exact reg_congr _ _ _ rfl h
    | exact reg_buildComplaint _ k (reg_congr _ _ _ rfl h)

theorem evStep_dealer (s : St O) (hmd : s.me = s.dealer) (ev : Ev) : (evStep s ev).me = (evStep s ev).dealer := by
  cases ev with
  | dl e =>
    have c := step_cfg_any s e
    show (step s e).me = (step s e).dealer
    rw [c.1, c.2.1]; exact hmd
  | timeout =>
    show (tstep s).me = (tstep s).dealer
    rw [tstep_eq]
    repeat' (first | split | (simp only []; split))
    all_goals first
      | exact hmd
      | (have c := bc_cfg (stFlag s); rw [c.1, c.2.1]; exact hmd)

end Props.C08
