import Proofs.FisherYates
import Mathlib.Data.List.Perm.Basic
import Mathlib.Data.List.Range

/-! Inside-out Fisher–Yates reaches every permutation: for every arrangement `p` of `0..n-1` there is a valid choice
vector (`j_i ≤ i`) on which the loop of `Permutation` produces `p`. With the injectivity of `Proofs.FisherYates`
the map from the `n!` choice vectors to the `n!` permutations is a bijection, so every permutation has exactly one
choice vector — equal likelihood of the outcomes reduces to equal likelihood of the choice vectors, i.e. to the
uniformity of each `UintN(i+1)` in the bytes it consumes. -/

namespace Proofs.FisherYates
open Model Model.Prg

/-- state before step `i`, strong form: the first `i` positions hold a permutation of `0..i-1`, the others `0` -/
def PInv (n i : Nat) (a : List Nat) : Prop :=
  a.length = n ∧ (a.take i).Perm (List.range i) ∧ (∀ k (h : k < a.length), i ≤ k → a[k] = 0)

theorem pinv_inv (n i : Nat) (a : List Nat) (hi : i ≤ n) (h : PInv n i a) : Inv n i a := by
  obtain ⟨hl, hp, hz⟩ := h
  refine ⟨hl, ?_, hz⟩
  intro k hk hki
  have hm : a[k] ∈ a.take i := by
    rw [List.mem_take_iff_getElem]
    exact ⟨k, by omega, rfl⟩
  have := (hp.mem_iff).1 hm
  exact List.mem_range.1 this

/-- undo the last step: from a state after step `i` recover the choice and the state before -/
theorem unstep (n i : Nat) (a : List Nat) (hi : i < n) (h : PInv n (i + 1) a) :
    ∃ j b, j ≤ i ∧ PInv n i b ∧ step b i j = a := by
  obtain ⟨hl, hp, hz⟩ := h
  -- the value `i` sits at some position `j ≤ i`
  have hmem : i ∈ a.take (i + 1) := (hp.mem_iff).2 (List.mem_range.2 (by omega))
  obtain ⟨j, hj, hja⟩ := List.mem_take_iff_getElem.1 hmem
  have hjl : j < a.length := by omega
  have hji : j ≤ i := by omega
  have hil : i < a.length := by omega
  -- the state before: position `j` gets back what position `i` holds, position `i` is cleared
  refine ⟨j, (a.set j a[i]).set i 0, hji, ⟨by simp [hl], ?_, ?_⟩, ?_⟩
  · -- the first `i` positions are a permutation of `0..i-1`
    have hsplit : a.take (i + 1) = a.take i ++ [a[i]] := by
      rw [List.take_add_one, List.getElem?_eq_getElem hil]; rfl
    have hr : List.range (i + 1) = List.range i ++ [i] := List.range_succ
    rw [hsplit, hr] at hp
    have htake : ((a.set j a[i]).set i 0).take i = (a.set j a[i]).take i := by
      rw [List.take_set_of_le (Nat.le_refl i)]
    rw [htake]
    by_cases hje : j = i
    · subst hje
      rw [List.take_set_of_le (Nat.le_refl j)]
      have : a[j] = j := hja
      rw [this] at hp
      exact (List.perm_append_right_iff [j]).1 hp
    · have hjlt : j < i := by omega
      have hjt : j < (a.take i).length := by simp; omega
      have e1 : (a.set j a[i]).take i = (a.take i).set j a[i] := by
        rw [List.take_set]
      rw [e1]
      have p1 := List.set_perm_cons_eraseIdx hjt a[i]
      have p2 := List.getElem_cons_eraseIdx_perm hjt
      have hv : (a.take i)[j] = i := by rw [List.getElem_take]; exact hja
      rw [hv] at p2
      -- a.take i ++ [a_i] ~ range i ++ [i]
      have p3 : (a[i] :: i :: (a.take i).eraseIdx j).Perm (i :: List.range i) := by
        have : (a.take i ++ [a[i]]).Perm (a[i] :: i :: (a.take i).eraseIdx j) :=
          (List.perm_append_comm).trans (List.Perm.cons _ p2.symm)
        exact this.symm.trans (hp.trans List.perm_append_comm)
      have p4 : (i :: a[i] :: (a.take i).eraseIdx j).Perm (i :: List.range i) := (List.Perm.swap _ _ _).trans p3
      exact p1.trans (List.Perm.cons_inv p4)
  · intro k hk hik
    simp only [List.length_set] at hk
    rw [List.getElem_set]
    split
    · rfl
    · rename_i hne
      rw [List.getElem_set]
      split
      · rename_i hjk
        omega
      · exact hz k hk (by omega)
  · -- the step reproduces `a`
    apply List.ext_getElem
    · rw [step_length]; simp
    · intro k hk1 hk2
      have hbl : i < ((a.set j a[i]).set i 0).length := by simp; omega
      rw [step_get _ i j hbl hji k hk1]
      by_cases hkj : k = j
      · rw [if_pos hkj]; subst hkj; exact hja.symm
      · rw [if_neg hkj]
        by_cases hki : k = i
        · rw [if_pos hki]
          subst hki
          rw [List.getElem_set_ne (by omega), List.getElem_set_self]
        · rw [if_neg hki, List.getElem_set_ne (fun e => hki e.symm), List.getElem_set_ne (fun e => hkj e.symm)]

/-- **every state satisfying the strong invariant is reached** by some valid choice vector -/
theorem run_surj (n : Nat) : ∀ (i : Nat) (a : List Nat), i ≤ n → PInv n i a →
    ∃ js, js.length = i ∧ Valid js 0 ∧ run js 0 (List.replicate n 0) = a := by
  intro i
  induction i with
  | zero =>
    intro a _ h
    refine ⟨[], rfl, trivial, ?_⟩
    obtain ⟨hl, _, hz⟩ := h
    apply List.ext_getElem
    · simp [run, hl]
    · intro k hk1 hk2
      simp only [run, List.getElem_replicate]
      exact (hz k hk2 (Nat.zero_le _)).symm
  | succ i ih =>
    intro a hi h
    obtain ⟨j, b, hj, hb, hs⟩ := unstep n i a (by omega) h
    obtain ⟨js, hjl, hjv, hjr⟩ := ih b (by omega) hb
    refine ⟨js ++ [j], by simp [hjl], ?_, ?_⟩
    · rw [valid_append]; exact ⟨hjv, by omega⟩
    · rw [run_append, hjr, Nat.zero_add, hjl]; exact hs

/-- **the loop of `Permutation` is a bijection from valid choice vectors onto the arrangements of `0..n-1`**:
    every permutation `p` of `0..n-1` is produced by exactly one choice vector `j_0 ≤ 0, j_1 ≤ 1, …, j_{n-1} ≤ n-1` -/
theorem permutation_bijective (n : Nat) (p : List Nat) (hp : p.Perm (List.range n)) :
    ∃ js, (js.length = n ∧ Valid js 0 ∧ run js 0 (List.replicate n 0) = p) ∧
      ∀ js', js'.length = n → Valid js' 0 → run js' 0 (List.replicate n 0) = p → js' = js := by
  have hl : p.length = n := by rw [hp.length_eq, List.length_range]
  have hP : PInv n n p := ⟨hl, by rw [← hl, List.take_length, hl]; exact hp, fun k hk hnk => by omega⟩
  obtain ⟨js, h1, h2, h3⟩ := run_surj n n p (Nat.le_refl n) hP
  refine ⟨js, ⟨h1, h2, h3⟩, ?_⟩
  intro js' g1 g2 g3
  exact (run_inj n js' js 0 _ _ (by rw [g1, h1]) g2 h2 (by omega) (inv_init n) (inv_init n) (by rw [g3, h3])).1

end Proofs.FisherYates
