import Model.KmacEnc
import Mathlib.Tactic.NormNum

/-! The Go loops of `leftEncode` / `rightEncode` (hash/kmac.go) against NIST SP 800-185, for every 64-bit value. -/

namespace Model.KmacEnc

theorem u8_eq_zero (x : Nat) : (UInt8.ofNat x = 0) ↔ x % 256 = 0 := by
  constructor
  · intro h
    have := congrArg UInt8.toNat h
    simpa [UInt8.toNat_ofNat'] using this
  · intro h
    apply UInt8.toNat_inj.1
    simp [UInt8.toNat_ofNat', h]

set_option maxRecDepth 8000 in
/-- the Go loop of `leftEncode` computes the SP 800-185 encoding for every 64-bit value -/
theorem leftEncode_spec (v : Nat) (hv : v < 2 ^ 64) : Code.leftEncode v = Spec.leftEncode v := by
  by_cases c1 : v < 256
  · have a1 : v / 256 = 0 := by omega
    simp [Code.leftEncode, Spec.leftEncode, natBE, natLE, Code.skipLoop, Spec.numBytes, u8_eq_zero, c1, a1]
  by_cases c2 : v < 256 ^ 2
  · have a0 : v / 256 % 256 ≠ 0 := by omega
    have a1 : v / 256 / 256 = 0 := by omega
    have b1 : v / 256 < 256 := by omega
    simp [Code.leftEncode, Spec.leftEncode, natBE, natLE, Code.skipLoop, Spec.numBytes, u8_eq_zero, c1, a0, a1, b1]
  by_cases c3 : v < 256 ^ 3
  · have a0 : v / 256 / 256 % 256 ≠ 0 := by omega
    have a1 : v / 256 / 256 / 256 = 0 := by omega
    have b1 : ¬ v / 256 < 256 := by omega
    have b2 : v / 256 / 256 < 256 := by omega
    simp [Code.leftEncode, Spec.leftEncode, natBE, natLE, Code.skipLoop, Spec.numBytes, u8_eq_zero, c1, a0, a1, b1, b2]
  by_cases c4 : v < 256 ^ 4
  · have a0 : v / 256 / 256 / 256 % 256 ≠ 0 := by omega
    have a1 : v / 256 / 256 / 256 / 256 = 0 := by omega
    have b1 : ¬ v / 256 < 256 := by omega
    have b2 : ¬ v / 256 / 256 < 256 := by omega
    have b3 : v / 256 / 256 / 256 < 256 := by omega
    simp [Code.leftEncode, Spec.leftEncode, natBE, natLE, Code.skipLoop, Spec.numBytes, u8_eq_zero, c1, a0, a1, b1, b2, b3]
  by_cases c5 : v < 256 ^ 5
  · have a0 : v / 256 / 256 / 256 / 256 % 256 ≠ 0 := by omega
    have a1 : v / 256 / 256 / 256 / 256 / 256 = 0 := by omega
    have b1 : ¬ v / 256 < 256 := by omega
    have b2 : ¬ v / 256 / 256 < 256 := by omega
    have b3 : ¬ v / 256 / 256 / 256 < 256 := by omega
    have b4 : v / 256 / 256 / 256 / 256 < 256 := by omega
    simp [Code.leftEncode, Spec.leftEncode, natBE, natLE, Code.skipLoop, Spec.numBytes, u8_eq_zero, c1, a0, a1, b1, b2, b3, b4]
  by_cases c6 : v < 256 ^ 6
  · have a0 : v / 256 / 256 / 256 / 256 / 256 % 256 ≠ 0 := by omega
    have a1 : v / 256 / 256 / 256 / 256 / 256 / 256 = 0 := by omega
    have b1 : ¬ v / 256 < 256 := by omega
    have b2 : ¬ v / 256 / 256 < 256 := by omega
    have b3 : ¬ v / 256 / 256 / 256 < 256 := by omega
    have b4 : ¬ v / 256 / 256 / 256 / 256 < 256 := by omega
    have b5 : v / 256 / 256 / 256 / 256 / 256 < 256 := by omega
    simp [Code.leftEncode, Spec.leftEncode, natBE, natLE, Code.skipLoop, Spec.numBytes, u8_eq_zero, c1, a0, a1, b1, b2, b3, b4, b5]
  by_cases c7 : v < 256 ^ 7
  · have a0 : v / 256 / 256 / 256 / 256 / 256 / 256 % 256 ≠ 0 := by omega
    have a1 : v / 256 / 256 / 256 / 256 / 256 / 256 / 256 = 0 := by omega
    have b1 : ¬ v / 256 < 256 := by omega
    have b2 : ¬ v / 256 / 256 < 256 := by omega
    have b3 : ¬ v / 256 / 256 / 256 < 256 := by omega
    have b4 : ¬ v / 256 / 256 / 256 / 256 < 256 := by omega
    have b5 : ¬ v / 256 / 256 / 256 / 256 / 256 < 256 := by omega
    have b6 : v / 256 / 256 / 256 / 256 / 256 / 256 < 256 := by omega
    simp [Code.leftEncode, Spec.leftEncode, natBE, natLE, Code.skipLoop, Spec.numBytes, u8_eq_zero, c1, a0, a1, b1, b2, b3, b4, b5, b6]
  · have a0 : v / 256 / 256 / 256 / 256 / 256 / 256 / 256 % 256 ≠ 0 := by omega
    have a1 : v / 256 / 256 / 256 / 256 / 256 / 256 / 256 / 256 = 0 := by omega
    have b1 : ¬ v / 256 < 256 := by omega
    have b2 : ¬ v / 256 / 256 < 256 := by omega
    have b3 : ¬ v / 256 / 256 / 256 < 256 := by omega
    have b4 : ¬ v / 256 / 256 / 256 / 256 < 256 := by omega
    have b5 : ¬ v / 256 / 256 / 256 / 256 / 256 < 256 := by omega
    have b6 : ¬ v / 256 / 256 / 256 / 256 / 256 / 256 < 256 := by omega
    have b7 : v / 256 / 256 / 256 / 256 / 256 / 256 / 256 < 256 := by omega
    simp [Code.leftEncode, Spec.leftEncode, natBE, natLE, Code.skipLoop, Spec.numBytes, u8_eq_zero, c1, a0, a1, b1, b2, b3, b4, b5, b6, b7]

set_option maxRecDepth 8000 in
/-- the Go loop of `rightEncode` computes the SP 800-185 encoding for every 64-bit value -/
theorem rightEncode_spec (v : Nat) (hv : v < 2 ^ 64) : Code.rightEncode v = Spec.rightEncode v := by
  by_cases c1 : v < 256
  · have a1 : v / 256 = 0 := by omega
    simp [Code.rightEncode, Spec.rightEncode, natBE, natLE, Code.skipLoop, Spec.numBytes, u8_eq_zero, c1, a1]
  by_cases c2 : v < 256 ^ 2
  · have a0 : v / 256 % 256 ≠ 0 := by omega
    have a1 : v / 256 / 256 = 0 := by omega
    have b1 : v / 256 < 256 := by omega
    simp [Code.rightEncode, Spec.rightEncode, natBE, natLE, Code.skipLoop, Spec.numBytes, u8_eq_zero, c1, a0, a1, b1]
  by_cases c3 : v < 256 ^ 3
  · have a0 : v / 256 / 256 % 256 ≠ 0 := by omega
    have a1 : v / 256 / 256 / 256 = 0 := by omega
    have b1 : ¬ v / 256 < 256 := by omega
    have b2 : v / 256 / 256 < 256 := by omega
    simp [Code.rightEncode, Spec.rightEncode, natBE, natLE, Code.skipLoop, Spec.numBytes, u8_eq_zero, c1, a0, a1, b1, b2]
  by_cases c4 : v < 256 ^ 4
  · have a0 : v / 256 / 256 / 256 % 256 ≠ 0 := by omega
    have a1 : v / 256 / 256 / 256 / 256 = 0 := by omega
    have b1 : ¬ v / 256 < 256 := by omega
    have b2 : ¬ v / 256 / 256 < 256 := by omega
    have b3 : v / 256 / 256 / 256 < 256 := by omega
    simp [Code.rightEncode, Spec.rightEncode, natBE, natLE, Code.skipLoop, Spec.numBytes, u8_eq_zero, c1, a0, a1, b1, b2, b3]
  by_cases c5 : v < 256 ^ 5
  · have a0 : v / 256 / 256 / 256 / 256 % 256 ≠ 0 := by omega
    have a1 : v / 256 / 256 / 256 / 256 / 256 = 0 := by omega
    have b1 : ¬ v / 256 < 256 := by omega
    have b2 : ¬ v / 256 / 256 < 256 := by omega
    have b3 : ¬ v / 256 / 256 / 256 < 256 := by omega
    have b4 : v / 256 / 256 / 256 / 256 < 256 := by omega
    simp [Code.rightEncode, Spec.rightEncode, natBE, natLE, Code.skipLoop, Spec.numBytes, u8_eq_zero, c1, a0, a1, b1, b2, b3, b4]
  by_cases c6 : v < 256 ^ 6
  · have a0 : v / 256 / 256 / 256 / 256 / 256 % 256 ≠ 0 := by omega
    have a1 : v / 256 / 256 / 256 / 256 / 256 / 256 = 0 := by omega
    have b1 : ¬ v / 256 < 256 := by omega
    have b2 : ¬ v / 256 / 256 < 256 := by omega
    have b3 : ¬ v / 256 / 256 / 256 < 256 := by omega
    have b4 : ¬ v / 256 / 256 / 256 / 256 < 256 := by omega
    have b5 : v / 256 / 256 / 256 / 256 / 256 < 256 := by omega
    simp [Code.rightEncode, Spec.rightEncode, natBE, natLE, Code.skipLoop, Spec.numBytes, u8_eq_zero, c1, a0, a1, b1, b2, b3, b4, b5]
  by_cases c7 : v < 256 ^ 7
  · have a0 : v / 256 / 256 / 256 / 256 / 256 / 256 % 256 ≠ 0 := by omega
    have a1 : v / 256 / 256 / 256 / 256 / 256 / 256 / 256 = 0 := by omega
    have b1 : ¬ v / 256 < 256 := by omega
    have b2 : ¬ v / 256 / 256 < 256 := by omega
    have b3 : ¬ v / 256 / 256 / 256 < 256 := by omega
    have b4 : ¬ v / 256 / 256 / 256 / 256 < 256 := by omega
    have b5 : ¬ v / 256 / 256 / 256 / 256 / 256 < 256 := by omega
    have b6 : v / 256 / 256 / 256 / 256 / 256 / 256 < 256 := by omega
    simp [Code.rightEncode, Spec.rightEncode, natBE, natLE, Code.skipLoop, Spec.numBytes, u8_eq_zero, c1, a0, a1, b1, b2, b3, b4, b5, b6]
  · have a0 : v / 256 / 256 / 256 / 256 / 256 / 256 / 256 % 256 ≠ 0 := by omega
    have a1 : v / 256 / 256 / 256 / 256 / 256 / 256 / 256 / 256 = 0 := by omega
    have b1 : ¬ v / 256 < 256 := by omega
    have b2 : ¬ v / 256 / 256 < 256 := by omega
    have b3 : ¬ v / 256 / 256 / 256 < 256 := by omega
    have b4 : ¬ v / 256 / 256 / 256 / 256 < 256 := by omega
    have b5 : ¬ v / 256 / 256 / 256 / 256 / 256 < 256 := by omega
    have b6 : ¬ v / 256 / 256 / 256 / 256 / 256 / 256 < 256 := by omega
    have b7 : v / 256 / 256 / 256 / 256 / 256 / 256 / 256 < 256 := by omega
    simp [Code.rightEncode, Spec.rightEncode, natBE, natLE, Code.skipLoop, Spec.numBytes, u8_eq_zero, c1, a0, a1, b1, b2, b3, b4, b5, b6, b7]
end Model.KmacEnc
