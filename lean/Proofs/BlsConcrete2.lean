import Proofs.BlsConcrete

/-! The `G2` side of `Proofs/BlsConcrete.lean`: canonical representatives of the points of the curve over `F_p²`, the
public-key codec (`Bls.writeE2` / `Bls.decodePublicKey`) on the `r`-torsion group, and the facts the instantiated
theorems need about it. -/

namespace Proofs.BlsConcrete
open Model Model.Curve WeierstrassCurve.Affine

section generic2
open Proofs.CurveGroup2
variable (p : ℕ) [hp : Fact p.Prime] [h34 : Fact (∀ r : ZMod p, r ^ 2 ≠ (-1 : ZMod p) + 0 * r)] (a b : ℕ × ℕ)

/-- canonical pair of naturals of an element of `F_p²` -/
def ofK (x : K p) : ℕ × ℕ := (x.re.val, x.im.val)

omit h34 in
theorem cast_ofK (x : K p) : ((ofK p x : ℕ × ℕ) : K p) = x := by
  show φ p _ = x
  unfold φ ofK
  ext
  · simp
  · simp

omit h34 in
theorem canon_ofK (x : K p) : canon p (ofK p x) := ⟨ZMod.val_lt _, ZMod.val_lt _⟩

/-- canonical representative of a point of the curve over `F_p²` -/
def ofPoint2 : (W p a b).Point → Aff (ℕ × ℕ)
  | .zero => none
  | .some x y _ => some (ofK p x, ofK p y)

theorem toPoint_ofPoint2 (P : (W p a b).Point) : toPoint p a b (ofPoint2 p a b P) = P := by
  cases P with
  | zero => rfl
  | some x y h =>
    show toPoint p a b (some (ofK p x, ofK p y)) = _
    have h' : (W p a b).Nonsingular ((ofK p x : ℕ × ℕ) : K p) ((ofK p y : ℕ × ℕ) : K p) := by
      rw [cast_ofK, cast_ofK]; exact h
    rw [toPoint_some p a b h']
    exact some_congr p a b h' (cast_ofK p x) (cast_ofK p y) h

theorem valid_ofPoint2 (P : (W p a b).Point) : Valid p a b (ofPoint2 p a b P) := by
  cases P with
  | zero => exact True.intro
  | some x y h =>
    refine ⟨canon_ofK p x, canon_ofK p y, ?_⟩
    rw [onCurve_iff p a b (canon_ofK p x) (canon_ofK p y), cast_ofK, cast_ofK]
    exact h.1

theorem ofPoint2_toPoint (hΔ : (W p a b).Δ ≠ 0) (Q : Aff (ℕ × ℕ)) (hQ : Valid p a b Q) :
    ofPoint2 p a b (toPoint p a b Q) = Q :=
  toPoint_inj p a b hΔ _ _ (valid_ofPoint2 p a b _) hQ (toPoint_ofPoint2 p a b _)

end generic2

section bls2
open Proofs.CurveGroup2 Proofs.CurveInst2

local notation "r" => Model.Bls.r

/-- `PublicKey.Encode` on the group: the compressed encoding of the canonical representative -/
def encodePk (x : E2P) : Model.Bytes := Bls.writeE2 (ofPoint2 Bls.p (0, 0) (4, 4) x)

/-- the encoding of the abstract public key `sk • g2` is the encoding of the model's `publicKeyOf sk` -/
theorem encodePk_smul_g2 (sk : ZMod r) :
    encodePk ((sk • g2 : G2) : E2P) = Bls.writeE2 (Bls.publicKeyOf sk.val) := by
  have hr800 : r < 2 ^ 800 := by decide +kernel
  obtain ⟨k, hk⟩ : ∃ k, k = sk.val := ⟨_, rfl⟩
  have hk800 : k < 2 ^ 800 := by rw [hk]; exact lt_trans (ZMod.val_lt sk) hr800
  have m := Proofs.BlsFeldman.gmul k hk800
  unfold encodePk
  rw [smul_g2, ← hk]
  unfold Bls.publicKeyOf
  rw [bls_E2, ofPoint2_toPoint Bls.p (0, 0) (4, 4) bls2_Δ _ m.1]

/-- decoding what `encodePk` wrote gives back the point, for every element of `G2` (the identity included) -/
theorem decodePk_encodePk (x : G2) :
    Bls.decodePublicKey (encodePk x.1) = some (ofPoint2 Bls.p (0, 0) (4, 4) x.1) := by
  unfold encodePk
  have hv := valid_ofPoint2 Bls.p (0, 0) (4, 4) x.1
  have hg : Bls.inG2 (ofPoint2 Bls.p (0, 0) (4, 4) x.1) = true := by
    rw [inG2_iff_torsion _ hv, toPoint_ofPoint2]
    exact (mem_torsion x.1).1 x.2
  unfold Bls.decodePublicKey
  have hl : (Bls.writeE2 (ofPoint2 Bls.p (0, 0) (4, 4) x.1)).length = 96 := by
    have := Proofs.E2Codec.e2_roundtrip _ ((e2_valid_iff _).2 hv)
    unfold Bls.readE2 at this
    split at this
    · cases this
    · omega
  rw [if_neg (by omega), Proofs.E2Codec.e2_roundtrip _ ((e2_valid_iff _).2 hv)]
  simp only []
  rw [if_pos hg]

/-- distinct elements of `G2` have distinct encodings -/
theorem encodePk_injective (x y : G2) (h : encodePk x.1 = encodePk y.1) : x = y := by
  have hx := decodePk_encodePk x
  have hy := decodePk_encodePk y
  rw [h, hy] at hx
  have := Option.some.inj hx
  apply Subtype.ext
  rw [← toPoint_ofPoint2 Bls.p (0, 0) (4, 4) x.1, ← this, toPoint_ofPoint2]

end bls2

end Proofs.BlsConcrete
