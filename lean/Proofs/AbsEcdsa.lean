import Mathlib.Data.ZMod.Basic
import Mathlib.Algebra.Field.ZMod
import Mathlib.Algebra.Module.Basic
import Mathlib.Tactic.FieldSimp
import Mathlib.Tactic.Ring

/-! ECDSA over an abstract group of prime order `n`: the verification equation, the `(r, n-s)` twin and
sign ⇒ verify. `xc` is the map "x-coordinate reduced modulo n"; the only thing used about it is
`xc (-P) = xc P`. -/

variable {n : ℕ} [Fact n.Prime]

structure EcGroup (n : ℕ) [Fact n.Prime] where
  G : Type
  [inst : AddCommGroup G]
  [mod : Module (ZMod n) G]
  g : G
  g_order : ∀ a : ZMod n, a • g = 0 → a = 0
  xc : G → ZMod n
  xc_neg : ∀ P, xc (-P) = xc P

attribute [instance] EcGroup.inst EcGroup.mod

variable (E : EcGroup n)

/-- the verification equation on scalars `e` (hash), `r`, `s` and the public key `Q` -/
def ecVerify (Q : E.G) (e r s : ZMod n) : Prop :=
  r ≠ 0 ∧ s ≠ 0 ∧ (e * s⁻¹) • E.g + (r * s⁻¹) • Q ≠ 0 ∧ E.xc ((e * s⁻¹) • E.g + (r * s⁻¹) • Q) = r

/-- **the twin**: `(r, s)` is valid exactly when `(r, -s)` (i.e. `(r, n - s)`) is -/
theorem ecVerify_twin (Q : E.G) (e r s : ZMod n) : ecVerify E Q e r s ↔ ecVerify E Q e r (-s) := by
  unfold ecVerify
  have hX : (e * (-s)⁻¹) • E.g + (r * (-s)⁻¹) • Q = -((e * s⁻¹) • E.g + (r * s⁻¹) • Q) := by
    rw [inv_neg, mul_neg, mul_neg, neg_smul, neg_smul, neg_add]
  rw [hX, E.xc_neg, neg_ne_zero, neg_ne_zero]

/-- **every signature produced with a non-zero nonce verifies** under the signer's public key -/
theorem ec_sign_verify (d k e : ZMod n) (hk : k ≠ 0)
    (hr : E.xc (k • E.g) ≠ 0) (hs : k⁻¹ * (e + E.xc (k • E.g) * d) ≠ 0) :
    ecVerify E (d • E.g) e (E.xc (k • E.g)) (k⁻¹ * (e + E.xc (k • E.g) * d)) := by
  set r := E.xc (k • E.g) with hrdef
  have hsum : e + r * d ≠ 0 := by
    intro h0; apply hs; rw [h0, mul_zero]
  have hX : (e * (k⁻¹ * (e + r * d))⁻¹) • E.g + (r * (k⁻¹ * (e + r * d))⁻¹) • (d • E.g) = k • E.g := by
    rw [smul_smul, ← add_smul]
    congr 1
    rw [mul_inv, inv_inv]
    have : e * (k * (e + r * d)⁻¹) + r * (k * (e + r * d)⁻¹) * d = k * ((e + r * d) * (e + r * d)⁻¹) := by ring
    rw [this, mul_inv_cancel₀ hsum, mul_one]
  refine ⟨hr, hs, ?_, ?_⟩
  · rw [hX]
    intro h0
    exact hk (E.g_order k h0)
  · rw [hX]

/-- a signature valid for hash `e` is not valid for a different hash `e'` with the same `(r, s)` unless the two
    points have the same x-coordinate image: the equation depends on `e` through `X` -/
theorem ecVerify_point (Q : E.G) (e r s : ZMod n) (h : ecVerify E Q e r s) :
    ∃ X : E.G, X = (e * s⁻¹) • E.g + (r * s⁻¹) • Q ∧ X ≠ 0 ∧ E.xc X = r :=
  ⟨_, rfl, h.2.2.1, h.2.2.2⟩
