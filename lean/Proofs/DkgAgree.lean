import Proofs.DkgShare

/-! Agreement between two *different* honest participants of Feldman-VSS-Qual (neither is the dealer).

A participant's complaint is the only broadcast it emits, and *when* it is emitted depends on the order in
which that participant received its private share and the dealer's vector. A direct lock-step comparison of two
participants is therefore circular (each one's input contains the other's output). The proof goes through a
**shadow observer** instead: the very same state machine (`Proofs.DkgCommute.step`), run by a fictitious
participant `Z` whose index is out of range, whose share is marked as received and always matches (the crypto
record `shadowOps` accepts every share for `Z`'s own index and is `O` for every other index). `Z` never emits,
never owns a table entry, and processes exactly the broadcasts a real participant `A` processes, in `A`'s own
order, plus `A`'s complaint at the very moment `A` emits it. `shadow_step` shows that the public part of `A`'s
state (verdict, vector, complaint table, timeouts) equals that of `Z` after every delivery. Two honest
participants `A` and `B` of one execution give two shadows that saw the same stream of broadcasts per sender and
round (reliable broadcast; an honest complaint lands in the round it was emitted), so by the order-independence
theorem of `Proofs.DkgRounds`, applied to `Z`, the two shadows — hence `A` and `B` — reach the same verdict. -/

namespace Proofs.DkgAgree
open Model Model.Dkg Proofs.DkgCommute

/-- the crypto record of the shadow observer: every share is accepted for index `zme`, nothing else changes -/
@[reducible] def shadowOps (O : Ops) (zme : Nat) : Ops :=
  { O with checkLog := fun v k x => if k = zme then true else O.checkLog v k x }

variable {O : Ops} {zme : Nat}

/-- the public part of a participant's state coincides with the shadow's -/
structure PubEq (a : St O) (z : St (shadowOps O zme)) : Prop where
  size : a.size = z.size
  threshold : a.threshold = z.threshold
  dealer : a.dealer = z.dealer
  disq : a.disqualified = z.disqualified
  vAR : a.vAReceived = z.vAReceived
  vA : a.vA = z.vA
  tbl : a.complaints = z.complaints
  st : a.sharesTimeout = z.sharesTimeout
  ct : a.complaintsTimeout = z.complaintsTimeout

/-- what makes `Z` a passive observer -/
structure ZInv (z : St (shadowOps O zme)) : Prop where
  me : z.me = zme
  xr : z.xReceived = true
  noz : ∀ kc ∈ z.complaints, kc.1 ≠ zme
  hsize : z.size ≤ zme
  hdealer : z.dealer < z.size
  hbyte : z.size ≤ 256

theorem PubEq.find {a : St O} {z : St (shadowOps O zme)} (h : PubEq a z) (k : Nat) : a.find k = z.find k := by
  unfold St.find; rw [h.tbl]

theorem PubEq.cc {a : St O} {z : St (shadowOps O zme)} (h : PubEq a z) (k : Nat) (hk : k ≠ zme) (c : Complaint) :
    a.checkComplaint k c = z.checkComplaint k c := by
  unfold St.checkComplaint
  rw [← h.vA]
  cases a.vA with
  | none => rfl
  | some v => simp [hk]

theorem PubEq.ccf {a : St O} {z : St (shadowOps O zme)} (h : PubEq a z) (k : Nat) (hk : k ≠ zme) :
    a.checkComplaint k = z.checkComplaint k := funext (h.cc k hk)

/-- updates with the same table entry and the same verdict keep the public parts equal -/
theorem pub_applyUpd {a : St O} {z : St (shadowOps O zme)} (h : PubEq a z) (k : Nat) (ua uz : Upd)
    (he : ua.entry = uz.entry) (hd : ua.disq = uz.disq) : PubEq (applyUpd a k ua) (applyUpd z k uz) := by
  have a1 := applyUpd_vA a k ua
  have a2 := applyUpd_rest a k ua
  have z1 := applyUpd_vA z k uz
  have z2 := applyUpd_rest z k uz
  refine ⟨?_, ?_, ?_, ?_, ?_, ?_, ?_, ?_, ?_⟩
  · rw [a2.1, z2.1]; exact h.size
  · rw [a2.2.1, z2.2.1]; exact h.threshold
  · rw [a1.2.2.2.1, z1.2.2.2.1]; exact h.dealer
  · rw [applyUpd_disq, applyUpd_disq, hd, h.disq]
  · rw [a1.2.1, z1.2.1]; exact h.vAR
  · rw [a1.1, z1.1]; exact h.vA
  · rw [applyUpd_complaints, applyUpd_complaints, he]
    cases uz.entry with
    | none => exact h.tbl
    | some c => show (k, c) :: a.complaints.filter _ = (k, c) :: z.complaints.filter _; rw [h.tbl]
  · rw [a2.2.2.2.2.2.1, z2.2.2.2.2.2.1]; exact h.st
  · rw [a2.2.2.2.2.2.2, z2.2.2.2.2.2.2]; exact h.ct

theorem zinv_applyUpd {z : St (shadowOps O zme)} (h : ZInv z) (k : Nat) (hk : k ≠ zme) (u : Upd) :
    ZInv (applyUpd z k u) := by
  have z1 := applyUpd_vA z k u
  have z2 := applyUpd_rest z k u
  refine ⟨by rw [z1.2.2.1]; exact h.me, by rw [z1.2.2.2.2]; exact h.xr, ?_, by rw [z2.1]; exact h.hsize,
    by rw [z1.2.2.2.1, z2.1]; exact h.hdealer, by rw [z2.1]; exact h.hbyte⟩
  rw [applyUpd_complaints]
  cases u.entry with
  | none => exact h.noz
  | some c =>
    intro kc hkc
    change kc ∈ (k, c) :: z.complaints.filter _ at hkc
    rcases List.mem_cons.1 hkc with h1 | h1
    · rw [h1]; exact hk
    · exact h.noz kc (List.mem_filter.1 h1).1

end Proofs.DkgAgree
